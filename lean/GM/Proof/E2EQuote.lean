/-
  GM.Proof.E2EQuote — C08 AT HTML LEVEL on the composed model: from the block-TREE relation of package quotesim2 (`StoreRel D nA nB`:
  the store of `quotePrefix D` is Document[Blockquote[the store of `D`, node ids + 1, segments moved by the markers]]) to
  `convertCore uc o (quotePrefix D) = "<blockquote>\n" ++ convertCore uc o D ++ "</blockquote>\n"`, for sources without `[`.

  What is proved here: the renderer's view of every block node is the same in both trees (`docTree_quote`) — kinds, levels, list
  data are equal fields of `NodeRel`; the VALUES of lines / info / closure segments of raw blocks are equal (`html_value_q`); the
  run-time `WF0` check passes on the moved lines (block-phase facts of package tnopanic for `quotePrefix D`) — GIVEN the one named
  hypothesis `InlineQuoteInvariant`: the inline phase of a block answers the same renderer tree on the lines moved by the markers.
  NOTE for whoever proves it: "the inline phase depends only on the VALUES of the lines" is NOT true as stated —
  `BlockReader.precendingCharacter` (reader.go:376-390) reads the source byte BEFORE a line's start (flanking of `*` / `_` at the
  beginning of a continuation line); under the marker shift that byte is the same byte of the same line, or `\n` in `D` and the
  space of `> ` in `quotePrefix D` — both white space. The hypothesis is therefore stated on `SegsRel` (which knows this), not on
  bare values.
-/
import GM.Props.ConvertE2E
import GM.Props.ConvertNP
import GM.Props.Blocks
import GM.Proof.QuoteSimTop
import GM.Proof.QuoteSimLists
import GM.Proof.QuoteSimHtml

namespace GM.E2E.Quote
open GM GM.Text GM.Convert GM.Spec GM.E2E GM.Blocks
open GM.Proof.InlinesReader (WF0)

/-- **the key lemma, as a named hypothesis, for ONE block**: the inline phase on the lines `L` of `D` and on the lines `L'` of
    `quotePrefix D` answers the same renderer trees — for any reference maps (never consulted without `[`) and the same Unicode
    classes -/
def InlineQuoteStep (D : Bytes) (L L' : List Segment) : Prop :=
  ∀ (env env' : GM.Inl.Env), env'.uc = env.uc → env.escapedSpace = false → env'.escapedSpace = false →
    WF0 D L → WF0 (quotePrefix D) L' →
    ∀ kids, GM.Inl.parseBlock env D L = .ok kids →
      ∃ kids', GM.Inl.parseBlock env' (quotePrefix D) L' = .ok kids' ∧ inlineTrees (quotePrefix D) kids' = inlineTrees D kids

/-- … for ONE source `D`: for all lines moved by the quote markers (`SegsRel D L L'`) -/
def InlineQuoteInvariantAt (D : Bytes) : Prop := ∀ (L L' : List Segment), SegsRel D L L' → InlineQuoteStep D L L'

/-- … for every source without `[` -/
def InlineQuoteInvariant : Prop := ∀ D : Bytes, NoBracket D → InlineQuoteInvariantAt D

/-! ### values of related segments -/

theorem segValues_rel {D : Bytes} : ∀ (L L' : List Segment), SegsRel D L L' → segValues (quotePrefix D) L' = segValues D L
  | [], [], _ => rfl
  | [], _ :: _, h => h.elim
  | _ :: _, [], h => h.elim
  | s :: L, t :: L', ⟨h1, h2⟩ => by
    simp only [segValues]
    rw [GM.Blocks.html_value_q h1, segValues_rel L L' h2]

theorem segsRel_length {D : Bytes} : ∀ (L L' : List Segment), SegsRel D L L' → L'.length = L.length
  | [], [], _ => rfl
  | [], _ :: _, h => h.elim
  | _ :: _, [], h => h.elim
  | _ :: L, _ :: L', ⟨_, h2⟩ => by simp [segsRel_length L L' h2]

/-- the renderer's kind of related nodes: equal, except that A's Document stands for B's Blockquote -/
theorem blockKind_rel {D : Bytes} {root : Bool} {a b : Blocks.Node} (h : NodeRel D root a b) {k : GM.Kind}
    (hk : blockKind D a = .ok k) : blockKind (quotePrefix D) b = .ok (if root then .blockquote else k) := by
  cases root with
  | true =>
    have h1 := h.kind
    simp only [if_true] at h1
    unfold blockKind
    rw [h1.1]
    rfl
  | false =>
    have h1 : b.kind = a.kind := by have := h.kind; simpa using this
    simp only [Bool.false_eq_true, if_false]
    unfold blockKind at hk ⊢
    rw [h1]
    cases hka : a.kind <;> rw [hka] at hk <;> simp only [] at hk ⊢
    all_goals first
      | exact hk
      | (rw [h.level]; exact hk)
      | (rw [h.marker, h.start]; exact hk)
      | skip
    · -- codeBlock
      rw [segValues_rel _ _ h.lines]; exact hk
    · -- fencedCodeBlock
      have hi := h.info
      cases hia : a.info with
      | none =>
        rw [hia] at hi hk
        cases hib : b.info with
        | none => simp only [] at hk ⊢; rw [segValues_rel _ _ h.lines]; exact hk
        | some t => rw [hib] at hi; exact hi.elim
      | some sg =>
        rw [hia] at hi hk
        cases hib : b.info with
        | none => rw [hib] at hi; exact hi.elim
        | some t =>
          rw [hib] at hi
          simp only [] at hk ⊢
          rw [GM.Blocks.html_value_q hi, segValues_rel _ _ h.lines]; exact hk
    · -- htmlBlock
      rw [segValues_rel _ _ h.lines]
      rcases h.closure with ⟨hneg, heq⟩ | hc
      · rw [heq]
        have : ¬ (a.closure.start ≥ 0) := by omega
        rw [if_neg this] at hk ⊢
        exact hk
      · obtain ⟨kk, ls, hl, g1, g2, g3, e⟩ := hc
        have hge : a.closure.start ≥ 0 := by omega
        have hge' : b.closure.start ≥ 0 := by rw [e]; simp only [shK]; omega
        rw [if_pos hge] at hk
        rw [if_pos hge', GM.Blocks.html_value_q ⟨kk, ls, hl, g1, g2, g3, e⟩]
        exact hk

/-! ### the inline phase and the tree conversion of related nodes -/

theorem isRaw_eq (k : Blocks.Kind) : GM.Proof.BlocksWF0.isRaw k = isRawKind k := by cases k <;> rfl

theorem wfSegsFromB_complete (src : Bytes) : ∀ (segs : List Segment) (lo : Int),
    WFSegsFrom src lo segs → GM.LinkRef.wfSegsFromB src lo segs = true
  | [], _, _ => rfl
  | s :: rest, lo, h => by
    obtain ⟨h1, h2, h3, h4, h5, h6⟩ := h
    simp only [GM.LinkRef.wfSegsFromB, Bool.and_eq_true, decide_eq_true_eq, Bool.not_eq_true']
    exact ⟨⟨⟨⟨⟨h1, h2⟩, h3⟩, h4⟩, h5⟩, wfSegsFromB_complete src rest s.stop h6⟩

theorem wf0B_complete {src : Bytes} {segs : List Segment} (h : WF0 src segs) : GM.LinkRef.wf0B src segs = true := by
  obtain ⟨⟨hne, hw⟩, hp⟩ := h
  simp only [GM.LinkRef.wf0B, GM.LinkRef.wfSegsB, GM.LinkRef.pad0B, Bool.and_eq_true, Bool.not_eq_true',
    List.all_eq_true, beq_iff_eq]
  refine ⟨⟨?_, wfSegsFromB_complete src segs 0 hw⟩, hp⟩
  cases segs with
  | nil => exact absurd rfl hne
  | cons a b => rfl

/-- what the tree phases need of a node of the prefixed store -/
def WFB (Q : Bytes) (b : Blocks.Node) : Prop := isRawKind b.kind = false → b.lines ≠ [] → WF0 Q b.lines

/-- the renderer node with A's Document read as B's Blockquote -/
def requote (root : Bool) : GM.Node → GM.Node
  | .mk k a cs => .mk (if root then .blockquote else k) a cs

theorem requote_false (x : GM.Node) : requote false x = x := by cases x; rfl

section rel
variable {D : Bytes} (env env' : GM.Inl.Env) (huc : env'.uc = env.uc) (hes : env.escapedSpace = false)
  (hes' : env'.escapedSpace = false)
include huc hes hes'

theorem inlinePhase_rel {root : Bool} {a b : Blocks.Node} (h : NodeRel D root a b)
    (KEY : isRawKind a.kind = false → a.lines ≠ [] → InlineQuoteStep D a.lines b.lines) (hw : WFB (quotePrefix D) b)
    {kids : List GM.Inl.Node} (hk : inlinePhase true env D a = .ok kids) :
    ∃ kids', inlinePhase true env' (quotePrefix D) b = .ok kids' ∧ inlineTrees (quotePrefix D) kids' = inlineTrees D kids := by
  have hraw : isRawKind b.kind = isRawKind a.kind := by
    cases root with
    | true => have := h.kind; simp only [if_true] at this; rw [this.1, this.2]; rfl
    | false => have := h.kind; simp only [Bool.false_eq_true, if_false] at this; rw [this]
  have hlen := segsRel_length _ _ h.lines
  unfold inlinePhase at hk ⊢
  rw [hraw]
  split at hk
  · rename_i hr; rw [if_pos hr]; cases hk; exact ⟨[], rfl, rfl⟩
  · rename_i hr
    rw [if_neg hr]
    have hemp : b.lines.isEmpty = a.lines.isEmpty := by
      cases ha : a.lines <;> cases hb' : b.lines <;> simp [ha, hb'] at hlen ⊢
    rw [hemp]
    split at hk
    · rename_i he; rw [if_pos he]; cases hk; exact ⟨[], rfl, rfl⟩
    · rename_i he
      rw [if_neg he]
      split at hk
      · cases hk
      · rename_i hg
        have hwa : WF0 D a.lines := by
          have : GM.LinkRef.wf0B D a.lines = true := by simpa using hg
          exact GM.Proof.LinkRefTotal.wf0B_sound this
        have hne : b.lines ≠ [] := by
          intro e; rw [e] at hemp; exact he (by simpa using hemp.symm)
        have hwb : WF0 (quotePrefix D) b.lines := hw (by rw [hraw]; simpa using hr) hne
        rw [wf0B_complete hwb]
        simp only [Bool.not_true, Bool.and_false, Bool.false_eq_true, if_false]
        obtain ⟨ks, hks⟩ : ∃ ks, GM.Inl.parseBlock env D a.lines = .ok ks := by
          cases hp : GM.Inl.parseBlock env D a.lines with
          | error e => rw [hp] at hk; simp [liftErr] at hk
          | ok ks => exact ⟨ks, rfl⟩
        rw [hks] at hk
        simp only [liftErr] at hk
        cases hk
        obtain ⟨kids', h1, h2⟩ := KEY (by simpa using hr) (by intro e; exact he (by simp [e])) env env' huc hes hes' hwa hwb _ hks
        exact ⟨kids', by rw [h1]; rfl, h2⟩

variable {nA nB : List Blocks.Node} (hrel : StoreRel D nA nB)
  (hz : ∀ p c, c ∈ (nA.getD p default).children → c ≠ 0)
  (hW : ∀ p c, c ∈ (nB.getD p default).children → WFB (quotePrefix D) (nB.getD c default))
  (KEY : ∀ i, isRawKind (nA.getD i default).kind = false → (nA.getD i default).lines ≠ [] →
    InlineQuoteStep D (nA.getD i default).lines (nB.getD (i + 1) default).lines)
include hrel hz hW KEY

theorem docTree_quote : ∀ (fuel i : Nat) (x : GM.Node), (∃ p, i + 1 ∈ (nB.getD p default).children) →
    docTree true env D (treeOf nA fuel i) = .ok x →
    docTree true env' (quotePrefix D) (treeOf nB fuel (i + 1)) = .ok (requote (i == 0) x) := by
  intro fuel
  induction fuel with
  | zero =>
    intro i x hch h
    obtain ⟨p, hp⟩ := hch
    simp only [treeOf] at h ⊢
    unfold docTree at h ⊢
    unfold docTrees at h ⊢
    simp only [bind, Except.bind, pure, Except.pure] at h ⊢
    obtain ⟨kids, hk, h⟩ : ∃ kids, inlinePhase true env D (nA.getD i default) = .ok kids ∧ _ := by
      cases hq : inlinePhase true env D (nA.getD i default) with
      | error e => rw [hq] at h; cases h
      | ok kids => rw [hq] at h; exact ⟨kids, rfl, h⟩
    obtain ⟨kids', hk', hv⟩ := inlinePhase_rel env env' huc hes hes' (hrel.node i) (KEY i) (hW p _ hp) hk
    rw [hk']
    simp only [] at h ⊢
    rw [hv]
    cases hi : liftErr Err.value (inlineTrees D kids) with
    | error e => rw [hi] at h; cases h
    | ok is =>
      rw [hi] at h
      simp only [] at h ⊢
      cases hkk : blockKind D (nA.getD i default) with
      | error e => rw [hkk] at h; simp [liftErr] at h
      | ok k =>
        rw [hkk] at h
        rw [blockKind_rel (hrel.node i) hkk]
        simp only [liftErr] at h ⊢
        cases h
        rfl
  | succ fuel ih =>
    intro i x hch h
    obtain ⟨p, hp⟩ := hch
    simp only [treeOf] at h ⊢
    unfold docTree at h ⊢
    simp only [bind, Except.bind, pure, Except.pure] at h ⊢
    -- the children
    have hkids : ∀ (cs : List Nat) (xs : List GM.Node), (∀ c ∈ cs, c ∈ (nA.getD i default).children) →
        docTrees true env D (cs.map (treeOf nA fuel)) = .ok xs →
        docTrees true env' (quotePrefix D) ((cs.map (· + 1)).map (treeOf nB fuel)) = .ok xs := by
      intro cs
      induction cs with
      | nil => intro xs _ hx; exact hx
      | cons c rest ihc =>
        intro xs hmem hx
        simp only [List.map] at hx ⊢
        unfold docTrees at hx ⊢
        simp only [bind, Except.bind, pure, Except.pure] at hx ⊢
        cases h1 : docTree true env D (treeOf nA fuel c) with
        | error e => rw [h1] at hx; cases hx
        | ok y =>
          rw [h1] at hx
          have hc : c ∈ (nA.getD i default).children := hmem c (List.mem_cons_self ..)
          have hc0 : c ≠ 0 := hz i c hc
          have hcB : c + 1 ∈ (nB.getD (i + 1) default).children := by
            rw [(hrel.node i).children]; exact List.mem_map_of_mem hc
          have := ih c y ⟨i + 1, hcB⟩ h1
          have hb0 : (c == 0) = false := by simpa using hc0
          rw [hb0, requote_false] at this
          rw [this]
          simp only [] at hx ⊢
          cases h2 : docTrees true env D (rest.map (treeOf nA fuel)) with
          | error e => rw [h2] at hx; cases hx
          | ok ys =>
            rw [h2] at hx
            rw [ihc ys (fun c' hc' => hmem c' (List.mem_cons_of_mem _ hc')) h2]
            exact hx
    cases hbs : docTrees true env D ((nA.getD i default).children.map (treeOf nA fuel)) with
    | error e => rw [hbs] at h; cases h
    | ok bs =>
      rw [hbs] at h
      rw [(hrel.node i).children, hkids _ bs (fun _ hc => hc) hbs]
      simp only [] at h ⊢
      obtain ⟨kids, hk, h⟩ : ∃ kids, inlinePhase true env D (nA.getD i default) = .ok kids ∧ _ := by
        cases hq : inlinePhase true env D (nA.getD i default) with
        | error e => rw [hq] at h; cases h
        | ok kids => rw [hq] at h; exact ⟨kids, rfl, h⟩
      obtain ⟨kids', hk', hv⟩ := inlinePhase_rel env env' huc hes hes' (hrel.node i) (KEY i) (hW p _ hp) hk
      rw [hk']
      simp only [] at h ⊢
      rw [hv]
      cases hi : liftErr Err.value (inlineTrees D kids) with
      | error e => rw [hi] at h; cases h
      | ok is =>
        rw [hi] at h
        simp only [] at h ⊢
        cases hkk : blockKind D (nA.getD i default) with
        | error e => rw [hkk] at h; simp [liftErr] at h
        | ok k =>
          rw [hkk] at h
          rw [blockKind_rel (hrel.node i) hkk]
          simp only [liftErr] at h ⊢
          cases h
          rfl

end rel

/-! ### the composition -/

theorem blockPhase_eq_run {D : Bytes} (hb : NoBracket D) : blockPhase true D = GM.Blocks.run D := by
  rcases GM.Props.ConvertE2E.block_phase_bracket_free true D hb with h | ⟨e, h⟩
  · exact h
  · obtain ⟨s, hs, _⟩ := GM.Props.ConvertNP.block_phase_total D
    rw [hs] at h; cases h

theorem mem_quotePrefixGo : ∀ (s : Bytes) (b : Bool) (c : UInt8), c ∈ quotePrefixGo s b → c = 62 ∨ c = 32 ∨ c ∈ s
  | [], _, c, h => by simp [quotePrefixGo] at h
  | x :: xs, b, c, h => by
    simp only [quotePrefixGo, List.mem_append, List.mem_cons] at h
    rcases h with h | h | h
    · cases b <;> simp at h
      rcases h with h | h
      · exact .inl h
      · exact .inr (.inl h)
    · exact .inr (.inr (by simp [h]))
    · rcases mem_quotePrefixGo xs _ c h with h | h | h
      · exact .inl h
      · exact .inr (.inl h)
      · exact .inr (.inr (by simp [h]))

theorem noBracket_quotePrefix {D : Bytes} (h : NoBracket D) : NoBracket (quotePrefix D) := by
  intro b hb
  rcases mem_quotePrefixGo D true b hb with rfl | rfl | hm
  · decide
  · decide
  · exact h b hm

theorem docTree_shape {g : Bool} {env : GM.Inl.Env} {D : Bytes} {n : Blocks.Node} {cs : List Blocks.Tree} {t : GM.Node}
    (h : docTree g env D (.node n cs) = .ok t) : ∃ k xs, t = .mk k none xs ∧ blockKind D n = .ok k := by
  unfold docTree at h
  simp only [bind, Except.bind, pure, Except.pure] at h
  split at h
  · cases h
  split at h
  · cases h
  split at h
  · cases h
  cases hk : blockKind D n with
  | error e => rw [hk] at h; simp [liftErr] at h
  | ok k => rw [hk] at h; simp only [liftErr] at h; cases h; exact ⟨_, _, rfl, rfl⟩

theorem treeOf_node (nodes : List Blocks.Node) (f i : Nat) : ∃ cs, treeOf nodes f i = .node (nodes.getD i default) cs := by
  cases f with
  | zero => exact ⟨_, rfl⟩
  | succ f => exact ⟨_, rfl⟩

/-- what `renderer.Render` writes for a Document whose only child is a Blockquote -/
theorem render_quote (rc : RCfg) (xs : List GM.Node) :
    render rc (.mk .document none [.mk .blockquote none xs]) =
      strBytes "<blockquote>\n" ++ render rc (.mk .document none xs) ++ strBytes "</blockquote>\n" := by
  unfold render
  rw [GM.Proof.RenderWF.renderNode_mk, GM.Proof.RenderWF.renderNode_mk]
  simp only [GM.Proof.RenderWF.renderNodes_cons, GM.Proof.RenderWF.renderNodes_nil, GM.Proof.RenderWF.renderNode_mk, List.head?]
  simp [enter, leave, handled, skipsChildren, Kind.isTableHeader]
  decide +kernel

/-- **the renderer's tree of a block-quoted source, from a store relation**: Document[Blockquote[the children of `D`'s tree]] -/
theorem parseDoc_quote_prefix_of_rel (uc : List (Nat × (Bool × Bool))) (D : Bytes)
    (hb : NoBracket D) (sA sB : St) (hA : GM.Blocks.run D = .ok sA) (hB : GM.Blocks.run (quotePrefix D) = .ok sB)
    (hrel : StoreRel D sA.nodes sB.nodes)
    (KEY : ∀ i, isRawKind (sA.nodes.getD i default).kind = false → (sA.nodes.getD i default).lines ≠ [] →
      InlineQuoteStep D (sA.nodes.getD i default).lines (sB.nodes.getD (i + 1) default).lines) (t : GM.Node)
    (hpt : parseDoc true uc D = .ok t) :
    ∃ xs, t = .mk .document none xs ∧
      parseDoc true uc (quotePrefix D) = .ok (.mk .document none [.mk .blockquote none xs]) := by
  have hbQ := noBracket_quotePrefix hb
  have hpA : blockPhase true D = .ok sA := by rw [blockPhase_eq_run hb]; exact hA
  have hpB : blockPhase true (quotePrefix D) = .ok sB := by rw [blockPhase_eq_run hbQ]; exact hB
  have tA := GM.Props.ConvertNP.block_phase_tree_consistent D sA hpA
  have tB := GM.Props.ConvertNP.block_phase_tree_consistent _ sB hpB
  have hz : ∀ p c, c ∈ (sA.nodes.getD p default).children → c ≠ 0 := fun p c hc => by
    have := (tA.kid_lt hc).1; omega
  have hW : ∀ p c, c ∈ (sB.nodes.getD p default).children → WFB (quotePrefix D) (sB.nodes.getD c default) := by
    intro p c hc hraw hne
    have hlt := (tB.kid_lt hc).2
    have hmem : sB.nodes.getD c default ∈ sB.nodes := by
      rw [List.getD_eq_getElem?_getD, List.getElem?_eq_getElem hlt, Option.getD_some]; exact List.getElem_mem _
    have hr : GM.Proof.BlocksWF0.isRaw (sB.nodes.getD c default).kind = false := by rw [isRaw_eq]; exact hraw
    obtain ⟨_, _, hwf⟩ := (GM.Props.ConvertNP.block_phase_lines_wellformed _ sB hpB).1 _ hmem hr
    exact ⟨hwf hne, (GM.Props.ConvertNP.block_phase_lines_padding_zero _ sB hpB).1 p c hc hr⟩
  unfold parseDoc at hpt
  rw [hpA] at hpt
  simp only [liftErr, bind, Except.bind] at hpt
  have hq := docTree_quote { refs := sA.pc.refs, uc := uc } { refs := sB.pc.refs, uc := uc } rfl rfl rfl hrel hz hW KEY
    sA.nodes.length 0 t ⟨0, by rw [hrel.doc.2]; simp⟩ hpt
  obtain ⟨cs, hcs⟩ := treeOf_node sA.nodes sA.nodes.length 0
  rw [hcs] at hpt
  obtain ⟨k, xs, rfl, hk⟩ := docTree_shape hpt
  have hk0 : k = .document := by
    have := (hrel.node 0).kind
    simp only [beq_self_eq_true, if_true] at this
    unfold blockKind at hk
    rw [this.2] at hk
    cases hk; rfl
  subst hk0
  refine ⟨xs, rfl, ?_⟩
  unfold parseDoc
  rw [hpB]
  simp only [liftErr, bind, Except.bind]
  rw [hrel.len]
  simp only [treeOf]
  rw [hrel.doc0]
  simp only [List.map]
  unfold docTree
  unfold docTrees
  simp only [bind, Except.bind, pure, Except.pure]
  rw [hq]
  unfold docTrees
  simp [inlinePhase, isRawKind, blockKind, inlineTrees, liftErr, requote, pure, Except.pure]

/-- **the composed model on a block-quoted source, from a store relation** -/
theorem convert_quote_prefix_of_rel (uc : List (Nat × (Bool × Bool))) (o : ROpts) (D : Bytes)
    (hb : NoBracket D) (sA sB : St) (hA : GM.Blocks.run D = .ok sA) (hB : GM.Blocks.run (quotePrefix D) = .ok sB)
    (hrel : StoreRel D sA.nodes sB.nodes)
    (KEY : ∀ i, isRawKind (sA.nodes.getD i default).kind = false → (sA.nodes.getD i default).lines ≠ [] →
      InlineQuoteStep D (sA.nodes.getD i default).lines (sB.nodes.getD (i + 1) default).lines) (html : Bytes)
    (h : convertCore uc o D = .ok html) :
    convertCore uc o (quotePrefix D) = .ok (strBytes "<blockquote>\n" ++ html ++ strBytes "</blockquote>\n") := by
  unfold convertCore at h ⊢
  obtain ⟨t, hpt, rfl⟩ := convertWith_ok h
  obtain ⟨xs, rfl, hpQ⟩ := parseDoc_quote_prefix_of_rel uc D hb sA sB hA hB hrel KEY _ hpt
  rw [convertWith_of_tree o hpQ, render_quote]

end GM.E2E.Quote
