/-
  GM.Proof.BlocksTNO14 — the close discipline through the end of one iteration of the `for i` loop of parseBlocksT
  (GM.Proof.BlocksClosedRun for the driver WITH transformers): `closeBlocksT_mid`, `lineTailT_clG` — `openBlocksT`, then
  `closeBlocksT(lastIndex, i)`; the window of `openBlocksT` comes from the no-panic walk (`L.G.openBlocksL`, black box).
-/
import GM.Proof.BlocksTNO39

namespace GM.Blocks.TX
open GM GM.Text GM.Spec GM.Proof.Reader GM.LinkRef GM.Blocks.L GM.Blocks.T GM.Blocks.TO GM.TableX
open GM.Proof.BlocksWF0 (isRaw)

/-- closeBlocks over an empty range (`from = to - 1`): no `Close`, the stack is rebuilt as it was -/
theorem closeBlocksT_nop {pts : List PT} {s s' : St} (tn : Nat) (htl : tn ≤ s.pc.opened.length)
    (e : closeBlocksT pts ((tn : Int) - 1) (tn : Int) s = .ok ((), s')) :
    s'.nodes = s.nodes ∧ s'.r = s.r ∧ s'.pc.opened = s.pc.opened ∧ s'.pc.tmpPara = s.pc.tmpPara := by
  unfold closeBlocksT at e
  obtain ⟨pc, s0, h0, k0⟩ := obind_ok e
  obtain ⟨hpc, hs0⟩ := ogetPc_ok h0
  subst s0
  subst pc
  obtain ⟨_, s2, h2, k2⟩ := obind_ok k0
  have hk : ((tn : Int) - 1 - (tn : Int) + 1).toNat = 0 := by omega
  rw [hk] at h2
  unfold closeLoopT at h2
  obtain ⟨_, hs2⟩ := opure_ok h2
  subst s2
  have hfin : ∀ (bl : List Block), bl = s.pc.opened → (modPc fun pc => { pc with opened := bl }) s = .ok ((), s') →
      s'.nodes = s.nodes ∧ s'.r = s.r ∧ s'.pc.opened = s.pc.opened ∧ s'.pc.tmpPara = s.pc.tmpPara := by
    intro bl hbl k3
    have := omodPc_ok k3
    subst this
    exact ⟨rfl, rfl, hbl, rfl⟩
  have hslice0 : closeBlocks.slice' s.pc.opened 0 (tn : Int) = .ok (s.pc.opened.take tn) := by
    unfold closeBlocks.slice'
    rw [if_pos ⟨by omega, by omega, by omega⟩]
    simp
  have hslice1 : closeBlocks.slice' s.pc.opened ((tn : Int) - 1 + 1) (s.pc.opened.length : Int) =
      .ok (s.pc.opened.drop tn) := by
    unfold closeBlocks.slice'
    rw [if_pos ⟨by omega, by omega, by omega⟩]
    have e1 : ((tn : Int) - 1 + 1).toNat = tn := by omega
    have e2 : ((s.pc.opened.length : Int) - ((tn : Int) - 1 + 1)).toNat = s.pc.opened.length - tn := by omega
    rw [e1, e2, List.take_of_length_le (by simp)]
  dsimp only at k2
  split at k2
  · next hlast =>
    obtain ⟨bl, s3, h3, k3⟩ := obind_ok k2
    obtain ⟨hb, hs3⟩ := oliftE_ok h3
    subst s3
    rw [hslice0] at hb
    cases hb
    have hfl' : tn = s.pc.opened.length := by
      have : (tn : Int) - 1 = (s.pc.opened.length : Int) - 1 := by simpa using hlast
      omega
    refine hfin _ ?_ k3
    rw [hfl', List.take_length]
  · obtain ⟨a, s4, h4, k4⟩ := obind_ok k2
    obtain ⟨ha, hs4⟩ := oliftE_ok h4
    subst s4
    obtain ⟨b, s5, h5, k5⟩ := obind_ok k4
    obtain ⟨hb, hs5⟩ := oliftE_ok h5
    subst s5
    obtain ⟨bl, s6, h6, k6⟩ := obind_ok k5
    obtain ⟨hbl, hs6⟩ := opure_ok h6
    subst s6
    rw [hslice0] at ha
    rw [hslice1] at hb
    cases ha
    cases hb
    exact hfin _ (by rw [hbl, List.take_append_drop]) k6


section mid
variable {src : Bytes} {pts : List PT} (hag : AgreeP src pts pts) (hagT : AgreeT src pts)
include hag hagT

/-- **closeBlocks on the middle of the stack** `pre ++ mid ++ new`, in the form the line loop calls it
    (`closeBlocks(len(pre)+len(mid)-1, len(pre))`): `mid` is closed, top first; `pre ++ new` stays -/
theorem closeBlocksT_mid {s s' : St} (pre mid new : List Block) (hop : s.pc.opened = pre ++ mid ++ new)
    (h : CInvG False src s s.pc.opened) (hsrc : s.r.source = src)
    (hcont : ∀ b ∈ mid.reverse.tail, b.bp.isContainer = true)
    (hG : ∀ g ∈ pre ++ new, PSb g → Guard s mid.reverse g)
    (e : closeBlocksT pts ((pre.length : Int) + (mid.length : Int) - 1) (pre.length : Int) s = .ok ((), s')) :
    CInvG False src s' s'.pc.opened ∧ s'.pc.opened = pre ++ new ∧ s'.r = s.r := by
  cases hm : mid with
  | nil =>
    subst hm
    have e' : closeBlocksT pts ((pre.length : Int) - 1) (pre.length : Int) s = .ok ((), s') := by
      have : (pre.length : Int) + (([] : List Block).length : Int) - 1 = (pre.length : Int) - 1 := by simp
      rw [this] at e; exact e
    obtain ⟨a1, a2, a3, a4⟩ := closeBlocksT_nop (pts := pts) pre.length (by rw [hop]; simp) e'
    refine ⟨by rw [a3]; exact h.of_same a1 a3 a4, by rw [a3, hop]; simp, a2⟩
  | cons m ms =>
    have hml : 1 ≤ mid.length := by rw [hm]; simp
    have e1 : (pre.length : Int) + (mid.length : Int) - 1 = ((pre.length + mid.length - 1 : Nat) : Int) := by omega
    rw [← hm] at *
    rw [e1] at e
    have hfn : pre.length + mid.length - 1 - pre.length + 1 = mid.length := by omega
    have hfn1 : pre.length + mid.length - 1 + 1 = pre.length + mid.length := by omega
    have hmidE : (s.pc.opened.drop pre.length).take (pre.length + mid.length - 1 - pre.length + 1) = mid := by
      rw [hfn, hop]; simp
    have htakeE : s.pc.opened.take pre.length = pre := by rw [hop]; simp
    have hdropE : s.pc.opened.drop (pre.length + mid.length - 1 + 1) = new := by rw [hfn1, hop]; simp
    obtain ⟨a1, a2, a3⟩ := closeBlocksT_clG hag hagT pre.length (pre.length + mid.length - 1) (by omega)
      (by rw [hop]; simp; omega) h hsrc (by rw [hmidE]; exact hcont) (by rw [htakeE, hdropE, hmidE]; exact hG) e
    rw [htakeE, hdropE] at a1 a2 a3
    exact ⟨by rw [a3]; exact a1, a3, a2.r⟩


omit hag hagT in
/-- the stack ids increase, so the node below a suffix of the stack is smaller than the nodes of the suffix -/
theorem lastNode_lt_of_incr {root : Nat} {pre mid : List Block}
    (h : (root :: (pre ++ mid).map (·.node)).Pairwise (· < ·)) {L : Block} (hL : L ∈ mid) :
    lastNode root pre < L.node := by
  rw [List.pairwise_cons] at h
  rcases lastNode_mem root pre with e | ⟨b, hb, e⟩
  · rw [e]; exact h.1 _ (List.mem_map.2 ⟨L, List.mem_append_right _ hL, rfl⟩)
  · rw [e]
    have h2 := h.2
    rw [List.map_append, List.pairwise_append] at h2
    exact h2.2.2 _ (List.mem_map.2 ⟨b, hb, rfl⟩) _ (List.mem_map.2 ⟨L, hL, rfl⟩)


section line
variable (lsp : LSp src) {e : Panic} (hsp : GM.Blocks.L.G.X.PTsSpecX src e pts)
include lsp hsp

/-- `openBlocks(thisParent)` then `closeBlocks(lastIndex, i)` (parser.go:1108-1121) under the close discipline;
    hypotheses as `lineTailL` -/
theorem lineTailT_clG {root : Nat} (Lb : Int) (pre : List Block) (be : Block) (rest : List Block) (ob : List Block)
    (li i : Int) (hob : ob = pre ++ be :: rest) (hli : li = (ob.length : Int) - 1) (hi : i = (pre.length : Int))
    (thisParent : Nat) (blank : Bool) (bl' : List LineStat) (s : St) (c : RCur)
    (x : LineOutcome × List LineStat) (s' : St)
    (hop : s.pc.opened = ob) (hri : RI src s.r c) (hpad : PadOK c) (hst : GM.Blocks.L.G.X.StableG src root s)
    (hpar : thisParent = lastNode root pre) (hmode : (nd s thisParent).kind = .list → Due src s c thisParent)
    (hinv : InvG src Lb s) (hle : Lb ≤ c.p) (hpl : PadL Lb c) (hci : CInvG False src s s.pc.opened)
    (e0 : (do
          let lastNode ← liftE (blockAt ob li)
          let result ← openBlocksT pts thisParent blank
          if (result != OpenResult.paragraphContinuation) = true then do
              let __do_lift ← getPc
              closeBlocksT pts
                  (if (Option.map (fun x => x.node) (slotAfter ob __do_lift.opened li.toNat) != some lastNode.node) = true then
                    li - 1
                  else li)
                  i
              pure (LineOutcome.next, bl')
            else pure (LineOutcome.next, bl') : M _) s = .ok (x, s')) :
    CInvG False src s' s'.pc.opened ∧ (x.1 = LineOutcome.eof → s'.pc.opened = []) := by
  have hlen : ob.length = pre.length + rest.length + 1 := by rw [hob]; simp; omega
  have hliN : li = ((pre.length + rest.length : Nat) : Int) := by rw [hli, hlen]; omega
  have hlt : pre.length + rest.length < ob.length := by omega
  have hba : blockAt ob li = .ok ob[pre.length + rest.length] := by rw [hliN]; exact blockAt_ok ob _ hlt
  obtain ⟨ln, s0, h0, k0⟩ := obind_ok e0
  obtain ⟨hln', hs0⟩ := oliftE_ok h0
  subst s0
  have hln : ln = ob[pre.length + rest.length] := by rw [hba] at hln'; cases hln'; rfl
  have hlastmem : ln ∈ ob := by rw [hln]; exact List.getElem_mem _
  have hcl : Call s.pc.opened pre := ⟨⟨be :: rest, by rw [hop, hob], fun h => by cases h⟩⟩
  obtain ⟨res, s1, h1, k1⟩ := obind_ok k0
  obtain ⟨c1, new1, hria1, _, hw1, hleafy1, _, hpc1, _, _, _, _, _, hnewne⟩ :=
    oke_of_ok (GM.Blocks.L.G.X.openBlocksL (e := e) (pts := pts) lsp hsp pre thisParent blank s c hri hpad hst hcl hpar hmode) h1
  obtain ⟨hprec, hbec, hleafmid, hmidc⟩ := leafy_split (hob ▸ hop ▸ hst.leafy)
  -- the parent of the call
  have htplt : thisParent < s.nodes.length := by
    rw [hpar]
    rcases lastNode_mem root pre with e | ⟨b, hb, e⟩
    · rw [e]; exact hst.ls.rootLt
    · rw [e]; exact (hst.blocks b (by rw [hop, hob]; exact List.mem_append_left _ hb)).lt
  have htpk : (nd s thisParent).kind ≠ .paragraph := by
    rw [hpar]
    rcases lastNode_mem root pre with e | ⟨b, hb, e⟩
    · rw [e, hst.ls.rootKind]; decide
    · rw [e, (hst.blocks b (by rw [hop, hob]; exact List.mem_append_left _ hb)).kind]
      exact container_kind_ne_paragraph (hprec b hb)
  have how := (openBlocksT_clG hag hagT Lb thisParent blank s c res s1 ⟨hinv, hri, hpad, hle, hpl⟩ (ent_of_stable hst) hci htplt htpk h1).1
  split at k1
  · obtain ⟨pc, s2, h2, k2⟩ := obind_ok k1
    obtain ⟨hpc, hs2⟩ := ogetPc_ok h2
    subst s2
    subst pc
    obtain ⟨_, s3, h3, k3⟩ := obind_ok k2
    obtain ⟨hx, hs⟩ := opure_ok k3
    subst s'
    subst x
    refine (fun (p : CInvG False src s3 s3.pc.opened) => ⟨p, fun h => by cases h⟩) ?_
    -- the guards of the new leaf
    have hincr : (root :: (pre ++ be :: rest).map (·.node)).Pairwise (· < ·) := by
      have := hst.ls.incr; rw [hop, hob] at this; exact this
    have hguard : ∀ (mid : List Block), (∀ L ∈ mid, L ∈ be :: rest) → ∀ g ∈ pre ++ new1, PSb g →
        g ∈ s1.pc.opened → Guard s1 mid.reverse g := by
      intro mid hmid g hg hps hgo
      rcases List.mem_append.1 hg with hg | hg
      · exact absurd hps (not_ps_of_container (hprec g hg))
      · have hfr := hw1.fresh g hg
        have hatt := how.ci.att g hgo
        cases hq : (nd s1 g.node).parent with
        | none => rw [hq] at hatt; cases hatt
        | some q =>
          obtain ⟨q1, q2, q3⟩ := how.np g.node hfr q hq
          refine ⟨q, hq, q2, q3, fun L hL _ hpq => ?_⟩
          have hLm : L ∈ be :: rest := hmid L (by simpa using hL)
          have hLlt : L.node < s.nodes.length := hw1.oldlt L (by rw [hop, hob]; exact List.mem_append_right _ hLm)
          have htl : thisParent < L.node := by rw [hpar]; exact lastNode_lt_of_incr hincr hLm
          rcases q1 with q1 | q1
          · have := how.ci.tree.par_lt q L.node hpq
            omega
          · obtain ⟨r1, _, _⟩ := how.np q q1 L.node hpq
            omega
    rcases hw1.shape with e | ⟨hne, e⟩
    · have hslot : slotAfter ob s1.pc.opened li.toNat = some ln := by
        unfold slotAfter
        rw [e, hop, hliN, Int.toNat_natCast, List.getElem?_append_left hlt, List.getElem?_eq_getElem hlt, hln]
      rw [hslot] at h3
      simp only [Option.map, bne_self_eq_false, Bool.false_eq_true, if_false] at h3
      have harg : li = (pre.length : Int) + ((be :: rest).length : Int) - 1 := by rw [hliN]; simp; omega
      rw [harg, hi] at h3
      have hop1 : s1.pc.opened = pre ++ (be :: rest) ++ new1 := by rw [e, hop, hob]
      obtain ⟨a1, _, _⟩ := closeBlocksT_mid hag hagT pre (be :: rest) new1 hop1 how.ci hria1.source
        (fun b hb => hmidc b (by rw [List.tail_reverse] at hb; simpa using hb))
        (fun g hg hps => hguard (be :: rest) (fun L hL => hL) g hg hps (by
          rw [hop1]
          rcases List.mem_append.1 hg with hg | hg
          · exact List.mem_append_left _ (List.mem_append_left _ hg)
          · exact List.mem_append_right _ hg)) h3
      exact a1
    · obtain ⟨x, xs, hx⟩ : ∃ x xs, new1 = x :: xs := by
        cases new1 with
        | nil => exact absurd rfl (hnewne hne e)
        | cons x xs => exact ⟨x, xs, rfl⟩
      have hdl : ob.dropLast.length = pre.length + rest.length := by rw [List.length_dropLast]; omega
      have hslot : slotAfter ob s1.pc.opened li.toNat = some x := by
        unfold slotAfter
        rw [e, hop, hliN, Int.toNat_natCast, List.getElem?_append_right (by omega), hdl, Nat.sub_self, hx]
        rfl
      have hxne : (x.node == ln.node) = false := by
        have h1 := hw1.fresh x (by rw [hx]; simp)
        have h2 := hw1.oldlt ln (by rw [hop]; exact hlastmem)
        exact beq_false_of_ne (by omega)
      rw [hslot] at h3
      have hcond : (Option.map (fun x => x.node) (some x) != some ln.node) = true := by
        simp only [Option.map, bne, Option.some_beq_some, hxne, Bool.not_false]
      rw [if_pos hcond] at h3
      have hdrop : ob.dropLast = pre ++ (be :: rest).dropLast := by
        rw [hob]; exact List.dropLast_append_of_ne_nil (by simp)
      have harg : li - 1 = (pre.length : Int) + ((be :: rest).dropLast.length : Int) - 1 := by
        rw [hliN, List.length_dropLast]; simp
      rw [harg, hi] at h3
      have hop1 : s1.pc.opened = pre ++ (be :: rest).dropLast ++ new1 := by rw [e, hop, hdrop]
      obtain ⟨a1, _, _⟩ := closeBlocksT_mid hag hagT pre (be :: rest).dropLast new1 hop1 how.ci hria1.source
        (fun b hb => hmidc b (by simpa using List.mem_of_mem_tail hb))
        (fun g hg hps => hguard (be :: rest).dropLast (fun L hL => List.dropLast_subset _ hL) g hg hps (by
          rw [hop1]
          rcases List.mem_append.1 hg with hg | hg
          · exact List.mem_append_left _ (List.mem_append_left _ hg)
          · exact List.mem_append_right _ hg)) h3
      exact a1
  · obtain ⟨hx, hs⟩ := opure_ok k1
    subst s'
    subst x
    exact ⟨how.ci, fun h => by cases h⟩


end line

end mid

end GM.Blocks.TX
