/-
  GM.Proof.ShiftSimXEnd4 — right-extension simulation, whole runs: for a source `b` that ends with a line feed and
  triggers none of the list / setext / fenced parsers (`Plain6`), whose final tree does not end in a raw block, the run on
  `b ++ "\n" ++ L ++ rest` (`L` a non-blank line) passes through the top of the outer loop with the FINAL STORE of
  `run b`, nothing open, keys unset, on its way to `L` — prefix determinism + "closing at the end of the source = closing
  by a blank line" in one statement (`run_reaches_top`), given that run A's invariants survive a pass (`PassKeeps`,
  `OpenKeeps`, discharged in GM.Proof.ShiftSimXEnd5).
-/
import GM.Proof.ShiftSimXEnd3
import GM.Proof.ShiftSimXEnd2b
import GM.Proof.ShiftSimXCode
import GM.Proof.ShiftSimXQuoteHtml
import GM.Proof.ShiftSimXHcl
import GM.Proof.ShiftSimXHcl2
import GM.Proof.ShiftSimXSafe2

namespace GM.Blocks.Xs
open GM GM.Text GM.Spec GM.Proof.Reader GM.Blocks GM.Blocks.L

/-- the six parsers meet the contracts of the right-extension simulation -/
theorem psim_cov6 (F : Frame) (hF : F.OK) (b : Bytes) (hnl : b.getLast? = some 10) : PSim F b Cov6 where
  op := by
    intro bp h
    have hq : QNL F b := .inr hnl
    cases bp with
    | setext => exact absurd rfl h.2.2.1
    | thematic => exact thematicOpen_sim F b hq
    | list => exact absurd rfl h.1
    | listItem => exact absurd rfl h.2.1
    | code => exact codeOpen_sim F hF b hq
    | atx => exact atxOpen_sim F b hq
    | fenced => exact absurd rfl h.2.2.2
    | blockquote => exact blockquoteOpen_sim F b hq
    | html => exact htmlOpen_sim F b hq
    | paragraph => exact paragraphOpen_sim F b hq
  co := by
    intro bp h
    cases bp with
    | setext => exact absurd rfl h.2.2.1
    | thematic => exact thematicContinue_sim F b
    | list => exact absurd rfl h.1
    | listItem => exact absurd rfl h.2.1
    | code => exact codeContinue_sim F hF b
    | atx => exact atxContinue_sim F b
    | fenced => exact absurd rfl h.2.2.2
    | blockquote => exact blockquoteContinue_sim F b
    | html => exact htmlContinue_sim F b
    | paragraph => exact paragraphContinue_sim F b
  cl := by
    intro bp h
    cases bp with
    | setext => exact absurd rfl h.2.2.1
    | thematic => exact thematicClose_sim F b
    | list => exact absurd rfl h.1
    | listItem => exact absurd rfl h.2.1
    | code => exact codeClose_sim F b
    | atx => exact atxClose_sim F b
    | fenced => exact absurd rfl h.2.2.2
    | blockquote => exact blockquoteClose_sim F b
    | html => exact htmlClose_sim F b
    | paragraph => exact paragraphClose_sim F hF b
  keysO := fun bp h parent s s' a e => bpOpen_keys bp h parent s s' a e
  keysC := fun bp h node s s' a e => bpContinue_keys bp h node s s' a e
  keysCl := fun bp h node s s' a e => bpClose_keys bp h node s s' a e
  strictO := strictO6' b hnl
  strictC := strictC6' b hnl

/-- the fresh reader of the longer source is the fresh reader of `b`, extended -/
theorem new_ext (b q : Bytes) (hnl : b.getLast? = some 10) : Reader.new (b ++ q) = shR (FX q) (Reader.new b) := by
  have hb : 0 < b.length := by
    cases b with
    | nil => cases hnl
    | cons x xs => simp
  unfold Reader.new
  rw [← advanceLine_sh (FX q) _ (by simp) (.inr ⟨by simpa using hb, hnl⟩)]
  rfl

/-- **the run on `b ++ "\n" ++ L ++ rest` reaches the top of the outer loop with the final store of `run b`** -/
theorem run_reaches_top (b L rest : Bytes) (hnl : b.getLast? = some 10) (hpl : PlainL b)
    (hL : ∃ body, L = body ++ [10] ∧ ∀ c ∈ body, c ≠ 10) (hLb : isBlank L = false)
    (hPK : PassKeeps b) (hOK : OpenKeeps b)
    (sa sd : St) (hsa : run b = .ok sa) (hsd : run (b ++ 10 :: (L ++ rest)) = .ok sd)
    (hraw : endsInRawBlock sa = false) :
    ∃ s1 stats1 f1, AtTop b L rest sa.nodes s1 stats1 ∧ blocksLoop 0 f1 stats1 s1 = .ok ((), sd) := by
  have hP := psim_cov6 (FQ L rest) (FQ_ok L rest) b hnl
  have hNL : NL b := .inr hnl
  have hO : OpenBlocksSim (FQ L rest) b Cov6 := openBlocks_p2 hP (FQ_ok L rest) hNL (trigAt_plainL b hpl)
  have hcl := hcl6' b hnl
  have hXE : LinesXEndP b L rest := fun fA fB sa sb sA sB => linesLoop_xend hL hP fA fB sa sb sA sB
  have hb : 0 < b.length := by
    cases b with
    | nil => cases hnl
    | cons x xs => simp
  -- the two runs as loops
  rw [Sh.run_eq_blocksLoop] at hsa hsd
  cases ha : blocksLoop 0 (linesFuel b) [] (initSt b) with
  | error e => rw [ha] at hsa; cases hsa
  | ok va =>
    cases hd : blocksLoop 0 (linesFuel (b ++ 10 :: (L ++ rest))) [] (initSt (b ++ 10 :: (L ++ rest))) with
    | error e => rw [hd] at hsd; cases hsd
    | ok vd =>
      rw [ha] at hsa; rw [hd] at hsd
      obtain ⟨ua, sa'⟩ := va
      obtain ⟨ud, sd'⟩ := vd
      simp only [Except.map, Except.ok.injEq] at hsa hsd
      subst hsa hsd
      have hline0 : (initSt b).r.line = 0 := by simp [initSt, Reader.new, Reader.advanceLine]
      have hpad0 : (initSt b).r.pos.padding = 0 := by simp [initSt, Reader.new, Reader.advanceLine]
      have hstart : SRw (FQ L rest) b (initSt b) (initSt (b ++ 10 :: (L ++ rest))) := by
        refine ⟨⟨_, ri_init b⟩, new_ext b _ hnl, ⟨by simp [initSt], by simp [initSt, FQ, FX], fun j => ?_, by simp [initSt],
          fun i h1 h2 => ?_⟩, ⟨rfl, rfl, rfl, rfl, fun _ => rfl⟩⟩
        · rw [FX_ι, FX_shN]; rfl
        · have : (FQ L rest).c = 0 := rfl
          omega
      have hl : HL b (initSt b) := ⟨⟨_, ri_init b, by simpa [RCur.init] using hb⟩, ts_init b⟩
      have hai : AI Cov6 (initSt b) := ⟨by intro x hx; simp [initSt] at hx, rfl, rfl, rfl, rfl⟩
      have hbi : BInv (FQ L rest) [] [] (initSt b).r.line :=
        ⟨[], by simp, (fun e he => by cases he), fun _ => Or.inl rfl, fun h => absurd rfl h⟩
      have hau : AU b (initSt b) :=
        { st := Sh.stable_init b, k := Sh.a2_K_init b, top := by intro b0 h0; simp [initSt] at h0,
          gp := tl_GP_init b, att := by intro z hz; simp [initSt] at hz,
          pad := Sh.padOK_of_zero hpad0 }
      have key := blocksLoop_x hnl hL hLb hP hO hcl hPK hOK hXE (linesFuel b)
        (linesFuel (b ++ 10 :: (L ++ rest))) [] [] (initSt b) (initSt (b ++ 10 :: (L ++ rest)))
        (.inl ⟨hstart, hl⟩) hai rfl (by rw [hline0]; exact Int.le_refl _) hbi hau (by intro e he; cases he)
      exact key.apply ha hd hraw

end GM.Blocks.Xs
