/-
  GM.Proof.InlinesLoopX — "never consulted" on the CONCRETE inline phase: the loop over an open trigger table
  (GM.Model.InlinesLoopX) equals the loop with the default parsers (GM.Model.InlinesLoop.parseBlock) whenever the
  table agrees with the default one on ' ' and on every byte of the source. The peeked lines are slices of the
  source because the default parsers keep the reader inside it: that is the invariant `LInv` of the totality proof
  (GM.Proof.InlinesLoopTotal / InlinesLink), reused here.
-/
import GM.Model.InlinesLoopX
import GM.Proof.InlinesLink

namespace GM.Proof.InlinesLoopX
open GM GM.Text GM.Spec GM.Inl GM.Proof.Reader GM.Proof.InlinesReader GM.Proof.Inlines GM.Proof.InlinesTotal
open GM.Proof.InlinesLink

variable {src : Bytes} {segs : List Segment}

theorem tryParsersX_builtin (env : Env) (l : Int) (p : Segment) (ips : List Ip) (st : St) :
    tryParsersX env l p (ips.map .builtin) st = tryParsers env l p ips st := by
  induction ips generalizing st with
  | nil => rfl
  | cons ip rest ih =>
    simp only [List.map_cons, tryParsersX, tryParsers, XIp.parse, bind, Except.bind]
    cases ip.parse env st with
    | error e => rfl
    | ok r =>
      obtain ⟨n, st1⟩ := r
      cases n with
      | some nd => rfl
      | none =>
        simp only []
        cases st1.rd.setPosition l p with
        | error e => rfl
        | ok rd => exact ih _

theorem triggerX_builtin (env : Env) (ips : List Ip) (i : Nat) (s : Inl.Scan) :
    triggerX env (ips.map .builtin) i s = trigger env ips i s := by
  unfold triggerX trigger
  simp only [tryParsersX_builtin]
  rfl

theorem parserChar_cases (c : UInt8) (i : Nat) : parserChar c i = 32 ∨ parserChar c i = c := by
  unfold parserChar
  simp only []
  split
  · exact Or.inl rfl
  · exact Or.inr rfl

/-- the byte loop over a table that agrees with the default one on ' ' and on the scanned bytes -/
theorem scanX_eq_scan (env : Env) (tbl : UInt8 → List XIp) (h32 : tbl 32 = baseTbl 32) :
    ∀ (bs : Bytes) (i : Nat) (s : Inl.Scan), (∀ c ∈ bs, tbl c = baseTbl c) → scanX env tbl bs i s = scan env bs i s := by
  intro bs
  induction bs with
  | nil => intro i s _; rfl
  | cons c cs ih =>
    intro i s hb
    have hpc : tbl (parserChar c i) = (parsersFor (parserChar c i)).map .builtin := by
      rcases parserChar_cases c i with h | h
      · rw [h]; exact h32
      · rw [h]; exact hb c (by simp)
    have hcs : ∀ x ∈ cs, tbl x = baseTbl x := fun x hx => hb x (by simp [hx])
    simp only [scanX, scan, hpc, List.isEmpty_map, triggerX_builtin]
    split
    · rfl
    · split
      · cases ht : trigger env (parsersFor (parserChar c i)) i s with
        | error e => rfl
        | ok r =>
          cases r with
          | inl st => rfl
          | inr s' => exact ih _ _ hcs
      · exact ih _ _ hcs

theorem mem_sub {a b : Nat} {x : UInt8} (h : x ∈ sub src a b) : x ∈ src := sub_mem h

/-- the `retry:` loop over such a table, from any state the loop invariant of the default run holds for -/
theorem lineLoopX_eq (X : Ctx) (F : SegFacts src segs) (Z : ∀ s ∈ segs, s.padding = 0) (env : Env)
    (hC : ∀ ip, PContract X src segs (trigOf ip) (ip.parse env))
    (tbl : UInt8 → List XIp) (h32 : tbl 32 = baseTbl 32) (hT : ∀ c ∈ src, tbl c = baseTbl c) :
    ∀ (fuel : Nat) (esc : Bool) (st : St) (c : BCur), LInv X src segs st c →
    (BCur.remaining segs c).toNat < fuel → lineLoopX env tbl fuel esc st = lineLoop env fuel esc st := by
  intro fuel
  induction fuel with
  | zero => intro esc st c _ hf; omega
  | succ f ih =>
    intro esc st c hI hf
    obtain ⟨hpl, hpos⟩ := peekLine_facts F hI.rs
    simp only [lineLoopX, lineLoop, hpl, bind, Except.bind]
    cases hv : BCur.view src segs c with
    | none => rfl
    | some line =>
      obtain ⟨v1, v2, v3, v4, v5, v6, v7, v8⟩ := view_some F hI.rs.abs.wf hI.rs.pad hv
      have hne : line.isEmpty = false := by
        cases line with
        | nil => simp at v6; omega
        | cons a t => rfl
      simp only [hne, Bool.false_eq_true, if_false]
      have hline : ∀ x ∈ line.take (classify line).1, tbl x = baseTbl x := by
        intro x hx
        have : x ∈ line := List.mem_of_mem_take hx
        rw [v5] at this
        exact hT x (mem_sub this)
      rw [scanX_eq_scan env tbl h32 _ 0 _ hline]
      have hS : ScanInv X src segs line (line.take (classify line).1) 0
          { st := st, n := 0, sp := st.rd.position.2, escaped := esc } c :=
        { inv := hI, view := hv, spStart := by simp [BlockReader.position, hpos],
          spStop := by simp [BlockReader.position, hpos], spPad := by simp [BlockReader.position, hpos],
          n0 := Int.le_refl _, len := by simp [List.length_take]; omega,
          pre := by simpa using List.take_prefix _ _, i0 := fun _ => rfl }
      obtain ⟨res, r1, r2⟩ := scan_total X F Z env hC _ 0 _ line c hS
      simp only [r1]
      cases res with
      | hit st' e' =>
        obtain ⟨c', q1, q2, q3⟩ := r2
        exact ih e' st' c' q1 (by omega)
      | eol s' =>
        obtain ⟨v', c', q1, q2, q3⟩ := r2
        obtain ⟨st2, c2, g1, g2, g3⟩ := endOfLine_total X F Z (flags := (classify line).2) q1
        simp only [BlockReader.position, hI.rs.abs.line, ← q3, g1]
        exact ih false st2 c2 g2 (by omega)

/-- the whole inline phase of a block over such a table -/
theorem parseBlockX_eq (W : WFSegs src segs) (Z : ∀ s ∈ segs, s.padding = 0) (env : Env)
    (tbl : UInt8 → List XIp) (h32 : tbl 32 = baseTbl 32) (hT : ∀ c ∈ src, tbl c = baseTbl c) :
    parseBlockX env tbl src segs = parseBlock env src segs := by
  have F := segFacts W
  obtain ⟨r0, e0, a0⟩ := blockReader_init F
  have hz0 : (BCur.init segs).pad = 0 := segOf_pad F Z 0 (Int.le_refl _) F.kpos
  have hI : LInv (linkCtx (BCur.segOf segs 0).start) src segs { rd := r0 } (BCur.init segs) :=
    ⟨⟨a0, hz0⟩, by simp only [segsOfL, chain, BCur.init]; exact (F.rng 0 (Int.le_refl _) F.kpos).1, LK_base _⟩
  have h := lineLoopX_eq _ F Z env (all_contracts W Z env) tbl h32 hT (blockFuel src segs) false _ _ hI
    (blockFuel_gt W Z a0.wf hz0)
  unfold parseBlockX parseBlock
  simp only [e0, bind, Except.bind, h]

theorem insertTbl_off (x : XParser) (pos : UInt8 → Nat) (tbl : UInt8 → List XIp) (c : UInt8) (h : c ∉ x.triggers) :
    insertTbl x pos tbl c = tbl c := by
  have hf : x.triggers.filter (· == c) = [] := by
    rw [List.filter_eq_nil_iff]
    intro a ha hEq
    have : a = c := by simpa using hEq
    exact h (this ▸ ha)
  simp [insertTbl, hf]

/-- NEVER CONSULTED, concrete loop: one more inline parser — whatever its `Parse` does — added to the default
    parsers at any place of any table entry leaves `parseBlock`'s result unchanged on every source that contains
    none of its trigger bytes, provided it is not registered for ' '. -/
theorem parseBlock_unused (W : WFSegs src segs) (Z : ∀ s ∈ segs, s.padding = 0) (env : Env)
    (x : XParser) (pos : UInt8 → Nat) (h32 : (32 : UInt8) ∉ x.triggers) (hsrc : ∀ c ∈ src, c ∉ x.triggers) :
    parseBlockX env (insertTbl x pos baseTbl) src segs = parseBlock env src segs :=
  parseBlockX_eq W Z env _ (insertTbl_off x pos baseTbl 32 h32) (fun c hc => insertTbl_off x pos baseTbl c (hsrc c hc))

end GM.Proof.InlinesLoopX
