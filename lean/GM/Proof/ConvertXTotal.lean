/-
  GM.Proof.ConvertXTotal — the totality proof of the inline loop (GM.Proof.InlinesLoopTotal: tryParsers_total, scan_total,
  lineLoop_total, stated there for the default parser list) carried over to the open trigger table of GM.Model.InlinesLoopX:
  the same proofs with `tbl b` for `parsersFor b` and the parser contracts as a hypothesis per table entry. Then the contracts
  of the members' parsers, the link parser over both delimiter processors through the relabelling of GM.Proof.ConvertXRelv.
-/
import GM.Proof.ConvertXRelv
import GM.Proof.ConvertX

namespace GM.Proof.ConvertXTotal
open GM GM.Text GM.Spec GM.Inl GM.Proof.Reader GM.Proof.InlinesReader GM.Proof.Inlines GM.Proof.InlinesTotal
open GM.Proof.InlinesLink GM.Proof.ConvertXRelv

variable {src : Bytes} {segs : List Segment}

theorem tryParsersX_total (X : Ctx) (F : SegFacts src segs) (env : Env)
    {r0 : BlockReader} {c : BCur} {b : UInt8} {l : Bytes}
    (h0 : RS src segs r0 c) (hv : BCur.view src segs c = some (b :: l)) :
    ∀ (ips : List XIp) (st : St), LInv X src segs st c →
    (∀ ip ∈ ips, PContract X src segs (· == b) (ip.parse env)) →
    ∃ n st' c', tryParsersX env r0.position.1 r0.position.2 ips st = .ok (n, st') ∧ RS src segs st'.rd c' ∧
      c.p ≤ c'.p ∧ c.ln ≤ c'.ln ∧
      (match n with
        | none => c' = c ∧ chain 0 c.p (segsOfL st'.kids) ∧ X.LK st'.kids st'.nextId st'.bottoms
        | some nd => BCur.remaining segs c' + 1 ≤ BCur.remaining segs c ∧
            chain 0 c'.p (segsOfL (st'.kids ++ [nd])) ∧ X.LK (st'.kids ++ [nd]) st'.nextId st'.bottoms) := by
  intro ips
  induction ips with
  | nil =>
    intro st hI _
    exact ⟨none, st, c, rfl, hI.rs, Int.le_refl _, Int.le_refl _, rfl, hI.ch, hI.lk⟩
  | cons ip rest ih =>
    intro st hI ht
    obtain ⟨n, st1, c1, e1, e2, e3, e4, e5⟩ := ht ip (by simp) st c b l hI hv (by simp)
    simp only [tryParsersX, e1, bind, Except.bind]
    cases n with
    | some nd => exact ⟨some nd, st1, c1, rfl, e2, e3, e4, e5⟩
    | none =>
      obtain ⟨r3, s1, s2⟩ := setPosition_restore F h0 e2
      simp only [s1]
      exact ih { st1 with rd := r3 } ⟨s2, e5.1, e5.2⟩ (fun ip' hip => ht ip' (by simp [hip]))


theorem scanX_total (X : Ctx) (F : SegFacts src segs) (Z : ∀ s ∈ segs, s.padding = 0) (env : Env)
    (tbl : UInt8 → List XIp)
    (hC32 : ∀ ip ∈ tbl 32, ∀ b, PContract X src segs (· == b) (ip.parse env))
    (hC : ∀ b, ∀ ip ∈ tbl b, PContract X src segs (· == b) (ip.parse env)) :
    ∀ (bs : Bytes) (i : Nat) (s : Inl.Scan) (v : Bytes) (c : BCur), ScanInv X src segs v bs i s c →
    ∃ res, scanX env tbl bs i s = .ok res ∧
      (match res with
        | .hit st' _ => ∃ c', LInv X src segs st' c' ∧ BCur.remaining segs c' + 1 ≤ BCur.remaining segs c ∧ c.ln ≤ c'.ln
        | .eol s' => ∃ v' c', ScanInv X src segs v' [] 1 s' c' ∧ BCur.remaining segs c' ≤ BCur.remaining segs c ∧
            c'.ln = c.ln) := by
  intro bs
  induction bs with
  | nil =>
    intro i s v c hS
    refine ⟨.eol s, rfl, v, c, ?_, Int.le_refl _, rfl⟩
    exact { hS with i0 := fun h => by omega, len := by simpa using hS.len, pre := by simp }
  | cons b cs ih =>
    intro i s v c hS
    have hlen := hS.len
    simp only [List.length_cons] at hlen
    have hpre := hS.pre
    -- the byte under the scan is byte `n` of the view
    have hvb : v.drop s.n.toNat = b :: (v.drop (s.n.toNat + 1)) := by
      obtain ⟨t, ht⟩ := hpre
      have h1 : (v.drop s.n.toNat).head? = some b := by rw [← ht]; rfl
      have h2 : v.drop (s.n.toNat + 1) = (v.drop s.n.toNat).tail := by
        rw [← List.drop_one, List.drop_drop]
      rw [h2]
      cases hd : v.drop s.n.toNat with
      | nil => rw [hd] at h1; simp at h1
      | cons x xs => rw [hd] at h1; simp at h1; subst h1; rfl
    have hcs : cs <+: v.drop (s.n.toNat + 1) := by
      obtain ⟨t, ht⟩ := hpre
      rw [hvb] at ht
      simp at ht
      exact ⟨t, ht⟩
    -- going on without a parser
    have hskip : ∃ res, scanX env tbl cs (i + 1) (bump b s) = .ok res ∧
        (match res with
          | .hit st' _ => ∃ c', LInv X src segs st' c' ∧ BCur.remaining segs c' + 1 ≤ BCur.remaining segs c ∧ c.ln ≤ c'.ln
          | .eol s' => ∃ v' c', ScanInv X src segs v' [] 1 s' c' ∧ BCur.remaining segs c' ≤ BCur.remaining segs c ∧
              c'.ln = c.ln) := by
      apply ih (i + 1) (bump b s) v c
      have hb : (bump b s).st = s.st ∧ (bump b s).sp = s.sp ∧ (bump b s).n = s.n + 1 := by
        unfold bump; split
        · exact ⟨rfl, rfl, rfl⟩
        · split <;> exact ⟨rfl, rfl, rfl⟩
      have hn0 := hS.n0
      have e : (s.n + 1).toNat = s.n.toNat + 1 := by omega
      exact { inv := by rw [hb.1]; exact hS.inv, view := hS.view, spStart := by rw [hb.2.1]; exact hS.spStart,
              spStop := by rw [hb.2.1]; exact hS.spStop, spPad := by rw [hb.2.1]; exact hS.spPad,
              n0 := by rw [hb.2.2]; omega, len := by rw [hb.2.2, e]; omega,
              pre := by rw [hb.2.2, e]; exact hcs, i0 := fun h => by omega }
    simp only [scanX]
    split
    · -- a newline ends the loop
      refine ⟨.eol s, rfl, v, c, ?_, Int.le_refl _, rfl⟩
      exact { hS with i0 := fun h => by omega, len := by simp; omega, pre := by simp }
    · split
      · rename_i htrig
        simp only [Bool.and_eq_true, Bool.not_eq_true', List.isEmpty_eq_false_iff_exists_mem] at htrig
        -- the table entry consulted: the byte's own, or the entry of ' ' (white space, a non-punctuation line head)
        have hCpc : ∀ ip ∈ tbl (parserChar b i), PContract X src segs (· == b) (ip.parse env) := by
          rcases GM.Proof.InlinesLoopX.parserChar_cases b i with h | h
          · rw [h]; exact fun ip hip => hC32 ip hip b
          · rw [h]; exact hC b
        -- flush the pending bytes: still inside the line
        have hnlt : s.n.toNat < v.length := by omega
        have w := hS.inv.rs.abs.wf
        have hz := hS.inv.rs.pad
        obtain ⟨v1, v2, v3, v4, v5, v6, v7, v8⟩ := view_some F w hz hS.view
        obtain ⟨r1, a1, a2⟩ := advance_inline F Z hS.inv.rs (n := s.n) hS.n0 (by omega) (by omega)
        have hnn : c.p + s.n = c.p + (s.n.toNat : Int) := by have := hS.n0; omega
        obtain ⟨vs1, vs2⟩ := view_shift F w hz hS.view hnlt
        rw [← hnn] at vs1 vs2
        rw [hvb] at vs1
        have hpos1 := (peekLine_facts F a2).2
        have hbetween : s.sp.between r1.position.2 = .ok { start := c.p, stop := c.p + s.n, padding := 0 } := by
          simp only [Segment.between, BlockReader.position, hpos1, hS.spStop, vs2, bne_self_eq_false, Bool.false_eq_true,
            if_false, hS.spStart, hS.spPad]
          rfl
        -- the children and startPosition after the flush
        have hkids : ∃ ks sp', (if (i != 0) = true then
              (s.sp.between r1.position.2).map (fun seg => (mergeOrAppend s.st.kids seg, r1.position.2))
            else (pure (s.st.kids, s.sp) : Except Panic (List Inl.Node × Segment))) = .ok (ks, sp') ∧
            chain 0 (c.p + s.n) (segsOfL ks) ∧ X.LK ks s.st.nextId s.st.bottoms ∧ sp'.start = c.p + s.n ∧
            sp'.stop = BCur.stopOf segs c ∧ sp'.padding = 0 := by
          by_cases hi : i = 0
          · have hn := hS.i0 hi
            simp only [hi, bne_self_eq_false, Bool.false_eq_true, if_false, pure, Except.pure]
            refine ⟨_, _, rfl, ?_, hS.inv.lk, ?_, hS.spStop, hS.spPad⟩
            · rw [hn]; simpa using hS.inv.ch
            · rw [hn, hS.spStart]; omega
          · have : (i != 0) = true := by simpa using hi
            simp only [this, if_true, hbetween, Except.map]
            refine ⟨_, _, rfl, ?_, X.merge _ hS.inv.lk, ?_, ?_, ?_⟩
            · exact chain_mergeOrAppend (s := { start := c.p, stop := c.p + s.n, padding := 0 }) hS.inv.ch
                (by simp only; have := hS.n0; omega)
            · simp [BlockReader.position, hpos1]
            · simp [BlockReader.position, hpos1, vs2]
            · simp [BlockReader.position, hpos1]
        obtain ⟨ks, sp', hk1, hk2, hk3, hk4, hk5, hk6⟩ := hkids
        have hI1 : LInv X src segs { s.st with rd := r1, kids := ks } { c with p := c.p + s.n } := ⟨a2, hk2, hk3⟩
        obtain ⟨n, st', c', t1, t2, t3, t4, t5⟩ := tryParsersX_total X F env a2 vs1 (tbl (parserChar b i))
          { s.st with rd := r1, kids := ks } hI1 hCpc
        have hrem1 : BCur.remaining segs { c with p := c.p + s.n } ≤ BCur.remaining segs c := by
          obtain ⟨_, c1', f1, f2, f3, _, _, _⟩ := advance_ok F Z hS.inv.rs (n := s.n) hS.n0 (by omega)
          have ec : c1' = { c with p := c.p + s.n } := by
            have h1 := f2.abs.line; have h2 := f2.abs.pos; have h3 := a2.abs.line; have h4 := a2.abs.pos
            rw [a1] at f1; simp at f1; subst f1
            cases c1'; simp only [BCur.mk.injEq]
            rw [h3] at h1; rw [h4] at h2
            simp at h2
            exact ⟨h1.symm, h2.1.symm, h2.2.2.symm⟩
          rw [← ec, f3]; have := hS.n0; omega
        have htr : triggerX env (tbl (parserChar b i)) i s = (match n with
            | some nd => .ok (.inl { st' with kids := st'.kids ++ [nd] })
            | none => .ok (.inr { s with st := st', n := 0, sp := sp' })) := by
          unfold triggerX
          simp only [a1, bind, Except.bind, hk1, t1]
          cases n <;> rfl
        rw [htr]
        cases n with
        | some nd =>
          simp only [pure, Except.pure]
          refine ⟨_, rfl, c', ⟨t2, t5.2.1, t5.2.2⟩, by have := t5.1; omega, t4⟩
        | none =>
          simp only
          obtain ⟨rfl, t6, t7⟩ := t5
          -- the loop goes on behind the trigger byte with nothing pending
          have := ih (i + 1) (bump b { s with st := st', n := 0, sp := sp' }) (b :: v.drop (s.n.toNat + 1))
            { c with p := c.p + s.n } (by
              have hb : (bump b { s with st := st', n := 0, sp := sp' }).st = st' ∧
                  (bump b { s with st := st', n := 0, sp := sp' }).sp = sp' ∧
                  (bump b { s with st := st', n := 0, sp := sp' }).n = 1 := by
                unfold bump; split
                · exact ⟨rfl, rfl, rfl⟩
                · split <;> exact ⟨rfl, rfl, rfl⟩
              have hl2 : (v.drop (s.n.toNat + 1)).length = v.length - (s.n.toNat + 1) := by simp
              exact { inv := by rw [hb.1]; exact ⟨t2, t6, t7⟩, view := vs1, spStart := by rw [hb.2.1]; exact hk4,
                      spStop := by rw [hb.2.1, hk5, vs2], spPad := by rw [hb.2.1]; exact hk6,
                      n0 := by rw [hb.2.2]; omega,
                      len := by rw [hb.2.2]; simp only [List.length_cons, hl2]; omega,
                      pre := by rw [hb.2.2]; simpa using hcs, i0 := fun h => by omega })
          obtain ⟨res, r1', r2'⟩ := this
          refine ⟨res, r1', ?_⟩
          cases res with
          | hit st'' e =>
            obtain ⟨c'', q1, q2, q3⟩ := r2'
            exact ⟨c'', q1, by omega, q3⟩
          | eol s'' =>
            obtain ⟨v'', c'', q1, q2, q3⟩ := r2'
            exact ⟨v'', c'', q1, by omega, q3⟩
      · exact hskip

theorem lineLoopX_total (X : Ctx) (F : SegFacts src segs) (Z : ∀ s ∈ segs, s.padding = 0) (env : Env)
    (tbl : UInt8 → List XIp)
    (hC32 : ∀ ip ∈ tbl 32, ∀ b, PContract X src segs (· == b) (ip.parse env))
    (hC : ∀ b, ∀ ip ∈ tbl b, PContract X src segs (· == b) (ip.parse env)) :
    ∀ (fuel : Nat) (esc : Bool) (st : St) (c : BCur), LInv X src segs st c →
    (BCur.remaining segs c).toNat < fuel →
    ∃ st' c', lineLoopX env tbl fuel esc st = .ok st' ∧ LInv X src segs st' c' := by
  intro fuel
  induction fuel with
  | zero => intro esc st c _ hf; omega
  | succ f ih =>
    intro esc st c hI hf
    obtain ⟨hpl, hpos⟩ := peekLine_facts F hI.rs
    simp only [lineLoopX, hpl, bind, Except.bind]
    cases hv : BCur.view src segs c with
    | none => exact ⟨st, c, rfl, hI⟩
    | some line =>
      obtain ⟨v1, v2, v3, v4, v5, v6, v7, v8⟩ := view_some F hI.rs.abs.wf hI.rs.pad hv
      have hne : line.isEmpty = false := by
        cases line with
        | nil => simp at v6; omega
        | cons a t => rfl
      simp only [hne, Bool.false_eq_true, if_false]
      have hS : ScanInv X src segs line (line.take (classify line).1) 0
          { st := st, n := 0, sp := st.rd.position.2, escaped := esc } c :=
        { inv := hI, view := hv, spStart := by simp [BlockReader.position, hpos],
          spStop := by simp [BlockReader.position, hpos], spPad := by simp [BlockReader.position, hpos],
          n0 := Int.le_refl _, len := by simp [List.length_take]; omega,
          pre := by simpa using List.take_prefix _ _, i0 := fun _ => rfl }
      obtain ⟨res, r1, r2⟩ := scanX_total X F Z env tbl hC32 hC _ 0 _ line c hS
      simp only [r1]
      cases res with
      | hit st' e' =>
        obtain ⟨c', q1, q2, q3⟩ := r2
        exact ih e' st' c' q1 (by omega)
      | eol s' =>
        obtain ⟨v', c', q1, q2, q3⟩ := r2
        obtain ⟨st2, c2, g1, g2, g3⟩ := endOfLine_total X F Z (flags := (classify line).2) q1
        simp only [BlockReader.position, hI.rs.abs.line, ← q3, g1]
        exact ih _ st2 c2 g2 (by omega)



/-- NEVER CONSULTED, open table: the loop over a table `T2` that agrees with `T1` on ' ' and on every byte of the source is the
    loop over `T1`, from every state of a run of `T1` whose parsers keep their contracts (as GM.Proof.InlinesLoopX.lineLoopX_eq) -/
theorem lineLoopX_eq2 (X : Ctx) (F : SegFacts src segs) (Z : ∀ s ∈ segs, s.padding = 0) (env : Env)
    (T1 T2 : UInt8 → List XIp)
    (hC32 : ∀ ip ∈ T1 32, ∀ b, PContract X src segs (· == b) (ip.parse env))
    (hC : ∀ b, ∀ ip ∈ T1 b, PContract X src segs (· == b) (ip.parse env))
    (h32 : T2 32 = T1 32) (hT : ∀ c ∈ src, T2 c = T1 c) :
    ∀ (fuel : Nat) (esc : Bool) (st : St) (c : BCur), LInv X src segs st c →
    (BCur.remaining segs c).toNat < fuel → lineLoopX env T2 fuel esc st = lineLoopX env T1 fuel esc st := by
  intro fuel
  induction fuel with
  | zero => intro esc st c _ hf; omega
  | succ f ih =>
    intro esc st c hI hf
    obtain ⟨hpl, hpos⟩ := peekLine_facts F hI.rs
    simp only [lineLoopX, hpl, bind, Except.bind]
    cases hv : BCur.view src segs c with
    | none => rfl
    | some line =>
      obtain ⟨v1, v2, v3, v4, v5, v6, v7, v8⟩ := view_some F hI.rs.abs.wf hI.rs.pad hv
      have hne : line.isEmpty = false := by
        cases line with
        | nil => simp at v6; omega
        | cons a t => rfl
      simp only [hne, Bool.false_eq_true, if_false]
      have hline : ∀ x ∈ line.take (classify line).1, T2 x = T1 x := by
        intro x hx
        have : x ∈ line := List.mem_of_mem_take hx
        rw [v5] at this
        exact hT x (sub_mem this)
      rw [GM.Proof.ConvertX.scanX_congr env T2 T1 h32 _ 0 _ hline]
      have hS : ScanInv X src segs line (line.take (classify line).1) 0
          { st := st, n := 0, sp := st.rd.position.2, escaped := esc } c :=
        { inv := hI, view := hv, spStart := by simp [BlockReader.position, hpos],
          spStop := by simp [BlockReader.position, hpos], spPad := by simp [BlockReader.position, hpos],
          n0 := Int.le_refl _, len := by simp [List.length_take]; omega,
          pre := by simpa using List.take_prefix _ _, i0 := fun _ => rfl }
      obtain ⟨res, r1, r2⟩ := scanX_total X F Z env T1 hC32 hC _ 0 _ line c hS
      simp only [r1]
      cases res with
      | hit st' e' =>
        obtain ⟨c', q1, q2, q3⟩ := r2
        exact ih e' st' c' q1 (by omega)
      | eol s' =>
        obtain ⟨v', c', q1, q2, q3⟩ := r2
        obtain ⟨st2, c2, g1, g2, g3⟩ := endOfLine_total X F Z (flags := (classify line).2) q1
        simp only [BlockReader.position, hI.rs.abs.line, ← q3, g1]
        exact ih _ st2 c2 g2 (by omega)

/-! ### the context invariant up to the relabelling -/

/-- the normalising relabelling: the representation of a two-tilde Strikethrough and level 2 go to 2, everything else to 1 -/
def gN (lv : Int) : Int := if lv == 2 || lv == -4 then 2 else 1

theorem gN_ok (sk : Bool) : GOK sk gN := ⟨by decide, by decide, fun _ => by decide, fun _ => by decide⟩

theorem gN_range (lv : Int) : gN lv = 1 ∨ gN lv = 2 := by
  unfold gN; split <;> simp

mutual
theorem segsOf_relv (g : Int → Int) : ∀ n : Inl.Node, segsOf (relv g n) = segsOf n
  | .text .. => rfl
  | .codeSpan ks => by simp [segsOf, segsOfL_relv g ks]
  | .emphasis lv ks => by simp [segsOf, segsOfL_relv g ks]
  | .link im d t ks => by simp [segsOf, segsOfL_relv g ks]
  | .autoLink .. => rfl
  | .rawHTML .. => rfl
  | .delim .. => rfl
  | .label .. => rfl
theorem segsOfL_relv (g : Int → Int) : ∀ l : List Inl.Node, segsOfL (relvL g l) = segsOfL l
  | [] => rfl
  | n :: rest => by simp [segsOfL, segsOf_relv g n, segsOfL_relv g rest]
end

theorem all_isText_relv (g : Int → Int) : ∀ l : List Inl.Node, (relvL g l).all isText = l.all isText
  | [] => rfl
  | n :: rest => by cases n <;> simp [isText, all_isText_relv g rest]

mutual
/-- the normalised tree is well-shaped whenever the shape without the level clause holds; in particular for `wf` trees -/
theorem wf_relv_gN (lab : Bool) : ∀ n : Inl.Node, wf lab n = true → wf lab (relv gN n) = true
  | .text .., _ => rfl
  | .codeSpan ks, h => by simp only [wf] at h; simp only [relv_codeSpan, wf, all_isText_relv, h]
  | .emphasis lv ks, h => by
    simp only [wf, Bool.and_eq_true] at h
    simp only [relv_emphasis, wf, Bool.and_eq_true, Bool.or_eq_true, beq_iff_eq]
    exact ⟨gN_range lv, wfL_relv_gN lab ks h.2⟩
  | .link im d t ks, h => by
    simp only [wf, Bool.and_eq_true] at h
    simp only [relv_link, wf, Bool.and_eq_true, containsLinkL_relv]
    exact ⟨wfL_relv_gN lab ks h.1, h.2⟩
  | .autoLink .., _ => rfl
  | .rawHTML .., _ => rfl
  | .delim .., h => by simp [wf] at h
  | .label .., h => by simpa [wf] using h
theorem wfL_relv_gN (lab : Bool) : ∀ l : List Inl.Node, wfL lab l = true → wfL lab (relvL gN l) = true
  | [], _ => rfl
  | n :: rest, h => by
    simp only [wfL, Bool.and_eq_true] at h
    simp only [relvL_cons, wfL, Bool.and_eq_true]
    exact ⟨wf_relv_gN lab n h.1, wfL_relv_gN lab rest h.2⟩
end

/-- `X`'s invariant read off the NORMALISED children: the invariant the loop of a member set keeps -/
def Ctx.normed (X : Ctx) : Ctx where
  LK := fun k n b => X.LK (relvL gN k) n b
  appendText := fun s so ha ra h => by simpa using X.appendText s so ha ra h
  swapText := fun s t so ha ra h => by
    have := X.swapText s t so ha ra (by simpa using h)
    simpa using this
  appendPlain := fun nd h hw => by
    have := X.appendPlain (relv gN nd) h (wf_relv_gN false nd hw)
    simpa using this
  appendDelim := fun d h h1 h2 => by simpa using X.appendDelim d h h1 h2
  bumpId := fun h => X.bumpId h

/-! ### contracts of the table entries -/

theorem contract_at {X : Ctx} {trig : UInt8 → Bool} {p : St → PRes} (h : PContract X src segs trig p) {b : UInt8}
    (hb : trig b = true) : PContract X src segs (· == b) p := by
  intro st c b' l hI hv ht
  have : b' = b := by simpa using ht
  subst this
  exact h st c b' l hI hv hb

/-- the link parser over a ProcessDelimiters that is the default one up to the normalisation keeps the loop's contract for
    the normalised link invariant: through GM.Proof.InlinesLink.link_contract on the normalised state -/
theorem linkG_contract (W : WFSegs src segs) (Z : ∀ s ∈ segs, s.padding = 0) (env : Env) {pd : PD} (hpd : PDSim gN pd) :
    PContract (Ctx.normed (linkCtx (BCur.segOf segs 0).start)) src segs (trigOf .link) (parseLinkG pd env) := by
  intro st c b l hI hv ht
  have hI' : LInv (linkCtx (BCur.segOf segs 0).start) src segs (relvSt gN st) c :=
    ⟨hI.rs, by simpa [segsOfL_relv] using hI.ch, hI.lk⟩
  obtain ⟨n, st2, c', e1, e2, e3, e4, e5⟩ := link_contract W Z env (relvSt gN st) c b l hI' hv ht
  have hs := parseLinkG_relv hpd env st
  simp only [Ip.parse] at e1
  rw [e1] at hs
  cases hp : parseLinkG pd env st with
  | error e => rw [hp] at hs; cases hs
  | ok r =>
    obtain ⟨n', st'⟩ := r
    rw [hp] at hs
    simp only [Except.map, relvPR, Except.ok.injEq, Prod.mk.injEq] at hs
    obtain ⟨hn, hst⟩ := hs
    subst hst
    refine ⟨n', st', c', rfl, e2, e3, e4, ?_⟩
    cases n' with
    | none =>
      subst hn
      exact ⟨by simpa [segsOfL_relv] using e5.1, e5.2⟩
    | some nd =>
      subst hn
      simp only [Option.map_some] at e5
      refine ⟨e5.1, ?_, ?_⟩
      · have := e5.2.1
        rw [show (relvSt gN st').kids ++ [relv gN nd] = relvL gN (st'.kids ++ [nd]) by simp, segsOfL_relv] at this
        exact this
      · have := e5.2.2
        simpa [Ctx.normed] using this

theorem scanDelimiterP_ok (isD : UInt8 → Bool) (env : Env) (b : UInt8) (l : Bytes) (before : Nat) :
    ∃ d, scanDelimiterP isD env (b :: l) before = .ok d ∧
      ∀ dd, d = some dd → 1 ≤ dd.length ∧ dd.origLength = dd.length ∧ dd.length ≤ (b :: l).length := by
  unfold scanDelimiterP
  simp only
  split
  · exact ⟨none, rfl, by simp⟩
  · refine ⟨_, rfl, ?_⟩
    intro dd hd
    simp at hd; subst hd
    have := takeWhile_len_le (· == b) l
    refine ⟨?_, ?_, ?_⟩ <;> simp only [List.length_cons] <;> omega

/-- the strikethrough parser keeps the loop's contract (as the emphasis parser: it only reads the line and pushes a
    delimiter), for every context invariant -/
theorem strike_contract (X : Ctx) (W : WFSegs src segs) (Z : ∀ s ∈ segs, s.padding = 0) (env : Env) (trig : UInt8 → Bool) :
    PContract X src segs trig (parseStrike env) := by
  intro st c b l hI hv _
  have F := segFacts W
  obtain ⟨v, hpc⟩ := precendingCharacter_ok st.rd
  obtain ⟨hpl, hpos⟩ := peekLine_facts F hI.rs
  obtain ⟨v1, v2, v3, v4, v5, v6, v7, v8⟩ := view_some F hI.rs.abs.wf hI.rs.pad hv
  obtain ⟨d, hd, hdd⟩ := scanDelimiterP_ok isStrikeDelim env b l v
  unfold parseStrike
  simp only [hpc, hpl, hv, bind, Except.bind, Option.getD_some, hd]
  cases d with
  | none => exact ⟨none, _, c, rfl, hI.rs, Int.le_refl _, Int.le_refl _, hI.ch, hI.lk⟩
  | some dd =>
    obtain ⟨d1, d2, d3⟩ := hdd dd rfl
    simp only
    split
    · exact ⟨none, _, c, rfl, hI.rs, Int.le_refl _, Int.le_refl _, hI.ch, hI.lk⟩
    · obtain ⟨r', c', e1, e2, e3, e4, e5, _⟩ := advance_ok F Z hI.rs (n := dd.origLength) (by omega) (by omega)
      rw [e1]
      refine ⟨_, _, c', rfl, e2, by omega, e4, by omega, ?_, ?_⟩
      · rw [segsOfL_append]
        refine chain_append hI.ch ?_
        simp only [segsOfL, segsOf, hpos, Segment.withStop, List.append_nil]
        exact chain_single (by simp only; omega) (by simp only; omega) (by simp only; omega)
      · exact X.appendDelim _ hI.lk (by simpa using (by omega : 1 ≤ dd.length)) (by simp only [Segment.withStop]; omega)

/-- the task-checkbox parser keeps the loop's contract for a NORMALISED context invariant (the checkbox it appends is a leaf
    whose normal form is a well-shaped subtree) -/
theorem task_contract (X : Ctx) (W : WFSegs src segs) (Z : ∀ s ∈ segs, s.padding = 0) (inItem : Bool) (env : Env)
    (trig : UInt8 → Bool) : PContract (Ctx.normed X) src segs trig (parseTask inItem env) := by
  intro st c b l hI hv _
  have F := segFacts W
  obtain ⟨hpl, hpos⟩ := peekLine_facts F hI.rs
  obtain ⟨v1, v2, v3, v4, v5, v6, v7, v8⟩ := view_some F hI.rs.abs.wf hI.rs.pad hv
  have hnone : ∃ n st' c', (Except.ok (none, st) : PRes) = .ok (n, st') ∧ RS src segs st'.rd c' ∧ c.p ≤ c'.p ∧ c.ln ≤ c'.ln ∧
      (match n with
        | none => chain 0 c.p (segsOfL st'.kids) ∧ (Ctx.normed X).LK st'.kids st'.nextId st'.bottoms
        | some nd => BCur.remaining segs c' + 1 ≤ BCur.remaining segs c ∧
            chain 0 c'.p (segsOfL (st'.kids ++ [nd])) ∧ (Ctx.normed X).LK (st'.kids ++ [nd]) st'.nextId st'.bottoms) :=
    ⟨none, st, c, rfl, hI.rs, Int.le_refl _, Int.le_refl _, hI.ch, hI.lk⟩
  unfold parseTask
  split
  · exact hnone
  · split
    · exact hnone
    · simp only [hpl, hv, bind, Except.bind, Option.getD_some]
      split
      · rename_i vv rest heq
        split
        · have hlen : ((3 + (rest.takeWhile GM.Ext.reSpace).length : Nat) : Int) ≤ ((b :: l).length : Int) := by
            have := takeWhile_len_le GM.Ext.reSpace rest
            rw [heq]; simp only [List.length_cons]; omega
          obtain ⟨r', c', e1, e2, e3, e4, e5, _⟩ := advance_ok F Z hI.rs
            (n := ((3 + (rest.takeWhile GM.Ext.reSpace).length : Nat) : Int)) (by omega) (by omega)
          rw [e1]
          have hp : c.p ≤ c'.p := by omega
          have hr : BCur.remaining segs c' + 1 ≤ BCur.remaining segs c := by omega
          refine ⟨_, _, c', rfl, e2, hp, e4, hr, ?_, ?_⟩
          · rw [segsOfL_append]
            simp only [taskNode, segsOfL, segsOf, List.append_nil]
            exact chain_mono (Int.le_refl _) hp hI.ch
          · have := X.appendPlain (.emphasis 1 []) hI.lk (by simp [wf, wfL])
            simp only [Ctx.normed, relvL_append, relvL_cons, relvL_nil, taskNode, relv_emphasis]
            have hg : gN (if (vv == 120 || vv == 88) = true then -2 else -1) = 1 := by split <;> decide
            rw [hg]
            exact this
        · exact ⟨none, _, c, rfl, hI.rs, Int.le_refl _, Int.le_refl _, hI.ch, hI.lk⟩
      · exact ⟨none, _, c, rfl, hI.rs, Int.le_refl _, Int.le_refl _, hI.ch, hI.lk⟩

/-! ### every member set: the inline phase of a block terminates -/

open GM.ConvertX GM.Convert

theorem pdX_sim (c : XCfg) : PDSim gN (pdX c) := by
  unfold pdX
  split
  · exact fun b k => processDelimitersG_relv (gN_ok true) b k
  · have := fun b k => processDelimitersG_relv (gN_ok false) b k
    rw [processDelimitersG_false] at this
    exact this

theorem pdX_noLoop (c : XCfg) (b : Bottom) (k : List Inl.Node) : pdX c b k ≠ .error .loop := by
  intro h
  have hs := pdX_sim c b k
  rw [h] at hs
  rcases GM.Proof.Inlines.processDelimiters_total b (relvL gN k) with ⟨r, hr⟩ | hr
  · rw [hr] at hs; cases hs
  · rw [hr] at hs; cases hs

theorem linkX_contract (c : XCfg) (W : WFSegs src segs) (Z : ∀ s ∈ segs, s.padding = 0) (env : Env) :
    PContract (Ctx.normed (linkCtx (BCur.segOf segs 0).start)) src segs (trigOf .link) ((linkX c).parse env) := by
  unfold linkX
  split
  · exact linkG_contract W Z env (pdX_sim c)
  · have h : PDSim gN processDelimiters := by
      have := fun b k => processDelimitersG_relv (gN_ok false) b k
      rw [processDelimitersG_false] at this
      exact this
    have := linkG_contract W Z env h
    rw [parseLinkG_default] at this
    exact this

theorem builtin_contract (X0 : Ctx) (env : Env) (hl : PContract (Ctx.normed X0) src segs (trigOf .link) (Ip.link.parse env))
    (W : WFSegs src segs) (Z : ∀ s ∈ segs, s.padding = 0) (ip : Ip) :
    PContract (Ctx.normed X0) src segs (trigOf ip) (ip.parse env) := by
  cases ip with
  | codeSpan => exact codeSpan_contract _ W Z env
  | link => exact hl
  | autoLink => exact autoLink_contract _ W Z env
  | rawHTML => exact rawHTML_contract _ W Z env
  | emphasis => exact emphasis_contract _ W Z env

theorem inlineTbl_32 (c : XCfg) (inItem : Bool) : inlineTbl c inItem 32 = [] := by
  simp [inlineTbl, baseTbl, parsersFor]

theorem inlineTbl_contracts (c : XCfg) (inItem : Bool) (W : WFSegs src segs) (Z : ∀ s ∈ segs, s.padding = 0) (env : Env) :
    ∀ b, ∀ ip ∈ inlineTbl c inItem b,
      PContract (Ctx.normed (linkCtx (BCur.segOf segs 0).start)) src segs (· == b) (ip.parse env) := by
  intro b ip hip
  have hlk := linkX_contract c W Z env
  unfold inlineTbl at hip
  split at hip
  · split at hip
    · simp only [List.mem_singleton] at hip; subst hip
      exact strike_contract _ W Z env _
    · cases hip
  · split at hip
    · rename_i h91
      have hb : b = 91 := by simpa using h91
      subst hb
      simp only [List.mem_append, List.mem_singleton] at hip
      rcases hip with hip | hip
      · split at hip
        · simp only [List.mem_singleton] at hip; subst hip
          exact task_contract _ W Z inItem env _
        · cases hip
      · subst hip; exact contract_at hlk (by decide)
    · split at hip
      · rename_i hb
        simp only [List.mem_singleton] at hip; subst hip
        refine contract_at hlk ?_
        simp only [Bool.or_eq_true, beq_iff_eq] at hb
        rcases hb with rfl | rfl <;> decide
      · simp only [baseTbl, List.mem_map] at hip
        obtain ⟨ip0, hm, rfl⟩ := hip
        have hl0 : PContract (Ctx.normed (linkCtx (BCur.segOf segs 0).start)) src segs (trigOf .link) (Ip.link.parse env) := by
          have h : PDSim gN processDelimiters := by
            have := fun b k => processDelimitersG_relv (gN_ok false) b k
            rw [processDelimitersG_false] at this
            exact this
          have := linkG_contract W Z env h
          rw [parseLinkG_default] at this
          exact this
        exact contract_at (builtin_contract _ env hl0 W Z ip0) (parsersFor_trig hm)

/-- the inline loop of a block under ANY member set finishes: no fuel exhaustion, no Go panic, no broken modelling
    invariant — for every source, every well-formed padding-free line list -/
theorem lineLoopX_cfg_total (c : XCfg) (inItem : Bool) (W : WFSegs src segs) (Z : ∀ s ∈ segs, s.padding = 0) (env : Env) :
    ∃ rd st', BlockReader.new src segs = .ok rd ∧
      lineLoopX env (inlineTbl c inItem) (blockFuel src segs) false { rd := rd } = .ok st' := by
  have F := segFacts W
  obtain ⟨r0, e0, a0⟩ := blockReader_init F
  have hz0 : (BCur.init segs).pad = 0 := segOf_pad F Z 0 (Int.le_refl _) F.kpos
  have hI : LInv (Ctx.normed (linkCtx (BCur.segOf segs 0).start)) src segs { rd := r0 } (BCur.init segs) :=
    ⟨⟨a0, hz0⟩, by simp only [segsOfL, chain, BCur.init]; exact (F.rng 0 (Int.le_refl _) F.kpos).1, LK_base _⟩
  obtain ⟨st', c', l1, _⟩ := lineLoopX_total _ F Z env (inlineTbl c inItem) (by rw [inlineTbl_32]; exact fun _ h => by cases h)
    (inlineTbl_contracts c inItem W Z env) (blockFuel src segs) false _ _ hI (blockFuel_gt W Z a0.wf hz0)
  exact ⟨r0, st', e0, l1⟩

/-- `parseBlockG` of any member set never exhausts fuel -/
theorem parseBlockG_noLoop (c : XCfg) (inItem : Bool) (W : WFSegs src segs) (Z : ∀ s ∈ segs, s.padding = 0) (env : Env) :
    parseBlockG env (inlineTbl c inItem) (pdX c) src segs ≠ .error .loop := by
  obtain ⟨rd, st', e0, l1⟩ := lineLoopX_cfg_total c inItem W Z env
  unfold parseBlockG
  simp only [e0, l1, bind, Except.bind]
  cases hp : pdX c Bottom.nil st'.kids with
  | error e =>
    intro h
    simp only [Except.error.injEq] at h
    exact pdX_noLoop c _ _ (h ▸ hp)
  | ok k => intro h; cases h

/-- **the inline phase of every member set never exhausts its fuel** -/
theorem inlineNoLoop_all (c : XCfg) : GM.Proof.ConvertX.InlineNoLoop c := by
  intro env src inItem lines e h
  unfold inlineLines at h
  split at h
  · cases h
  · split at h
    · cases h; rfl
    · rename_i hw
      have hw' : GM.LinkRef.wf0B src lines = true := by simpa using hw
      obtain ⟨W, Z⟩ := GM.Proof.LinkRefTotal.wf0B_sound hw'
      have := parseBlockG_noLoop c inItem W Z env
      cases hp : parseBlockG env (inlineTbl c inItem) (pdX c) src lines with
      | ok k => rw [hp] at h; cases h
      | error p =>
        rw [hp] at h
        simp only [liftErr, Except.error.injEq] at h
        subst h
        cases p <;> first | rfl | exact absurd hp this

end GM.Proof.ConvertXTotal
