/-
  GM.Proof.QuoteSimHtml — one-line-step simulation of the HTML block parser (parser/html_block.go).
-/
import GM.Proof.QuoteSimTree
import GM.Proof.QuoteSimLeafA

namespace GM.Blocks
open GM GM.Text GM.Spec GM.Proof.Reader

/-! ### the line the parser sees, and how far `advance (segment.Len() - TrimRightSpaceLength(line))` goes -/

theorem html_viewA_length (src : Bytes) (ls p : Nat) : ((viewA src ls p).getD []).length = lineEnd src ls - p := by
  unfold viewA
  by_cases hp : p < lineEnd src ls
  · rw [if_pos hp]
    have hle := lineEnd_le src ls
    simp only [Option.getD_some]
    rw [length_sub src hle]
  · rw [if_neg hp]; simp; omega

theorem html_trimRight_le (v : Bytes) : trimRightSpaceLength v ≤ v.length := by
  unfold trimRightSpaceLength
  have := takeWhile_length_le isSpace v.reverse
  simpa using this

/-- a line that ends with `\n` has trailing white space -/
theorem html_trimRight_pos (v : Bytes) (h : v[v.length - 1]? = some 10) : 1 ≤ trimRightSpaceLength v := by
  unfold trimRightSpaceLength
  have hne : v ≠ [] := by
    intro e; subst e; simp at h
  have hl : v.getLast? = some 10 := by
    rw [List.getLast?_eq_getElem?]; exact h
  obtain ⟨w, hw⟩ : ∃ w, v = w ++ [10] := by
    refine ⟨v.dropLast, ?_⟩
    have h1 := List.dropLast_concat_getLast hne
    have h2 : v.getLast hne = 10 := by
      have := List.getLast?_eq_some_getLast hne
      rw [hl] at this; exact (Option.some.inj this).symm
    rw [h2] at h1; exact h1.symm
  rw [hw, List.reverse_append]
  simp [isSpace]

/-- the target of `advance (segment.Len() - TrimRightSpaceLength(line))` is inside the line -/
theorem html_adv_inl {src k ls p} (h : InL src k ls p) :
    0 ≤ (segA src ls p).len - (trimRightSpaceLength ((viewA src ls p).getD []) : Int) ∧
    InL src k ls (p + ((segA src ls p).len - (trimRightSpaceLength ((viewA src ls p).getD []) : Int)).toNat) := by
  have hT := html_trimRight_le ((viewA src ls p).getD [])
  rw [html_viewA_length] at hT
  have hle := h.le
  have hge := h.ge
  have hlen : (segA src ls p).len = (lineEnd src ls : Int) - p := by simp [segA, Segment.len]
  rw [hlen]
  refine ⟨by omega, h.line, by omega, by omega, fun e => ?_⟩
  have hT0 : trimRightSpaceLength ((viewA src ls p).getD []) = 0 := by omega
  rcases Nat.lt_or_ge p (lineEnd src ls) with hp | hp
  · have key : src[lineEnd src ls - 1]? ≠ some 10 := by
      intro h10
      have := html_trimRight_pos ((viewA src ls p).getD []) (by
        rw [html_viewA_length]
        unfold viewA
        rw [if_pos hp]
        simp only [Option.getD_some]
        rw [sub_getElem?, if_pos (by omega)]
        rw [show p + (lineEnd src ls - p - 1) = lineEnd src ls - 1 by omega]
        exact h10)
      omega
    refine ⟨?_, key⟩
    rcases Nat.lt_or_ge (lineEnd src ls) src.length with h2 | h2
    · exact absurd (line_ends_nl h.line.lt h2) key
    · have := lineEnd_le src ls; omega
  · exact h.eof (by omega)

theorem html_advance_s2 {src k ls p} {sA sB : St} (h : SR src k ls p sA sB) :
    S2 (fun _ _ sA' sB' => ∃ p', p ≤ p' ∧ SR src k ls p' sA' sB')
      (advance ((segA src ls p).len - (trimRightSpaceLength ((viewA src ls p).getD []) : Int)) sA)
      (advance ((shK k (segA src ls p)).len - (trimRightSpaceLength ((viewA src ls p).getD []) : Int)) sB) := by
  have hlen : (shK k (segA src ls p)).len = (segA src ls p).len := by simp only [Segment.len, shK]; omega
  obtain ⟨h0, hi⟩ := html_adv_inl h.r.inl
  exact S2.mono (advance_s2 h (by rw [hlen]) h0 hi) (fun _ _ _ _ hq => ⟨_, Nat.le_add_right _ _, hq⟩)

theorem html_segRel {src k ls p} (h : InL src k ls p) : SegRel src (segA src ls p) (shK k (segA src ls p)) :=
  let hs := segA_in h
  ⟨k, ls, hs.line, hs.ge, hs.le, hs.stop, rfl⟩

/-! ### Open -/

/-- htmlBlockParser.Open behind the look at the last opened block -/
def htmlOpenTail (line : Bytes) (segment : Segment) (lastIsPara : Bool) : M (Option Nat × PState) := do
  let pos := (← getPc).blockOffset
  if pos < 0 then return (none, stNoChildren)
  if (← liftE (idx line pos)) != 60 then return (none, stNoChildren)
  match htmlOpenType line lastIsPara with
  | some t =>
    let node ← newNode { kind := .htmlBlock, htmlType := t }
    advance (segment.len - trimRightSpaceLength line)
    appendLine node segment
    return (some node, stNoChildren)
  | none => return (none, stNoChildren)

theorem htmlOpenTail_s2 {src k ls p} {sA sB : St} (h : SR src k ls p sA sB) (lp : Bool) :
    S2 (fun a b sA' sB' => OpenRel a b ∧ ∃ p', p ≤ p' ∧ SR src k ls p' sA' sB')
      (htmlOpenTail ((viewA src ls p).getD []) (segA src ls p) lp sA)
      (htmlOpenTail ((viewA src ls p).getD []) (shK k (segA src ls p)) lp sB) := by
  unfold htmlOpenTail
  refine S2.bind (getPc_s2 h) (fun a b sA1 sB1 hq => ?_)
  obtain ⟨ha, hb, hc, e1, e2⟩ := hq
  subst e1 e2
  rw [hc.blockOffset]
  by_cases hc0 : a.blockOffset < 0
  · rw [if_pos hc0, if_pos hc0]
    exact S2.pure ⟨⟨rfl, .inl ⟨rfl, rfl⟩⟩, p, Nat.le_refl _, h⟩
  · rw [if_neg hc0, if_neg hc0]
    refine S2.bind (P := fun x y sA' sB' => y = x ∧ p < lineEnd src ls ∧ SR src k ls p sA' sB')
      (S2.liftE (fun x hx => ⟨x, hx, rfl, by have := (idx_view_la hx).2.1; omega, h⟩)) (fun x y sA2 sB2 hq => ?_)
    obtain ⟨hy, hplt, h2⟩ := hq
    subst hy
    by_cases hc1 : (y != 60) = true
    · rw [if_pos hc1, if_pos hc1]
      exact S2.pure ⟨⟨rfl, .inl ⟨rfl, rfl⟩⟩, p, Nat.le_refl _, h2⟩
    · rw [if_neg hc1, if_neg hc1]
      cases htmlOpenType ((viewA src ls p).getD []) lp with
      | none => exact S2.pure ⟨⟨rfl, .inl ⟨rfl, rfl⟩⟩, p, Nat.le_refl _, h2⟩
      | some t =>
        simp only
        refine S2.bind (newNode_s2 h2 _ _ (nodeRel_new src { kind := .htmlBlock, htmlType := t } rfl rfl rfl rfl
          (by show (-1 : Int) < 0; decide))) (fun n m sA3 sB3 hq => ?_)
        obtain ⟨_, hm, hn0, h3⟩ := hq
        subst hm
        refine S2.bind (html_advance_s2 h3) (fun _ _ sA4 sB4 hq => ?_)
        obtain ⟨p', hp', h4⟩ := hq
        refine S2.bind (appendLine_s2 h4 n (html_segRel h.r.inl) (.inl (by simp only [segA]; omega))) (fun _ _ sA5 sB5 h5 => ?_)
        exact S2.pure ⟨⟨rfl, .inr ⟨n, hn0, rfl, rfl⟩⟩, p', hp', h5⟩

theorem htmlOpen_sim (src : Bytes) : OpenSim src .html := by
  intro k ls p parent sA sB h
  show S2 _ (htmlOpen parent sA) (htmlOpen (parent + 1) sB)
  unfold htmlOpen
  refine S2.bind (peekLine_s2 h) (fun a b sA1 sB1 hq => ?_)
  obtain ⟨ha, hb, h1⟩ := hq
  subst ha hb
  simp only
  refine S2.bind (lastOpenedBlock_s2 h1) (fun a b sA2 sB2 hq => ?_)
  obtain ⟨hl, _, e1, e2⟩ := hq
  subst e1 e2
  rcases hl with ⟨ha, hb⟩ | ⟨x, ha, hb⟩
  · subst ha hb
    simp only
    have hk := (h1.n.node 0).kind
    simp only [beq_self_eq_true, if_true] at hk
    refine S2.bindR (b := sB2.nodes.getD 1 default) (sB1 := sB2) rfl ?_
    have e : ((sB2.nodes.getD 1 default).kind == Kind.paragraph) = false := by
      show ((sB2.nodes.getD (0 + 1) default).kind == Kind.paragraph) = false
      rw [hk.1]; rfl
    rw [e]
    exact htmlOpenTail_s2 h1 false
  · subst ha hb
    simp only
    refine S2.bind (getNode_s2 h1 x.node) (fun na nb sA3 sB3 hq => ?_)
    obtain ⟨hab, h3⟩ := hq
    have e : (nb.kind == Kind.paragraph) = (na.kind == Kind.paragraph) := by
      have hk := hab.kind
      by_cases hx : x.node = 0
      · rw [hx] at hk
        simp only [beq_self_eq_true, if_true] at hk
        rw [hk.1, hk.2]; rfl
      · have : (x.node == 0) = false := beq_eq_false_iff_ne.mpr hx
        rw [this] at hk
        simp only [Bool.false_eq_true, if_false] at hk
        rw [hk]
    rw [e]
    exact htmlOpenTail_s2 h3 _

/-! ### Continue -/

theorem html_s2_ite {α β} {Q : α → β → St → St → Prop} {c : Prop} [Decidable c] {x x' : M α} {y y' : M β} {sA sB : St}
    (h1 : c → S2 Q (x sA) (y sB)) (h2 : ¬ c → S2 Q (x' sA) (y' sB)) :
    S2 Q ((if c then x else x') sA) ((if c then y else y') sB) := by
  by_cases hc : c
  · rw [if_pos hc, if_pos hc]; exact h1 hc
  · rw [if_neg hc, if_neg hc]; exact h2 hc

/-- `Segment.Value` of a stored segment: the same bytes in both runs -/
theorem html_value_q {src : Bytes} {s t : Segment} (h : SegRel src s t) :
    t.value (quotePrefix src) = s.value src := by
  obtain ⟨k, ls, hl, g1, g2, g3, rfl⟩ := h
  obtain ⟨e1, e2⟩ := sliceB_q hl g1 g2 g3
  have e3 : s.padding + (s.stop + 2 * ((k : Int) + 1)) - (s.start + 2 * ((k : Int) + 1)) + 1 =
      s.padding + s.stop - s.start + 1 := by omega
  unfold Segment.value
  simp only [shK, e2, e3]
  rw [e1]
  rfl

theorem html_appendTail_s2 {src k ls p} {sA sB : St} (h : SR src k ls p sA sB) (node : Nat) (hplt : p < lineEnd src ls) :
    S2 (fun a b sA' sB' => b = a ∧ ∃ p', p ≤ p' ∧ SR src k ls p' sA' sB')
      ((do
        appendLine node (segA src ls p)
        advance ((segA src ls p).len - (trimRightSpaceLength ((viewA src ls p).getD []) : Int))
        pure stContinueNoChildren : M PState) sA)
      ((do
        appendLine (node + 1) (shK k (segA src ls p))
        advance ((shK k (segA src ls p)).len - (trimRightSpaceLength ((viewA src ls p).getD []) : Int))
        pure stContinueNoChildren : M PState) sB) := by
  refine S2.bind (appendLine_s2 h node (html_segRel h.r.inl) (.inl (by simp only [segA]; omega))) (fun _ _ sA1 sB1 h1 => ?_)
  refine S2.bind (html_advance_s2 h1) (fun _ _ sA2 sB2 hq => ?_)
  obtain ⟨p', hp', h2⟩ := hq
  exact S2.pure ⟨rfl, p', hp', h2⟩

theorem html_closeTail_s2 {src k ls p} {sA sB : St} (h : SR src k ls p sA sB) (node : Nat) (c : Bool)
    (hplt : p < lineEnd src ls) :
    S2 (fun a b sA' sB' => b = a ∧ ∃ p', p ≤ p' ∧ SR src k ls p' sA' sB')
      ((if c = true then do
          modNode node fun n => { n with closure := segA src ls p }
          advance ((segA src ls p).len - (trimRightSpaceLength ((viewA src ls p).getD []) : Int))
          pure stClose
        else do
          appendLine node (segA src ls p)
          advance ((segA src ls p).len - (trimRightSpaceLength ((viewA src ls p).getD []) : Int))
          pure stContinueNoChildren : M PState) sA)
      ((if c = true then do
          modNode (node + 1) fun n => { n with closure := shK k (segA src ls p) }
          advance ((shK k (segA src ls p)).len - (trimRightSpaceLength ((viewA src ls p).getD []) : Int))
          pure stClose
        else do
          appendLine (node + 1) (shK k (segA src ls p))
          advance ((shK k (segA src ls p)).len - (trimRightSpaceLength ((viewA src ls p).getD []) : Int))
          pure stContinueNoChildren : M PState) sB) := by
  refine html_s2_ite (fun _ => ?_) (fun _ => html_appendTail_s2 h node hplt)
  refine S2.bind (modNode_s2 h node _ _ (fun a b hab => ?_)) (fun _ _ sA1 sB1 h1 => ?_)
  · exact { hab with closure := .inr (html_segRel h.r.inl), closNE := fun _ => by simp only [segA]; omega }
  · refine S2.bind (html_advance_s2 h1) (fun _ _ sA2 sB2 hq => ?_)
    obtain ⟨p', hp', h2⟩ := hq
    exact S2.pure ⟨rfl, p', hp', h2⟩

/-- `Continue` of the HTML block parser when there is a current line (on an exhausted reader the segment it would
    store is empty, which the relation does not allow in a raw block / as a closure segment) -/
theorem htmlContinue_sim' (src : Bytes) : ∀ k ls p node sA sB, SR src k ls p sA sB → p < src.length →
    S2 (fun a b sA' sB' => b = a ∧ ∃ p', p ≤ p' ∧ SR src k ls p' sA' sB')
      (bpContinue .html node sA) (bpContinue .html (node + 1) sB) := by
  intro k ls p node sA sB h hp
  have hplt : p < lineEnd src ls := h.r.inl.lt_iff.mp hp
  show S2 _ (htmlContinue node sA) (htmlContinue (node + 1) sB)
  unfold htmlContinue
  refine S2.bind (getNode_s2 h node) (fun na nb sA0 sB0 hq => ?_)
  obtain ⟨hab, h0⟩ := hq
  refine S2.bind (peekLine_s2 h0) (fun a b sA1 sB1 hq => ?_)
  obtain ⟨ha, hb, h1⟩ := hq
  subst ha hb
  simp only
  rw [hab.htmlType, SegsRel.length hab.lines]
  refine html_s2_ite (fun _ => ?_) (fun _ => ?_)
  · refine html_s2_ite (fun _ => ?_) (fun _ => html_closeTail_s2 h1 node _ hplt)
    refine S2.bind (P := fun x y sA' sB' => SegRel src x y ∧ SR src k ls p sA' sB')
      (S2.liftE (fun x hx => ?_)) (fun x y sA2 sB2 hq => ?_)
    · obtain ⟨y, hy, hxy⟩ := lineAt_q hab.lines _ x hx
      exact ⟨y, hy, hxy, h1⟩
    · obtain ⟨hxy, h2⟩ := hq
      refine S2.bind (source_s2 h2) (fun sa sb sA3 sB3 hq => ?_)
      obtain ⟨ha, hb, h3⟩ := hq
      rw [ha, hb]
      refine S2.bind (P := fun v w sA' sB' => w = v ∧ SR src k ls p sA' sB')
        (S2.liftE (fun v hv => ⟨v, by rw [html_value_q hxy]; exact hv, rfl, h3⟩)) (fun v w sA4 sB4 hq => ?_)
      obtain ⟨hw, h4⟩ := hq
      rw [hw]
      refine html_s2_ite (fun _ => S2.pure ⟨rfl, p, Nat.le_refl _, h4⟩) (fun _ => html_closeTail_s2 h4 node _ hplt)
  · refine html_s2_ite (fun _ => ?_) (fun _ => html_appendTail_s2 h1 node hplt)
    refine html_s2_ite (fun _ => S2.pure ⟨rfl, p, Nat.le_refl _, h1⟩) (fun _ => html_appendTail_s2 h1 node hplt)

/-! ### the statements with the (unneeded) hypothesis that there is a current line -/

theorem htmlOpen_sim' (src : Bytes) : ∀ k ls p parent sA sB, SR src k ls p sA sB → p < src.length →
    S2 (fun a b sA' sB' => OpenRel a b ∧ ∃ p', p ≤ p' ∧ SR src k ls p' sA' sB')
      (bpOpen .html parent sA) (bpOpen .html (parent + 1) sB) :=
  fun k ls p parent sA sB h _ => htmlOpen_sim src k ls p parent sA sB h

end GM.Blocks
