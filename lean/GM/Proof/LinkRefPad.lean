/-
  GM.Proof.LinkRefPad — the link reference definition scanner on well-formed lines WITH virtual padding (continuation
  lines behind a partly consumed tab inside a container): it never exhausts the fuel of SkipSpaces / FindClosure, and the
  `for` loop of Transform never exhausts its fuel. Invariant: the block reader stands for a well-formed cursor (`BAbs` of
  C18) whose padding does not exceed the padding of its line (`PadOK`) — what bounds the bytes in front of the cursor
  by `rdFuel`. Unlike GM.Proof.LinkRefTotal (padding-free lines: total) this file proves termination only: a Go panic
  stays a possible outcome.
-/
import GM.Proof.LinkRefTotal

namespace GM.Proof.LinkRefPad
open GM GM.Text GM.Spec GM.Inl GM.LinkRef GM.Proof.Reader GM.Proof.InlinesReader GM.Proof.Inlines GM.Proof.InlinesTotal
open GM.Proof.InlinesLink GM.Proof.BlockReaderFuel GM.Blocks GM.Proof.LinkRefTotal

variable {src : Bytes} {segs : List Segment}

/-- the cursor's padding is what is left of its line's padding -/
def PadOK (segs : List Segment) (c : BCur) : Prop := c.ln < BCur.k segs → c.pad ≤ (BCur.segOf segs c.ln).padding

/-- the reader stands for a well-formed cursor with `PadOK` -/
structure BP (src : Bytes) (segs : List Segment) (r : BlockReader) (c : BCur) : Prop where
  abs : BAbs src segs r c
  pad : PadOK segs c

/-! ### an invariant of the cursor kept by the reader helpers -/

section generic
variable {σ : Type} (o : Ops σ) (J : σ → Prop)

theorem skipSpacesLine_inv (hadv : ∀ n s s', J s → o.advance n s = .ok s' → J s') (seg : Segment) :
    ∀ (l : Bytes) (i chars : Int) (s : σ) res ch s', J s → skipSpacesLine o seg l i chars s = .ok (res, ch, s') → J s' := by
  intro l
  induction l with
  | nil => intro i chars s res ch s' hj h; simp only [skipSpacesLine, pure, Except.pure, Except.ok.injEq, Prod.mk.injEq] at h; obtain ⟨_, _, rfl⟩ := h; exact hj
  | cons b bs ih =>
    intro i chars s res ch s' hj h
    simp only [skipSpacesLine] at h
    split at h
    · cases ha : o.advance 1 s with
      | error e => rw [ha] at h; simp [bind, Except.bind] at h
      | ok s1 =>
        rw [ha] at h
        simp only [bind, Except.bind] at h
        exact ih _ _ s1 res ch s' (hadv 1 s s1 hj ha) h
    · simp only [pure, Except.pure, Except.ok.injEq, Prod.mk.injEq] at h
      obtain ⟨_, _, rfl⟩ := h; exact hj

theorem skipSpaces_inv (hadv : ∀ n s s', J s → o.advance n s = .ok s' → J s')
    (hpl : ∀ s x s', J s → o.peekLine s = .ok (x, s') → J s') :
    ∀ (fuel : Nat) (chars : Int) (s : σ) x s', J s → skipSpaces o fuel chars s = .ok (x, s') → J s' := by
  intro fuel
  induction fuel with
  | zero => intro chars s x s' _ h; simp [skipSpaces] at h
  | succ f ih =>
    intro chars s x s' hj h
    simp only [skipSpaces] at h
    cases hp : o.peekLine s with
    | error e => rw [hp] at h; simp [bind, Except.bind] at h
    | ok y =>
      obtain ⟨⟨line, seg⟩, s1⟩ := y
      have hj1 := hpl s _ s1 hj hp
      rw [hp] at h
      simp only [bind, Except.bind] at h
      cases line with
      | none =>
        simp only [pure, Except.pure, Except.ok.injEq, Prod.mk.injEq] at h
        obtain ⟨_, rfl⟩ := h; exact hj1
      | some l =>
        simp only at h
        cases hl : skipSpacesLine o seg l 0 chars s1 with
        | error e => rw [hl] at h; simp at h
        | ok z =>
          obtain ⟨res, ch, s2⟩ := z
          have hj2 := skipSpacesLine_inv o J hadv seg l 0 chars s1 res ch s2 hj1 hl
          rw [hl] at h
          simp only at h
          cases res with
          | some v =>
            simp only [pure, Except.pure, Except.ok.injEq, Prod.mk.injEq] at h
            obtain ⟨_, rfl⟩ := h; exact hj2
          | none => exact ih ch s2 x s' hj2 h

theorem findClosureLoop_inv (hadv : ∀ n s s', J s → o.advance n s = .ok s' → J s')
    (hal : ∀ s s', J s → o.advanceLine s = .ok s' → J s')
    (hpl : ∀ s x s', J s → o.peekLine s = .ok (x, s') → J s') (opener closer : UInt8) (opts : FindClosureOptions) :
    ∀ (fuel opened cso : Nat) (ret : Option (List Segment)) (s : σ) x s', J s →
      findClosureLoop o opener closer opts fuel opened cso ret s = .ok (x, s') → J s' := by
  intro fuel
  induction fuel with
  | zero => intro opened cso ret s x s' _ h; simp [findClosureLoop] at h
  | succ f ih =>
    intro opened cso ret s x s' hj h
    simp only [findClosureLoop] at h
    cases hp : o.peekLine s with
    | error e => rw [hp] at h; simp [bind, Except.bind] at h
    | ok y =>
      obtain ⟨⟨bs, seg⟩, s1⟩ := y
      have hj1 := hpl s _ s1 hj hp
      rw [hp] at h
      simp only [bind, Except.bind] at h
      cases bs with
      | none =>
        simp only [pure, Except.pure, Except.ok.injEq, Prod.mk.injEq] at h
        obtain ⟨_, rfl⟩ := h; exact hj1
      | some bs =>
        simp only at h
        split at h
        · rename_i i _
          cases ha : o.advance (↑i + 1) s1 with
          | error e => rw [ha] at h; simp at h
          | ok s2 =>
            rw [ha] at h
            simp only [pure, Except.pure, Except.ok.injEq, Prod.mk.injEq] at h
            obtain ⟨_, rfl⟩ := h
            exact hadv _ s1 s2 hj1 ha
        · simp only [pure, Except.pure, Except.ok.injEq, Prod.mk.injEq] at h
          obtain ⟨_, rfl⟩ := h; exact hj1
        · split at h
          · simp only [pure, Except.pure, Except.ok.injEq, Prod.mk.injEq] at h
            obtain ⟨_, rfl⟩ := h; exact hj1
          · cases ha : o.advanceLine s1 with
            | error e => rw [ha] at h; simp at h
            | ok s2 =>
              rw [ha] at h
              exact ih _ _ _ s2 x s' (hal s1 s2 hj1 ha) h

end generic

/-! ### `PadOK` under the cursor operations -/

theorem padOK_adv1 {c : BCur} (h : PadOK segs c) : PadOK segs (BCur.adv1 segs c) := by
  unfold BCur.adv1
  split
  · intro hl; have := h hl; simp only at hl ⊢; omega
  · split
    · intro hl; exact h hl
    · intro _; simp only; exact Int.le_refl _

theorem padOK_advN (n : Nat) : ∀ {c : BCur}, PadOK segs c → PadOK segs (BCur.advN segs n c) := by
  induction n with
  | zero => intro c h; exact h
  | succ n ih => intro c h; exact ih (padOK_adv1 h)

theorem padOK_advance {c c' : BCur} {n : Int} (h : PadOK segs c) (e : BCur.advance segs n c = .ok c') : PadOK segs c' := by
  unfold BCur.advance at e
  split at e
  · cases e; exact padOK_advN _ h
  · cases e

theorem padOK_advanceLine {c : BCur} (_h : PadOK segs c) : PadOK segs (BCur.advanceLine segs c) := by
  unfold BCur.advanceLine
  split
  · intro _; simp only; exact Int.le_refl _
  · rename_i hk; intro hl; simp only at hl; omega

theorem padOK_ops_adv : ∀ n (c c' : BCur), PadOK segs c → (BCur.ops src segs).advance n c = .ok c' → PadOK segs c' :=
  fun _ _ _ h e => padOK_advance h e

theorem padOK_ops_al : ∀ (c c' : BCur), PadOK segs c → (BCur.ops src segs).advanceLine c = .ok c' → PadOK segs c' := by
  intro c c' h e
  simp only [BCur.ops, Except.ok.injEq] at e
  subst e; exact padOK_advanceLine h

theorem padOK_ops_pl : ∀ (c : BCur) x (c' : BCur), PadOK segs c → (BCur.ops src segs).peekLine c = .ok (x, c') → PadOK segs c' := by
  intro c x c' h e
  simp only [BCur.ops, BCur.peekLine, Except.ok.injEq, Prod.mk.injEq] at e
  obtain ⟨_, rfl⟩ := e; exact h

/-! ### the fuel bound with paddings -/

def padSum : List Segment → Int
  | [] => 0
  | s :: rest => s.padding + padSum rest

theorem viewsLen_le_pad (src : Bytes) : ∀ (l : List Segment) (lo : Int), lo ≤ src.length → WFSegsFrom src lo l →
    BCur.viewsLen l ≤ (src.length - lo) + padSum l
  | [], lo, hlo, _ => by
    simp only [BCur.viewsLen, padSum]
    omega
  | s :: rest, lo, _, h => by
    obtain ⟨h1, h2, h3, h4, _, h6⟩ := h
    have := viewsLen_le_pad src rest s.stop h3 h6
    simp only [BCur.viewsLen, padSum]
    omega

theorem padSum_le_foldl : ∀ (l : List Segment) (a : Nat), (∀ s ∈ l, 0 ≤ s.padding) →
    (a : Int) + padSum l ≤ (l.foldl (fun a s => a + s.padding.toNat + 1) a : Nat)
  | [], a, _ => by simp [padSum]
  | s :: rest, a, h => by
    have h0 := h s (by simp)
    have := padSum_le_foldl rest (a + s.padding.toNat + 1) (fun x hx => h x (by simp [hx]))
    simp only [List.foldl_cons, padSum]
    have e : ((a + s.padding.toNat + 1 : Nat) : Int) = a + s.padding + 1 := by omega
    rw [e] at this
    omega

theorem wfFrom_pad_nonneg (src : Bytes) : ∀ (l : List Segment) (lo : Int), WFSegsFrom src lo l → ∀ s ∈ l, 0 ≤ s.padding
  | [], _, _ => by intro s hs; cases hs
  | x :: rest, lo, h => by
    obtain ⟨_, _, _, h4, _, h6⟩ := h
    intro s hs
    rcases List.mem_cons.1 hs with rfl | hs
    · exact h4
    · exact wfFrom_pad_nonneg src rest _ h6 s hs

/-- the helpers' fuel covers what is in front of a cursor with `PadOK`, whatever the paddings -/
theorem rdFuel_gt_pad (W : WFSegs src segs) {r : BlockReader} {c : BCur} (h : BP src segs r c) :
    (BCur.remaining segs c).toNat < rdFuel r := by
  have F := segFacts W
  have hv := viewsLen_le_pad src segs 0 (by omega) W.2
  have hf := padSum_le_foldl segs 0 (wfFrom_pad_nonneg src segs 0 W.2)
  have hb : BCur.remaining segs c ≤ BCur.viewsLen segs := by
    unfold BCur.remaining
    split
    · rename_i hl
      simp only [BCur.live, Bool.and_eq_true, decide_eq_true_eq] at hl
      have i1 := h.abs.wf.inLine hl.1
      have hp := h.pad hl.1
      have hst : BCur.stopOf segs c = (BCur.segOf segs c.ln).stop := by simp [BCur.stopOf, hl.1]
      have hd := viewsLen_drop segs c.ln h.abs.wf.ln0 hl.1
      have h1 := viewsLen_drop_le F c.ln.toNat
      omega
    · exact viewsLen_nonneg F 0 |> fun x => by simpa using x
  unfold rdFuel loopFuel
  rw [h.abs.source, h.abs.segments]
  simp only [Int.ofNat_zero, Int.zero_add] at hf
  omega

/-! ### the reader primitives on `BP` -/

theorem bp_skipSpaces (W : WFSegs src segs) {r : BlockReader} {c : BCur} (h : BP src segs r c) :
    ∃ x r' c', skipSpaces blockOps (rdFuel r) 0 r = .ok (x, r') ∧ BP src segs r' c' := by
  have F := segFacts W
  obtain ⟨x, c', e, w', _⟩ := bcur_skipSpaces_ok (src := src) F (rdFuel r) 0 h.abs.wf (rdFuel_gt_pad W h)
  have hp := skipSpaces_inv (BCur.ops src segs) (PadOK segs) padOK_ops_adv padOK_ops_pl (rdFuel r) 0 c x c' h.pad e
  obtain ⟨r', e', a'⟩ := skipSpaces_sim (blockSim F) (rdFuel r) h.abs e
  exact ⟨x, r', c', e', a', hp⟩

theorem bp_findClosure (W : WFSegs src segs) {r : BlockReader} {c : BCur} (h : BP src segs r c) (o cl : UInt8) :
    ∃ x r' c', findClosure blockOps (rdFuel r) o cl linkFindClosureOptions r = .ok (x, r') ∧ BP src segs r' c' := by
  have F := segFacts W
  obtain ⟨x, c', e, w'⟩ := bcur_findClosure_ok (src := src) F o cl linkFindClosureOptions (rdFuel r) h.abs.wf (rdFuel_gt_pad W h)
  obtain ⟨r', e', a'⟩ := findClosure_sim (blockSim F) (rdFuel r) o cl linkFindClosureOptions h.abs e
  refine ⟨x, r', c', e', a', ?_⟩
  unfold findClosure at e
  cases hl : findClosureLoop (BCur.ops src segs) o cl linkFindClosureOptions (rdFuel r) 1 0 none c with
  | error er => rw [hl] at e; simp [bind, Except.bind] at e
  | ok y =>
    obtain ⟨y1, c1⟩ := y
    have hp := findClosureLoop_inv (BCur.ops src segs) (PadOK segs) padOK_ops_adv padOK_ops_al padOK_ops_pl o cl
      linkFindClosureOptions (rdFuel r) 1 0 none c y1 c1 h.pad hl
    rw [hl] at e
    simp only [bind, Except.bind, linkFindClosureOptions, Bool.not_true, Bool.false_eq_true, if_false, pure, Except.pure] at e
    split at e <;> (simp only [Except.ok.injEq, Prod.mk.injEq] at e; obtain ⟨_, rfl⟩ := e; exact hp)

theorem bp_advance (W : WFSegs src segs) {r : BlockReader} {c : BCur} (h : BP src segs r c) {n : Int} (h0 : 0 ≤ n)
    (hn : n ≤ BCur.remaining segs c) : ∃ r' c', r.advance n = .ok r' ∧ BP src segs r' c' := by
  have F := segFacts W
  have hs : BCur.advance segs n c = .ok (BCur.advN segs n.toNat c) := by simp [BCur.advance, h0, hn]
  obtain ⟨r', hr, ha⟩ := badvance_ref F h.abs hs
  exact ⟨r', _, hr, ha, padOK_advN _ h.pad⟩

theorem bp_advance_view (W : WFSegs src segs) {r : BlockReader} {c : BCur} (h : BP src segs r c) {l : Bytes}
    (hv : BCur.view src segs c = some l) {n : Int} (h0 : 0 ≤ n) (hn : n ≤ l.length) :
    ∃ r' c', r.advance n = .ok r' ∧ BP src segs r' c' := by
  have := (bcur_view_len (segFacts W) h.abs.wf hv).2.1
  exact bp_advance W h h0 (by omega)

theorem bp_advanceLine (W : WFSegs src segs) {r : BlockReader} {c : BCur} (h : BP src segs r c) :
    ∃ r' c', r.advanceLine = .ok r' ∧ BP src segs r' c' := by
  obtain ⟨r', e, a, _⟩ := badvanceLine_ref (segFacts W) h.abs
  exact ⟨r', _, e, a, padOK_advanceLine h.pad⟩

theorem bp_peekLine (W : WFSegs src segs) {r : BlockReader} {c : BCur} (h : BP src segs r c) :
    r.peekLine = .ok ((BCur.view src segs c, BCur.seg segs c), r) := by
  rw [bpeekLine_ref (segFacts W) h.abs]; rfl

theorem bp_peek (W : WFSegs src segs) {r : BlockReader} {c : BCur} (h : BP src segs r c) :
    r.peek = .ok (BCur.peek src segs c) := bpeek_ref (segFacts W) h.abs

/-! ### `Value` never exhausts fuel (it has none) -/

theorem valueFindLine_noLoop (r : BlockReader) (seg : Segment) : ∀ k, NoLoop (BlockReader.valueFindLine r seg k)
  | 0 => by unfold BlockReader.valueFindLine; noloop
  | k + 1 => by
    have := segAt_noLoop r.segments (k : Int)
    have := valueFindLine_noLoop r seg k
    unfold BlockReader.valueFindLine; noloop

theorem copyRange_noLoop (src : Bytes) (i hi : Int) : NoLoop (BlockReader.copyRange src i hi) := by
  unfold BlockReader.copyRange; noloop

theorem valueLoop_noLoop (r : BlockReader) (seg : Segment) : ∀ (fuel : Nat) (line i : Int) (ret : Bytes),
    NoLoop (BlockReader.valueLoop r seg fuel line i ret)
  | 0, _, _, _ => by unfold BlockReader.valueLoop; noloop
  | fuel + 1, line, i, ret => by
    have := segAt_noLoop r.segments line
    have := fun a b => copyRange_noLoop r.source a b
    have := fun l j rt => valueLoop_noLoop r seg fuel l j rt
    unfold BlockReader.valueLoop; noloop

theorem valueOp_noLoop (seg : Segment) (r : BlockReader) : NoLoop (r.valueOp seg) := by
  have := valueFindLine_noLoop r seg
  have := valueLoop_noLoop r seg
  unfold BlockReader.valueOp; noloop

theorem segsValue_noLoop (r : BlockReader) : ∀ (l : List Segment), NoLoop (segsValue r l)
  | [] => by unfold segsValue; noloop
  | s :: rest => by
    have := valueOp_noLoop s r
    have := segsValue_noLoop r rest
    unfold segsValue; noloop

theorem closureValue_noLoop (r : BlockReader) (l : List Segment) : NoLoop (closureValue r l) := by
  have := segsValue_noLoop r l
  unfold closureValue; noloop

/-! ### the stages -/

/-- what a stage answers: not the fuel error; a reader that stands for a cursor with `PadOK` -/
def GoodD (src : Bytes) (segs : List Segment) (res : DefRes) : Prop :=
  match res with
  | .ok (_, r', _) => ∃ c', BP src segs r' c'
  | .error e => e ≠ Panic.loop

theorem goodD_noDef {r : BlockReader} {c : BCur} (h : BP src segs r c) (refs : RefMap) : GoodD src segs (noDef r refs) :=
  ⟨c, h⟩

theorem goodD_ok {r : BlockReader} {c : BCur} (h : BP src segs r c) (x : Int × Int) (refs : RefMap) :
    GoodD src segs (.ok (x, r, refs)) := ⟨c, h⟩

theorem goodD_err {e : Panic} (h : e ≠ .loop) : GoodD src segs (.error e) := h

theorem defNoTitle_goodD (W : WFSegs src segs) {r0 r : BlockReader} {c0 c : BCur} (h0 : BP src segs r0 c0)
    (h : BP src segs r c) (refs : RefMap) (sl : Int) (label dest : Bytes) :
    GoodD src segs (defNoTitle r refs sl r0.position.1 r0.position.2 label dest) := by
  have F := segFacts W
  obtain ⟨r1, e1, a1⟩ := blockReader_setPosition_restores F h0.abs h.abs
  have h1 : BP src segs r1 c0 := ⟨a1, h0.pad⟩
  obtain ⟨r2, c2, e2, h2⟩ := bp_advanceLine W h1
  unfold defNoTitle
  simp only [e1, e2, bind, Except.bind, pure, Except.pure]
  exact goodD_ok h2 _ _

theorem defTitled_goodD (W : WFSegs src segs) {r0 r : BlockReader} {c0 c : BCur} (h0 : BP src segs r0 c0)
    (h : BP src segs r c) (refs : RefMap) (sl : Int) (nl : Bool) (label dest : Bytes) (sg : List Segment) :
    GoodD src segs (defTitled r refs sl r0.position.1 r0.position.2 nl label dest sg) := by
  have hpl := bp_peekLine W h
  have hn := defNoTitle_goodD W h0 h refs sl label dest
  unfold defTitled
  cases hc : closureValue r sg with
  | error e => simp only [bind, Except.bind]; exact goodD_err ((closureValue_noLoop r sg).h e hc)
  | ok t =>
    simp only [hpl, bind, Except.bind, pure, Except.pure]
    repeat' split
    all_goals first
      | exact goodD_noDef h refs
      | exact hn
      | exact goodD_ok h _ _

theorem parseLinkDestination_good (W : WFSegs src segs) {r : BlockReader} {c : BCur} (h : BP src segs r c) :
    ∃ d r' c', parseLinkDestination r = .ok (d, r') ∧ BP src segs r' c' := by
  have F := segFacts W
  obtain ⟨x, r1, c1, e1, h1⟩ := bp_skipSpaces W h
  have hpl := bp_peekLine W h1
  have hpk := bp_peek W h1
  unfold parseLinkDestination
  simp only [e1, hpl, hpk, bind, Except.bind, pure, Except.pure]
  split
  · rename_i h60
    simp only [beq_iff_eq] at h60
    obtain ⟨l, hv⟩ := peek_view h60 (by decide)
    simp only [hv, Option.getD_some, List.drop_succ_cons, List.drop_zero]
    cases hd : destAngle l 1 with
    | none => exact ⟨_, r1, c1, rfl, h1⟩
    | some i =>
      have hb := destAngle_bound _ l (Nat.le_refl _) 1 i hd
      obtain ⟨r2, c2, g1, g2⟩ := bp_advance_view W h1 hv (n := (i : Int) + 1) (by omega)
        (by simp only [List.length_cons]; omega)
      simp only [g1]
      exact ⟨_, r2, c2, rfl, g2⟩
  · cases hv : BCur.view src segs c1 with
    | none =>
      have hn := remaining_nonneg F h1.abs.wf
      obtain ⟨r2, c2, g1, g2⟩ := bp_advance W h1 (n := 0) (Int.le_refl _) hn
      have g1' : BlockReader.advance ((0 : Nat) : Int) r1 = .ok r2 := by exact_mod_cast g1
      simp only [Option.getD_none]
      split
      · exact ⟨_, r1, c1, rfl, h1⟩
      simp only [destPlain, g1']
      exact ⟨_, r2, c2, rfl, g2⟩
    | some l =>
      have hb := destPlain_bound _ l (Nat.le_refl _) 0 0
      obtain ⟨r2, c2, g1, g2⟩ := bp_advance_view W h1 hv (n := (destPlain l 0 0 : Int)) (by omega) (by omega)
      simp only [Option.getD_some]
      split
      · exact ⟨_, r1, c1, rfl, h1⟩   -- an open parenthesis is left (repair ce3b6c4): rejected, reader not advanced
      simp only [g1]
      exact ⟨_, r2, c2, rfl, g2⟩

theorem defAfterDest_goodD (W : WFSegs src segs) {r : BlockReader} {c : BCur} (h : BP src segs r c) (refs : RefMap)
    (sl : Int) (label dest : Bytes) : GoodD src segs (defAfterDest r refs sl label dest) := by
  have hpl := bp_peekLine W h
  obtain ⟨⟨sg0, spaces, ok0⟩, r1, c1, e1, h1⟩ := bp_skipSpaces W h
  have hpk := bp_peek W h1
  unfold defAfterDest
  simp only [hpl, e1, hpk, bind, Except.bind, pure, Except.pure]
  by_cases hop : (BCur.peek src segs c1 != 34 && BCur.peek src segs c1 != 39 && BCur.peek src segs c1 != 40) = true
  · simp only [hop, if_true]
    repeat' split
    all_goals first
      | exact goodD_noDef h1 refs
      | exact goodD_ok h1 _ _
  · simp only [hop, Bool.false_eq_true, if_false]
    by_cases hsp : (spaces == 0) = true
    · simp only [hsp, if_true]
      exact goodD_noDef h1 refs
    · simp only [hsp, Bool.false_eq_true, if_false]
      have hne : BCur.peek src segs c1 ≠ 255 := by
        intro e; rw [e] at hop; simp at hop
      obtain ⟨l, hv⟩ := peek_view (rfl : BCur.peek src segs c1 = _) hne
      obtain ⟨r2, c2, g1, g2⟩ := bp_advance_view W h1 hv (n := 1) (by omega) (by simp only [List.length_cons]; omega)
      obtain ⟨⟨sgs, found⟩, r3, c3, k1, k2⟩ := bp_findClosure W g2 (BCur.peek src segs c1)
        (if (BCur.peek src segs c1 == 40) = true then 41 else BCur.peek src segs c1)
      have hn := defNoTitle_goodD W h k2 refs sl label dest
      have ht := fun nl => defTitled_goodD W h k2 refs sl nl label dest (sgs.getD [])
      simp only [g1, k1]
      repeat' split
      all_goals first
        | exact goodD_noDef k2 refs
        | exact hn
        | exact ht _

theorem defAfterLabel_goodD (W : WFSegs src segs) {r : BlockReader} {c : BCur} (h : BP src segs r c) (refs : RefMap)
    (sl : Int) (label : Bytes) : GoodD src segs (defAfterLabel r refs sl label) := by
  have hpk := bp_peek W h
  unfold defAfterLabel
  simp only [hpk, bind, Except.bind, pure, Except.pure]
  split
  · exact goodD_noDef h refs
  · split
    · exact goodD_noDef h refs
    · rename_i h58
      have hne : BCur.peek src segs c ≠ 255 := by
        intro e; rw [e] at h58; simp at h58
      obtain ⟨l, hv⟩ := peek_view (rfl : BCur.peek src segs c = _) hne
      obtain ⟨r2, c2, g1, g2⟩ := bp_advance_view W h hv (n := 1) (by omega) (by simp only [List.length_cons]; omega)
      obtain ⟨x, r3, c3, e3, h3⟩ := bp_skipSpaces W g2
      obtain ⟨d, r4, c4, e4, h4⟩ := parseLinkDestination_good W h3
      simp only [g1, e3, e4]
      split
      · exact goodD_noDef h4 refs
      · exact defAfterDest_goodD W h4 refs _ _ _

theorem defTail_goodD (W : WFSegs src segs) {r : BlockReader} {c : BCur} (h : BP src segs r c) (refs : RefMap)
    (sl pos : Int) {l : Bytes} (hv : BCur.view src segs c = some l) (h0 : 0 ≤ pos) (h1 : pos < l.length) :
    GoodD src segs (defTail r refs sl pos) := by
  obtain ⟨r1, c1, g1, g2⟩ := bp_advance_view W h hv (n := pos + 1) (by omega) (by omega)
  obtain ⟨y, r2, c2, k1, k2⟩ := bp_findClosure W g2 91 93
  unfold defTail
  simp only [g1, k1, bind, Except.bind, pure, Except.pure]
  split
  · exact goodD_noDef k2 refs
  · cases hc : closureValue r2 (y.1.getD []) with
    | error e => exact goodD_err ((closureValue_noLoop _ _).h e hc)
    | ok lab => exact defAfterLabel_goodD W k2 refs _ _

theorem parseLinkReferenceDefinition_goodD (W : WFSegs src segs) {r : BlockReader} {c : BCur} (h : BP src segs r c)
    (refs : RefMap) : GoodD src segs (parseLinkReferenceDefinition r refs) := by
  obtain ⟨x, r1, c1, e1, h1⟩ := bp_skipSpaces W h
  have hpl := bp_peekLine W h1
  unfold parseLinkReferenceDefinition defHead
  simp only [e1, hpl, bind, Except.bind, pure, Except.pure]
  cases hv : BCur.view src segs c1 with
  | none => exact goodD_noDef h1 refs
  | some line =>
    simp only
    generalize GM.Blocks.indentWidthI line 0 = wp
    obtain ⟨width, pos⟩ := wp
    simp only
    by_cases hw : width > 3
    · simp only [hw, if_true]
      exact goodD_noDef h1 refs
    · simp only [hw, if_false]
      cases hidx : GM.Blocks.idx line (if (width != 0) = true then pos + 1 else pos) with
      | error e => exact goodD_err (getByte_noLoop' _ _ hidx)
      | ok b =>
        simp only
        by_cases hb : (b != 91) = true
        · simp only [hb, if_true]
          exact goodD_noDef h1 refs
        · simp only [hb, Bool.false_eq_true, if_false]
          have := getByte_ok hidx
          exact defTail_goodD W h1 refs _ _ hv (by omega) (by omega)

/-- the `for` loop of Transform never exhausts its fuel on well-formed lines, whatever their paddings -/
theorem transformLoop_noLoop_pad (W : WFSegs src segs) :
    ∀ (fuel : Nat) (rd : BlockReader) (c : BCur) (refs : RefMap) (removes : List (Int × Int)),
      BP src segs rd c → offsetMeasure rd < fuel → transformLoop fuel rd refs removes ≠ .error .loop := by
  intro fuel
  induction fuel with
  | zero => intro _ _ _ _ _ h; omega
  | succ fuel ih =>
    intro rd c refs removes h hf
    have hg := parseLinkReferenceDefinition_goodD W h refs
    unfold transformLoop
    cases hd : parseLinkReferenceDefinition rd refs with
    | error e =>
      rw [hd] at hg
      simp only [bind, Except.bind]
      intro he; cases he; exact hg rfl
    | ok a =>
      obtain ⟨⟨s, e⟩, rd', refs'⟩ := a
      rw [hd] at hg
      obtain ⟨c', h'⟩ := hg
      simp only [bind, Except.bind, pure, Except.pure]
      split
      · split
        · intro he; cases he
        · rename_i hm
          have hm' : offsetMeasure rd' < offsetMeasure rd := by simpa using hm
          exact ih rd' c' refs' _ h' (by omega)
      · intro he; cases he

/-- **the scan of Transform never exhausts fuel on well-formed lines** (`WFSegs`: non-empty, inside the source,
    increasing, paddings ≥ 0 — no restriction on the paddings), nor on a paragraph without lines -/
theorem transformScan_noLoop_pad {src : Bytes} {lines : List Segment} (h : lines = [] ∨ WFSegs src lines) (refs : RefMap) :
    transformScan src lines refs ≠ .error .loop := by
  rcases h with h | W
  · subst h; rw [transformScan_nil]; intro he; cases he
  · have F := segFacts W
    obtain ⟨r0, e0, a0⟩ := blockReader_init F
    have hp : PadOK lines (BCur.init lines) := by intro _; simp only [BCur.init]; exact Int.le_refl _
    unfold transformScan
    simp only [e0, bind, Except.bind]
    exact transformLoop_noLoop_pad W _ r0 _ refs [] ⟨a0, hp⟩ (by unfold transformFuel; omega)

theorem wfSegsB_sound {src : Bytes} {l : List Segment} (h : wfSegsB src l = true) : WFSegs src l := by
  simp only [wfSegsB, Bool.and_eq_true, Bool.not_eq_true'] at h
  refine ⟨?_, wfSegsFromB_sound src 0 l h.2⟩
  intro e; rw [e] at h; simp at h

end GM.Proof.LinkRefPad
