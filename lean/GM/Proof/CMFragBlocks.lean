/-
  GM.Proof.CMFragBlocks — the block phase on one line of a fragment document, as equations on explicit states:
  a text line with nothing open (a Paragraph is opened), a text line with the paragraph open (continuation), a
  blank line / the end of the source with the paragraph open (it is closed; the link-reference transformer
  declines).
-/
import GM.Proof.CMFragBytes

namespace GM.Proof.CMFrag
open GM GM.Text GM.Blocks

/-- what the block phase needs to know of the first byte of a text line -/
theorem letter_facts : ∀ c : UInt8, GM.Spec.CM.isLetter c = true →
    (c == 32) = false ∧ (c == 9) = false ∧ (c == 10) = false ∧ isSpace c = false ∧ triggered c = none ∧ c ≠ 91 :=
  GM.forall_uint8 _ (by decide +kernel)

/-- a paragraph node below the Document -/
def paraN (lines : List Segment) (b : Bool) : Blocks.Node :=
  { kind := .paragraph, parent := some 0, lines := lines, linesNil := false, blankPrev := b }

/-- the line of `src` that starts at byte `p` ends at `e` (line feed included) and reads `v` -/
structure Ln (src : Bytes) (p e : Nat) (v : Bytes) : Prop where
  sub : sub src p e = v
  lt : p < e
  le : e ≤ src.length
  lineEnd : lineEnd src p = e
  len : v.length = e - p

theorem Ln.of_append (pre l post : Bytes) (h : ∀ c ∈ l, c ≠ 10) :
    Ln (pre ++ (l ++ 10 :: post)) pre.length (pre.length + l.length + 1) (l ++ [10]) :=
  ⟨sub_line pre l post, by omega, by simp; omega, lineEnd_line pre l post h, by simp; omega⟩

theorem trimLeft_id {src : Bytes} {p e : Nat} {c : UInt8} {t : Bytes} (hsub : sub src p e = c :: t) (hpe : p ≤ e)
    (he : e ≤ src.length) (hsp : isSpace c = false) : (sg p e).trimLeftSpace src = .ok (sg p e) := by
  have c2 : (0 ≤ (p : Int) ∧ (p : Int) ≤ (e : Int) ∧ (e : Int) ≤ (src.length : Int)) := by omega
  simp [Segment.trimLeftSpace, sg, sliceB, c2, hsub, trimLeftSpaceLength, List.takeWhile, hsp, bind, Except.bind,
    pure, Except.pure]

section line
variable {src : Bytes} {p e : Nat} {v : Bytes} {c : UInt8} {t : Bytes}

/-- paragraphParser.Open at the start of a text line (already peeked) -/
theorem paragraphOpen_line (hl : Ln src p e v) (hv : v = c :: t) (hc : GM.Spec.CM.isLetter c = true) (k : Int) (lo : Int)
    (nodes pc) (parent : Nat) :
    paragraphOpen parent ⟨rdr src k p p e (some v) lo, nodes, pc⟩ =
      .ok ((some nodes.length, stNoChildren),
        ⟨rdr src k p (e - 1) e none (-1),
          nodes ++ [{ kind := .paragraph, lines := [sg p e], linesNil := false }], pc⟩) := by
  obtain ⟨h32, h9, h10, hsp, htr, hbr⟩ := letter_facts c hc
  have hp : p < src.length := by have := hl.le; have := hl.lt; omega
  have htl := trimLeft_id (src := src) (p := p) (e := e) (c := c) (t := t)
    (by rw [hl.sub, hv]) (Nat.le_of_lt hl.lt) hl.le hsp
  unfold paragraphOpen
  simp only [bind_apply, peekLine_cached hp, source_run]
  have e1 : (rdr src k p p e (some v) lo).source = src := rfl
  rw [e1, htl]
  simp only [liftE_ok]
  have e2 : (sg p e).isEmpty = false := by
    have := hl.lt
    simp [Segment.isEmpty, sg]; omega
  simp only [e2, Bool.false_eq_true, if_false, bind_apply, newNode_run, appendLine, modNode_run]
  have hlen := hl.len
  have hlt := hl.lt
  rw [stAdvance_fast (m := e - p - 1) (by simp [Segment.len, sg]; omega) (by omega)]
  have e3 : p + (e - p - 1) = e - 1 := by omega
  simp [pure_apply, e3]

/-- codeBlockParser.Open declines on a text line -/
theorem codeOpen_line (hl : Ln src p e v) (hv : v = c :: t) (hc : GM.Spec.CM.isLetter c = true) (k : Int) (nodes pc)
    (parent : Nat) :
    codeOpen parent ⟨rdr src k p p e (some v) 0, nodes, pc⟩ =
      .ok ((none, stNoChildren), ⟨rdr src k p p e (some v) 0, nodes, pc⟩) := by
  obtain ⟨h32, h9, h10, hsp, htr, hbr⟩ := letter_facts c hc
  have hp : p < src.length := by have := hl.le; have := hl.lt; omega
  have hi : indentPosition v 0 4 = (-1, -1) := by
    subst hv
    simp [indentPosition, indentPositionPadding, ippLoop, h9, h32]
  unfold codeOpen
  simp only [bind_apply, peekLine_cached hp, lineOffset_cached, Option.getD_some, hi]
  simp [pure_apply]

/-- the parser loop of openBlocks on a text line with nothing open: a Paragraph is opened below `parent` -/
theorem tryParsers_line (hl : Ln src p e v) (hv : v = c :: t) (hc : GM.Spec.CM.isLetter c = true) (pts : List PT) (k : Int)
    (d : Blocks.Node) (rest : List Blocks.Node) (pc : Ctx) (hop : pc.opened = []) (blank : Bool) :
    tryParsersT pts 0 blank false 0 [.code, .paragraph] .noBlocksOpened none
        ⟨rdr src k p p e (some v) 0, d :: rest, pc⟩ =
      .ok ((.done, .newBlocksOpened, none),
        ⟨rdr src k p (e - 1) e none (-1),
          { d with children := d.children ++ [rest.length + 1] } :: (rest ++ [paraN [sg p e] blank]),
          { pc with opened := [{ node := rest.length + 1, bp := .paragraph }] }⟩) := by
  rw [tryParsersT]
  simp [bind_apply, lastOpenedBlock_run, hop, bpOpen, codeOpen_line hl hv hc, BP.canAcceptIndentedLine]
  rw [tryParsersT]
  simp [bind_apply, lastOpenedBlock_run, hop, bpOpen, paragraphOpen_line hl hv hc, BP.canAcceptIndentedLine,
    pure_apply, stNoChildren, modNode_run, appendChild, ensureIsolated, getNode_run, modPc_run, paraN]
  simp [map_apply, modPc_run, hop]

/-- openBlocks on a text line with nothing open -/
theorem openBlocks_line (hl : Ln src p e v) (hv : v = c :: t) (hc : GM.Spec.CM.isLetter c = true) (pts : List PT) (k : Int)
    (d : Blocks.Node) (rest : List Blocks.Node) (pc : Ctx) (hop : pc.opened = []) (blank : Bool) (pk : Option Bytes)
    (hpk : pk = none ∨ pk = some v) :
    openBlocksT pts 0 blank ⟨rdr src k p p e pk (-1), d :: rest, pc⟩ =
      .ok (.newBlocksOpened,
        ⟨rdr src k p (e - 1) e none (-1),
          { d with children := d.children ++ [rest.length + 1] } :: (rest ++ [paraN [sg p e] blank]),
          { pc with blockOffset := 0, blockIndent := 0, opened := [{ node := rest.length + 1, bp := .paragraph }] }⟩) := by
  obtain ⟨h32, h9, h10, hsp, htr, hbr⟩ := letter_facts c hc
  have hp : p < src.length := by have := hl.le; have := hl.lt; omega
  have hiw : indentWidthI v 0 = (0, 0) := by
    subst hv; unfold GM.Blocks.indentWidthI GM.Blocks.indentWidthGo; simp [h32, h9]
  have hpeek : ∀ nodes pc', peekLine ⟨rdr src k p p e pk (-1), nodes, pc'⟩ =
      .ok ((some v, sg p e), ⟨rdr src k p p e (some v) (-1), nodes, pc'⟩) := by
    intro nodes pc'
    rcases hpk with h | h
    · subst h; exact peekLine_fresh hl.sub hp (Nat.le_of_lt hl.lt) hl.le ..
    · subst h; exact peekLine_cached hp ..
  unfold openBlocksT
  simp only [bind_apply, lastOpenedBlock_run, hop, List.getLast?_nil, pure_apply, source_run, retryFuel]
  rw [openBlocksLoopT]
  simp only [bind_apply, hpeek, Option.getD_some, lineOffset_fresh, hiw]
  have hlen : ¬ ((0 : Int) ≥ (v.length : Int)) := by have := hl.len; have := hl.lt; omega
  have hlen' : (0 : Int) < (v.length : Int) := by omega
  have hidx : idx v 0 = .ok c := by subst hv; rfl
  simp only [modPc_run, hlen, if_false, Option.isNone_some, Bool.false_eq_true, bind_apply, hidx, liftE_ok, h10, hlen',
    if_true, pure_apply, htr, Option.getD_none, freeParsers]
  unfold retryStepT
  simp only [bind_apply, get_run,
    tryParsers_line hl hv hc pts k d rest { pc with blockOffset := 0, blockIndent := 0 } hop blank]
  simp [toContinuable, pure_apply]

theorem getD_last (d : Blocks.Node) (rest : List Blocks.Node) (x : Blocks.Node) :
    (d :: (rest ++ [x])).getD (rest.length + 1) default = x := by
  simp [List.getD]

theorem set_last (d : Blocks.Node) (rest : List Blocks.Node) (x y : Blocks.Node) :
    (d :: (rest ++ [x])).set (rest.length + 1) y = d :: (rest ++ [y]) := by
  simp [List.set_append_right]

/-- openBlocks on a text line with the paragraph (the last node) open: paragraph continuation -/
theorem openBlocks_cont (hl : Ln src p e v) (hv : v = c :: t) (hc : GM.Spec.CM.isLetter c = true) (pts : List PT) (k : Int)
    (d : Blocks.Node) (rest : List Blocks.Node) (lines : List Segment) (b : Bool) (pc : Ctx)
    (hop : pc.opened = [{ node := rest.length + 1, bp := .paragraph }]) (blank : Bool) (pk : Option Bytes)
    (hpk : pk = none ∨ pk = some v) :
    openBlocksT pts 0 blank ⟨rdr src k p p e pk (-1), d :: (rest ++ [paraN lines b]), pc⟩ =
      .ok (.paragraphContinuation,
        ⟨rdr src k p (e - 1) e none (-1), d :: (rest ++ [paraN (lines ++ [sg p e]) b]),
          { pc with blockOffset := 0, blockIndent := 0 }⟩) := by
  obtain ⟨h32, h9, h10, hsp, htr, hbr⟩ := letter_facts c hc
  have hp : p < src.length := by have := hl.le; have := hl.lt; omega
  have hiw : indentWidthI v 0 = (0, 0) := by
    subst hv; unfold GM.Blocks.indentWidthI GM.Blocks.indentWidthGo; simp [h32, h9]
  have hpeek : ∀ nodes pc', peekLine ⟨rdr src k p p e pk (-1), nodes, pc'⟩ =
      .ok ((some v, sg p e), ⟨rdr src k p p e (some v) (-1), nodes, pc'⟩) := by
    intro nodes pc'
    rcases hpk with h | h
    · subst h; exact peekLine_fresh hl.sub hp (Nat.le_of_lt hl.lt) hl.le ..
    · subst h; exact peekLine_cached hp ..
  have hlen : ¬ ((0 : Int) ≥ (v.length : Int)) := by have := hl.len; have := hl.lt; omega
  have hlen' : (0 : Int) < (v.length : Int) := by omega
  have hidx : idx v 0 = .ok c := by subst hv; rfl
  have hbl : isBlank v = false := by subst hv; simp [isBlank, hsp]
  unfold openBlocksT
  simp only [bind_apply, lastOpenedBlock_run, hop, List.getLast?_singleton, pure_apply, source_run, retryFuel, getNode_run,
    getD_last]
  rw [openBlocksLoopT]
  simp only [bind_apply, hpeek, Option.getD_some, lineOffset_fresh, hiw]
  simp only [modPc_run, hlen, if_false, Option.isNone_some, Bool.false_eq_true, bind_apply, hidx, liftE_ok, h10, hlen',
    if_true, pure_apply, htr, Option.getD_none, freeParsers]
  unfold retryStepT
  simp only [bind_apply, get_run]
  rw [tryParsersT]
  simp [paraN, BP.canInterruptParagraph]
  rw [tryParsersT]
  simp [BP.canInterruptParagraph]
  rw [tryParsersT]
  simp [pure_apply, toContinuable, bind_apply, bpContinue, paragraphContinue, peekLine_cached hp, hbl, appendLine,
    modNode_run, set_last]
  have hlenv := hl.len
  have hlt := hl.lt
  rw [map_apply, stAdvance_fast (m := e - p - 1) (by simp [Segment.len, sg]; omega) (by omega)]
  have e3 : p + (e - p - 1) = e - 1 := by omega
  simp [pure_apply, e3, stContinueNoChildren, hop]
end line

end GM.Proof.CMFrag
