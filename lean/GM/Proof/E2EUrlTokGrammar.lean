/-
  GM.Proof.E2EUrlTokGrammar — the grammar of C03 (`GM.Proof.RenderWF.WFHtml`) with ONE more side condition at every start
  tag: the value of an `href` / `src` attribute is not dangerous under `Spec.hrefDangerous` (`UrlAttrs`). `WFHtmlU` is the
  output language of the safe-mode renderer for C04 at token level. The files `GM.Proof.RenderWF.*` are untouched: the per-kind
  lemmas and the induction over the tree are re-run for the new grammar in GM.Proof.E2EUrlTokKinds* / E2EUrlTokMain (copies
  of Kinds* / Main with `wf_el` / `wf_void` asking for `UrlAttrs`, discharged by the tactic `urlattrs`).
-/
import GM.Proof.RenderWF.Grammar
import GM.Proof.RenderWF.Tags
import GM.Proof.UrlSafe
import GM.Spec.Url

namespace GM.Proof.RenderWFU
open GM GM.Spec GM.Proof.RenderWF

/-- every `href` / `src` value of the attribute list is harmless (what `Spec.urlsOK` asks of a start tag) -/
def UrlAttrs (as : List (Bytes × Bytes)) : Prop :=
  ∀ a ∈ as, urlAttrNames.contains a.1 = true → hrefDangerous lookupEntity a.2 = false

theorem urlAttrs_nil : UrlAttrs [] := fun _ h => by cases h

theorem urlAttrs_append {a b : List (Bytes × Bytes)} (ha : UrlAttrs a) (hb : UrlAttrs b) : UrlAttrs (a ++ b) := by
  intro x hx
  rcases List.mem_append.mp hx with h | h
  · exact ha x h
  · exact hb x h

theorem urlAttrs_cons_nonurl {n v : Bytes} {rest : List (Bytes × Bytes)} (hn : urlAttrNames.contains n = false)
    (hr : UrlAttrs rest) : UrlAttrs ((n, v) :: rest) := by
  intro x hx hu
  rcases List.mem_cons.mp hx with rfl | h
  · rw [hn] at hu; cases hu
  · exact hr x h hu

theorem urlAttrs_cons_harmless {n v : Bytes} {rest : List (Bytes × Bytes)}
    (hv : hrefDangerous lookupEntity v = false) (hr : UrlAttrs rest) : UrlAttrs ((n, v) :: rest) := by
  intro x hx hu
  rcases List.mem_cons.mp hx with rfl | h
  · exact hv
  · exact hr x h hu

/-- a name that starts with `data-` is neither `href` nor `src` -/
theorem data_not_url (n : Bytes) (h : hasBytesPrefix n Gen.dataPrefix = true) : urlAttrNames.contains n = false := by
  cases hc : urlAttrNames.contains n with
  | false => rfl
  | true =>
    exfalso
    have hm := List.contains_iff_mem.mp hc
    have : n = strBytes "href" ∨ n = strBytes "src" := by simpa [urlAttrNames] using hm
    rcases this with rfl | rfl <;> revert h <;> decide +kernel

/-- the node's own attributes let through by a filter without `href` / `src` -/
theorem urlAttrs_user (filter : List Bytes) (hf : filter.all (fun n => !urlAttrNames.contains n) = true)
    (attrs : Option (List Attr)) : UrlAttrs (userAttrsO filter attrs) := by
  intro p hp hu
  cases attrs with
  | none => simp [userAttrsO] at hp
  | some as =>
    obtain ⟨a, _, hall, rfl⟩ := userAttrs_mem hp
    unfold attrAllowed nameAllowed at hall
    rw [Bool.or_eq_true] at hall
    rcases hall with h | h
    · have := (List.all_eq_true.mp hf) a.name (List.contains_iff_mem.mp h)
      simp only at hu
      rw [hu] at this; cases this
    · rw [data_not_url _ h] at hu; cases hu

theorem hash_append_harmless (rest : Bytes) : hrefDangerous lookupEntity ([35] ++ rest) = false :=
  GM.Proof.hash_not_dangerous rest

/-- discharge `UrlAttrs as` for the attribute lists the renderer writes -/
macro "urlattrs" : tactic =>
  `(tactic| repeat' first
    | exact urlAttrs_nil
    | exact urlAttrs_user _ (by decide +kernel) _
    | apply urlAttrs_append
    | (apply urlAttrs_cons_nonurl (by decide +kernel))
    | (apply urlAttrs_cons_harmless (by first
        | with_reducible exact GM.Proof.safe_href _
        | with_reducible exact GM.Proof.safe_autolink _ _
        | with_reducible exact GM.Proof.hash_not_dangerous _
        | with_reducible exact hash_append_harmless _)))

/-- the output language of the safe-mode renderer, with harmless URL attributes -/
inductive WFHtmlU (x : Bool) : Bytes → Prop
  | nil : WFHtmlU x []
  | text (b : Bytes) : inertBytes b = true → WFHtmlU x b
  | comment : WFHtmlU x placeholder
  | void (n : Bytes) (as : List (Bytes × Bytes)) : voidTags.contains n = true → StartOK n as → UrlAttrs as →
      WFHtmlU x ([60] ++ n ++ serAttrs as ++ (if x then [32, 47, 62] else [62]))
  | elem (n : Bytes) (as : List (Bytes × Bytes)) (body : Bytes) : voidTags.contains n = false → StartOK n as →
      UrlAttrs as → WFHtmlU x body → WFHtmlU x ([60] ++ n ++ serAttrs as ++ [62] ++ body ++ [60, 47] ++ n ++ [62])
  | append (a b : Bytes) : WFHtmlU x a → WFHtmlU x b → WFHtmlU x (a ++ b)

theorem WFHtmlU.of_eq {x : Bool} {a b : Bytes} (h : WFHtmlU x a) (e : b = a) : WFHtmlU x b := e ▸ h

theorem WFHtmlU.append3 {x : Bool} {a b c : Bytes} (ha : WFHtmlU x a) (hb : WFHtmlU x b) (hc : WFHtmlU x c) :
    WFHtmlU x (a ++ b ++ c) := .append _ _ (.append _ _ ha hb) hc

/-- the new grammar refines the old one -/
theorem WFHtmlU.toWF {x : Bool} {b : Bytes} (h : WFHtmlU x b) : WFHtml x b := by
  induction h with
  | nil => exact .nil
  | text b hb => exact .text b hb
  | comment => exact .comment
  | void n as hv sok _ => exact .void n as hv sok
  | elem n as body hv sok _ _ ih => exact .elem n as body hv sok ih
  | append a b _ _ iha ihb => exact .append a b iha ihb

end GM.Proof.RenderWFU
