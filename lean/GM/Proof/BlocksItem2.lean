/-
  GM.Proof.BlocksItem2 — `listItemOpen` / `listItemContinue` once more (same walks as GM.Proof.BlocksSpecListItem), with
  the extra facts the driver proof needs: `listItemOpen` writes only `emptyItemBlank` and DEFINITELY builds a node on a
  list-item line of a List whose indent is within 3 of the last offset; `listItemContinue` leaves the parse context
  alone when it continues, and when it answers Close the reader has not moved and one of the two reasons of
  list_item.go:66-72 holds. Every helper of this file carries the prefix `li2_`.
-/
import GM.Proof.BlocksInvL
namespace GM.Blocks
open GM GM.Text GM.Spec GM.Proof.Reader

/-! ### listItemParser.Open -/

theorem listItemOpen_okl2 (src : Bytes) (parent : Nat) (s : St) (c : RCur) (hctx : LineCtx src s c)
    (hk : li_ListKidsOK s parent) :
    OKL (fun a s' => ∃ c', RI src s'.r c' ∧ PadOK c' ∧ c.p ≤ c'.p ∧ (a.1 = none → c' = c) ∧
        (a.2.hasChildren = true → c.p < c'.p) ∧ c'.p < src.length ∧
        s'.pc.opened = s.pc.opened ∧ s'.pc.blockOffset = s.pc.blockOffset ∧ s'.pc.tmpPara = s.pc.tmpPara ∧
        s'.pc.fence = s.pc.fence ∧
        (a.1 = none → s'.nodes = s.nodes) ∧
        (∀ id, a.1 = some id → id = s.nodes.length ∧ (nd s parent).kind = .list ∧
            ∃ n, s'.nodes = s.nodes ++ [n] ∧ n.kind = .listItem ∧ n.children = [] ∧ n.lines = [] ∧
              n.linesNil = true ∧ n.parent = none ∧ 2 ≤ n.offset) ∧
        s'.pc.skipList = s.pc.skipList ∧
        ((nd s parent).kind = .list →
          (∀ m typ, matchesListItem ((RCur.view src c).getD []) false = (m, typ) →
            typ ≠ .notList ∧ m.r1 - li_lastOff s parent ≤ 3) → a.1.isSome = true))
      (listItemOpen parent s) := by
  obtain ⟨h, hp, hpad, _, _⟩ := hctx
  unfold listItemOpen
  refine OKL.bind (m := getNode parent) (P := fun n s' => n = nd s parent ∧ s = s') (OKL.ok ⟨rfl, rfl⟩)
    (fun n s0 hn => ?_)
  obtain ⟨hn, hs0⟩ := hn
  subst hn hs0
  by_cases hkind : ((nd s parent).kind != Kind.list) = true
  · rw [if_pos hkind]
    exact OKL.ok ⟨c, h, hpad, Nat.le_refl _, fun _ => rfl, (fun hh => by cases hh), hp, rfl, rfl, rfl, rfl,
      fun _ => rfl, (fun id hid => by cases hid), rfl, fun hk' _ => by rw [hk'] at hkind; cases hkind⟩
  · rw [if_neg hkind]
    have hkl : (nd s parent).kind = Kind.list := by simpa using hkind
    refine OKL.bind (li_lastOffset_okl s parent hk) (fun offset s1 ho => ?_)
    obtain ⟨ho, hs1⟩ := ho
    rw [hs1]
    clear hs1 s1
    subst ho
    refine OKL.bind (peekLine_okl h) (fun x s1 hx => ?_)
    obtain ⟨hx, r1, hs1, h1⟩ := hx
    subst hx hs1
    simp only
    have hvl := view_getD_length_nat src c hp
    have hpadle := @li_view_pad_le src c hp
    generalize hline : (RCur.view src c).getD [] = line at hvl hpadle ⊢
    have hmb := li_matchesListItem_bounds line false
    generalize matchesListItem line false = mt at hmb ⊢
    obtain ⟨m, typ⟩ := mt
    simp only at hmb ⊢
    by_cases ht : (typ == ListTyp.notList) = true
    · rw [if_pos ht]
      exact OKL.ok ⟨c, h1, hpad, Nat.le_refl _, fun _ => rfl, (fun hh => by cases hh), hp, rfl, rfl, rfl, rfl,
        fun _ => rfl, (fun id hid => by cases hid), rfl,
        fun _ hh => absurd (by simpa using ht) (hh m typ rfl).1⟩
    · rw [if_neg ht]
      have hm := hmb (by simpa using ht)
      by_cases h3 : m.r1 - li_lastOff s parent > 3
      · rw [if_pos (by simpa using h3)]
        exact OKL.ok ⟨c, h1, hpad, Nat.le_refl _, fun _ => rfl, (fun hh => by cases hh), hp, rfl, rfl, rfl, rfl,
          fun _ => rfl, (fun id hid => by cases hid), rfl,
          fun _ hh => by have := (hh m typ rfl).2; omega⟩
      · rw [if_neg (by simpa using h3)]
        refine OKL.bind (m := modPc fun pc => { pc with emptyItemBlank := false })
          (P := fun _ s' => s' = { s with r := r1, pc := { s.pc with emptyItemBlank := false } })
          (OKL.ok rfl) (fun _ s2 hs2 => ?_)
        subst hs2
        refine OKL.bind (lineOffset_okl
          (s := { s with r := r1, pc := { s.pc with emptyItemBlank := false } }) h1) (fun lo s3 hlo => ?_)
        obtain ⟨_, r3, hs3, h3'⟩ := hlo
        subst hs3
        simp only
        obtain ⟨off, hoff, hoff1, _, hoffw⟩ := li_calcListOffset_view src c hp hline m lo hm
        have hoff0 : 0 ≤ off := by omega
        refine OKL.bind (liftE_okl (P := fun a s' => a = off ∧
          s' = { s with r := r3, pc := { s.pc with emptyItemBlank := false } }) hoff ⟨rfl, rfl⟩)
          (fun a s4 ha => ?_)
        obtain ⟨ha, hs4⟩ := ha
        subst ha hs4
        refine OKL.bind (m := newNode { kind := Kind.listItem, offset := m.r3 + a })
          (P := fun id s' => id = s.nodes.length ∧
            s' = { r := r3, nodes := s.nodes ++ [({ kind := Kind.listItem, offset := m.r3 + a } : Node)],
                   pc := { s.pc with emptyItemBlank := false } })
          (OKL.ok ⟨rfl, rfl⟩) (fun id s5 hs5 => ?_)
        obtain ⟨hid, hs5⟩ := hs5
        subst hid hs5
        have hr1 := hm.r1_nonneg
        have hr13 := hm.r13
        have hnode : ∀ id, some s.nodes.length = some id → id = s.nodes.length ∧ (nd s parent).kind = .list ∧
            ∃ n, s.nodes ++ [({ kind := Kind.listItem, offset := m.r3 + a } : Node)] = s.nodes ++ [n] ∧
              n.kind = .listItem ∧ n.children = [] ∧ n.lines = [] ∧ n.linesNil = true ∧ n.parent = none ∧
              2 ≤ n.offset := by
          intro id hid
          cases hid
          exact ⟨rfl, hkl, _, rfl, rfl, rfl, rfl, rfl, rfl, by simp only; omega⟩
        by_cases h4 : m.r4 < 0
        · rw [if_pos (by simpa using h4)]
          exact OKL.ok ⟨c, h3', hpad, Nat.le_refl _, fun _ => rfl, (fun hh => by cases hh), hp, rfl, rfl, rfl, rfl,
            (fun hh => by cases hh), hnode, rfl, fun _ _ => rfl⟩
        · rw [if_neg (by simpa using h4)]
          rcases hm.tail with ⟨e4, _, _⟩ | ⟨e43, h4lt, h45, h5le, _⟩
          · omega
          have hsl := li_slice_ok line m.r4 m.r5 (by omega) h45 h5le
          refine OKL.bind (liftE_okl (P := fun v s' => v = (line.drop m.r4.toNat).take (m.r5.toNat - m.r4.toNat) ∧
            s' = { r := r3, nodes := s.nodes ++ [({ kind := Kind.listItem, offset := m.r3 + a } : Node)],
                   pc := { s.pc with emptyItemBlank := false } }) hsl ⟨rfl, rfl⟩) (fun v s6 hv => ?_)
          obtain ⟨hv, hs6⟩ := hv
          subst hv hs6
          by_cases hbl : isBlank ((line.drop m.r4.toNat).take (m.r5.toNat - m.r4.toNat)) = true
          · rw [if_pos hbl]
            exact OKL.ok ⟨c, h3', hpad, Nat.le_refl _, fun _ => rfl, (fun hh => by cases hh), hp, rfl, rfl, rfl, rfl,
              (fun hh => by cases hh), hnode, rfl, fun _ _ => rfl⟩
          · rw [if_neg hbl]
            have hnb : isBlank (line.drop m.r4.toNat) = false :=
              li_isBlank_take _ _ (by cases hh : isBlank _ with
                | true => exact absurd hh hbl
                | false => rfl)
            refine OKL.bind (liftE_okl (P := fun v s' => v = line.drop m.r4.toNat ∧
              s' = { r := r3, nodes := s.nodes ++ [({ kind := Kind.listItem, offset := m.r3 + a } : Node)],
                     pc := { s.pc with emptyItemBlank := false } })
              (sliceFrom_ok line m.r4 (by omega) (by omega)) ⟨rfl, rfl⟩) (fun v s7 hv => ?_)
            obtain ⟨hv, hs7⟩ := hv
            subst hv hs7
            obtain ⟨hq0, hq1, hq2, hq3⟩ :=
              li_indentPosition_ok (line.drop m.r4.toNat) (lo + m.r4) a hoff0 (hoffw (by omega) hnb)
            have hq2' := hq2 hnb
            generalize indentPosition (line.drop m.r4.toNat) (lo + m.r4) a = pp at hq0 hq1 hq2' hq3 ⊢
            obtain ⟨pos, padding⟩ := pp
            simp only [List.length_drop] at hq0 hq1 hq2' hq3 ⊢
            -- the marker byte lies behind the virtual padding
            obtain ⟨mb, hmb1, hmb2, _, _⟩ := hm.marker
            have hpm := hpadle rfl hmb1 hmb2
            have hch0 : 0 ≤ m.r3 + pos := by omega
            have hchlt : (m.r3 + pos).toNat + 1 ≤ c.pad + (lineEnd src c.p - c.p) := by omega
            obtain ⟨hw1, hw2, hw3⟩ := advPadCur_within (src := src) (c := c) hp hpad (pos := m.r3 + pos)
              (padding := padding) hchlt (fun _ => by omega)
            have hprog : c.p < (advPadCur src (m.r3 + pos) padding c).p := by
              have := advN_progress src (m.r3 + pos).toNat c hp (by omega)
              unfold advPadCur
              simp only
              split <;> exact this
            refine OKL.bind (advanceAndSetPadding_okl
              (s := { r := r3, nodes := s.nodes ++ [({ kind := Kind.listItem, offset := m.r3 + a } : Node)],
                      pc := { s.pc with emptyItemBlank := false } }) h3' hch0 padding) (fun _ s8 hs8 => ?_)
            obtain ⟨r8, hs8, h8⟩ := hs8
            subst hs8
            exact OKL.ok ⟨_, h8, hw3, hw2, (fun hh => by cases hh), fun _ => hprog, hw1, rfl, rfl, rfl, rfl,
              (fun hh => by cases hh), hnode, rfl, fun _ _ => rfl⟩

/-! ### listItemParser.Continue -/

theorem listItemContinue_okl2 (src : Bytes) (node : Nat) (s : St) (c : RCur) (h : RI src s.r c) (hpad : PadOK c)
    (hlt : c.p < src.length) (p : Nat) (hp : (nd s node).parent = some p) (hk : li_ListKidsOK s p)
    (hoff : 0 ≤ li_lastOff s p) (hlist : li_ListContinued src s c node p) :
    OKL (fun st s' => ∃ c', RI src s'.r c' ∧ PadOK c' ∧ c.p ≤ c'.p ∧ s'.nodes = s.nodes ∧
        s'.pc.opened = s.pc.opened ∧ s'.pc.tmpPara = s.pc.tmpPara ∧ s'.pc.fence = s.pc.fence ∧
        (st.cont = true → st.hasChildren = true) ∧
        (st.cont = true → s'.pc = s.pc) ∧
        (st.cont = false → c' = c ∧ isBlank ((RCur.view src c).getD []) = false ∧
          s'.pc.emptyItemBlank = s.pc.emptyItemBlank ∧ s'.pc.blockOffset = s.pc.blockOffset ∧
          ((s'.pc.skipList = true ∧ (matchesListItem ((RCur.view src c).getD []) true).2 ≠ .notList ∧
              (indentWidthI ((RCur.view src c).getD []) (loVal src c)).1 < 4 ∧
              (((nd s node).children.length == 0 && s.pc.emptyItemBlank) = true ∨
                (indentWidthI ((RCur.view src c).getD []) (loVal src c)).1 < li_lastOff s p)) ∨
           (s'.pc = s.pc ∧ ((nd s node).children.length == 0 && s.pc.emptyItemBlank) = false ∧
              (indentWidthI ((RCur.view src c).getD []) (loVal src c)).1 < li_lastOff s p ∧
              (indentWidthI ((RCur.view src c).getD []) (loVal src c)).1 < 4 ∧
              (matchesListItem ((RCur.view src c).getD []) true).2 = .notList))))
      (listItemContinue node s) := by
  unfold listItemContinue
  refine OKL.bind (peekLine_okl h) (fun x s1 hx => ?_)
  obtain ⟨hx, r1, hs1, h1⟩ := hx
  subst hx hs1
  simp only
  have hvl := view_getD_length_nat src c hlt
  unfold li_ListContinued at hlist
  simp only at hlist
  generalize hline : (RCur.view src c).getD [] = line at hvl hlist ⊢
  by_cases hbl : isBlank line = true
  · rw [if_pos hbl]
    have hlen : 0 ≤ (line.length : Int) - 1 := by have := lt_lineEnd src hlt; omega
    refine OKL.bind (advance_okl (s := { s with r := r1 }) h1 hlen) (fun _ s2 hs2 => ?_)
    obtain ⟨r2, hs2, h2⟩ := hs2
    subst hs2
    exact OKL.ok ⟨_, h2, hpad.advN h1.inRange _, (advN_mono src _ c h1.inRange).1, rfl, rfl, rfl, rfl, (fun _ => rfl),
      (fun _ => rfl), fun hh => by cases hh⟩
  · rw [if_neg hbl]
    have hnb : isBlank line = false := by
      cases hh : isBlank line with
      | true => exact absurd hh hbl
      | false => rfl
    obtain ⟨hbad1, hbad2⟩ := hlist hnb
    refine OKL.bind (m := getNode node) (P := fun n s' => n = nd s node ∧ s' = { s with r := r1 })
      (OKL.ok ⟨rfl, rfl⟩) (fun n s2 hn => ?_)
    obtain ⟨hn, hs2⟩ := hn
    subst hn hs2
    rw [hp]
    simp only
    refine OKL.bind (li_lastOffset_okl { s with r := r1 } p hk) (fun offset s3 ho => ?_)
    obtain ⟨ho, hs3⟩ := ho
    rw [hs3]
    clear hs3 s3
    have ho' : offset = li_lastOff s p := ho
    subst ho'
    refine OKL.bind (m := getPc) (P := fun pc s' => pc = s.pc ∧ s' = { s with r := r1 })
      (OKL.ok ⟨rfl, rfl⟩) (fun pc s4 hpc => ?_)
    obtain ⟨hpc, hs4⟩ := hpc
    subst hpc hs4
    refine OKL.bind (lineOffset_okl (s := { s with r := r1 }) h1) (fun lo s5 hlo => ?_)
    obtain ⟨hlov, r5, hs5, h5⟩ := hlo
    have hlov' := hlov hlt
    subst hlov' hs5
    simp only
    clear hlov ho
    generalize hind : (indentWidthI line (loVal src c)).1 = indent at hbad1 hbad2 ⊢
    generalize ((nd s node).children.length == 0 && s.pc.emptyItemBlank) = isEmpty at hbad2 ⊢
    -- list_item.go:75-77, reached with `offset ≤ indent`
    have tail : li_lastOff s p ≤ indent →
        OKL (fun st s' => ∃ c', RI src s'.r c' ∧ PadOK c' ∧ c.p ≤ c'.p ∧ s'.nodes = s.nodes ∧
            s'.pc = s.pc ∧ st = stContinueHasChildren)
          ((advanceAndSetPadding (indentPosition line (loVal src c) (li_lastOff s p)).1
              (indentPosition line (loVal src c) (li_lastOff s p)).2 >>= fun _ => pure stContinueHasChildren)
            { s with r := r5 }) := by
      intro hle
      obtain ⟨q0, q1, q2, q3⟩ := li_indentPosition_ok line (loVal src c) (li_lastOff s p) hoff (by rw [hind]; exact hle)
      have q2' := q2 hnb
      generalize indentPosition line (loVal src c) (li_lastOff s p) = pp at q0 q1 q2' q3 ⊢
      obtain ⟨pos, padding⟩ := pp
      simp only at q0 q1 q2' q3 ⊢
      obtain ⟨hw1, hw2, hw3⟩ := advPadCur_within (src := src) (c := c) hlt hpad (pos := pos)
        (padding := padding) (by omega) q3
      refine OKL.bind (advanceAndSetPadding_okl (s := { s with r := r5 }) h5 q0 padding) (fun _ s8 hs8 => ?_)
      obtain ⟨r8, hs8, h8⟩ := hs8
      subst hs8
      exact OKL.ok ⟨_, h8, hw3, hw2, rfl, rfl, rfl⟩
    by_cases hc1 : ((isEmpty || decide (indent < li_lastOff s p)) && decide (indent < 4)) = true
    · rw [if_pos hc1]
      simp only [Bool.and_eq_true, Bool.or_eq_true, decide_eq_true_eq] at hc1
      by_cases hc2 : ((matchesListItem line true).2 != ListTyp.notList) = true
      · rw [if_pos hc2]
        simp only [bind, StateT.bind, modPc, pure, StateT.pure, Except.bind, Except.pure]
        exact OKL.ok ⟨c, h5, hpad, Nat.le_refl _, rfl, rfl, rfl, rfl, (fun hh => by cases hh),
          (fun hh => by cases hh), fun _ => ⟨rfl, hnb, rfl, rfl, .inl ⟨rfl, by simpa using hc2, hc1.2, hc1.1⟩⟩⟩
      · rw [if_neg hc2]
        have hnl : (matchesListItem line true).2 = ListTyp.notList := by simpa using hc2
        by_cases hc3 : (!isEmpty) = true
        · rw [if_pos hc3]
          have hne : isEmpty = false := by simpa using hc3
          have hio : indent < li_lastOff s p := by
            rcases hc1.1 with e | e
            · rw [hne] at e; cases e
            · exact e
          exact OKL.ok ⟨c, h5, hpad, Nat.le_refl _, rfl, rfl, rfl, rfl, (fun hh => by cases hh),
            (fun hh => by cases hh), fun _ => ⟨rfl, hnb, rfl, rfl, .inr ⟨rfl, hne, hio, hc1.2, hnl⟩⟩⟩
        · rw [if_neg hc3]
          have hemp : isEmpty = true := by simpa using hc3
          refine (tail ?_).mono (fun st s' hq => ?_)
          · rcases Int.lt_or_le indent (li_lastOff s p) with hh | hh
            · exact absurd ⟨hemp, hh, hc1.2, hnl⟩ hbad2
            · exact hh
          · obtain ⟨c', q1, q2, q3, q4, q5, q6⟩ := hq
            subst q6
            exact ⟨c', q1, q2, q3, q4, by rw [q5], by rw [q5], by rw [q5], (fun _ => rfl), (fun _ => q5),
              fun hh => by cases hh⟩
    · rw [if_neg hc1]
      refine (tail ?_).mono (fun st s' hq => ?_)
      · rcases Int.lt_or_le indent (li_lastOff s p) with hh | hh
        · exfalso
          apply hc1
          have : indent < 4 := by
            rcases Int.lt_or_le indent 4 with h4 | h4
            · exact h4
            · exact absurd ⟨hh, h4⟩ hbad1
          simp [hh, this]
        · exact hh
      · obtain ⟨c', q1, q2, q3, q4, q5, q6⟩ := hq
        subst q6
        exact ⟨c', q1, q2, q3, q4, by rw [q5], by rw [q5], by rw [q5], (fun _ => rfl), (fun _ => q5),
          fun hh => by cases hh⟩

end GM.Blocks
