/-
  GM.Proof.ShiftSimXSafe2 — the positional class `PlainL` gives `TrigAt b Cov6`; trigger-safety of the cursors that
  stand at a line start (initial state, after `AdvanceLine`, after `skipBlankLines`); transports; an executable check.
-/
import GM.Proof.ShiftSimXSafe
import GM.Proof.ShiftSimXKeys

namespace GM.Blocks.Xs
open GM GM.Text GM.Spec GM.Proof.Reader GM.Blocks

/-! ### bytes -/

theorem sf_sub_get (src : Bytes) (a b i : Nat) : (sub src a b)[i]? = if i < b - a then src[a + i]? else none := by
  unfold sub
  rw [List.getElem?_take]
  split
  · rw [List.getElem?_drop]
  · rfl

theorem sf_lineStart_char (src : Bytes) {s p : Nat} (hsp : s ≤ p) (hs : s = 0 ∨ src[s - 1]? = some 10)
    (hno : ∀ q, s ≤ q → q < p → src[q]? ≠ some 10) : lineStart src p = s := by
  induction p with
  | zero => simp [lineStart]; omega
  | succ p ih =>
    simp only [lineStart]
    by_cases hsp' : s = p + 1
    · have h0 : src[p]? = some 10 := by
        rcases hs with hs | hs
        · omega
        · rw [hsp'] at hs; simpa using hs
      simp [h0, hsp']
    · have h10 : src[p]? ≠ some 10 := hno p (by omega) (by omega)
      have : (src[p]? == some 10) = false := by simpa using h10
      rw [this]; simp only [Bool.false_eq_true, if_false]
      exact ih (by omega) (fun q h1 h2 => hno q h1 (by omega))

theorem sf_lineStart_spec (src : Bytes) : ∀ p, lineStart src p = 0 ∨ src[lineStart src p - 1]? = some 10 := by
  intro p
  induction p with
  | zero => left; simp [lineStart]
  | succ p ih =>
    simp only [lineStart]
    by_cases h : src[p]? = some 10
    · simp [h]
    · have : (src[p]? == some 10) = false := by simpa using h
      rw [this]; simpa using ih

theorem sf_lineStart_self (src : Bytes) (p : Nat) (h : p = 0 ∨ src[p - 1]? = some 10) : lineStart src p = p :=
  sf_lineStart_char src (Nat.le_refl _) h (fun q h1 h2 => by omega)

theorem sf_iwGo (cur : Int) : ∀ (bs : Bytes) (w p : Int),
    ∃ n : Nat, (indentWidthGo cur bs w p).2 = p + n ∧ n ≤ bs.length ∧
      ∀ i, i < n → bs[i]? = some 32 ∨ bs[i]? = some 9 := by
  intro bs
  induction bs with
  | nil => intro w p; exact ⟨0, by simp [indentWidthGo], by simp, by intro i h; omega⟩
  | cons x xs ih =>
    intro w p
    unfold indentWidthGo
    split
    · rename_i h
      obtain ⟨n, h1, h2, h3⟩ := ih (w + 1) (p + 1)
      refine ⟨n + 1, by rw [h1]; omega, by simp only [List.length_cons]; omega, ?_⟩
      intro i hi
      cases i with
      | zero => left; simpa using h
      | succ i => simpa using h3 i (by omega)
    · split
      · rename_i _ h
        obtain ⟨n, h1, h2, h3⟩ := ih (w + tabWidthI (cur + w)) (p + 1)
        refine ⟨n + 1, by rw [h1]; omega, by simp only [List.length_cons]; omega, ?_⟩
        intro i hi
        cases i with
        | zero => right; simpa using h
        | succ i => simpa using h3 i (by omega)
      · exact ⟨0, by simp, by simp, by intro i h; omega⟩

theorem sf_idx_get {l : Bytes} {i : Int} {ch : UInt8} (h : idx l i = .ok ch) : 0 ≤ i ∧ l[i.toNat]? = some ch := by
  unfold idx getByte at h
  by_cases hi : i < 0
  · rw [if_pos hi] at h; cases h
  · rw [if_neg hi] at h
    refine ⟨by omega, ?_⟩
    cases hg : l[i.toNat]? with
    | none => rw [hg] at h; cases h
    | some x => rw [hg] at h; cases h; rfl

/-! ### triggers -/

theorem sf_nontrig_space {ch : UInt8} (h : isSpace ch = true) : NonTrig ch := by
  simp [isSpace] at h
  rcases h with ((h | h) | h) | h <;> subst h <;> unfold NonTrig <;> decide

theorem sf_nontrig_cov6 (ch : UInt8) (h : NonTrig ch) : ∀ bp ∈ (triggered ch).getD freeParsers, Cov6 bp := by
  intro bp hbp
  cases ht : triggered ch with
  | none => rw [ht] at hbp; exact xk_free_cov6 bp hbp
  | some bps =>
    rw [ht] at hbp
    simp only [Option.getD_some] at hbp
    obtain ⟨h1, h2, h3, h4, h5, h6, h7⟩ := h
    have htr := ht
    unfold triggered at htr
    have e1 : (ch == 45) = false := by simpa using h1
    have e2 : (ch == 42) = false := by simpa using h2
    have e3 : (ch == 43) = false := by simpa using h3
    have e5 : (ch == 61) = false := by simpa using h5
    have e6 : (ch == 96) = false := by simpa using h6
    have e7 : (ch == 126) = false := by simpa using h7
    simp only [e1, e2, e3, h4, e5, e6, e7, Bool.false_eq_true, if_false, Bool.or_self] at htr
    unfold Cov6
    repeat' split at htr
    all_goals first
      | (cases htr; simp [freeParsers] at hbp; rcases hbp with h | h | h <;> subst h <;> decide)
      | (cases htr; simp [freeParsers] at hbp; rcases hbp with h | h <;> subst h <;> decide)
      | cases htr

/-! ### (1) the positional class selects covered parsers only -/

theorem sf_nontrig_at (b : Bytes) (h : PlainL b) (c : RCur) (l : Bytes) (lo : Int) (ch : UInt8)
    (hs : TSafe b c) (hv : RCur.view b c = some l) (hi : idx l (indentWidthI l lo).2 = .ok ch) : NonTrig ch := by
  obtain ⟨n, hn, hnl, hpre⟩ := sf_iwGo lo l 0 0
  have hpos : (indentWidthI l lo).2 = (n : Int) := by unfold indentWidthI; rw [hn]; omega
  rw [hpos] at hi
  obtain ⟨_, hg⟩ := sf_idx_get hi
  simp only [Int.toNat_natCast] at hg
  rcases hs with hs | hs
  · -- quote bytes in front of the cursor
    have hp : c.p < b.length := by
      by_cases hp : c.p < b.length
      · exact hp
      · rw [view_none b c hp] at hv; cases hv
    rw [view_eq b c hp] at hv
    cases hv
    by_cases hnp : n < c.pad
    · rw [List.getElem?_append_left (by simp [spaces]; exact hnp)] at hg
      simp [spaces, hnp] at hg
      subst hg
      unfold NonTrig; decide
    · obtain ⟨k, hk⟩ : ∃ k, n = c.pad + k := ⟨n - c.pad, by omega⟩
      have hget : ∀ i, (spaces c.pad ++ sub b c.p (lineEnd b c.p))[c.pad + i]? =
          if i < lineEnd b c.p - c.p then b[c.p + i]? else none := by
        intro i
        rw [List.getElem?_append_right (by simp [spaces])]
        simp only [spaces, List.length_replicate, Nat.add_sub_cancel_left]
        exact sf_sub_get b c.p (lineEnd b c.p) i
      rw [hk, hget k] at hg
      have hkl : k < lineEnd b c.p - c.p := by
        by_cases hh : k < lineEnd b c.p - c.p
        · exact hh
        · rw [if_neg hh] at hg; cases hg
      rw [if_pos hkl] at hg
      have hq : ∀ i, i < k → ∃ x, b[c.p + i]? = some x ∧ QuoteByte x := by
        intro i hik
        have h1 := hpre (c.pad + i) (by omega)
        rw [hget i, if_pos (by omega)] at h1
        rcases h1 with h1 | h1
        · exact ⟨32, h1, .inl rfl⟩
        · exact ⟨9, h1, .inr (.inl rfl)⟩
      have hls : lineStart b (c.p + k) = lineStart b c.p := by
        refine sf_lineStart_char b (by have := lineStart_le b c.p; omega) (sf_lineStart_spec b c.p) ?_
        intro q h1 h2
        by_cases hqp : q < c.p
        · obtain ⟨x, hx, hqx⟩ := hs q h1 hqp
          rw [hx]; intro e; cases e
          rcases hqx with e | e | e <;> cases e
        · obtain ⟨x, hx, hqx⟩ := hq (q - c.p) (by omega)
          rw [show c.p + (q - c.p) = q by omega] at hx
          rw [hx]; intro e; cases e
          rcases hqx with e | e | e <;> cases e
      refine h (c.p + k) ch hg ?_
      intro i h1 h2
      rw [hls] at h1
      by_cases hqp : i < c.p
      · exact hs i h1 hqp
      · have := hq (i - c.p) (by omega)
        rwa [show c.p + (i - c.p) = i by omega] at this
  · -- the rest of the line is blank
    rw [hv] at hs
    simp only [Option.getD_some] at hs
    unfold isBlank at hs
    rw [List.all_eq_true] at hs
    exact sf_nontrig_space (hs ch (List.mem_of_getElem? hg))

theorem trigAt_plainL (b : Bytes) (h : PlainL b) : TrigAt b Cov6 := by
  refine ⟨xk_free_cov6, ?_⟩
  intro c l lo ch _ hs hv hi
  exact sf_nontrig_cov6 ch (sf_nontrig_at b h c l lo ch hs hv hi)

/-! ### (2), (3) cursors at a line start -/

theorem tsafe_lineStart (b : Bytes) (c : RCur) (h : lineStart b c.p = c.p) : TSafe b c := by
  left
  intro i h1 h2
  rw [h] at h1; omega

theorem sf_tsafe_eof (b : Bytes) (c : RCur) (h : ¬ c.p < b.length) : TSafe b c := by
  right
  rw [view_none b c h]
  decide

theorem ts_of_lineStart_cursor {b : Bytes} {s : St} {c : RCur} (hc : RI b s.r c)
    (hls : c.p = 0 ∨ b[c.p - 1]? = some 10) : TS b s :=
  ⟨c, hc, tsafe_lineStart b c (sf_lineStart_self b c.p hls)⟩

theorem sf_tsafe_advanceLine (b : Bytes) (c0 : RCur) : TSafe b (RCur.advanceLine b c0) := by
  by_cases h : lineEnd b c0.p < b.length
  · have hp : c0.p < b.length := by
      by_cases hp : c0.p < b.length
      · exact hp
      · rw [lineEnd_of_ge b (by omega)] at h; omega
    exact tsafe_lineStart b _ (lineStart_lineEnd b hp h)
  · exact sf_tsafe_eof b _ h

theorem ts_after_advanceLine {b : Bytes} {s : St} {c0 : RCur} (h : RI b s.r c0) :
    TS b { s with r := s.r.advanceLine } :=
  ⟨RCur.advanceLine b c0, ri_advanceLine h, sf_tsafe_advanceLine b c0⟩

theorem ts_init (b : Bytes) : TS b (initSt b) :=
  ⟨RCur.init, ri_init b, tsafe_lineStart b _ rfl⟩

/-! ### (4) transports -/

theorem sf_tsafe_congr {b : Bytes} {c c' : RCur} (hp : c'.p = c.p) (hpad : c'.pad = c.pad) (h : TSafe b c) :
    TSafe b c' := by
  have hv : RCur.view b c' = RCur.view b c := by simp [RCur.view, hp, hpad]
  rcases h with h | h
  · left; unfold PreC at h ⊢; rw [hp]; exact h
  · right; rw [hv]; exact h

theorem sf_ri_pos_eq {b : Bytes} {r r' : Reader} {c c' : RCur} (h : RI b r c) (h' : RI b r' c')
    (e : r'.pos = r.pos) : c'.p = c.p ∧ c'.pad = c.pad := by
  have e1 := h.pos
  have e2 := h'.pos
  rw [e, e1] at e2
  simp only [Segment.mk.injEq] at e2
  omega

theorem TS.of_r2 {b : Bytes} {s s' : St} (h : TS b s) (e : s'.r = s.r) : TS b s' := by
  obtain ⟨c, h1, h2⟩ := h
  exact ⟨c, by rw [e]; exact h1, h2⟩

theorem ts_of_pos {b : Bytes} {s s1 : St} (h : TS b s) (h1 : ∃ c, RI b s1.r c) (hp : s1.r.pos = s.r.pos) :
    TS b s1 := by
  obtain ⟨c, hc, hs⟩ := h
  obtain ⟨c1, hc1⟩ := h1
  obtain ⟨e1, e2⟩ := sf_ri_pos_eq hc hc1 hp
  exact ⟨c1, hc1, sf_tsafe_congr e1 e2 hs⟩

theorem sf_hasLine_of_r {b : Bytes} {s s' : St} (h : HasLine b s) (e : s'.r = s.r) : HasLine b s' := by
  obtain ⟨c, h1, h2⟩ := h
  exact ⟨c, by rw [e]; exact h1, h2⟩

theorem sf_hasLine_of_pos {b : Bytes} {s s1 : St} (h : HasLine b s) (h1 : ∃ c, RI b s1.r c)
    (hp : s1.r.pos = s.r.pos) : HasLine b s1 := by
  obtain ⟨c, hc, hs⟩ := h
  obtain ⟨c1, hc1⟩ := h1
  obtain ⟨e1, _⟩ := sf_ri_pos_eq hc hc1 hp
  exact ⟨c1, hc1, by omega⟩

theorem HL.of_r2 {b : Bytes} {s s' : St} (h : HL b s) (e : s'.r = s.r) : HL b s' :=
  ⟨sf_hasLine_of_r h.1 e, TS.of_r2 h.2 e⟩

theorem hl_of_pos2 {b : Bytes} {s s1 : St} (h : HL b s) (h1 : ∃ c, RI b s1.r c) (hp : s1.r.pos = s.r.pos) :
    HL b s1 :=
  ⟨sf_hasLine_of_pos h.1 h1 hp, ts_of_pos h.2 h1 hp⟩

/-! ### (5) skipBlankLines -/

theorem sf_skip_ts (b : Bytes) : ∀ (fuel : Nat) (lines : Int) (r : Reader) (c : RCur) x r', RI b r c → TSafe b c →
    skipBlankLines readerOps fuel lines r = .ok (x, r') → ∃ c', RI b r' c' ∧ TSafe b c' := by
  intro fuel
  induction fuel with
  | zero => intro _ _ _ _ _ _ _ e; simp [skipBlankLines] at e
  | succ fuel ih =>
    intro lines r c x r' hri hs e
    obtain ⟨r1, e1, h1⟩ := ri_peekLine hri
    unfold skipBlankLines at e
    simp only [readerOps, e1, bind, Except.bind, pure, Except.pure] at e
    cases hv : RCur.view b c with
    | none =>
      rw [hv] at e
      simp only [Except.ok.injEq, Prod.mk.injEq] at e
      rw [← e.2]; exact ⟨c, h1, hs⟩
    | some l =>
      rw [hv] at e
      simp only [] at e
      by_cases hb : isBlank l = true
      · rw [if_pos hb] at e
        exact ih (lines + 1) r1.advanceLine _ x r' (ri_advanceLine h1) (sf_tsafe_advanceLine b c) e
      · rw [if_neg hb] at e
        simp only [Except.ok.injEq, Prod.mk.injEq] at e
        rw [← e.2]; exact ⟨c, h1, hs⟩

theorem skip_ts {b : Bytes} {s s' : St} {x} (h : TS b s) (e : skipBlankLinesR s = .ok (x, s')) : TS b s' := by
  obtain ⟨c, hc, hs⟩ := h
  unfold skipBlankLinesR at e
  cases hk : skipBlankLines readerOps (loopFuel s.r.source) 0 s.r with
  | error err => rw [hk] at e; simp [bind, Except.bind] at e
  | ok y =>
    obtain ⟨y1, r'⟩ := y
    rw [hk] at e
    simp only [bind, Except.bind, pure, Except.pure, Except.ok.injEq, Prod.mk.injEq] at e
    obtain ⟨c', h1, h2⟩ := sf_skip_ts b _ _ _ c y1 r' hc hs hk
    rw [← e.2]
    exact ⟨c', h1, h2⟩

/-! ### (6) an executable check -/

def nonTrigB (ch : UInt8) : Bool :=
  ch != 45 && ch != 42 && ch != 43 && !isNumeric ch && ch != 61 && ch != 96 && ch != 126

/-- walk the bytes; the flag says "everything of the line so far is a space, a tab or `>`" -/
def plainLGo : Bytes → Bool → Bool
  | [], _ => true
  | x :: xs, q =>
    (if q then nonTrigB x else true) &&
      plainLGo xs (if x == 10 then true else q && (x == 32 || x == 9 || x == 62))

def plainLB (b : Bytes) : Bool := plainLGo b true

theorem sf_nonTrigB {ch : UInt8} (h : nonTrigB ch = true) : NonTrig ch := by
  unfold nonTrigB at h
  simp only [Bool.and_eq_true, bne_iff_ne, ne_eq, Bool.not_eq_true'] at h
  obtain ⟨⟨⟨⟨⟨⟨h1, h2⟩, h3⟩, h4⟩, h5⟩, h6⟩, h7⟩ := h
  exact ⟨h1, h2, h3, h4, h5, h6, h7⟩

theorem sf_plainLGo (b : Bytes) : ∀ (suf : Bytes) (n : Nat) (q : Bool), b.drop n = suf → plainLGo suf q = true →
    ((∀ i, lineStart b n ≤ i → i < n → ∃ x, b[i]? = some x ∧ QuoteByte x) → q = true) →
    ∀ j ch, n ≤ j → b[j]? = some ch →
      (∀ i, lineStart b j ≤ i → i < j → ∃ x, b[i]? = some x ∧ QuoteByte x) → NonTrig ch := by
  intro suf
  induction suf with
  | nil =>
    intro n q hd _ _ j ch hj hg _
    have hl : b.length ≤ n := by simpa using hd
    rw [List.getElem?_eq_none (by omega)] at hg; cases hg
  | cons x xs ih =>
    intro n q hd hgo hq j ch hj hg hall
    have hx : b[n]? = some x := by
      have := List.getElem?_drop (xs := b) (i := n) (j := 0)
      rw [hd] at this; simpa using this.symm
    have hd' : b.drop (n + 1) = xs := by
      have : b.drop (n + 1) = (b.drop n).drop 1 := by rw [List.drop_drop]
      rw [this, hd]; rfl
    unfold plainLGo at hgo
    rw [Bool.and_eq_true] at hgo
    obtain ⟨hgo1, hgo2⟩ := hgo
    by_cases hjn : j = n
    · subst hjn
      rw [hx] at hg; cases hg
      rw [hq hall] at hgo1
      exact sf_nonTrigB (by simpa using hgo1)
    · refine ih (n + 1) _ hd' hgo2 ?_ j ch (by omega) hg hall
      intro hall1
      by_cases h10 : x = 10
      · simp [h10]
      · have hb : (x == 10) = false := by simpa using h10
        rw [hb]
        simp only [Bool.false_eq_true, if_false]
        have hls : lineStart b (n + 1) = lineStart b n := by
          simp only [lineStart, hx]
          have : (some x == some (10 : UInt8)) = false := by simpa using h10
          rw [this]; rfl
        rw [hls] at hall1
        have hqt : q = true := hq (fun i h1 h2 => hall1 i h1 (by omega))
        obtain ⟨y, hy, hqy⟩ := hall1 n (lineStart_le b n) (by omega)
        rw [hx] at hy; cases hy
        rw [hqt]
        rcases hqy with e | e | e <;> subst e <;> decide

theorem plainLB_sound (b : Bytes) (h : plainLB b = true) : PlainL b := by
  intro j ch hg hall
  exact sf_plainLGo b b 0 true rfl h (fun _ => rfl) j ch (Nat.zero_le _) hg hall

end GM.Blocks.Xs
