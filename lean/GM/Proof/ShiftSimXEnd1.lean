/-
  GM.Proof.ShiftSimXEnd1 — right-extension simulation, the end of run A's source: what `AdvanceLine` gives out of the
  limbo relation (either both runs have a line again, or run A stands at the end of `b` and run B on the first line of
  the suffix), and what is known in the second case.
-/
import GM.Proof.ShiftSimXLines
import GM.Proof.ShiftSimXAux
import GM.Proof.ShiftSimXSafe

namespace GM.Blocks.Xs
open GM GM.Text GM.Spec GM.Proof.Reader GM.Blocks

variable {F : Frame} {b : Bytes} {Cov : BP → Prop}

theorem limbo_stop' {rA rB : Reader} (h : Limbo F b rA rB) : 0 ≤ rA.pos.stop := by
  obtain ⟨⟨c, hc⟩, _⟩ := h
  have hp := hc.pos
  have : rA.advanceLine.pos.start = rA.pos.stop := by
    unfold Reader.advanceLine
    simp only
    split <;> rfl
  have e := congrArg Segment.start hp
  simp only at e
  rw [this] at e
  omega

theorem advanceLine_line_succ' (r : Reader) (h : 0 ≤ r.pos.stop) : r.advanceLine.line = r.line + 1 := by
  unfold Reader.advanceLine
  simp only
  rw [if_neg (by omega)]

theorem advanceLine_start (r : Reader) (h : 0 ≤ r.pos.stop) : r.advanceLine.pos.start = r.pos.stop := by
  unfold Reader.advanceLine
  simp only
  rw [if_neg (by omega)]

/-- run A stands at the end of `b` (after the AdvanceLine behind its last line), run B on the first line of the suffix;
    stores and contexts are related -/
def XEnd (F : Frame) (b : Bytes) (sA sB : St) : Prop :=
  ∃ sA0 sB0, SRL F b sA0.r sB0.r sA0 sB0 ∧ (∃ c, RI b sA0.r.advanceLine c) ∧ AtEndR F b sA0.r sB0.r ∧
    sA = { sA0 with r := sA0.r.advanceLine } ∧ sB = { sB0 with r := sB0.r.advanceLine }

/-- at a line boundary: both runs have a line, or run A is at its end -/
def TopRel (F : Frame) (b : Bytes) (sA sB : St) : Prop := (SR F b sA sB ∧ HL b sA) ∨ XEnd F b sA sB

theorem advanceLine_head (r : Reader) (h : 0 ≤ r.pos.stop) : r.advanceLine.head = r.pos.stop := by
  unfold Reader.advanceLine
  simp only
  rw [if_neg (by omega)]

/-- behind an AdvanceLine the cursor stands at the start of a line: it is trigger-safe -/
theorem ts_advanceLine {r : Reader} {c : RCur} (hc : RI b r.advanceLine c) (h0 : 0 ≤ r.pos.stop) (hlt : c.p < b.length) :
    TSafe b c := by
  left
  have hh := hc.abs.head hlt
  have hcp : (c.p : Int) = r.pos.stop := by
    have := congrArg Segment.start hc.pos
    simp only at this
    rw [advanceLine_start _ h0] at this
    omega
  have : ((lineStart b c.p : Nat) : Int) = c.p := by
    have e : (clearLo r.advanceLine).head = r.advanceLine.head := rfl
    rw [e, advanceLine_head _ h0] at hh
    omega
  intro i h1 h2
  omega

/-- AdvanceLine out of the limbo relation -/
theorem advanceLine_limbo_x {sA sB : St} (hqne : F.q ≠ []) (h : SRLim F b sA sB) :
    P2 (fun _ _ sA' sB' => TopRel F b sA' sB' ∧ sA'.pc = sA.pc ∧ sA'.r.line = sA.r.line + 1 ∧
        sA' = { sA with r := sA.r.advanceLine })
      (advanceLine sA) (advanceLine sB) := by
  unfold GM.Blocks.advanceLine
  obtain ⟨hl, ⟨c, hc⟩, hd⟩ := h
  refine P2.ok ⟨?_, rfl, advanceLine_line_succ' _ (limbo_stop' ⟨⟨c, hc⟩, hd⟩), rfl⟩
  have h0 := limbo_stop' (F := F) (b := b) ⟨⟨c, hc⟩, hd⟩
  have hcp : (c.p : Int) = sA.r.pos.stop := by
    have := congrArg Segment.start hc.pos
    simp only at this
    rw [advanceLine_start _ h0] at this
    omega
  rcases hd with ⟨he, hr⟩ | he
  · left
    have hlt : c.p < b.length := by
      rcases hr with hr | hr
      · exact absurd hr hqne
      · omega
    exact ⟨⟨⟨c, hc⟩, he, hl.n, hl.c⟩, ⟨c, hc, hlt⟩, c, hc, ts_advanceLine hc h0 hlt⟩
  · right
    exact ⟨sA, sB, hl, ⟨c, hc⟩, he, rfl, rfl⟩

end GM.Blocks.Xs
