/-
  GM.Proof.QuoteSimMid — run A alone, for the simulation with ALL ten parsers: the invariant `StableL` of the no-panic
  proof (GM.Proof.BlocksDriverL) at line boundaries, re-established after a pass of the per-line loop (`lineLoopL`) and
  after `openBlocks` below the Document (`openBlocksL`) by applying the no-panic theorems to run A's own equations
  (the way GM.Proof.ShiftSimMainL does it); the start of a pass (`Sh.MidA`); a leaf block that continues is the last
  opened block.
-/
import GM.Proof.QuoteSimInvLI
import GM.Proof.BlocksNoPanicAll
import GM.Proof.ShiftSimMainW

namespace GM.Blocks
open GM GM.Text GM.Spec GM.Proof.Reader GM.Blocks.L

theorem padOK_zero (k : Int) (p : Nat) : PadOK ⟨k, p, 0⟩ := fun h => absurd rfl h

/-- a pass of the per-line loop keeps `StableL` -/
theorem stable_lineLoop {src : Bytes} {ob : List Block} {stA : List LineStat} {sA sA2 : St}
    {y : LineOutcome × List LineStat} {c : RCur} (hst : StableL src 0 sA) (hop : sA.pc.opened = ob)
    (hri : RI src sA.r c) (hpad : PadOK c)
    (e : lineLoop 0 ob ((ob.length : Int) - 1) ob 0 stA sA = .ok (y, sA2)) : StableL src 0 sA2 := by
  have := lineLoopL (lsp_all src) 0 rfl ob ((ob.length : Int) - 1) rfl ob [] 0 stA sA c rfl rfl hop hri hpad hst
    (fun Lb hLb => by simp at hLb)
  obtain ⟨_, _, hst'⟩ := Sh.okl_ok this e
  exact hst'

/-- `openBlocks` below the Document while nothing is open keeps `StableL` -/
theorem stable_openBlocks0 {src : Bytes} {s s' : St} {blank : Bool} {d : OpenResult} {c : RCur}
    (hst : StableL src 0 s) (hop : s.pc.opened = []) (hri : RI src s.r c) (hpad : PadOK c)
    (e : openBlocks 0 blank s = .ok (d, s')) : StableL src 0 s' := by
  have hcl : Call s.pc.opened [] := ⟨⟨s.pc.opened, by simp, fun _ bb hb => by rw [hop] at hb; cases hb⟩⟩
  have hkroot : (nd s 0).kind ≠ .list := by rw [hst.ls.rootKind]; decide
  have hobk := openBlocksL (lsp_all src) [] 0 blank s c hri hpad hst hcl rfl (fun hk => absurd hk hkroot)
  obtain ⟨c2, new2, hria2, _, hw2, hleafy2, _, _, hend2, _⟩ := Sh.okl_ok hobk e
  have hop2 : s'.pc.opened = new2 := by
    rcases hw2.shape with e' | ⟨hh, _, _⟩
    · rw [e', hop]; rfl
    · exact absurd hop hh
  exact ⟨hw2.nodes, hw2.keys, hw2.blocks, by rw [hop2]; exact hleafy2, hw2.ls, by rw [hop2]; simpa using hw2.chain,
    by rw [hop2]; simpa using hend2⟩

/-- the start of a pass -/
theorem mid_start {src : Bytes} {ob : List Block} {sA : St} {c : RCur} (hst : StableL src 0 sA) (hop : sA.pc.opened = ob)
    (hri : RI src sA.r c) (hpad : PadOK c) : Sh.MidA src ob [] ob 0 sA :=
  ⟨by simp, rfl, hop, hst, c, hri, hpad, fun Lb hLb => by simp at hLb⟩

/-- a block whose `Continue` answers "continue, no children" is the last opened block -/
theorem mid_leaf_last {src : Bytes} {ob pre rest : List Block} {be : Block} {i : Int} {s s' : St} {st : PState}
    (hm : Sh.MidA src ob pre (be :: rest) i s) (e : bpContinue be.bp be.node s = .ok (st, s')) (hc : st.cont = true)
    (hch : st.hasChildren = false) : rest = [] := by
  apply Classical.byContradiction
  intro hne
  have hcn := Sh.leaf_of_stable hm.st pre be rest (by rw [hm.opened, hm.split]) hne
  have := Sh.lL_cont be.bp hcn be.node s s' st e hc
  rw [hch] at this
  cases this

end GM.Blocks
