/-
  GM.Proof.ShiftSimEndA — byte / reader facts for the end-to-end composition of C09's first half with an EMPTY document
  `A`: the joined document is `"\n" ++ "# " ++ h ++ "\n" ++ "\n" ++ b`; where its lines start and end, and what the reader
  looks like after `AdvanceLine`.
-/
import GM.Proof.IndepReset
import GM.Proof.ShiftSimMainW

namespace GM.Blocks.Sh
open GM GM.Text GM.Spec GM.Proof.Reader GM.Blocks

theorem lineLen_noLF (h t : Bytes) (hh : ∀ c ∈ h, c ≠ 10) : lineLen (h ++ 10 :: t) = h.length + 1 := by
  induction h with
  | nil => simp [lineLen]
  | cons c cs ih =>
    have hc : c ≠ 10 := hh c List.mem_cons_self
    have := ih (fun x hx => hh x (List.mem_cons_of_mem _ hx))
    simp only [List.cons_append, lineLen, List.length_cons]
    rw [if_neg (by simpa using hc), this]; omega

/-- the reader after `AdvanceLine` depends on source, `pos.stop`, `forceNewline`, `line` only -/
theorem advanceLine_eq (r : Reader) (h0 : 0 ≤ r.pos.stop) :
    r.advanceLine = { source := r.source, line := r.line + 1, peekedLine := none,
                      pos := { start := r.pos.stop, stop := lineEnd r.source r.pos.stop.toNat, padding := 0,
                               forceNewline := r.pos.forceNewline },
                      head := r.pos.stop, lineOffset := -1 } := by
  unfold Reader.advanceLine
  simp only
  rw [if_neg (by omega)]

/-- the reader stands on the line that starts at `k` after `AdvanceLine` from a reader whose line ended at `k` -/
theorem atLine_advanceLine {r : Reader} {src : Bytes} {k : Nat} (hs : r.source = src) (hstop : r.pos.stop = (k : Int))
    (hf : r.pos.forceNewline = false) (hk : k < src.length) :
    AtLine (sub src k (lineEnd src k)) r.advanceLine := by
  rw [advanceLine_eq r (by omega)]
  have hle := lineEnd_le src k
  have hge := lineEnd_ge src (Nat.le_of_lt hk)
  refine ⟨by simp only; omega, by simp only [Reader.sourceLength, hs]; omega, ?_, .inl rfl⟩
  simp only [hs, hstop, hf, Int.toNat_natCast]
  unfold Segment.value
  simp only [beq_self_eq_true, if_true, sliceB]
  rw [if_pos ⟨by omega, by omega, by omega⟩]
  simp [needsNewline, bind, Except.bind, pure, Except.pure]

/-- the first line of a fresh reader -/
theorem atLine_new (src : Bytes) (h : 0 < src.length) : AtLine (sub src 0 (lineEnd src 0)) (Reader.new src) := by
  unfold Reader.new
  exact atLine_advanceLine (src := src) (k := 0) rfl rfl rfl h

/-! ### the lines of `"\n# h\n\n" ++ b` and of `"# h\n"` -/

/-- the heading line `# h\n` as `35 :: 32 :: …` -/
def hlB (h : Bytes) : Bytes := 35 :: 32 :: (h ++ [10])

/-- the joined document for an empty `A` -/
def docB (h b : Bytes) : Bytes := 10 :: 35 :: 32 :: (h ++ 10 :: 10 :: b)

theorem headingLine_eq (h : Bytes) : headingLine h = hlB h := by simp [headingLine, hlB]

theorem indepDoc_nil (h b : Bytes) : indepDoc [] h b = docB h b := by
  simp [indepDoc, indepSep, headingLine, docB]

theorem docB_eq (h b : Bytes) : docB h b = (10 :: hlB h ++ [10]) ++ b := by simp [docB, hlB]

variable {h : Bytes} (hh : ∀ c ∈ h, c ≠ 10)
include hh

theorem hl_lineEnd : lineEnd (hlB h) 0 = h.length + 3 := by
  unfold lineEnd hlB
  rw [if_pos (Nat.zero_le _)]
  simp only [List.drop_zero, Nat.zero_add]
  have := lineLen_noLF (35 :: 32 :: h) [] (by
    intro c hc
    simp only [List.mem_cons] at hc
    rcases hc with rfl | rfl | hc
    · decide
    · decide
    · exact hh c hc)
  simpa using this

theorem hl_length : (hlB h).length = h.length + 3 := by simp [hlB]

theorem hl_sub : sub (hlB h) 0 (lineEnd (hlB h) 0) = hlB h := by
  rw [hl_lineEnd hh]
  unfold sub
  simp only [List.drop_zero, Nat.sub_zero]
  exact List.take_of_length_le (by rw [hl_length hh]; exact Nat.le_refl _)

theorem doc_lineEnd0 (b : Bytes) : lineEnd (docB h b) 0 = 1 := by
  simp [lineEnd, docB, lineLen]

theorem doc_sub0 (b : Bytes) : sub (docB h b) 0 (lineEnd (docB h b) 0) = [10] := by
  rw [doc_lineEnd0 hh]; simp [sub, docB]

theorem doc_lineEnd1 (b : Bytes) : lineEnd (docB h b) 1 = h.length + 4 := by
  unfold lineEnd docB
  rw [if_pos (by simp)]
  simp only [List.drop_succ_cons, List.drop_zero]
  have := lineLen_noLF (35 :: 32 :: h) (10 :: b) (by
    intro c hc
    simp only [List.mem_cons] at hc
    rcases hc with rfl | rfl | hc
    · decide
    · decide
    · exact hh c hc)
  simp only [List.cons_append] at this
  rw [this]; simp; omega

theorem doc_sub1 (b : Bytes) : sub (docB h b) 1 (lineEnd (docB h b) 1) = hlB h := by
  rw [doc_lineEnd1 hh]
  unfold sub docB hlB
  simp only [List.drop_succ_cons, List.drop_zero]
  have e : h.length + 4 - 1 = (35 :: 32 :: (h ++ [10])).length := by simp
  rw [e]
  have : 35 :: 32 :: (h ++ 10 :: 10 :: b) = (35 :: 32 :: (h ++ [10])) ++ 10 :: b := by simp
  rw [this, List.take_left']
  rfl

theorem doc_lineEnd2 (b : Bytes) : lineEnd (docB h b) (h.length + 4) = h.length + 5 := by
  unfold lineEnd
  have hlen : (docB h b).length = h.length + 5 + b.length := by simp [docB]; omega
  rw [if_pos (by omega)]
  have : (docB h b).drop (h.length + 4) = 10 :: b := by
    have e : docB h b = (10 :: 35 :: 32 :: (h ++ [10])) ++ 10 :: b := by simp [docB]
    rw [e, List.drop_left' (by simp)]
  rw [this]; simp [lineLen]

theorem doc_sub2 (b : Bytes) : sub (docB h b) (h.length + 4) (lineEnd (docB h b) (h.length + 4)) = [10] := by
  rw [doc_lineEnd2 hh]
  unfold sub
  have e : docB h b = (10 :: 35 :: 32 :: (h ++ [10])) ++ 10 :: b := by simp [docB]
  rw [e, List.drop_left' (by simp)]
  simp

end GM.Blocks.Sh
