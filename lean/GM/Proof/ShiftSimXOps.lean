/-
  GM.Proof.ShiftSimXOps — the segment operations the block parsers call with the source (`TrimLeftSpace`,
  `TrimRightSpace`, `TrimLeftSpaceWidth`, `Value`, and the loops over `Lines()` built from them) commute with the
  shift: if the call on `(t, src)` ends normally, the call on `(moveSeg |p| t, p ++ src)` ends normally with the moved
  result (the same result for `Value`). No sign condition: a negative start makes the A-side call panic.
-/
import GM.Proof.ShiftSimXRel

namespace GM.Blocks.Xs
open GM GM.Text GM.Spec GM.Proof.Reader GM.Blocks

theorem sliceB_ok_range {s : Bytes} {a b : Int} {v : Bytes} (h : sliceB s a b = .ok v) :
    0 ≤ a ∧ a ≤ b ∧ b ≤ (s.length : Int) := by
  unfold sliceB at h
  split at h
  · assumption
  · cases h

theorem sliceB_ok_shift (p s q : Bytes) {a b : Int} {v : Bytes} (h : sliceB s a b = .ok v) :
    sliceB (p ++ s ++ q) (a + p.length) (b + p.length) = .ok v := by
  have hr := sliceB_ok_range h
  rw [sliceB_shift p s q a b hr.1 (.inr hr.2.2)]; exact h

theorem moveSeg_len (d : Int) (t : Segment) : (moveSeg d t).len = t.len := by
  simp only [Segment.len, moveSeg]; omega

theorem moveSeg_isEmpty (d : Int) (t : Segment) : (moveSeg d t).isEmpty = t.isEmpty := by
  simp only [Segment.isEmpty, moveSeg]
  congr 1
  exact decide_eq_decide.mpr (by constructor <;> intro _ <;> omega)

theorem moveSeg_padding (d : Int) (t : Segment) : (moveSeg d t).padding = t.padding := rfl
theorem moveSeg_start (d : Int) (t : Segment) : (moveSeg d t).start = t.start + d := rfl
theorem moveSeg_stop (d : Int) (t : Segment) : (moveSeg d t).stop = t.stop + d := rfl
theorem moveSeg_forceNewline (d : Int) (t : Segment) : (moveSeg d t).forceNewline = t.forceNewline := rfl

theorem trimLeftSpace_sh (F : Frame) (src : Bytes) {t r : Segment} (h : t.trimLeftSpace src = .ok r) :
    (moveSeg F.d t).trimLeftSpace (F.p ++ src ++ F.q) = .ok (moveSeg F.d r) := by
  unfold Segment.trimLeftSpace at h ⊢
  cases hv : sliceB src t.start t.stop with
  | error e => rw [hv] at h; cases h
  | ok v =>
    rw [hv] at h
    have := sliceB_ok_shift F.p src F.q hv
    simp only [moveSeg, Frame.d, this, bind, Except.bind, pure, Except.pure] at h ⊢
    cases h
    simp only [Except.ok.injEq, Segment.mk.injEq, and_true]
    omega

theorem trimRightSpace_sh (F : Frame) (src : Bytes) {t r : Segment} (h : t.trimRightSpace src = .ok r) :
    (moveSeg F.d t).trimRightSpace (F.p ++ src ++ F.q) = .ok (moveSeg F.d r) := by
  unfold Segment.trimRightSpace at h ⊢
  cases hv : sliceB src t.start t.stop with
  | error e => rw [hv] at h; cases h
  | ok v =>
    rw [hv] at h
    have := sliceB_ok_shift F.p src F.q hv
    simp only [moveSeg, Frame.d, this, bind, Except.bind, pure, Except.pure] at h ⊢
    split at h
    · rename_i hc
      rw [if_pos hc]
      cases h
      simp only [Except.ok.injEq, Segment.mk.injEq, and_true]
    · rename_i hc
      rw [if_neg hc]
      cases h
      simp only [Except.ok.injEq, Segment.mk.injEq, and_true, true_and]
      omega

theorem tlswLoop_sh (d stop : Int) : ∀ (text : Bytes) (start width : Int),
    tlswLoop (stop + d) text (start + d) width = ((tlswLoop stop text start width).1 + d, (tlswLoop stop text start width).2) := by
  intro text
  induction text with
  | nil => intro start width; rfl
  | cons c cs ih =>
    intro start width
    unfold tlswLoop
    have e : (start + d ≥ stop + d - 1 || width ≤ 0) = (start ≥ stop - 1 || width ≤ 0) := by
      congr 1
      exact decide_eq_decide.mpr (by constructor <;> intro _ <;> omega)
    rw [e]
    split
    · rfl
    · split
      · have := ih (start + 1) (width - 1)
        rw [show start + d + 1 = start + 1 + d by omega]; exact this
      · split
        · have := ih (start + 1) (width - 4)
          rw [show start + d + 1 = start + 1 + d by omega]; exact this
        · rfl

theorem trimLeftSpaceWidth_sh (F : Frame) (src : Bytes) (w : Int) {t r : Segment}
    (h : t.trimLeftSpaceWidth w src = .ok r) :
    (moveSeg F.d t).trimLeftSpaceWidth w (F.p ++ src ++ F.q) = .ok (moveSeg F.d r) := by
  obtain ⟨st, sp, pd, fn⟩ := t
  unfold Segment.trimLeftSpaceWidth at h ⊢
  dsimp only [moveSeg] at h ⊢
  split at h
  · rename_i hc
    rw [if_pos hc]
    simp only [pure, Except.pure, Except.ok.injEq] at h ⊢
    subst h
    rfl
  · rename_i hc
    rw [if_neg hc]
    cases hv : sliceB src st sp with
    | error e => rw [hv] at h; cases h
    | ok v =>
      rw [hv] at h
      have := sliceB_ok_shift F.p src F.q hv
      change sliceB (F.p ++ src ++ F.q) (st + F.d) (sp + F.d) = _ at this
      rw [this]
      simp only [bind, Except.bind, pure, Except.pure, Except.ok.injEq] at h ⊢
      simp only [tlswLoop_sh]
      subst h
      rfl

/-- `Segment.Value` of a moved segment on the prefixed source -/
theorem value_ok_shift (F : Frame) (src : Bytes) {t : Segment} {v : Bytes} (h : t.value src = .ok v) :
    (moveSeg F.d t).value (F.p ++ src ++ F.q) = .ok v := by
  have h0 : 0 ≤ t.start ∧ t.stop ≤ (src.length : Int) := by
    unfold Segment.value at h
    split at h
    · cases hv : sliceB src t.start t.stop with
      | error e => rw [hv] at h; cases h
      | ok x =>
        have := sliceB_ok_range hv
        omega
    · simp only [bind, Except.bind] at h
      split at h
      · cases h
      · split at h
        · cases h
        · cases hv : sliceB src t.start t.stop with
          | error e => rw [hv] at h; cases h
          | ok x =>
            have := sliceB_ok_range hv
            omega
  rw [value_shift F t src h0.1 (.inr h0.2)]; exact h

/-- the loop of paragraphParser.Close -/
theorem trimLeftAll_sh (F : Frame) (src : Bytes) : ∀ {ls rs : List Segment}, trimLeftAll src ls = .ok rs →
    trimLeftAll (F.p ++ src ++ F.q) (ls.map (moveSeg F.d)) = .ok (rs.map (moveSeg F.d)) := by
  intro ls
  induction ls with
  | nil => intro rs h; cases h; rfl
  | cons l ls ih =>
    intro rs h
    unfold trimLeftAll at h
    simp only [List.map_cons, trimLeftAll]
    cases h1 : l.trimLeftSpace src with
    | error e => rw [h1] at h; cases h
    | ok l' =>
      rw [h1] at h
      cases h2 : trimLeftAll src ls with
      | error e => rw [h2] at h; cases h
      | ok ls' =>
        rw [h2] at h
        simp only [bind, Except.bind, pure, Except.pure] at h
        cases h
        rw [trimLeftSpace_sh F src h1, ih h2]
        rfl

theorem lineAt_sh (d : Int) {ls : List Segment} {i : Int} {r : Segment} (h : lineAt ls i = .ok r) :
    lineAt (ls.map (moveSeg d)) i = .ok (moveSeg d r) := by
  unfold lineAt segAt at h ⊢
  split at h
  · cases h
  · rename_i hc
    rw [if_neg hc, List.getElem?_map]
    cases hg : ls[i.toNat]? with
    | none => rw [hg] at h; cases h
    | some x => rw [hg] at h; cases h; rfl

theorem lineSet_sh (d : Int) {ls rs : List Segment} {i : Int} {v : Segment} (h : lineSet ls i v = .ok rs) :
    lineSet (ls.map (moveSeg d)) i (moveSeg d v) = .ok (rs.map (moveSeg d)) := by
  unfold lineSet at h ⊢
  split at h
  · rename_i hc
    rw [if_pos (by simpa using hc)]
    cases h
    simp [List.map_set]
  · cases h

/-- the loop of codeBlockParser.Close -/
theorem codeTrimLoop_sh (F : Frame) (src : Bytes) (ls : List Segment) : ∀ (k : Nat) {r : Int},
    codeTrimLoop src ls k = .ok r → codeTrimLoop (F.p ++ src ++ F.q) (ls.map (moveSeg F.d)) k = .ok r := by
  intro k
  induction k with
  | zero => intro r h; exact h
  | succ k ih =>
    intro r h
    unfold codeTrimLoop at h ⊢
    cases h1 : lineAt ls (k : Int) with
    | error e => rw [h1] at h; cases h
    | ok line =>
      rw [h1] at h
      rw [lineAt_sh F.d h1]
      simp only [bind, Except.bind] at h ⊢
      cases h2 : line.value src with
      | error e => rw [h2] at h; cases h
      | ok v =>
        rw [h2] at h
        rw [value_ok_shift F src h2]
        simp only at h ⊢
        split
        · rename_i hc; rw [if_pos hc] at h; exact ih h
        · rename_i hc; rw [if_neg hc] at h; exact h

end GM.Blocks.Xs
