/-
  GM.Proof.BlocksClosedWalk — the close discipline through `openBlocks` (parser.go:928-1024).

  `OW src n0 tp s`: `CInv` for the whole stack; the nodes created since the call (`≥ n0`) hang below `tp` or below each
  other; `temporaryParagraphKey` points to a node older than the call.
-/
import GM.Proof.BlocksClosedDrv

namespace GM.Blocks
open GM GM.Text GM.Spec GM.Proof.Reader
open GM.Proof.BlocksWF0 (isRaw)

structure OW (src : Bytes) (n0 tp : Nat) (s : St) : Prop where
  ci : CInv src s s.pc.opened
  np : NewPar n0 tp s
  len : n0 ≤ s.nodes.length
  tmp : ∀ t, s.pc.tmpPara = some t → t < n0

/-- the nodes created since `n0` are not Paragraphs (while only containers have been opened) -/
def FreshN (n0 : Nat) (s : St) : Prop := ∀ i, n0 ≤ i → (nd s i).kind ≠ .paragraph

theorem container_kind_ne_paragraph {bp : BP} (h : bp.isContainer = true) : bp.kind ≠ .paragraph := by
  cases bp <;> simp [BP.isContainer, BP.kind] at h ⊢

section walk
variable {src : Bytes}

/-- a state that differs only in the reader, in context fields other than the stack and the setext key, keeps `OW` -/
theorem OW.congr {n0 tp : Nat} {s s' : St} (h : OW src n0 tp s) (hn : s'.nodes = s.nodes)
    (ho : s'.pc.opened = s.pc.opened) (ht : s'.pc.tmpPara = s.pc.tmpPara) : OW src n0 tp s' := by
  have hnd : ∀ i, nd s' i = nd s i := fun i => by simp only [nd, hn]
  obtain ⟨B, hB⟩ := h.ci.inv
  refine ⟨⟨⟨B, hB.of_same hn ho ht⟩, h.ci.tree.of_links (fun i => by rw [hnd]; exact ⟨rfl, rfl⟩), fun i hr => ?_,
    fun g hg => by rw [hnd]; rw [ho] at hg; exact h.ci.att g hg, by rw [ho]; exact h.ci.inj, fun g hg => hg⟩,
    fun x hx q hq => ?_, by rw [hn]; exact h.len, fun t htt => h.tmp t (by rw [← ht]; exact htt)⟩
  · rw [hnd] at hr ⊢; rw [ho]; exact h.ci.pad i hr
  · rw [hnd] at hq
    obtain ⟨a1, a2, a3⟩ := h.np x hx q hq
    exact ⟨a1, by rw [hnd]; exact a2, by rw [hn]; exact a3⟩

/-- **the candidate loop** under the close discipline -/
theorem tryParsers_cl (L : Int) (n0 tp : Nat) (parent : Nat) (blank cont : Bool) (w : Int) :
    ∀ (bps : List BP) (result : OpenResult) (lb : Option Block) (s : St) (c : RCur)
      (x : TryOutcome × OpenResult × Option Block) (s' : St),
      Clean src L s c → c.p < src.length → BoffOK src s c → OW src n0 tp s → FreshN n0 s →
      (parent = tp ∨ n0 ≤ parent) → parent < s.nodes.length → (nd s parent).kind ≠ .paragraph →
      tryParsers parent blank cont w bps result lb s = .ok (x, s') →
      OW src n0 tp s' ∧
      ((x.1 = .done ∧ x.2.1 = result ∧ s'.nodes = s.nodes ∧ s'.pc.opened = s.pc.opened) ∨
       (x.1 = .done ∧ x.2.1 = .newBlocksOpened) ∨
       (∃ p', x.1 = .retry p' ∧ FreshN n0 s' ∧ n0 ≤ p' ∧ p' < s'.nodes.length ∧ (nd s' p').kind ≠ .paragraph)) := by
  intro bps
  induction bps with
  | nil =>
    intro result lb s c x s' _ _ _ how _ _ _ _ h
    unfold tryParsers at h
    obtain ⟨rfl, hs⟩ := opure_ok h
    subst s'
    exact ⟨how, .inl ⟨rfl, rfl, rfl, rfl⟩⟩
  | cons bp bps ih =>
    intro result lb s c x s' hc hlt hoff how hfn hptp hpl hpk h
    unfold tryParsers at h
    split at h
    · exact ih _ _ _ _ _ _ hc hlt hoff how hfn hptp hpl hpk (by simpa using h)
    · split at h
      · exact ih _ _ _ _ _ _ hc hlt hoff how hfn hptp hpl hpk (by simpa using h)
      · obtain ⟨lb', s1, h1, k1⟩ := obind_ok h
        obtain ⟨hlb', hs1⟩ := olastOpenedBlock_ok h1
        subst s1
        subst lb'
        dsimp only at k1
        obtain ⟨y, s2, h2, k2⟩ := obind_ok k1
        have eff := open_eff bp parent hc hlt hoff h2
        have frl := (bpOpen_frl bp parent).h s y s2 h2
        obtain ⟨node, state⟩ := y
        cases node with
        | none =>
          dsimp only at k2
          obtain ⟨hc2, hn2⟩ := eff.declined rfl
          have hoff2 : BoffOK src s2 c := by unfold BoffOK; rw [eff.boff]; exact hoff
          have hnd : ∀ i, nd s2 i = nd s i := fun i => by simp only [nd, hn2]
          have htmp2 : ∀ t, s2.pc.tmpPara = some t → t < n0 := by
            intro t ht
            obtain ⟨h1', h2'⟩ := eff.tmp t ht
            rcases Nat.lt_or_ge t n0 with h' | h'
            · exact h'
            · exact absurd h2' (hfn t h')
          -- `OW` for `s2`: same store, same stack
          have how2 : OW src n0 tp s2 := by
            obtain ⟨B, hB⟩ := how.ci.inv
            refine ⟨⟨⟨_, hc2.inv⟩, how.ci.tree.of_links (fun i => by rw [hnd]; exact ⟨rfl, rfl⟩), fun i hr => ?_,
              fun g hg => by rw [hnd]; rw [eff.opened] at hg; exact how.ci.att g hg,
              by rw [eff.opened]; exact how.ci.inj, fun g hg => hg⟩,
              fun x hx q hq => ?_, by rw [hn2]; exact how.len, htmp2⟩
            · rw [hnd] at hr ⊢; rw [eff.opened]; exact how.ci.pad i hr
            · rw [hnd] at hq
              obtain ⟨a1, a2, a3⟩ := how.np x hx q hq
              exact ⟨a1, by rw [hnd]; exact a2, by rw [hn2]; exact a3⟩
          obtain ⟨d, hcases⟩ := ih _ _ _ _ _ _ hc2 hlt hoff2 how2 (fun i hi => by rw [hnd]; exact hfn i hi) hptp
            (by rw [hn2]; exact hpl) (by rw [hnd]; exact hpk) k2
          refine ⟨d, ?_⟩
          rcases hcases with ⟨a1, a2, a3, a4⟩ | hb | hcc
          · exact .inl ⟨a1, a2, a3.trans hn2, a4.trans eff.opened⟩
          · exact .inr (.inl hb)
          · exact .inr (.inr hcc)
        | some node =>
          dsimp only at k2
          obtain ⟨hid, hltn, hkn⟩ := eff.node node rfl
          obtain ⟨n, hsn, hnk⟩ := eff.snoc node rfl
          subst hid
          have hnd2 := fun i => nd_snoc hsn i
          have hctx : LineCtx src s c := ⟨hc.ri, hlt, hc.pad, hoff, hc.inv.nodes⟩
          have hnself : nd s2 s.nodes.length = n := by rw [hnd2, if_neg (by omega), if_pos rfl]
          -- the state behind `Open`
          have hpre : TailPre src n0 tp parent s.nodes.length bp s2 := by
            refine ⟨⟨⟨_, eff.invE⟩, how.ci.tree.linksKept frl, fun i hr => ?_,
              fun g hg => ?_, by rw [eff.opened]; exact how.ci.inj, fun g hg => hg⟩, hltn, (frl.2.2 _ (Nat.le_refl _)).1,
              hkn, fun b hb => ?_, hpl, ?_, hptp, how.len, fun x hx q hq => ?_, fun hbs hr => ?_, eff.stop.source⟩
            · rw [hnd2] at hr ⊢
              by_cases hi : i < s.nodes.length
              · rw [if_pos hi] at hr ⊢
                rcases how.ci.pad i hr with hcl | hop
                · exact .inl hcl
                · rw [eff.opened]; exact .inr (.inl hop)
              · rw [if_neg hi] at hr ⊢
                by_cases hi2 : i = s.nodes.length
                · exact .inr (.inr hi2)
                · rw [if_neg hi2]; left; intro t ht; cases ht
            · rw [eff.opened] at hg
              have hgl := (how.ci.kinds hg).2
              rw [(frl.2.1 g.node hgl).1]; exact how.ci.att g hg
            · rw [eff.opened] at hb; exact (how.ci.kinds hb).2
            · rw [hnd2, if_pos hpl]; exact hpk
            · rw [hnd2] at hq
              by_cases hxl : x < s.nodes.length
              · rw [if_pos hxl] at hq
                obtain ⟨a1, a2, a3⟩ := how.np x hx q hq
                exact ⟨a1, by rw [hnd2, if_pos a3]; exact a2, by rw [hsn]; simp; omega⟩
              · rw [if_neg hxl] at hq
                by_cases hx2 : x = s.nodes.length
                · rw [if_pos hx2] at hq
                  have := (frl.2.2 _ (Nat.le_refl _)).1
                  rw [hnself] at this; rw [this] at hq; cases hq
                · rw [if_neg hx2] at hq; cases hq
            · rw [hnself] at hr ⊢
              exact open_newClosed bp parent hctx h2 hsn hnk hbs hr
          have hreq : state.requirePara = true → ∀ lb0, s.pc.opened.getLast? = some lb0 →
              (nd s2 lb0.node).kind = .paragraph := by
            intro hrq lb0 hlb0
            have hbs := eff.req hrq
            subst hbs
            have e' : setextOpen parent s = .ok ((some s.nodes.length, state), s2) := h2
            obtain ⟨_, _, h1' | ⟨lb1, _, hl1, hk1, _⟩⟩ := setextOpen_line hc.ri e'
            · cases h1'.1
            · rw [hlb0] at hl1; cases hl1
              have hl := tmp_lt hk1
              rw [hnd2, if_pos hl]; exact hk1
          obtain ⟨t1, t2, t3, t4, t5, t6⟩ := tryTail_cl (src := src) n0 tp parent s.nodes.length bp blank state
            s.pc.opened.getLast? s2 s' x hpre (by rw [eff.opened]) hreq k2
          -- the answer
          obtain ⟨_, _, hx3⟩ := tryTail_ord (src := src) parent s.nodes.length bp blank state s.pc.opened.getLast? s2 s' x
            (lineEnd src c.p : Int) eff.invE eff.stop.source
            (fun lb0 hlb0 => by rw [eff.opened]; exact List.mem_of_getLast? hlb0) hkn hltn k2
          have how' : OW src n0 tp s' := by
            refine ⟨t1, t2, by rw [t3]; have := how.len; omega, fun t ht => ?_⟩
            rw [t4] at ht
            obtain ⟨h1', h2'⟩ := eff.tmp t ht
            rcases Nat.lt_or_ge t n0 with h' | h'
            · exact h'
            · exact absurd h2' (hfn t h')
          refine ⟨how', ?_⟩
          by_cases hch : state.hasChildren = true
          · rw [if_pos hch] at hx3
            have hcont := hasChildren_only_containers bp parent s s2 (some s.nodes.length, state) h2 hch
            have hkc : bp.kind ≠ .paragraph := container_kind_ne_paragraph hcont
            refine .inr (.inr ⟨s.nodes.length, by rw [hx3], fun i hi => ?_, how.len, by rw [t3]; exact hltn, ?_⟩)
            · rw [t6, hnd2]
              split
              · exact hfn i hi
              · split
                · rw [hnk]; exact hkc
                · decide
            · rw [t6, hkn]; exact hkc
          · rw [if_neg hch] at hx3
            exact .inr (.inl ⟨by rw [hx3], by rw [hx3]⟩)


/-- **the `continuable:` exit** under the close discipline: the continuation line goes to a block that is still open -/
theorem toContinuable_cl (L : Int) (n0 tp : Nat) (cont : Bool) (result : OpenResult) (lbo : Option Block) (s : St)
    (c : RCur) (r' : OpenResult) (s' : St) (hc : Clean src L s c) (how : OW src n0 tp s)
    (hres : result = .noBlocksOpened → lbo = s.pc.opened.getLast? ∧ ContOK cont s)
    (h : toContinuable cont result lbo s = .ok (r', s')) :
    OW src n0 tp s' ∧ s'.pc.opened = s.pc.opened ∧
      (r' = result ∨ (result = .noBlocksOpened ∧ r' = .paragraphContinuation)) := by
  obtain ⟨E, hE, _⟩ := toContinuable_ord L cont result lbo s c r' s' hc hres h
  unfold toContinuable at h
  split at h
  · next hcond =>
    simp only [Bool.and_eq_true, beq_iff_eq] at hcond
    obtain ⟨hlbo, hck⟩ := hres hcond.1
    obtain ⟨lb, hlast, hkind⟩ := hck hcond.2
    rw [hlbo, hlast] at h
    dsimp only at h
    obtain ⟨st, s1, h1, k1⟩ := obind_ok h
    have hs' : s' = s1 ∧ (r' = result ∨ (result = .noBlocksOpened ∧ r' = .paragraphContinuation)) := by
      split at k1
      · exact ⟨(opure_ok k1).2, .inr ⟨hcond.1, (opure_ok k1).1⟩⟩
      · exact ⟨(opure_ok k1).2, .inl (opure_ok k1).1⟩
    obtain ⟨hs', hrr⟩ := hs'
    subst s'
    have hmem := List.mem_of_getLast? hlast
    obtain ⟨hkb, hltb⟩ := hc.inv.kinds lb hmem
    have hbp : lb.bp = .paragraph := kind_paragraph (by rw [← hkb]; exact hkind)
    rw [hbp] at h1
    have h1' : paragraphContinue lb.node s = .ok (st, s1) := h1
    obtain ⟨r1, c1, hr1, _, _, hpc1, hcase⟩ := (paragraphContinue_line hc.ri lb.node).of_ok h1'
    refine ⟨?_, by rw [hpc1], hrr⟩
    rcases hcase with ⟨_, hn, _⟩ | ⟨_, _, _, _, _, hn⟩
    · exact how.congr hn (by rw [hpc1]) (by rw [hpc1])
    · have hnd : ∀ i, nd s1 i = if lb.node = i ∧ lb.node < s.nodes.length then
          { (nd s lb.node) with lines := (nd s lb.node).lines ++ [RCur.seg src c], linesNil := false } else nd s i := by
        intro i
        have : nd s1 i = nd ({ s with nodes := s.nodes.set lb.node ((fun n : Node =>
            { n with lines := n.lines ++ [RCur.seg src c], linesNil := false }) (s.nodes.getD lb.node default)) } : St) i := by
          simp only [nd, hn]
        rw [this]
        exact nd_mod s lb.node (fun n => { n with lines := n.lines ++ [RCur.seg src c], linesNil := false }) i
      have hlinks : ∀ i, (nd s1 i).parent = (nd s i).parent ∧ (nd s1 i).children = (nd s i).children ∧
          (nd s1 i).kind = (nd s i).kind := by
        intro i; rw [hnd]; split
        · next hc' => rw [hc'.1]; exact ⟨rfl, rfl, rfl⟩
        · exact ⟨rfl, rfl, rfl⟩
      have hlen : s1.nodes.length = s.nodes.length := by rw [hn]; simp
      refine ⟨⟨⟨E, hE⟩, how.ci.tree.of_links (fun i => ⟨(hlinks i).1, (hlinks i).2.1⟩), fun i hr => ?_,
        fun g hg => by rw [(hlinks g.node).1]; rw [hpc1] at hg; exact how.ci.att g hg,
        by rw [hpc1]; exact how.ci.inj, fun g hg => hg⟩, fun x hx q hq => ?_, by rw [hlen]; exact how.len,
        fun t ht => how.tmp t (by rw [← hpc1]; exact ht)⟩
      · rw [(hlinks i).2.2] at hr
        by_cases hi : lb.node = i
        · subst hi
          exact .inr ⟨lb, by rw [hpc1]; exact hmem, rfl, .inl hbp⟩
        · rcases how.ci.pad i hr with hcl | hop
          · left; rw [Closed, hnd, if_neg (fun hh => hi hh.1)]; exact hcl
          · rw [hpc1]; exact .inr hop
      · rw [(hlinks x).1] at hq
        obtain ⟨a1, a2, a3⟩ := how.np x hx q hq
        exact ⟨a1, by rw [(hlinks q).2.2]; exact a2, by rw [hlen]; exact a3⟩
  · have h' : (pure result : M OpenResult) s = .ok (r', s') := h
    obtain ⟨hr, hs⟩ := opure_ok h'
    subst s'
    exact ⟨how, rfl, .inl hr⟩

/-- **the `goto retry` loop** under the close discipline -/
theorem openBlocksLoop_cl (L : Int) (n0 tp : Nat) (blank cont : Bool) :
    ∀ (fuel parent : Nat) (result : OpenResult) (lbo : Option Block) (s : St) (c : RCur) (r' : OpenResult) (s' : St),
      Clean src L s c → OW src n0 tp s → FreshN n0 s →
      (parent = tp ∨ n0 ≤ parent) → parent < s.nodes.length → (nd s parent).kind ≠ .paragraph →
      (result = .noBlocksOpened → lbo = s.pc.opened.getLast? ∧ ContOK cont s) →
      openBlocksLoop blank cont fuel parent result lbo s = .ok (r', s') →
      OW src n0 tp s' ∧ (result = .newBlocksOpened → r' = .newBlocksOpened) ∧
        (r' ≠ .newBlocksOpened → s'.pc.opened = s.pc.opened) := by
  intro fuel
  induction fuel with
  | zero => intro parent result lbo s c r' s' _ _ _ _ _ _ _ h; unfold openBlocksLoop at h; cases h
  | succ fuel ih =>
    intro parent result lbo s c r' s' hc how hfn hptp hpl hpk hres h
    unfold openBlocksLoop at h
    obtain ⟨y, s1, h1, k1⟩ := obind_ok h
    obtain ⟨rfl, r1, hs1, hr1⟩ := peekLine_inv hc.ri h1
    subst s1
    dsimp only at k1
    obtain ⟨lo, s2, h2, k2⟩ := obind_ok k1
    obtain ⟨r2, hs2, hr2⟩ := lineOffset_inv (s := { s with r := r1 }) hr1 h2
    subst s2
    obtain ⟨u, s3, h3, k3⟩ := obind_ok k2
    have e3 := omodPc_ok h3
    have hop3 : s3.pc.opened = s.pc.opened := by rw [e3]; dsimp only; split <;> rfl
    have htm3 : s3.pc.tmpPara = s.pc.tmpPara := by rw [e3]; dsimp only; split <;> rfl
    have hn3 : s3.nodes = s.nodes := by rw [e3]
    have hr3 : s3.r = r2 := by rw [e3]
    have hnd3 : ∀ i, nd s3 i = nd s i := fun i => by simp only [nd, hn3]
    have hc3 : Clean src L s3 c :=
      ⟨hc.inv.of_same hn3 hop3 htm3, by rw [hr3]; exact hr2, hc.pad, hc.le, hc.padl⟩
    have how3 : OW src n0 tp s3 := how.congr hn3 hop3 htm3
    have hfn3 : FreshN n0 s3 := fun i hi => by rw [hnd3]; exact hfn i hi
    have hpl3 : parent < s3.nodes.length := by rw [hn3]; exact hpl
    have hpk3 : (nd s3 parent).kind ≠ .paragraph := by rw [hnd3]; exact hpk
    have hres3 : result = .noBlocksOpened → lbo = s3.pc.opened.getLast? ∧ ContOK cont s3 := by
      intro hr
      obtain ⟨a, b⟩ := hres hr
      refine ⟨by rw [hop3]; exact a, fun hct => ?_⟩
      obtain ⟨lb, h1', h2'⟩ := b hct
      exact ⟨lb, by rw [hop3]; exact h1', by rw [hnd3]; exact h2'⟩
    have hboff : (RCur.view src c).isSome = true → BoffOK src s3 c := by
      intro hsome
      unfold BoffOK
      rw [e3]
      dsimp only
      split
      · simp only; omega
      · simp only; omega
    have exit : ∀ (res : OpenResult) (l : Option Block) (sA : St), sA = s3 →
        (res = .noBlocksOpened → l = s3.pc.opened.getLast? ∧ ContOK cont s3) →
        res = result →
        toContinuable cont res l sA = .ok (r', s') →
        OW src n0 tp s' ∧ (result = .newBlocksOpened → r' = .newBlocksOpened) ∧
          (r' ≠ .newBlocksOpened → s'.pc.opened = s.pc.opened) := by
      intro res l sA hsA hr hres' hk
      subst hsA
      subst hres'
      obtain ⟨a1, a2, a3⟩ := toContinuable_cl L n0 tp cont res l sA c r' s' hc3 how3 hr hk
      refine ⟨a1, fun hn => ?_, fun _ => a2.trans hop3⟩
      rcases a3 with a3 | ⟨a3, _⟩
      · rw [a3]; exact hn
      · rw [hn] at a3; cases a3
    have viaTry : ∀ (bps : List BP), (RCur.view src c).isSome = true →
        (do let s0 ← get
            let __x ← tryParsers parent blank cont (indentWidthI ((RCur.view src c).getD []) lo).1 bps result lbo
            match __x.1 with
            | TryOutcome.retry parent' => do
              let s1 ← get
              if (!decide (retryMeasure s1 < retryMeasure s0)) = true then do
                throw Panic.pre
                openBlocksLoop blank cont fuel parent' __x.2.1 __x.2.2
              else openBlocksLoop blank cont fuel parent' __x.2.1 __x.2.2
            | TryOutcome.done => toContinuable cont __x.2.1 __x.2.2 : M OpenResult) s3 = .ok (r', s') →
        OW src n0 tp s' ∧ (result = .newBlocksOpened → r' = .newBlocksOpened) ∧
          (r' ≠ .newBlocksOpened → s'.pc.opened = s.pc.opened) := by
      intro bps hsome hk
      obtain ⟨s0, s4, h4, k4⟩ := obind_ok hk
      have e4 : s4 = s3 := by cases h4; rfl
      subst s4
      obtain ⟨x, s5, h5, k5⟩ := obind_ok k4
      have hlt : c.p < src.length := by
        cases hv : RCur.view src c with
        | none => rw [hv] at hsome; cases hsome
        | some l => exact view_some_lt src c hv
      obtain ⟨_, hord⟩ := tryParsers_ord (src := src) L parent blank cont _ bps result lbo s3 c x s5 hc3 hlt
        (hboff hsome) h5
      obtain ⟨how5, hcl⟩ := tryParsers_cl (src := src) L n0 tp parent blank cont _ bps result lbo s3 c x s5 hc3 hlt
        (hboff hsome) how3 hfn3 hptp hpl3 hpk3 h5
      cases hx1 : x.1 with
      | done =>
        rw [hx1] at k5
        dsimp only at k5
        by_cases hnew : x.2.1 = .newBlocksOpened
        · rw [hnew] at k5
          have hs5 := toContinuable_new cont _ s5 r' s' k5
          have hr5 : r' = .newBlocksOpened := by
            unfold toContinuable at k5
            rw [if_neg (by simp)] at k5
            have h' : (pure OpenResult.newBlocksOpened : M OpenResult) s5 = .ok (r', s') := k5
            exact (opure_ok h').1
          rw [hs5]
          exact ⟨how5, fun _ => hr5, fun hne => absurd hr5 hne⟩
        · -- nothing was opened: both walks are in their first case
          have hA : x.2.1 = result ∧ Clean src L s5 c ∧ s5.nodes = s3.nodes ∧ s5.pc.opened = s3.pc.opened ∧
              (x.2.2 = lbo ∨ x.2.2 = s3.pc.opened.getLast?) := by
            rcases hord with ⟨_, a2, a3, a4, a5, _, a7⟩ | ⟨_, b2⟩ | ⟨p', c', c1, _⟩
            · exact ⟨a2, a3, a4, a5, a7⟩
            · exact absurd b2 hnew
            · rw [hx1] at c1; cases c1
          obtain ⟨a2, a3, a4, a5, a7⟩ := hA
          obtain ⟨b1, b2, b3⟩ := toContinuable_cl L n0 tp cont x.2.1 x.2.2 s5 c r' s' a3 how5 (fun hr => by
            rw [a2] at hr
            obtain ⟨q1, q2⟩ := hres3 hr
            refine ⟨?_, fun hct => ?_⟩
            · rcases a7 with a7 | a7
              · rw [a7, q1, a5]
              · rw [a7, a5]
            · obtain ⟨lb, h1', h2'⟩ := q2 hct
              exact ⟨lb, by rw [a5]; exact h1', by simp only [nd, a4]; exact h2'⟩) k5
          refine ⟨b1, fun hn => ?_, fun _ => (b2.trans a5).trans hop3⟩
          rw [a2] at b3
          rcases b3 with b3 | ⟨b3, _⟩
          · rw [b3]; exact hn
          · rw [hn] at b3; cases b3
      | retry p' =>
        rw [hx1] at k5
        dsimp only at k5
        obtain ⟨s6, s7, h7, k7⟩ := obind_ok k5
        have e7 : s7 = s5 := by cases h7; rfl
        subst s7
        have hrec : openBlocksLoop blank cont fuel p' x.2.1 x.2.2 s5 = .ok (r', s') := by
          split at k7
          · obtain ⟨_, _, hthrow, _⟩ := obind_ok k7
            cases hthrow
          · exact k7
        have hC : ∃ c', x.2.1 = .newBlocksOpened ∧ Clean src L s5 c' := by
          rcases hord with ⟨a1, _⟩ | ⟨b1, _⟩ | ⟨p'', c', _, c2, c3, _⟩
          · rw [hx1] at a1; cases a1
          · rw [hx1] at b1; cases b1
          · exact ⟨c', c2, c3⟩
        obtain ⟨c', hnew, hc5⟩ := hC
        have hC2 : FreshN n0 s5 ∧ n0 ≤ p' ∧ p' < s5.nodes.length ∧ (nd s5 p').kind ≠ .paragraph := by
          rcases hcl with ⟨a1, _⟩ | ⟨b1, _⟩ | ⟨p'', c1, c2, c3, c4, c5⟩
          · rw [hx1] at a1; cases a1
          · rw [hx1] at b1; cases b1
          · rw [hx1] at c1; cases c1; exact ⟨c2, c3, c4, c5⟩
        obtain ⟨d1, d2, d3, d4⟩ := hC2
        obtain ⟨e1, e2, _⟩ := ih p' x.2.1 x.2.2 s5 c' r' s' hc5 how5 d1 (.inr d2) d3 d4
          (fun hr => by rw [hnew] at hr; cases hr) hrec
        have hr' := e2 hnew
        exact ⟨e1, fun _ => hr', fun hne => absurd hr' hne⟩
    split at k3
    · exact exit _ _ s3 rfl hres3 rfl k3
    · next hsome0 =>
      have hsome : (RCur.view src c).isSome = true := by
        cases hv : RCur.view src c with
        | none => rw [hv] at hsome0; simp at hsome0
        | some l => rfl
      obtain ⟨ch, s4, h4, k4⟩ := obind_ok k3
      obtain ⟨_, e4⟩ := oliftE_ok h4
      subst s4
      split at k4
      · exact exit _ _ s3 rfl hres3 rfl k4
      · split at k4
        · obtain ⟨c', s5, h5, k5⟩ := obind_ok k4
          obtain ⟨_, e5⟩ := oliftE_ok h5
          subst s5
          obtain ⟨bps, s6, h6, k6⟩ := obind_ok k5
          obtain ⟨_, e6⟩ := opure_ok h6
          subst s6
          exact viaTry bps hsome k6
        · obtain ⟨bps, s6, h6, k6⟩ := obind_ok k4
          obtain ⟨_, e6⟩ := opure_ok h6
          subst s6
          exact viaTry bps hsome k6

/-- **openBlocks under the close discipline**: from `CInv` for the whole stack (and a clean reader) it ends with `CInv`
    for the whole stack; every node it created hangs below `parent` or below another new node; the setext key points
    to a node that existed before -/
theorem openBlocks_cl (L : Int) (parent : Nat) (blank : Bool) (s : St) (c : RCur) (r' : OpenResult) (s' : St)
    (hc : Clean src L s c) (hci : CInv src s s.pc.opened) (hpl : parent < s.nodes.length)
    (hpk : (nd s parent).kind ≠ .paragraph) (h : openBlocks parent blank s = .ok (r', s')) :
    OW src s.nodes.length parent s' ∧ (r' ≠ .newBlocksOpened → s'.pc.opened = s.pc.opened) := by
  have how : OW src s.nodes.length parent s :=
    ⟨hci, (fun x hx q hq => by rw [nd_default_of_ge s hx] at hq; cases hq), Nat.le_refl _,
      fun t ht => tmp_lt (hc.inv.tmpk t ht)⟩
  have hfn : FreshN s.nodes.length s := fun i hi => by rw [nd_default_of_ge s hi]; decide
  unfold openBlocks at h
  obtain ⟨lb, s1, h1, k1⟩ := obind_ok h
  obtain ⟨hlb, hs1⟩ := olastOpenedBlock_ok h1
  subst s1
  subst lb
  have fin : ∀ cont, ContOK cont s →
      (do let v ← source; openBlocksLoop blank cont (retryFuel v) parent OpenResult.noBlocksOpened s.pc.opened.getLast? : M OpenResult) s
      = .ok (r', s') → OW src s.nodes.length parent s' ∧ (r' ≠ .newBlocksOpened → s'.pc.opened = s.pc.opened) := by
    intro cont hco k2
    obtain ⟨v, s3, h3, k3⟩ := obind_ok k2
    have e3 : s3 = s := by cases h3; rfl
    subst s3
    obtain ⟨a1, _, a3⟩ := openBlocksLoop_cl L s.nodes.length parent blank cont _ parent _ _ s c r' s' hc how hfn
      (.inl rfl) hpl hpk (fun _ => ⟨rfl, hco⟩) k3
    exact ⟨a1, a3⟩
  dsimp only at k1
  cases hl : s.pc.opened.getLast? with
  | none =>
    rw [hl] at k1
    dsimp only at k1
    obtain ⟨cont, s2, h2, k2⟩ := obind_ok k1
    obtain ⟨hcont, e2⟩ := opure_ok h2
    subst s2
    subst cont
    rw [← hl] at k2
    exact fin false (fun h => by cases h) k2
  | some b =>
    rw [hl] at k1
    dsimp only at k1
    obtain ⟨n, s2, h2, k2⟩ := obind_ok k1
    obtain ⟨hn, e2⟩ := ogetNode_ok h2
    subst s2
    subst n
    obtain ⟨cont, s3, h3, k3⟩ := obind_ok k2
    obtain ⟨hcont, e3⟩ := opure_ok h3
    subst s3
    subst cont
    rw [← hl] at k3
    exact fin _ (fun hct => ⟨b, hl, by simpa using hct⟩) k3

end walk

end GM.Blocks
