/-
  GM.Proof.QuoteSimLeafA — one-line-step simulation of the thematic-break, blockquote and ATX-heading parsers,
  and of the `pure` Continue / Close functions.
-/
import GM.Proof.QuoteSimPara

namespace GM.Blocks
open GM GM.Text GM.Spec GM.Proof.Reader

/-! ### parsers whose Continue / Close do nothing -/

theorem thematicContinue_sim (src : Bytes) : ContinueSim src .thematic := by
  intro k ls p node sA sB h
  exact S2.pure ⟨rfl, p, Nat.le_refl _, h⟩

theorem atxContinue_sim (src : Bytes) : ContinueSim src .atx := by
  intro k ls p node sA sB h
  exact S2.pure ⟨rfl, p, Nat.le_refl _, h⟩

theorem setextContinue_sim (src : Bytes) : ContinueSim src .setext := by
  intro k ls p node sA sB h
  exact S2.pure ⟨rfl, p, Nat.le_refl _, h⟩

theorem thematicClose_sim (src : Bytes) : CloseSim src .thematic := by
  intro k ls p node sA sB h
  exact S2.pure h

theorem atxClose_sim (src : Bytes) : CloseSim src .atx := by
  intro k ls p node sA sB h
  exact S2.pure h

theorem blockquoteClose_sim (src : Bytes) : CloseSim src .blockquote := by
  intro k ls p node sA sB h
  exact S2.pure h

theorem listItemClose_sim (src : Bytes) : CloseSim src .listItem := by
  intro k ls p node sA sB h
  exact S2.pure h

theorem htmlClose_sim (src : Bytes) : CloseSim src .html := by
  intro k ls p node sA sB h
  exact S2.pure h

/-! ### thematic_break.go -/

theorem viewA_tf_la {src : Bytes} (tf : ∀ c ∈ src, c ≠ 9) (ls p : Nat) : ∀ c ∈ (viewA src ls p).getD [], c ≠ 9 := by
  unfold viewA
  split
  · exact sub_tf tf _ _
  · intro c hc; simp at hc

theorem thematicOpen_sim (src : Bytes) : OpenSim src .thematic := by
  intro k ls p parent sA sB h
  show S2 _ (thematicOpen parent sA) (thematicOpen (parent + 1) sB)
  unfold thematicOpen
  refine S2.bind (peekLine_s2 h) (fun a b sA1 sB1 hq => ?_)
  obtain ⟨ha, hb, h1⟩ := hq
  subst ha hb
  refine S2.bind (lineOffset_s2 h1) (fun oa ob sA2 sB2 hq => ?_)
  obtain ⟨ho, h2⟩ := hq
  rw [isThematicBreak_tf _ (viewA_tf_la h.r.tf ls p) ob oa]
  by_cases hc : isThematicBreak ((viewA src ls p).getD []) oa = true
  · rw [if_pos hc, if_pos hc]
    have hi := h.r.inl
    have hplt : p < lineEnd src ls := by
      rcases Nat.lt_or_ge p (lineEnd src ls) with h' | h'
      · exact h'
      · exfalso
        simp [viewA, Nat.not_lt.mpr h', isThematicBreak, indentWidthI, indentWidthGo, tbLoop] at hc
    have hlen : (shK k (segA src ls p)).len = (segA src ls p).len := by simp only [Segment.len, shK]; omega
    refine S2.bind (advance_s2 h2 (by rw [hlen]) (by simp only [Segment.len, segA]; omega) ?_) (fun _ _ sA3 sB3 h3 => ?_)
    · refine ⟨hi.line, by have := hi.ge; omega, ?_, fun e => ?_⟩
      · simp only [Segment.len, segA]; omega
      · exfalso; simp only [Segment.len, segA] at e; omega
    refine S2.bind (newNode_s2 h3 _ _ (nodeRel_new src { kind := .thematicBreak } rfl rfl rfl rfl (by decide)))
      (fun n m sA4 sB4 hq => ?_)
    obtain ⟨_, hm, hn0, h4⟩ := hq
    subst hm
    exact S2.pure ⟨⟨rfl, .inr ⟨n, hn0, rfl, rfl⟩⟩, _, Nat.le_add_right _ _, h4⟩
  · rw [if_neg hc, if_neg hc]
    exact S2.pure ⟨⟨rfl, .inl ⟨rfl, rfl⟩⟩, p, Nat.le_refl _, h2⟩

/-! ### positions and bytes of the peeked line -/

/-- a position further right on line `k`: not behind the line's end, and at the line's end only if the last byte
    of the line is not `\n` (then the line is the last one of the source) -/
theorem InL.adv_la {src k ls p} (h : InL src k ls p) {q : Nat} (hpq : p ≤ q) (hle : q ≤ lineEnd src ls)
    (hlast : q = lineEnd src ls → src[q - 1]? ≠ some 10) : InL src k ls q := by
  refine ⟨h.line, by have := h.ge; omega, hle, fun e => ?_⟩
  have hl := lineEnd_le src ls
  have hne : src[lineEnd src ls - 1]? ≠ some 10 := by rw [← e]; exact hlast e
  refine ⟨?_, hne⟩
  rcases Nat.lt_or_ge (lineEnd src ls) src.length with h1 | h1
  · exact absurd (line_ends_nl h.line.lt h1) hne
  · omega

theorem viewA_getElem_la? (src : Bytes) (ls p i : Nat) :
    ((viewA src ls p).getD [])[i]? = if p + i < lineEnd src ls then src[p + i]? else none := by
  unfold viewA
  by_cases hp : p < lineEnd src ls
  · rw [if_pos hp]
    simp only [Option.getD_some]
    rw [sub_getElem?]
    by_cases hi : i < lineEnd src ls - p
    · rw [if_pos hi, if_pos (by omega)]
    · rw [if_neg hi, if_neg (by omega)]
  · rw [if_neg hp, if_neg (by omega)]; simp

theorem viewA_length_la (src : Bytes) (ls p : Nat) : ((viewA src ls p).getD []).length = lineEnd src ls - p := by
  unfold viewA
  by_cases hp : p < lineEnd src ls
  · rw [if_pos hp]; simp only [Option.getD_some]; exact length_sub src (lineEnd_le src ls)
  · rw [if_neg hp]; simp; omega

theorem idx_ok_la {l : Bytes} {i : Int} {c : UInt8} (h : idx l i = .ok c) : 0 ≤ i ∧ l[i.toNat]? = some c := by
  unfold idx getByte at h
  split at h
  · cases h
  · split at h
    · next hb => cases h; exact ⟨by omega, hb⟩
    · cases h

/-- the byte read at index `i` of the peeked line is byte `p + i` of the source, inside line `k` -/
theorem idx_view_la {src : Bytes} {ls p : Nat} {i : Int} {c : UInt8} (h : idx ((viewA src ls p).getD []) i = .ok c) :
    0 ≤ i ∧ p + i.toNat < lineEnd src ls ∧ src[p + i.toNat]? = some c := by
  obtain ⟨h0, hb⟩ := idx_ok_la h
  rw [viewA_getElem_la?] at hb
  by_cases hlt : p + i.toNat < lineEnd src ls
  · rw [if_pos hlt] at hb; exact ⟨h0, hlt, hb⟩
  · rw [if_neg hlt] at hb; cases hb

/-! ### blockquote.go -/

theorem blockquoteProcess_sim {src k ls p} {sA sB : St} (h : SR src k ls p sA sB) :
    S2 (fun a b sA' sB' => b = a ∧ ∃ p', p ≤ p' ∧ SR src k ls p' sA' sB') (blockquoteProcess sA) (blockquoteProcess sB) := by
  unfold blockquoteProcess
  refine S2.bind (peekLine_s2 h) (fun a b sA1 sB1 hq => ?_)
  obtain ⟨ha, hb, h1⟩ := hq
  subst ha hb
  refine S2.bind (lineOffset_s2 h1) (fun oa ob sA2 sB2 hq => ?_)
  obtain ⟨ho, h2⟩ := hq
  simp only
  rw [indentWidthI_tf _ (viewA_tf_la h.r.tf ls p) ob oa]
  generalize hr : indentWidthI ((viewA src ls p).getD []) oa = r
  obtain ⟨w, pos⟩ := r
  simp only
  have hlen := viewA_length_la src ls p
  have hi := h.r.inl
  by_cases hc : (decide (w > 3) || decide (pos ≥ ↑(List.length ((viewA src ls p).getD [])))) = true
  · simp only [if_pos hc]
    exact S2.pure ⟨rfl, p, Nat.le_refl _, h2⟩
  simp only [if_neg hc]
  refine S2.bind (P := fun a b sA' sB' => b = a ∧ idx ((viewA src ls p).getD []) pos = .ok a ∧ SR src k ls p sA' sB')
    (S2.liftE (fun a ha => ⟨a, ha, rfl, ha, h2⟩)) (fun c0 c sA3 sB3 hq => ?_)
  obtain ⟨hcc, hc1, h3⟩ := hq
  subst hcc
  by_cases hc2 : (c != 62) = true
  · simp only [if_pos hc2]
    exact S2.pure ⟨rfl, p, Nat.le_refl _, h3⟩
  simp only [if_neg hc2]
  have hc62 : c = 62 := by simpa using hc2
  obtain ⟨hp0, hplt, hpb⟩ := idx_view_la hc1
  have hpn : (pos + 1).toNat = pos.toNat + 1 := by omega
  by_cases hc3 : pos + 1 ≥ ↑(List.length ((viewA src ls p).getD []))
  · simp only [if_pos hc3]
    refine S2.bind (advance_s2 h3 rfl (by omega) ?_) (fun _ _ sA4 sB4 h4 => ?_)
    · refine hi.adv_la (by omega) (by omega) (fun _ => ?_)
      rw [hpn, show p + (pos.toNat + 1) - 1 = p + pos.toNat by omega, hpb, hc62]; decide
    · exact S2.pure ⟨rfl, _, Nat.le_add_right _ _, h4⟩
  simp only [if_neg hc3]
  refine S2.bind (P := fun a b sA' sB' => b = a ∧ idx ((viewA src ls p).getD []) (pos + 1) = .ok a ∧ SR src k ls p sA' sB')
    (S2.liftE (fun a ha => ⟨a, ha, rfl, ha, h3⟩)) (fun d0 d sA4 sB4 hq => ?_)
  obtain ⟨hdd, hd1, h4⟩ := hq
  subst hdd
  obtain ⟨_, hdlt, hdb⟩ := idx_view_la hd1
  rw [hpn] at hdlt hdb
  have hin1 : InL src k ls (p + (pos + 1).toNat) := by
    refine hi.adv_la (by omega) (by omega) (fun e => ?_)
    exfalso; omega
  by_cases hc4 : (d == 10) = true
  · simp only [if_pos hc4]
    refine S2.bind (advance_s2 h4 rfl (by omega) hin1) (fun _ _ sA5 sB5 h5 => ?_)
    exact S2.pure ⟨rfl, _, Nat.le_add_right _ _, h5⟩
  simp only [if_neg hc4]
  have hd10 : d ≠ 10 := by simpa using hc4
  refine S2.bind (advance_s2 h4 rfl (by omega) hin1) (fun _ _ sA5 sB5 h5 => ?_)
  have hd9 : (d == 9) = false := by
    have := h.r.tf d (List.mem_of_getElem? hdb)
    simpa using this
  rw [hd9]
  simp only [Bool.or_false, Bool.false_eq_true, if_false, pure_bind]
  by_cases hc5 : (d == 32) = true
  · simp only [if_pos hc5]
    refine S2.bind (advanceAndSetPadding_s2 h5 rfl rfl (by decide) (Int.le_refl _) ?_) (fun _ _ sA6 sB6 h6 => ?_)
    · refine hin1.adv_la (Nat.le_add_right _ _) ?_ (fun _ => ?_)
      · rw [hpn]; show p + (pos.toNat + 1) + 1 ≤ _; omega
      · rw [hpn]; show src[p + (pos.toNat + 1) + 1 - 1]? ≠ _
        rw [show p + (pos.toNat + 1) + 1 - 1 = p + (pos.toNat + 1) by omega, hdb]
        simpa using hd10
    · exact S2.pure ⟨rfl, _, by omega, h6⟩
  · simp only [if_neg hc5]
    exact S2.pure ⟨rfl, _, Nat.le_add_right _ _, h5⟩

theorem blockquoteOpen_sim (src : Bytes) : OpenSim src .blockquote := by
  intro k ls p parent sA sB h
  show S2 _ (blockquoteOpen parent sA) (blockquoteOpen (parent + 1) sB)
  unfold blockquoteOpen
  refine S2.bind (blockquoteProcess_sim h) (fun a b sA1 sB1 hq => ?_)
  obtain ⟨hb, p1, hp1, h1⟩ := hq
  subst hb
  by_cases hc : b = true
  · simp only [if_pos hc]
    refine S2.bind (newNode_s2 h1 _ _ (nodeRel_new src { kind := .blockquote } rfl rfl rfl rfl (by decide)))
      (fun n m sA2 sB2 hq => ?_)
    obtain ⟨_, hm, hn0, h2⟩ := hq
    subst hm
    exact S2.pure ⟨⟨rfl, .inr ⟨n, hn0, rfl, rfl⟩⟩, p1, hp1, h2⟩
  · simp only [if_neg hc]
    exact S2.pure ⟨⟨rfl, .inl ⟨rfl, rfl⟩⟩, p1, hp1, h1⟩

theorem blockquoteContinue_sim (src : Bytes) : ContinueSim src .blockquote := by
  intro k ls p node sA sB h
  show S2 _ (blockquoteContinue node sA) (blockquoteContinue (node + 1) sB)
  unfold blockquoteContinue
  refine S2.bind (blockquoteProcess_sim h) (fun a b sA1 sB1 hq => ?_)
  obtain ⟨hb, p1, hp1, h1⟩ := hq
  subst hb
  by_cases hc : b = true
  · simp only [if_pos hc]
    exact S2.pure ⟨rfl, p1, hp1, h1⟩
  · simp only [if_neg hc]
    exact S2.pure ⟨rfl, p1, hp1, h1⟩

/-! ### atx_heading.go -/

theorem sliceB_ok_inv_la {l : Bytes} {a b : Int} {v : Bytes} (h : sliceB l a b = .ok v) :
    0 ≤ a ∧ a ≤ b ∧ b ≤ l.length ∧ v = sub l a.toNat b.toNat := by
  unfold sliceB at h
  split at h
  · next hc => cases h; exact ⟨hc.1, hc.2.1, hc.2.2, rfl⟩
  · cases h

/-- the tail of atxHeadingParser.Open: the heading's line `line[start:stop]`, when it is not empty after the
    closing sequence is taken away, is stored as a segment of line `k` -/
theorem atxTail_s2 {src k ls p} {sA sB : St} (h : SR src k ls p sA sB) (start stop : Int) (n : Nat) (hn0 : n ≠ 0) :
    S2 (fun a b sA' sB' => OpenRel a b ∧ ∃ p', p ≤ p' ∧ SR src k ls p' sA' sB')
      ((do
        let body ← liftE (slice ((viewA src ls p).getD []) start stop)
        if ((List.dropWhile (fun x => x == 35) (List.reverse body)).length != 0) = true then do
          appendLine n { start := (segA src ls p).start + start - (segA src ls p).padding,
                         stop := (segA src ls p).start + stop - (segA src ls p).padding }
          pure (some n, stNoChildren)
        else pure (some n, stNoChildren) : M (Option Nat × PState)) sA)
      ((do
        let body ← liftE (slice ((viewA src ls p).getD []) start stop)
        if ((List.dropWhile (fun x => x == 35) (List.reverse body)).length != 0) = true then do
          appendLine (n + 1) { start := (shK k (segA src ls p)).start + start - (shK k (segA src ls p)).padding,
                               stop := (shK k (segA src ls p)).start + stop - (shK k (segA src ls p)).padding }
          pure (some (n + 1), stNoChildren)
        else pure (some (n + 1), stNoChildren) : M (Option Nat × PState)) sB) := by
  refine S2.bind (P := fun a b sA' sB' => b = a ∧ slice ((viewA src ls p).getD []) start stop = .ok a ∧
      SR src k ls p sA' sB') (S2.liftE (fun a ha => ⟨a, ha, rfl, ha, h⟩)) (fun body0 body sA1 sB1 hq => ?_)
  obtain ⟨hbb, hsl, h1⟩ := hq
  subst hbb
  by_cases hc : ((List.dropWhile (fun x => x == 35) (List.reverse body)).length != 0) = true
  · rw [if_pos hc, if_pos hc]
    obtain ⟨h0, h01, h02, hv⟩ := sliceB_ok_inv_la hsl
    have hi := h.r.inl
    have hlen := viewA_length_la src ls p
    rw [hlen] at h02
    have hlt : start < stop := by
      by_cases h' : start < stop
      · exact h'
      · exfalso
        have : body = [] := by
          rw [hv]; unfold sub
          rw [show stop.toNat - start.toNat = 0 by omega]; simp
        rw [this] at hc; simp at hc
    have hge := hi.ge
    have hle := hi.le
    have hin : SegIn src k ls ⟨(segA src ls p).start + start - (segA src ls p).padding,
                               (segA src ls p).start + stop - (segA src ls p).padding, 0, false⟩ := by
      refine ⟨hi.line, ?_, ?_, ?_⟩ <;> simp only [segA] <;> omega
    have hseg := segRel_of_in hin (by simp only [segA]; omega)
    have e : (⟨(shK k (segA src ls p)).start + start - (shK k (segA src ls p)).padding,
               (shK k (segA src ls p)).start + stop - (shK k (segA src ls p)).padding, 0, false⟩ : Segment) =
        shK k ⟨(segA src ls p).start + start - (segA src ls p).padding,
               (segA src ls p).start + stop - (segA src ls p).padding, 0, false⟩ := by
      simp only [shK, segA, Segment.mk.injEq, and_true]
      omega
    rw [e]
    refine S2.bind (appendLine_s2 h1 n hseg (.inl (by simp only; omega))) (fun _ _ sA2 sB2 h2 => ?_)
    exact S2.pure ⟨⟨rfl, .inr ⟨n, hn0, rfl, rfl⟩⟩, p, Nat.le_refl _, h2⟩
  · rw [if_neg hc, if_neg hc]
    exact S2.pure ⟨⟨rfl, .inr ⟨n, hn0, rfl, rfl⟩⟩, p, Nat.le_refl _, h1⟩

theorem atxOpen_sim (src : Bytes) : OpenSim src .atx := by
  intro k ls p parent sA sB h
  show S2 _ (atxOpen parent sA) (atxOpen (parent + 1) sB)
  unfold atxOpen
  refine S2.bind (peekLine_s2 h) (fun a b sA1 sB1 hq => ?_)
  obtain ⟨ha, hb, h1⟩ := hq
  subst ha hb
  refine S2.bind (getPc_s2 h1) (fun ca cb sA2 sB2 hq => ?_)
  obtain ⟨_, _, hcr, hsa, hsb⟩ := hq
  subst hsa hsb
  simp only
  rw [hcr.blockOffset]
  generalize ca.blockOffset = pos
  by_cases hc1 : pos < 0
  · simp only [if_pos hc1]
    exact S2.pure ⟨⟨rfl, .inl ⟨rfl, rfl⟩⟩, p, Nat.le_refl _, h1⟩
  simp only [if_neg hc1]
  generalize scanWhileEq ((viewA src ls p).getD []) 35 pos = i
  by_cases hc2 : (i == pos || decide (i - pos > 6)) = true
  · simp only [if_pos hc2]
    exact S2.pure ⟨⟨rfl, .inl ⟨rfl, rfl⟩⟩, p, Nat.le_refl _, h1⟩
  simp only [if_neg hc2]
  by_cases hc3 : (i == ↑(List.length ((viewA src ls p).getD []))) = true
  · simp only [if_pos hc3]
    refine S2.bind (newNode_s2 h1 _ _ (nodeRel_new src { kind := .heading, level := i - pos } rfl rfl rfl rfl (by show (-1 : Int) < 0; decide)))
      (fun n m sA3 sB3 hq => ?_)
    obtain ⟨_, hm, hn0, h3⟩ := hq
    subst hm
    exact S2.pure ⟨⟨rfl, .inr ⟨n, hn0, rfl, rfl⟩⟩, p, Nat.le_refl _, h3⟩
  simp only [if_neg hc3]
  refine S2.bind (P := fun a b sA' sB' => b = a ∧ SR src k ls p sA' sB')
    (S2.liftE (fun a ha => ⟨a, ha, rfl, h1⟩)) (fun rest0 rest sA3 sB3 hq => ?_)
  obtain ⟨hrr, h3⟩ := hq
  subst hrr
  generalize trimLeftSpaceLength rest = l
  by_cases hc4 : ((l : Int) == 0) = true
  · simp only [if_pos hc4]
    exact S2.pure ⟨⟨rfl, .inl ⟨rfl, rfl⟩⟩, p, Nat.le_refl _, h3⟩
  simp only [if_neg hc4]
  refine S2.bind (newNode_s2 h3 _ _ (nodeRel_new src { kind := .heading, level := i - pos } rfl rfl rfl rfl (by show (-1 : Int) < 0; decide)))
    (fun n m sA4 sB4 hq => ?_)
  obtain ⟨_, hm, hn0, h4⟩ := hq
  subst hm
  generalize (if i + ↑l ≥ ↑(List.length ((viewA src ls p).getD [])) then ↑(List.length ((viewA src ls p).getD [])) - 1
    else i + ↑l : Int) = start
  generalize (↑(List.length ((viewA src ls p).getD [])) - ↑(trimRightSpaceLength ((viewA src ls p).getD [])) : Int) = stop0
  by_cases hc5 : stop0 ≤ start
  · simp only [if_pos hc5, pure_bind]
    exact atxTail_s2 h4 start start n hn0
  simp only [if_neg hc5]
  refine S2.bind (P := fun a b sA' sB' => b = a ∧ SR src k ls p sA' sB')
    (S2.liftE (fun a ha => ⟨a, ha, rfl, h4⟩)) (fun j0 j sA5 sB5 hq => ?_)
  obtain ⟨hjj, h5⟩ := hq
  subst hjj
  refine S2.bind (P := fun a b sA' sB' => b = a ∧ SR src k ls p sA' sB')
    (S2.liftE (fun a ha => ⟨a, ha, rfl, h5⟩)) (fun c0 c sA6 sB6 hq => ?_)
  obtain ⟨hcc, h6⟩ := hq
  subst hcc
  simp only [pure_bind]
  exact atxTail_s2 h6 start _ n hn0

end GM.Blocks
