/-
  GM.Proof.ConvertFNoPre — the outcome form of "no footnote monitor ever fires": for every byte string the parse phases of the
  composed model never answer `value pre`, and they answer `blocks pre` only when the block phase itself does (the two retry
  contract monitors of the block driver, the ones `convertCore` has). From `monitor_never_fires`, `blockPhaseF_clean`,
  `parseBlockX_linksBelow`.
-/
import GM.Proof.ConvertFFiled
import GM.Proof.ConvertFLinks

namespace GM.ConvertF
open GM GM.Text GM.Blocks GM.Convert

theorem ebind_err {α β} {x : Except Panic α} {k : α → Except Panic β} {e : Panic} (h : (x >>= k) = .error e) :
    x = .error e ∨ ∃ a, x = .ok a ∧ k a = .error e := by
  cases x with
  | error e' => left; simpa [bind, Except.bind] using h
  | ok a => right; exact ⟨a, rfl, h⟩

theorem value_noPre (t : Segment) (buf : Bytes) (e : Panic) (h : t.value buf = .error e) : e ≠ .pre := by
  unfold Segment.value sliceB at h
  intro he
  subst he
  repeat' split at h
  all_goals (simp [bind, Except.bind, pure, Except.pure, throw, throwThe, MonadExceptOf.throw] at h)
  all_goals (try (repeat' split at h))
  all_goals (try cases h)

theorem segValues_noPre (src : Bytes) : ∀ (l : List Segment) (e : Panic), segValues src l = .error e → e ≠ .pre
  | [], e, h => by simp [segValues, pure, Except.pure] at h
  | s :: rest, e, h => by
    unfold segValues at h
    rcases ebind_err h with h1 | ⟨v, _, h2⟩
    · exact value_noPre s src e h1
    · rcases ebind_err h2 with h3 | ⟨vs, _, h4⟩
      · exact segValues_noPre src rest e h3
      · cases h4

mutual
theorem inlineTreeF_noPre (n : Nat) (src : Bytes) : ∀ (x : GM.Inl.Node) (e : Panic), linksBelow n x = true →
    inlineTreeF true n src x = .error e → e ≠ .pre
  | .text seg _ _ _, e, _, h => by
    unfold inlineTreeF at h
    rcases ebind_err h with h1 | ⟨v, _, h2⟩
    · exact value_noPre seg src e h1
    · cases h2
  | .codeSpan kids, e, hl, h => by
    unfold inlineTreeF at h
    rcases ebind_err h with h1 | ⟨v, _, h2⟩
    · exact inlineTreesF_noPre n src kids e (by simpa [linksBelow] using hl) h1
    · cases h2
  | .emphasis lv kids, e, hl, h => by
    unfold inlineTreeF at h
    simp only [linksBelow, Bool.and_eq_true] at hl
    simp only [if_true] at h
    cases hp : fnLinkPos? lv with
    | some k =>
      rw [hp] at h hl
      simp only [decide_eq_true_eq] at hl
      simp only [hl.1, if_true] at h
      cases h
    | none =>
      rw [hp] at h
      simp only at h
      rcases ebind_err h with h1 | ⟨v, _, h2⟩
      · exact inlineTreesF_noPre n src kids e hl.2 h1
      · cases h2
  | .link _ _ _ kids, e, hl, h => by
    unfold inlineTreeF at h
    rcases ebind_err h with h1 | ⟨v, _, h2⟩
    · exact inlineTreesF_noPre n src kids e (by simpa [linksBelow] using hl) h1
    · cases h2
  | .autoLink _ seg, e, _, h => by
    unfold inlineTreeF at h
    rcases ebind_err h with h1 | ⟨v, _, h2⟩
    · exact value_noPre seg src e h1
    · cases h2
  | .rawHTML segs, e, _, h => by
    unfold inlineTreeF at h
    rcases ebind_err h with h1 | ⟨v, _, h2⟩
    · exact segValues_noPre src segs e h1
    · cases h2
  | .delim _ _, e, _, h => by simp [inlineTreeF, pure, Except.pure] at h
  | .label _ _ _, e, _, h => by simp [inlineTreeF, pure, Except.pure] at h
theorem inlineTreesF_noPre (n : Nat) (src : Bytes) : ∀ (l : List GM.Inl.Node) (e : Panic), linksBelowL n l = true →
    inlineTreesF true n src l = .error e → e ≠ .pre
  | [], e, _, h => by simp [inlineTreesF, pure, Except.pure] at h
  | x :: rest, e, hl, h => by
    unfold inlineTreesF at h
    simp only [linksBelowL, Bool.and_eq_true] at hl
    rcases ebind_err h with h1 | ⟨v, _, h2⟩
    · exact inlineTreeF_noPre n src x e hl.1 h1
    · rcases ebind_err h2 with h3 | ⟨vs, _, h4⟩
      · exact inlineTreesF_noPre n src rest e hl.2 h3
      · cases h4
end

theorem blockKind_noPre (src : Bytes) (n : Blocks.Node) (e : Panic) (h : blockKind src n = .error e) : e ≠ .pre := by
  unfold blockKind at h
  split at h
  all_goals (try (simp [pure, Except.pure] at h; done))
  · rcases ebind_err h with h1 | ⟨v, _, h2⟩
    · exact segValues_noPre src _ e h1
    · cases h2
  · dsimp only at h
    split at h
    · rename_i sg _
      rcases ebind_err h with h1 | ⟨v, _, h2⟩
      · exact value_noPre sg src e h1
      · rcases ebind_err h2 with h3 | ⟨info, _, h4⟩
        · cases h3
        · rcases ebind_err h4 with h5 | ⟨w, _, h6⟩
          · exact segValues_noPre src _ e h5
          · cases h6
    · rcases ebind_err h with h3 | ⟨info, _, h4⟩
      · cases h3
      · rcases ebind_err h4 with h5 | ⟨w, _, h6⟩
        · exact segValues_noPre src _ e h5
        · cases h6
  · dsimp only at h
    split at h
    · rcases ebind_err h with h1 | ⟨v, _, h2⟩
      · exact value_noPre _ src e h1
      · rcases ebind_err h2 with h3 | ⟨info, _, h4⟩
        · cases h3
        · rcases ebind_err h4 with h5 | ⟨w, _, h6⟩
          · exact segValues_noPre src _ e h5
          · cases h6
    · rcases ebind_err h with h3 | ⟨info, _, h4⟩
      · cases h3
      · rcases ebind_err h4 with h5 | ⟨w, _, h6⟩
        · exact segValues_noPre src _ e h5
        · cases h6

/-- the tag's own part of `FTree.clean` -/
def tagClean (tag : FTag) (n : Blocks.Node) : Bool :=
  match tag with
  | .stray => false
  | .alien => true
  | .list => n.lines.isEmpty
  | .footnote _ => n.lines.isEmpty
  | .plain => true

theorem clean_node (tag : FTag) (n : Blocks.Node) (cs : List FTree) :
    (FTree.node tag n cs).clean = (tagClean tag n && FTree.cleanL cs) := by
  cases tag <;> rfl

theorem blockKindF_noPre (tag : FTag) (src : Bytes) (n : Blocks.Node) (e : Panic) (hc : tagClean tag n = true)
    (h : blockKindF tag src n = .error e) : e ≠ .pre := by
  cases tag with
  | plain => exact blockKind_noPre src n e h
  | list => simp only [tagClean] at hc; simp [blockKindF, hc, pure, Except.pure] at h
  | footnote k => simp only [tagClean] at hc; simp [blockKindF, hc, pure, Except.pure] at h
  | stray => cases hc
  | alien =>
    simp only [blockKindF, throw, throwThe, MonadExceptOf.throw] at h
    cases h
    decide

theorem eebind_err {α β} {x : Except Err α} {k : α → Except Err β} {e : Err} (h : (x >>= k) = .error e) :
    x = .error e ∨ ∃ a, x = .ok a ∧ k a = .error e := by
  cases x with
  | error e' => left; simpa [bind, Except.bind] using h
  | ok a => right; exact ⟨a, rfl, h⟩

theorem liftErr_value_err {α} {x : Except Panic α} {e : Err} (h : liftErr Err.value x = .error e) :
    ∃ p, x = .error p ∧ e = .value p := by
  cases x with
  | ok a => cases h
  | error p => cases h; exact ⟨p, rfl, rfl⟩

theorem inlinePhaseF_links (guard : Bool) (refs : Option (List Bytes)) (env : GM.Inl.Env) (src : Bytes) (n : Blocks.Node)
    (kids : List GM.Inl.Node) (h : inlinePhaseF true guard refs env src n = .ok kids) :
    linksBelowL (refs.getD []).length kids = true := by
  unfold inlinePhaseF at h
  split at h
  · cases h; rfl
  · split at h
    · cases h; rfl
    · split at h
      · cases h
      · cases hp : GM.Inl.parseBlockX env (inlineTblF true refs) src n.lines with
        | error e => rw [hp] at h; cases h
        | ok ks =>
          rw [hp] at h
          have hk : ks = kids := by simpa [liftErr] using h
          subst hk
          exact GM.Inl.FLinks.parseBlockX_linksBelow env src refs n.lines ks hp

theorem inlinePhaseF_err (guard : Bool) (refs : Option (List Bytes)) (env : GM.Inl.Env) (src : Bytes) (n : Blocks.Node)
    (e : Err) (h : inlinePhaseF true guard refs env src n = .error e) : e ≠ .value .pre := by
  unfold inlinePhaseF at h
  split at h
  · cases h
  · split at h
    · cases h
    · split at h
      · cases h; intro h'; cases h'
      · cases hp : GM.Inl.parseBlockX env (inlineTblF true refs) src n.lines with
        | error e' => rw [hp] at h; cases h; intro h'; cases h'
        | ok ks => rw [hp] at h; cases h

mutual
/-- on a clean tagged tree the tree phase never answers `value pre` -/
theorem docTreeF_noPre (guard : Bool) (refs : Option (List Bytes)) (env : GM.Inl.Env) (src : Bytes) :
    ∀ (t : FTree) (e : Err), t.clean = true → docTreeF true guard refs env src t = .error e → e ≠ .value .pre
  | .node tag n cs, e, hc, h => by
    rw [clean_node, Bool.and_eq_true] at hc
    unfold docTreeF at h
    rcases eebind_err h with h1 | ⟨bs, _, h⟩
    · exact docTreesF_noPre guard refs env src cs e hc.2 h1
    · rcases eebind_err h with h1 | ⟨kids, hk, h⟩
      · exact inlinePhaseF_err guard refs env src n e h1
      · rcases eebind_err h with h1 | ⟨is, _, h⟩
        · obtain ⟨p, hp, rfl⟩ := liftErr_value_err h1
          intro hv
          cases hv
          exact inlineTreesF_noPre _ src kids _ (inlinePhaseF_links guard refs env src n kids hk) hp rfl
        · rcases eebind_err h with h1 | ⟨k, _, h⟩
          · obtain ⟨p, hp, rfl⟩ := liftErr_value_err h1
            intro hv
            cases hv
            exact blockKindF_noPre tag src n _ hc.1 hp rfl
          · cases h
theorem docTreesF_noPre (guard : Bool) (refs : Option (List Bytes)) (env : GM.Inl.Env) (src : Bytes) :
    ∀ (ts : List FTree) (e : Err), FTree.cleanL ts = true → docTreesF true guard refs env src ts = .error e → e ≠ .value .pre
  | [], e, _, h => by simp [docTreesF, pure, Except.pure] at h
  | t :: rest, e, hc, h => by
    simp only [FTree.cleanL, Bool.and_eq_true] at hc
    unfold docTreesF at h
    rcases eebind_err h with h1 | ⟨x, _, h⟩
    · exact docTreeF_noPre guard refs env src t e hc.1 h1
    · rcases eebind_err h with h1 | ⟨xs, _, h⟩
      · exact docTreesF_noPre guard refs env src rest e hc.2 h1
      · cases h
end

theorem inlinePhaseF_noBlocks (guard : Bool) (refs : Option (List Bytes)) (env : GM.Inl.Env) (src : Bytes) (n : Blocks.Node)
    (e : Err) (h : inlinePhaseF true guard refs env src n = .error e) (p : Panic) : e ≠ .blocks p := by
  unfold inlinePhaseF at h
  split at h
  · cases h
  · split at h
    · cases h
    · split at h
      · cases h; intro h'; cases h'
      · cases hp : GM.Inl.parseBlockX env (inlineTblF true refs) src n.lines with
        | error e' => rw [hp] at h; cases h; intro h'; cases h'
        | ok ks => rw [hp] at h; cases h

mutual
theorem docTreeF_noBlocks (guard : Bool) (refs : Option (List Bytes)) (env : GM.Inl.Env) (src : Bytes) :
    ∀ (t : FTree) (e : Err), docTreeF true guard refs env src t = .error e → ∀ p, e ≠ .blocks p
  | .node tag n cs, e, h, p => by
    unfold docTreeF at h
    rcases eebind_err h with h1 | ⟨bs, _, h⟩
    · exact docTreesF_noBlocks guard refs env src cs e h1 p
    · rcases eebind_err h with h1 | ⟨kids, hk, h⟩
      · exact inlinePhaseF_noBlocks guard refs env src n e h1 p
      · rcases eebind_err h with h1 | ⟨is, _, h⟩
        · obtain ⟨q, _, rfl⟩ := liftErr_value_err h1
          intro hv; cases hv
        · rcases eebind_err h with h1 | ⟨k, _, h⟩
          · obtain ⟨q, _, rfl⟩ := liftErr_value_err h1
            intro hv; cases hv
          · cases h
theorem docTreesF_noBlocks (guard : Bool) (refs : Option (List Bytes)) (env : GM.Inl.Env) (src : Bytes) :
    ∀ (ts : List FTree) (e : Err), docTreesF true guard refs env src ts = .error e → ∀ p, e ≠ .blocks p
  | [], e, h, _ => by simp [docTreesF, pure, Except.pure] at h
  | t :: rest, e, h, p => by
    unfold docTreesF at h
    rcases eebind_err h with h1 | ⟨x, _, h⟩
    · exact docTreeF_noBlocks guard refs env src t e h1 p
    · rcases eebind_err h with h1 | ⟨xs, _, h⟩
      · exact docTreesF_noBlocks guard refs env src rest e h1 p
      · cases h
end

/-- **the outcome form of "no footnote monitor fires"**: the parse phases never answer `value pre`, and they answer
    `blocks pre` only when the block phase itself does -/
theorem parsePhases_noMonitor (guard : Bool) (uc : List (Nat × (Bool × Bool))) (src : Bytes) (e : Err)
    (h : parsePhases true guard uc src = .error e) :
    e ≠ .value .pre ∧ (e = .blocks .pre → blockPhaseF true guard src = .error .pre) := by
  unfold parsePhases at h
  cases hb : blockPhaseF true guard src with
  | error p =>
    rw [hb] at h
    simp only [liftErr, bind, Except.bind] at h
    cases h
    exact ⟨(fun h' => by cases h'), (fun h' => by cases h'; rfl)⟩
  | ok r =>
    obtain ⟨f, st⟩ := r
    rw [hb] at h
    simp only [liftErr, bind, Except.bind] at h
    rw [monitor_never_fires true guard src f st hb] at h
    simp only [Bool.false_eq_true, if_false] at h
    have hcl := blockPhaseF_clean true guard src f st hb
    cases hd : docTreeF true guard (if f.list.isSome then some (labelsOf f st) else none)
        { refs := st.pc.refs, uc := uc } src (treeOfF f st.nodes st.nodes.length .body 0) with
    | ok t => rw [hd] at h; cases h
    | error e' =>
      rw [hd] at h
      cases h
      have hne := docTreeF_noPre guard _ _ src _ e hcl hd
      refine ⟨hne, fun h' => ?_⟩
      exfalso
      -- `docTreeF` never answers a `blocks` outcome
      exact docTreeF_noBlocks guard _ _ src _ _ hd _ h'

end GM.ConvertF
