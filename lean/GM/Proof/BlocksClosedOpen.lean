/-
  GM.Proof.BlocksClosedOpen — the close discipline through `openBlocks` (parser.go:928-1024).

  * `open_newClosed` — the node a successful `Open` appends is `Closed` (no line, or a line with padding 0) unless it is
                       the setext heading (whose temporary bar line is the reader's raw segment).
  * `OW src n0 tp s` — the walk invariant: `CInv` for the whole stack, every node created since the call (`≥ n0`) hangs
                       below `tp` (the parent `openBlocks` was called with) or below another new node, the context key
                       `temporaryParagraphKey` points to a node that existed before the call.
  * `tryTail_cl`, `tryParsers_cl`, `toContinuable_cl`, `openBlocksLoop_cl`, `openBlocks_cl`.
-/
import GM.Proof.BlocksClosedLinks

namespace GM.Blocks
open GM GM.Text GM.Spec GM.Proof.Reader
open GM.Proof.BlocksWF0 (isRaw)

/-- the node a successful `Open` appends carries no padded line, the setext heading excepted -/
theorem open_newClosed {src : Bytes} {s s' : St} {c : RCur} (bp : BP) (parent : Nat) {a : Option Nat × PState}
    (hctx : LineCtx src s c) (e : bpOpen bp parent s = .ok (a, s')) {n : Node} (hn : s'.nodes = s.nodes ++ [n])
    (hk : n.kind = bp.kind) (hbp : bp ≠ .setext) (hr : isRaw n.kind = false) : Closed n := by
  have nil : n.lines = [] → Closed n := fun h => by rw [Closed, h]; intro t ht; cases ht
  cases bp
  case setext => exact absurd rfl hbp
  case thematic =>
    have e' : thematicOpen parent s = .ok (a, s') := e
    obtain ⟨_, _, _, _, _, _, _, h1 | h1⟩ := (thematicOpen_okl hctx.ri parent).of_ok e'
    · exfalso; rw [h1.2.1] at hn; simp at hn
    · rw [h1.2] at hn
      have : n = { kind := .thematicBreak } := by simpa using hn.symm
      subst this
      exact nil rfl
  case list =>
    have e' : listOpen parent s = .ok (a, s') := e
    obtain ⟨_, _, _, _, _, _, _, _, _, hnone, hsome⟩ := (listOpen_okl_ri src parent s c hctx.ri).of_ok e'
    cases ha : a.1 with
    | none => exfalso; rw [(hnone ha).1] at hn; simp at hn
    | some id =>
      obtain ⟨_, _, _, _, ⟨m, hm, _, _, hl, _⟩, _⟩ := hsome id ha
      rw [hm] at hn
      have : n = m := by simpa using hn.symm
      subst this
      exact nil hl
  case listItem =>
    have e' : listItemOpen parent s = .ok (a, s') := e
    by_cases hkl : (nd s parent).kind = .list
    · obtain ⟨_, _, _, _, _, _, _, _, _, _, hnone, hsome⟩ :=
        (listItemOpen_okl src parent s c hctx (listItemOpen_kids e' hkl)).of_ok e'
      cases ha : a.1 with
      | none => exfalso; rw [hnone ha] at hn; simp at hn
      | some id =>
        obtain ⟨_, _, m, hm, _, _, hl, _⟩ := hsome id ha
        rw [hm] at hn
        have : n = m := by simpa using hn.symm
        subst this
        exact nil hl
    · exfalso
      rw [GM.Blocks.L.listItemOpen_notList parent s hkl] at e'
      cases e'
      simp at hn
  case code => rw [hk] at hr; cases hr
  case atx =>
    have e' : atxOpen parent s = .ok (a, s') := e
    obtain ⟨_, _, _, _, _, h1 | ⟨_, m, hm, _, _, hl⟩⟩ := (atxOpen_line hctx.ri parent).of_ok e'
    · exfalso; rw [h1.2] at hn; simp at hn
    · rw [hm] at hn
      have : n = m := by simpa using hn.symm
      subst this
      rcases hl with hl | ⟨t, hl, _, _, _, h4, _⟩
      · exact nil hl
      · rw [Closed, hl]; intro u hu; simp only [List.mem_singleton] at hu; rw [hu]; exact h4
  case fenced => rw [hk] at hr; cases hr
  case blockquote =>
    have e' : blockquoteOpen parent s = .ok (a, s') := e
    unfold blockquoteOpen at e'
    obtain ⟨b, s1, h1, k1⟩ := obind_ok e'
    obtain ⟨r1, c1, hs1, _⟩ := (blockquoteProcess_okl hctx.ri).of_ok h1
    subst s1
    split at k1
    · obtain ⟨id, s2, h2, k2⟩ := obind_ok k1
      obtain ⟨_, hs2⟩ := onewNode_ok h2
      subst s2
      obtain ⟨_, hs⟩ := opure_ok k2
      subst s'
      have : n = { kind := .blockquote } := by simpa using hn.symm
      subst this
      exact nil rfl
    · obtain ⟨_, hs⟩ := opure_ok k1
      subst s'
      exfalso; simp at hn
  case html => rw [hk] at hr; cases hr
  case paragraph =>
    have e' : paragraphOpen parent s = .ok (a, s') := e
    obtain ⟨_, _, _, _, _, _, _, h1 | ⟨_, m, seg, hm, _, hl, _, _, _, _, _, h5, _⟩⟩ :=
      (paragraphOpen_line hctx.ri parent).of_ok e'
    · exfalso; rw [h1.2.1] at hn; simp at hn
    · rw [hm] at hn
      have : n = m := by simpa using hn.symm
      subst this
      rw [Closed, hl]; intro u hu; simp only [List.mem_singleton] at hu; rw [hu]; exact h5

/-! ### transporting `CInv` -/

/-- a step that keeps lines, kinds, links of all nodes, the store length and the context -/
theorem CInv.same {src : Bytes} {s s' : St} {U : List Block} (h : CInv src s U) (hlk : LK s s')
    (hl : ∀ i, (nd s' i).parent = (nd s i).parent ∧ (nd s' i).children = (nd s i).children) : CInv src s' U := by
  obtain ⟨B, hB⟩ := h.inv
  refine ⟨⟨B, hB.lk hlk⟩, h.tree.of_links hl, fun i hr => ?_, fun g hg => by rw [(hl g.node).1]; exact h.att g hg,
    h.inj, fun g hg => by rw [hlk.pc]; exact h.sub g hg⟩
  rw [(hlk.same i).2.2] at hr
  rcases h.pad i hr with hc | hc
  · left; rw [Closed, (hlk.same i).1]; exact hc
  · exact .inr hc


/-! ### `CInv` with an exempt node (the heading between `Open` and the push) -/

/-- `CInv`, but the nodes in `X` need not be `Closed` -/
structure CInvX (X : Nat → Prop) (src : Bytes) (s : St) (U : List Block) : Prop where
  inv : ∃ B, Inv src B s
  tree : TreeOK s
  pad : ∀ i, isRaw (nd s i).kind = false → Closed (nd s i) ∨ (∃ b ∈ U, b.node = i ∧ PSb b) ∨ X i
  att : ∀ b ∈ U, (nd s b.node).parent.isSome = true
  inj : ∀ a ∈ U, ∀ b ∈ U, a.node = b.node → a = b
  sub : ∀ b ∈ U, b ∈ s.pc.opened

theorem CInv.toX {src : Bytes} {s : St} {U : List Block} (h : CInv src s U) (X : Nat → Prop) : CInvX X src s U :=
  ⟨h.inv, h.tree, fun i hr => by
    rcases h.pad i hr with hc | hc
    · exact .inl hc
    · exact .inr (.inl hc), h.att, h.inj, h.sub⟩

theorem CInvX.toCInv {X : Nat → Prop} {src : Bytes} {s : St} {U : List Block} (h : CInvX X src s U)
    (hx : ∀ i, X i → isRaw (nd s i).kind = false → Closed (nd s i) ∨ ∃ b ∈ U, b.node = i ∧ PSb b) : CInv src s U :=
  ⟨h.inv, h.tree, fun i hr => by
    rcases h.pad i hr with hc | hc | hc
    · exact .inl hc
    · exact .inr hc
    · exact hx i hc hr, h.att, h.inj, h.sub⟩

theorem CInvX.kinds {X : Nat → Prop} {src : Bytes} {s : St} {U : List Block} (h : CInvX X src s U) {b : Block}
    (hb : b ∈ U) : (nd s b.node).kind = b.bp.kind ∧ b.node < s.nodes.length := by
  obtain ⟨B, hB⟩ := h.inv
  exact hB.kinds b (h.sub b hb)

/-- membership in the open set, and what `Inv` looks at in the context, is all that matters -/
theorem CInvX.congr {X : Nat → Prop} {src : Bytes} {s : St} {U U' : List Block} (h : CInvX X src s U)
    (hm : ∀ b, b ∈ U' ↔ b ∈ U) : CInvX X src s U' :=
  ⟨h.inv, h.tree, fun i hr => by
      rcases h.pad i hr with hc | ⟨b, hb, hn, hp⟩ | hc
      · exact .inl hc
      · exact .inr (.inl ⟨b, (hm b).2 hb, hn, hp⟩)
      · exact .inr (.inr hc),
    fun b hb => h.att b ((hm b).1 hb),
    fun a ha b hb e => h.inj a ((hm a).1 ha) b ((hm b).1 hb) e, fun b hb => h.sub b ((hm b).1 hb)⟩

/-- the open set may lose a block whose node is `Closed` (or raw) -/
theorem CInvX.drop {X : Nat → Prop} {src : Bytes} {s : St} {b : Block} {U : List Block} (h : CInvX X src s (b :: U))
    (hc : isRaw (nd s b.node).kind = false → Closed (nd s b.node)) : CInvX X src s U := by
  refine ⟨h.inv, h.tree, fun i hr => ?_, fun g hg => h.att g (List.mem_cons_of_mem _ hg),
    fun a ha b' hb' e => h.inj a (List.mem_cons_of_mem _ ha) b' (List.mem_cons_of_mem _ hb') e,
    fun g hg => h.sub g (List.mem_cons_of_mem _ hg)⟩
  rcases h.pad i hr with hcl | ⟨b', hb', hn, hps'⟩ | hx
  · exact .inl hcl
  · rcases List.mem_cons.1 hb' with e | hm
    · subst e; subst hn; exact .inl (hc hr)
    · exact .inr (.inl ⟨b', hm, hn, hps'⟩)
  · exact .inr (.inr hx)

/-- a step that keeps lines, kinds, links of all nodes, the store length and the context -/
theorem CInvX.same {X : Nat → Prop} {src : Bytes} {s s' : St} {U : List Block} (h : CInvX X src s U) (hlk : LK s s')
    (hl : ∀ i, (nd s' i).parent = (nd s i).parent ∧ (nd s' i).children = (nd s i).children) : CInvX X src s' U := by
  obtain ⟨B, hB⟩ := h.inv
  refine ⟨⟨B, hB.lk hlk⟩, h.tree.of_links hl, fun i hr => ?_, fun g hg => by rw [(hl g.node).1]; exact h.att g hg,
    h.inj, fun g hg => by rw [hlk.pc]; exact h.sub g hg⟩
  rw [(hlk.same i).2.2] at hr
  rcases h.pad i hr with hc | hc
  · left; rw [Closed, (hlk.same i).1]; exact hc
  · exact .inr hc

/-- the node of the top block `b` gets the line list `ls` (padding 0 when not raw), nothing else changes -/
theorem CInvX.setLines {X : Nat → Prop} {src : Bytes} {s : St} {b : Block} {U : List Block} {ls : List Segment}
    (h : CInvX X src s (b :: U)) (B : Int)
    (hinv : Inv src B ({ s with nodes := s.nodes.set b.node { (nd s b.node) with lines := ls } } : St))
    (hcl : isRaw (nd s b.node).kind = false → ∀ t ∈ ls, t.padding = 0) :
    CInvX X src ({ s with nodes := s.nodes.set b.node { (nd s b.node) with lines := ls } } : St) U := by
  have hlt := (h.kinds (List.mem_cons_self ..)).2
  have hnd := setLines_nd s b.node ls
  have hlk := setLines_links s b.node ls
  have hkind : ∀ i, (nd ({ s with nodes := s.nodes.set b.node { (nd s b.node) with lines := ls } } : St) i).kind =
      (nd s i).kind := by
    intro i; rw [hnd]; split
    · next hc => rw [hc.1]
    · rfl
  refine ⟨⟨B, hinv⟩, h.tree.of_links hlk, fun i hr => ?_, fun g hg => ?_,
    fun a ha c hc e => h.inj a (List.mem_cons_of_mem _ ha) c (List.mem_cons_of_mem _ hc) e,
    fun g hg => h.sub g (List.mem_cons_of_mem _ hg)⟩
  · rw [hkind] at hr
    by_cases hi : b.node = i
    · subst hi
      left
      intro t ht
      rw [hnd, if_pos ⟨rfl, hlt⟩] at ht
      exact hcl hr t ht
    · rcases h.pad i hr with hc | ⟨b', hb', hn, hp⟩ | hx
      · left
        rw [Closed, hnd, if_neg (fun hh => hi hh.1)]; exact hc
      · rcases List.mem_cons.1 hb' with e | hm
        · subst e; exact absurd hn hi
        · exact .inr (.inl ⟨b', hm, hn, hp⟩)
      · exact .inr (.inr hx)
  · rw [(hlk g.node).1]; exact h.att g (List.mem_cons_of_mem _ hg)

end GM.Blocks
