/-
  GM.Proof.QuoteSimFEDefs — definitions for C08 with lists in sources WITH blank lines (groundwork; not yet wired into the
  whole-run theorems). In such sources the `HasBlankPreviousLines` flags of the two runs differ (original `true`, prefixed
  `false`) on children of the Document opened after a blank line and on the chain of first children opened in the same
  `openBlocks` call. Nobody reads those flags: `listParser.Close` and the dump read the flags of every child BUT THE FIRST
  of List / ListItem nodes. The store-level relation that is true in every reachable pair of states and suffices for the
  readers:  `FE nA nB` — equal flags on every child but the first of every node but the Document.

  How it is to be kept across a whole parser call (`Open` / `Continue` / `Close`, as a unit — inside `replaceChild` and
  `setextHeadingParser.Close` it is violated for a moment), from UNARY facts about the call in either run:
    * `BPn n n'`  : flags of the nodes that existed are unchanged, new nodes have the flag `false`;
    * `CHn n n'`  : below every node but the Document, a child that is not the first afterwards was not the first before, or is new.
  `fe_step` combines them.  Unary facts about the node an `Open` returns, until the driver appends it (`Unref`): nobody
  refers to it and it has no children; `RStore`: all ids in the store are in range.
-/
import GM.Proof.QuoteSimRel
import GM.Proof.QuoteSimFrame

namespace GM.Blocks
open GM GM.Text

/-- the flags of node `c` of A and node `c + 1` of B agree -/
def FlagEqAt (nA nB : List Node) (c : Nat) : Prop :=
  (nB.getD (c + 1) default).blankPrev = (nA.getD c default).blankPrev

/-- equal flags on every child but the first of every node but the Document -/
def FE (nA nB : List Node) : Prop :=
  ∀ q, q ≠ 0 → ∀ c ∈ (nA.getD q default).children.drop 1, FlagEqAt nA nB c

/-- flags of existing nodes unchanged, new nodes unflagged, the store only grows -/
def BPn (n n' : List Node) : Prop :=
  n.length ≤ n'.length ∧
    (∀ i, i < n.length → (n'.getD i default).blankPrev = (n.getD i default).blankPrev) ∧
    (∀ i, n.length ≤ i → (n'.getD i default).blankPrev = false)

def BPI (n0 : List Node) : St → Prop := fun s => BPn n0 s.nodes

/-- below every node but the Document: a child that is not the first afterwards was not the first before, or is new -/
def CHn (n n' : List Node) : Prop :=
  n.length ≤ n'.length ∧
    ∀ q, q ≠ 0 → ∀ c ∈ (n'.getD q default).children.drop 1, c ∈ (n.getD q default).children.drop 1 ∨ n.length ≤ c

def CHI (n0 : List Node) : St → Prop := fun s => CHn n0 s.nodes

/-- all ids stored in the nodes are in range -/
def RStore (nodes : List Node) : Prop :=
  ∀ n ∈ nodes, (∀ c ∈ n.children, c < nodes.length) ∧ (∀ p, n.parent = some p → p < nodes.length)

/-- nobody refers to node `id`, and it has no children -/
def Unref (id : Nat) (nodes : List Node) : Prop :=
  id < nodes.length ∧ (nodes.getD id default).children = [] ∧
    ∀ n ∈ nodes, n.parent ≠ some id ∧ id ∉ n.children

/-- node `q` has no children -/
def QE (q : Nat) : St → Prop := fun s => (s.nodes.getD q default).children = []

end GM.Blocks
