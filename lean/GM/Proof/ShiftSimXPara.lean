/-
  GM.Proof.ShiftSimXPara — the per-parser contracts of the shift simulation (`OpenSim` / `ContinueSim` / `CloseSim`)
  and the paragraph parser (parser/paragraph.go) as the first instance; every other per-parser file follows this
  pattern.
-/
import GM.Proof.ShiftSimXTree

namespace GM.Blocks.Xs
open GM GM.Text GM.Spec GM.Proof.Reader GM.Blocks

/-- the reader of run A stands on a line -/
def HasLine (b : Bytes) (s : St) : Prop := ∃ c, RI b s.r c ∧ c.p < b.length

/-- the source of run A is empty or ends with a line feed -/
def NL (b : Bytes) : Prop := b = [] ∨ b.getLast? = some 10

/-- `Open` from related states on a line: same answer (node id mapped), afterwards at least the limbo relation, and
    the full relation when the answer is nil (the next parser is tried) or HasChildren (`goto retry`); a list /
    list item that was opened leaves the flag `emptyListItemWithBlankLines` equal on both sides. -/
def OpenSim (F : Frame) (b : Bytes) (bp : BP) : Prop := ∀ parent sA sB, SR F b sA sB → HasLine b sA →
  P2 (fun x y sA' sB' => y = (x.1.map F.ι, x.2) ∧ SRLim F b sA' sB' ∧
      ((x.2.hasChildren = true ∨ x.1 = none) → SR F b sA' sB') ∧
      ((bp = .list ∨ bp = .listItem) → x.1.isSome = true → sB'.pc.emptyItemBlank = sA'.pc.emptyItemBlank))
    (bpOpen bp parent sA) (bpOpen bp (F.ι parent) sB)

/-- `Continue` from related states on a line: same answer, related states -/
def ContinueSim (F : Frame) (b : Bytes) (bp : BP) : Prop := ∀ node sA sB, SR F b sA sB → HasLine b sA → NL b →
  P2 (fun x y sA' sB' => y = x ∧ SR F b sA' sB') (bpContinue bp node sA) (bpContinue bp (F.ι node) sB)

/-- `Close` does not look at the reader (except for its source) -/
def CloseSim (F : Frame) (b : Bytes) (bp : BP) : Prop := ∀ node rA rB sA sB, SRL F b rA rB sA sB →
  P2 (fun _ _ sA' sB' => SRL F b rA rB sA' sB') (bpClose bp node sA) (bpClose bp (F.ι node) sB)

/-- facts about what `PeekLine` returned for the cursor `c` when a line is there -/
theorem view_some_facts {b : Bytes} {c : RCur} (hp : c.p < b.length) :
    ∃ l, RCur.view b c = some l ∧ (l.length : Int) = (RCur.seg b c).len ∧ 0 < l.length ∧
      (RCur.seg b c).start < (RCur.seg b c).stop ∧ 0 ≤ (RCur.seg b c).padding := by
  refine ⟨_, view_eq b c hp, view_len b c hp (view_eq b c hp), ?_, ?_, ?_⟩
  · have h1 := lt_lineEnd b hp
    have h2 := lineEnd_le b c.p
    simp [spaces, length_sub b h2]; omega
  · have h1 := lt_lineEnd b hp
    simp [RCur.seg]; omega
  · simp [RCur.seg]

theorem isBlank_nil : isBlank ([] : Bytes) = true := by decide

/-- `PeekLine` on a line, for the cursor `c` known in front: the cursor stays -/
theorem peekLine_p2c {F : Frame} {b : Bytes} {sA sB : St} (h : SR F b sA sB) {c : RCur} (hc : RI b sA.r c)
    (hp : c.p < b.length) :
    P2 (fun x y sA' sB' => RI b sA'.r c ∧ x = (RCur.view b c, RCur.seg b c) ∧ y = (x.1, moveSeg F.d x.2) ∧
        SR F b sA' sB') (peekLine sA) (peekLine sB) := by
  obtain ⟨r', h1, h2⟩ := ri_peekLine hc
  have hB : sB.r.peekLine = .ok ((RCur.view b c, moveSeg F.d (RCur.seg b c)), shR F r') := by
    rw [h.r, peekLine_sh F _ (RI.start_nonneg hc) (RI.peek_hq hc (.inr ⟨c, hc, hp⟩)), h1]; rfl
  unfold GM.Blocks.peekLine
  rw [h1, hB]
  exact P2.ok ⟨h2, rfl, rfl, h.withR h2⟩

/-- `LineOffset` for the cursor `c` known in front: the cursor stays -/
theorem lineOffset_p2c {F : Frame} {b : Bytes} {sA sB : St} (h : SR F b sA sB) {c : RCur} (hc : RI b sA.r c) :
    P2 (fun x y sA' sB' => y = x ∧ RI b sA'.r c ∧ SR F b sA' sB') (lineOffset sA) (lineOffset sB) := by
  obtain ⟨v, r', h1, h2, h3⟩ := ri_lineOffset hc
  have hB : sB.r.lineOffsetOp = .ok (v, shR F r') := by
    rw [h.r, lineOffsetOp_sh F _ hc.head (.inr (by have := hc.inRange; rw [hc.source, hc.pos]; simp only; omega)), h1]; rfl
  unfold GM.Blocks.lineOffset
  rw [h1, hB]
  exact P2.ok ⟨rfl, h2, h.withR h2⟩

/-! ### paragraph.go -/

/-- what `TrimLeftSpace` leaves of a segment -/
theorem trimLeftSpace_facts {src : Bytes} {t r : Segment} (h : t.trimLeftSpace src = .ok r) :
    t.start ≤ r.start ∧ r.stop = t.stop ∧ r.padding = 0 := by
  unfold Segment.trimLeftSpace at h
  cases hv : sliceB src t.start t.stop with
  | error e => rw [hv] at h; cases h
  | ok v =>
    rw [hv] at h
    simp only [bind, Except.bind, pure, Except.pure] at h
    cases h
    exact ⟨by simp only; omega, rfl, rfl⟩

theorem paragraphOpen_sim (F : Frame) (b : Bytes) (hq : QNL F b) : OpenSim F b .paragraph := by
  intro parent sA sB h hl
  show P2 _ (paragraphOpen parent sA) (paragraphOpen (F.ι parent) sB)
  unfold paragraphOpen
  refine P2.bind (peekLine_p2 h (.inr hl)) (fun x y sA1 sB1 ⟨⟨c, hc, hx⟩, hy, h1⟩ => ?_)
  subst hx hy
  refine P2.bind (source_p2 h1) (fun a a' sA2 sB2 ⟨ha, hb, e1, e2⟩ => ?_)
  subst e1 e2
  rw [ha, hb]
  refine P2.bind (P := fun s t sA' sB' => (t = moveSeg F.d s ∧ (RCur.seg b c).trimLeftSpace b = .ok s) ∧
      sA2 = sA' ∧ sB2 = sB')
    (P2.liftE (fun s t e1 e2 => ?_)) (fun s t sA3 sB3 ⟨⟨ht, htr⟩, e1, e2⟩ => ?_)
  · have := trimLeftSpace_sh F _ e1
    simp only at this e2
    rw [this] at e2; cases e2; exact ⟨⟨rfl, e1⟩, rfl, rfl⟩
  subst ht e1 e2
  rw [moveSeg_isEmpty]
  by_cases hemp : s.isEmpty = true
  · rw [if_pos hemp, if_pos hemp]
    exact P2.pure ⟨rfl, h1.limbo hq, fun _ => h1, fun hh => by cases hh <;> contradiction⟩
  · rw [if_neg hemp, if_neg hemp]
    refine P2.bind (newNode_l h1.l _ _ (by simp [shN, shClosure])) (fun n m sA4 sB4 ⟨_, hm, _, h4l⟩ => ?_)
    subst hm
    refine P2.bind (appendLine_l h4l n rfl) (fun _ _ sA5 sB5 h5l => ?_)
    have h5 := h5l.sr h1
    rw [moveSeg_len]
    have hr : sA5.r.pos.start < sA5.r.pos.stop ∧
        sA5.r.pos.start + (s.len - 1) < sA5.r.pos.stop + sA5.r.pos.padding := by
      obtain ⟨f1, f2, f3⟩ := trimLeftSpace_facts htr
      have f4 : s.start < s.stop := by
        simp only [Segment.isEmpty, f3] at hemp
        simp at hemp
        omega
      rw [h5l.ra, hc.pos]
      simp only [RCur.seg, Segment.len] at f1 f2 ⊢
      omega
    refine P2.bind (advance_limbo h5 _ hq (.inr (.inr hr))) (fun _ _ sA6 sB6 h6 => ?_)
    exact P2.pure ⟨rfl, h6, fun hh => by rcases hh with hh | hh <;> simp [stNoChildren] at hh,
      fun hh => by cases hh <;> contradiction⟩

theorem paragraphContinue_sim (F : Frame) (b : Bytes) : ContinueSim F b .paragraph := by
  intro node sA sB h hl _
  show P2 _ (paragraphContinue node sA) (paragraphContinue (F.ι node) sB)
  unfold paragraphContinue
  refine P2.bind (peekLine_p2 h (.inr hl)) (fun x y sA1 sB1 ⟨⟨c, hc, hx⟩, hy, h1⟩ => ?_)
  subst hx hy
  simp only
  by_cases hb : isBlank ((RCur.view b c).getD []) = true
  · rw [if_pos hb, if_pos hb]; exact P2.pure ⟨rfl, h1⟩
  · rw [if_neg hb, if_neg hb]
    refine P2.bind (appendLine_l h1.l node rfl) (fun _ _ sA2 sB2 h2l => ?_)
    have h2 := h2l.sr h1
    have hp : c.p < b.length := by
      apply Decidable.byContradiction
      intro hp
      rw [view_none b c hp] at hb
      exact hb isBlank_nil
    have hle := lt_lineEnd b hp
    have hn : 0 ≤ (RCur.seg b c).len - 1 := by
      simp only [RCur.seg, Segment.len]; omega
    have hr : sA2.r.pos.start < sA2.r.pos.stop ∧
        sA2.r.pos.start + ((RCur.seg b c).len - 1) < sA2.r.pos.stop + sA2.r.pos.padding := by
      rw [h2l.ra, hc.pos]
      simp only [RCur.seg, Segment.len]; omega
    refine P2.bind (advance_p2 h2 (by rw [moveSeg_len]) hn (.inr hr)) (fun _ _ sA3 sB3 h3 => ?_)
    exact P2.pure ⟨rfl, h3⟩

theorem paragraphClose_sim (F : Frame) (hF : F.OK) (b : Bytes) : CloseSim F b .paragraph := by
  intro node rA rB sA sB h
  show P2 _ (paragraphClose node sA) (paragraphClose (F.ι node) sB)
  unfold paragraphClose
  refine P2.bind (getNode_l h node) (fun n m sA1 sB1 ⟨hn, hm, e1, e2⟩ => ?_)
  subst e1 e2 hm
  refine P2.bind (source_l h) (fun a a' sA2 sB2 ⟨ha, hb, e1, e2⟩ => ?_)
  subst e1 e2
  rw [ha, hb]
  rw [shN_lines, List.length_map]
  have tail : ∀ sA3 sB3, SRL F b rA rB sA3 sB3 → P2 (fun _ _ sA' sB' => SRL F b rA rB sA' sB')
      ((do let n ← getNode node
           if (n.lines.length == 0) = true then
             match n.parent with
             | none => throw Panic.nil
             | some p => removeChild p node
           else pure ()) sA3)
      ((do let n ← getNode (F.ι node)
           if (n.lines.length == 0) = true then
             match n.parent with
             | none => throw Panic.nil
             | some p => removeChild p (F.ι node)
           else pure ()) sB3) := by
    intro sA3 sB3 h3
    refine P2.bind (getNode_l h3 node) (fun n2 m2 sA4 sB4 ⟨hn2, hm2, e1, e2⟩ => ?_)
    subst e1 e2 hm2
    rw [shN_lines, List.length_map, shN_parent]
    by_cases hl : (n2.lines.length == 0) = true
    · rw [if_pos hl, if_pos hl]
      cases n2.parent with
      | none => exact P2.throwL
      | some p => exact removeChild_l hF h3 p node
    · rw [if_neg hl, if_neg hl]; exact P2.pure h3
  by_cases hl : (n.lines.length != 0) = true
  · rw [if_pos hl, if_pos hl]
    refine P2.bind (P := fun s t sA' sB' => t = s.map (moveSeg F.d) ∧ sA2 = sA' ∧ sB2 = sB')
      (P2.liftE (fun s t e1 e2 => ?_)) (fun s t sA3 sB3 ⟨ht, e1, e2⟩ => ?_)
    · rw [trimLeftAll_sh F _ e1] at e2; cases e2; exact ⟨rfl, rfl, rfl⟩
    subst ht e1 e2
    rw [List.length_map]
    refine P2.bind (P := fun s t sA' sB' => t = moveSeg F.d s ∧ sA2 = sA' ∧ sB2 = sB')
      (P2.liftE (fun s t e1 e2 => ?_)) (fun l1 l1' sA3 sB3 ⟨ht, e1, e2⟩ => ?_)
    · rw [lineAt_sh F.d e1] at e2; cases e2; exact ⟨rfl, rfl, rfl⟩
    subst ht e1 e2
    refine P2.bind (P := fun s t sA' sB' => t = moveSeg F.d s ∧ sA2 = sA' ∧ sB2 = sB')
      (P2.liftE (fun s t e1 e2 => ?_)) (fun l2 l2' sA3 sB3 ⟨ht, e1, e2⟩ => ?_)
    · rw [trimRightSpace_sh F _ e1] at e2; cases e2; exact ⟨rfl, rfl, rfl⟩
    subst ht e1 e2
    refine P2.bind (P := fun s t sA' sB' => t = s.map (moveSeg F.d) ∧ sA2 = sA' ∧ sB2 = sB')
      (P2.liftE (fun s t e1 e2 => ?_)) (fun ls ls' sA3 sB3 ⟨ht, e1, e2⟩ => ?_)
    · rw [lineSet_sh F.d e1] at e2; cases e2; exact ⟨rfl, rfl, rfl⟩
    subst ht e1 e2
    refine P2.bind (modNode_l h node (fun n => { n with lines := ls }) (fun n => { n with lines := ls.map (moveSeg F.d) }) (fun a => by simp [shN]) (fun _ => rfl)) (fun _ _ sA3 sB3 h3 => ?_)
    exact tail sA3 sB3 h3
  · rw [if_neg hl, if_neg hl]; exact tail _ _ h

end GM.Blocks.Xs
