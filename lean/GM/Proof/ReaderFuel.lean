/-
  GM.Proof.ReaderFuel — the helpers (SkipBlankLines, SkipSpaces, ReadRune, FindClosure) are defined on every
  source-reader cursor inside the source: the fuel `loopFuel src` suffices and every interface call they make is
  inside the preconditions (`fuel_suffices` for the source reader).
-/
import GM.Proof.Reader

namespace GM.Proof.Reader
open GM GM.Text GM.Spec

theorem adv1_cases (src : Bytes) (c : RCur) :
    (RCur.adv1 src c = c ∧ ¬ c.p < src.length) ∨
    (c.p < src.length ∧ c.pad ≠ 0 ∧ RCur.adv1 src c = { c with pad := c.pad - 1 }) ∨
    (c.p < src.length ∧ c.pad = 0 ∧ ∃ ln', RCur.adv1 src c = { c with p := c.p + 1, ln := ln' }) := by
  by_cases hp : c.p < src.length
  · by_cases hz : c.pad = 0
    · exact Or.inr (Or.inr ⟨hp, hz, _, by simp [RCur.adv1, hp, hz]; rfl⟩)
    · exact Or.inr (Or.inl ⟨hp, hz, by simp [RCur.adv1, hp, hz]⟩)
  · exact Or.inl ⟨by simp [RCur.adv1, hp], hp⟩

theorem advN_mono (src : Bytes) (n : Nat) : ∀ (c : RCur), c.p ≤ src.length →
    c.p ≤ (RCur.advN src n c).p ∧ (RCur.advN src n c).p ≤ src.length := by
  induction n with
  | zero => intro c h; exact ⟨Nat.le_refl _, h⟩
  | succ n ih =>
    intro c h
    simp only [RCur.advN]
    rcases adv1_cases src c with ⟨e, _⟩ | ⟨_, _, e⟩ | ⟨hp, _, ln', e⟩
    · rw [e]; exact ih c h
    · rw [e]; exact ih { c with pad := c.pad - 1 } h
    · rw [e]
      have := ih { c with p := c.p + 1, ln := ln' } (by simp; omega)
      simp only at this
      exact ⟨by omega, this.2⟩

theorem advN_progress (src : Bytes) (n : Nat) : ∀ (c : RCur), c.p < src.length → c.pad + 1 ≤ n →
    c.p < (RCur.advN src n c).p := by
  induction n with
  | zero => intro c _ h; omega
  | succ n ih =>
    intro c hp hn
    simp only [RCur.advN]
    rcases adv1_cases src c with ⟨_, h'⟩ | ⟨_, hz, e⟩ | ⟨_, _, ln', e⟩
    · exact absurd hp h'
    · rw [e]
      exact ih { c with pad := c.pad - 1 } hp (by simp; omega)
    · rw [e]
      have := (advN_mono src n { c with p := c.p + 1, ln := ln' } (by simp; omega)).1
      simp only at this
      omega

/-- a line of the cursor: never empty -/
theorem view_length (src : Bytes) (c : RCur) (hp : c.p < src.length) {l : Bytes} (h : RCur.view src c = some l) :
    c.pad + 1 ≤ l.length := by
  simp only [RCur.view, hp, if_true, Option.some.injEq] at h
  subst h
  have := lt_lineEnd src hp
  simp [spaces, length_sub src (lineEnd_le src c.p)]
  omega

theorem view_some_lt (src : Bytes) (c : RCur) {l : Bytes} (h : RCur.view src c = some l) : c.p < src.length := by
  rcases Nat.lt_or_ge c.p src.length with h' | h'
  · exact h'
  · simp [RCur.view, Nat.not_lt.mpr h'] at h

theorem rcur_advance_ok (src : Bytes) (n : Nat) (c : RCur) :
    RCur.advance src (n : Int) c = .ok (RCur.advN src n c) := by
  simp [RCur.advance]

/-- SkipBlankLines on the cursor: defined whenever the fuel exceeds what is left of the source -/
theorem rcur_skipBlankLines_ok (src : Bytes) (fuel : Nat) : ∀ (lines : Int) (c : RCur), c.p ≤ src.length →
    src.length - c.p < fuel → ∃ x, skipBlankLines (RCur.ops src) fuel lines c = .ok x := by
  induction fuel with
  | zero => intro _ c _ h; omega
  | succ fuel ih =>
    intro lines c hc hf
    simp only [skipBlankLines, RCur.ops, RCur.peekLine, bind, Except.bind]
    cases hv : RCur.view src c with
    | none => exact ⟨_, rfl⟩
    | some l =>
      simp only
      by_cases hb : isBlank l = true
      · simp only [hb, if_true]
        have hp := view_some_lt src c hv
        have h1 := lt_lineEnd src hp
        have h2 := lineEnd_le src c.p
        exact ih (lines + 1) (RCur.advanceLine src c) (by simp [RCur.advanceLine]; omega)
          (by simp [RCur.advanceLine]; omega)
      · simp only [hb]
        exact ⟨_, rfl⟩

/-- the inner loop of SkipSpaces is defined, and if it runs through the whole line the cursor has advanced by it -/
theorem rcur_skipSpacesLine_ok (src : Bytes) (seg : Segment) (l : Bytes) : ∀ (i chars : Int) (c : RCur),
    ∃ res ch c', skipSpacesLine (RCur.ops src) seg l i chars c = .ok (res, ch, c') ∧
      (res = none → c' = RCur.advN src l.length c) := by
  induction l with
  | nil => intro i chars c; exact ⟨none, chars, c, rfl, fun _ => rfl⟩
  | cons b bs ih =>
    intro i chars c
    simp only [skipSpacesLine]
    by_cases hb : isSpace b = true
    · simp only [hb, if_true]
      have : (RCur.ops src).advance 1 c = .ok (RCur.advN src 1 c) := rcur_advance_ok src 1 c
      rw [this]
      simp only [bind, Except.bind]
      obtain ⟨res, ch, c', h1, h2⟩ := ih (i + 1) (chars + 1) (RCur.advN src 1 c)
      refine ⟨res, ch, c', h1, ?_⟩
      intro hn
      rw [h2 hn]
      simp [RCur.advN]
    · simp only [hb, Bool.false_eq_true, if_false]
      exact ⟨_, _, _, rfl, fun h => by simp at h⟩

theorem rcur_skipSpaces_ok (src : Bytes) (fuel : Nat) : ∀ (chars : Int) (c : RCur), c.p ≤ src.length →
    src.length - c.p < fuel → ∃ x, skipSpaces (RCur.ops src) fuel chars c = .ok x := by
  induction fuel with
  | zero => intro _ c _ h; omega
  | succ fuel ih =>
    intro chars c hc hf
    simp only [skipSpaces]
    have hpl : (RCur.ops src).peekLine c = .ok ((RCur.view src c, RCur.seg src c), c) := rfl
    rw [hpl]
    simp only [bind, Except.bind]
    cases hv : RCur.view src c with
    | none => exact ⟨_, rfl⟩
    | some l =>
      simp only
      obtain ⟨res, ch, c', h1, h2⟩ := rcur_skipSpacesLine_ok src (RCur.seg src c) l 0 chars c
      rw [h1]
      cases res with
      | some v => exact ⟨_, rfl⟩
      | none =>
        simp only
        have hp := view_some_lt src c hv
        have hl := view_length src c hp hv
        have e := h2 rfl
        have h3 := advN_progress src l.length c hp hl
        have h4 := (advN_mono src l.length c hc).2
        rw [← e] at h3 h4
        exact ih ch c' h4 (by omega)

theorem rcur_readRune_ok (src : Bytes) (c : RCur) : ∃ x, readRune (RCur.ops src) c = .ok x := by
  simp only [readRune]
  have hpl : (RCur.ops src).peekLine c = .ok ((RCur.view src c, RCur.seg src c), c) := rfl
  rw [hpl]
  simp only [bind, Except.bind]
  cases RCur.view src c with
  | none => exact ⟨_, rfl⟩
  | some l =>
    simp only
    by_cases hb : ((decodeRune l).1 == runeError) = true
    · simp only [hb, if_true]; exact ⟨_, rfl⟩
    · simp only [hb, Bool.false_eq_true, if_false]
      have : (RCur.ops src).advance ((decodeRune l).2 : Int) c = .ok (RCur.advN src (decodeRune l).2 c) :=
        rcur_advance_ok src _ c
      rw [this]
      exact ⟨_, rfl⟩

theorem rcur_findClosureLoop_ok (src : Bytes) (opener closer : UInt8) (opts : FindClosureOptions) (fuel : Nat) :
    ∀ (opened cso : Nat) (ret : Option (List Segment)) (c : RCur), c.p ≤ src.length → src.length - c.p < fuel →
    ∃ x c', findClosureLoop (RCur.ops src) opener closer opts fuel opened cso ret c = .ok (x, c') ∧
      c'.p ≤ src.length := by
  induction fuel with
  | zero => intro _ _ _ c _ h; omega
  | succ fuel ih =>
    intro opened cso ret c hc hf
    simp only [findClosureLoop]
    have hpl : (RCur.ops src).peekLine c = .ok ((RCur.view src c, RCur.seg src c), c) := rfl
    rw [hpl]
    simp only [bind, Except.bind]
    cases hv : RCur.view src c with
    | none => exact ⟨_, _, rfl, hc⟩
    | some bs =>
      simp only
      cases scanLine opener closer opts.codeSpan opts.nesting bs 0 opened cso with
      | found i =>
        simp only
        have : (RCur.ops src).advance ((i : Int) + 1) c = .ok (RCur.advN src (i + 1) c) := by
          show RCur.advance src ((i : Int) + 1) c = _
          have := rcur_advance_ok src (i + 1) c
          simpa using this
        rw [this]
        exact ⟨_, _, rfl, (advN_mono src (i + 1) c hc).2⟩
      | stop => exact ⟨_, _, rfl, hc⟩
      | eol o2 c2 =>
        simp only
        by_cases hn : (!opts.newline) = true
        · simp only [hn, if_true]; exact ⟨_, _, rfl, hc⟩
        · simp only [hn, Bool.false_eq_true, if_false]
          have hal : (RCur.ops src).advanceLine c = .ok (RCur.advanceLine src c) := rfl
          rw [hal]
          simp only
          have hp := view_some_lt src c hv
          have h1 := lt_lineEnd src hp
          have h2 := lineEnd_le src c.p
          exact ih o2 c2 _ (RCur.advanceLine src c) (by simp [RCur.advanceLine]; omega)
            (by simp [RCur.advanceLine]; omega)

theorem rcur_findClosure_ok (src : Bytes) (fuel : Nat) (opener closer : UInt8) (opts : FindClosureOptions)
    (c : RCur) (hc : c.p ≤ src.length) (hf : src.length - c.p < fuel) :
    ∃ x, findClosure (RCur.ops src) fuel opener closer opts c = .ok x := by
  unfold findClosure
  simp only
  obtain ⟨x, c1, h1, _⟩ := rcur_findClosureLoop_ok src opener closer opts fuel 1 0 none c hc hf
  rw [h1]
  simp only [bind, Except.bind]
  by_cases ha : (!opts.advance) = true
  · simp only [ha, if_true]
    have : (RCur.ops src).setPosition ((RCur.ops src).position c).1 ((RCur.ops src).position c).2 c1 = .ok c :=
      rcur_setPosition_seg src c c1 hc
    rw [this]
    simp only
    split <;> exact ⟨_, rfl⟩
  · simp only [ha, Bool.false_eq_true, if_false, pure, Except.pure]
    split <;> exact ⟨_, rfl⟩

theorem loopFuel_gt (src : Bytes) (p : Nat) : src.length - p < loopFuel src := by
  unfold loopFuel; omega

/-- fuel_suffices, source reader: from every cursor inside the source, SkipSpaces / SkipBlankLines / ReadRune /
    FindClosure are defined (no `loop`, no `pre`) -/
theorem rcur_helpers_defined (src : Bytes) (c : RCur) (hc : c.p ≤ src.length) :
    (∃ x, RCur.step src c .skipSpaces = .ok x) ∧ (∃ x, RCur.step src c .skipBlankLines = .ok x) ∧
    (∃ x, RCur.step src c .readRune = .ok x) ∧
    (∀ o cl opts, ∃ x, RCur.step src c (.findClosure o cl opts) = .ok x) := by
  refine ⟨?_, ?_, ?_, ?_⟩
  · obtain ⟨x, h⟩ := rcur_skipSpaces_ok src (loopFuel src) 0 c hc (loopFuel_gt src c.p)
    exact ⟨_, by simp [RCur.step, h, bind, Except.bind, pure, Except.pure]; rfl⟩
  · obtain ⟨x, h⟩ := rcur_skipBlankLines_ok src (loopFuel src) 0 c hc (loopFuel_gt src c.p)
    exact ⟨_, by simp [RCur.step, h, bind, Except.bind, pure, Except.pure]; rfl⟩
  · obtain ⟨x, h⟩ := rcur_readRune_ok src c
    exact ⟨_, by simp [RCur.step, h, bind, Except.bind, pure, Except.pure]; rfl⟩
  · intro o cl opts
    obtain ⟨x, h⟩ := rcur_findClosure_ok src (loopFuel src) o cl opts c hc (loopFuel_gt src c.p)
    exact ⟨_, by simp [RCur.step, h, bind, Except.bind, pure, Except.pure]; rfl⟩

end GM.Proof.Reader
