/-
  GM.Proof.CMFragRender20 — the renderer half of the conformance proof for stage 20 (underscore emphasis):
  * `renderDoc_erich20`: the renderer model on Document[Paragraph[unrich nodes]…] writes every paragraph as `<p>` + its
    lines (`unrichLineHtml`) joined by a line feed + `</p>` and never panics, for lines that end with a text atom;
  * the bridge to the spec side: `unatomOfS`, `unrichLineHtml_unatomOfS20`, `unlineSrc_unatomOfS20`,
    `erichLine_unatomOfS20` (`UnRichLine` from `unlineOKS`, with the neighbour condition on source bytes:
    `nbPairs_unatomOfS20`), `atomsOfUn`, `renderDoc_expectedUn20` (the whole prescribed HTML `expectedUn`).
-/
import GM.Proof.CMFrag20Defs
import GM.Proof.CMFragRender11
import GM.Proof.CMFragSpec
namespace GM.Proof.CMFrag
open GM GM.Spec.CM GM.Spec.CMFrag

/-! ### the renderer on the nodes of a line -/

structure LineShape20 (l : List UnAtom) : Prop where
  last : ∃ init bs, l = init ++ [.txt bs]

theorem handled_emph20 (e : Exts) (level : Nat) : handled e (.emphasis level) = true := rfl

theorem renderNode_em20 (rc : RCfg) (hes : rc.core.escSpace = false) (hhw : rc.core.hardWraps = false)
    (hea : rc.core.ea = 0) (ph : Bool) (next : Option Node) (bs : Bytes) :
    renderNode rc ph next (.mk (.emphasis 1) none [.mk (.text bs false false false false) none []]) =
      strBytes "<em>" ++ GM.write false bs ++ strBytes "</em>" := by
  rw [renderNode]
  have h1 : strBytes "<em>" = [60] ++ strBytes "em" ++ [62] := by decide +kernel
  have h2 : strBytes "</em>" = strBytes "</" ++ strBytes "em" ++ [62] := by decide +kernel
  simp [enter, leave, handled_emph20, skipsChildren, renderAttrs, renderNodes, renderNode_text rc hes hhw hea, h1, h2]

theorem renderNode_strong20 (rc : RCfg) (hes : rc.core.escSpace = false) (hhw : rc.core.hardWraps = false)
    (hea : rc.core.ea = 0) (ph : Bool) (next : Option Node) (bs : Bytes) :
    renderNode rc ph next (.mk (.emphasis 2) none [.mk (.text bs false false false false) none []]) =
      strBytes "<strong>" ++ GM.write false bs ++ strBytes "</strong>" := by
  rw [renderNode]
  have h1 : strBytes "<strong>" = [60] ++ strBytes "strong" ++ [62] := by decide +kernel
  have h2 : strBytes "</strong>" = strBytes "</" ++ strBytes "strong" ++ [62] := by decide +kernel
  simp [enter, leave, handled_emph20, skipsChildren, renderAttrs, renderNodes, renderNode_text rc hes hhw hea, h1, h2]

theorem unatomNodes_txt_cons20 (soft : Bool) (b : Bytes) (rest : List UnAtom) (h : rest ≠ []) :
    unatomNodes soft (.txt b :: rest) = .mk (.text b false false false false) none [] :: unatomNodes soft rest := by
  cases rest with
  | nil => exact absurd rfl h
  | cons a rest => rfl

/-- the nodes of one line, followed by any other nodes -/
theorem renderNodes_eatoms20 (rc : RCfg) (hes : rc.core.escSpace = false) (hhw : rc.core.hardWraps = false)
    (hea : rc.core.ea = 0) (ph soft : Bool) (init : List UnAtom) (bs : Bytes) (tail : List Node) :
    renderNodes rc ph (unatomNodes soft (init ++ [.txt bs]) ++ tail) =
      unrichLineHtml (init ++ [.txt bs]) ++ (if soft then [10] else []) ++ renderNodes rc ph tail := by
  induction init with
  | nil =>
    simp only [List.nil_append, unatomNodes, List.cons_append, renderNodes, renderNode_text rc hes hhw hea,
      unrichLineHtml, List.flatMap_cons, List.flatMap_nil, unatomHtml, List.append_nil]
  | cons a init ih =>
    have ih' := ih
    cases a with
    | txt b =>
      rw [List.cons_append, unatomNodes_txt_cons20 soft b _ (by simp), List.cons_append, renderNodes,
        renderNode_text rc hes hhw hea, ih']
      simp [unrichLineHtml, unatomHtml]
    | em b =>
      rw [List.cons_append, unatomNodes, List.cons_append, renderNodes,
        renderNode_em20 rc hes hhw hea, ih']
      simp [unrichLineHtml, unatomHtml]
    | strong b =>
      rw [List.cons_append, unatomNodes, List.cons_append, renderNodes,
        renderNode_strong20 rc hes hhw hea, ih']
      simp [unrichLineHtml, unatomHtml]

theorem renderNodes_erich20 (rc : RCfg) (hes : rc.core.escSpace = false) (hhw : rc.core.hardWraps = false)
    (hea : rc.core.ea = 0) (ph : Bool) (ls : List (List UnAtom)) (hl : ∀ l ∈ ls, LineShape20 l) :
    renderNodes rc ph (unrichNodes ls) = GM.Proof.CMFrag.joinNl (ls.map unrichLineHtml) := by
  induction ls with
  | nil => simp [unrichNodes, renderNodes, GM.Proof.CMFrag.joinNl]
  | cons l rest ih =>
    obtain ⟨⟨init, bs, rfl⟩⟩ := hl l (by simp)
    cases rest with
    | nil =>
      have := renderNodes_eatoms20 rc hes hhw hea ph false init bs []
      simp only [List.append_nil] at this
      simp [unrichNodes, GM.Proof.CMFrag.joinNl, this, renderNodes]
    | cons l' rest =>
      rw [unrichNodes, renderNodes_eatoms20 rc hes hhw hea ph true init bs _,
        ih (fun x hx => hl x (by simp [hx]))]
      simp [GM.Proof.CMFrag.joinNl]

/-- a paragraph of rich lines as the renderer reads it -/
def erichPara20 (ls : List (List UnAtom)) : GM.Node := .mk .paragraph none (unrichNodes ls)

def erichParaHtml20 (ls : List (List UnAtom)) : Bytes :=
  strBytes "<p>" ++ GM.Proof.CMFrag.joinNl (ls.map unrichLineHtml) ++ strBytes "</p>\n"

theorem renderNode_erichPara20 (rc : RCfg) (hes : rc.core.escSpace = false) (hhw : rc.core.hardWraps = false)
    (hea : rc.core.ea = 0) (ph : Bool) (next : Option Node) (ls : List (List UnAtom))
    (hl : ∀ l ∈ ls, LineShape20 l) :
    renderNode rc ph next (erichPara20 ls) = erichParaHtml20 ls := by
  rw [erichPara20, renderNode]
  simp only [enter, leave, handled_para, skipsChildren, openTag, Kind.isTableHeader,
    renderNodes_erich20 rc hes hhw hea _ ls hl, erichParaHtml20]
  have h1 : strBytes "<p>" = [60] ++ strBytes "p" ++ [62] := by decide +kernel
  rw [h1]; simp

theorem renderNodes_erichParas20 (rc : RCfg) (hes : rc.core.escSpace = false) (hhw : rc.core.hardWraps = false)
    (hea : rc.core.ea = 0) (ph : Bool) (ps : List (List (List UnAtom))) (hl : ∀ ls ∈ ps, ∀ l ∈ ls, LineShape20 l) :
    renderNodes rc ph (ps.map erichPara20) = ps.flatMap erichParaHtml20 := by
  induction ps with
  | nil => simp [renderNodes]
  | cons p rest ih =>
    rw [List.map_cons, renderNodes, renderNode_erichPara20 rc hes hhw hea _ _ p (hl p (by simp)),
      ih (fun x hx => hl x (by simp [hx]))]
    simp

/-! ### no panic -/

theorem renderPanicsNodes_eatoms20 (rc : RCfg) (soft : Bool) (l : List UnAtom) (tail : List Node)
    (ht : renderPanicsNodes rc tail = none) :
    renderPanicsNodes rc (unatomNodes soft l ++ tail) = none := by
  induction l with
  | nil => simpa [unatomNodes] using ht
  | cons a rest ih =>
    cases a with
    | txt b =>
      cases rest with
      | nil => simp [unatomNodes, renderPanicsNodes, renderPanicsNode, nodePanic, ht]
      | cons a' rest' =>
        rw [unatomNodes_txt_cons20 soft b _ (by simp), List.cons_append, renderPanicsNodes, ih]
        simp [renderPanicsNode, nodePanic, renderPanicsNodes]
    | em b =>
      rw [unatomNodes, List.cons_append, renderPanicsNodes, ih]
      simp [renderPanicsNode, nodePanic, handled_emph20, skipsChildren, renderPanicsNodes]
    | strong b =>
      rw [unatomNodes, List.cons_append, renderPanicsNodes, ih]
      simp [renderPanicsNode, nodePanic, handled_emph20, skipsChildren, renderPanicsNodes]

theorem renderPanicsNodes_erich20 (rc : RCfg) (ls : List (List UnAtom)) :
    renderPanicsNodes rc (unrichNodes ls) = none := by
  induction ls with
  | nil => simp [unrichNodes, renderPanicsNodes]
  | cons l rest ih =>
    cases rest with
    | nil =>
      have := renderPanicsNodes_eatoms20 rc false l [] (by simp [renderPanicsNodes])
      simpa [unrichNodes] using this
    | cons l' rest =>
      rw [unrichNodes]
      exact renderPanicsNodes_eatoms20 rc true l _ ih

theorem renderPanicsNodes_erichParas20 (rc : RCfg) (ps : List (List (List UnAtom))) :
    renderPanicsNodes rc (ps.map erichPara20) = none := by
  induction ps with
  | nil => simp [renderPanicsNodes]
  | cons p rest ih =>
    rw [List.map_cons, renderPanicsNodes, ih]
    simp [erichPara20, renderPanicsNode, nodePanic, renderPanicsNodes_erich20]

/-! ### the document -/

theorem renderDoc_erich20_any (o : GM.Convert.ROpts) (ho : o.hardWraps = false) (ps : List (List (List UnAtom)))
    (hl : ∀ ls ∈ ps, ∀ l ∈ ls, LineShape20 l) :
    GM.Convert.renderDoc o (.mk .document none (ps.map fun ls => .mk .paragraph none (unrichNodes ls))) =
      .ok (ps.flatMap fun ls =>
        strBytes "<p>" ++ GM.Proof.CMFrag.joinNl (ls.map unrichLineHtml) ++ strBytes "</p>\n") := by
  have hp : renderPanics o.rcfg (.mk .document none (ps.map erichPara20)) = none := by
    simp [renderPanics, renderPanicsNode, nodePanic, renderPanicsNodes_erichParas20]
  have hr : render o.rcfg (.mk .document none (ps.map erichPara20)) = ps.flatMap erichParaHtml20 := by
    rw [render, renderNode]
    simp [enter, leave, handled_doc, skipsChildren, Kind.isTableHeader,
      renderNodes_erichParas20 o.rcfg (rcfg_escSpace o) (by rw [rcfg_hardWraps, ho]) (rcfg_ea o) _ ps hl]
  have e1 : (ps.map fun ls => GM.Node.mk .paragraph none (unrichNodes ls)) = ps.map erichPara20 := rfl
  rw [e1, GM.Convert.renderDoc, hp, hr]
  rfl

/-- the renderer on a document of paragraphs of rich lines with emphasis -/
theorem renderDoc_erich20 (ps : List (List (List UnAtom))) (hl : ∀ ls ∈ ps, ∀ l ∈ ls, LineShape20 l) :
    GM.Convert.renderDoc cmOpts (.mk .document none (ps.map fun ls => .mk .paragraph none (unrichNodes ls))) =
      .ok (ps.flatMap fun ls =>
        strBytes "<p>" ++ GM.Proof.CMFrag.joinNl (ls.map unrichLineHtml) ++ strBytes "</p>\n") :=
  renderDoc_erich20_any cmOpts rfl ps hl

theorem lineShape_of_erichLine20 (l : List UnAtom) (h : UnRichLine l) : LineShape20 l := by
  obtain ⟨init, bs, hl, _⟩ := h.last
  exact ⟨⟨init, bs, hl⟩⟩

theorem renderDoc_erichLines20 (ps : List (List (List UnAtom))) (hl : ∀ ls ∈ ps, ∀ l ∈ ls, UnRichLine l) :
    GM.Convert.renderDoc cmOpts (.mk .document none (ps.map fun ls => .mk .paragraph none (unrichNodes ls))) =
      .ok (ps.flatMap fun ls =>
        strBytes "<p>" ++ GM.Proof.CMFrag.joinNl (ls.map unrichLineHtml) ++ strBytes "</p>\n") :=
  renderDoc_erich20 ps (fun ls hls l hlm => lineShape_of_erichLine20 l (hl ls hls l hlm))

/-! ### the bridge to the spec side -/

/-- a spec-side atom as source bytes -/
def unatomOfS : UnAtomS → UnAtom
  | .txt cs => .txt (escSpell cs)
  | .em c => .em c
  | .strong c => .strong c

theorem unatomSrc_unatomOfS20 (a : UnAtomS) : unatomSrc (unatomOfS a) = spellUnAtom a := by
  cases a <;> rfl

theorem unlineSrc_unatomOfS20 (l : UnLine) : unlineSrc (l.map unatomOfS) = spellUnLine l := by
  simp only [unlineSrc, spellUnLine, List.flatMap_map]
  congr 1; funext a; exact unatomSrc_unatomOfS20 a

/-- what `unatomOKS` says, atom kind by atom kind -/
theorem unatomOKS_txt20 (cs : List TChar) (h : unatomOKS (.txt cs) = true) : cs ≠ [] ∧ ∀ t ∈ cs, charOK t = true := by
  simp only [unatomOKS, Bool.and_eq_true, Bool.not_eq_true', List.isEmpty_eq_false_iff, List.all_eq_true] at h
  exact h

theorem alnumOK20 (c : Bytes) (h : (!c.isEmpty && c.all isAlnumC) = true) : c ≠ [] ∧ ∀ x ∈ c, isAlnumC x = true := by
  simp only [Bool.and_eq_true, Bool.not_eq_true', List.isEmpty_eq_false_iff, List.all_eq_true] at h
  exact h

theorem spell_alnum_lit20 : ∀ c : UInt8, isAlnumC c = true → spellChar ⟨c, .lit⟩ = [c] ∧ printable c = true := by
  apply forall_uint8; decide +kernel

theorem escSpell_elits20 (c : Bytes) (h : ∀ x ∈ c, isAlnumC x = true) : escSpell (elits c) = c := by
  induction c with
  | nil => rfl
  | cons x rest ih =>
    have := ih (fun y hy => h y (by simp [hy]))
    simp only [escSpell, elits, List.map_cons, List.flatMap_cons] at this ⊢
    rw [this, (spell_alnum_lit20 x (h x (by simp))).1]
    rfl

theorem plain_elits20 (c : Bytes) : plain (elits c) = c := by
  induction c with
  | nil => rfl
  | cons x rest ih =>
    simp only [plain, elits, List.map_cons] at ih ⊢
    rw [ih]

/-- letters and digits are written as they are -/
theorem write_alnum20 (c : Bytes) (h : ∀ x ∈ c, isAlnumC x = true) : GM.write false c = escHtml c := by
  have hp : ∀ t ∈ elits c, printable t.c = true := by
    intro t ht
    simp only [elits, List.mem_map] at ht
    obtain ⟨x, hx, rfl⟩ := ht
    exact (spell_alnum_lit20 x (h x hx)).2
  have := write_spelled (elits c) hp
  rwa [escSpell_elits20 c h, plain_elits20] at this

theorem unatomHtml_unatomOfS20 (a : UnAtomS) (h : unatomOKS a = true) : unatomHtml (unatomOfS a) = expUnAtom a := by
  cases a with
  | txt cs =>
    exact write_spelled cs (fun t ht => charOK_printable t ((unatomOKS_txt20 cs h).2 t ht))
  | em c =>
    simp only [unatomOfS, unatomHtml, expUnAtom, write_alnum20 c (alnumOK20 c h).2]
  | strong c =>
    simp only [unatomOfS, unatomHtml, expUnAtom, write_alnum20 c (alnumOK20 c h).2]

theorem unrichLineHtml_unatomOfS20 (l : UnLine) (h : ∀ a ∈ l, unatomOKS a = true) :
    unrichLineHtml (l.map unatomOfS) = expUnLine l := by
  simp only [unrichLineHtml, expUnLine, List.flatMap_map]
  induction l with
  | nil => rfl
  | cons a rest ih =>
    simp only [List.flatMap_cons]
    rw [unatomHtml_unatomOfS20 a (h a (by simp)), ih (fun x hx => h x (by simp [hx]))]

theorem eatomOK_unatomOfS20 (a : UnAtomS) (h : unatomOKS a = true) : UnAtomOK (unatomOfS a) := by
  cases a with
  | txt cs =>
    obtain ⟨hne, hall⟩ := unatomOKS_txt20 cs h
    exact ⟨escSpell_ne_nil8 cs hne, fun i => quiet_escSpell cs hall i, escAfter_escSpell8 cs⟩
  | em c => exact alnumOK20 c h
  | strong c => exact alnumOK20 c h

theorem isTxt_unatomOfS20 (a : UnAtomS) : (unatomOfS a).isTxt = a.isTxt := by cases a <;> rfl

theorem unalternating_unatomOfS20 (l : UnLine) : unalternating (l.map unatomOfS) = unalternatingS l := by
  induction l with
  | nil => rfl
  | cons a rest ih =>
    cases rest with
    | nil => rfl
    | cons b rest =>
      simp only [List.map_cons, unalternating, unalternatingS, isTxt_unatomOfS20] at ih ⊢
      rw [ih]

/-! #### the neighbour condition -/

theorem spellChar_ne_nil20 (t : TChar) : spellChar t ≠ [] := by
  obtain ⟨c, e⟩ := t
  cases e <;> simp only [spellChar] <;> (try split) <;> (try split) <;> simp

/-- a printable byte that is not a letter or digit is white space or punctuation for the model -/
theorem nb_byte20 : ∀ c : UInt8, printable c = true → isAlnumC c = false → unNbOK c = true := by
  apply forall_uint8; decide +kernel

theorem getLast_append_ne20 (a b : Bytes) (hb : b ≠ []) : (a ++ b).getLast? = b.getLast? := by
  rw [List.getLast?_append]
  cases hg : b.getLast? with
  | none => exact absurd (List.getLast?_eq_none_iff.mp hg) hb
  | some z => rfl

theorem head_append_ne20 (a b : Bytes) (ha : a ≠ []) : (a ++ b).head? = a.head? := by
  cases a with
  | nil => exact absurd rfl ha
  | cons x xs => rfl

theorem getLast_escSpell20 (cinit : List TChar) (t : TChar) (c : UInt8)
    (h : (escSpell (cinit ++ [t])).getLast? = some c) : srcLast t = c := by
  have e : escSpell (cinit ++ [t]) = escSpell cinit ++ spellChar t := by simp [escSpell]
  rw [e, getLast_append_ne20 _ _ (spellChar_ne_nil20 t)] at h
  simp only [srcLast, List.getLastD_eq_getLast?, h, Option.getD_some]

theorem head_escSpell20 (t : TChar) (ts : List TChar) (c : UInt8)
    (h : (escSpell (t :: ts)).head? = some c) : srcFirst t = c := by
  have e : escSpell (t :: ts) = spellChar t ++ escSpell ts := by simp [escSpell]
  rw [e, head_append_ne20 _ _ (spellChar_ne_nil20 t)] at h
  simp only [srcFirst, List.headD_eq_head?_getD, h, Option.getD_some]

theorem mem_printable20 (cs : List TChar) (hc : ∀ t ∈ cs, charOK t = true) (c : UInt8) (h : c ∈ escSpell cs) :
    printable c = true :=
  List.all_eq_true.mp (escSpell_printable cs (fun t ht => charOK_printable t (hc t ht))) c h

/-- text in front of an emphasis atom: its last byte -/
def NbL20 (p q : UnAtom) : Prop := ∀ a, p = .txt a → q.isTxt = false → ∀ c, a.getLast? = some c → unNbOK c = true
/-- text behind an emphasis atom: its first byte -/
def NbR20 (p q : UnAtom) : Prop := ∀ b, q = .txt b → p.isTxt = false → ∀ c, b.head? = some c → unNbOK c = true

def NbPairs20 : List UnAtom → Prop
  | p :: q :: rest => NbL20 p q ∧ NbR20 p q ∧ NbPairs20 (q :: rest)
  | _ => True

theorem nbPairs_tail20 (p : UnAtom) (l : List UnAtom) (h : NbPairs20 (p :: l)) : NbPairs20 l := by
  cases l with
  | nil => trivial
  | cons q rest => exact h.2.2

theorem nb_of_pairs20 (as init : List UnAtom) (a : Bytes) (x : UnAtom) (b : Bytes) (rest : List UnAtom)
    (h : NbPairs20 as) (hl : as = init ++ [.txt a, x, .txt b] ++ rest) (hx : x.isTxt = false) :
    (∀ c, a.getLast? = some c → unNbOK c = true) ∧ (∀ c, b.head? = some c → unNbOK c = true) := by
  subst hl
  induction init with
  | nil =>
    have h' : NbPairs20 (.txt a :: x :: .txt b :: rest) := by simpa using h
    exact ⟨h'.1 a rfl hx, h'.2.2.2.1 b rfl hx⟩
  | cons p init ih =>
    apply ih
    have h' : NbPairs20 (p :: (init ++ [.txt a, x, .txt b] ++ rest)) := by simpa using h
    exact nbPairs_tail20 p _ h'

theorem nbL_unatomOfS20 (p q : UnAtomS) (hp : unatomOKS p = true) (h : unpairOK p q = true) :
    NbL20 (unatomOfS p) (unatomOfS q) := by
  intro a ha hq c hc
  cases p with
  | txt cs =>
    simp only [unatomOfS, UnAtom.txt.injEq] at ha
    subst ha
    have hall := (unatomOKS_txt20 cs hp).2
    have hbefore : ∃ t, cs.getLast? = some t ∧ unbeforeOK t = true := by
      cases q with
      | txt _ => simp [unatomOfS, UnAtom.isTxt] at hq
      | em _ =>
        simp only [unpairOK] at h
        cases hg : cs.getLast? with
        | none => rw [hg] at h; cases h
        | some t => rw [hg] at h; exact ⟨t, rfl, h⟩
      | strong _ =>
        simp only [unpairOK] at h
        cases hg : cs.getLast? with
        | none => rw [hg] at h; cases h
        | some t => rw [hg] at h; exact ⟨t, rfl, h⟩
    obtain ⟨t, hg, ht⟩ := hbefore
    obtain ⟨cinit, hcs⟩ := List.getLast?_eq_some_iff.mp hg
    have hsl : srcLast t = c := getLast_escSpell20 cinit t c (by rw [← hcs]; exact hc)
    have hmem : c ∈ escSpell cs := List.mem_of_getLast? hc
    simp only [unbeforeOK, Bool.not_eq_true', hsl] at ht
    exact nb_byte20 c (mem_printable20 cs hall c hmem) ht
  | em _ => cases ha
  | strong _ => cases ha

theorem nbR_unatomOfS20 (p q : UnAtomS) (hq : unatomOKS q = true) (h : unpairOK p q = true) :
    NbR20 (unatomOfS p) (unatomOfS q) := by
  intro b hb hp c hc
  cases q with
  | txt cs =>
    simp only [unatomOfS, UnAtom.txt.injEq] at hb
    subst hb
    have hall := (unatomOKS_txt20 cs hq).2
    have hafter : ∃ t, cs.head? = some t ∧ unafterOK t = true := by
      cases p with
      | txt _ => simp [unatomOfS, UnAtom.isTxt] at hp
      | em _ =>
        simp only [unpairOK] at h
        cases hg : cs.head? with
        | none => rw [hg] at h; cases h
        | some t => rw [hg] at h; exact ⟨t, rfl, h⟩
      | strong _ =>
        simp only [unpairOK] at h
        cases hg : cs.head? with
        | none => rw [hg] at h; cases h
        | some t => rw [hg] at h; exact ⟨t, rfl, h⟩
    obtain ⟨t, hg, ht⟩ := hafter
    cases cs with
    | nil => cases hg
    | cons t' ts =>
      simp only [List.head?_cons, Option.some.injEq] at hg
      subst hg
      have hsf : srcFirst t' = c := head_escSpell20 t' ts c hc
      have hmem : c ∈ escSpell (t' :: ts) := List.mem_of_head? hc
      simp only [unafterOK, Bool.not_eq_true', hsf] at ht
      exact nb_byte20 c (mem_printable20 _ hall c hmem) ht
  | em _ => cases hb
  | strong _ => cases hb

theorem nbPairs_unatomOfS20 (l : UnLine) (hok : ∀ a ∈ l, unatomOKS a = true) (h : unneighOK l = true) :
    NbPairs20 (l.map unatomOfS) := by
  induction l with
  | nil => trivial
  | cons p rest ih =>
    cases rest with
    | nil => trivial
    | cons q rest =>
      simp only [unneighOK, Bool.and_eq_true] at h
      exact ⟨nbL_unatomOfS20 p q (hok p (by simp)) h.1, nbR_unatomOfS20 p q (hok q (by simp)) h.1,
        ih (fun a ha => hok a (by simp [ha])) h.2⟩

theorem erichLine_unatomOfS20 (l : UnLine) (h : unlineOKS l = true) : UnRichLine (l.map unatomOfS) := by
  simp only [unlineOKS, Bool.and_eq_true, List.all_eq_true] at h
  obtain ⟨⟨⟨⟨halt, hfirst⟩, hlast⟩, hok⟩, hnb⟩ := h
  refine ⟨by rw [unalternating_unatomOfS20]; exact halt, ?_, ?_, ?_, ?_⟩
  · -- first
    unfold unfirstOKS at hfirst
    split at hfirst
    · rename_i t ts rest
      obtain ⟨tc, te⟩ := t
      obtain ⟨sp, lt⟩ := spell_first tc te hfirst
      refine ⟨escSpell (⟨tc, te⟩ :: ts), rest.map unatomOfS, rfl, ?_⟩
      intro c hc
      simp only [escSpell, List.flatMap_cons, sp, List.cons_append, List.nil_append, List.head?_cons,
        Option.some.injEq] at hc
      subst hc; exact lt
    · cases hfirst
  · -- last
    unfold unlastOKS at hlast
    split at hlast
    · rename_i cs hl
      split at hlast
      · rename_i z hz
        obtain ⟨zc, ze⟩ := z
        obtain ⟨sp, nsp, nbs⟩ := spell_last zc ze hlast
        obtain ⟨init, hinit⟩ := List.getLast?_eq_some_iff.mp hl
        obtain ⟨cinit, hcs⟩ := List.getLast?_eq_some_iff.mp hz
        refine ⟨init.map unatomOfS, escSpell cs, by rw [hinit]; simp [unatomOfS], ?_⟩
        intro c hc
        have e : escSpell cs = escSpell cinit ++ [zc] := by rw [hcs]; simp [escSpell, sp]
        rw [e] at hc
        simp at hc
        subst hc; exact ⟨nsp, nbs⟩
      · cases hlast
    · cases hlast
  · intro a ha
    obtain ⟨r, hr, rfl⟩ := List.mem_map.mp ha
    exact eatomOK_unatomOfS20 r (hok r hr)
  · intro init a x b rest hl hx
    exact nb_of_pairs20 _ init a x b rest (nbPairs_unatomOfS20 l hok hnb) hl hx

/-! #### the prescribed HTML of a whole document -/

theorem unlineOKS_atoms20 (l : UnLine) (h : unlineOKS l = true) : ∀ a ∈ l, unatomOKS a = true := by
  simp only [unlineOKS, Bool.and_eq_true, List.all_eq_true] at h
  exact h.1.2

theorem unitemOKS_lines20 (it : UnItem) (h : unitemOKS it = true) :
    it.lines ≠ [] ∧ ∀ l ∈ it.lines, unlineOKS l = true := by
  simp only [unitemOKS, Bool.and_eq_true, Bool.not_eq_true', List.isEmpty_eq_false_iff, List.all_eq_true] at h
  exact h

/-- the paragraphs of a stage-20 document as lists of proof-side atoms -/
def atomsOfUn (d : UnDoc) : List (List (List UnAtom)) := d.items.map fun it => it.lines.map (·.map unatomOfS)

theorem docHtml_unatomOfS20 (d : UnDoc) (h : UnFrag d) :
    ((atomsOfUn d).flatMap fun ls =>
      strBytes "<p>" ++ GM.Proof.CMFrag.joinNl (ls.map unrichLineHtml) ++ strBytes "</p>\n") = expectedUn d := by
  simp only [UnFrag, unfragB, List.all_eq_true] at h
  simp only [atomsOfUn, expectedUn, List.flatMap_map]
  apply flatMap_congr8
  intro it hit
  have hls := (unitemOKS_lines20 it (h it hit)).2
  have : (it.lines.map (·.map unatomOfS)).map unrichLineHtml = it.lines.map expUnLine := by
    rw [List.map_map]
    apply List.map_congr_left
    intro l hl
    exact unrichLineHtml_unatomOfS20 l (unlineOKS_atoms20 l (hls l hl))
  rw [this, joinNl_eq, expUnItem]

theorem erichLines_atomsOfUn20 (d : UnDoc) (h : UnFrag d) : ∀ ls ∈ atomsOfUn d, ∀ l ∈ ls, UnRichLine l := by
  simp only [UnFrag, unfragB, List.all_eq_true] at h
  intro ls hls l hl
  simp only [atomsOfUn, List.mem_map] at hls
  obtain ⟨it, hit, rfl⟩ := hls
  obtain ⟨r, hr, rfl⟩ := List.mem_map.mp hl
  exact erichLine_unatomOfS20 r ((unitemOKS_lines20 it (h it hit)).2 r hr)

/-- the renderer on the nodes of a stage-20 document writes the prescribed HTML -/
theorem renderDoc_expectedUn20 (d : UnDoc) (h : UnFrag d) :
    GM.Convert.renderDoc cmOpts
        (.mk .document none ((atomsOfUn d).map fun ls => .mk .paragraph none (unrichNodes ls))) =
      .ok (expectedUn d) := by
  rw [renderDoc_erichLines20 _ (erichLines_atomsOfUn20 d h), docHtml_unatomOfS20 d h]

end GM.Proof.CMFrag
