/-
  GM.Proof.ShiftSimXTop4 — (T1) `TopLast` through one pass of `lineLoop`, REDUCED to the two places where the pass opens
  blocks (`topLast_lineLoop_of`): the Continue phase (no children list of node 0 changes, the stack is unchanged, the
  first open block stays attached), the end of the source (`closeBlocks … 0` empties the stack) and the induction over
  the levels are proved here; what `openBlocks` (+ the `closeBlocks` after it, `llOpen`) does is a hypothesis.
-/
import GM.Proof.ShiftSimXTop3
import GM.Proof.IndepFrame

namespace GM.Blocks.Xs
open GM GM.Text GM.Spec GM.Proof.Reader GM.Blocks GM.Blocks.L
open GM.Blocks.Sh (K KS bind_ok_inv liftE_ok_inv a2_getNode_inv a2_getPc_inv a2_modPc_inv a2_lastOpenedBlock_inv
  llOpen llFall llBody ll_lineLoop_cons)

/-- `z` is the last child of the Document -/
def tl_Last (z : Nat) (t : St) : Prop := (t.nodes.getD 0 default).children.getLast? = some z

/-- mid-pass: `b0` is still the first open block, its node is the Document's last child and attached, no other open
    block has its node -/
def tl_Hd (b0 : Block) (t : St) : Prop :=
  K t ∧ (∃ tail, t.pc.opened = b0 :: tail ∧ ∀ x ∈ tail, x.node ≠ b0.node) ∧ tl_Last b0.node t ∧
    (nd t b0.node).parent.isSome = true

theorem tl_Hd.top {b0 : Block} {t : St} (h : tl_Hd b0 t) : TopLast t := by
  obtain ⟨_, ⟨tail, ho, _⟩, hl, _⟩ := h
  intro b hb
  rw [ho] at hb
  cases hb
  exact hl

theorem tl_Hd.mem {b0 : Block} {t : St} (h : tl_Hd b0 t) : b0 ∈ t.pc.opened := by
  obtain ⟨_, ⟨tail, ho, _⟩, _, _⟩ := h
  rw [ho]; exact List.mem_cons_self

/-- a step that keeps the links of the old nodes and the stack -/
theorem tl_Hd.links {b0 : Block} {t t' : St} (h : tl_Hd b0 t) (k : K t') (lk : LinksKept t t')
    (ho : t'.pc.opened = t.pc.opened) : tl_Hd b0 t' := by
  have hb0 := h.1.opened b0 h.mem
  refine ⟨k, ?_, ?_, ?_⟩
  · rw [ho]; exact h.2.1
  · show (nd t' 0).children.getLast? = _
    rw [(lk.2.1 0 h.1.doc.1).2]
    exact h.2.2.1
  · rw [(lk.2.1 b0.node hb0.2).1]
    exact h.2.2.2

/-- the Continue of an open block -/
theorem tl_Hd.continue {b0 be : Block} {t t' : St} {st : PState} (h : tl_Hd b0 t) (hbe : be ∈ t.pc.opened)
    (e : bpContinue be.bp be.node t = .ok (st, t')) : tl_Hd b0 t' ∧ t'.pc.opened = t.pc.opened := by
  have ho := bpContinue_opened be.bp be.node t t' st e
  have k := (Sh.a2_bpContinue_KS be.bp be.node (h.1.opened be hbe).1 t t' st h.1 e).1
  exact ⟨h.links k ((bpContinue_frl be.bp be.node).h t st t' e) ho, ho⟩

theorem tl_peekLine_inv {t t1 : St} {x : Option Bytes × Segment} (h : peekLine t = .ok (x, t1)) :
    ∃ r', t1 = { t with r := r' } := by
  unfold peekLine at h
  cases hr : t.r.peekLine with
  | error e => simp [hr, bind, Except.bind] at h
  | ok v =>
    simp only [hr, bind, Except.bind, pure, Except.pure, Except.ok.injEq, Prod.mk.injEq] at h
    exact ⟨v.2, h.2.symm⟩

theorem tl_Hd.congr_r {b0 : Block} {t : St} (h : tl_Hd b0 t) (r' : Reader) : tl_Hd b0 { t with r := r' } :=
  ⟨(Sh.a2_KS_same (s' := { t with r := r' }) h.1 ⟨rfl, rfl⟩).1, h.2.1, h.2.2.1, h.2.2.2⟩

/-- (T1), reduced to the block-opening steps. `J` is any extra invariant the caller threads through the Continue phase
    (e.g. the window invariant of the no-panic proof). -/
theorem topLast_lineLoop_of (b0 : Block) (rest : List Block) (J : St → Prop)
    (hJr : ∀ t r', J t → J { t with r := r' })
    (hJc : ∀ be ∈ b0 :: rest, ∀ t t' st, J t → tl_Hd b0 t → t.pc.opened = b0 :: rest →
      bpContinue be.bp be.node t = .ok (st, t') → J t')
    (hDeep : ∀ be ∈ b0 :: rest, ∀ blank t t' r, J t → tl_Hd b0 t → t.pc.opened = b0 :: rest →
      openBlocks be.node blank t = .ok (r, t') → TopLast t')
    (hFall : ∀ (i : Int) (p : Nat) blank bl t t' x, J t → tl_Hd b0 t → t.pc.opened = b0 :: rest →
      ((i = 0 ∧ p = 0) ∨ (0 < i ∧ ∃ b, blockAt (b0 :: rest) (i - 1) = .ok b ∧ p = b.node)) →
      llOpen (b0 :: rest) (((b0 :: rest).length : Int) - 1) i blank bl p t = .ok (x, t') → TopLast t') :
    ∀ (rem : List Block) (i : Int) (bl : List LineStat) (t t' : St) (x : LineOutcome × List LineStat),
      J t → tl_Hd b0 t → t.pc.opened = b0 :: rest → 0 ≤ i → (∀ z ∈ rem, z ∈ b0 :: rest) →
      lineLoop 0 (b0 :: rest) (((b0 :: rest).length : Int) - 1) rem i bl t = .ok (x, t') → TopLast t' := by
  intro rem
  induction rem with
  | nil =>
    intro i bl t t' x _ hd _ _ _ h
    unfold lineLoop at h
    cases h
    exact hd.top
  | cons be rem ih =>
    intro i bl t t' x hj hd ho hi hrem h
    rw [ll_lineLoop_cons] at h
    obtain ⟨lp, t1, h1, hA⟩ := bind_ok_inv h
    obtain ⟨r', e1⟩ := tl_peekLine_inv h1
    subst e1
    have hj1 := hJr t r' hj
    have hd1 := hd.congr_r r'
    have ho1 : ({ t with r := r' } : St).pc.opened = b0 :: rest := ho
    cases hl : lp.1 with
    | none =>
      rw [hl] at hA
      obtain ⟨_, t2, h2, hB⟩ := bind_ok_inv hA
      obtain ⟨_, e2⟩ := closeBlocks_opened _ _ _ _ h2
      obtain ⟨_, t3, h3, hC⟩ := bind_ok_inv hB
      cases h3
      cases hC
      intro b hb
      exfalso
      have e2' : t2.pc.opened = [] := by
        rw [e2, ho1]
        have : ((((b0 :: rest).length : Int) - 1) + 1).toNat = (b0 :: rest).length := by omega
        rw [this, List.drop_length]
        rfl
      have hb' : t2.pc.opened.head? = some b := hb
      rw [e2'] at hb'
      cases hb'
    | some line =>
      rw [hl] at hA
      obtain ⟨y, t2, h2, hB⟩ := bind_ok_inv hA
      cases h2
      have hbe : be ∈ b0 :: rest := hrem be List.mem_cons_self
      have fall : ∀ u bl', J u → tl_Hd b0 u → u.pc.opened = b0 :: rest →
          llFall 0 (b0 :: rest) (((b0 :: rest).length : Int) - 1) i
            ({ t with r := r' } : St).r.position.1 bl' u = .ok (x, t') → TopLast t' := by
        intro u bl' ju du ou e
        unfold llFall at e
        by_cases c : (i != 0) = true
        · rw [if_pos c] at e
          obtain ⟨b, u1, g1, gA⟩ := bind_ok_inv e
          obtain ⟨eb, e1⟩ := liftE_ok_inv g1
          subst e1
          have hi0 : i ≠ 0 := by simpa using c
          exact hFall i b.node _ _ _ _ _ ju du ou (Or.inr ⟨by omega, b, eb, rfl⟩) gA
        · rw [if_neg c] at e
          have hi0 : i = 0 := by simpa using c
          exact hFall i 0 _ _ _ _ _ ju du ou (Or.inl ⟨hi0, rfl⟩) e
      unfold llBody at hB
      obtain ⟨bn, t3, h3, hC⟩ := bind_ok_inv hB
      obtain ⟨_, e3⟩ := a2_getNode_inv h3
      subst e3
      split at hC
      · obtain ⟨st, t4, h4, hD⟩ := bind_ok_inv hC
        have hbe1 : be ∈ ({ t with r := r' } : St).pc.opened := by rw [ho1]; exact hbe
        obtain ⟨hd4, ho4⟩ := hd1.continue hbe1 h4
        have hj4 := hJc be hbe _ _ _ hj1 hd1 ho1 h4
        have ho4' : t4.pc.opened = b0 :: rest := ho4.trans ho1
        split at hD
        · split at hD
          · obtain ⟨_, t5, h5, hE⟩ := bind_ok_inv hD
            cases hE
            exact hDeep be hbe _ _ _ _ hj4 hd4 ho4' h5
          · exact ih (i + 1) _ _ _ _ hj4 hd4 ho4' (by omega)
              (fun z hz => hrem z (List.mem_cons_of_mem _ hz)) hD
        · exact fall _ _ hj4 hd4 ho4' hD
      · exact fall _ _ hj1 hd1 ho1 hC

/-- (T1) in the requested shape, with the block-opening steps as hypotheses (see `topLast_lineLoop_of`);
    `hne` follows from `StableL.ls.incr`, `hatt` from `CInv.att` (or `TreeOK.kid` and `TopLast`). -/
theorem topLast_lineLoop (b0 : Block) (rest : List Block) (s s' : St) (bl : List LineStat)
    (x : LineOutcome × List LineStat) (J : St → Prop)
    (hJr : ∀ t r', J t → J { t with r := r' })
    (hJc : ∀ be ∈ b0 :: rest, ∀ t t' st, J t → tl_Hd b0 t → t.pc.opened = b0 :: rest →
      bpContinue be.bp be.node t = .ok (st, t') → J t')
    (hDeep : ∀ be ∈ b0 :: rest, ∀ blank t t' r, J t → tl_Hd b0 t → t.pc.opened = b0 :: rest →
      openBlocks be.node blank t = .ok (r, t') → TopLast t')
    (hFall : ∀ (i : Int) (p : Nat) blank bl t t' x, J t → tl_Hd b0 t → t.pc.opened = b0 :: rest →
      ((i = 0 ∧ p = 0) ∨ (0 < i ∧ ∃ b, blockAt (b0 :: rest) (i - 1) = .ok b ∧ p = b.node)) →
      llOpen (b0 :: rest) (((b0 :: rest).length : Int) - 1) i blank bl p t = .ok (x, t') → TopLast t')
    (hk : K s) (htop : TopLast s) (hop : s.pc.opened = b0 :: rest) (hne : ∀ z ∈ rest, z.node ≠ b0.node)
    (hatt : (nd s b0.node).parent.isSome = true) (hj : J s)
    (h : lineLoop 0 (b0 :: rest) (((b0 :: rest).length : Int) - 1) (b0 :: rest) 0 bl s = .ok (x, s')) :
    TopLast s' :=
  topLast_lineLoop_of b0 rest J hJr hJc hDeep hFall (b0 :: rest) 0 bl s s' x hj
    ⟨hk, ⟨rest, hop, hne⟩, htop b0 (by rw [hop]; rfl), hatt⟩ hop (Int.le_refl 0) (fun z hz => hz) h

/-- removing an element other than the last one keeps the last one -/
theorem tl_getLast_erase (c z : Nat) (hz : c ≠ z) : ∀ l : List Nat, l.getLast? = some z → (l.erase c).getLast? = some z
  | [], h => by cases h
  | [a], h => by
    have : a = z := by simpa using h
    subst this
    have : ([a].erase c) = [a] := by
      rw [List.erase_cons]
      have : (a == c) = false := by simpa using fun e => hz e.symm
      rw [this]; rfl
    rw [this]; rfl
  | a :: b :: l, h => by
    have h' : (b :: l).getLast? = some z := by rw [List.getLast?_cons_cons] at h; exact h
    rw [List.erase_cons]
    by_cases e : (a == c) = true
    · rw [if_pos e]; exact h'
    · rw [if_neg e]
      have ih := tl_getLast_erase c z hz (b :: l) h'
      cases hm : (b :: l).erase c with
      | nil => rw [hm] at ih; cases ih
      | cons m ms => rw [hm] at ih; rw [List.getLast?_cons_cons]; exact ih

end GM.Blocks.Xs
