/-
  GM.Proof.QuoteSimFinal — from the simulation relation between the two final node stores to the statement
  `QuotePrefixSimulation` (GM.Props.Blocks): the canonical dumps that `quoteSimPair` compares are equal.
-/
import GM.Proof.QuoteSimRel

namespace GM.Blocks
open GM GM.Text

/-- What the conclusion needs to know about the result of the ORIGINAL run (a decidable predicate on its final
    state): the Document has no lines of its own, no node is a List / ListItem (their `HasBlankPreviousLines`
    flags are not related by the simulation), no line / info / closure segment is empty (an empty segment
    standing behind the `\n` of its line is moved by `SegRel` like that line, by `shiftSeg` like the next), and
    the Document is nobody's child (A's Document stands for B's Blockquote, which prints differently). -/
def WellShaped (s : St) : Prop :=
  (s.nodes.getD 0 default).lines = [] ∧
  ∀ n ∈ s.nodes, (n.kind ≠ .list ∧ n.kind ≠ .listItem) ∧ (∀ l ∈ n.lines, l.start < l.stop) ∧
    (∀ i, n.info = some i → i.start < i.stop) ∧ (0 ≤ n.closure.start → n.closure.start < n.closure.stop) ∧
    0 ∉ n.children

instance (s : St) : Decidable (WellShaped s) := by unfold WellShaped; infer_instance

/-- a non-empty segment of line `k` is moved by `shiftSeg` exactly as `SegRel` says -/
theorem segRel_shiftSeg {src : Bytes} {s t : Segment} (h : SegRel src s t) (hne : s.start < s.stop) :
    t = shiftSeg src s := by
  obtain ⟨k, ls, hl, h1, _, h3, rfl⟩ := h
  have hk : lineNo src s.start.toNat = k := lineNo_in hl (by omega) (by omega)
  simp only [shK, shiftSeg, hk]

/-! ### what `WellShaped` says about one node -/

/-- the per-node clause of `WellShaped` -/
def QsNodeOK (n : Node) : Prop :=
  (n.kind ≠ .list ∧ n.kind ≠ .listItem) ∧ (∀ l ∈ n.lines, l.start < l.stop) ∧
    (∀ i, n.info = some i → i.start < i.stop) ∧ (0 ≤ n.closure.start → n.closure.start < n.closure.stop) ∧
    0 ∉ n.children

theorem nodeOK_default_qs : QsNodeOK (default : Node) := by
  refine ⟨⟨by decide, by decide⟩, ?_, ?_, ?_, ?_⟩
  · intro l hl; cases hl
  · intro i hi; cases hi
  · intro h; exact absurd h (by decide)
  · intro h; cases h

theorem WellShaped.getD {s : St} (h : WellShaped s) (i : Nat) : QsNodeOK (s.nodes.getD i default) := by
  rw [List.getD_eq_getElem?_getD]
  cases hg : s.nodes[i]? with
  | none => exact nodeOK_default_qs
  | some n => exact h.2 n (List.mem_of_getElem? hg)

theorem not_listKind {k : Kind} (h : k ≠ .list ∧ k ≠ .listItem) : (k == .list || k == .listItem) = false := by
  cases k <;> simp_all

/-! ### related segments of a well-shaped node are `shiftSeg` images -/

theorem segsRel_map {src : Bytes} : ∀ {as bs : List Segment}, SegsRel src as bs → (∀ l ∈ as, l.start < l.stop) →
    as.map (shiftSeg src) = bs
  | [], [], _, _ => rfl
  | a :: as, b :: bs, ⟨h1, h2⟩, hne => by
    rw [List.map_cons, ← segRel_shiftSeg h1 (hne a (List.mem_cons_self ..)),
      segsRel_map h2 (fun l hl => hne l (List.mem_cons_of_mem _ hl))]
  | [], _ :: _, h, _ => h.elim
  | _ :: _, [], h, _ => h.elim

theorem segsRel_nil {src : Bytes} : ∀ {bs : List Segment}, SegsRel src [] bs → bs = []
  | [], _ => rfl
  | _ :: _, h => h.elim

theorem infoRel_map {src : Bytes} : ∀ {a b : Option Segment}, InfoRel src a b → (∀ i, a = some i → i.start < i.stop) →
    a.map (shiftSeg src) = b
  | none, none, _, _ => rfl
  | some a, some b, h, hne => by rw [Option.map_some, ← segRel_shiftSeg h (hne a rfl)]
  | none, some _, h, _ => h.elim
  | some _, none, h, _ => h.elim

theorem closRel_map {src : Bytes} {a b : Segment} (h : ClosRel src a b) (hne : 0 ≤ a.start → a.start < a.stop) :
    (if a.start < 0 then a else shiftSeg src a) = b := by
  rcases h with ⟨h1, rfl⟩ | h
  · rw [if_pos h1]
  · have h0 : 0 ≤ a.start := by
      obtain ⟨k, ls, _, h1, _⟩ := h
      omega
    rw [if_neg (by omega), ← segRel_shiftSeg h (hne h0)]

/-! ### printing: equal printed fields give equal dumps -/

theorem nodeFields_congr {n m : Node} (hk : n.kind = m.kind) (h1 : n.level = m.level) (h2 : n.marker = m.marker)
    (h3 : n.start = m.start) (h4 : n.tight = m.tight) (h5 : n.offset = m.offset) (h6 : n.info = m.info)
    (h7 : n.htmlType = m.htmlType) (h8 : n.closure = m.closure) : nodeFields n = nodeFields m := by
  unfold nodeFields
  rw [hk, h1, h2, h3, h4, h5, h6, h7, h8]

theorem str_congr {n m : Node} {cs ds : List Tree} (hk : n.kind = m.kind) (hb : n.blankPrev = m.blankPrev)
    (hf : nodeFields n = nodeFields m) (hl : n.lines = m.lines) (hc : Tree.strs cs = Tree.strs ds) :
    (Tree.node n cs).str = (Tree.node m ds).str := by
  simp only [Tree.str, hk, hb, hf, hl, hc]

/-- what `Tree.mapSegs (shiftSeg src)` does to a node -/
def mapN (src : Bytes) (a : Node) : Node :=
  { a with lines := a.lines.map (shiftSeg src), info := a.info.map (shiftSeg src),
           closure := if a.closure.start < 0 then a.closure else shiftSeg src a.closure }

/-- what `Tree.readBlank false` does to a node -/
def eraseN (a : Node) : Node := { a with blankPrev := false }

/-- the mapped, flag-erased node of A prints like the flag-erased node of B -/
theorem node_str {src : Bytes} {a b : Node} (hab : NodeRel src false a b) (hok : QsNodeOK a) {cs ds : List Tree}
    (hc : Tree.strs cs = Tree.strs ds) :
    (Tree.node (eraseN (mapN src a)) cs).str = (Tree.node (eraseN b) ds).str := by
  have hk : b.kind = a.kind := hab.kind
  have hi := infoRel_map hab.info hok.2.2.1
  have hcl := closRel_map hab.closure hok.2.2.2.1
  have hl := segsRel_map hab.lines hok.2.1
  refine str_congr hk.symm rfl ?_ hl hc
  exact nodeFields_congr hk.symm hab.level.symm hab.marker.symm hab.start.symm hab.tight.symm hab.offset.symm hi
    hab.htmlType.symm hcl

/-! ### the trees below a non-root node -/

theorem mapSegsL_map (f : Segment → Segment) (g : Nat → Tree) : ∀ ids : List Nat,
    Tree.mapSegsL f (ids.map g) = ids.map (fun i => (g i).mapSegs f)
  | [] => rfl
  | i :: ids => by rw [List.map_cons, Tree.mapSegsL, mapSegsL_map f g ids, List.map_cons]

/-- children lists: under a node that is no List / ListItem every flag is erased -/
theorem strs_sim {ta tb : Nat → Tree}  : ∀ (ids : List Nat) (first : Bool),
    (∀ i ∈ ids, ((ta i).readBlank false).str = ((tb (i + 1)).readBlank false).str) →
    Tree.strs (Tree.readBlankL false first (ids.map ta)) =
      Tree.strs (Tree.readBlankL false first ((ids.map (· + 1)).map tb))
  | [], _, _ => rfl
  | i :: ids, first, h => by
    simp only [List.map_cons, Tree.readBlankL, Tree.strs, Bool.false_and]
    rw [h i (List.mem_cons_self ..), strs_sim ids false (fun j hj => h j (List.mem_cons_of_mem _ hj))]

theorem readBlank_mapSegs_node (src : Bytes) (a : Node) (cs : List Tree) :
    ((Tree.node a cs).mapSegs (shiftSeg src)).readBlank false =
      .node (eraseN (mapN src a))
        (Tree.readBlankL (a.kind == .list || a.kind == .listItem) true (Tree.mapSegsL (shiftSeg src) cs)) := rfl

theorem readBlank_node (b : Node) (ds : List Tree) :
    (Tree.node b ds).readBlank false =
      .node (eraseN b) (Tree.readBlankL (b.kind == .list || b.kind == .listItem) true ds) := rfl

theorem tree_sim {src : Bytes} {nA nB : List Node} (hn : StoreRel src nA nB)
    (hok : ∀ i, QsNodeOK (nA.getD i default)) : ∀ (f i : Nat), i ≠ 0 →
    (((treeOf nA f i).mapSegs (shiftSeg src)).readBlank false).str = ((treeOf nB f (i + 1)).readBlank false).str := by
  intro f
  induction f with
  | zero =>
    intro i hi
    have hab := hn.node i
    rw [beq_eq_false_iff_ne.mpr hi] at hab
    have e1 : treeOf nA 0 i = .node (nA.getD i default) [] := rfl
    have e2 : treeOf nB 0 (i + 1) = .node (nB.getD (i + 1) default) [] := rfl
    rw [e1, e2, readBlank_mapSegs_node, readBlank_node]
    exact node_str hab (hok i) rfl
  | succ f ih =>
    intro i hi
    have hab := hn.node i
    rw [beq_eq_false_iff_ne.mpr hi] at hab
    have hoki := hok i
    have e1 : treeOf nA (f + 1) i =
      .node (nA.getD i default) ((nA.getD i default).children.map (treeOf nA f)) := rfl
    have e2 : treeOf nB (f + 1) (i + 1) =
      .node (nB.getD (i + 1) default) ((nB.getD (i + 1) default).children.map (treeOf nB f)) := rfl
    rw [e1, e2, readBlank_mapSegs_node, readBlank_node]
    refine node_str hab hoki ?_
    have hkb : (nB.getD (i + 1) default).kind = (nA.getD i default).kind := hab.kind
    rw [hkb, not_listKind hoki.1, mapSegsL_map, hab.children]
    refine strs_sim (ta := fun j => (treeOf nA f j).mapSegs (shiftSeg src)) (tb := treeOf nB f) _ true ?_
    intro j hj
    exact ih j (fun e => hoki.2.2.2.2 (e ▸ hj))

theorem nodeFields_document {n : Node} (h : n.kind = .document) : nodeFields n = "" := by
  unfold nodeFields; rw [h]

theorem nodeFields_blockquote {n : Node} (h : n.kind = .blockquote) : nodeFields n = "" := by
  unfold nodeFields; rw [h]

theorem strs_single (t : Tree) : Tree.strs [t] = t.str ++ "" := by
  rw [Tree.strs, Tree.strs]

/-- the two roots: A's Document with the new Blockquote put in between, B's Document over its Blockquote -/
theorem root_sim {src : Bytes} {nA nB : List Node} (hn : StoreRel src nA nB)
    (hok : ∀ i, QsNodeOK (nA.getD i default)) (hd : (nA.getD 0 default).lines = []) (m : Nat) :
    ((Tree.node (nA.getD 0 default) [Tree.node { kind := .blockquote }
        (Tree.mapSegsL (shiftSeg src) ((nA.getD 0 default).children.map (treeOf nA m)))]).readBlank false).str =
      ((treeOf nB (m + 2) 0).readBlank false).str := by
  have hab := hn.node 0
  have hk : (nB.getD 1 default).kind = .blockquote ∧ (nA.getD 0 default).kind = .document := hab.kind
  have hok0 := hok 0
  have e2 : treeOf nB (m + 2) 0 =
    .node (nB.getD 0 default) ((nB.getD 0 default).children.map (treeOf nB (m + 1))) := rfl
  have e3 : treeOf nB (m + 1) 1 =
    .node (nB.getD 1 default) ((nB.getD 1 default).children.map (treeOf nB m)) := rfl
  have e4 : ([1] : List Nat).map (treeOf nB (m + 1)) = [treeOf nB (m + 1) 1] := rfl
  rw [e2, hn.doc0, e4, e3, readBlank_node, readBlank_node]
  refine str_congr hk.2 rfl ?_ hd ?_
  · rw [nodeFields_document (n := eraseN _) hk.2, nodeFields_document (n := eraseN _) rfl]
  · have hf : (((nA.getD 0 default).kind == Kind.list || (nA.getD 0 default).kind == Kind.listItem)) = false :=
      not_listKind hok0.1
    have hf' : ((Kind.document == Kind.list || Kind.document == Kind.listItem)) = false := rfl
    rw [hf]
    simp only [hf', Tree.readBlankL, Bool.false_and, strs_single]
    congr 1
    rw [readBlank_node, readBlank_node]
    have hbl : (nB.getD 1 default).lines = [] := segsRel_nil (hd ▸ hab.lines)
    refine str_congr hk.1.symm rfl ?_ hbl.symm ?_
    · rw [nodeFields_blockquote (n := eraseN _) rfl, nodeFields_blockquote (n := eraseN _) hk.1]
    · have hq : ((Kind.blockquote == Kind.list || Kind.blockquote == Kind.listItem)) = false := rfl
      have hc : (nB.getD 1 default).children = (nA.getD 0 default).children.map (· + 1) := hab.children
      rw [hk.1, hq, mapSegsL_map, hc]
      refine strs_sim (ta := fun j => (treeOf nA m j).mapSegs (shiftSeg src)) (tb := treeOf nB m) _ true ?_
      intro j hj
      exact tree_sim hn hok m j (fun e => hok0.2.2.2.2 (e ▸ hj))

/-- the conclusion: related final stores give equal dumps -/
theorem quoteSimPair_eq (src : Bytes) (sA sB : St) (hA : run src = .ok sA) (hB : run (quotePrefix src) = .ok sB)
    (hn : StoreRel src sA.nodes sB.nodes) (hw : WellShaped sA) :
    ∀ e g, quoteSimPair src = some (e, g) → e = g := by
  intro e g h
  unfold quoteSimPair at h
  split at h
  · cases h
  · rw [hA] at h
    simp only [hB] at h
    obtain ⟨m, hm⟩ : ∃ m, sA.nodes.length = m + 1 := ⟨sA.nodes.length - 1, by have := hn.pos; omega⟩
    have hmB : sB.nodes.length = m + 2 := by rw [hn.len, hm]
    have e1 : treeOf sA.nodes (m + 1) 0 =
      .node (sA.nodes.getD 0 default) ((sA.nodes.getD 0 default).children.map (treeOf sA.nodes m)) := rfl
    rw [hm, hmB, e1] at h
    simp only [Option.some.injEq, Prod.mk.injEq] at h
    obtain ⟨rfl, rfl⟩ := h
    exact root_sim hn hw.getD hw.1 m

end GM.Blocks
