/-
  GM.Proof.CMFrag5Defs — stage 5 of the fragment (fenced code blocks): the block-phase node.
-/
import GM.Proof.CMFrag4Hr

namespace GM.Proof.CMFrag
open GM GM.Text GM.Blocks

/-- a FencedCodeBlock node below the Document (`linesNil`: no line has been appended yet) -/
def fenceN (info : Option Segment) (lines : List Segment) (b : Bool) : Blocks.Node :=
  { kind := .fencedCodeBlock, parent := some 0, info := info, lines := lines, linesNil := lines.isEmpty, blankPrev := b }

/-- a code line segment: the whole source line with its line feed, ForceNewline set -/
def csg (p e : Nat) : Segment := { start := p, stop := e, padding := 0, forceNewline := true }

end GM.Proof.CMFrag
