/-
  GM.Proof.CMFrag5Defs — stage 5 of the fragment (fenced code blocks): the block-phase node.
-/
import GM.Proof.CMFrag4Hr

namespace GM.Proof.CMFrag
open GM GM.Text GM.Blocks

/-- a FencedCodeBlock node below the Document (`linesNil`: no line has been appended yet) -/
def fenceN (info : Option Segment) (lines : List Segment) (b : Bool) : Blocks.Node :=
  { kind := .fencedCodeBlock, parent := some 0, info := info, lines := lines, linesNil := lines.isEmpty, blankPrev := b }

/-- a code line segment: the whole source line with its line feed, ForceNewline set -/
def csg (p e : Nat) : Segment := { start := p, stop := e, padding := 0, forceNewline := true }

/-! ### stage 12: indented code blocks -/

/-- the indentation of the fragment's indented code blocks: exactly four spaces -/
def ind4 : Bytes := [32, 32, 32, 32]

/-- a line of an indented code block behind its indentation: first byte not white space, no line feed -/
structure IcLine (l : Bytes) : Prop where
  first : ∃ c t, l = c :: t ∧ isSpace c = false
  noNl : ∀ c ∈ l, c ≠ 10

/-- a CodeBlock node below the Document -/
def codeN (lines : List Segment) (b : Bool) : Blocks.Node :=
  { kind := .codeBlock, parent := some 0, lines := lines, linesNil := false, blankPrev := b }

/-- the source lines of an indented code block -/
def icLines (ls : List Bytes) : List Bytes := ls.map (ind4 ++ ·)

/-- the line segments of an indented code block whose first line starts at byte `p`: every line from behind the
    indentation to behind its line feed, ForceNewline set -/
def icsegs : Nat → List Bytes → List Segment
  | _, [] => []
  | p, l :: rest => csg (p + 4) (p + 4 + l.length + 1) :: icsegs (p + 4 + l.length + 1) rest

/-- the same when the last line has no line feed (it ends the source) -/
def icsegsE : Nat → List Bytes → List Segment
  | _, [] => []
  | p, [l] => [csg (p + 4) (p + 4 + l.length)]
  | p, l :: l' :: rest => csg (p + 4) (p + 4 + l.length + 1) :: icsegsE (p + 4 + l.length + 1) (l' :: rest)

/-- the segments of `j` blank lines from byte `q` on, as `codeBlockParser.Continue` appends them -/
def blankSegs : Nat → Nat → List Segment
  | _, 0 => []
  | q, j + 1 => sg q (q + 1) :: blankSegs (q + 1) j

end GM.Proof.CMFrag
