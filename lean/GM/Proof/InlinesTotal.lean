/-
  GM.Proof.InlinesTotal — the inline phase cannot panic, run out of fuel or break a modelling invariant, and the
  segments it records are inside the block's lines and in document order (lemmas for GM.Props.Inlines).
  Part 1: index facts of the scanners, the segment chain, the contracts of the parsers that only move the reader.
-/
import GM.Proof.InlinesReader
import GM.Proof.Inlines

namespace GM.Proof.InlinesTotal
open GM GM.Text GM.Spec GM.Inl GM.Proof.Reader GM.Proof.InlinesReader GM.Proof.Inlines

/-! ### scanners -/

theorem takeWhile_len_le {α : Type} (p : α → Bool) (l : List α) : (l.takeWhile p).length ≤ l.length := by
  induction l with
  | nil => simp
  | cons a r ih => simp only [List.takeWhile_cons]; split <;> simp <;> omega

theorem spanB_fst_len (p : UInt8 → Bool) (l : Bytes) : (spanB p l).1.length + (spanB p l).2.length = l.length := by
  have := congrArg List.length (spanB_append p l)
  simpa using this

theorem csScan_bound (opener : Nat) : ∀ (l : Bytes) (i j : Nat), csScan opener l i = some j →
    i + opener ≤ j ∧ j ≤ i + l.length := by
  intro l
  induction l using List.rec with
  | nil => intro i j h; simp [csScan] at h
  | cons c rest _ =>
    -- strong induction on the length instead
    exact fun i j h => by
      revert i j h
      exact (show ∀ (n : Nat) (l : Bytes), l.length ≤ n → ∀ i j, csScan opener l i = some j →
          i + opener ≤ j ∧ j ≤ i + l.length from by
        intro n
        induction n with
        | zero =>
          intro l hl i j h
          cases l with
          | nil => simp [csScan] at h
          | cons a t => simp at hl
        | succ n ih =>
          intro l hl i j h
          cases l with
          | nil => simp [csScan] at h
          | cons a t =>
            rw [csScan] at h
            have hs := spanB_fst_len (· == 96) t
            split at h
            · simp only at h
              split at h
              · rename_i he
                simp at he
                simp at h; subst h
                simp only [List.length_cons]
                omega
              · split at h
                · simp at h
                · rename_i x rest' heq
                  rw [heq] at hs
                  simp only [List.length_cons] at hs hl
                  have := ih rest' (by omega) _ _ h
                  simp only [List.length_cons]
                  omega
            · simp only [List.length_cons] at hl
              have := ih t (by omega) _ _ h
              simp only [List.length_cons]
              omega) (rest.length + 1) (c :: rest) (by simp)

theorem bytesIndex_bound (pat : Bytes) : ∀ (l : Bytes) (i j : Nat), bytesIndex pat l i = some j →
    i ≤ j ∧ j + pat.length ≤ i + l.length := by
  intro l
  induction l with
  | nil =>
    intro i j h
    simp only [bytesIndex] at h
    split at h
    · rename_i he; simp at h; subst h; simp at he; simp [he]
    · simp at h
  | cons c rest ih =>
    intro i j h
    simp only [bytesIndex] at h
    split at h
    · rename_i hp
      simp at h; subst h
      have := List.IsPrefix.length_le (List.isPrefixOf_iff_prefix.mp hp)
      simp only [List.length_cons] at this ⊢
      omega
    · have := ih _ _ h
      simp only [List.length_cons]; omega

theorem destAngle_bound : ∀ (n : Nat) (l : Bytes), l.length ≤ n → ∀ (i j : Nat), destAngle l i = some j →
    i ≤ j ∧ j < i + l.length := by
  intro n
  induction n with
  | zero => intro l hl i j h; cases l with
    | nil => simp [destAngle] at h
    | cons a t => simp at hl
  | succ n ih =>
    intro l hl i j h
    cases l with
    | nil => simp [destAngle] at h
    | cons c rest =>
      rw [destAngle.eq_def] at h
      simp only at h
      simp only [List.length_cons] at hl ⊢
      split at h
      · split at h
        · rename_i d rest'
          split at h
          · have := ih rest' (by simp at hl; omega) _ _ h; simp only [List.length_cons]; omega
          · have := ih (d :: rest') (by simp at hl ⊢; omega) _ _ h; simp only [List.length_cons] at this ⊢; omega
        · simp at h
      · split at h
        · simp at h; omega
        · split at h
          · simp at h
          · have := ih rest (by omega) _ _ h; omega

theorem destPlain_bound : ∀ (n : Nat) (l : Bytes), l.length ≤ n → ∀ (i : Nat) (o : Int),
    i ≤ destPlain l i o ∧ destPlain l i o ≤ i + l.length := by
  intro n
  induction n with
  | zero => intro l hl i o; cases l with
    | nil => simp [destPlain]
    | cons a t => simp at hl
  | succ n ih =>
    intro l hl i o
    cases l with
    | nil => simp [destPlain]
    | cons c rest =>
      rw [destPlain.eq_def]
      simp only
      simp only [List.length_cons] at hl ⊢
      split
      · split
        · rename_i d rest'
          split
          · have := ih rest' (by simp at hl; omega) (i + 2) o; simp only [List.length_cons]; omega
          · have := ih (d :: rest') (by simp at hl ⊢; omega) (i + 1) o; simp only [List.length_cons] at this ⊢; omega
        · simp
      · split
        · have := ih rest (by omega) (i + 1) (o + 1); omega
        · split
          · split
            · omega
            · have := ih rest (by omega) (i + 1) (o - 1); omega
          · split
            · omega
            · have := ih rest (by omega) (i + 1) o; omega

theorem decodeRune_size {l : Bytes} (h : (decodeRune l).1 ≠ runeError) :
    1 ≤ (decodeRune l).2 ∧ (decodeRune l).2 ≤ l.length := by
  unfold decodeRune at h ⊢
  split
  · simp at h
  · rename_i b0 rest
    simp only at h ⊢
    repeat' split
    all_goals (first | (simp at h; done) | (simp only [List.length_cons]; omega))

/-! ### the chain of recorded segments -/

/-- the segments lie between `lo` and `hi`, each after the one before, none inverted -/
def chain (lo hi : Int) : List Segment → Prop
  | [] => lo ≤ hi
  | s :: rest => lo ≤ s.start ∧ s.start ≤ s.stop ∧ chain s.stop hi rest

theorem chain_le {lo hi : Int} : ∀ {l : List Segment}, chain lo hi l → lo ≤ hi
  | [], h => h
  | s :: rest, h => by have := chain_le h.2.2; have := h.1; have := h.2.1; omega

theorem chain_mono {lo lo' hi hi' : Int} (h1 : lo' ≤ lo) (h2 : hi ≤ hi') :
    ∀ {l : List Segment}, chain lo hi l → chain lo' hi' l
  | [], h => by simp only [chain] at h ⊢; omega
  | s :: rest, h => ⟨by have := h.1; omega, h.2.1, chain_mono (Int.le_refl _) h2 h.2.2⟩

theorem chain_append {lo mid hi : Int} : ∀ {a b : List Segment}, chain lo mid a → chain mid hi b → chain lo hi (a ++ b)
  | [], b, h1, h2 => chain_mono h1 (Int.le_refl _) h2
  | s :: rest, b, h1, h2 => ⟨h1.1, h1.2.1, chain_append h1.2.2 h2⟩

theorem chain_split {lo hi : Int} : ∀ {a b : List Segment}, chain lo hi (a ++ b) → ∃ mid, chain lo mid a ∧ chain mid hi b
  | [], b, h => ⟨lo, Int.le_refl _, h⟩
  | s :: rest, b, h => by
    obtain ⟨mid, h1, h2⟩ := chain_split (a := rest) (b := b) h.2.2
    exact ⟨mid, ⟨h.1, h.2.1, h1⟩, h2⟩

theorem chain_single {lo hi : Int} {s : Segment} (h1 : lo ≤ s.start) (h2 : s.start ≤ s.stop) (h3 : s.stop ≤ hi) :
    chain lo hi [s] := ⟨h1, h2, h3⟩

mutual
/-- the source positions a subtree records, in tree order -/
def segsOf : Node → List Segment
  | .text s _ _ _ => [s]
  | .codeSpan ks => segsOfL ks
  | .emphasis _ ks => segsOfL ks
  | .link _ _ _ ks => segsOfL ks
  | .autoLink _ s => [s]
  | .rawHTML ss => ss
  | .delim _ d => [d.seg]
  | .label _ s _ => [s]
def segsOfL : List Node → List Segment
  | [] => []
  | n :: rest => segsOf n ++ segsOfL rest
end

theorem segsOfL_append (a b : List Node) : segsOfL (a ++ b) = segsOfL a ++ segsOfL b := by
  induction a with
  | nil => simp [segsOfL]
  | cons x r ih => simp [segsOfL, ih]

/-! ### contracts of the parsers that only move the reader -/

/-- what a reader-only parser owes: it returns; the reader still stands for a padding-free cursor that did not
    move back; when it returns a node it consumed at least one byte and the node's segments lie between the
    old and the new offset -/
def RPost (src : Bytes) (segs : List Segment) (c : BCur) (res : RRes) : Prop :=
  ∃ n r' c', res = .ok (n, r') ∧ RS src segs r' c' ∧ c.p ≤ c'.p ∧ c.ln ≤ c'.ln ∧
    ∀ nd, n = some nd → BCur.remaining segs c' + 1 ≤ BCur.remaining segs c ∧ chain c.p c'.p (segsOf nd) ∧
      (match nd with
        | .delim _ d => 1 ≤ d.length ∧ d.seg.stop = d.seg.start + d.length
        | .label .. => False
        | nd => wf false nd = true)

variable {src : Bytes} {segs : List Segment}

theorem scanDelimiter_ok (env : Env) (b : UInt8) (l : Bytes) (before : Nat) :
    ∃ d, scanDelimiter env (b :: l) before = .ok d ∧
      ∀ dd, d = some dd → 1 ≤ dd.length ∧ dd.origLength = dd.length ∧ dd.length ≤ (b :: l).length := by
  unfold scanDelimiter
  simp only
  split
  · exact ⟨none, rfl, by simp⟩
  · refine ⟨_, rfl, ?_⟩
    intro dd hd
    simp at hd; subst hd
    have := takeWhile_len_le (· == b) l
    refine ⟨?_, ?_, ?_⟩ <;> simp only [List.length_cons] <;> omega

theorem parseEmphasis_post (F : SegFacts src segs) (Z : ∀ s ∈ segs, s.padding = 0) (env : Env) (id : Nat)
    {r : BlockReader} {c : BCur} (h : RS src segs r c) {b : UInt8} {l : Bytes}
    (hv : BCur.view src segs c = some (b :: l)) : RPost src segs c (parseEmphasis env id r) := by
  obtain ⟨v, hpc⟩ := precendingCharacter_ok r
  obtain ⟨hpl, hpos⟩ := peekLine_facts F h
  obtain ⟨v1, v2, v3, v4, v5, v6, v7, v8⟩ := view_some F h.abs.wf h.pad hv
  obtain ⟨d, hd, hdd⟩ := scanDelimiter_ok env b l v
  unfold parseEmphasis
  simp only [hpc, hpl, hv, bind, Except.bind, Option.getD_some, hd]
  cases d with
  | none => exact ⟨none, r, c, rfl, h, Int.le_refl _, Int.le_refl _, by simp⟩
  | some dd =>
    obtain ⟨d1, d2, d3⟩ := hdd dd rfl
    simp only
    obtain ⟨r', c', e1, e2, e3, e4, e5, _⟩ := advance_ok F Z h (n := dd.origLength) (by omega) (by omega)
    rw [e1]
    refine ⟨_, r', c', rfl, e2, by omega, e4, ?_⟩
    intro nd hn
    simp at hn; subst hn
    refine ⟨by omega, ?_, ⟨by simpa using (by omega : 1 ≤ dd.length), by simp only [Segment.withStop]; omega⟩⟩
    simp only [segsOf, hpos, Segment.withStop]
    exact chain_single (by simp only; omega) (by simp only; omega) (by simp only; omega)

theorem parseAutoLink_post (F : SegFacts src segs) (Z : ∀ s ∈ segs, s.padding = 0)
    {r : BlockReader} {c : BCur} (h : RS src segs r c) {b : UInt8} {l : Bytes}
    (hv : BCur.view src segs c = some (b :: l)) : RPost src segs c (parseAutoLink r) := by
  obtain ⟨hpl, hpos⟩ := peekLine_facts F h
  obtain ⟨v1, v2, v3, v4, v5, v6, v7, v8⟩ := view_some F h.abs.wf h.pad hv
  have hnone : RPost src segs c (.ok (none, r)) := ⟨none, r, c, rfl, h, Int.le_refl _, Int.le_refl _, by simp⟩
  unfold parseAutoLink
  simp only [hpl, hv, bind, Except.bind, Option.getD_some, pure, Except.pure, List.isEmpty_cons, Bool.false_eq_true,
    if_false]
  generalize (if findEmailIndex (List.drop 1 (b :: l)) < 0 then (findURLIndex (List.drop 1 (b :: l)), false)
    else (findEmailIndex (List.drop 1 (b :: l)), true)) = pr
  split
  · exact hnone
  · rename_i h0
    split
    · exact hnone
    · rename_i hg
      simp only [Bool.or_eq_true, decide_eq_true_eq, not_or, Int.not_le, ge_iff_le] at hg
      obtain ⟨r', c', e1, e2, e3, e4, e5, _⟩ := advance_ok F Z h (n := pr.1 + 1 + 1) (by omega) (by omega)
      rw [e1]
      refine ⟨_, r', c', rfl, e2, by omega, e4, ?_⟩
      intro nd hn
      simp at hn; subst hn
      refine ⟨by omega, ?_, by simp [wf]⟩
      simp only [segsOf, hpos]
      exact chain_single (by simp only; omega) (by simp only; omega) (by simp only; omega)

theorem all_isText_wfL : ∀ (ks : List Node), ks.all isText = true → wfL false ks = true
  | [], _ => by simp [wfL]
  | k :: rest, h => by
    simp only [List.all_cons, Bool.and_eq_true] at h
    obtain ⟨h1, h2⟩ := h
    cases k <;> simp [isText] at h1
    simp [wfL, wf, all_isText_wfL rest h2]

/-- raw Text nodes without padding (the children of a code span) -/
def rawL (l : List Node) : Prop :=
  ∀ n ∈ l, ∃ s : Segment, n = .text s false false true ∧ s.padding = 0 ∧ s.forceNewline = false

theorem rawL_isText {l : List Node} (h : rawL l) : l.all isText = true := by
  simp only [List.all_eq_true]
  intro n hn
  obtain ⟨s, rfl, _⟩ := h n hn
  rfl

theorem rawL_append {a b : List Node} (ha : rawL a) (hb : rawL b) : rawL (a ++ b) := by
  intro n hn
  simp only [List.mem_append] at hn
  rcases hn with hn | hn
  · exact ha n hn
  · exact hb n hn

theorem csLoop_post (F : SegFacts src segs) (Z : ∀ s ∈ segs, s.padding = 0) (opener : Nat)
    {rs : BlockReader} {cs : BCur} (hs : RS src segs rs cs) (ss : Segment) :
    ∀ (fuel : Nat) {rd : BlockReader} {c : BCur} {acc : List Node}, RS src segs rd c →
    (BCur.k segs - c.ln).toNat < fuel → cs.p ≤ c.p → cs.ln ≤ c.ln →
    BCur.remaining segs c ≤ BCur.remaining segs cs →
    (c.ln < BCur.k segs → chain cs.p c.p (segsOfL acc)) → rawL acc →
    ∃ res rd' c', csLoop opener rs.position.1 rs.position.2 ss fuel rd acc = .ok (res, rd') ∧ RS src segs rd' c' ∧
      cs.p ≤ c'.p ∧ cs.ln ≤ c'.ln ∧ BCur.remaining segs c' ≤ BCur.remaining segs cs ∧
      (match res with
        | .inl t => t = textOf (ss.withStop (ss.start + opener))
        | .inr ks => chain cs.p c'.p (segsOfL ks) ∧ rawL ks) := by
  intro fuel
  induction fuel with
  | zero => intro rd c acc _ hf; omega
  | succ f ih =>
    intro rd c acc h hf hp hl hr hch hacc
    obtain ⟨hpl, hpos⟩ := peekLine_facts F h
    simp only [csLoop, hpl, bind, Except.bind]
    cases hv : BCur.view src segs c with
    | none =>
      obtain ⟨r3, e1, e2⟩ := setPosition_restore F hs h
      simp only [e1, pure, Except.pure]
      exact ⟨_, r3, cs, rfl, e2, Int.le_refl _, Int.le_refl _, Int.le_refl _, rfl⟩
    | some line =>
      obtain ⟨v1, v2, v3, v4, v5, v6, v7, v8⟩ := view_some F h.abs.wf h.pad hv
      simp only
      cases hsc : csScan opener line 0 with
      | some i =>
        have hb := csScan_bound opener line 0 i hsc
        obtain ⟨r', c', e1, e2, e3, e4, e5, _⟩ := advance_ok F Z h (n := (i : Int)) (by omega) (by omega)
        simp only [e1, pure, Except.pure]
        refine ⟨_, r', c', rfl, e2, by omega, by omega, by omega, ?_⟩
        simp only
        have hc0 := hch v1
        split
        · refine ⟨?_, rawL_append hacc (by
            intro n hn; simp only [List.mem_singleton] at hn; subst hn
            exact ⟨_, rfl, by simp [Segment.withStop, hpos], rfl⟩)⟩
          rw [segsOfL_append]
          refine chain_append hc0 ?_
          simp only [segsOfL, segsOf, rawTextOf, List.append_nil, hpos, Segment.withStop]
          exact chain_single (by simp only; omega) (by simp only; omega) (by simp only; omega)
        · exact ⟨chain_mono (Int.le_refl _) (by omega) hc0, hacc⟩
      | none =>
        obtain ⟨r', e1, e2⟩ := advanceLine_ok F Z h
        obtain ⟨a1, a2, a3, a4, a5⟩ := advanceLine_facts F h.abs.wf h.pad
        simp only [e1]
        refine ih e2 (by rw [a1]; omega) (by omega) (by omega) (by omega) ?_
          (rawL_append hacc (by
            intro n hn; simp only [List.mem_singleton] at hn; subst hn
            exact ⟨_, rfl, by simp [hpos], by simp [hpos]⟩))
        intro hlt
        rw [a1] at hlt
        rw [segsOfL_append]
        refine chain_append (hch v1) ?_
        simp only [segsOfL, segsOf, rawTextOf, List.append_nil, hpos]
        have := a5 hlt
        exact chain_single (by simp only; omega) (by simp only; omega) (by simp only; omega)

/-! ### code spans: the trim step -/

theorem seg_value_ok {s : Segment} (hp : s.padding = 0) (hf : s.forceNewline = false) (h0 : 0 ≤ s.start)
    (h1 : s.start ≤ s.stop) (h2 : s.stop ≤ src.length) :
    s.value src = .ok (sub src s.start.toNat s.stop.toNat) := by
  rw [value_spec src s ⟨h0, h1, h2, by omega⟩]
  simp [segValue, hp, hf, spaces]

theorem csIsBlank_ok : ∀ (ks : List Node) {lo hi : Int}, rawL ks → chain lo hi (segsOfL ks) → 0 ≤ lo →
    hi ≤ src.length → ∃ b, csIsBlank src ks = .ok b
  | [], _, _, _, _, _, _ => ⟨true, rfl⟩
  | k :: rest, lo, hi, hr, hc, h0, h1 => by
    obtain ⟨s, rfl, sp, sf⟩ := hr k (by simp)
    simp only [segsOfL, segsOf, List.singleton_append, chain] at hc
    have hle := chain_le hc.2.2
    simp only [csIsBlank, seg_value_ok (src := src) sp sf (by omega) hc.2.1 (by omega)]
    split
    · exact ⟨false, rfl⟩
    · exact csIsBlank_ok rest (fun n hn => hr n (by simp [hn])) hc.2.2 (by omega) h1

theorem chain_last_shrink {lo hi : Int} {s s' : Segment} (e1 : s'.start = s.start) (e2 : s'.stop = s.stop - 1) :
    ∀ {l : List Segment}, chain lo hi (l ++ [s]) → s.start ≤ s.stop - 1 → chain lo hi (l ++ [s'])
  | [], h, hs => by
    simp only [List.nil_append, chain] at h ⊢
    exact ⟨by omega, by omega, by omega⟩
  | a :: rest, h, hs => ⟨h.1, h.2.1, chain_last_shrink e1 e2 h.2.2 hs⟩

theorem csTrim_post {ks : List Node} {lo hi : Int} (hr : rawL ks) (hc : chain lo hi (segsOfL ks)) (h0 : 0 ≤ lo)
    (h1 : hi ≤ src.length) :
    ∃ ks', csTrim src ks = .ok ks' ∧ chain lo hi (segsOfL ks') ∧ ks'.all isText = true := by
  obtain ⟨b, hb⟩ := csIsBlank_ok (src := src) ks hr hc h0 h1
  unfold csTrim
  simp only [hb, bind, Except.bind, pure, Except.pure]
  cases b with
  | true => exact ⟨ks, rfl, hc, rawL_isText hr⟩
  | false =>
    simp only [Bool.false_eq_true, if_false]
    cases ks with
    | nil => simp [csIsBlank] at hb
    | cons k rest =>
      obtain ⟨s, rfl, sp, sf⟩ := hr k (by simp)
      have hc' := hc
      simp only [segsOfL, segsOf, List.singleton_append, chain] at hc'
      have hle := chain_le hc'.2.2
      -- the last child
      obtain ⟨init, z, hz⟩ : ∃ init z, (Node.text s false false true :: rest) = init ++ [z] := by
        have := List.eq_nil_or_concat (Node.text s false false true :: rest)
        rcases this with h | ⟨i, z, h⟩
        · simp at h
        · exact ⟨i, z, by simpa using h⟩
      obtain ⟨t, rfl, tp, tf⟩ := hr z (by rw [hz]; simp)
      have hlast : (Node.text s false false true :: rest).getLast? = some (Node.text t false false true) := by
        rw [hz]; simp
      have hct : chain lo hi (segsOfL init ++ [t]) := by
        have := hc; rw [hz, segsOfL_append] at this; simpa [segsOfL, segsOf] using this
      obtain ⟨mid, hc1, hc2⟩ := chain_split hct
      simp only [chain] at hc2
      have hle1 := chain_le hc1
      simp only [List.head?_cons, hlast]
      -- the two edge tests cannot panic
      have ea : ∃ a, csEdge src s s.start = .ok a ∧ (a = true → s.start < s.stop) := by
        unfold csEdge
        by_cases he : s.isEmpty = true
        · simp [he]
        · have hlt : s.start < s.stop := by
            simp only [Segment.isEmpty, sp, Bool.and_eq_true, decide_eq_true_eq, beq_self_eq_true, and_true] at he
            omega
          have hlen : s.start.toNat < src.length := by omega
          have e : s.start = (s.start.toNat : Int) := by omega
          simp only [he, Bool.false_eq_true, if_false]
          rw [e, getByte_ok src hlen]
          exact ⟨_, rfl, fun _ => by omega⟩
      have eb : ∃ a, csEdge src t (t.stop - 1) = .ok a ∧ (a = true → t.start < t.stop) := by
        unfold csEdge
        by_cases he : t.isEmpty = true
        · simp [he]
        · have hlt : t.start < t.stop := by
            simp only [Segment.isEmpty, tp, Bool.and_eq_true, decide_eq_true_eq, beq_self_eq_true, and_true] at he
            omega
          have hlen : (t.stop - 1).toNat < src.length := by omega
          have e : t.stop - 1 = ((t.stop - 1).toNat : Int) := by omega
          simp only [he, Bool.false_eq_true, if_false]
          rw [e, getByte_ok src hlen]
          exact ⟨_, rfl, fun _ => by omega⟩
      obtain ⟨a, ha, ha'⟩ := ea
      obtain ⟨b', hb', hb''⟩ := eb
      simp only [ha, hb']
      by_cases hab : (a && b') = true
      · simp only [hab, Bool.not_true, Bool.false_eq_true, if_false]
        simp only [Bool.and_eq_true] at hab
        have hs := ha' hab.1
        have ht := hb'' hab.2
        -- head trimmed
        cases init with
        | nil =>
          -- a single child: it is longer than one byte because the span is not blank
          simp only [List.nil_append, List.cons.injEq] at hz
          obtain ⟨hz1, hz2⟩ := hz
          simp at hz1; subst hz1; subst hz2
          simp only [List.getLast?_singleton, List.dropLast_singleton, List.nil_append, Segment.withStart,
            Segment.withStop]
          refine ⟨_, rfl, ?_, by simp [isText]⟩
          simp only [segsOfL, segsOf, List.append_nil, chain]
          have hlen2 : s.start + 1 ≤ s.stop - 1 := by
            by_cases h1b : s.stop - s.start = 1
            · exfalso
              -- the only byte is a space or newline: the span would be blank
              have hlen : s.start.toNat < src.length := by omega
              have hv : sub src s.start.toNat s.stop.toNat = [src[s.start.toNat]] := by
                have e2 : s.stop.toNat = s.start.toNat + 1 := by omega
                rw [e2, sub_cons src hlen (by omega)]
                simp [sub]
              have hedge := ha
              unfold csEdge at hedge
              have hne : s.isEmpty = false := by
                simp only [Segment.isEmpty, sp, Bool.and_eq_false_iff, decide_eq_false_iff_not]; left; omega
              have e : s.start = (s.start.toNat : Int) := by omega
              rw [hne, e, getByte_ok src hlen] at hedge
              simp only [Bool.false_eq_true, if_false, Except.ok.injEq] at hedge
              rw [hab.1] at hedge
              simp only [csIsBlank, seg_value_ok (src := src) sp sf (by omega) hc'.2.1 (by omega), hv] at hb
              have : isBlank [src[s.start.toNat]] = true := by
                simp only [isSpaceOrNewline, Bool.or_eq_true, beq_iff_eq] at hedge
                simp only [isBlank, List.all_cons, List.all_nil, Bool.and_true, isSpace]
                rcases hedge with h | h <;> simp [h]
              simp [this] at hb
            · omega
          simp only [segsOfL, segsOf, List.append_nil, chain] at hc
          exact ⟨by omega, by omega, by omega⟩
        | cons x init' =>
          simp only [List.cons_append, List.cons.injEq] at hz
          obtain ⟨hz1, hz2⟩ := hz
          subst hz1
          have hl2 : (Node.text (s.withStart (s.start + 1)) false false true :: rest).getLast? =
              some (Node.text t false false true) := by
            rw [hz2]
            have : (Node.text (s.withStart (s.start + 1)) false false true :: (init' ++ [Node.text t false false true])) =
                (Node.text (s.withStart (s.start + 1)) false false true :: init') ++ [Node.text t false false true] := rfl
            rw [this, List.getLast?_concat]
          simp only [hl2]
          refine ⟨_, rfl, ?_, ?_⟩
          · have hd : (Node.text (s.withStart (s.start + 1)) false false true :: rest).dropLast =
                Node.text (s.withStart (s.start + 1)) false false true :: init' := by
              rw [hz2]
              have : (Node.text (s.withStart (s.start + 1)) false false true :: (init' ++ [Node.text t false false true])) =
                  (Node.text (s.withStart (s.start + 1)) false false true :: init') ++ [Node.text t false false true] := rfl
              rw [this, List.dropLast_concat]
            rw [hd]
            have hc3 : chain lo hi (segsOfL (Node.text s false false true :: init') ++ [t]) := hct
            simp only [segsOfL, segsOf, List.singleton_append, List.cons_append, chain] at hc3
            have hc4 : chain s.stop hi (segsOfL init' ++ [t]) := by simpa using hc3.2.2
            have hsh := chain_last_shrink (s := t) (s' := t.withStop (t.stop - 1)) rfl rfl hc4 (by omega)
            simp only [List.cons_append, segsOfL, segsOf, chain, Segment.withStart, segsOfL_append, List.append_nil,
              List.nil_append] at hsh ⊢
            exact ⟨by omega, by omega, hsh⟩
          · have : rawL (Node.text (s.withStart (s.start + 1)) false false true :: rest) := by
              intro n hn
              simp only [List.mem_cons] at hn
              rcases hn with rfl | hn
              · exact ⟨_, rfl, sp, rfl⟩
              · exact hr n (by simp [hn])
            have h2 := rawL_isText this
            rw [all_isText_append, all_isText_dropLast h2]; simp [isText]
      · simp only [hab, Bool.not_false, if_true]
        exact ⟨_, rfl, hc, rawL_isText hr⟩

theorem parseCodeSpan_post (F : SegFacts src segs) (Z : ∀ s ∈ segs, s.padding = 0)
    {r : BlockReader} {c : BCur} (h : RS src segs r c) {l : Bytes}
    (hv : BCur.view src segs c = some (96 :: l)) : RPost src segs c (parseCodeSpan r) := by
  obtain ⟨hpl, hpos⟩ := peekLine_facts F h
  obtain ⟨v1, v2, v3, v4, v5, v6, v7, v8⟩ := view_some F h.abs.wf h.pad hv
  have hop : 1 ≤ ((96 :: l : Bytes).takeWhile (· == 96)).length ∧
      ((96 :: l : Bytes).takeWhile (· == 96)).length ≤ (96 :: l : Bytes).length :=
    ⟨by simp [List.takeWhile_cons], takeWhile_len_le _ _⟩
  obtain ⟨r1, c1, e1, e2, e3, e4, e5, _⟩ := advance_ok F Z h
    (n := (((96 :: l : Bytes).takeWhile (· == 96)).length : Int)) (by omega) (by omega)
  unfold parseCodeSpan
  simp only [hpl, hv, bind, Except.bind, Option.getD_some, e1]
  have hk : r1.segments.length = (BCur.k segs).toNat := by rw [e2.abs.segments]; simp [BCur.k]
  obtain ⟨res, rd', c', f1, f2, f3, f4, f5, f6⟩ := csLoop_post F Z ((96 :: l : Bytes).takeWhile (· == 96)).length e2 r.pos
    (r1.segments.length + 2) (acc := []) e2 (by have := e2.abs.wf.ln0; omega) (Int.le_refl _) (Int.le_refl _)
    (Int.le_refl _) (fun _ => by simp [segsOfL, chain]) (by intro n hn; simp at hn)
  have hpos' := (peekLine_facts F f2).2
  have hrng := bpos_wf F f2.abs
  rw [hpos'] at hrng
  simp only [BlockReader.position] at f1
  simp only [BlockReader.position, f1]
  cases res with
  | inl t =>
    simp only at f6
    simp only [pure, Except.pure]
    refine ⟨_, rd', c', rfl, f2, by omega, by omega, ?_⟩
    intro nd hn
    simp at hn; subst hn
    refine ⟨by omega, ?_, by rw [f6]; simp [textOf, wf]⟩
    rw [f6]
    simp only [segsOf, textOf, hpos, Segment.withStop]
    exact chain_single (by simp only; omega) (by simp only; omega) (by simp only; omega)
  | inr ks =>
    simp only at f6
    obtain ⟨ks', g1, g2, g3⟩ := csTrim_post (src := src) f6.2 f6.1 (by omega) (by have := hrng.2.1; have := hrng.2.2.1; simp only at *; omega)
    have hsrc : rd'.source = src := f2.abs.source
    simp only [hsrc, g1, pure, Except.pure]
    refine ⟨_, rd', c', rfl, f2, by omega, by omega, ?_⟩
    intro nd hn
    simp at hn; subst hn
    exact ⟨by omega, by simp only [segsOf]; exact chain_mono (by omega) (Int.le_refl _) g2, by simp [wf, g3]⟩

/-! ### raw HTML -/

theorem tagAttrs_len_le : ∀ (n : Nat) (s : Bytes), s.length ≤ n → ∀ {r : Bytes}, tagAttrs s = some r → r.length ≤ s.length := by
  intro n
  induction n with
  | zero =>
    intro s hs r h
    have : s = [] := by cases s <;> simp_all
    subst this
    rw [tagAttrs] at h
    simp [spanB] at h
  | succ n ih =>
    intro s hs r h
    rw [tagAttrs] at h
    have a1 := spanB_len isTagWS s
    split at h
    · simp at h
    · rename_i c r' hr
      rw [hr] at a1
      simp at a1
      dsimp only at h
      have a2 := length_dropWhile_le isAttrNameChar r'
      have a3 := spanB_len isTagWS (List.dropWhile isAttrNameChar r')
      split at h
      · split at h
        · rename_i r4 h3
          rw [h3] at a3
          simp at a3
          split at h
          · rename_i r6 h5
            have a4 := length_dropWhile_le isTagWS r4
            have a5 := attrValue_len h5
            have := ih r6 (by omega) h
            omega
          · simp at h
        · have := ih _ (by omega) h
          omega
      · repeat' (split at h)
        all_goals first
          | (simp at h; done)
          | (simp at h; subst h; simp at a1 ⊢; omega)

theorem matchOpenTag_bound {s : Bytes} {n : Nat} (h : matchOpenTag s = some n) : 1 ≤ n ∧ n ≤ s.length := by
  unfold matchOpenTag at h
  split at h
  · rename_i c rest
    split at h
    · split at h
      · rename_i r hr
        simp at h; subst h
        have := tagAttrs_len_le _ _ (Nat.le_refl _) hr
        have := length_dropWhile_le isTagNameChar rest
        simp only [List.length_cons]; omega
      · simp at h
    · simp at h
  · simp at h

theorem matchCloseTag_bound {s : Bytes} {n : Nat} (h : matchCloseTag s = some n) : 1 ≤ n ∧ n ≤ s.length := by
  unfold matchCloseTag at h
  split at h
  · rename_i c rest
    split at h
    · simp only at h
      split at h
      · rename_i r' hr
        split at h
        · simp at h; subst h
          have a1 := spanB_len isTagWS (List.dropWhile isTagNameChar rest)
          rw [hr] at a1
          have := length_dropWhile_le isTagNameChar rest
          simp only [List.length_cons] at a1 ⊢; omega
        · simp at h
      · simp at h
    · simp at h
  · simp at h

theorem runeStream_post (F : SegFacts src segs) (Z : ∀ s ∈ segs, s.padding = 0) :
    ∀ (fuel : Nat) {rd : BlockReader} {c : BCur} {acc : Bytes}, RS src segs rd c →
    (BCur.remaining segs c).toNat < fuel →
    ∃ st, runeStream fuel rd acc = .ok st ∧ (st.length : Int) ≤ acc.length + BCur.remaining segs c := by
  intro fuel
  induction fuel with
  | zero => intro rd c acc _ hf; omega
  | succ f ih =>
    intro rd c acc h hf
    obtain ⟨hpl, hpos⟩ := peekLine_facts F h
    have hn := remaining_nonneg F h.abs.wf
    simp only [runeStream, hpl, bind, Except.bind]
    cases hv : BCur.view src segs c with
    | none => exact ⟨_, rfl, by simp; omega⟩
    | some line =>
      obtain ⟨v1, v2, v3, v4, v5, v6, v7, v8⟩ := view_some F h.abs.wf h.pad hv
      simp only
      split
      · exact ⟨_, rfl, by simp; omega⟩
      · rename_i hne
        have hd := decodeRune_size (l := line) (by simpa using hne)
        obtain ⟨r', c', e1, e2, e3, _, _, _⟩ := advance_ok F Z h (n := ((decodeRune line).2 : Int)) (by omega) (by omega)
        simp only [e1]
        obtain ⟨st, g1, g2⟩ := ih (acc := (line.take (decodeRune line).2).reverse ++ acc) e2 (by omega)
        refine ⟨st, g1, ?_⟩
        simp only [List.length_append, List.length_reverse, List.length_take] at g2
        omega

theorem rhUntil_post (F : SegFacts src segs) (Z : ∀ s ∈ segs, s.padding = 0) (closer : Bytes)
    (hcl : 1 ≤ closer.length) {rs : BlockReader} {cs : BCur} (hs : RS src segs rs cs) :
    ∀ (fuel : Nat) {offset : Nat} {rd : BlockReader} {c : BCur} {acc : List Segment}, RS src segs rd c →
    (BCur.k segs - c.ln).toNat < fuel → cs.p ≤ c.p → cs.ln ≤ c.ln →
    BCur.remaining segs c ≤ BCur.remaining segs cs →
    (∀ line, BCur.view src segs c = some line → offset ≤ line.length) →
    (c.ln < BCur.k segs → chain cs.p c.p acc) →
    ∃ res rd' c', rhUntil closer rs.position.1 rs.position.2 fuel offset rd acc = .ok (res, rd') ∧
      RS src segs rd' c' ∧ cs.p ≤ c'.p ∧ cs.ln ≤ c'.ln ∧
      (match res with
        | none => True
        | some sg => chain cs.p c'.p sg ∧ BCur.remaining segs c' + 1 ≤ BCur.remaining segs cs) := by
  intro fuel
  induction fuel with
  | zero => intro offset rd c acc _ hf; omega
  | succ f ih =>
    intro offset rd c acc h hf hp hl hr hoff hch
    obtain ⟨hpl, hpos⟩ := peekLine_facts F h
    simp only [rhUntil, hpl, bind, Except.bind]
    cases hv : BCur.view src segs c with
    | none =>
      obtain ⟨r3, e1, e2⟩ := setPosition_restore F hs h
      simp only [e1, pure, Except.pure]
      exact ⟨_, r3, cs, rfl, e2, Int.le_refl _, Int.le_refl _, trivial⟩
    | some line =>
      obtain ⟨v1, v2, v3, v4, v5, v6, v7, v8⟩ := view_some F h.abs.wf h.pad hv
      have ho := hoff line hv
      simp only
      cases hsc : bytesIndex closer (line.drop offset) 0 with
      | some index =>
        have hb := bytesIndex_bound closer _ 0 index hsc
        simp only [List.length_drop] at hb
        obtain ⟨r', c', e1, e2, e3, e4, e5, _⟩ := advance_ok F Z h (n := ((offset + index + closer.length : Nat) : Int))
          (by omega) (by omega)
        simp only [e1, pure, Except.pure]
        refine ⟨_, r', c', rfl, e2, by omega, by omega, ?_⟩
        simp only
        refine ⟨chain_append (hch v1) ?_, by omega⟩
        simp only [hpos, Segment.withStop]
        exact chain_single (by simp only; omega) (by simp only; omega) (by simp only; omega)
      | none =>
        obtain ⟨r', e1, e2⟩ := advanceLine_ok F Z h
        obtain ⟨a1, a2, a3, a4, a5⟩ := advanceLine_facts F h.abs.wf h.pad
        simp only [e1]
        refine ih e2 (by rw [a1]; omega) (by omega) (by omega) (by omega) (fun _ _ => Nat.zero_le _) ?_
        intro hlt
        rw [a1] at hlt
        refine chain_append (hch v1) ?_
        have := a5 hlt
        simp only [hpos]
        exact chain_single (by simp only; omega) (by simp only; omega) (by simp only; omega)

/-- the segment loop of parseMultiLineRegexp: from the start of the match (cursor `c`) it walks to the cursor
    `ce` where the match ended -/
theorem rhSegments_post (F : SegFacts src segs) (Z : ∀ s ∈ segs, s.padding = 0)
    {c ce : BCur} (wc : BWF segs c) (wce : BWF segs ce) (hce : ce.ln < BCur.k segs) (hcez : ce.pad = 0)
    (hle : c.ln ≤ ce.ln) (hpe : c.p + 1 ≤ ce.p) (es : Segment) (hes : es.start = ce.p) (ssg : Segment)
    (hss : ssg.start = c.p) :
    ∀ (fuel : Nat) {rd : BlockReader} {cj : BCur} {acc : List Segment}, RS src segs rd cj →
    (BCur.k segs - cj.ln).toNat < fuel → cj.ln ≤ ce.ln → c.ln ≤ cj.ln → (cj.ln = c.ln → cj = c) →
    (cj.ln ≠ c.ln → cj.p = (BCur.segOf segs cj.ln).start ∧
      BCur.remaining segs cj + 1 ≤ BCur.remaining segs c) →
    c.p ≤ cj.p → chain c.p cj.p acc →
    ∃ sg rd' c', rhSegments c.ln ssg ce.ln es fuel rd acc = .ok (sg, rd') ∧ RS src segs rd' c' ∧
      c.p ≤ c'.p ∧ c.ln ≤ c'.ln ∧ chain c.p c'.p sg ∧ BCur.remaining segs c' + 1 ≤ BCur.remaining segs c := by
  intro fuel
  induction fuel with
  | zero => intro rd cj acc _ hf; omega
  | succ f ih =>
    intro rd cj acc h hf hjl hcl hsame hdiff hpj hch
    obtain ⟨hpl, hpos⟩ := peekLine_facts F h
    have wj := h.abs.wf
    have hjk : cj.ln < BCur.k segs := by omega
    have ij := wj.inLine hjk
    have ie := wce.inLine hce
    -- the cursor is live: it is `c` itself or the start of a line
    have hstj : BCur.stopOf segs cj = (BCur.segOf segs cj.ln).stop := by simp [BCur.stopOf, hjk]
    have hlive : BCur.live segs cj = true := by
      simp only [BCur.live, hjk, decide_true, Bool.true_and, decide_eq_true_eq]
      by_cases hjc : cj.ln = c.ln
      · have := hsame hjc; subst this
        have : ce.p ≤ BCur.lastStop segs := by
          have := stop_le_last F (i := ce.ln) wce.ln0 hce
          rcases ie.2 with h' | ⟨_, h'⟩ <;> omega
        omega
      · have r := F.rng cj.ln wj.ln0 hjk
        have := (hdiff hjc).1
        have := stop_le_last F (i := cj.ln) wj.ln0 hjk
        omega
    have hv : ∃ line, BCur.view src segs cj = some line := by simp [BCur.view, hlive]
    obtain ⟨line, hv⟩ := hv
    obtain ⟨v1, v2, v3, v4, v5, v6, v7, v8⟩ := view_some F wj h.pad hv
    simp only [rhSegments, hpl, hv, bind, Except.bind, BlockReader.position, h.abs.line]
    have hstart : (if (cj.ln == c.ln) = true then ssg.start else rd.pos.start) = cj.p := by
      by_cases hjc : cj.ln = c.ln
      · simp only [hjc, beq_self_eq_true, if_true]; rw [hss, hsame hjc]
      · have : (cj.ln == c.ln) = false := by simpa using hjc
        simp only [this, Bool.false_eq_true, if_false]; rw [hpos]
    by_cases hje : cj.ln = ce.ln
    · -- the last line of the match
      simp only [hje, if_true, beq_self_eq_true]
      have hstart' : (if (ce.ln == c.ln) = true then ssg.start else rd.pos.start) = cj.p := by rw [← hje]; exact hstart
      rw [hstart', hes]
      have hpje : cj.p ≤ ce.p := by
        by_cases hjc : cj.ln = c.ln
        · have := hsame hjc; subst this; omega
        · have := (hdiff hjc).1; rw [hje] at this; omega
      have hest : ce.p ≤ BCur.stopOf segs cj := by
        rw [hstj, hje]; rcases ie.2 with h' | ⟨_, h'⟩ <;> omega
      obtain ⟨r', c', e1, e2, e3, e4, e5, _⟩ := advance_ok F Z h (n := ce.p - cj.p) (by omega) (by omega)
      simp only [e1, pure, Except.pure]
      refine ⟨_, r', c', rfl, e2, by omega, by omega, ?_, ?_⟩
      · refine chain_append hch (chain_single (by simp only; omega) (by simp only; omega) (by simp only; omega))
      · by_cases hjc : cj.ln = c.ln
        · have := hsame hjc; subst this; omega
        · have := (hdiff hjc).2; omega
    · have hne : (cj.ln == ce.ln) = false := by simpa using hje
      simp only [hje, if_false, hne, Bool.false_eq_true]
      rw [hstart]
      obtain ⟨r', e1, e2⟩ := advanceLine_ok F Z h
      obtain ⟨a1, a2, a3, a4, a5⟩ := advanceLine_facts F wj h.pad
      have hlt : cj.ln + 1 < BCur.k segs := by omega
      have hnext : BCur.advanceLine segs cj = ⟨cj.ln + 1, (BCur.segOf segs (cj.ln + 1)).start,
          (BCur.segOf segs (cj.ln + 1)).padding⟩ := by simp [BCur.advanceLine, hlt]
      simp only [e1]
      refine ih e2 (by rw [a1]; omega) (by rw [a1]; omega) (by rw [a1]; omega) (by rw [a1]; intro hh; omega) ?_ (by omega) ?_
      · intro _
        refine ⟨by rw [hnext], ?_⟩
        have := a4 hlive
        by_cases hjc : cj.ln = c.ln
        · have := hsame hjc; subst this; omega
        · have := (hdiff hjc).2; omega
      · have := a5 hlt
        rw [hpos]
        exact chain_append hch (chain_single (by simp only; omega) (by simp only; omega) (by simp only; omega))

theorem segments_len {r : BlockReader} {c : BCur} (h : RS src segs r c) :
    (BCur.k segs - c.ln).toNat < r.segments.length + 2 := by
  have := h.abs.wf.ln0
  rw [h.abs.segments]; simp only [BCur.k]; omega

theorem parseTag_post (W : WFSegs src segs) (Z : ∀ s ∈ segs, s.padding = 0) (matcher : Bytes → Option Nat)
    (hm : ∀ s n, matcher s = some n → 1 ≤ n ∧ n ≤ s.length)
    {r : BlockReader} {c : BCur} (h : RS src segs r c) (hk : c.ln < BCur.k segs) :
    RPost src segs c (parseTag matcher r) := by
  have F := segFacts W
  obtain ⟨st, hst, hlen⟩ := runeStream_post F Z (rdFuel r) (acc := []) h (rdFuel_gt W Z h)
  obtain ⟨r2, s1, s2⟩ := setPosition_restore F h h
  unfold parseTag
  simp only [hst, bind, Except.bind, s1]
  cases hmt : matcher st with
  | none =>
    simp only [pure, Except.pure]
    exact ⟨none, r2, c, rfl, s2, Int.le_refl _, Int.le_refl _, by simp⟩
  | some n =>
    obtain ⟨n1, n2⟩ := hm st n hmt
    simp only [List.length_nil, Int.natCast_zero, Int.zero_add] at hlen
    obtain ⟨r3, ce, e1, e2, e3, e4, e5, e6⟩ := advance_ok F Z s2 (n := (n : Int)) (by omega) (by omega)
    obtain ⟨r4, t1, t2⟩ := setPosition_restore F h e2
    simp only [e1, t1]
    have hcek : ce.ln < BCur.k segs := by
      rw [e6]; exact advN_ln_lt F Z _ h.abs.wf h.pad (by omega) hk
    have hpos3 := (peekLine_facts F e2).2
    obtain ⟨sg, rd', c', g1, g2, g3, g4, g5, g6⟩ := rhSegments_post F Z h.abs.wf e2.abs.wf hcek e2.pad e4 (by omega)
      r3.pos (by rw [hpos3]) r.pos (by rw [(peekLine_facts F h).2]) (r4.segments.length + 2) (acc := []) t2
      (segments_len t2) e4 (Int.le_refl _) (fun _ => rfl) (fun hh => absurd rfl hh) (Int.le_refl _)
      (by simp [chain])
    simp only [BlockReader.position, h.abs.line, e2.abs.line] at g1 ⊢
    simp only [g1, pure, Except.pure]
    refine ⟨_, rd', c', rfl, g2, g3, g4, ?_⟩
    intro nd hn
    simp at hn; subst hn
    exact ⟨g6, by simpa [segsOf] using g5, by simp [wf]⟩

theorem isPrefixOf_len {p l : Bytes} (h : p.isPrefixOf l = true) : p.length ≤ l.length :=
  List.IsPrefix.length_le (List.isPrefixOf_iff_prefix.mp h)

theorem parseRawHTML_post (W : WFSegs src segs) (Z : ∀ s ∈ segs, s.padding = 0)
    {r : BlockReader} {c : BCur} (h : RS src segs r c) {b : UInt8} {l : Bytes}
    (hv : BCur.view src segs c = some (b :: l)) : RPost src segs c (parseRawHTML r) := by
  have F := segFacts W
  obtain ⟨hpl, hpos⟩ := peekLine_facts F h
  obtain ⟨v1, v2, v3, v4, v5, v6, v7, v8⟩ := view_some F h.abs.wf h.pad hv
  have hnone : RPost src segs c (.ok (none, r)) := ⟨none, r, c, rfl, h, Int.le_refl _, Int.le_refl _, by simp⟩
  have huntil : ∀ (closer : Bytes) (offset : Nat), 1 ≤ closer.length → offset ≤ (b :: l).length →
      ∃ res rd' c', rhUntil closer r.position.1 r.position.2 (r.segments.length + 2) offset r [] = .ok (res, rd') ∧
        RS src segs rd' c' ∧ c.p ≤ c'.p ∧ c.ln ≤ c'.ln ∧
        (match res with
          | none => True
          | some sg => chain c.p c'.p sg ∧ BCur.remaining segs c' + 1 ≤ BCur.remaining segs c) := by
    intro closer offset hc ho
    exact rhUntil_post F Z closer hc h (r.segments.length + 2) (offset := offset)
      (acc := []) h (segments_len h) (Int.le_refl _) (Int.le_refl _) (Int.le_refl _)
      (fun line hl => by rw [hv] at hl; simp at hl; subst hl; exact ho) (fun _ => by simp [chain])
  have hfin : ∀ {res : Option (List Segment)} {rd' : BlockReader} {c' : BCur}, RS src segs rd' c' → c.p ≤ c'.p →
      c.ln ≤ c'.ln →
      (match res with
        | none => True
        | some sg => chain c.p c'.p sg ∧ BCur.remaining segs c' + 1 ≤ BCur.remaining segs c) →
      ∀ (n : Option Node), (n = match res with | some sgs => some (Node.rawHTML sgs) | none => none) →
      RPost src segs c (.ok (n, rd')) := by
    intro res rd' c' g2 g3 g4 g5 n hn
    cases res with
    | none => subst hn; exact ⟨none, rd', c', rfl, g2, g3, g4, by simp⟩
    | some sgs =>
      simp only at g5 hn
      subst hn
      refine ⟨_, rd', c', rfl, g2, g3, g4, ?_⟩
      intro nd hn
      simp at hn; subst hn
      exact ⟨g5.2, by simpa [segsOf] using g5.1, by simp [wf]⟩
  unfold parseRawHTML
  simp only [hpl, hv, bind, Except.bind, Option.getD_some, pure, Except.pure]
  have hadv : ∀ (n : Nat), 1 ≤ n → n ≤ (b :: l).length →
      ∃ r' c', BlockReader.advance (n : Int) r = .ok r' ∧ RS src segs r' c' ∧ c.p + n ≤ c'.p ∧ c.ln ≤ c'.ln ∧
        BCur.remaining segs c' = BCur.remaining segs c - n := by
    intro n hn1 hn2
    obtain ⟨r', c', e1, e2, e3, e4, e5, _⟩ := advance_ok F Z h (n := (n : Int)) (by omega) (by omega)
    exact ⟨r', c', e1, e2, e5, e4, e3⟩
  have hadvfin : ∀ (n : Nat), 1 ≤ n → ∀ {r' : BlockReader} {c' : BCur}, RS src segs r' c' → c.p + n ≤ c'.p →
      c.ln ≤ c'.ln → BCur.remaining segs c' = BCur.remaining segs c - n →
      RPost src segs c (.ok (some (Node.rawHTML [r.pos.withStop (r.pos.start + n)]), r')) := by
    intro n hn1 r' c' e2 e5 e4 e3
    refine ⟨_, r', c', rfl, e2, by omega, e4, ?_⟩
    intro nd hnd
    simp at hnd; subst hnd
    refine ⟨by omega, ?_, by simp [wf]⟩
    simp only [segsOf, hpos, Segment.withStop]
    exact chain_single (by simp only; omega) (by simp only; omega) (by simp only; omega)
  split
  · exact parseTag_post W Z _ (fun s n => matchOpenTag_bound) h v1
  · split
    · exact parseTag_post W Z _ (fun s n => matchCloseTag_bound) h v1
    · split
      · rename_i hp
        have hl4 := isPrefixOf_len hp
        split
        · rename_i hp5
          obtain ⟨r', c', e1, e2, e5, e4, e3⟩ := hadv 5 (by omega) (isPrefixOf_len hp5)
          have e1' : BlockReader.advance 5 r = .ok r' := by exact_mod_cast e1
          rw [e1']
          exact_mod_cast hadvfin 5 (by omega) e2 e5 e4 e3
        · split
          · rename_i hp6
            obtain ⟨r', c', e1, e2, e5, e4, e3⟩ := hadv 6 (by omega) (isPrefixOf_len hp6)
            have e1' : BlockReader.advance 6 r = .ok r' := by exact_mod_cast e1
            rw [e1']
            exact_mod_cast hadvfin 6 (by omega) e2 e5 e4 e3
          · obtain ⟨res, rd', c', g1, g2, g3, g4, g5⟩ := huntil bCloseComment 4 (by simp [bCloseComment]) (by simpa [bOpenComment] using hl4)
            rw [g1]
            cases res with
            | none => exact hfin (res := none) g2 g3 g4 g5 none rfl
            | some sgs => exact hfin (res := some sgs) g2 g3 g4 g5 _ rfl
      · split
        · obtain ⟨res, rd', c', g1, g2, g3, g4, g5⟩ := huntil bClosePI 0 (by simp [bClosePI]) (Nat.zero_le _)
          rw [g1]
          cases res with
          | none => exact hfin (res := none) g2 g3 g4 g5 none rfl
          | some sgs => exact hfin (res := some sgs) g2 g3 g4 g5 _ rfl
        · split
          · obtain ⟨res, rd', c', g1, g2, g3, g4, g5⟩ := huntil [62] 0 (by simp) (Nat.zero_le _)
            rw [g1]
            cases res with
            | none => exact hfin (res := none) g2 g3 g4 g5 none rfl
            | some sgs => exact hfin (res := some sgs) g2 g3 g4 g5 _ rfl
          · split
            · obtain ⟨res, rd', c', g1, g2, g3, g4, g5⟩ := huntil bCloseCDATA 0 (by simp [bCloseCDATA]) (Nat.zero_le _)
              rw [g1]
              cases res with
              | none => exact hfin (res := none) g2 g3 g4 g5 none rfl
              | some sgs => exact hfin (res := some sgs) g2 g3 g4 g5 _ rfl
            · exact hnone

end GM.Proof.InlinesTotal
