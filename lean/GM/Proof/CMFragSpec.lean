/-
  GM.Proof.CMFragSpec — the fragment GM.Spec.CMFrag inside the spec model GM.Spec.CommonMark:
  * `expectedF_eq_expected`: the prescribed HTML of a fragment document is `expected` of the embedded document;
  * `spellF_eq_spell`: for a NON-EMPTY fragment document without extra blank lines the source is `spell` of the
    embedded document, byte for byte. (For the empty document `spellF` is the empty source while `spell` of the
    empty `Doc` is one line feed: `spellF_empty_ne_spell`.)
-/
import GM.Spec.CMFrag
namespace GM.Proof.CMFrag
open GM GM.Spec.CM GM.Spec.CMFrag

/-! ### S1: prescribed HTML -/

theorem render_append (a b : List Piece) : render (a ++ b) = render a ++ render b := by
  simp [render]

theorem render_expIs_embedLines (ls : List FLine) :
    render (expIs (embedLines ls)) = GM.Spec.CMFrag.joinNl (ls.map fun l => escHtml (plain l)) := by
  induction ls with
  | nil => simp [embedLines, expIs, render, GM.Spec.CMFrag.joinNl]
  | cons l rest ih =>
    cases rest with
    | nil => simp [embedLines, expIs, expI, render, renderPiece, GM.Spec.CMFrag.joinNl]
    | cons l' rest =>
      have e : embedLines (l :: l' :: rest) = .text l :: .softBreak :: embedLines (l' :: rest) := rfl
      rw [e, expIs, expIs, render_append, render_append, ih]
      simp [expI, render, renderPiece, nl, GM.Spec.CMFrag.joinNl]

theorem render_expB_para (ls : List FLine) :
    render (expB false false (embedBlock (.para ls))) = expBlock (.para ls) := by
  rw [embedBlock, expB]
  simp only [wrap, Bool.false_eq_true, if_false, List.cons_append]
  have h1 : strBytes "<p>" = [60] ++ strBytes "p" ++ [62] := by decide +kernel
  have h2 : strBytes "</p>\n" = [60, 47] ++ strBytes "p" ++ [62] ++ [10] := by decide +kernel
  rw [expBlock, h1, h2, ← render_expIs_embedLines]
  simp [render, renderPiece, nl]

theorem render_expBs_embed (its : List FItem) :
    render (expBs false false (its.map fun it => embedBlock it.block)) = its.flatMap fun it => expBlock it.block := by
  induction its with
  | nil => simp [expBs, render]
  | cons it rest ih =>
    obtain ⟨g, b⟩ := it
    cases b with
    | para ls =>
      rw [List.map_cons, expBs, render_append, ih]
      simp [render_expB_para]

theorem expectedF_eq_expected_any (d : FDoc) : expectedF d = expected (embed d) := by
  rw [expected, expectedPieces, embed, expectedF, render_expBs_embed]

theorem expectedF_eq_expected (d : FDoc) (_h : Frag d) : expectedF d = expected (embed d) :=
  expectedF_eq_expected_any d

/-! ### S2: source -/

/-- bytes of a spelling: printable ASCII (so: no line feed, none of the white-space marks 1, 2, 3) -/
theorem spell_lit_printable : ∀ c : UInt8, printable c = true → (spellChar ⟨c, .lit⟩).all printable = true := by
  apply forall_uint8; decide +kernel
theorem spell_bs_printable : ∀ c : UInt8, printable c = true → (spellChar ⟨c, .bs⟩).all printable = true := by
  apply forall_uint8; decide +kernel
theorem spell_named_printable : ∀ c : UInt8, printable c = true → (spellChar ⟨c, .named⟩).all printable = true := by
  apply forall_uint8; decide +kernel
theorem decDigits_printable : ∀ c : UInt8, (decDigits c.toNat).all printable = true := by
  apply forall_uint8; decide +kernel
theorem hexDigits_printable : ∀ c : UInt8, ∀ up, (hexDigits up c.toNat).all printable = true := by
  apply forall_uint8; decide +kernel
theorem zeros_printable (k : Nat) : (zeros k).all printable = true := by
  simp [zeros]; right; decide

theorem spellChar_printable (t : TChar) (h : printable t.c = true) : (spellChar t).all printable = true := by
  obtain ⟨c, e⟩ := t
  cases e with
  | lit => exact spell_lit_printable c h
  | bs => exact spell_bs_printable c h
  | named => exact spell_named_printable c h
  | dec pad =>
    simp only [spellChar, List.all_append, Bool.and_eq_true]
    exact ⟨⟨⟨by decide, zeros_printable _⟩, decDigits_printable c⟩, by decide⟩
  | hex pad upX upD =>
    simp only [spellChar, List.all_append, Bool.and_eq_true]
    exact ⟨⟨⟨by cases upX <;> decide, zeros_printable _⟩, hexDigits_printable c upD⟩, by decide⟩

theorem escSpell_printable (l : FLine) (h : ∀ t ∈ l, printable t.c = true) : (escSpell l).all printable = true := by
  induction l with
  | nil => rfl
  | cons t ts ih =>
    simp only [escSpell, List.flatMap_cons, List.all_append, Bool.and_eq_true]
    exact ⟨spellChar_printable t (h t (by simp)), ih (fun x hx => h x (by simp [hx]))⟩

theorem printable_facts : ∀ c : UInt8, printable c = true → c ≠ 10 ∧ c ≠ wsMarkQ ∧ c ≠ wsMarkL ∧ c ≠ wsMarkD := by
  apply forall_uint8; decide +kernel

/-! #### `spellIs` of a paragraph's lines -/

theorem spellIs_embedLines (ls : List FLine) (pa : Bool) :
    spellIs pa (embedLines ls) = GM.Spec.CMFrag.joinNl (ls.map escSpell) := by
  induction ls generalizing pa with
  | nil => simp [embedLines, spellIs, GM.Spec.CMFrag.joinNl]
  | cons l rest ih =>
    cases rest with
    | nil => simp [embedLines, spellIs, spellI, GM.Spec.CMFrag.joinNl]
    | cons l' rest =>
      have e : embedLines (l :: l' :: rest) = .text l :: .softBreak :: embedLines (l' :: rest) := rfl
      rw [e]
      simp only [spellIs, spellI]
      rw [ih]
      simp [GM.Spec.CMFrag.joinNl]

/-! #### `splitLines` -/

def splitStep (c : UInt8) (acc : Bytes × List Bytes) : Bytes × List Bytes :=
  if c == 10 then ([], acc.1 :: acc.2) else (c :: acc.1, acc.2)

theorem splitLines_eq (b : Bytes) : splitLines b = (b.foldr splitStep ([], [])).1 :: (b.foldr splitStep ([], [])).2 := rfl

theorem foldr_split_run (l rest : Bytes) (h : ∀ c ∈ l, c ≠ 10) :
    (l ++ rest).foldr splitStep ([], []) =
      (l ++ (rest.foldr splitStep ([], [])).1, (rest.foldr splitStep ([], [])).2) := by
  induction l with
  | nil => simp
  | cons c l ih =>
    have hc : (c == 10) = false := by simpa using h c (by simp)
    rw [List.cons_append, List.foldr_cons, ih (fun x hx => h x (by simp [hx]))]
    simp [splitStep, hc]

theorem splitLines_line (l : Bytes) (h : ∀ c ∈ l, c ≠ 10) : splitLines l = [l] := by
  have := foldr_split_run l [] h
  rw [splitLines_eq]; simp at this; rw [this]

theorem splitLines_cons (l rest : Bytes) (h : ∀ c ∈ l, c ≠ 10) :
    splitLines (l ++ 10 :: rest) = l :: splitLines rest := by
  rw [splitLines_eq, foldr_split_run l _ h, List.foldr_cons, splitLines_eq]
  simp [splitStep]

theorem splitLines_joinNl (ls : List Bytes) (hne : ls ≠ []) (h : ∀ l ∈ ls, ∀ c ∈ l, c ≠ 10) :
    splitLines (GM.Spec.CMFrag.joinNl ls) = ls := by
  induction ls with
  | nil => exact absurd rfl hne
  | cons l rest ih =>
    cases rest with
    | nil => simp [GM.Spec.CMFrag.joinNl, splitLines_line l (h l (by simp))]
    | cons l' rest =>
      have e : GM.Spec.CMFrag.joinNl (l :: l' :: rest) = l ++ 10 :: GM.Spec.CMFrag.joinNl (l' :: rest) := by
        simp [GM.Spec.CMFrag.joinNl]
      rw [e, splitLines_cons l _ (h l (by simp)), ih (by simp) (fun x hx => h x (by simp [hx]))]

/-! #### `renderLine` -/

theorem renderBody_id (mq md ml : Nat) (l : Bytes) (h : ∀ c ∈ l, c ≠ wsMarkQ ∧ c ≠ wsMarkL ∧ c ≠ wsMarkD) (col : Nat) :
    renderBody mq md ml col l = l := by
  induction l generalizing col with
  | nil => simp [renderBody]
  | cons c tl ih =>
    obtain ⟨h1, h2, h3⟩ := h c (by simp)
    cases tl with
    | nil => simp [renderBody, h1, h2, h3]
    | cons k rest =>
      rw [renderBody]
      simp [h1, h2, h3, ih (fun x hx => h x (by simp [hx]))]

theorem renderLine_plain (l : Bytes) (h : ∀ c ∈ l, c ≠ wsMarkQ ∧ c ≠ wsMarkL ∧ c ≠ wsMarkD) :
    renderLine 0 0 0 0 (0, l) = l := by
  simp [renderLine, lcol, spellIndent, spaces, renderBody_id 0 0 0 l h]

/-! #### the lines of a document -/

theorem charOK_printable (t : TChar) (h : charOK t = true) : printable t.c = true := by
  simp only [charOK, Bool.and_eq_true] at h; exact h.1

theorem lineOK_printable (l : FLine) (h : lineOK l = true) : ∀ t ∈ l, printable t.c = true := by
  unfold lineOK at h
  split at h
  · simp only [Bool.and_eq_true, List.all_eq_true] at h
    exact fun t ht => charOK_printable t (h.2 t ht)
  · cases h

theorem paraLines_embed (ls : List FLine) (hne : ls ≠ []) (hok : ∀ l ∈ ls, lineOK l = true) :
    (paraLines 0 0 (spellIs false (embedLines ls))).map (renderLine 0 0 0 0) = ls.map escSpell := by
  have hpr : ∀ b ∈ ls.map escSpell, ∀ c ∈ b, printable c = true := by
    intro b hb c hc
    obtain ⟨l, hl, rfl⟩ := List.mem_map.mp hb
    exact List.all_eq_true.mp (escSpell_printable l (lineOK_printable l (hok l hl))) c hc
  have hsplit := splitLines_joinNl (ls.map escSpell) (by simpa using hne)
    (fun b hb c hc => (printable_facts c (hpr b hb c hc)).1)
  rw [paraLines, spellIs_embedLines, hsplit]
  cases hls : ls.map escSpell with
  | nil => simp at hls; exact absurd hls hne
  | cons f rest =>
    rw [hls] at hpr
    simp only [List.map_cons, List.map_map]
    congr 1
    · exact renderLine_plain f (fun c hc => (printable_facts c (hpr f (by simp) c hc)).2)
    · conv => rhs; rw [← List.map_id rest]
      apply List.map_congr_left
      intro b hb
      exact renderLine_plain b (fun c hc => (printable_facts c (hpr b (by simp [hb]) c hc)).2)

/-- the source lines of the items (a blank line in front of every item but the first) -/
def docLines (first : Bool) : List FItem → List Bytes
  | [] => []
  | it :: rest =>
    (if first then [] else [[]]) ++ (match it.block with | .para ls => ls.map escSpell) ++ docLines false rest

theorem spellBs_para (prev pm : Nat) (kids : List Inline) (rest : List Block) :
    spellBs false false prev pm (.para {} kids 0 :: rest) =
      (if prev == 0 then [] else [blankLine]) ++ paraLines 0 0 (spellIs false kids) ++ spellBs false false 1 0 rest := by
  simp only [spellBs, kindOf, bch, spellB]
  simp

theorem renderLine_blank : renderLine 0 0 0 0 blankLine = [] := by
  simp [blankLine, renderLine, lcol, spellIndent, spaces, renderBody]

theorem spellBs_embed (its : List FItem) (hok : ∀ it ∈ its, GM.Spec.CMFrag.blockOK it.block = true) (prev pm : Nat) :
    (spellBs false false prev pm (its.map fun it => embedBlock it.block)).map (renderLine 0 0 0 0) =
      docLines (prev == 0) its := by
  induction its generalizing prev pm with
  | nil => simp [spellBs, docLines]
  | cons it rest ih =>
    obtain ⟨g, b⟩ := it
    cases b with
    | para ls =>
      have hb := hok ⟨g, .para ls⟩ (by simp)
      simp only [GM.Spec.CMFrag.blockOK, Bool.and_eq_true, List.all_eq_true, Bool.not_eq_true',
        List.isEmpty_eq_false_iff] at hb
      have hp := paraLines_embed ls hb.1 hb.2
      have ih' := ih (fun x hx => hok x (by simp [hx])) 1 0
      rw [List.map_cons, embedBlock, spellBs_para, List.map_append, List.map_append, hp, ih', docLines]
      by_cases h0 : prev = 0
      · subst h0; simp
      · have : (prev == 0) = false := by simpa using h0
        simp [this, renderLine_blank]

theorem joinLines_flatMap (ls : List Bytes) (hne : ls ≠ []) :
    joinLines ls ++ [10] = ls.flatMap (· ++ [10]) := by
  induction ls with
  | nil => exact absurd rfl hne
  | cons l rest ih =>
    cases rest with
    | nil => simp [joinLines]
    | cons l' rest =>
      have e : joinLines (l :: l' :: rest) = l ++ [10] ++ joinLines (l' :: rest) := by simp [joinLines]
      rw [e, List.append_assoc, ih (by simp)]
      simp

theorem docLines_flatMap (its : List FItem) (hg : ∀ it ∈ its, it.gap = 0) (first : Bool) :
    (docLines first its).flatMap (· ++ [10]) = spellItems first its := by
  induction its generalizing first with
  | nil => simp [docLines, GM.Spec.CMFrag.spellItems]
  | cons it rest ih =>
    obtain ⟨g, b⟩ := it
    have hg0 : g = 0 := hg ⟨g, b⟩ (by simp)
    subst hg0
    cases b with
    | para ls =>
      rw [docLines, GM.Spec.CMFrag.spellItems, List.flatMap_append, List.flatMap_append, ih (fun x hx => hg x (by simp [hx]))]
      cases first
      · simp [blanks, spellBlock, List.flatMap_map]; rfl
      · simp [blanks, spellBlock, List.flatMap_map]; rfl

theorem docLines_ne (it : FItem) (rest : List FItem) (h : GM.Spec.CMFrag.blockOK it.block = true) :
    docLines true (it :: rest) ≠ [] := by
  obtain ⟨g, b⟩ := it
  cases b with
  | para ls =>
    simp only [GM.Spec.CMFrag.blockOK, Bool.and_eq_true, Bool.not_eq_true', List.isEmpty_eq_false_iff] at h
    cases ls with
    | nil => exact absurd rfl h.1
    | cons l ls => simp [docLines]

/-- S2: a non-empty fragment document without extra blank lines is spelled byte for byte like the embedded one -/
theorem spellF_eq_spell (d : FDoc) (h : Frag d) (hb : noExtraBlanks d = true) (hne : d.items ≠ []) :
    spellF d = spell (embed d) := by
  obtain ⟨items, trail⟩ := d
  simp only [noExtraBlanks, Bool.and_eq_true, beq_iff_eq, List.all_eq_true] at hb
  obtain ⟨ht, hg⟩ := hb
  simp only at ht hne; subst ht
  have hok : ∀ it ∈ items, GM.Spec.CMFrag.blockOK it.block = true := by
    have := h; simp only [Frag, fragB, List.all_eq_true] at this; exact this
  have hl := spellBs_embed items hok 0 0
  cases items with
  | nil => exact absurd rfl hne
  | cons it rest =>
    have hdn := docLines_ne it rest (hok it (by simp))
    simp only [spell, embed, spellF, blanks, List.replicate_zero, List.append_nil, if_true]
    rw [hl]
    simp only [beq_self_eq_true]
    rw [joinLines_flatMap _ hdn, docLines_flatMap _ hg]

/-- … and the empty document is the exception: its source is empty, the spec model writes one line feed -/
theorem spellF_empty_ne_spell : spellF { items := [] } ≠ spell (embed { items := [] }) := by decide +kernel

end GM.Proof.CMFrag
