/-
  GM.Proof.BlocksTerm — termination of the block phase: the two line loops of `parseBlocks` need at most
  (number of lines + 2) iterations, for every source.

  Line level. `Stop src b s`: the reader still reads `src`, `0 ≤ pos.Stop ≤ len` and `b ≤ pos.Stop`. Every
  reader primitive keeps it (the reader never moves `pos.Stop` backwards), hence so does every block
  parser (GM.Proof.BlocksPres). `mu` = number of lines after the current one + 1 if there is a current
  line; `AdvanceLine` after a line that was there decreases it.
-/
import GM.Proof.BlocksPres

namespace GM.Blocks
open GM GM.Text

/-! ### scans (as in GM.Proof.Reader) -/

theorem lineLen_le (l : Bytes) : lineLen l ≤ l.length := by
  induction l with
  | nil => simp [lineLen]
  | cons c cs ih => simp only [lineLen]; split <;> simp <;> omega

theorem lineLen_pos {l : Bytes} (h : l ≠ []) : 0 < lineLen l := by
  cases l with
  | nil => exact absurd rfl h
  | cons c cs => simp only [lineLen]; split <;> omega

theorem lineEnd_le (src : Bytes) (p : Nat) : lineEnd src p ≤ src.length := by
  unfold lineEnd; split
  · have := lineLen_le (src.drop p); simp at this; omega
  · omega

theorem lineEnd_ge (src : Bytes) {p : Nat} (h : p ≤ src.length) : p ≤ lineEnd src p := by
  unfold lineEnd; simp [h]

theorem lt_lineEnd (src : Bytes) {p : Nat} (h : p < src.length) : p < lineEnd src p := by
  unfold lineEnd
  have hne : src.drop p ≠ [] := by
    intro e; have := congrArg List.length e; simp at this; omega
  have := lineLen_pos hne
  simp [Nat.le_of_lt h]; omega

/-! ### the line measure -/

/-- number of `\n` -/
def nlCount (l : Bytes) : Nat := (l.filter (· == 10)).length

/-- lines from byte `p` on -/
def linesAfter (src : Bytes) (p : Nat) : Nat := nlCount (src.drop p) + (if p < src.length then 1 else 0)

theorem nlCount_cons (c : UInt8) (cs : Bytes) : nlCount (c :: cs) = (if c == 10 then 1 else 0) + nlCount cs := by
  unfold nlCount; simp only [List.filter]; split <;> simp_all <;> omega

theorem nlCount_drop_le (l : Bytes) (k : Nat) : nlCount (l.drop k) ≤ nlCount l := by
  induction l generalizing k with
  | nil => simp
  | cons c cs ih =>
    cases k with
    | zero => simp
    | succ k => simp only [List.drop_succ_cons]; have := ih k; rw [nlCount_cons]; omega

theorem linesAfter_antitone (src : Bytes) {p q : Nat} (h : p ≤ q) : linesAfter src q ≤ linesAfter src p := by
  unfold linesAfter
  have e : src.drop q = (src.drop p).drop (q - p) := by rw [List.drop_drop]; congr 1; omega
  have := nlCount_drop_le (src.drop p) (q - p)
  rw [← e] at this
  split <;> split <;> omega

theorem nlCount_lineLen (l : Bytes) (h : l ≠ []) :
    nlCount (l.drop (lineLen l)) + (if lineLen l < l.length then 1 else 0) ≤ nlCount l := by
  induction l with
  | nil => exact absurd rfl h
  | cons c cs ih =>
    by_cases hc : (c == 10) = true
    · simp only [lineLen, hc, if_true, List.drop_succ_cons, List.drop_zero, nlCount_cons, List.length_cons]
      split <;> omega
    · have hc' : (c == 10) = false := by simpa using hc
      simp only [lineLen, hc', Bool.false_eq_true, if_false, nlCount_cons, List.length_cons]
      have e : List.drop (1 + lineLen cs) (c :: cs) = cs.drop (lineLen cs) := by
        rw [Nat.add_comm]; rfl
      rw [e]
      by_cases hcs : cs = []
      · subst hcs; simp [lineLen, nlCount]
      · have := ih hcs
        have e2 : (1 + lineLen cs < cs.length + 1) ↔ (lineLen cs < cs.length) := by omega
        simp only [e2]
        omega

theorem linesAfter_lineEnd (src : Bytes) {p : Nat} (h : p < src.length) :
    linesAfter src (lineEnd src p) + 1 ≤ linesAfter src p := by
  unfold linesAfter lineEnd
  rw [if_pos (Nat.le_of_lt h), if_pos h]
  have hne : src.drop p ≠ [] := by
    intro e; have := congrArg List.length e; simp at this; omega
  have := nlCount_lineLen (src.drop p) hne
  rw [List.drop_drop] at this
  have e : (lineLen (src.drop p) < (src.drop p).length) ↔ (p + lineLen (src.drop p) < src.length) := by
    simp; omega
  simp only [e] at this
  omega

theorem linesAfter_zero (src : Bytes) : linesAfter src 0 ≤ lineCount src := by
  unfold linesAfter lineCount nlCount; simp; split <;> omega

theorem linesAfter_len (src : Bytes) : linesAfter src src.length = 0 := by
  unfold linesAfter nlCount; simp

/-- there is a current line (`PeekLine` is not nil) -/
def hasLine (r : Reader) : Bool := decide (r.pos.start ≥ 0 ∧ r.pos.start < r.sourceLength)

/-- lines still to come, the current one included -/
def mu (src : Bytes) (r : Reader) : Nat := linesAfter src r.pos.stop.toNat + (if hasLine r then 1 else 0)

/-! ### the line-level invariant and the reader primitives -/

structure Stop (src : Bytes) (b : Int) (s : St) : Prop where
  source : s.r.source = src
  stop0 : 0 ≤ s.r.pos.stop
  stop_le : s.r.pos.stop ≤ src.length
  lb : b ≤ s.r.pos.stop

theorem Stop.ronly (src : Bytes) (b : Int) : ROnly (Stop src b) := fun _ _ _ h => ⟨h.source, h.stop0, h.stop_le, h.lb⟩

/-- the reader-level content of `Stop` -/
structure StopR (src : Bytes) (b : Int) (r : Reader) : Prop where
  source : r.source = src
  stop0 : 0 ≤ r.pos.stop
  stop_le : r.pos.stop ≤ src.length
  lb : b ≤ r.pos.stop

theorem Stop.toR {src b s} (h : Stop src b s) : StopR src b s.r := ⟨h.source, h.stop0, h.stop_le, h.lb⟩
theorem StopR.toS {src b} {s : St} {r : Reader} (h : StopR src b r) : Stop src b { s with r := r } :=
  ⟨h.source, h.stop0, h.stop_le, h.lb⟩

theorem StopR.advanceLine {src b r} (h : StopR src b r) : StopR src b r.advanceLine := by
  obtain ⟨h1, h2, h3, h4⟩ := h
  unfold Reader.advanceLine
  simp only
  have hn : ¬ (r.pos.stop < 0) := by omega
  rw [if_neg hn]
  have hle : r.pos.stop.toNat ≤ src.length := by omega
  have a := lineEnd_le src r.pos.stop.toNat
  have c := lineEnd_ge src hle
  refine ⟨h1, ?_, ?_, ?_⟩ <;> simp only [h1] <;> omega

/-- an `Except` result: the value satisfies `P`, an error is not the fuel error -/
structure GoodE {α : Type} (P : α → Prop) (e : Except Panic α) : Prop where
  ok : ∀ a, e = .ok a → P a
  err : ∀ x, e = .error x → x ≠ Panic.loop

theorem GoodE.pure {α} {P : α → Prop} {a : α} (h : P a) : GoodE P (Pure.pure a : Except Panic α) :=
  ⟨fun _ h' => by cases h'; exact h, fun _ h' => by cases h'⟩

theorem GoodE.bind {α β} {Q : α → Prop} {P : β → Prop} {m : Except Panic α} {f : α → Except Panic β}
    (hm : GoodE Q m) (hf : ∀ a, Q a → GoodE P (f a)) : GoodE P (m >>= f) := by
  cases m with
  | error e =>
    refine ⟨fun a h => ?_, fun x h => ?_⟩
    · simp only [Bind.bind, Except.bind] at h; cases h
    · simp only [Bind.bind, Except.bind] at h; cases h; exact hm.err _ rfl
  | ok a => exact hf a (hm.ok a rfl)

theorem GoodE.ite {α} {P : α → Prop} {c : Prop} [Decidable c] {a b : Except Panic α}
    (ha : c → GoodE P a) (hb : ¬ c → GoodE P b) : GoodE P (if c then a else b) := by
  split
  · exact ha ‹_›
  · exact hb ‹_›

theorem GoodE.of_noLoop {α} {e : Except Panic α} (h : NoLoop e) : GoodE (fun _ => True) e :=
  ⟨fun _ _ => trivial, h.h⟩

theorem StopR.advanceLoop {src b} (n : Nat) : ∀ {r : Reader}, StopR src b r →
    GoodE (StopR src b) (r.advanceLoop n) := by
  induction n with
  | zero => intro r h; unfold Reader.advanceLoop; exact GoodE.pure h
  | succ n ih =>
    intro r h
    unfold Reader.advanceLoop
    refine GoodE.ite (fun _ => ?_) (fun _ => GoodE.pure h)
    refine GoodE.ite (fun _ => ?_) (fun _ => ?_)
    · exact ih ⟨h.source, h.stop0, h.stop_le, h.lb⟩
    · refine GoodE.bind (GoodE.of_noLoop (getByte_noLoop _ _)) (fun c _ => ?_)
      refine GoodE.ite (fun _ => ih h.advanceLine) (fun _ => ih ⟨h.source, h.stop0, h.stop_le, h.lb⟩)

theorem StopR.advance {src b r} (n : Int) (h : StopR src b r) : GoodE (StopR src b) (r.advance n) := by
  unfold Reader.advance
  simp only
  refine GoodE.ite (fun _ => GoodE.pure ⟨h.source, h.stop0, h.stop_le, h.lb⟩) (fun _ => ?_)
  exact StopR.advanceLoop _ ⟨h.source, h.stop0, h.stop_le, h.lb⟩

theorem StopR.peekLine {src b r} (h : StopR src b r) :
    GoodE (fun x => StopR src b x.2 ∧ x.2.pos = r.pos ∧ x.1.1.isSome = hasLine r) r.peekLine := by
  unfold Reader.peekLine
  refine GoodE.ite (fun hc => ?_) (fun hc => GoodE.pure ⟨h, rfl, by simp [hasLine, hc]⟩)
  split
  · exact GoodE.pure ⟨h, rfl, by simp [hasLine, hc]⟩
  · refine GoodE.bind (GoodE.of_noLoop (value_noLoop _ _)) (fun v _ => ?_)
    exact GoodE.pure ⟨⟨h.source, h.stop0, h.stop_le, h.lb⟩, rfl, by simp [hasLine, hc]⟩

theorem colLoop_noLoop (src : Bytes) (a b : Int) : NoLoop (colLoop src a b) := by unfold colLoop; noloop

theorem StopR.lineOffsetOp {src b r} (h : StopR src b r) :
    GoodE (fun x => StopR src b x.2 ∧ x.2.pos = r.pos) r.lineOffsetOp := by
  unfold Reader.lineOffsetOp
  refine GoodE.ite (fun _ => ?_) (fun _ => GoodE.pure ⟨h, rfl⟩)
  refine GoodE.bind (GoodE.of_noLoop (colLoop_noLoop _ _ _)) (fun v _ => ?_)
  exact GoodE.pure ⟨⟨h.source, h.stop0, h.stop_le, h.lb⟩, rfl⟩

/-- lifting a reader operation that keeps `StopR` -/
theorem pres_of_reader {α β : Type} (src : Bytes) (b : Int) (f : Reader → Except Panic (α × Reader)) (g : α → β)
    (hf : ∀ r, StopR src b r → GoodE (fun x => StopR src b x.2) (f r)) :
    Pres (Stop src b) (fun s => do let (x, r) ← f s.r; Pure.pure (g x, { s with r := r }) : M β) := by
  constructor
  intro s hs
  have := hf s.r hs.toR
  cases hp : f s.r with
  | error e => simp only [hp, bind, Except.bind]; exact this.err e hp
  | ok x => simp only [hp, bind, Except.bind, Pure.pure, Except.pure]; exact (this.ok x hp).toS

theorem peekLine_stop (src : Bytes) (b : Int) : Pres (Stop src b) peekLine :=
  pres_of_reader src b Reader.peekLine id (fun _ h => ⟨fun a ha => (h.peekLine.ok a ha).1, h.peekLine.err⟩)

theorem lineOffset_stop (src : Bytes) (b : Int) : Pres (Stop src b) lineOffset :=
  pres_of_reader src b Reader.lineOffsetOp id (fun _ h => ⟨fun a ha => (h.lineOffsetOp.ok a ha).1, h.lineOffsetOp.err⟩)

theorem advance_stop (src : Bytes) (b : Int) (n : Int) : Pres (Stop src b) (advance n) := by
  constructor
  intro s hs
  have := hs.toR.advance n
  unfold GM.Blocks.advance
  cases hp : s.r.advance n with
  | error e => simp only [bind, Except.bind]; exact this.err e hp
  | ok x => simp only [bind, Except.bind, Pure.pure, Except.pure]; exact (this.ok x hp).toS

theorem StopR.setPadding {src b r} (v : Int) (h : StopR src b r) : StopR src b (r.setPadding v) :=
  ⟨h.source, h.stop0, h.stop_le, h.lb⟩

theorem advanceAndSetPadding_stop (src : Bytes) (b : Int) (n p : Int) :
    Pres (Stop src b) (advanceAndSetPadding n p) := by
  constructor
  intro s hs
  have := hs.toR.advance n
  unfold GM.Blocks.advanceAndSetPadding Reader.advanceAndSetPadding
  cases hp : s.r.advance n with
  | error e => simp only [bind, Except.bind]; exact this.err e hp
  | ok x =>
    have hx := this.ok x hp
    simp only [bind, Except.bind, Pure.pure, Except.pure]
    by_cases hc : p > x.pos.padding
    · simp only [hc, if_true]; exact (hx.setPadding p).toS
    · simp only [hc, if_false]; exact hx.toS

theorem advanceLine_stop (src : Bytes) (b : Int) : Pres (Stop src b) advanceLine := by
  constructor
  intro s hs
  exact hs.toR.advanceLine.toS

theorem StopR.setPosition {src b r} (l : Int) (p : Segment) (h : StopR src b r) (hp : p.stop = r.pos.stop) :
    StopR src b (r.setPosition l p) := by
  unfold Reader.setPosition
  exact ⟨h.source, by simp only [hp]; exact h.stop0, by simp only [hp]; exact h.stop_le, by simp only [hp]; exact h.lb⟩

theorem setPosition_pos (r : Reader) (l : Int) (p : Segment) : (r.setPosition l p).pos = p := rfl

theorem preserveLeadingTab_stop (src : Bytes) (b : Int) (seg : Segment) (ind : Int) :
    Pres (Stop src b) (preserveLeadingTab seg ind) := by
  constructor
  intro s hs
  unfold preserveLeadingTab
  simp only [bind, StateT.bind, GM.Blocks.lineOffset, position, setPosition, Reader.position]
  have a1 := hs.toR.lineOffsetOp
  cases hp : s.r.lineOffsetOp with
  | error e => simp only [Except.bind]; exact a1.err e hp
  | ok x =>
    obtain ⟨a1, a1p⟩ := a1.ok x hp
    simp only [Except.bind, Pure.pure, Except.pure, StateT.pure]
    have b2 : StopR src b (x.2.setPosition x.2.line { start := x.2.pos.start - 1, stop := x.2.pos.stop }) :=
      a1.setPosition _ _ rfl
    have a2 := b2.lineOffsetOp
    cases hp2 : (x.2.setPosition x.2.line { start := x.2.pos.start - 1, stop := x.2.pos.stop }).lineOffsetOp with
    | error e => simp only [Except.bind]; exact a2.err e hp2
    | ok y =>
      obtain ⟨a2, a2p⟩ := a2.ok y hp2
      simp only [Except.bind]
      have : StopR src b (y.2.setPosition x.2.line x.2.pos) := by
        apply a2.setPosition
        rw [a2p, setPosition_pos]
      exact this.toS

theorem stop_prims (src : Bytes) (b : Int) : RPrims (Stop src b) where
  ronly := Stop.ronly src b
  peekLine := peekLine_stop src b
  lineOffset := lineOffset_stop src b
  advance := advance_stop src b
  advanceAndSetPadding := advanceAndSetPadding_stop src b
  preserveLeadingTab := preserveLeadingTab_stop src b


/-! ### the line loops -/

theorem mu_of_pos {src : Bytes} {r r' : Reader} (hp : r'.pos = r.pos) (hs : r'.source = r.source) :
    mu src r' = mu src r := by
  unfold mu hasLine Reader.sourceLength; rw [hp, hs]

theorem mu_le (src : Bytes) (r : Reader) : mu src r ≤ src.length + 2 := by
  unfold mu linesAfter
  have := nlCount_drop_le src r.pos.stop.toNat
  have : nlCount src ≤ src.length := by unfold nlCount; exact List.length_filter_le _ _
  split <;> split <;> omega

/-- `AdvanceLine` leaves at most the lines after the old `pos.Stop` -/
theorem mu_advanceLine {src b r} (h : StopR src b r) :
    mu src r.advanceLine ≤ linesAfter src r.pos.stop.toNat := by
  obtain ⟨h1, h2, h3, _⟩ := h
  unfold mu hasLine Reader.advanceLine Reader.sourceLength
  simp only
  have hn : ¬ (r.pos.stop < 0) := by omega
  rw [if_neg hn]
  simp only [h1, Int.toNat_natCast]
  by_cases hlt : r.pos.stop < src.length
  · have hlt' : r.pos.stop.toNat < src.length := by omega
    have := linesAfter_lineEnd src hlt'
    split <;> omega
  · have e : r.pos.stop.toNat = src.length := by omega
    have hd : ¬ (r.pos.stop ≥ 0 ∧ r.pos.stop < (src.length : Int)) := by omega
    simp only [hd, decide_false, Bool.false_eq_true, if_false, e]
    have : lineEnd src src.length = src.length := by
      unfold lineEnd; simp [lineLen]
    rw [this, linesAfter_len]; omega

/-- the line that was there is gone after processing it and `AdvanceLine` -/
theorem mu_next {src b} {r r1 : Reader} (hl : hasLine r = true) (h1 : StopR src r.pos.stop r1) (_h : StopR src b r) :
    mu src r1.advanceLine < mu src r := by
  have a := mu_advanceLine h1
  have c : linesAfter src r1.pos.stop.toNat ≤ linesAfter src r.pos.stop.toNat := by
    apply linesAfter_antitone
    have := h1.lb; have := _h.stop0; omega
  unfold mu at *
  rw [hl]; simp only [if_true]; omega

/-- what the line loops need from `openBlocks`: it keeps `Stop` and its retry loop has enough fuel -/
def OpenOK (src : Bytes) : Prop := ∀ b parent blank, Pres (Stop src b) (openBlocks parent blank)

theorem lineLoop_pres {src : Bytes} (hob : OpenOK src) (b : Int) (parent : Nat) (ob : List Block) (li : Int)
    (rest : List Block) (i : Int) (bl : List LineStat) :
    Pres (Stop src b) (lineLoop parent ob li rest i bl) := by
  have hp := stop_prims src b
  have := hp.ronly; have := hp.peekLine
  have := closeBlocks_pres hp
  have := advanceLine_stop src b
  have := bpContinue_pres hp
  have := hob b
  induction rest generalizing i bl with
  | nil => unfold lineLoop; pres
  | cons be rest ih => unfold lineLoop; pres


theorem peekLine_none_of_noLine (r : Reader) (h : hasLine r = false) :
    r.peekLine = .ok ((none, r.pos), r) := by
  unfold Reader.peekLine
  have : ¬ (r.pos.start ≥ 0 ∧ r.pos.start < r.sourceLength) := by
    simpa [hasLine] using h
  rw [if_neg this]; rfl

/-- a pass over a non-empty stack of opened blocks that ends with "next line" started on a line -/
theorem lineLoop_next_hasLine (parent : Nat) (ob : List Block) (li : Int) (rest0 : List Block)
    (hne : rest0 ≠ []) (i : Int) (bl bl' : List LineStat) (s s' : St)
    (h : lineLoop parent ob li rest0 i bl s = .ok ((.next, bl'), s')) : hasLine s.r = true := by
  obtain ⟨be, rest, rfl⟩ := List.exists_cons_of_ne_nil hne
  cases hl : hasLine s.r with
  | true => rfl
  | false =>
    exfalso
    have hp := peekLine_none_of_noLine s.r hl
    unfold lineLoop at h
    simp only [bind, StateT.bind, GM.Blocks.peekLine, hp, Except.bind, pure, Except.pure] at h
    cases hc : closeBlocks li 0 s with
    | error e => simp [hc] at h
    | ok x =>
      simp only [hc, advanceLine, StateT.pure, pure, Except.pure] at h
      cases h

theorem linesLoop_ok {src : Bytes} (hob : OpenOK src) (parent : Nat) :
    ∀ (fuel : Nat) (bl : List LineStat) (s : St) (b : Int), Stop src b s → mu src s.r < fuel →
      match linesLoop parent fuel bl s with
      | .ok ((ret, _), s') => Stop src b s' ∧ (ret = false → mu src s'.r ≤ mu src s.r)
      | .error e => e ≠ Panic.loop := by
  intro fuel
  induction fuel with
  | zero => intro bl s b _ h; omega
  | succ fuel ih =>
    intro bl s b hs hmu
    unfold linesLoop
    simp only [bind, StateT.bind, getPc, Except.bind, pure, Except.pure, StateT.pure]
    by_cases hl0 : (s.pc.opened.length == 0) = true
    · simp only [hl0, if_true]
      exact ⟨hs, fun _ => Nat.le_refl _⟩
    · simp only [hl0, Bool.false_eq_true, if_false, StateT.bind]
      have hne : s.pc.opened ≠ [] := by
        intro e; rw [e] at hl0; simp at hl0
      obtain ⟨be, rest, hbr⟩ := List.exists_cons_of_ne_nil hne
      have hpres := lineLoop_pres hob b parent s.pc.opened ((s.pc.opened.length : Int) - 1) s.pc.opened 0 bl
      have hpres2 := lineLoop_pres hob s.r.pos.stop parent s.pc.opened ((s.pc.opened.length : Int) - 1) s.pc.opened 0 bl
      have hs2 : Stop src s.r.pos.stop s := ⟨hs.source, hs.stop0, hs.stop_le, Int.le_refl _⟩
      cases hr : lineLoop parent s.pc.opened ((s.pc.opened.length : Int) - 1) s.pc.opened 0 bl s with
      | error e => simp only [bind, Except.bind]; exact fun he => hpres.noLoop hs (he ▸ hr)
      | ok x =>
        obtain ⟨⟨outcome, bl1⟩, s1⟩ := x
        have h1 : Stop src b s1 := hpres.ok hs hr
        have h1' : Stop src s.r.pos.stop s1 := hpres2.ok hs2 hr
        cases outcome with
        | eof => simp only [bind, Except.bind, StateT.pure, pure, Except.pure]; exact ⟨h1, fun h => by cases h⟩
        | next =>
          simp only [bind, Except.bind, StateT.bind, advanceLine, pure, Except.pure]
          have hline : hasLine s.r = true :=
            lineLoop_next_hasLine parent _ _ _ hne 0 bl bl1 s s1 hr
          have hdec := mu_next hline h1'.toR hs.toR
          have h2 : Stop src b { s1 with r := s1.r.advanceLine } := h1.toR.advanceLine.toS
          have := ih bl1 { s1 with r := s1.r.advanceLine } b h2 (by simp only; omega)
          revert this
          cases linesLoop parent fuel bl1 { s1 with r := s1.r.advanceLine } with
          | error e => exact id
          | ok y =>
            obtain ⟨⟨ret, bl2⟩, s3⟩ := y
            intro this
            exact ⟨this.1, fun hr' => by have := this.2 hr'; simp only at this; omega⟩


theorem hasLine_of_pos {r r' : Reader} (hp : r'.pos = r.pos) (hs : r'.source = r.source) :
    hasLine r' = hasLine r := by
  unfold hasLine Reader.sourceLength; rw [hp, hs]

/-- `reader.SkipBlankLines()` (the Reader model's loop) has enough fuel and only moves forward -/
theorem skipBlank_ok {src : Bytes} : ∀ (fuel : Nat) (lines : Int) (r : Reader) (b : Int),
    StopR src b r → mu src r < fuel →
    GoodE (fun x => StopR src b x.2 ∧ mu src x.2 ≤ mu src r ∧ (x.1.2.2 = true → hasLine x.2 = true))
      (skipBlankLines readerOps fuel lines r) := by
  intro fuel
  induction fuel with
  | zero => intro _ _ _ _ h; omega
  | succ fuel ih =>
    intro lines r b hr hmu
    unfold skipBlankLines
    simp only [readerOps]
    refine GoodE.bind hr.peekLine (fun x hx => ?_)
    obtain ⟨hx1, hx2, hx3⟩ := hx
    have hsrc : x.2.source = r.source := by rw [hx1.source, hr.source]
    have hmueq := mu_of_pos (src := src) hx2 hsrc
    have hleq := hasLine_of_pos hx2 hsrc
    obtain ⟨⟨line, seg⟩, r1⟩ := x
    simp only at hx1 hx2 hx3 hmueq hleq ⊢
    cases line with
    | none => exact GoodE.pure ⟨hx1, Nat.le_of_eq hmueq, fun h => by cases h⟩
    | some l =>
      simp only [Option.isSome_some] at hx3
      simp only
      refine GoodE.ite (fun _ => ?_) (fun _ => GoodE.pure ⟨hx1, Nat.le_of_eq hmueq, fun _ => by rw [hleq]; exact hx3.symm⟩)
      refine GoodE.bind (GoodE.pure (P := fun y => y = r1.advanceLine) rfl) (fun r2 hr2 => ?_)
      subst hr2
      have hl1 : hasLine r1 = true := by rw [hleq]; exact hx3.symm
      have hx1' : StopR src r1.pos.stop r1 := ⟨hx1.source, hx1.stop0, hx1.stop_le, Int.le_refl _⟩
      have hdec := mu_next hl1 hx1' hx1
      have := ih (lines + 1) r1.advanceLine b hx1.advanceLine (by omega)
      exact ⟨fun a ha => by
          obtain ⟨c1, c2, c3⟩ := this.ok a ha
          exact ⟨c1, by omega, c3⟩, this.err⟩

theorem mu_lt_loopFuel (src : Bytes) (r : Reader) : mu src r < loopFuel src := by
  have := mu_le src r; unfold loopFuel; omega

theorem blocksLoop_ok {src : Bytes} (hob : OpenOK src) (parent : Nat) :
    ∀ (fuel : Nat) (bl : List LineStat) (s : St) (b : Int), Stop src b s → mu src s.r < fuel →
      match blocksLoop parent fuel bl s with
      | .ok (_, s') => Stop src b s'
      | .error e => e ≠ Panic.loop := by
  intro fuel
  induction fuel with
  | zero => intro bl s b _ h; omega
  | succ fuel ih =>
    intro bl s b hs hmu
    unfold blocksLoop
    simp only [bind, StateT.bind, skipBlankLinesR]
    have hsk := skipBlank_ok (loopFuel s.r.source) 0 s.r b hs.toR (by rw [hs.source]; exact mu_lt_loopFuel src s.r)
    cases hr : skipBlankLines readerOps (loopFuel s.r.source) 0 s.r with
    | error e => simp only [Except.bind]; exact hsk.err e hr
    | ok x =>
      obtain ⟨c1, c2, c3⟩ := hsk.ok x hr
      obtain ⟨⟨seg, lines, ok⟩, r0⟩ := x
      simp only at c1 c2 c3
      simp only [Except.bind, pure, Except.pure]
      cases ok with
      | false => simp only [Bool.not_false, if_true, StateT.pure, pure, Except.pure]; exact c1.toS
      | true =>
        simp only [Bool.not_true, Bool.false_eq_true, if_false, StateT.bind, position, getPc, StateT.pure, pure,
          Except.pure, bind, Except.bind, Reader.position]
        have hl0 : hasLine r0 = true := c3 rfl
        -- openBlocks
        generalize hbl2 : (if (lines != 0) = true then blankStats r0.line lines s.pc.opened.length else bl) = bl'
        generalize hbl : isBlankLine _ _ _ = blank
        generalize hs0 : ({ s with r := r0 } : St) = s0
        have hS0 : Stop src b s0 := by subst hs0; exact c1.toS
        have hS0' : Stop src r0.pos.stop s0 := by
          subst hs0; exact ⟨c1.source, c1.stop0, c1.stop_le, Int.le_refl _⟩
        have hr0 : s0.r = r0 := by subst hs0; rfl
        cases ho : openBlocks parent blank s0 with
        | error e => exact fun he => (hob b parent blank).noLoop hS0 (he ▸ ho)
        | ok y =>
          obtain ⟨res, s1⟩ := y
          have h1 : Stop src b s1 := (hob b parent blank).ok hS0 ho
          have h1' : Stop src r0.pos.stop s1 := (hob _ parent blank).ok hS0' ho
          simp only
          by_cases hres : res = OpenResult.newBlocksOpened
          · subst hres
            simp only [bne_self_eq_false, Bool.false_eq_true, if_false, StateT.bind, advanceLine, StateT.pure, pure, Except.pure,
              bind, Except.bind]
            have hdec := mu_next hl0 h1'.toR c1
            have h2 : Stop src b { s1 with r := s1.r.advanceLine } := h1.toR.advanceLine.toS
            have hl := linesLoop_ok hob parent fuel bl' { s1 with r := s1.r.advanceLine } b h2 (by simp only; omega)
            revert hl
            cases linesLoop parent fuel bl' { s1 with r := s1.r.advanceLine } with
            | error e => exact id
            | ok z =>
              obtain ⟨⟨ret, bl2⟩, s3⟩ := z
              intro hl
              simp only
              cases ret with
              | true => simp only [if_true]; exact hl.1
              | false =>
                simp only [Bool.false_eq_true, if_false]
                have := hl.2 rfl
                exact ih bl2 s3 b hl.1 (by simp only at this; omega)
          · have : (res != OpenResult.newBlocksOpened) = true := by simpa using hres
            simp only [this, if_true]
            exact h1

/-- the struct `NewReader` starts from (reader.go:109-120) -/
def readerZero (src : Bytes) : Reader :=
  { source := src, line := -1, peekedLine := none, pos := { start := 0, stop := 0 }, head := 0, lineOffset := -1 }

theorem reader_new_eq (src : Bytes) : Reader.new src = (readerZero src).advanceLine := rfl

theorem stopR_zero (src : Bytes) : StopR src 0 (readerZero src) := ⟨rfl, by simp [readerZero], by simp [readerZero], by simp [readerZero]⟩

/-- `Reader.new src` satisfies the line-level invariant -/
theorem stop_init (src : Bytes) : Stop src 0 (initSt src) := by
  unfold initSt; rw [reader_new_eq]
  have h := (stopR_zero src).advanceLine
  exact ⟨h.source, h.stop0, h.stop_le, h.lb⟩

theorem mu_init (src : Bytes) : mu src (initSt src).r < linesFuel src := by
  have h1 := mu_advanceLine (stopR_zero src)
  have h2 := linesAfter_zero src
  have e : (readerZero src).pos.stop.toNat = 0 := by simp [readerZero]
  rw [e] at h1
  unfold initSt linesFuel
  rw [reader_new_eq]
  simp only
  omega

/-- **Termination of the line loops**: given that `openBlocks` never exhausts its retry fuel, the block phase
    never exhausts the fuel `lineCount src + 2` of its two line loops (nor the Reader model's fuel of
    `SkipBlankLines`): every iteration consumes a line. -/
theorem run_noLoop_of_open {src : Bytes} (hob : OpenOK src) : run src ≠ .error .loop := by
  unfold run parseBlocks
  simp only [bind, StateT.bind, modPc, source, Except.bind, pure, Except.pure]
  have h0 := stop_init src
  have hm := mu_init src
  have := blocksLoop_ok hob 0 (linesFuel src) [] { initSt src with pc := { (initSt src).pc with opened := [] } } 0
    ⟨h0.source, h0.stop0, h0.stop_le, h0.lb⟩ hm
  revert this
  have e : (initSt src).r.source = src := h0.source
  simp only [e]
  cases blocksLoop 0 (linesFuel src) [] { initSt src with pc := { (initSt src).pc with opened := [] } } with
  | error e => intro h; simp only [Except.map]; intro he; cases he; exact h rfl
  | ok y => intro _; simp [Except.map]

end GM.Blocks
