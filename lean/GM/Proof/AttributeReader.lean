/-
  GM.Proof.AttributeReader — the closed-form reader of GM.Model.Attribute (peekAt / adv / restLine / skipWs / lineOf)
  IS the source-reader cursor `RCur` of C18 (GM.Spec.Cursor) without virtual padding: each of the six Reader calls
  attribute.go makes, taken as a step of the cursor, returns the closed form and keeps the cursor `Flat`.
  With C18 (`reader_refines`: GM.Model.Reader, the field-by-field model of text/reader.go, refines the cursor) the
  same holds of the reader model that component `reader` ties to the Go code.
-/
import GM.Proof.Attribute
import GM.Proof.ReaderFuel
namespace GM.Proof.AttributeReader
open GM GM.Attr GM.Text GM.Spec GM.Proof.Attribute

/-! The closed-form reader of GM.Model.Attribute is the cursor `RCur` of C18 (GM.Spec.Cursor) without padding. -/

theorem adv1_pad0 (src : Bytes) (c : RCur) (hpad : c.pad = 0) (hp : c.p < src.length) :
    (RCur.adv1 src c).p = c.p + 1 ∧ (RCur.adv1 src c).pad = 0 := by
  simp [RCur.adv1, hp, hpad]

theorem adv1_end (src : Bytes) (c : RCur) (hp : ¬ c.p < src.length) : RCur.adv1 src c = c := by
  simp [RCur.adv1, hp]

theorem advN_end (src : Bytes) (n : Nat) (c : RCur) (hp : ¬ c.p < src.length) : RCur.advN src n c = c := by
  induction n with
  | zero => rfl
  | succ n ih => simp only [RCur.advN, adv1_end src c hp, ih]

/-- Advance(n) -/
theorem advN_bridge (src : Bytes) (n : Nat) : ∀ (c : RCur), c.pad = 0 → c.p ≤ src.length →
    (RCur.advN src n c).p = adv src c.p n ∧ (RCur.advN src n c).pad = 0 := by
  induction n with
  | zero => intro c hpad hp; simp [RCur.advN, adv, hp, hpad]
  | succ n ih =>
    intro c hpad hp
    simp only [RCur.advN]
    by_cases hlt : c.p < src.length
    · obtain ⟨h1, h2⟩ := adv1_pad0 src c hpad hlt
      obtain ⟨h3, h4⟩ := ih (RCur.adv1 src c) h2 (by omega)
      refine ⟨?_, h4⟩
      rw [h3, h1]
      unfold adv
      split <;> split <;> omega
    · rw [adv1_end src c hlt, advN_end src n c hlt]
      refine ⟨?_, hpad⟩
      unfold adv
      split <;> omega

theorem advN_add (src : Bytes) (a b : Nat) (c : RCur) : RCur.advN src (a + b) c = RCur.advN src b (RCur.advN src a c) := by
  induction a generalizing c with
  | zero => simp [RCur.advN]
  | succ a ih => rw [Nat.add_right_comm]; simp only [RCur.advN]; exact ih _

theorem lineEnd_eq (src : Bytes) (p : Nat) (hp : p ≤ src.length) : lineEnd src p = p + lineLen (src.drop p) := by
  simp [lineEnd, hp]

/-- PeekLine -/
theorem view_bridge (src : Bytes) (c : RCur) (hpad : c.pad = 0) :
    RCur.view src c = if c.p < src.length then some (restLine src c.p) else none := by
  unfold RCur.view
  split
  · rename_i hp
    rw [hpad, lineEnd_eq src c.p (by omega)]
    simp [spaces, sub, restLine]
  · rfl

theorem restLine_head (src : Bytes) (p : Nat) (hp : p < src.length) :
    ∃ bs, restLine src p = peekAt src p :: bs := by
  have hpe : peekAt src p = src[p]'hp := by simp [peekAt, hp]
  have hd : src.drop p = src[p]'hp :: src.drop (p + 1) := List.drop_eq_getElem_cons hp
  have hpos : 0 < lineLen (src.drop p) := lineLen_pos _ (fun e => by have := congrArg List.length e; simp at this; omega)
  obtain ⟨k, hk⟩ : ∃ k, lineLen (src.drop p) = k + 1 := ⟨_, (Nat.succ_pred_eq_of_pos hpos).symm⟩
  refine ⟨(src.drop (p + 1)).take k, ?_⟩
  unfold restLine
  rw [hk, hpe, hd]
  all_goals first | rfl | exact hp

/-- Peek -/
theorem peek_bridge (src : Bytes) (c : RCur) (hpad : c.pad = 0) : RCur.peek src c = peekAt src c.p := by
  unfold RCur.peek
  rw [view_bridge src c hpad]
  by_cases hp : c.p < src.length
  · obtain ⟨bs, hbs⟩ := restLine_head src c.p hp
    simp only [hp, if_true, hbs]
  · simp only [hp, if_false]
    simp [peekAt, List.getElem?_eq_none (Nat.le_of_not_lt hp)]

theorem takeWhile_append_all (q : UInt8 → Bool) (l t : Bytes) (h : l.all q = true) :
    (l ++ t).takeWhile q = l ++ t.takeWhile q := by
  induction l with
  | nil => rfl
  | cons a l ih =>
    simp only [List.all_cons, Bool.and_eq_true] at h
    simp [h.1, ih h.2]

theorem takeWhile_append_notall (q : UInt8 → Bool) (l t : Bytes) (h : l.all q = false) :
    (l ++ t).takeWhile q = l.takeWhile q := by
  induction l with
  | nil => simp at h
  | cons a l ih =>
    by_cases ha : q a = true
    · simp only [List.all_cons, ha, Bool.true_and] at h
      simp [ha, ih h]
    · simp [ha]

theorem takeWhile_all_eq (q : UInt8 → Bool) (l : Bytes) (h : l.all q = true) : l.takeWhile q = l := by
  induction l with
  | nil => rfl
  | cons a l ih =>
    simp only [List.all_cons, Bool.and_eq_true] at h
    simp [h.1, ih h.2]

/-- the inner loop of SkipSpaces over (the rest of) a line that lies at the cursor -/
theorem skipSpacesLine_bridge (src : Bytes) (seg : Segment) (l : Bytes) : ∀ (i chars : Int) (c : RCur) (t : Bytes),
    c.pad = 0 → src.drop c.p = l ++ t →
    ∃ res ch c', skipSpacesLine (RCur.ops src) seg l i chars c = .ok (res, ch, c') ∧
      c' = RCur.advN src (l.takeWhile isSpace).length c ∧
      ((res = none ∧ l.all isSpace = true) ∨ (res ≠ none ∧ l.all isSpace = false)) := by
  induction l with
  | nil => intro i chars c t _ _; exact ⟨none, chars, c, rfl, rfl, .inl ⟨rfl, rfl⟩⟩
  | cons b bs ih =>
    intro i chars c t hpad hdrop
    simp only [skipSpacesLine]
    by_cases hb : isSpace b = true
    · simp only [hb, if_true]
      have hadv : (RCur.ops src).advance 1 c = .ok (RCur.advN src 1 c) := Proof.Reader.rcur_advance_ok src 1 c
      rw [hadv]
      simp only [bind, Except.bind]
      have hlt : c.p < src.length := by
        have := congrArg List.length hdrop
        simp at this
        omega
      have h1 : RCur.advN src 1 c = RCur.adv1 src c := rfl
      obtain ⟨hp1, hpad1⟩ := adv1_pad0 src c hpad hlt
      have hdrop1 : src.drop (RCur.advN src 1 c).p = bs ++ t := by
        rw [h1, hp1]
        have := congrArg (List.drop 1) hdrop
        simpa [List.drop_drop, Nat.add_comm] using this
      obtain ⟨res, ch, c', e1, e2, e3⟩ := ih (i + 1) (chars + 1) (RCur.advN src 1 c) t (by rw [h1]; exact hpad1) hdrop1
      refine ⟨res, ch, c', e1, ?_, ?_⟩
      · rw [e2, List.takeWhile_cons, hb]
        simp only [if_true, List.length_cons]
        rw [Nat.add_comm, advN_add]
      · simpa [List.all_cons, hb] using e3
    · simp only [hb, Bool.false_eq_true, if_false]
      refine ⟨_, _, _, rfl, ?_, .inr ⟨by simp, by simp [List.all_cons, hb]⟩⟩
      simp [hb, RCur.advN]

/-- SkipSpaces: the cursor moves over exactly the util.IsSpace bytes in front of it (across line ends) -/
theorem skipSpaces_bridge (src : Bytes) (fuel : Nat) : ∀ (chars : Int) (c : RCur), c.pad = 0 → c.p ≤ src.length →
    src.length - c.p < fuel →
    ∃ r c', skipSpaces (RCur.ops src) fuel chars c = .ok (r, c') ∧
      c' = RCur.advN src ((src.drop c.p).takeWhile isSpace).length c := by
  induction fuel with
  | zero => intro _ c _ _ h; omega
  | succ fuel ih =>
    intro chars c hpad hc hf
    simp only [skipSpaces]
    have hpl : (RCur.ops src).peekLine c = .ok ((RCur.view src c, RCur.seg src c), c) := rfl
    rw [hpl]
    simp only [bind, Except.bind]
    rw [view_bridge src c hpad]
    by_cases hp : c.p < src.length
    · simp only [hp, if_true]
      have hsplit : src.drop c.p = restLine src c.p ++ src.drop (c.p + lineLen (src.drop c.p)) := by
        unfold restLine
        rw [← List.drop_drop, List.take_append_drop]
      obtain ⟨res, ch, c1, e1, e2, e3⟩ := skipSpacesLine_bridge src (RCur.seg src c) (restLine src c.p) 0 chars c _ hpad hsplit
      rw [e1]
      rcases e3 with ⟨hr, hall⟩ | ⟨hr, hall⟩
      · subst hr
        simp only []
        have hk : ((restLine src c.p).takeWhile isSpace).length = (restLine src c.p).length := by
          rw [takeWhile_all_eq _ _ hall]
        have hb := advN_bridge src (restLine src c.p).length c hpad hc
        rw [hk] at e2
        have hlen : (restLine src c.p).length = lineLen (src.drop c.p) := by
          unfold restLine
          have := lineLen_le (src.drop c.p)
          rw [List.length_take]
          simp only [List.length_drop] at this ⊢
          omega
        have hfit : c.p + (restLine src c.p).length ≤ src.length := by
          have := restLine_length_le src c.p; omega
        have hne := restLine_ne_nil src c.p hp
        have hpos : 0 < (restLine src c.p).length := List.length_pos_iff.mpr hne
        have hc1p : c1.p = c.p + (restLine src c.p).length := by rw [e2, hb.1, adv_eq src _ _ hfit]
        have hc1pad : c1.pad = 0 := by rw [e2]; exact hb.2
        obtain ⟨r, c', e4, e5⟩ := ih ch c1 hc1pad (by omega) (by omega)
        refine ⟨r, c', e4, ?_⟩
        have key := congrArg (fun x => (List.takeWhile isSpace x).length) hsplit
        rw [takeWhile_append_all _ _ _ hall, List.length_append] at key
        rw [e5, hc1p, hlen, key, hlen, e2, hlen, ← advN_add]
      · cases res with
        | none => exact absurd rfl hr
        | some v =>
          simp only []
          refine ⟨_, _, rfl, ?_⟩
          have key := congrArg (fun x => (List.takeWhile isSpace x).length) hsplit
          rw [takeWhile_append_notall _ _ _ hall] at key
          rw [e2, key]
    · simp only [hp, if_false]
      refine ⟨_, _, rfl, ?_⟩
      have : src.drop c.p = [] := List.drop_eq_nil_of_le (Nat.le_of_not_lt hp)
      simp [this, RCur.advN]

/-! ### the line number Position reports -/

theorem lineOf_succ (src : Bytes) (p : Nat) (hp : p < src.length) :
    lineOf src (p + 1) = lineOf src p + (if src[p]? = some 10 then 1 else 0) := by
  unfold lineOf
  rw [List.take_add_one, List.getElem?_eq_getElem hp]
  simp only [Option.toList_some, List.filter_append, List.length_append, Option.some.injEq]
  by_cases h : src[p] = 10
  · simp [List.filter, h]
  · have : (src[p] == 10) = false := by simpa using h
    simp [List.filter, h, this]

/-- a cursor whose line number is the number of newlines in front of it -/
def LnOK (src : Bytes) (c : RCur) : Prop := c.ln = (lineOf src c.p : Int)

theorem adv1_ln (src : Bytes) (c : RCur) (hpad : c.pad = 0) (hl : LnOK src c) : LnOK src (RCur.adv1 src c) := by
  unfold LnOK at *
  by_cases hp : c.p < src.length
  · simp only [RCur.adv1, hp, hpad, if_true, ne_eq, not_true_eq_false, if_false]
    rw [lineOf_succ src c.p hp, hl]
    split <;> simp
  · rw [adv1_end src c hp]; exact hl

theorem advN_ln (src : Bytes) (n : Nat) : ∀ (c : RCur), c.pad = 0 → c.p ≤ src.length → LnOK src c →
    LnOK src (RCur.advN src n c) := by
  induction n with
  | zero => intro c _ _ h; exact h
  | succ n ih =>
    intro c hpad hp hl
    simp only [RCur.advN]
    by_cases hlt : c.p < src.length
    · obtain ⟨h1, h2⟩ := adv1_pad0 src c hpad hlt
      exact ih _ h2 (by omega) (adv1_ln src c hpad hl)
    · rw [adv1_end src c hlt]; exact ih c hpad hp hl

/-! ### every reader call of attribute.go, as a step of the C18 cursor -/

/-- the cursors the attribute parser runs on: no virtual padding, inside the source, line number in step -/
structure Flat (src : Bytes) (c : RCur) : Prop where
  pad : c.pad = 0
  inRange : c.p ≤ src.length
  ln : LnOK src c

theorem flat_init (src : Bytes) : Flat src RCur.init := ⟨rfl, Nat.zero_le _, by simp [LnOK, RCur.init, lineOf]⟩

theorem step_peek (src : Bytes) (c : RCur) (h : Flat src c) :
    RCur.step src c .peek = .ok (.byte (peekAt src c.p), c) := by
  simp only [RCur.step, peek_bridge src c h.pad]

theorem step_peekLine (src : Bytes) (c : RCur) (h : Flat src c) :
    RCur.step src c .peekLine =
      .ok (.line (if c.p < src.length then some (restLine src c.p) else none) (RCur.seg src c), c) := by
  simp only [RCur.step, RCur.peekLine, view_bridge src c h.pad]

theorem step_advance (src : Bytes) (c : RCur) (n : Nat) (h : Flat src c) :
    ∃ c', RCur.step src c (.advance n) = .ok (.unit, c') ∧ c'.p = adv src c.p n ∧ Flat src c' := by
  refine ⟨RCur.advN src n c, ?_, (advN_bridge src n c h.pad h.inRange).1, ?_⟩
  · simp [RCur.step, RCur.advance, bind, Except.bind, pure, Except.pure]
  · exact ⟨(advN_bridge src n c h.pad h.inRange).2,
      by rw [(advN_bridge src n c h.pad h.inRange).1]; exact adv_le src c.p n h.inRange,
      advN_ln src n c h.pad h.inRange h.ln⟩

theorem step_skipSpaces (src : Bytes) (c : RCur) (h : Flat src c) :
    ∃ r c', RCur.step src c .skipSpaces = .ok (.skip r, c') ∧ c'.p = skipWs src c.p ∧ Flat src c' := by
  obtain ⟨r, c', e1, e2⟩ := skipSpaces_bridge src (loopFuel src) 0 c h.pad h.inRange
    (by have := Proof.Reader.loopFuel_gt src c.p; omega)
  have hk : c.p + ((src.drop c.p).takeWhile isSpace).length ≤ src.length := by
    have := takeWhile_length_le isSpace (src.drop c.p)
    simp only [List.length_drop] at this
    have := h.inRange
    omega
  have hb := advN_bridge src ((src.drop c.p).takeWhile isSpace).length c h.pad h.inRange
  refine ⟨r, c', ?_, ?_, ?_⟩
  · simp only [RCur.step, e1, bind, Except.bind, pure, Except.pure]
  · rw [e2, hb.1, adv_eq src _ _ hk]; rfl
  · rw [e2]
    exact ⟨hb.2, by rw [hb.1]; exact adv_le src _ _ h.inRange, advN_ln src _ c h.pad h.inRange h.ln⟩

/-- Position is `(lineOf p, {p, lineEnd p, 0})` and SetPosition with it brings any cursor back -/
theorem step_position (src : Bytes) (c : RCur) (h : Flat src c) :
    RCur.step src c .position =
      .ok (.pos (lineOf src c.p) { start := c.p, stop := lineEnd src c.p, padding := 0 }, c) := by
  simp only [RCur.step, RCur.position, RCur.seg, h.pad]
  rw [show c.ln = (lineOf src c.p : Int) from h.ln]
  rfl

theorem step_setPosition (src : Bytes) (c c2 : RCur) (h : Flat src c) :
    RCur.step src c2 (.setPosition (lineOf src c.p) { start := c.p, stop := lineEnd src c.p, padding := 0 }) =
      .ok (.unit, c) := by
  have hw : RCur.WFPos src { start := (c.p : Int), stop := lineEnd src c.p, padding := 0 } := by
    refine ⟨by simp, by simp; exact h.inRange, by simp, by simp, rfl⟩
  simp only [RCur.step, RCur.setPosition, hw, if_true, bind, Except.bind, pure, Except.pure]
  have : c = { ln := (lineOf src c.p : Int), p := c.p, pad := 0 } := by
    cases c with
    | mk ln p pad =>
      have h1 := h.pad
      have h2 := h.ln
      simp only [LnOK] at h1 h2
      subst h1
      rw [h2]
  rw [this]
  simp

end GM.Proof.AttributeReader
