/-
  GM.Proof.CMFragClassG21 — stage 23 of GM.Spec.CMFrag (a stage-21 document inside nested block quotes, the wider class
  of stage 22): the source `spellF21 d` of the contents (`GF21QFrag d`) ends with a line feed and is in the spec-level
  class `GQClass` of GM.Proof.CMFragClassG, so `quoteLinesN k (spellF21 d)` is in the class `GM.Blocks.C08ClassG` of the
  block-quote simulation with lists and blank lines at every level `k` (`gf21qclean_classG_N`); it contains no `[`
  (`gf21qclean_no_bracket`) and the document has no indented code block (`gf21qfrag_noic`). Core Lean only.
-/
import GM.Proof.CMFragClassG
import GM.Proof.CMFrag21Bridge
namespace GM.Proof.CMFrag
open GM GM.Text GM.Blocks GM.Spec.CM GM.Spec.CMFrag

theorem gf21q_parts (d : F21Doc) (h : GF21QFrag d) :
    F21Frag d ∧ d.items ≠ [] ∧ (∀ it ∈ d.items, it.block.isIc = false) ∧ (∀ c ∈ spellF21 d, gqcleanByte c = true) ∧
      noBarEnd (spellF21 d) = true := by
  have := h
  simp only [GF21QFrag, gf21qfragB, Bool.and_eq_true, List.all_eq_true, Bool.not_eq_true', List.isEmpty_eq_false_iff] at this
  exact ⟨this.1.1.1.1, this.1.1.1.2, this.1.1.2, this.1.2, this.2⟩

theorem gf21qfrag_f21frag {d : F21Doc} (h : GF21QFrag d) : F21Frag d := (gf21q_parts d h).1

theorem gf21qfrag_items_ne {d : F21Doc} (h : GF21QFrag d) : d.items ≠ [] := (gf21q_parts d h).2.1

/-- a quoted stage-21 document has no indented code block -/
theorem gf21qfrag_noic {d : F21Doc} (h : GF21QFrag d) : ∀ it ∈ d.items, it.block.isIc = false := (gf21q_parts d h).2.2.1

/-- no `[` in the contents: no link reference definition, no link, no image -/
theorem gf21qclean_no_bracket (d : F21Doc) (h : GF21QFrag d) : ∀ c ∈ spellF21 d, c ≠ 91 :=
  fun c hcm => (gqclean_facts c ((gf21q_parts d h).2.2.2.1 c hcm)).2.2

/-! ### the source ends with a line feed -/

theorem gf21q_endsNl_block (b : FBlockS21) (hok : f21blockOKS b = true) : EndsNlQ (spellFBlock21 b) := by
  cases b with
  | para lines =>
    simp only [f21blockOKS, Bool.and_eq_true, Bool.not_eq_true', List.isEmpty_eq_false_iff] at hok
    rw [spellFBlock21]
    exact endsNl_flatMapQ _ lines hok.1.1.1 (fun x _ => ⟨spellFLine21 x, rfl⟩)
  | heading level text => exact ⟨_, rfl⟩
  | thematic c n => exact ⟨_, rfl⟩
  | fcode tilde n info lines => exact ⟨_, rfl⟩
  | icode lines =>
    simp only [f21blockOKS, Bool.and_eq_true, Bool.not_eq_true', List.isEmpty_eq_false_iff] at hok
    rw [spellFBlock21]
    exact endsNl_flatMapQ _ lines hok.1 (fun x _ => ⟨[32, 32, 32, 32] ++ x, rfl⟩)

theorem gf21q_endsNl_spellF21 (d : F21Doc) (hok : ∀ it ∈ d.items, f21blockOKS it.block = true) (hne : d.items ≠ []) :
    EndsNlQ (spellF21 d) := by
  rw [spellF21]
  refine EndsNlQ.trailQ ?_ _
  exact endsNl_flatMapQ _ d.items hne (fun it hit => (gf21q_endsNl_block it.block (hok it hit)).prepend _)

/-! ### the class -/

theorem gf21qclean_gqClass (d : F21Doc) (h : GF21QFrag d) : GQClass (spellF21 d) := by
  obtain ⟨hf, hne, _, hc, hb⟩ := gf21q_parts d h
  exact
    { tf := fun c hcm => (gqclean_facts c (hc c hcm)).1
      cr := fun c hcm => (gqclean_facts c (hc c hcm)).2.1
      nl := (gf21q_endsNl_spellF21 d (f21frag_parts d hf).1 hne).getLast
      nb := hb }

theorem gf21qclean_classG (d : F21Doc) (h : GF21QFrag d) : GM.Blocks.C08ClassG (spellF21 d) :=
  gqClass_classG (gf21qclean_gqClass d h)

/-- the class of the block-quote simulation (lists and blank lines) at every level of nesting -/
theorem gf21qclean_classG_N (d : F21Doc) (h : GF21QFrag d) (k : Nat) :
    GM.Blocks.C08ClassG (quoteLinesN k (spellF21 d)) ∧ (quoteLinesN k (spellF21 d)).getLast? = some 10 :=
  gqClass_classG_N (gf21qclean_gqClass d h) k

end GM.Proof.CMFrag
