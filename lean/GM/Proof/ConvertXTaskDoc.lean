/-
  GM.Proof.ConvertXTaskDoc — TaskList is conservative at whole-document level for EVERY member set (with Strikethrough on, too):
  the checkbox parser is never consulted on a source without `[` (GM.Proof.ConvertXTotal.lineLoopX_eq2), a member set without
  TaskList never builds the representation of a TaskCheckBox (GM.Proof.ConvertXLevels.parseBlockG_fixS), tree conversion, renderer.
-/
import GM.Proof.ConvertXStrikeDoc

namespace GM.Proof.ConvertXTaskDoc
open GM GM.Text GM.Spec GM.Inl GM.Convert GM.ConvertX GM.Proof.ConvertX GM.Proof.ConvertXRelv GM.Proof.ConvertXLevels
open GM.Proof.ConvertXTotal GM.Proof.InlinesTotal GM.Proof.InlinesLink GM.Proof.InlinesReader GM.Proof.Reader

mutual
/-- no emphasis node, at any depth, has the level −1 / −2 of a TaskCheckBox representation -/
def noT : Inl.Node → Bool
  | .emphasis lv ks => !(lv == -1 || lv == -2) && noTL ks
  | .codeSpan ks => noTL ks
  | .link _ _ _ ks => noTL ks
  | _ => true
def noTL : List Inl.Node → Bool
  | [] => true
  | n :: rest => noT n && noTL rest
end

theorem noTL_append (a b : List Inl.Node) : noTL (a ++ b) = (noTL a && noTL b) := by
  induction a with
  | nil => simp [noTL]
  | cons x r ih => simp [noTL, ih, Bool.and_assoc]

theorem noTL_allText : ∀ (ks : List Inl.Node), ks.all GM.Proof.Inlines.isText = true → noTL ks = true
  | [], _ => rfl
  | n :: rest, h => by
    simp only [List.all_cons, Bool.and_eq_true] at h
    have := noTL_allText rest h.2
    cases n <;> simp_all [noTL, noT, GM.Proof.Inlines.isText]

theorem escCut_noT (a b : Int) : ∀ (ps : List Int) (done : List Inl.Node) (cur : Segment) (cut : Bool),
    noTL done = true → noTL (GM.TableX.escCut a b ps done cur cut).1 = true
  | [], _, _, _, h => by simpa [GM.TableX.escCut] using h
  | pos :: rest, done, cur, cut, h => by
    unfold GM.TableX.escCut
    split
    · exact escCut_noT a b rest _ _ _ (by simp [noTL_append, h, noTL, noT, rawTextOf])
    · exact escCut_noT a b rest _ _ _ h

mutual
theorem escNode_noT (ps : List Int) : ∀ n : Inl.Node, noT n = true → noT (GM.TableX.escNode ps n) = true
  | .codeSpan ks, h => by
    simp only [noT] at h
    simp only [GM.TableX.escNode, noT]; exact escSpanKids_noT ps ks h
  | .emphasis lv ks, h => by
    simp only [noT, Bool.and_eq_true] at h
    simp only [GM.TableX.escNode, noT, Bool.and_eq_true]; exact ⟨h.1, escNodes_noT ps ks h.2⟩
  | .link _ _ _ ks, h => by
    simp only [noT] at h
    simp only [GM.TableX.escNode, noT]; exact escNodes_noT ps ks h
  | .text .., _ => rfl
  | .autoLink .., _ => rfl
  | .rawHTML .., _ => rfl
  | .delim .., _ => rfl
  | .label .., _ => rfl
theorem escNodes_noT (ps : List Int) : ∀ ns : List Inl.Node, noTL ns = true → noTL (GM.TableX.escNodes ps ns) = true
  | [], _ => rfl
  | n :: rest, h => by
    simp only [noTL, Bool.and_eq_true] at h
    simp only [GM.TableX.escNodes, noTL, Bool.and_eq_true]
    exact ⟨escNode_noT ps n h.1, escNodes_noT ps rest h.2⟩
theorem escSpanKids_noT (ps : List Int) : ∀ ns : List Inl.Node, noTL ns = true → noTL (GM.TableX.escSpanKids ps ns) = true
  | [], _ => rfl
  | .text seg so ha ra :: rest, h => by
    simp only [noTL, Bool.and_eq_true] at h
    simp only [GM.TableX.escSpanKids, noTL_append, Bool.and_eq_true]
    refine ⟨?_, escSpanKids_noT ps rest h.2⟩
    split
    · simp only [noTL_append, Bool.and_eq_true]
      exact ⟨escCut_noT _ _ ps [] seg false rfl, by simp [noTL, noT, rawTextOf]⟩
    · simp [noTL, noT]
  | .codeSpan ks :: rest, h => by
    simp only [noTL, Bool.and_eq_true] at h
    simp only [GM.TableX.escSpanKids, noTL, Bool.and_eq_true]
    exact ⟨escNode_noT ps _ h.1, escSpanKids_noT ps rest h.2⟩
  | .emphasis lv ks :: rest, h => by
    simp only [noTL, Bool.and_eq_true] at h
    simp only [GM.TableX.escSpanKids, noTL, Bool.and_eq_true]
    exact ⟨escNode_noT ps _ h.1, escSpanKids_noT ps rest h.2⟩
  | .link a b c ks :: rest, h => by
    simp only [noTL, Bool.and_eq_true] at h
    simp only [GM.TableX.escSpanKids, noTL, Bool.and_eq_true]
    exact ⟨escNode_noT ps _ h.1, escSpanKids_noT ps rest h.2⟩
  | .autoLink a b :: rest, h => by
    simp only [noTL, Bool.and_eq_true] at h
    simp only [GM.TableX.escSpanKids, noTL, Bool.and_eq_true]
    exact ⟨escNode_noT ps _ h.1, escSpanKids_noT ps rest h.2⟩
  | .rawHTML a :: rest, h => by
    simp only [noTL, Bool.and_eq_true] at h
    simp only [GM.TableX.escSpanKids, noTL, Bool.and_eq_true]
    exact ⟨escNode_noT ps _ h.1, escSpanKids_noT ps rest h.2⟩
  | .delim a b :: rest, h => by
    simp only [noTL, Bool.and_eq_true] at h
    simp only [GM.TableX.escSpanKids, noTL, Bool.and_eq_true]
    exact ⟨escNode_noT ps _ h.1, escSpanKids_noT ps rest h.2⟩
  | .label a b c :: rest, h => by
    simp only [noTL, Bool.and_eq_true] at h
    simp only [GM.TableX.escSpanKids, noTL, Bool.and_eq_true]
    exact ⟨escNode_noT ps _ h.1, escSpanKids_noT ps rest h.2⟩
end

mutual
/-- on a tree without the representations the decoding does not depend on the inline member flags -/
theorem inlineTreeX_tflag (c1 c2 : XCfg) (ht : c1.strikethrough = c2.strikethrough) (src : Bytes) : ∀ n : Inl.Node, noT n = true →
    inlineTreeX c1 src n = inlineTreeX c2 src n
  | .text .., _ => by simp [inlineTreeX]
  | .codeSpan ks, h => by
    simp only [noT] at h
    simp only [inlineTreeX, inlineTreesX_tflag c1 c2 ht src ks h]
  | .emphasis lv ks, h => by
    simp only [noT, Bool.and_eq_true, Bool.not_eq_true', Bool.or_eq_false_iff] at h
    simp only [inlineTreeX, inlineTreesX_tflag c1 c2 ht src ks h.2, h.1.1, h.1.2, Bool.and_false, Bool.false_eq_true,
      if_false, ht]
  | .link _ _ _ ks, h => by
    simp only [noT] at h
    simp only [inlineTreeX, inlineTreesX_tflag c1 c2 ht src ks h]
  | .autoLink .., _ => by simp [inlineTreeX]
  | .rawHTML .., _ => by simp [inlineTreeX]
  | .delim .., _ => by simp [inlineTreeX]
  | .label .., _ => by simp [inlineTreeX]
theorem inlineTreesX_tflag (c1 c2 : XCfg) (ht : c1.strikethrough = c2.strikethrough) (src : Bytes) : ∀ ns : List Inl.Node, noTL ns = true →
    inlineTreesX c1 src ns = inlineTreesX c2 src ns
  | [], _ => by simp [inlineTreesX]
  | n :: rest, h => by
    simp only [noTL, Bool.and_eq_true] at h
    simp only [inlineTreesX, inlineTreeX_tflag c1 c2 ht src n h.1, inlineTreesX_tflag c1 c2 ht src rest h.2]
end


mutual
theorem fix_noT : ∀ n : Inl.Node, relv g1 n = n → noT n = true
  | .emphasis lv ks, h => by
    simp only [relv_emphasis, Node.emphasis.injEq] at h
    simp only [noT, Bool.and_eq_true, Bool.not_eq_true']
    refine ⟨?_, fixL_noTL ks h.2⟩
    have := h.1
    unfold g1 at this
    split at this
    · rename_i hc
      simp only [Bool.or_eq_true, beq_iff_eq] at hc
      omega
    · rename_i hc; simpa using hc
  | .codeSpan ks, h => by
    simp only [relv_codeSpan, Node.codeSpan.injEq] at h
    simp only [noT]; exact fixL_noTL ks h
  | .link im d t ks, h => by
    simp only [relv_link, Node.link.injEq, true_and] at h
    simp only [noT]; exact fixL_noTL ks h
  | .text .., _ => rfl
  | .autoLink .., _ => rfl
  | .rawHTML .., _ => rfl
  | .delim .., _ => rfl
  | .label .., _ => rfl
theorem fixL_noTL : ∀ l : List Inl.Node, relvL g1 l = l → noTL l = true
  | [], _ => rfl
  | n :: rest, h => by
    simp only [relvL_cons, List.cons.injEq] at h
    simp only [noTL, Bool.and_eq_true]
    exact ⟨fix_noT n h.1, fixL_noTL rest h.2⟩
end


/-! ### the inline phase -/

theorem parseBlockG_task_unused (c : XCfg) (inItem : Bool) {src : Bytes} {segs : List Segment}
    (W : WFSegs src segs) (Z : ∀ s ∈ segs, s.padding = 0) (env : Env) (hsrc : (91 : UInt8) ∉ src) :
    parseBlockG env (inlineTbl { c with tasklist := true } inItem) (pdX { c with tasklist := true }) src segs =
      parseBlockG env (inlineTbl { c with tasklist := false } inItem) (pdX { c with tasklist := false }) src segs := by
  have F := segFacts W
  obtain ⟨r0, e0, a0⟩ := blockReader_init F
  have hz0 : (BCur.init segs).pad = 0 := segOf_pad F Z 0 (Int.le_refl _) F.kpos
  have hI : LInv (Ctx.normed (linkCtx (BCur.segOf segs 0).start)) src segs { rd := r0 } (BCur.init segs) :=
    ⟨⟨a0, hz0⟩, by simp only [segsOfL, chain, BCur.init]; exact (F.rng 0 (Int.le_refl _) F.kpos).1, LK_base _⟩
  have h1 := lineLoopX_eq2 _ F Z env (inlineTbl { c with tasklist := true } inItem)
    (inlineTbl { c with tasklist := false } inItem)
    (by rw [inlineTbl_32]; exact fun _ h => by cases h) (inlineTbl_contracts _ inItem W Z env)
    (by simp [inlineTbl_32])
    (fun b hb => by
      have : b ≠ 91 := fun h => hsrc (h ▸ hb)
      simp [inlineTbl, linkX, pdX, this])
    (blockFuel src segs) false _ _ hI (blockFuel_gt W Z a0.wf hz0)
  unfold parseBlockG
  simp only [e0, bind, Except.bind, h1]
  rfl

theorem inlineLines_task (c : XCfg) (env : Env) (src : Bytes) (hsrc : (91 : UInt8) ∉ src) (inItem : Bool)
    (lines : List Segment) :
    inlineLines { c with tasklist := true } true env src inItem lines =
      inlineLines { c with tasklist := false } true env src inItem lines := by
  unfold inlineLines
  split
  · rfl
  · split
    · rfl
    · rename_i hw
      have hw' : GM.LinkRef.wf0B src lines = true := by simpa using hw
      obtain ⟨W, Z⟩ := GM.Proof.LinkRefTotal.wf0B_sound hw'
      rw [parseBlockG_task_unused c inItem W Z env hsrc]

theorem inlinePhaseX_task2 (c : XCfg) (env : Env) (src : Bytes) (hsrc : (91 : UInt8) ∉ src) (inItem : Bool)
    (n : GM.Blocks.Node) :
    inlinePhaseX { c with tasklist := true } true env src inItem n =
      inlinePhaseX { c with tasklist := false } true env src inItem n := by
  unfold inlinePhaseX
  rw [inlineLines_task c env src hsrc]

/-- without TaskList the inline children of a block hold no TaskCheckBox representation -/
theorem inlinePhaseX_noT (c : XCfg) (ht : c.tasklist = false) (g : Bool) (env : Env) (src : Bytes) (inItem : Bool)
    (n : GM.Blocks.Node) (kids : List Inl.Node) (h : inlinePhaseX c g env src inItem n = .ok kids) : noTL kids = true := by
  unfold inlinePhaseX at h
  split at h
  · cases h; rfl
  · split at h
    · cases h; rfl
    · split at h
      · cases h; rfl
      · unfold inlineLines at h
        split at h
        · cases h; rfl
        · split at h
          · cases h
          · exact fixL_noTL kids (parseBlockG_fixS c (g1_okS _) g1_ok0 (fun h => by rw [ht] at h; cases h) inItem env src
              n.lines kids (liftErr_ok' h))

mutual
theorem docTreeX_task2 (c : XCfg) (env : Env) (src : Bytes) (hsrc : (91 : UInt8) ∉ src) (escs : List Int) :
    ∀ (inItem : Bool) (t : GM.Blocks.Tree),
    docTreeX { c with tasklist := true } true env src escs inItem t =
      docTreeX { c with tasklist := false } true env src escs inItem t
  | inItem, .node n cs => by
    unfold docTreeX
    rw [docTreesX_task2 c env src hsrc escs _ _ cs, inlinePhaseX_task2 c env src hsrc]
    cases hd : docTreesX { c with tasklist := false } true env src escs (n.kind == .listItem) true cs with
    | error e => rfl
    | ok bs =>
      cases hk : inlinePhaseX { c with tasklist := false } true env src inItem n with
      | error e => rfl
      | ok kids =>
        have hl := inlinePhaseX_noT { c with tasklist := false } rfl true env src inItem n kids hk
        have hl' : noTL (if (c.table && GM.TableX.isCellNode src n) = true then GM.TableX.escNodes escs kids else kids) = true := by
          split
          · exact escNodes_noT escs kids hl
          · exact hl
        simp only [bind, Except.bind]
        rw [inlineTreesX_tflag { c with tasklist := true } { c with tasklist := false } rfl src _ hl']
        rfl
theorem docTreesX_task2 (c : XCfg) (env : Env) (src : Bytes) (hsrc : (91 : UInt8) ∉ src) (escs : List Int) :
    ∀ (pi first : Bool) (ts : List GM.Blocks.Tree),
    docTreesX { c with tasklist := true } true env src escs pi first ts =
      docTreesX { c with tasklist := false } true env src escs pi first ts
  | _, _, [] => by unfold docTreesX; rfl
  | pi, first, t :: rest => by
    unfold docTreesX
    rw [docTreeX_task2 c env src hsrc escs _ t, docTreesX_task2 c env src hsrc escs _ _ rest]
end

theorem parseDocX_task2 (c : XCfg) (uc : List (Nat × (Bool × Bool))) (src : Bytes) (hsrc : (91 : UInt8) ∉ src) :
    parseDocX { c with tasklist := true } true uc src = parseDocX { c with tasklist := false } true uc src := by
  unfold parseDocX
  have hb : blockPhaseX { c with tasklist := true } true src = blockPhaseX { c with tasklist := false } true src := rfl
  rw [hb]
  cases liftErr Err.blocks (blockPhaseX { c with tasklist := false } true src) with
  | error e => rfl
  | ok st =>
    simp only [bind, Except.bind]
    exact docTreeX_task2 c _ src hsrc _ _ _

/-- **TaskList is conservative at whole-document level, for EVERY member set** -/
theorem convertX_task_all (c : XCfg) (uc : List (Nat × (Bool × Bool))) (o : ROpts) (src : Bytes)
    (hsrc : (91 : UInt8) ∉ src) :
    convertX { c with tasklist := true } uc o src = convertX { c with tasklist := false } uc o src := by
  unfold convertX convertXWith
  rw [parseDocX_task2 c uc src hsrc]
  cases hp : parseDocX { c with tasklist := false } true uc src with
  | error e => rfl
  | ok t =>
    simp only [bind, Except.bind]
    apply renderDocX_exts
    unfold parseDocX at hp
    obtain ⟨st, _, hp⟩ := ebind_ok hp
    have hk := docTreeX_notTask { c with tasklist := false } rfl true _ src _ _ _ t hp
    exact allKinds_mono (fun k hk => by
      simp only [beq_iff_eq]
      exact handled_task c.exts true false hk) t hk

end GM.Proof.ConvertXTaskDoc
