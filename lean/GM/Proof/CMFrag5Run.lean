/-
  GM.Proof.CMFrag5Run — stage 5: `blocksLoopT` over a document of paragraphs, ATX headings, thematic breaks and fenced
  code blocks separated by blank lines (induction over the number of blocks), `runT`.
-/
import GM.Proof.CMFrag5Lines
import GM.Proof.CMFrag5Fence
import GM.Proof.CMFrag4Run

namespace GM.Proof.CMFrag
open GM GM.Text GM.Blocks GM.Spec

/-- the source lines of a block (without line feeds) -/
def lines5 : Raw5 → List Bytes
  | .old b => lines4 b
  | .fence fc n info ls => (List.replicate (n + 3) fc ++ info) :: (ls ++ [List.replicate (n + 3) fc])
  | .icode ls => icLines ls

def conv5 (it : Nat × Raw5) : Nat × List Bytes := (it.1, lines5 it.2)

/-- the closed block-phase node of a block that starts at byte `p` -/
def node5 (p : Nat) : Raw5 → Bool → Blocks.Node
  | .old b, bk => node4 p b bk
  | .fence _ n info ls, bk =>
    fenceN (if info.isEmpty then none else some (sg (p + n + 3) (p + n + 3 + info.length)))
      (csegs (p + n + 3 + info.length + 1) ls) bk
  | .icode ls, bk => codeN (icsegs p ls) bk

def mkNodes5 : List (Nat × List Bytes) → List Raw5 → List Bool → List Blocks.Node
  | (p, _) :: cl, blk :: blks, b :: bs => node5 p blk b :: mkNodes5 cl blks bs
  | _, _, _ => []

/-- the closed node of the LAST block of a source without final line feed: an indented code block's last segment ends
    with the source (every other kind has the same node as with the line feed) -/
def node5E (p : Nat) : Raw5 → Bool → Blocks.Node
  | .icode ls, bk => codeN (icsegsE p ls) bk
  | b, bk => node5 p b bk

/-- `mkNodes5` with the node of the last block given by `NL` -/
def mkNodes5L (NL : Nat → Raw5 → Bool → Blocks.Node) :
    List (Nat × List Bytes) → List Raw5 → List Bool → List Blocks.Node
  | [(p, _)], [blk], [b] => [NL p blk b]
  | (p, _) :: cl, blk :: blks, b :: bs => node5 p blk b :: mkNodes5L NL cl blks bs
  | _, _, _ => []

theorem mkNodes5L_node5 : ∀ (cl : List (Nat × List Bytes)) (blks : List Raw5) (bs : List Bool),
    mkNodes5L node5 cl blks bs = mkNodes5 cl blks bs
  | [], _, _ => by simp [mkNodes5L, mkNodes5]
  | _ :: _, [], _ => by simp [mkNodes5L, mkNodes5]
  | _ :: _, _ :: _, [] => by simp [mkNodes5L, mkNodes5]
  | [(p, ls)], [blk], [b] => by simp [mkNodes5L, mkNodes5]
  | (p, ls) :: x :: cl, blk :: blks, b :: bs => by
    have ih := mkNodes5L_node5 (x :: cl) blks bs
    cases blks with
    | nil => simp [mkNodes5L, mkNodes5]
    | cons b2 blks' =>
      cases bs with
      | nil => simp [mkNodes5L, mkNodes5]
      | cons k2 bs' => simp only [mkNodes5L, mkNodes5] at ih ⊢; rw [ih]
  | [(p, ls)], blk :: b2 :: blks, b :: bs => by simp [mkNodes5L, mkNodes5]
  | [(p, ls)], [blk], b :: k2 :: bs => by simp [mkNodes5L, mkNodes5]

/-- a block in front of at least one further block -/
theorem mkNodes5L_cons (NL : Nat → Raw5 → Bool → Blocks.Node) (p : Nat) (ls : List Bytes) (x : Nat × List Bytes)
    (cl : List (Nat × List Bytes)) (blk b2 : Raw5) (blks : List Raw5) (b k2 : Bool) (bs : List Bool) :
    mkNodes5L NL ((p, ls) :: x :: cl) (blk :: b2 :: blks) (b :: k2 :: bs) =
      node5 p blk b :: mkNodes5L NL (x :: cl) (b2 :: blks) (k2 :: bs) := by
  simp [mkNodes5L]

/-- what the block phase needs of a block -/
def Good5 : Raw5 → Prop
  | .old b => Good4 b
  | .fence fc _ info ls => (fc = 96 ∨ fc = 126) ∧ (∀ c ∈ info, GM.Spec.CM.isAlnumC c = true) ∧ ∀ l ∈ ls, CodeLine fc l
  | .icode ls => ls ≠ [] ∧ ∀ l ∈ ls, IcLine l

/-- the first gap one larger: the blank line in front belongs to the gap -/
def bump : List (Nat × Raw5) → List (Nat × Raw5)
  | [] => []
  | (g, b) :: rest => (g + 1, b) :: rest

theorem bump_length (items : List (Nat × Raw5)) : (bump items).length = items.length := by
  cases items with
  | nil => rfl
  | cons it rest => obtain ⟨g, b⟩ := it; rfl

theorem bump_snd (items : List (Nat × Raw5)) : (bump items).map (·.2) = items.map (·.2) := by
  cases items with
  | nil => rfl
  | cons it rest => obtain ⟨g, b⟩ := it; rfl

theorem cost_bump (items : List (Nat × Raw5)) : cost ((bump items).map conv5) = cost (items.map conv5) := by
  cases items with
  | nil => rfl
  | cons it rest => obtain ⟨g, b⟩ := it; rfl

theorem closedOf_bump (q : Nat) (items : List (Nat × Raw5)) :
    closedOf q ((bump items).map conv5) = closedOf (q + 1) (items.map conv5) := by
  cases items with
  | nil => rfl
  | cons it rest =>
    obtain ⟨g, b⟩ := it
    have e : q + (g + 1) = q + 1 + g := by omega
    simp only [bump, List.map_cons, conv5, closedOf, e]

theorem docAt_bump {src : Bytes} {q : Nat} (hl : Ln src q (q + 1) [10]) (items : List (Nat × Raw5)) (trail : Nat)
    (hne : items ≠ []) (h : DocAt src (q + 1) (items.map conv5) trail) : DocAt src q ((bump items).map conv5) trail := by
  cases items with
  | nil => exact absurd rfl hne
  | cons it rest =>
    obtain ⟨g, b⟩ := it
    have e : q + (g + 1) = q + 1 + g := by omega
    obtain ⟨h1, h2, h3⟩ := h
    simp only [bump, List.map_cons, conv5]
    refine ⟨⟨hl, h1⟩, ?_, ?_⟩
    · rw [e]; exact h2
    · rw [e]; exact h3

section run5
variable {src : Bytes}

/-- one fenced code block: from a block boundary to behind its closing fence -/
theorem step5_fence (fc : UInt8) (n : Nat) (info : Bytes) (ls : List Bytes) (g q : Nat) (k : Int) (f : Nat)
    (bl : List LineStat) (d : Blocks.Node) (cs : List Blocks.Node) (pc : Ctx)
    (hbl : BlanksAt src q g) (hpa : ParaAt src (q + g) (lines5 (.fence fc n info ls)))
    (hgood : Good5 (.fence fc n info ls)) (hf : (lines5 (.fence fc n info ls)).length + 1 ≤ f) (hop : pc.opened = []) :
    ∃ bl' s1 bk,
      blocksLoopT pts 0 (f + 1) bl ⟨rdr src k q q (lineEnd src q) none (-1), d :: cs, pc⟩ = blocksLoopT pts 0 f bl' s1 ∧
      s1.nodes = { d with children := d.children ++ [cs.length + 1] } :: (cs ++ [node5 (q + g) (.fence fc n info ls) bk]) ∧
      s1.pc.opened = [] ∧ s1.pc.refs = pc.refs ∧
      ∃ k', s1.r = rdr src k' (q + g + (paraBytes (lines5 (.fence fc n info ls))).length)
        (q + g + (paraBytes (lines5 (.fence fc n info ls))).length)
        (lineEnd src (q + g + (paraBytes (lines5 (.fence fc n info ls))).length)) none (-1) := by
  obtain ⟨hfc, hinfo, hcode⟩ := hgood
  obtain ⟨hl0, hrest⟩ := hpa
  have hv : (List.replicate (n + 3) fc ++ info) ++ [10] = List.replicate (n + 3) fc ++ (info ++ [10]) := by simp
  have hnb : isBlank ((List.replicate (n + 3) fc ++ info) ++ [10]) = false := by
    have : isSpace fc = false := by rcases hfc with h | h <;> subst h <;> decide
    simp [List.replicate_succ, isBlank, this]
  have elen : (List.replicate (n + 3) fc ++ info).length = n + 3 + info.length := by simp
  rw [elen] at hl0 hrest
  have hfl : ls.length + 2 ≤ f := by simp [lines5] at hf; omega
  rw [blocksLoopT]
  simp only [bind_apply, skipR_text k hbl hl0 hnb, Bool.not_true, Bool.false_eq_true, if_false,
    position_run, getPc_run, hop, List.length_nil, rdr_line, blankStats,
    openBlocks_fence hl0 fc hfc n info hinfo hv pts _ d cs pc hop _ _ (Or.inr rfl)]
  generalize (if ((g : Int) != 0) = true then [] else bl) = BL
  generalize isBlankLine (k + (g : Int) - 1) 0 BL = bk
  simp only [bne_self_eq_false, Bool.false_eq_true, if_false, bind_apply, advanceLine_run]
  obtain ⟨bl', s1, h1, h2, h3, h4, k', h5⟩ :=
    linesLoop_fence (src := src) fc hfc n { d with children := d.children ++ [cs.length + 1] } cs
      (if info.isEmpty then none else some (sg (q + g + n + 3) (q + g + (n + 3 + info.length) + 1 - 1))) bk
      (q + g + (n + 3 + info.length) + 1) ls [] (k + g + 1) f BL
      { pc with blockOffset := 0, blockIndent := 0, opened := [{ node := cs.length + 1, bp := .fenced }],
                fence := some { char := fc, indent := 0, length := ((n + 3 : Nat) : Int), node := cs.length + 1 } }
      (by simpa [paraBytes] using hrest) hcode hfl rfl rfl
  have en : node5 (q + g) (.fence fc n info ls) bk =
      fenceN (if info.isEmpty then none else some (sg (q + g + n + 3) (q + g + (n + 3 + info.length) + 1 - 1)))
        (csegs (q + g + (n + 3 + info.length) + 1) ([] ++ ls)) bk := by
    simp only [node5, List.nil_append]
    have a1 : q + g + n + 3 + info.length = q + g + (n + 3 + info.length) + 1 - 1 := by omega
    have a2 : q + g + (n + 3 + info.length) + 1 - 1 + 1 = q + g + (n + 3 + info.length) + 1 := by omega
    rw [a1, a2]
  have eQ : q + g + (paraBytes (lines5 (.fence fc n info ls))).length =
      q + g + (n + 3 + info.length) + 1 + (paraBytes ([] ++ ls ++ [List.replicate (n + 3) fc])).length := by
    simp [lines5, paraBytes]; omega
  refine ⟨bl', s1, bk, ?_, by rw [en]; exact h2, h3, h4, k', by rw [eQ]; exact h5⟩
  simp only [paraBytes, List.flatMap_nil, List.length_nil, Nat.add_zero, csegs] at h1
  simp only [h1]
  simp

theorem mkNodes5_bump (q : Nat) (items : List (Nat × Raw5)) (bs : List Bool) :
    mkNodes5 (closedOf q ((bump items).map conv5)) ((bump items).map (·.2)) bs =
      mkNodes5 (closedOf (q + 1) (items.map conv5)) (items.map (·.2)) bs := by
  rw [closedOf_bump, bump_snd]

/-- the outer loop of parseBlocks over a stage-5 document -/
theorem blocksLoop_doc5 (HA : AtxOpens) : ∀ (m : Nat) (items : List (Nat × Raw5)), items.length = m →
    ∀ (trail q : Nat) (k : Int) (fuel : Nat) (bl : List LineStat) (d : Blocks.Node) (cs : List Blocks.Node) (pc : Ctx),
    DocAt src q (items.map conv5) trail → (∀ it ∈ items, Good5 it.2) → (∀ it ∈ items, isIcB it.2 = false) →
    cost (items.map conv5) + 1 ≤ fuel →
    pc.opened = [] →
    ∃ s' bs, blocksLoopT pts 0 fuel bl ⟨rdr src k q q (lineEnd src q) none (-1), d :: cs, pc⟩ = .ok ((), s') ∧
      bs.length = items.length ∧
      s'.nodes = addKids d cs.length items.length ::
        (cs ++ mkNodes5 (closedOf q (items.map conv5)) (items.map (·.2)) bs) ∧ s'.pc.refs = pc.refs := by
  intro m
  induction m with
  | zero =>
    intro items hm trail q k fuel bl d cs pc hd _ _ hf hop
    have : items = [] := List.length_eq_zero_iff.mp hm
    subst this
    obtain ⟨f, rfl⟩ : ∃ f, fuel = f + 1 := ⟨fuel - 1, by omega⟩
    obtain ⟨r', hs⟩ := skipR_eof k hd.1 hd.2 (d :: cs) pc
    refine ⟨⟨r', d :: cs, pc⟩, [], ?_, rfl, ?_, rfl⟩
    · rw [blocksLoopT]
      simp only [bind_apply, hs]
      simp [pure_apply]
    · simp [addKids_zero, mkNodes5, closedOf]
  | succ m ih =>
    intro items hm trail q k fuel bl d cs pc hd hgood hnoic hf hop
    cases items with
    | nil => simp at hm
    | cons it rest =>
      obtain ⟨g, blk⟩ := it
      have hrl : rest.length = m := by simpa using hm
      obtain ⟨f, rfl⟩ : ∃ f, fuel = f + 1 := ⟨fuel - 1, by omega⟩
      have hd' : DocAt src q ((g, lines5 blk) :: rest.map conv5) trail := hd
      obtain ⟨hbl, hpa, htail⟩ := hd'
      have hg : Good5 blk := hgood (g, blk) (by simp)
      have hfl : (lines5 blk).length + 1 ≤ f := by
        simp only [List.map_cons, conv5, cost] at hf; omega
      have hfr : cost (rest.map conv5) + 1 ≤ f := by
        simp only [List.map_cons, conv5, cost] at hf; omega
      -- the common continuation: from a state at a block boundary `Q'` with `DocAt` for some list `items'` of length m
      have cont : ∀ (Q' : Nat) (items' : List (Nat × Raw5)) (trail' : Nat) (bl' : List LineStat) (s1 : St) (bk : Bool) (k' : Int),
          items'.length = m → DocAt src Q' (items'.map conv5) trail' → (∀ it ∈ items', Good5 it.2) →
          (∀ it ∈ items', isIcB it.2 = false) →
          cost (items'.map conv5) + 1 ≤ f →
          mkNodes5 (closedOf Q' (items'.map conv5)) (items'.map (·.2)) =
            mkNodes5 (closedOf (q + g + (paraBytes (lines5 blk)).length + 1) (rest.map conv5)) (rest.map (·.2)) →
          s1.nodes = { d with children := d.children ++ [cs.length + 1] } :: (cs ++ [node5 (q + g) blk bk]) →
          s1.pc.opened = [] → s1.pc.refs = pc.refs →
          s1.r = rdr src k' Q' Q' (lineEnd src Q') none (-1) →
          ∃ s' bs, blocksLoopT pts 0 f bl' s1 = .ok ((), s') ∧
            bs.length = ((g, blk) :: rest).length ∧
            s'.nodes = addKids d cs.length ((g, blk) :: rest).length ::
              (cs ++ mkNodes5 (closedOf q (((g, blk) :: rest).map conv5)) (((g, blk) :: rest).map (·.2)) bs) ∧
            s'.pc.refs = pc.refs := by
        intro Q' items' trail' bl' s1 bk k' hl' hdt hg' hni' hc' hmk h2 h3 h4 hk'
        have es1 : s1 = ⟨rdr src k' Q' Q' (lineEnd src Q') none (-1),
            { d with children := d.children ++ [cs.length + 1] } :: (cs ++ [node5 (q + g) blk bk]), s1.pc⟩ := by
          cases s1; simp only at hk' h2 ⊢; rw [hk', h2]
        obtain ⟨s', bs, i1, i2, i3, i4⟩ :=
          ih items' hl' trail' Q' k' f bl' { d with children := d.children ++ [cs.length + 1] }
            (cs ++ [node5 (q + g) blk bk]) s1.pc hdt hg' hni' hc' h3
        refine ⟨s', bk :: bs, by rw [es1]; exact i1, by simp [i2, hl', hrl], ?_, by rw [i4, h4]⟩
        rw [i3, hmk]
        simp [addKids, mkNodes5, closedOf, conv5, List.range'_succ, hl', hrl]
      cases blk with
      | old b =>
        have haft : After src (q + g + (paraBytes (lines4 b)).length) := by
          rcases htail with h | h
          · exact Or.inl h.2.2
          · exact Or.inr h.1
        obtain ⟨ret, bl', s1, bk, e1, h2, h3, h4, h5⟩ :=
          step4 HA g b q k f bl d cs pc hbl hpa hg haft hfl hop
        rw [e1]
        rcases h5 with ⟨hr, hq⟩ | ⟨hr, hln, k', hk'⟩
        · subst hr
          have hrest : rest = [] := by
            rcases htail with h | h
            · simpa using h.1
            · have := h.1.le; simp only [lines5] at this; omega
          subst hrest
          refine ⟨s1, [bk], ?_, rfl, ?_, h4⟩
          · simp [pure_apply]
          · rw [h2]; simp [addKids, mkNodes5, closedOf, conv5, node5, lines5]
        · subst hr
          simp only [Bool.false_eq_true, if_false]
          rcases htail with h | h
          · exfalso; have := hln.le; simp only [lines5] at h; omega
          · rcases h.2 with ⟨hre, t, _, hdt⟩ | ⟨_, hdt⟩
            · exact cont _ rest t bl' s1 bk k' hrl hdt (fun it hit => hgood it (by simp [hit]))
                (fun it hit => hnoic it (by simp [hit])) hfr rfl h2 h3 h4 hk'
            · exact cont _ rest trail bl' s1 bk k' hrl hdt (fun it hit => hgood it (by simp [hit]))
                (fun it hit => hnoic it (by simp [hit])) hfr rfl h2 h3 h4 hk'
      | fence fc n info ls =>
        obtain ⟨bl', s1, bk, e1, h2, h3, h4, k', hk'⟩ :=
          step5_fence fc n info ls g q k f bl d cs pc hbl hpa hg hfl hop
        rw [e1]
        rcases htail with h | h
        · -- the source ends behind the closing fence
          obtain ⟨hre, ht, hq⟩ := h
          have hrest : rest = [] := by simpa using hre
          subst hrest; subst ht
          exact cont _ [] 0 bl' s1 bk k' hrl ⟨trivial, by simpa using hq⟩ (by simp) (by simp) hfr (by simp [closedOf]) h2 h3 h4 hk'
        · obtain ⟨hln, h⟩ := h
          rcases h with ⟨hre, t, ht, hdt⟩ | ⟨hre, hdt⟩
          · have hrest : rest = [] := by simpa using hre
            subst hrest; subst ht
            have hdt' : DocAt src (q + g + (paraBytes (lines5 (.fence fc n info ls))).length) [] (t + 1) := by
              obtain ⟨b1, b2⟩ := hdt
              exact ⟨⟨hln, b1⟩, by omega⟩
            exact cont _ [] (t + 1) bl' s1 bk k' hrl hdt' (by simp) (by simp) hfr (by simp [closedOf]) h2 h3 h4 hk'
          · have hrne : rest ≠ [] := by simpa using hre
            exact cont _ (bump rest) trail bl' s1 bk k' (by rw [bump_length]; exact hrl)
              (docAt_bump hln rest trail hrne hdt)
              (by
                intro it hit
                cases rest with
                | nil => exact absurd rfl hrne
                | cons it0 rest' =>
                  obtain ⟨g0, b0⟩ := it0
                  simp only [bump, List.mem_cons] at hit
                  rcases hit with rfl | hit
                  · exact hgood (g0, b0) (by simp)
                  · exact hgood it (by simp [hit]))
              (by
                intro it hit
                cases rest with
                | nil => exact absurd rfl hrne
                | cons it0 rest' =>
                  obtain ⟨g0, b0⟩ := it0
                  simp only [bump, List.mem_cons] at hit
                  rcases hit with rfl | hit
                  · exact hnoic (g0, b0) (by simp)
                  · exact hnoic it (by simp [hit]))
              (by rw [cost_bump]; exact hfr) (by rw [closedOf_bump, bump_snd]) h2 h3 h4 hk'
      | icode ls => exact absurd (hnoic (g, .icode ls) (by simp)) (by simp [isIcB])
end run5

end GM.Proof.CMFrag
