/-
  GM.Proof.CMFrag5Fence — the block phase on one opening fence line `fc…fc info⏎` (n+3 backticks or tildes directly
  followed by an alphanumeric info string, possibly empty) with nothing open, as an equation on explicit states:
  fencedCodeBlockParser.Open opens a FencedCodeBlock whose Info segment is the info string (none when empty) and
  records the fence data in the parse context; the reader is not advanced (the peeked line and LineOffset stay cached).
-/
import GM.Proof.CMFrag5Defs
import GM.Proof.CMFrag4Atx
namespace GM.Proof.CMFrag
open GM GM.Text GM.Blocks

theorem alnum_facts_fence : ∀ c : UInt8, GM.Spec.CM.isAlnumC c = true → c ≠ 96 ∧ c ≠ 126 ∧ c ≠ 10 ∧ isSpace c = false :=
  GM.forall_uint8 _ (by decide +kernel)

theorem countLeading_fence (fc : UInt8) (m : Nat) (c : UInt8) (t : Bytes) (hc : c ≠ fc) :
    countLeading fc (List.replicate m fc ++ c :: t) = m := by
  induction m with
  | zero => simp [countLeading, hc]
  | succ n ih =>
    have hcb : (c == fc) = false := by simp [hc]
    simp only [countLeading] at ih ⊢
    simp [List.replicate_succ, List.takeWhile, hcb]

theorem scan_fence (fc : UInt8) (m : Nat) (c : UInt8) (t : Bytes) (hc : c ≠ fc) :
    scanWhileEq (List.replicate m fc ++ c :: t) fc 0 = (m : Int) := by
  simp [scanWhileEq, countLeading_fence fc m c t hc]

theorem sliceFrom_fence (fc : UInt8) (m : Nat) (t : Bytes) :
    sliceFrom (List.replicate m fc ++ t) (m : Int) = .ok t := by
  have c : (0 : Int) ≤ (m : Int) ∧ (m : Int) ≤ ((List.replicate m fc ++ t).length : Int) := by
    simp; omega
  unfold sliceFrom
  rw [if_pos c]
  simp

section fence
variable {src : Bytes} {p e : Nat} {v : Bytes}

theorem fencedOpen_fence (hl : Ln src p e v) (fc : UInt8) (hfc : fc = 96 ∨ fc = 126)
    (n : Nat) (info : Bytes) (hinfo : ∀ c ∈ info, GM.Spec.CM.isAlnumC c = true)
    (hv : v = List.replicate (n + 3) fc ++ (info ++ [10]))
    (k : Int) (nodes : List Blocks.Node) (pc : Ctx) (hoff : pc.blockOffset = 0) (parent : Nat) :
    fencedOpen parent ⟨rdr src k p p e (some v) 0, nodes, pc⟩ =
      .ok ((some nodes.length, stNoChildren),
        ⟨rdr src k p p e (some v) 0,
          nodes ++ [{ kind := .fencedCodeBlock, info := (if info.isEmpty then none else some (sg (p + n + 3) (e - 1))) }],
          { pc with fence := some { char := fc, indent := 0, length := ((n + 3 : Nat) : Int), node := nodes.length } }⟩) := by
  have hp : p < src.length := by have := hl.le; have := hl.lt; omega
  have hfcb : (fc != 96 && fc != 126) = false := by rcases hfc with h | h <;> subst h <;> decide
  obtain ⟨c, t, hct, hc⟩ : ∃ c t, info ++ [10] = c :: t ∧ c ≠ fc := by
    cases info with
    | nil => exact ⟨10, [], rfl, by rcases hfc with h | h <;> subst h <;> decide⟩
    | cons c t =>
      obtain ⟨h1, h2, -, -⟩ := alnum_facts_fence c (hinfo c (by simp))
      exact ⟨c, t ++ [10], rfl, by rcases hfc with h | h <;> subst h <;> assumption⟩
  have hscan := scan_fence fc (n + 3) c t hc
  rw [← hct, ← hv] at hscan
  have hsl := sliceFrom_fence fc (n + 3) (info ++ [10])
  rw [← hv] at hsl
  have hidx : idx v 0 = .ok fc := by rw [hv]; rfl
  have hvl : v.length = n + 3 + info.length + 1 := by rw [hv]; simp; omega
  have c0 : ¬ ((0 : Int) < 0) := by omega
  have c1 : ¬ (((n + 3 : Nat) : Int) - 0 < 3) := by omega
  unfold fencedOpen
  simp only [bind_apply, peekLine_cached hp, getPc_run, hoff, Option.getD_some, hscan, c0, if_false, hidx, liftE_ok, hfcb,
    Bool.false_eq_true, c1]
  cases info with
  | nil =>
    have c2 : ¬ (((n + 3 : Nat) : Int) < (v.length : Int) - 1) := by simp at hvl; omega
    simp only [c2, if_false, bind_apply, newNode_run, modPc_run, pure_apply]
    simp [hoff]
  | cons a u =>
    obtain ⟨ha1, ha2, ha3, hasp⟩ := alnum_facts_fence a (hinfo a (by simp))
    have c2 : (((n + 3 : Nat) : Int) < (v.length : Int) - 1) := by simp at hvl; omega
    have hs10 : isSpace 10 = true := by decide
    have htl : trimLeftSpaceLength (a :: u ++ [10]) = 0 := by
      simp [trimLeftSpaceLength, hasp]
    have hne : (a :: u) ≠ [] := by simp
    have hlastsp : isSpace ((a :: u).getLast hne) = false :=
      (alnum_facts_fence _ (hinfo _ (List.getLast_mem hne))).2.2.2
    have hrev : (a :: u).reverse = (a :: u).getLast hne :: (a :: u).dropLast.reverse := by
      conv => lhs; rw [← List.dropLast_concat_getLast hne]
      simp
    have htrr : trimRightSpaceLength (a :: u ++ [10]) = 1 := by
      unfold trimRightSpaceLength
      rw [List.reverse_append, hrev]
      simp [List.takeWhile, hs10, hlastsp]
    have e0 : ((0 : Nat) : Int) = 0 := rfl
    have e1 : ((1 : Nat) : Int) = 1 := rfl
    have hslice : slice (a :: u ++ [10]) 0 (((a :: u ++ [10]).length : Int) - 1) = .ok (a :: u) := by
      have c : (0 ≤ (0 : Int) ∧ (0 : Int) ≤ ((a :: u ++ [10]).length : Int) - 1 ∧
          ((a :: u ++ [10]).length : Int) - 1 ≤ ((a :: u ++ [10]).length : Int)) := by simp; omega
      unfold slice sliceB
      rw [if_pos c]
      have t2 : (((a :: u ++ [10]).length : Int) - 1).toNat = (a :: u).length := by simp
      rw [t2]
      simp [sub]
    have c3 : ((0 : Int) < ((a :: u ++ [10]).length : Int) - 1) := by simp <;> omega
    have hcont : (fc == 96 && (a :: u).contains 96) = false := by
      rcases hfc with h | h
      · have : (a :: u).contains 96 = false := by
          rw [Bool.eq_false_iff]
          intro hm
          have hm' : (96 : UInt8) ∈ a :: u := by simpa using hm
          exact (alnum_facts_fence _ (hinfo _ hm')).1 rfl
        rw [this]; simp
      · subst h; rfl
    have c4 : ((sg p e).start - (sg p e).padding + ((n + 3 : Nat) : Int) + 0 != (sg p e).stop - 1) = true := by
      have := hl.len; have := hl.lt
      simp only [sg, bne_iff_ne, ne_eq]
      simp at hvl
      omega
    have hseg : ({ start := (sg p e).start - (sg p e).padding + ((n + 3 : Nat) : Int) + 0, stop := (sg p e).stop - 1 } : Segment) =
        sg (p + n + 3) (e - 1) := by
      have := hl.len; have := hl.lt
      simp only [sg, Segment.mk.injEq, and_true]
      omega
    simp only [c2, if_true, bind_apply, hsl, liftE_ok, htl, htrr, e0, e1, c3, hslice, hcont, Bool.false_eq_true, if_false, c4,
      hseg, newNode_run, modPc_run, pure_apply]
    simp [hoff]

theorem tryParsers_fence (hl : Ln src p e v) (fc : UInt8) (hfc : fc = 96 ∨ fc = 126)
    (n : Nat) (info : Bytes) (hinfo : ∀ c ∈ info, GM.Spec.CM.isAlnumC c = true)
    (hv : v = List.replicate (n + 3) fc ++ (info ++ [10])) (pts : List PT) (k : Int)
    (d : Blocks.Node) (rest : List Blocks.Node) (pc : Ctx) (hop : pc.opened = []) (hoff : pc.blockOffset = 0)
    (blank : Bool) :
    tryParsersT pts 0 blank false 0 [.fenced, .code, .paragraph] .noBlocksOpened none
        ⟨rdr src k p p e (some v) 0, d :: rest, pc⟩ =
      .ok ((.done, .newBlocksOpened, none),
        ⟨rdr src k p p e (some v) 0,
          { d with children := d.children ++ [rest.length + 1] } ::
            (rest ++ [fenceN (if info.isEmpty then none else some (sg (p + n + 3) (e - 1))) [] blank]),
          { pc with opened := [{ node := rest.length + 1, bp := .fenced }],
                    fence := some { char := fc, indent := 0, length := ((n + 3 : Nat) : Int), node := rest.length + 1 } }⟩) := by
  rw [tryParsersT]
  simp [bind_apply, lastOpenedBlock_run, hop, bpOpen, fencedOpen_fence hl fc hfc n info hinfo hv k (d :: rest) pc hoff,
    BP.canAcceptIndentedLine, pure_apply, stNoChildren, modNode_run, appendChild, ensureIsolated, getNode_run, fenceN]
  simp [map_apply, modPc_run]

theorem openBlocks_fence (hl : Ln src p e v) (fc : UInt8) (hfc : fc = 96 ∨ fc = 126)
    (n : Nat) (info : Bytes) (hinfo : ∀ c ∈ info, GM.Spec.CM.isAlnumC c = true)
    (hv : v = List.replicate (n + 3) fc ++ (info ++ [10]))
    (pts : List PT) (k : Int) (d : Blocks.Node) (rest : List Blocks.Node) (pc : Ctx) (hop : pc.opened = []) (blank : Bool)
    (pk : Option Bytes) (hpk : pk = none ∨ pk = some v) :
    openBlocksT pts 0 blank ⟨rdr src k p p e pk (-1), d :: rest, pc⟩ =
      .ok (.newBlocksOpened,
        ⟨rdr src k p p e (some v) 0,
          { d with children := d.children ++ [rest.length + 1] } ::
            (rest ++ [fenceN (if info.isEmpty then none else some (sg (p + n + 3) (e - 1))) [] blank]),
          { pc with blockOffset := 0, blockIndent := 0, opened := [{ node := rest.length + 1, bp := .fenced }],
                    fence := some { char := fc, indent := 0, length := ((n + 3 : Nat) : Int), node := rest.length + 1 } }⟩) := by
  have hp : p < src.length := by have := hl.le; have := hl.lt; omega
  have hv0 : v = fc :: (List.replicate (n + 2) fc ++ (info ++ [10])) := by
    rw [hv, List.replicate_succ]; rfl
  have hsp : isSpace fc = false := by rcases hfc with h | h <;> subst h <;> decide
  have h32 : (fc == 32) = false := by rcases hfc with h | h <;> subst h <;> decide
  have h9 : (fc == 9) = false := by rcases hfc with h | h <;> subst h <;> decide
  have hiw : indentWidthI v 0 = (0, 0) := by
    rw [hv0]; unfold GM.Blocks.indentWidthI GM.Blocks.indentWidthGo; simp [h32, h9]
  have hpeek : ∀ nodes pc', peekLine ⟨rdr src k p p e pk (-1), nodes, pc'⟩ =
      .ok ((some v, sg p e), ⟨rdr src k p p e (some v) (-1), nodes, pc'⟩) := by
    intro nodes pc'
    rcases hpk with h | h
    · subst h; exact peekLine_fresh hl.sub hp (Nat.le_of_lt hl.lt) hl.le ..
    · subst h; exact peekLine_cached hp ..
  unfold openBlocksT
  simp only [bind_apply, lastOpenedBlock_run, hop, List.getLast?_nil, pure_apply, source_run, retryFuel]
  rw [openBlocksLoopT]
  simp only [bind_apply, hpeek, Option.getD_some, lineOffset_fresh, hiw]
  have hlen : ¬ ((0 : Int) ≥ (v.length : Int)) := by have := hl.len; have := hl.lt; omega
  have hlen' : (0 : Int) < (v.length : Int) := by omega
  have hidx : idx v 0 = .ok fc := by rw [hv0]; rfl
  have h10 : (fc == 10) = false := by rcases hfc with h | h <;> subst h <;> decide
  have htr : triggered fc = some [.fenced, .code, .paragraph] := by rcases hfc with h | h <;> subst h <;> decide
  simp only [modPc_run, hlen, if_false, Option.isNone_some, Bool.false_eq_true, bind_apply, hidx, liftE_ok, h10, hlen',
    if_true, pure_apply, htr, Option.getD_some]
  unfold retryStepT
  simp only [bind_apply, get_run,
    tryParsers_fence hl fc hfc n info hinfo hv pts k d rest { pc with blockOffset := 0, blockIndent := 0 } hop rfl blank]
  simp [toContinuable, pure_apply]
end fence
end GM.Proof.CMFrag
