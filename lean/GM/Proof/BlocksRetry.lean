/-
  GM.Proof.BlocksRetry — the `goto retry` loop of `openBlocks` (parser.go:935-1023) has enough fuel.

  The model monitors the BlockParser contract at every retry (`retryMeasure` must have decreased, otherwise it
  answers `Panic.pre`, see GM.Model.Blocks.Driver.openBlocksLoop). Hence a retry that continues has a smaller
  measure, the measure is below `retryFuel src` at the start, and the loop never answers `Panic.loop`:
  `openOK`, which is what GM.Proof.BlocksTerm needs. What is NOT proved here: that the monitor never fires
  (`run src ≠ .error .pre`), i.e. that the block quote / list item parsers really consume a byte; the
  correspondence runs show it on every input they evaluate.
-/
import GM.Proof.BlocksTerm

namespace GM.Blocks
open GM GM.Text

/-- Hoare triple: from `P`, `m` either fails with a panic that is not the fuel error, or ends in `Q` -/
structure Tr {α : Type} (P : St → Prop) (m : M α) (Q : α → St → Prop) : Prop where
  h : ∀ s, P s → match m s with
    | .ok (a, s') => Q a s'
    | .error e => e ≠ Panic.loop

theorem Tr.pure {α} {P : St → Prop} {Q : α → St → Prop} (a : α) (h : ∀ s, P s → Q a s) :
    Tr P (Pure.pure a : M α) Q := ⟨fun s hs => h s hs⟩

theorem Tr.bind {α β} {P : St → Prop} {R : α → St → Prop} {Q : β → St → Prop} {m : M α} {f : α → M β}
    (hm : Tr P m R) (hf : ∀ a, Tr (R a) (f a) Q) : Tr P (m >>= f) Q := by
  constructor
  intro s hs
  have h1 := hm.h s hs
  show match (m >>= f) s with | .ok (a, s') => Q a s' | .error e => e ≠ Panic.loop
  simp only [Bind.bind, StateT.bind]
  cases hms : m s with
  | error e => rw [hms] at h1; simpa [Except.bind] using h1
  | ok p =>
    rw [hms] at h1
    simp only [Except.bind]
    exact (hf p.1).h p.2 h1

theorem Tr.ite {α} {P : St → Prop} {Q : α → St → Prop} {c : Prop} [Decidable c] {a b : M α}
    (ha : c → Tr P a Q) (hb : ¬ c → Tr P b Q) : Tr P (if c then a else b) Q := by
  split
  · exact ha ‹_›
  · exact hb ‹_›

theorem Tr.of_pres {α} {P I : St → Prop} {m : M α} (hm : Pres I m) (hP : ∀ s, P s → I s) :
    Tr P m (fun _ s => I s) := ⟨fun s hs => hm.h s (hP s hs)⟩

theorem Tr.weaken {α} {P P' : St → Prop} {Q : α → St → Prop} {m : M α} (h : Tr P m Q) (hP : ∀ s, P' s → P s) :
    Tr P' m Q := ⟨fun s hs => h.h s (hP s hs)⟩

theorem Tr.and_pres {α} {P I : St → Prop} {Q : α → St → Prop} {m : M α} (h : Tr P m Q) (hm : Pres I m) :
    Tr (fun s => P s ∧ I s) m (fun a s => Q a s ∧ I s) := by
  constructor
  intro s hs
  have h1 := h.h s hs.1
  have h2 := hm.h s hs.2
  cases hms : m s with
  | error e => rw [hms] at h1; exact h1
  | ok p => rw [hms] at h1 h2; exact ⟨h1, h2⟩

/-- the measure of the retry loop (defined in the model, where the contract monitor uses it) -/
abbrev phi (_src : Bytes) (s : St) : Nat := retryMeasure s

/-- the assertion carried through the prologue of one retry iteration -/
structure RetryInv (src : Bytes) (b : Int) (n : Nat) (hl : Bool) (s : St) : Prop where
  stop : Stop src b s
  fuel : phi src s < n
  line : hasLine s.r = hl

theorem phi_of_eq {src : Bytes} {s s' : St} (hp : s'.r.pos = s.r.pos) (hsrc : s'.r.source = s.r.source)
    (hn : s'.nodes = s.nodes) (ho : s'.pc.opened = s.pc.opened) : phi src s' = phi src s := by
  unfold phi retryMeasure lastIsList; rw [hp, hn, ho, hsrc]

theorem retryInv_peekLine {src b n} :
    Tr (fun s => Stop src b s ∧ phi src s < n) peekLine (fun x s => RetryInv src b n x.1.isSome s) := by
  constructor
  intro s hs
  have := hs.1.toR.peekLine
  unfold GM.Blocks.peekLine
  cases hp : s.r.peekLine with
  | error e => simp only [bind, Except.bind]; exact this.err e hp
  | ok x =>
    obtain ⟨c1, c2, c3⟩ := this.ok x hp
    simp only [bind, Except.bind, Pure.pure, Except.pure]
    refine ⟨c1.toS, ?_, ?_⟩
    · rw [phi_of_eq (s' := { s with r := x.2 }) (s := s) c2 (by rw [c1.source, hs.1.source]) rfl rfl]; exact hs.2
    · rw [hasLine_of_pos (r := s.r) c2 (by rw [c1.source, hs.1.source])]; exact c3.symm

theorem retryInv_lineOffset {src b n hl} : Pres (RetryInv src b n hl) lineOffset := by
  constructor
  intro s hs
  have := hs.stop.toR.lineOffsetOp
  unfold GM.Blocks.lineOffset
  cases hp : s.r.lineOffsetOp with
  | error e => simp only [bind, Except.bind]; exact this.err e hp
  | ok x =>
    obtain ⟨c1, c2⟩ := this.ok x hp
    simp only [bind, Except.bind, Pure.pure, Except.pure]
    refine ⟨c1.toS, ?_, ?_⟩
    · rw [phi_of_eq (s' := { s with r := x.2 }) (s := s) c2 (by rw [c1.source, hs.stop.source]) rfl rfl]; exact hs.fuel
    · rw [hasLine_of_pos (r := s.r) c2 (by rw [c1.source, hs.stop.source])]; exact hs.line

theorem retryInv_modPc {src b n hl} (f : Ctx → Ctx) (hf : ∀ pc, (f pc).opened = pc.opened) :
    Pres (RetryInv src b n hl) (modPc f) := by
  constructor
  intro s hs
  refine ⟨⟨hs.stop.source, hs.stop.stop0, hs.stop.stop_le, hs.stop.lb⟩, ?_, hs.line⟩
  rw [phi_of_eq (s' := { s with pc := f s.pc }) (s := s) rfl rfl rfl (hf _)]; exact hs.fuel

theorem retryInv_liftE {src b n hl α} (e : Except Panic α) (h : NoLoop e) : Pres (RetryInv src b n hl) (liftE e) :=
  liftE_pres e h

theorem toContinuable_pres {I : St → Prop} (h : RPrims I) (c : Bool) (r : OpenResult) (lb : Option Block) :
    Pres I (toContinuable c r lb) := by
  have := bpContinue_pres h
  unfold toContinuable; pres

theorem openBlocksLoop_ok {src : Bytes} (b : Int) (blank cont : Bool) :
    ∀ (fuel parent : Nat) (result : OpenResult) (lb : Option Block),
      Tr (fun s => Stop src b s ∧ phi src s < fuel) (openBlocksLoop blank cont fuel parent result lb)
        (fun _ s' => Stop src b s') := by
  intro fuel
  induction fuel with
  | zero => intro _ _ _; exact ⟨fun s hs => by have := hs.2; omega⟩
  | succ fuel ih =>
    intro parent result lb
    have prims := stop_prims src b
    have exit : ∀ hl r l, Tr (RetryInv src b (fuel + 1) hl) (toContinuable cont r l) (fun _ s' => Stop src b s') :=
      fun hl r l => Tr.of_pres (toContinuable_pres prims cont r l) (fun s hs => hs.stop)
    unfold openBlocksLoop
    refine Tr.bind retryInv_peekLine (fun x => ?_)
    obtain ⟨line, seg⟩ := x
    simp only
    refine Tr.bind (Tr.of_pres retryInv_lineOffset (fun _ h => h)) (fun lo => ?_)
    refine Tr.bind (R := fun _ s => RetryInv src b (fuel + 1) line.isSome s) ?_ (fun _ => ?_)
    · exact Tr.of_pres (retryInv_modPc _ (fun pc => by split <;> rfl)) (fun _ h => h)
    · refine Tr.ite (fun _ => exit _ _ _) (fun hnone => ?_)
      refine Tr.bind (Tr.of_pres (retryInv_liftE _ (idx_noLoop _ _)) (fun _ h => h)) (fun c => ?_)
      refine Tr.ite (fun _ => exit _ _ _) (fun _ => ?_)
      have hsome : line.isSome = true := by
        cases line with
        | none => simp at hnone
        | some _ => rfl
      have tail : ∀ bps : List BP, Tr (fun s => RetryInv src b (fuel + 1) line.isSome s)
          (get >>= fun s0 =>
            tryParsers parent blank cont (indentWidthI (line.getD []) lo).1 bps result lb >>= fun __x =>
            match __x.1 with
            | TryOutcome.retry parent' =>
              get >>= fun s1 =>
                if (!decide (retryMeasure s1 < retryMeasure s0)) = true then throw Panic.pre
                else openBlocksLoop blank cont fuel parent' __x.2.1 __x.2.2
            | TryOutcome.done => toContinuable cont __x.2.1 __x.2.2)
          (fun _ s' => Stop src b s') := by
        intro bps
        refine Tr.bind (R := fun s0 s => Stop src b s ∧ retryMeasure s0 < fuel + 1) ⟨fun s hs => ⟨hs.stop, hs.fuel⟩⟩ (fun s0 => ?_)
        refine Tr.bind (R := fun _ s => Stop src b s ∧ retryMeasure s0 < fuel + 1) ?_ (fun x => ?_)
        · constructor
          intro s hs
          have hpres := tryParsers_pres prims parent blank cont (indentWidthI (line.getD []) lo).1 bps result lb
          have h1 := hpres.h s hs.1
          cases ht : tryParsers parent blank cont (indentWidthI (line.getD []) lo).1 bps result lb s with
          | error e => rw [ht] at h1; exact h1
          | ok y => rw [ht] at h1; exact ⟨h1, hs.2⟩
        · obtain ⟨outcome, res, lb'⟩ := x
          cases outcome with
          | retry p' =>
            simp only
            refine Tr.bind (R := fun s1 s => Stop src b s ∧ retryMeasure s0 < fuel + 1 ∧ s1 = s)
              ⟨fun s hs => ⟨hs.1, hs.2, rfl⟩⟩ (fun s1 => ?_)
            refine Tr.ite (fun _ => ⟨fun _ _ => (by decide : Panic.pre ≠ Panic.loop)⟩) (fun hc => ?_)
            have hlt : retryMeasure s1 < retryMeasure s0 := by simpa using hc
            exact (ih p' res lb').weaken (fun s hs => ⟨hs.1, by rw [← hs.2.2]; have := hs.2.1; unfold phi; omega⟩)
          | done =>
            simp only
            exact Tr.of_pres (toContinuable_pres prims cont res lb') (fun s hs => hs.1)
      refine Tr.ite (fun _ => ?_) (fun _ => ?_)
      · refine Tr.bind (Tr.of_pres (retryInv_liftE _ (idx_noLoop _ _)) (fun _ h => h)) (fun c => ?_)
        refine Tr.bind (R := fun _ s => RetryInv src b (fuel + 1) line.isSome s) (Tr.pure _ (fun _ h => h)) (fun bps => ?_)
        exact tail bps
      · refine Tr.bind (R := fun _ s => RetryInv src b (fuel + 1) line.isSome s) (Tr.pure _ (fun _ h => h)) (fun bps => ?_)
        exact tail bps


theorem phi_lt_retryFuel (src : Bytes) (s : St) : phi src s < retryFuel s.r.source := by
  unfold phi retryMeasure retryFuel; split <;> omega

theorem Tr.toPres {I : St → Prop} {α} {m : M α} (h : Tr I m (fun _ s => I s)) : Pres I m := ⟨h.h⟩

/-- `openBlocks` keeps the line-level invariant and its retry loop has enough fuel -/
theorem openOK (src : Bytes) : OpenOK src := by
  intro b parent blank
  have prims := stop_prims src b
  apply Tr.toPres
  unfold openBlocks
  refine Tr.bind (Tr.of_pres (lastOpenedBlock_pres prims) (fun _ h => h)) (fun lb => ?_)
  have jp : ∀ cont : Bool, Tr (fun s => Stop src b s)
      (do let v ← source; openBlocksLoop blank cont (retryFuel v) parent OpenResult.noBlocksOpened lb)
      (fun _ s => Stop src b s) := by
    intro cont
    refine Tr.bind (R := fun v s => Stop src b s ∧ v = src) ⟨fun s hs => ⟨hs, hs.source⟩⟩ (fun v => ?_)
    refine (openBlocksLoop_ok b blank cont (retryFuel v) parent .noBlocksOpened lb).weaken (fun s hs => ?_)
    obtain ⟨h1, h2⟩ := hs
    subst h2
    have := phi_lt_retryFuel s.r.source s
    rw [h1.source] at this
    exact ⟨h1, this⟩
  simp only
  split
  · refine Tr.bind (Tr.of_pres (getNode_pres _) (fun _ h => h)) (fun n => ?_)
    refine Tr.bind (R := fun _ s => Stop src b s) (Tr.pure _ (fun _ h => h)) (fun cont => jp cont)
  · refine Tr.bind (R := fun _ s => Stop src b s) (Tr.pure _ (fun _ h => h)) (fun cont => jp cont)

/-- **Termination of the block phase**: no loop of the model ever exhausts its fuel, for every source. -/
theorem run_noLoop (src : Bytes) : run src ≠ .error .loop :=
  run_noLoop_of_open (openOK src)

end GM.Blocks
