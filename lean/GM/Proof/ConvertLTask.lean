/-
  GM.Proof.ConvertLTask — TaskList and Table are conservative at whole-document level under the member sets WITH Linkify
  (GM.Model.ConvertL): the proofs of GM.Proof.ConvertXTaskDoc / ConvertXMon over `inlineTblL` and `docTreeL`.
-/
import GM.Proof.ConvertLStrike
import GM.Proof.ConvertXMon

namespace GM.Proof.ConvertLTask
open GM GM.Text GM.Spec GM.Inl GM.Convert GM.ConvertX GM.Proof.ConvertX GM.Proof.ConvertXRelv GM.Proof.ConvertXLevels
open GM.Proof.ConvertXTotal GM.Proof.ConvertLTotal GM.Proof.ConvertLStrike
open GM.Proof.InlinesTotal GM.Proof.InlinesLink GM.Proof.InlinesReader GM.Proof.Reader
open GM.Proof.ConvertXTaskDoc (noT noTL escNodes_noT fixL_noTL)

def onT (c : GCfg) : GCfg := { c with base := { c.base with tasklist := true } }
def offT (c : GCfg) : GCfg := { c with base := { c.base with tasklist := false } }

mutual
/-- on a tree without the representations the decoding does not depend on the inline member flags -/
theorem inlineTreeL_tflag (c1 c2 : GCfg) (ht : c1.base.strikethrough = c2.base.strikethrough) (hl : c1.linkify = c2.linkify) (src : Bytes) : ∀ n : Inl.Node, noT n = true →
    inlineTreeL c1 src n = inlineTreeL c2 src n
  | .text .., _ => by simp [inlineTreeL]
  | .codeSpan ks, h => by
    simp only [noT] at h
    simp only [inlineTreeL, inlineTreesL_tflag c1 c2 ht hl src ks h]
  | .emphasis lv ks, h => by
    simp only [noT, Bool.and_eq_true, Bool.not_eq_true', Bool.or_eq_false_iff] at h
    simp only [inlineTreeL, inlineTreesL_tflag c1 c2 ht hl src ks h.2, h.1.1, h.1.2, Bool.and_false, Bool.false_eq_true,
      if_false, ht]
  | .link _ _ _ ks, h => by
    simp only [noT] at h
    simp only [inlineTreeL, inlineTreesL_tflag c1 c2 ht hl src ks h]
  | .autoLink .., _ => by simp [inlineTreeL, hl]
  | .rawHTML .., _ => by simp [inlineTreeL]
  | .delim .., _ => by simp [inlineTreeL]
  | .label .., _ => by simp [inlineTreeL]
theorem inlineTreesL_tflag (c1 c2 : GCfg) (ht : c1.base.strikethrough = c2.base.strikethrough) (hl : c1.linkify = c2.linkify) (src : Bytes) : ∀ ns : List Inl.Node, noTL ns = true →
    inlineTreesL c1 src ns = inlineTreesL c2 src ns
  | [], _ => by simp [inlineTreesL]
  | n :: rest, h => by
    simp only [noTL, Bool.and_eq_true] at h
    simp only [inlineTreesL, inlineTreeL_tflag c1 c2 ht hl src n h.1, inlineTreesL_tflag c1 c2 ht hl src rest h.2]
end


mutual
theorem inlineTreeL_notTask (c : GCfg) (ht : c.base.tasklist = false) (src : Bytes) : ∀ (n : Inl.Node) (t : GM.Node),
    inlineTreeL c src n = .ok t → allKinds notTask t = true
  | .text .., t, h => by
    unfold inlineTreeL at h
    obtain ⟨v, _, h⟩ := ebind_ok h
    rw [epure_ok h]; rfl
  | .codeSpan ks, t, h => by
    unfold inlineTreeL at h
    obtain ⟨cs, hcs, h⟩ := ebind_ok h
    rw [epure_ok h]
    simp only [allKinds, notTask, Bool.true_and]
    exact inlineTreesL_notTask c ht src ks cs hcs
  | .emphasis lv ks, t, h => by
    unfold inlineTreeL at h
    obtain ⟨cs, hcs, h⟩ := ebind_ok h
    have hk := inlineTreesL_notTask c ht src ks cs hcs
    simp only [ht, Bool.false_and, Bool.false_eq_true, if_false] at h
    split at h <;> (rw [epure_ok h]; simp only [allKinds, notTask, Bool.true_and]; exact hk)
  | .link im d tt ks, t, h => by
    unfold inlineTreeL at h
    obtain ⟨cs, hcs, h⟩ := ebind_ok h
    have hk := inlineTreesL_notTask c ht src ks cs hcs
    rw [epure_ok h]
    simp only [allKinds, Bool.and_eq_true]
    refine ⟨?_, hk⟩
    split <;> rfl
  | .autoLink .., t, h => by
    unfold inlineTreeL at h
    split at h
    · obtain ⟨v, _, h⟩ := ebind_ok h
      rw [epure_ok h]; rfl
    · obtain ⟨v, _, h⟩ := ebind_ok h
      rw [epure_ok h]; rfl
  | .rawHTML .., t, h => by
    unfold inlineTreeL at h
    obtain ⟨v, _, h⟩ := ebind_ok h
    rw [epure_ok h]; rfl
  | .delim .., t, h => by
    unfold inlineTreeL at h
    rw [epure_ok h]; rfl
  | .label .., t, h => by
    unfold inlineTreeL at h
    rw [epure_ok h]; rfl
theorem inlineTreesL_notTask (c : GCfg) (ht : c.base.tasklist = false) (src : Bytes) : ∀ (ns : List Inl.Node) (ts : List GM.Node),
    inlineTreesL c src ns = .ok ts → allKindsL notTask ts = true
  | [], ts, h => by
    unfold inlineTreesL at h
    rw [epure_ok h]; rfl
  | n :: rest, ts, h => by
    unfold inlineTreesL at h
    obtain ⟨t, h1, h⟩ := ebind_ok h
    obtain ⟨ts', h2, h⟩ := ebind_ok h
    rw [epure_ok h]
    simp only [allKindsL, Bool.and_eq_true]
    exact ⟨inlineTreeL_notTask c ht src n t h1, inlineTreesL_notTask c ht src rest ts' h2⟩
end

mutual
theorem docTreeL_notTask (c : GCfg) (ht : c.base.tasklist = false) (g : Bool) (env : Env) (src : Bytes) (escs : List Int) :
    ∀ (inItem : Bool) (t : GM.Blocks.Tree) (x : GM.Node),
    docTreeL c g env src escs inItem t = .ok x → allKinds notTask x = true
  | inItem, .node n cs, x, h => by
    unfold docTreeL at h
    obtain ⟨bs, h1, h⟩ := ebind_ok h
    obtain ⟨kids, _, h⟩ := ebind_ok h
    obtain ⟨is, h3, h⟩ := ebind_ok h
    obtain ⟨k, h4, h⟩ := ebind_ok h
    rw [epure_ok h]
    simp only [allKinds, allKindsL_append, Bool.and_eq_true]
    exact ⟨GM.Proof.ConvertX.blockKindX_notTask (liftErr_ok' h4), docTreesL_notTask c ht g env src escs _ _ cs bs h1,
      inlineTreesL_notTask c ht src _ is (liftErr_ok' h3)⟩
theorem docTreesL_notTask (c : GCfg) (ht : c.base.tasklist = false) (g : Bool) (env : Env) (src : Bytes) (escs : List Int) :
    ∀ (pi first : Bool) (ts : List GM.Blocks.Tree) (xs : List GM.Node),
    docTreesL c g env src escs pi first ts = .ok xs → allKindsL notTask xs = true
  | _, _, [], xs, h => by
    unfold docTreesL at h
    rw [epure_ok h]; rfl
  | pi, first, t :: rest, xs, h => by
    unfold docTreesL at h
    obtain ⟨x, h1, h⟩ := ebind_ok h
    obtain ⟨xs', h2, h⟩ := ebind_ok h
    rw [epure_ok h]
    simp only [allKindsL, Bool.and_eq_true]
    exact ⟨docTreeL_notTask c ht g env src escs _ t x h1, docTreesL_notTask c ht g env src escs _ _ rest xs' h2⟩
end

theorem parseBlockL_task_unused (c : GCfg) (inItem : Bool) {src : Bytes} {segs : List Segment}
    (W : WFSegs src segs) (Z : ∀ s ∈ segs, s.padding = 0) (env : Env) (hsrc : (91 : UInt8) ∉ src) :
    parseBlockG env (inlineTblL (onT c) inItem) (pdX (onT c).base) src segs =
      parseBlockG env (inlineTblL (offT c) inItem) (pdX (offT c).base) src segs := by
  have F := segFacts W
  obtain ⟨r0, e0, a0⟩ := blockReader_init F
  have hz0 : (BCur.init segs).pad = 0 := segOf_pad F Z 0 (Int.le_refl _) F.kpos
  have hI : LInv (Ctx.normed (linkCtx (BCur.segOf segs 0).start)) src segs { rd := r0 } (BCur.init segs) :=
    ⟨⟨a0, hz0⟩, by simp only [segsOfL, chain, BCur.init]; exact (F.rng 0 (Int.le_refl _) F.kpos).1, LK_base _⟩
  have h1 := lineLoopX_eq2 _ F Z env (inlineTblL (onT c) inItem)
    (inlineTblL (offT c) inItem)
    (inlineTblL_32 _ inItem W Z env) (inlineTblL_contracts _ inItem W Z env)
    (by simp [inlineTblL, inlineTbl_32, onT, offT])
    (fun b hb => by
      have : b ≠ 91 := fun h => hsrc (h ▸ hb)
      have h91 : (b == 91) = false := by simpa using this
      simp only [inlineTblL, inlineTbl, onT, offT, h91, Bool.false_eq_true, if_false]
      rfl)
    (blockFuel src segs) false _ _ hI (blockFuel_gt W Z a0.wf hz0)
  unfold parseBlockG
  simp only [e0, bind, Except.bind, h1]
  rfl

theorem inlineLines_task (c : GCfg) (env : Env) (src : Bytes) (hsrc : (91 : UInt8) ∉ src) (inItem : Bool)
    (lines : List Segment) :
    inlineLinesL (onT c) true env src inItem lines =
      inlineLinesL (offT c) true env src inItem lines := by
  unfold inlineLinesL
  split
  · rfl
  · split
    · rfl
    · rename_i hw
      have hw' : GM.LinkRef.wf0B src lines = true := by simpa using hw
      obtain ⟨W, Z⟩ := GM.Proof.LinkRefTotal.wf0B_sound hw'
      rw [parseBlockL_task_unused c inItem W Z env hsrc]

theorem inlinePhaseL_task2 (c : GCfg) (env : Env) (src : Bytes) (hsrc : (91 : UInt8) ∉ src) (inItem : Bool)
    (n : GM.Blocks.Node) :
    inlinePhaseL (onT c) true env src inItem n =
      inlinePhaseL (offT c) true env src inItem n := by
  unfold inlinePhaseL
  rw [inlineLines_task c env src hsrc]
  rfl

/-- without TaskList the inline children of a block hold no TaskCheckBox representation -/
theorem inlinePhaseL_noT (c : GCfg) (ht : c.base.tasklist = false) (g : Bool) (env : Env) (src : Bytes) (inItem : Bool)
    (n : GM.Blocks.Node) (kids : List Inl.Node) (h : inlinePhaseL c g env src inItem n = .ok kids) : noTL kids = true := by
  unfold inlinePhaseL at h
  split at h
  · cases h; rfl
  · split at h
    · cases h; rfl
    · split at h
      · cases h; rfl
      · unfold inlineLinesL at h
        split at h
        · cases h; rfl
        · split at h
          · cases h
          · exact fixL_noTL kids (parseBlockL_fixS c (g1_okS _) g1_ok0 (fun h => by rw [ht] at h; cases h) inItem env src
              n.lines kids (liftErr_ok' h))

mutual
theorem docTreeL_task2 (c : GCfg) (env : Env) (src : Bytes) (hsrc : (91 : UInt8) ∉ src) (escs : List Int) :
    ∀ (inItem : Bool) (t : GM.Blocks.Tree),
    docTreeL (onT c) true env src escs inItem t =
      docTreeL (offT c) true env src escs inItem t
  | inItem, .node n cs => by
    unfold docTreeL
    rw [docTreesL_task2 c env src hsrc escs _ _ cs, inlinePhaseL_task2 c env src hsrc]
    cases hd : docTreesL (offT c) true env src escs (n.kind == .listItem) true cs with
    | error e => rfl
    | ok bs =>
      cases hk : inlinePhaseL (offT c) true env src inItem n with
      | error e => rfl
      | ok kids =>
        have hl := inlinePhaseL_noT (offT c) rfl true env src inItem n kids hk
        have hl' : noTL (if (c.base.table && GM.TableX.isCellNode src n) = true then GM.TableX.escNodes escs kids else kids) = true := by
          split
          · exact escNodes_noT escs kids hl
          · exact hl
        have e1 : (onT c).base.table = c.base.table := rfl
        have e2 : (offT c).base.table = c.base.table := rfl
        simp only [bind, Except.bind, e1, e2]
        rw [inlineTreesL_tflag (onT c) (offT c) rfl rfl src _ hl']
        rfl
theorem docTreesL_task2 (c : GCfg) (env : Env) (src : Bytes) (hsrc : (91 : UInt8) ∉ src) (escs : List Int) :
    ∀ (pi first : Bool) (ts : List GM.Blocks.Tree),
    docTreesL (onT c) true env src escs pi first ts =
      docTreesL (offT c) true env src escs pi first ts
  | _, _, [] => by unfold docTreesL; rfl
  | pi, first, t :: rest => by
    unfold docTreesL
    rw [docTreeL_task2 c env src hsrc escs _ t, docTreesL_task2 c env src hsrc escs _ _ rest]
end

theorem parseDocL_task2 (c : GCfg) (uc : List (Nat × (Bool × Bool))) (src : Bytes) (hsrc : (91 : UInt8) ∉ src) :
    parseDocL (onT c) true uc src = parseDocL (offT c) true uc src := by
  unfold parseDocL
  have hb : blockPhaseX (onT c).base true src = blockPhaseX (offT c).base true src := rfl
  rw [hb]
  cases liftErr Err.blocks (blockPhaseX (offT c).base true src) with
  | error e => rfl
  | ok st =>
    simp only [bind, Except.bind]
    exact docTreeL_task2 c _ src hsrc _ _ _

/-- **TaskList is conservative at whole-document level, for EVERY member set** -/
theorem convertL_task (c : GCfg) (uc : List (Nat × (Bool × Bool))) (o : ROpts) (src : Bytes)
    (hsrc : (91 : UInt8) ∉ src) :
    convertL (onT c) uc o src = convertL (offT c) uc o src := by
  unfold convertL convertLWith
  rw [parseDocL_task2 c uc src hsrc]
  cases hp : parseDocL (offT c) true uc src with
  | error e => rfl
  | ok t =>
    simp only [bind, Except.bind]
    apply renderDocX_exts (c1 := (onT c).base) (c2 := (offT c).base)
    unfold parseDocL at hp
    obtain ⟨st, _, hp⟩ := ebind_ok hp
    have hk := docTreeL_notTask (offT c) rfl true _ src _ _ _ t hp
    exact allKinds_mono (fun k hk => by
      simp only [beq_iff_eq]
      exact handled_task c.base.exts true false hk) t hk


/-! ### Table under Linkify -/

section tableL
open GM.Proof.ConvertXRel

def onTb (c : GCfg) : GCfg := { c with base := { c.base with table := true } }
def offTb (c : GCfg) : GCfg := { c with base := { c.base with table := false } }

mutual
/-- decoding reads the two inline member flags only -/
theorem inlineTreeL_congr (c1 c2 : GCfg) (hs : c1.base.strikethrough = c2.base.strikethrough) (ht : c1.base.tasklist = c2.base.tasklist) (hl : c1.linkify = c2.linkify)
    (src : Bytes) : ∀ n : Inl.Node, inlineTreeL c1 src n = inlineTreeL c2 src n
  | .text .. => by simp [inlineTreeL]
  | .codeSpan ks => by simp only [inlineTreeL, inlineTreesL_congr c1 c2 hs ht hl src ks]
  | .emphasis lv ks => by simp only [inlineTreeL, inlineTreesL_congr c1 c2 hs ht hl src ks, hs, ht]
  | .link _ _ _ ks => by simp only [inlineTreeL, inlineTreesL_congr c1 c2 hs ht hl src ks]
  | .autoLink .. => by simp [inlineTreeL, hl]
  | .rawHTML .. => by simp [inlineTreeL]
  | .delim .. => by simp [inlineTreeL]
  | .label .. => by simp [inlineTreeL]
theorem inlineTreesL_congr (c1 c2 : GCfg) (hs : c1.base.strikethrough = c2.base.strikethrough) (ht : c1.base.tasklist = c2.base.tasklist) (hl : c1.linkify = c2.linkify)
    (src : Bytes) : ∀ ns : List Inl.Node, inlineTreesL c1 src ns = inlineTreesL c2 src ns
  | [] => by simp [inlineTreesL]
  | n :: rest => by
    simp only [inlineTreesL, inlineTreeL_congr c1 c2 hs ht hl src n, inlineTreesL_congr c1 c2 hs ht hl src rest]
end

theorem inlinePhaseL_table (c : GCfg) (g : Bool) (env : Env) (src : Bytes) (h : (45 : UInt8) ∉ src) (inItem : Bool)
    (n : GM.Blocks.Node) :
    inlinePhaseL (onTb c) g env src inItem n = inlinePhaseL (offTb c) g env src inItem n := by
  unfold inlinePhaseL
  simp only [isRowNode_no_dash h, isCellNode_no_dash h, Bool.and_false, Bool.false_and, Bool.false_eq_true, if_false]
  rfl

theorem blockKindX_table (c : GCfg) (src : Bytes) (h : (45 : UInt8) ∉ src) (n : GM.Blocks.Node) :
    blockKindX (onTb c).base src n = blockKindX (offTb c).base src n := by
  unfold blockKindX
  simp [kindOf_no_dash h]

mutual
theorem docTreeL_table (c : GCfg) (g : Bool) (env : Env) (src : Bytes) (h : (45 : UInt8) ∉ src) (escs : List Int) :
    ∀ (inItem : Bool) (t : GM.Blocks.Tree),
    docTreeL (onTb c) g env src escs inItem t = docTreeL (offTb c) g env src [] inItem t
  | inItem, .node n cs => by
    unfold docTreeL
    rw [docTreesL_table c g env src h escs _ _ cs, inlinePhaseL_table c g env src h, blockKindX_table c src h]
    simp only [isCellNode_no_dash h, Bool.and_false, Bool.false_and, Bool.false_eq_true, if_false,
      inlineTreesL_congr (onTb c) (offTb c) rfl rfl rfl]
theorem docTreesL_table (c : GCfg) (g : Bool) (env : Env) (src : Bytes) (h : (45 : UInt8) ∉ src) (escs : List Int) :
    ∀ (pi first : Bool) (ts : List GM.Blocks.Tree),
    docTreesL (onTb c) g env src escs pi first ts = docTreesL (offTb c) g env src [] pi first ts
  | _, _, [] => by unfold docTreesL; rfl
  | pi, first, t :: rest => by
    unfold docTreesL
    rw [docTreeL_table c g env src h escs _ t, docTreesL_table c g env src h escs _ _ rest]
end

mutual
theorem inlineTreeL_notTable (c : GCfg) (src : Bytes) : ∀ (n : Inl.Node) (t : GM.Node),
    inlineTreeL c src n = .ok t → allKinds notTable t = true
  | .text .., t, h => by
    unfold inlineTreeL at h
    obtain ⟨v, _, h⟩ := ebind_ok h
    rw [epure_ok h]; rfl
  | .codeSpan ks, t, h => by
    unfold inlineTreeL at h
    obtain ⟨cs, hcs, h⟩ := ebind_ok h
    rw [epure_ok h]
    simp only [allKinds, notTable, Bool.true_and]
    exact inlineTreesL_notTable c src ks cs hcs
  | .emphasis lv ks, t, h => by
    unfold inlineTreeL at h
    obtain ⟨cs, hcs, h⟩ := ebind_ok h
    have hk := inlineTreesL_notTable c src ks cs hcs
    split at h
    · rw [epure_ok h]; simp only [allKinds, notTable, Bool.true_and]; exact hk
    · split at h
      · rw [epure_ok h]; simp only [allKinds, notTable, Bool.true_and]; exact hk
      · split at h <;> (rw [epure_ok h]; simp only [allKinds, notTable, Bool.true_and]; exact hk)
  | .link im d tt ks, t, h => by
    unfold inlineTreeL at h
    obtain ⟨cs, hcs, h⟩ := ebind_ok h
    have hk := inlineTreesL_notTable c src ks cs hcs
    rw [epure_ok h]
    simp only [allKinds, Bool.and_eq_true]
    refine ⟨?_, hk⟩
    split <;> rfl
  | .autoLink .., t, h => by
    unfold inlineTreeL at h
    split at h
    · obtain ⟨v, _, h⟩ := ebind_ok h
      rw [epure_ok h]; rfl
    · obtain ⟨v, _, h⟩ := ebind_ok h
      rw [epure_ok h]; rfl
  | .rawHTML .., t, h => by
    unfold inlineTreeL at h
    obtain ⟨v, _, h⟩ := ebind_ok h
    rw [epure_ok h]; rfl
  | .delim .., t, h => by
    unfold inlineTreeL at h
    rw [epure_ok h]; rfl
  | .label .., t, h => by
    unfold inlineTreeL at h
    rw [epure_ok h]; rfl
theorem inlineTreesL_notTable (c : GCfg) (src : Bytes) : ∀ (ns : List Inl.Node) (ts : List GM.Node),
    inlineTreesL c src ns = .ok ts → allKindsL notTable ts = true
  | [], ts, h => by
    unfold inlineTreesL at h
    rw [epure_ok h]; rfl
  | n :: rest, ts, h => by
    unfold inlineTreesL at h
    obtain ⟨t, h1, h⟩ := ebind_ok h
    obtain ⟨ts', h2, h⟩ := ebind_ok h
    rw [epure_ok h]
    simp only [allKindsL, Bool.and_eq_true]
    exact ⟨inlineTreeL_notTable c src n t h1, inlineTreesL_notTable c src rest ts' h2⟩
end

mutual
theorem docTreeL_notTable (c : GCfg) (hc : c.base.table = false) (g : Bool) (env : Env) (src : Bytes) (escs : List Int) :
    ∀ (inItem : Bool) (t : GM.Blocks.Tree) (x : GM.Node),
    docTreeL c g env src escs inItem t = .ok x → allKinds notTable x = true
  | inItem, .node n cs, x, h => by
    unfold docTreeL at h
    obtain ⟨bs, h1, h⟩ := ebind_ok h
    obtain ⟨kids, _, h⟩ := ebind_ok h
    obtain ⟨is, h3, h⟩ := ebind_ok h
    obtain ⟨k, h4, h⟩ := ebind_ok h
    rw [epure_ok h]
    simp only [allKinds, allKindsL_append, Bool.and_eq_true]
    exact ⟨GM.Proof.ConvertX.blockKindX_notTable hc (liftErr_ok' h4), docTreesL_notTable c hc g env src escs _ _ cs bs h1,
      inlineTreesL_notTable c src _ is (liftErr_ok' h3)⟩
theorem docTreesL_notTable (c : GCfg) (hc : c.base.table = false) (g : Bool) (env : Env) (src : Bytes) (escs : List Int) :
    ∀ (pi first : Bool) (ts : List GM.Blocks.Tree) (xs : List GM.Node),
    docTreesL c g env src escs pi first ts = .ok xs → allKindsL notTable xs = true
  | _, _, [], xs, h => by
    unfold docTreesL at h
    rw [epure_ok h]; rfl
  | pi, first, t :: rest, xs, h => by
    unfold docTreesL at h
    obtain ⟨x, h1, h⟩ := ebind_ok h
    obtain ⟨xs', h2, h⟩ := ebind_ok h
    rw [epure_ok h]
    simp only [allKindsL, Bool.and_eq_true]
    exact ⟨docTreeL_notTable c hc g env src escs _ t x h1, docTreesL_notTable c hc g env src escs _ _ rest xs' h2⟩
end

theorem parseDocL_table_guarded (c : GCfg) (uc : List (Nat × (Bool × Bool))) (src : Bytes) (h : (45 : UInt8) ∉ src) :
    parseDocL (onTb c) true uc src = parseDocL (offTb c) true uc src := by
  unfold parseDocL
  rw [show blockPhaseX (onTb c).base true src = blockPhaseX (offTb c).base true src from GM.Proof.ConvertXMon.blockPhaseX_table_guarded c.base src h]
  cases liftErr Err.blocks (blockPhaseX (offTb c).base true src) with
  | error e => rfl
  | ok st =>
    simp only [bind, Except.bind, Bool.false_eq_true, if_false, if_true]
    exact docTreeL_table c true _ src h _ _ _

/-- **Table is conservative at whole-document level**, every member set, no proviso -/
theorem convertL_table (c : GCfg) (uc : List (Nat × (Bool × Bool))) (o : ROpts) (src : Bytes)
    (h : (45 : UInt8) ∉ src) :
    convertL (onTb c) uc o src = convertL (offTb c) uc o src := by
  unfold convertL convertLWith
  rw [parseDocL_table_guarded c uc src h]
  cases hq : parseDocL (offTb c) true uc src with
  | error e => rfl
  | ok t =>
    simp only [bind, Except.bind]
    apply renderDocX_exts (c1 := (onTb c).base) (c2 := (offTb c).base)
    unfold parseDocL at hq
    obtain ⟨st, _, hq⟩ := ebind_ok hq
    have hk := docTreeL_notTable (offTb c) rfl true _ src _ _ _ t hq
    exact allKinds_mono (fun k hk => by
      simp only [beq_iff_eq]
      exact handled_table c.base.exts true false hk) t hk


end tableL

end GM.Proof.ConvertLTask
