/-
  GM.Proof.CMFrag7Para — stage 7: the LAST paragraph of a source without final line feed: its lines `xs` (with line
  feeds) and its last line `l` (without, ending the source): open segments, the transformer declines, `Close` changes
  nothing, the end of the source closes it.
-/
import GM.Proof.CMFrag7Defs

namespace GM.Proof.CMFrag
open GM GM.Text GM.Blocks GM.Spec

/-- the last line `l` of the source, without line feed, starts at `q` -/
structure LastLn (src : Bytes) (q : Nat) (l : Bytes) : Prop where
  ln : Ln src q (q + l.length) l
  eof : q + l.length = src.length

theorem paraAtE_snoc {src : Bytes} : ∀ (xs : List Bytes) (l : Bytes) (p : Nat),
    ParaAtE src p (xs ++ [l]) ↔ (ParaAt src p xs ∧ LastLn src (p + (paraBytes xs).length) l)
  | [], l, p => by
    simp only [List.nil_append, ParaAtE, ParaAt, paraBytes, List.flatMap_nil, List.length_nil, Nat.add_zero, true_and]
    exact ⟨fun h => ⟨h.1, h.2⟩, fun h => ⟨h.ln, h.eof⟩⟩
  | x :: xs, l, p => by
    have ih := paraAtE_snoc (src := src) xs l (p + x.length + 1)
    have e : p + (paraBytes (x :: xs)).length = p + x.length + 1 + (paraBytes xs).length := by simp [paraBytes]; omega
    cases hxs : xs ++ [l] with
    | nil => simp at hxs
    | cons y ys =>
      simp only [List.cons_append, hxs, ParaAtE, ParaAt]
      rw [← hxs, ih, e]
      exact ⟨fun h => ⟨⟨h.1, h.2.1⟩, h.2.2⟩, fun h => ⟨h.1.1, h.1.2, h.2⟩⟩

theorem paraSegs_snoc : ∀ (xs : List Bytes) (l : Bytes) (p : Nat),
    paraSegs p (xs ++ [l]) = openSegs p xs ++ [sg (p + (paraBytes xs).length) (p + (paraBytes xs).length + l.length)]
  | [], l, p => by simp [paraSegs, openSegs, paraBytes, sg]
  | x :: xs, l, p => by
    have ih := paraSegs_snoc xs l (p + x.length + 1)
    have e : p + (paraBytes (x :: xs)).length = p + x.length + 1 + (paraBytes xs).length := by simp [paraBytes]; omega
    cases hxs : xs ++ [l] with
    | nil => simp at hxs
    | cons y ys =>
      simp only [List.cons_append, hxs, paraSegs, openSegs]
      rw [← hxs, ih, e]
      simp [sg]

section lastPara
variable {src : Bytes} {p q : Nat} {xs : List Bytes} {l : Bytes}

/-- the open (= closed) line segments of the last paragraph -/
def lastSegs (p : Nat) (xs : List Bytes) (l : Bytes) : List Segment :=
  openSegs p xs ++ [sg (p + (paraBytes xs).length) (p + (paraBytes xs).length + l.length)]

theorem wfFrom_last : ∀ (xs : List Bytes) (p : Nat) (lo : Int), lo ≤ p → ParaAt src p xs →
    LastLn src (p + (paraBytes xs).length) l →
    GM.LinkRef.wfSegsFromB src lo (lastSegs p xs l) = true
  | [], p, lo, hlo, _, hl => by
    have := hl.ln.lt; have := hl.ln.le
    simp only [lastSegs, openSegs, paraBytes, List.flatMap_nil, List.length_nil, Nat.add_zero, List.nil_append,
      GM.LinkRef.wfSegsFromB, sg, Bool.and_eq_true, decide_eq_true_eq, Bool.not_eq_true', Bool.and_true] at *
    refine ⟨⟨⟨⟨hlo, by omega⟩, by omega⟩, by omega⟩, ?_⟩
    first | trivial | rfl
  | x :: xs, p, lo, hlo, h, hl => by
    have e : p + (paraBytes (x :: xs)).length = p + x.length + 1 + (paraBytes xs).length := by simp [paraBytes]; omega
    rw [e] at hl
    have ih := wfFrom_last xs (p + x.length + 1) ((p + x.length + 1 : Nat) : Int) (Int.le_refl _) h.2 hl
    have hle := h.1.le
    simp only [lastSegs, openSegs, e, List.cons_append, GM.LinkRef.wfSegsFromB, sg] at ih ⊢
    simp only [Bool.and_eq_true, decide_eq_true_eq, Bool.not_eq_true']
    refine ⟨⟨⟨⟨⟨hlo, by omega⟩, by omega⟩, by omega⟩, ?_⟩, ih⟩
    first | trivial | rfl

theorem pad0_last (xs : List Bytes) (p : Nat) (l : Bytes) : GM.LinkRef.pad0B (lastSegs p xs l) = true := by
  have := pad0_open xs p
  simp only [GM.LinkRef.pad0B, lastSegs, List.all_append, Bool.and_eq_true] at this ⊢
  exact ⟨this, by simp [sg]⟩

theorem wf0B_last (hpa : ParaAt src p xs) (hl : LastLn src (p + (paraBytes xs).length) l) :
    GM.LinkRef.wf0B src (lastSegs p xs l) = true := by
  have h1 := wfFrom_last xs p 0 (by omega) hpa hl
  have h2 := pad0_last xs p l
  have h3 : (lastSegs p xs l).isEmpty = false := by simp [lastSegs]
  simp [GM.LinkRef.wf0B, GM.LinkRef.wfSegsB, h1, h2, h3]

theorem trimLeftAll_last : ∀ (xs : List Bytes) (p : Nat), ParaAt src p xs → (∀ x ∈ xs, BlkLine x) →
    LastLn src (p + (paraBytes xs).length) l → BlkLine l →
    trimLeftAll src (lastSegs p xs l) = .ok (lastSegs p xs l)
  | [], p, _, _, hl, hb => by
    obtain ⟨c, t, hlc, hc⟩ := hb.first
    obtain ⟨_, _, _, hsp, _, _⟩ := letter_facts c hc
    have hln := hl.ln
    simp only [paraBytes, List.flatMap_nil, List.length_nil, Nat.add_zero] at hln
    have h1 := trimLeft_id (src := src) (p := p) (e := p + l.length) (c := c) (t := t)
      (by rw [hln.sub, hlc]) (by omega) hln.le hsp
    simp only [lastSegs, openSegs, paraBytes, List.flatMap_nil, List.length_nil, Nat.add_zero, List.nil_append,
      trimLeftAll, h1, bind, Except.bind, pure, Except.pure]
  | x :: xs, p, h, hbx, hl, hb => by
    have e : p + (paraBytes (x :: xs)).length = p + x.length + 1 + (paraBytes xs).length := by simp [paraBytes]; omega
    rw [e] at hl
    obtain ⟨c, t, hlc, hc⟩ := (hbx x (by simp)).first
    obtain ⟨_, _, _, hsp, _, _⟩ := letter_facts c hc
    have ih := trimLeftAll_last xs (p + x.length + 1) h.2 (fun y hy => hbx y (by simp [hy])) hl hb
    have h1 := trimLeft_id (src := src) (p := p) (e := p + x.length + 1) (c := c) (t := t ++ [10])
      (by rw [h.1.sub, hlc]; rfl) (by omega) h.1.le hsp
    simp only [lastSegs, openSegs, e, List.cons_append, trimLeftAll, h1, bind, Except.bind, pure, Except.pure] at ih ⊢
    rw [ih]

theorem last_getLast (xs : List Bytes) (p : Nat) (l : Bytes) :
    (lastSegs p xs l).getLast? = some (sg (p + (paraBytes xs).length) (p + (paraBytes xs).length + l.length)) := by
  simp [lastSegs]

/-- the link-reference transformer declines on the last paragraph -/
theorem transformScan_last (hpa : ParaAt src p xs) (hbx : ∀ x ∈ xs, BlkLine x)
    (hl : LastLn src (p + (paraBytes xs).length) l) (hb : BlkLine l) (refs : GM.LinkRef.RefMap) :
    GM.LinkRef.transformScan src (lastSegs p xs l) refs = .ok ([], refs) := by
  have W := GM.Proof.LinkRefTotal.wf0B_sound (wf0B_last hpa hl)
  have hgl := last_getLast xs p l
  have hlt := hl.ln.lt
  cases xs with
  | nil =>
    obtain ⟨c, t, hlc, hc⟩ := hb.first
    obtain ⟨_, _, _, hsp, _, hbr⟩ := letter_facts c hc
    refine GM.Proof.LinkRefFacts.transformScan_not_bracket W refs (b0 := c) (rest := t) ?_ hsp hbr
    have hsub := hl.ln.sub
    simp only [paraBytes, List.flatMap_nil, List.length_nil, Nat.add_zero] at hsub hgl hlt
    simp only [lastSegs, openSegs, paraBytes, List.flatMap_nil, List.length_nil, Nat.add_zero, List.nil_append] at hgl ⊢
    simp only [BCur.view, BCur.live, BCur.k, BCur.lastStop, BCur.stopOf, BCur.segOf, BCur.init, hgl]
    simp [sg, spaces, hlc]
    refine ⟨by omega, ?_⟩
    have e : ((p : Int) + ((t.length : Int) + 1)).toNat = p + l.length := by subst hlc; simp; omega
    rw [e, hsub, hlc]
  | cons x xs' =>
    obtain ⟨c, t, hlc, hc⟩ := (hbx x (by simp)).first
    obtain ⟨_, _, _, hsp, _, hbr⟩ := letter_facts c hc
    refine GM.Proof.LinkRefFacts.transformScan_not_bracket W refs (b0 := c) (rest := t ++ [10]) ?_ hsp hbr
    have hsub := hpa.1.sub
    have hle := hpa.1.le
    have hq : p + x.length + 1 ≤ p + (paraBytes (x :: xs')).length := by simp [paraBytes]; omega
    simp only [lastSegs, openSegs, List.cons_append] at hgl ⊢
    simp only [BCur.view, BCur.live, BCur.k, BCur.lastStop, BCur.stopOf, BCur.segOf, BCur.init, hgl]
    simp [sg, spaces, hlc]
    refine ⟨by omega, ?_⟩
    have e : ((p : Int) + ((t.length : Int) + 1) + 1).toNat = p + x.length + 1 := by subst hlc; simp; omega
    rw [if_pos (by omega), e, hsub, hlc]; rfl

theorem trimRight_last {q : Nat} (hl : LastLn src q l) (hb : BlkLine l) :
    (sg q (q + l.length)).trimRightSpace src = .ok (sg q (q + l.length)) := by
  obtain ⟨c, t, hlc, hc⟩ := hb.first
  have hle := hl.ln.le
  have c2 : (0 ≤ (q : Int) ∧ (q : Int) ≤ ((q + l.length : Nat) : Int) ∧ ((q + l.length : Nat) : Int) ≤ (src.length : Int)) := by
    omega
  have hne : l ≠ [] := by rw [hlc]; simp
  have hlast : isSpace (l.getLast hne) = false := hb.lastNoSpace _ (List.getLast?_eq_some_getLast hne)
  have htr : trimRightSpaceLength l = 0 := by
    unfold trimRightSpaceLength
    have e : l.reverse = l.getLast hne :: l.dropLast.reverse := by
      conv => lhs; rw [← List.dropLast_concat_getLast hne]
      simp
    simp [e, List.takeWhile, hlast]
  have hs : sub src ((q : Nat) : Int).toNat ((q + l.length : Nat) : Int).toNat = l := by
    rw [Int.toNat_natCast, Int.toNat_natCast]; exact hl.ln.sub
  simp only [Segment.trimRightSpace, sg, sliceB, c2, if_true, hs, and_self, bind, Except.bind, pure, Except.pure, htr]
  have : ¬ (0 = l.length) := by rw [hlc]; simp
  simp [this]

theorem guardedTransform_last (hpa : ParaAt src p xs) (hbx : ∀ x ∈ xs, BlkLine x)
    (hl : LastLn src (p + (paraBytes xs).length) l) (hb : BlkLine l)
    (r : Reader) (hr : r.source = src) (d : Blocks.Node) (rest : List Blocks.Node) (b : Bool) (pc : Ctx) :
    GM.LinkRef.guardedTransform (rest.length + 1) ⟨r, d :: (rest ++ [paraN (lastSegs p xs l) b]), pc⟩ =
      .ok ((), ⟨r, d :: (rest ++ [paraN (lastSegs p xs l) b]), pc⟩) := by
  have hw := wf0B_last hpa hl
  have hw' : GM.LinkRef.wfSegsB src (lastSegs p xs l) = true := by
    simp only [GM.LinkRef.wf0B, Bool.and_eq_true] at hw; exact hw.1
  unfold GM.LinkRef.guardedTransform
  simp only [bind_apply, getNode_run, getD_last, source_run, hr, paraN, hw', Bool.not_true, Bool.and_false,
    Bool.false_eq_true, if_false]
  apply GM.Proof.LinkRefFacts.transform_declined_state
  · simp only [getD_last]; simp [lastSegs]
  · simp only [getD_last, hr]
    exact transformScan_last hpa hbx hl hb _

theorem paragraphClose_last (hpa : ParaAt src p xs) (hbx : ∀ x ∈ xs, BlkLine x)
    (hl : LastLn src (p + (paraBytes xs).length) l) (hb : BlkLine l)
    (r : Reader) (hr : r.source = src) (d : Blocks.Node) (rest : List Blocks.Node) (b : Bool) (pc : Ctx) :
    paragraphClose (rest.length + 1) ⟨r, d :: (rest ++ [paraN (lastSegs p xs l) b]), pc⟩ =
      .ok ((), ⟨r, d :: (rest ++ [paraN (lastSegs p xs l) b]), pc⟩) := by
  have htl := trimLeftAll_last xs p hpa hbx hl hb
  have htr := trimRight_last hl hb
  unfold paragraphClose
  simp only [bind_apply, getNode_run, getD_last, source_run, hr, paraN, htl, liftE_ok]
  have hlen : ((lastSegs p xs l).length != 0) = true := by simp [lastSegs]
  simp only [hlen, if_true, bind_apply, liftE_ok]
  simp only [lastSegs, lineAt_snoc, htr, lineSet_snoc, liftE_ok, bind_apply, modNode_run, getD_last, set_last, getNode_run]
  simp [pure_apply]

theorem closeBlocks_last (hpa : ParaAt src p xs) (hbx : ∀ x ∈ xs, BlkLine x)
    (hl : LastLn src (p + (paraBytes xs).length) l) (hb : BlkLine l)
    (r : Reader) (hr : r.source = src) (d : Blocks.Node) (rest : List Blocks.Node) (b : Bool) (pc : Ctx)
    (hop : pc.opened = [{ node := rest.length + 1, bp := .paragraph }]) :
    closeBlocksT pts 0 0 ⟨r, d :: (rest ++ [paraN (lastSegs p xs l) b]), pc⟩ =
      .ok ((), ⟨r, d :: (rest ++ [paraN (lastSegs p xs l) b]), { pc with opened := [] }⟩) := by
  have hg := guardedTransform_last hpa hbx hl hb r hr d rest b pc
  have hc := paragraphClose_last hpa hbx hl hb r hr d rest b pc
  unfold closeBlocksT
  simp only [bind_apply, getPc_run, hop]
  have e1 : ((0 : Int) - 0 + 1).toNat = 1 := by decide
  rw [e1, closeLoopT, closeLoopT]
  have e2 : ∀ blk : Block, blockAt [blk] (0 + ((0 : Nat) : Int)) = .ok blk := by intro blk; simp [blockAt]
  have e3 : (paraN (lastSegs p xs l) b).kind = .paragraph := rfl
  have e4 : (paraN (lastSegs p xs l) b).parent = some 0 := rfl
  simp only [bind_apply, e2, liftE_ok, getNode_run, getD_last, e3, e4, pts, GM.Convert.paragraphTransformers,
    transformParagraph, hg, pure_apply, bpClose, hc, if_true, Option.isSome_some, Option.isNone_some, beq_self_eq_true,
    Bool.and_self, Bool.false_eq_true, if_false]
  simp [closeBlocks.slice', liftE_ok, bind_apply, modPc_run, pure_apply]

/-- the per-line loop at the end of the source with the last paragraph open: it is closed, parseBlocks returns -/
theorem linesLoop_last_eof (hpa : ParaAt src p xs) (hbx : ∀ x ∈ xs, BlkLine x)
    (hl : LastLn src (p + (paraBytes xs).length) l) (hb : BlkLine l)
    (k : Int) (e : Nat) (d : Blocks.Node) (rest : List Blocks.Node) (b : Bool) (pc : Ctx)
    (hop : pc.opened = [{ node := rest.length + 1, bp := .paragraph }]) (bl : List LineStat) (fuel : Nat) :
    linesLoopT pts 0 (fuel + 1) bl ⟨rdr src k src.length src.length e none (-1), d :: (rest ++ [paraN (lastSegs p xs l) b]), pc⟩ =
      .ok ((true, bl), ⟨rdr src (k + 1) e e (lineEnd src e) none (-1), d :: (rest ++ [paraN (lastSegs p xs l) b]),
        { pc with opened := [] }⟩) := by
  have e1 : (((1 : Nat) : Int) - 1) = 0 := by decide
  have e0 : ((1 : Nat) == 0) = false := rfl
  rw [linesLoopT]
  simp only [bind_apply, getPc_run, hop, List.length_singleton, e1, e0, Bool.false_eq_true, if_false]
  rw [lineLoopT]
  simp only [bind_apply, peekLine_eof (Nat.le_refl _),
    closeBlocks_last hpa hbx hl hb _ (rdr_source ..) d rest b pc hop, advanceLine_run, pure_apply]
end lastPara

end GM.Proof.CMFrag
