/-
  GM.Proof.BlocksClosedLinks — `Open` and `Continue` of every block parser leave the tree links alone: existing nodes keep
  `parent` and `children`, and a node they add has neither (`LinksKept`). A syntactic walk (tactic `frl`): every
  `modNode` of these functions writes `lines` / `closure` only, every `newNode` is a literal without links.
  (The links are written by the driver: `AppendChild` in openBlocks, the tree surgery of the `Close` functions.)
-/
import GM.Proof.BlocksClosedClose

namespace GM.Blocks
open GM GM.Text GM.Spec GM.Proof.Reader

def LinksKept (s s' : St) : Prop :=
  s.nodes.length ≤ s'.nodes.length ∧
    (∀ i, i < s.nodes.length → (nd s' i).parent = (nd s i).parent ∧ (nd s' i).children = (nd s i).children) ∧
    (∀ i, s.nodes.length ≤ i → (nd s' i).parent = none ∧ (nd s' i).children = [])

theorem LinksKept.refl (s : St) : LinksKept s s :=
  ⟨Nat.le_refl _, fun _ _ => ⟨rfl, rfl⟩, fun i hi => by rw [nd_default_of_ge s hi]; exact ⟨rfl, rfl⟩⟩

theorem LinksKept.trans {a b c : St} (h1 : LinksKept a b) (h2 : LinksKept b c) : LinksKept a c := by
  refine ⟨Nat.le_trans h1.1 h2.1, fun i hi => ?_, fun i hi => ?_⟩
  · obtain ⟨x1, x2⟩ := h1.2.1 i hi
    obtain ⟨y1, y2⟩ := h2.2.1 i (Nat.lt_of_lt_of_le hi h1.1)
    exact ⟨y1.trans x1, y2.trans x2⟩
  · rcases Nat.lt_or_ge i b.nodes.length with hb | hb
    · obtain ⟨y1, y2⟩ := h2.2.1 i hb
      obtain ⟨x1, x2⟩ := h1.2.2 i hi
      exact ⟨y1.trans x1, y2.trans x2⟩
    · exact h2.2.2 i hb

theorem LinksKept.of_nodes {s s' : St} (h : s'.nodes = s.nodes) : LinksKept s s' := by
  have : ∀ i, nd s' i = nd s i := fun i => by simp only [nd, h]
  exact ⟨by rw [h]; exact Nat.le_refl _, fun i _ => by rw [this]; exact ⟨rfl, rfl⟩,
    fun i hi => by rw [this, nd_default_of_ge s hi]; exact ⟨rfl, rfl⟩⟩

/-- `TreeOK` survives a step that keeps the links -/
theorem TreeOK.linksKept {s s' : St} (h : TreeOK s) (hl : LinksKept s s') : TreeOK s' := by
  refine ⟨fun i p hp => ?_, fun x c hc => ?_, fun x => ?_⟩
  · rcases Nat.lt_or_ge i s.nodes.length with hi | hi
    · rw [(hl.2.1 i hi).1] at hp; exact h.par_lt i p hp
    · rw [(hl.2.2 i hi).1] at hp; cases hp
  · rcases Nat.lt_or_ge x s.nodes.length with hx | hx
    · rw [(hl.2.1 x hx).2] at hc
      have hcl := (h.kid_lt hc).2
      rw [(hl.2.1 c hcl).1]; exact h.kid x c hc
    · rw [(hl.2.2 x hx).2] at hc; cases hc
  · rcases Nat.lt_or_ge x s.nodes.length with hx | hx
    · rw [(hl.2.1 x hx).2]; exact h.nodup x
    · rw [(hl.2.2 x hx).2]; exact List.nodup_nil

structure FrL {α : Type} (m : M α) : Prop where
  h : ∀ s a s', m s = .ok (a, s') → LinksKept s s'

theorem FrL.pure {α} (a : α) : FrL (pure a : M α) := ⟨fun s _ _ h => by cases h; exact LinksKept.refl s⟩

theorem FrL.bind {α β} {m : M α} {f : α → M β} (hm : FrL m) (hf : ∀ a, FrL (f a)) : FrL (m >>= f) := by
  constructor
  intro s b s' h
  obtain ⟨a, s1, h1, k1⟩ := obind_ok h
  exact (hm.h s a s1 h1).trans ((hf a).h s1 b s' k1)

theorem FrL.ite {α} {c : Prop} [Decidable c] {a b : M α} (ha : FrL a) (hb : FrL b) : FrL (if c then a else b) := by
  split <;> assumption

theorem FrL.throw {α} (e : Panic) : FrL (throw e : M α) := ⟨fun _ _ _ h => by cases h⟩

theorem getNode_frl (id : Nat) : FrL (getNode id) := ⟨fun s _ _ h => by cases h; exact LinksKept.refl s⟩
theorem getPc_frl : FrL getPc := ⟨fun s _ _ h => by cases h; exact LinksKept.refl s⟩
theorem source_frl : FrL source := ⟨fun s _ _ h => by cases h; exact LinksKept.refl s⟩
theorem position_frl : FrL position := ⟨fun s _ _ h => by cases h; exact LinksKept.refl s⟩
theorem modPc_frl (f : Ctx → Ctx) : FrL (modPc f) := ⟨fun s _ _ h => by cases h; exact LinksKept.of_nodes rfl⟩
theorem setPosition_frl (l : Int) (p : Segment) : FrL (setPosition l p) :=
  ⟨fun s _ _ h => by cases h; exact LinksKept.of_nodes rfl⟩
theorem lastOpenedBlock_frl : FrL lastOpenedBlock :=
  ⟨fun s _ _ h => by obtain ⟨_, hs⟩ := olastOpenedBlock_ok h; rw [hs]; exact LinksKept.refl s⟩

theorem liftE_frl {α} (e : Except Panic α) : FrL (liftE e) :=
  ⟨fun s _ _ h => by obtain ⟨_, hs⟩ := oliftE_ok h; rw [hs]; exact LinksKept.refl s⟩

theorem reader_frl {α β} (f : Reader → Except Panic (α × Reader)) (g : α → β) :
    FrL (fun s => do let (x, r) ← f s.r; Pure.pure (g x, { s with r := r }) : M β) := by
  constructor
  intro s a s' h
  cases hf : f s.r with
  | error e => simp [hf, bind, Except.bind] at h
  | ok p =>
    simp only [hf, bind, Except.bind, Pure.pure, Except.pure] at h
    cases h
    exact LinksKept.of_nodes rfl

theorem peekLine_frl : FrL peekLine := reader_frl (fun r => r.peekLine) id
theorem lineOffset_frl : FrL lineOffset := reader_frl (fun r => r.lineOffsetOp) id

theorem advance_frl (n : Int) : FrL (advance n) := by
  constructor
  intro s a s' h
  unfold advance at h
  cases hf : s.r.advance n with
  | error e => simp [hf, bind, Except.bind] at h
  | ok p => simp only [hf, bind, Except.bind, Pure.pure, Except.pure] at h; cases h; exact LinksKept.of_nodes rfl

theorem advanceAndSetPadding_frl (n p : Int) : FrL (advanceAndSetPadding n p) := by
  constructor
  intro s a s' h
  unfold advanceAndSetPadding at h
  cases hf : s.r.advanceAndSetPadding n p with
  | error e => simp [hf, bind, Except.bind] at h
  | ok q => simp only [hf, bind, Except.bind, Pure.pure, Except.pure] at h; cases h; exact LinksKept.of_nodes rfl

/-- a write that keeps `parent` and `children` -/
theorem modNode_frl (id : Nat) (f : Node → Node) (hf : ∀ n, (f n).parent = n.parent ∧ (f n).children = n.children) :
    FrL (modNode id f) := by
  constructor
  intro s a s' h
  have hl := modNode_links h hf
  refine ⟨by rw [omodNode_ok h]; simp, fun i _ => hl i, fun i hi => ?_⟩
  rw [(hl i).1, (hl i).2, nd_default_of_ge s hi]; exact ⟨rfl, rfl⟩

theorem appendLine_frl (id : Nat) (seg : Segment) : FrL (appendLine id seg) := modNode_frl _ _ (fun _ => ⟨rfl, rfl⟩)

/-- a new node without links -/
theorem newNode_frl (n : Node) (hn : n.parent = none ∧ n.children = []) : FrL (newNode n) := by
  constructor
  intro s a s' h
  obtain ⟨_, hs⟩ := onewNode_ok h
  have hsn : s'.nodes = s.nodes ++ [n] := by rw [hs]
  refine ⟨by rw [hsn]; simp, fun i hi => by rw [nd_snoc hsn, if_pos hi]; exact ⟨rfl, rfl⟩, fun i hi => ?_⟩
  rw [nd_snoc hsn, if_neg (by omega)]
  split
  · exact hn
  · exact ⟨rfl, rfl⟩

macro "frl_step" : tactic =>
  `(tactic| first
    | with_reducible apply FrL.pure
    | with_reducible apply FrL.bind
    | with_reducible apply FrL.ite
    | with_reducible apply FrL.throw
    | with_reducible apply getNode_frl
    | with_reducible apply getPc_frl
    | with_reducible apply source_frl
    | with_reducible apply position_frl
    | with_reducible apply modPc_frl
    | with_reducible apply setPosition_frl
    | with_reducible apply lastOpenedBlock_frl
    | with_reducible apply liftE_frl
    | with_reducible apply peekLine_frl
    | with_reducible apply lineOffset_frl
    | with_reducible apply advance_frl
    | with_reducible apply advanceAndSetPadding_frl
    | with_reducible apply appendLine_frl
    | (with_reducible apply modNode_frl; intro _; exact ⟨rfl, rfl⟩)
    | (with_reducible apply newNode_frl; exact ⟨rfl, rfl⟩)
    | apply_hyp
    | intro _
    | split)

macro "frl" : tactic => `(tactic| repeat' frl_step)

theorem preserveLeadingTab_frl (seg : Segment) (ind : Int) : FrL (preserveLeadingTab seg ind) := by
  unfold preserveLeadingTab; frl
theorem codeTakeLine_frl (n : Nat) (pos padding : Int) : FrL (codeTakeLine n pos padding) := by
  have := preserveLeadingTab_frl
  unfold codeTakeLine; frl
theorem blockquoteProcess_frl : FrL blockquoteProcess := by unfold blockquoteProcess; frl
theorem lastOffset_frl (n : Nat) : FrL (lastOffset n) := by unfold lastOffset; frl
theorem lastChildCount_frl (n : Nat) : FrL (lastChildCount n) := by unfold lastChildCount; frl

theorem bpOpen_frl (bp : BP) (p : Nat) : FrL (bpOpen bp p) := by
  have := preserveLeadingTab_frl
  have := codeTakeLine_frl
  have := blockquoteProcess_frl
  have := lastOffset_frl
  cases bp <;> unfold bpOpen
  · unfold setextOpen; frl
  · unfold thematicOpen; frl
  · unfold listOpen; frl
  · unfold listItemOpen; frl
  · unfold codeOpen; frl
  · unfold atxOpen; frl
  · unfold fencedOpen; frl
  · unfold blockquoteOpen; frl
  · unfold htmlOpen; frl
  · unfold paragraphOpen; frl

theorem bpContinue_frl (bp : BP) (n : Nat) : FrL (bpContinue bp n) := by
  have := preserveLeadingTab_frl
  have := codeTakeLine_frl
  have := blockquoteProcess_frl
  have := lastOffset_frl
  have := lastChildCount_frl
  cases bp <;> unfold bpContinue
  · exact FrL.pure _
  · exact FrL.pure _
  · unfold listContinue; frl
  · unfold listItemContinue; frl
  · unfold codeContinue; frl
  · exact FrL.pure _
  · unfold fencedContinue; frl
  · unfold blockquoteContinue; frl
  · unfold htmlContinue; frl
  · unfold paragraphContinue; frl

end GM.Blocks
