/-
  GM.Proof.ShiftSimLinesL — one pass of the per-line loop (`lineLoop`, parser.go:1081-1123) under the shift relation for
  ALL ten parsers (contracts `PSimL`): the conditional contracts of the list parsers are discharged with the unary facts
  the no-panic proof (`lineLoopL`, GM.Proof.BlocksDriverL) has about run A in the middle of a pass (`MidA`).
-/
import GM.Proof.ShiftSimLinesW
import GM.Proof.ShiftSimMainW
import GM.Proof.ShiftSimLDefs
import GM.Proof.ShiftSimList

namespace GM.Blocks.Sh
open GM GM.Text GM.Spec GM.Proof.Reader GM.Blocks GM.Blocks.L

variable {F : Frame} {b : Bytes}

/-- what run A's state satisfies in the middle of a pass (the invariant of `lineLoopL`, root 0) -/
structure MidA (b : Bytes) (ob pre rest : List Block) (i : Int) (s : St) : Prop where
  split : ob = pre ++ rest
  idx : i = (pre.length : Int)
  opened : s.pc.opened = ob
  st : StableL b 0 s
  rd : ∃ c, RI b s.r c ∧ PadOK c ∧ ∀ Lb, pre.getLast? = some Lb → Lb.bp = .list → ListHint b s c Lb.node

def LineQL (F : Frame) (b : Bytes) (sA : St) (rest : List Block) (x y : LineOutcome × List LineStat) (sA' sB' : St) :
    Prop :=
  y.1 = x.1 ∧ StatsRel F x.2 y.2 ∧ SRLim F b sA' sB' ∧ K sA' ∧ sA.r.line ≤ sA'.r.line ∧
    (x.1 = LineOutcome.next → rest ≠ [] → x.2 ≠ [])

/-! ### run A alone -/

theorem MidA.congr_r {ob pre rest : List Block} {i : Int} {s : St} (hm : MidA b ob pre rest i s) {c : RCur}
    (hc : RI b s.r c) {r' : Reader} (hc' : RI b r' c) : MidA b ob pre rest i { s with r := r' } := by
  obtain ⟨h1, h2, h3, h4, c0, hri, hpad, hhint⟩ := hm
  have := ri_unique hri hc
  subst this
  exact ⟨h1, h2, h3, h4.congr_r r', c0, hc', hpad, hhint⟩

/-- the premises of `listItemContinue_okl2` in the middle of a pass -/
theorem lL_liPre {ob pre rest : List Block} {be : Block} {i : Int} {s : St}
    (hm : MidA b ob pre (be :: rest) i s) (hline : ∃ c, RI b s.r c ∧ c.p < b.length) (hbi : be.bp = .listItem) :
    ∃ c p, RI b s.r c ∧ PadOK c ∧ c.p < b.length ∧ (nd s be.node).parent = some p ∧ (nd s p).kind = .list ∧
      li_ListKidsOK s p ∧ 0 ≤ li_lastOff s p ∧ li_ListContinued b s c be.node p := by
  obtain ⟨hob, hi, hop, hst, c, hri, hpad, hhint⟩ := hm
  obtain ⟨c0, hri0, hp⟩ := hline
  have := ri_unique hri hri0
  subst this
  have hbemem : be ∈ s.pc.opened := by rw [hop, hob]; simp
  have hbeok := hst.blocks be hbemem
  obtain ⟨hchpre, hlink, hchrest⟩ := chainedO_split (hob ▸ hop ▸ hst.chain)
  have hkL : (nd s (lastNode 0 pre)).kind = .list := hlink.up hbi
  obtain ⟨_, hparL, hlastL⟩ := hlink.down hkL
  obtain ⟨Lb, hLb, hLn⟩ : ∃ Lb, pre.getLast? = some Lb ∧ Lb.node = lastNode 0 pre := by
    unfold lastNode
    cases hg : pre.getLast? with
    | none =>
      exfalso
      have : lastNode 0 pre = 0 := by unfold lastNode; rw [hg]; rfl
      rw [this, hst.ls.rootKind] at hkL; cases hkL
    | some Lb => exact ⟨Lb, rfl, rfl⟩
  have hLbm : Lb ∈ s.pc.opened := by rw [hop, hob]; exact List.mem_append_left _ (List.mem_of_getLast? hLb)
  have hLbl : Lb.bp = .list := by
    have := (hst.blocks Lb hLbm).kind
    rw [hLn, hkL] at this
    exact kind_list this.symm
  obtain ⟨lc, hlc, hg⟩ := hhint Lb hLb hLbl
  rw [hLn] at hlc hg
  have hlcbe : lc = be.node := by rw [hlastL] at hlc; cases hlc; rfl
  subst hlcbe
  have hkk := li_kidsOK_of hst.ls.kids (lastNode 0 pre) hkL
  have hoffe : li_lastOff s (lastNode 0 pre) = (nd s be.node).offset := by
    unfold li_lastOff; rw [hlastL]
  have hoff : 0 ≤ li_lastOff s (lastNode 0 pre) := by
    rw [hoffe]; exact hst.ls.kids.off be.node (by rw [hbeok.kind, hbi]; rfl)
  have hlist : li_ListContinued b s c be.node (lastNode 0 pre) := by
    unfold li_ListContinued
    simp only
    intro hnb
    rw [hoffe]
    obtain ⟨hgo, _⟩ := hg hnb
    have hns := hgo.not_short rfl
    refine ⟨hns.1, fun hh => ?_⟩
    refine hns.2.1 ⟨?_, hh.2.1, fun ⟨m, typ, hm, ht, _⟩ => ?_⟩
    · have := hh.1
      simp only [Bool.and_eq_true, beq_iff_eq] at this
      exact List.isEmpty_iff_length_eq_zero.2 this.1
    · have := hh.2.2.2
      rw [li_matchesListItem_strict] at this
      have hm' : matchesListItem (lineOf b c) false = (m, typ) := hm
      unfold lineOf at hm'
      rw [hm'] at this
      exact ht this
  exact ⟨c, lastNode 0 pre, hri, hpad, hp, hparL, hkL, hkk, hoff, hlist⟩

/-- the side conditions of `PSimL.coLI` -/
theorem lL_coLI {ob pre rest : List Block} {be : Block} {i : Int} {s : St}
    (hm : MidA b ob pre (be :: rest) i s) (hline : ∃ c, RI b s.r c ∧ c.p < b.length) (hbi : be.bp = .listItem) :
    (∀ p, (s.nodes.getD be.node default).parent = some p → p ≠ 0) ∧
      (∀ a s', listItemContinue be.node s = .ok (a, s') → ∃ c', RI b s'.r c') := by
  obtain ⟨c, p, hri, hpad, hp, hpar, hkL, hkk, hoff, hlist⟩ := lL_liPre hm hline hbi
  refine ⟨fun q hq hq0 => ?_, fun a s' e => ?_⟩
  · have e1 : (nd s be.node).parent = some q := hq
    rw [hpar] at e1
    cases e1
    subst hq0
    rw [hm.st.ls.rootKind] at hkL
    cases hkL
  · obtain ⟨c2, hri2, _⟩ := okl_ok (listItemContinue_okl2 b be.node s c hri hpad hp p hpar hkk hoff hlist) e
    exact ⟨c2, hri2⟩

/-- one `Continue` in the middle of a pass: run A's invariant afterwards -/
theorem lL_step {ob pre rest : List Block} {be : Block} {i : Int} {s s2 : St} {st : PState}
    (hm : MidA b ob pre (be :: rest) i s) (hline : ∃ c, RI b s.r c ∧ c.p < b.length)
    (e : bpContinue be.bp be.node s = .ok (st, s2)) :
    StableL b 0 s2 ∧ s2.pc.opened = ob ∧
      (st.cont = true → st.hasChildren = true → MidA b ob (pre ++ [be]) rest (i + 1) s2) := by
  have hm0 := hm
  obtain ⟨hob, hi, hop, hst, c, hri, hpad, hhint⟩ := hm
  have hline0 := hline
  obtain ⟨c0, hri0, hp⟩ := hline
  have := ri_unique hri hri0
  subst this
  have hbemem : be ∈ s.pc.opened := by rw [hop, hob]; simp
  have hbeok := hst.blocks be hbemem
  obtain ⟨hchpre, hlink, hchrest⟩ := chainedO_split (hob ▸ hop ▸ hst.chain)
  have hsplit : ob = (pre ++ [be]) ++ rest := by rw [hob]; simp
  have hidx : i + 1 = ((pre ++ [be]).length : Int) := by simp; omega
  by_cases hbl : be.bp = .list
  · -- listParser.Continue
    have hkl : (nd s be.node).kind = .list := by rw [hbeok.kind, hbl]; rfl
    have hitem : ListHasItem s be.node := by
      cases hr : rest with
      | nil =>
        exfalso
        have := hst.endOK
        have hob1 : s.pc.opened = pre ++ [be] := by rw [hop, hob, hr]
        rw [hob1, lastNode_concat] at this
        exact this hkl
      | cons b' rs =>
        rw [hr] at hchrest
        obtain ⟨h1', h2', h3'⟩ := hchrest.1.down hkl
        refine ⟨b'.node, h3', ?_⟩
        have hb'm : b' ∈ s.pc.opened := by rw [hop, hob, hr]; simp
        rw [(hst.blocks b' hb'm).kind, h1']; rfl
    obtain ⟨lc, hlc, hlk⟩ := hitem
    have hitem : ListHasItem s be.node := ⟨lc, hlc, hlk⟩
    have hcs := listContinue_okl2 b be.node s c hri hp hitem
    have ebp : bpContinue be.bp be.node = listContinue be.node := by rw [hbl]; rfl
    rw [ebp] at e
    obtain ⟨r2, hr2, hri2, hn2, ho2, _, _, ht2, hf2, _, hcc2, hlc2⟩ := okl_ok hcs e
    obtain ⟨hbl2, hnb2⟩ := hlc2 lc hlc
    have hst2 : StableL b 0 s2 := hst.congr hn2 ho2 ht2 hf2
    have hri2' : RI b s2.r c := by rw [hr2]; exact hri2
    have hop2 : s2.pc.opened = ob := by rw [ho2]; exact hop
    refine ⟨hst2, hop2, fun hcont _ => ⟨hsplit, hidx, hop2, hst2, c, hri2', hpad, ?_⟩⟩
    intro Lb hLb hLbl
    rw [List.getLast?_concat] at hLb
    cases hLb
    refine ⟨lc, by rw [nd_eq_of_nodes_eq hn2]; exact hlc, fun hnb => ?_⟩
    obtain ⟨hpc, hg, hth⟩ := hnb2 hnb
    have hst' : st = stContinueHasChildren := by
      rcases hg.1 with h | h
      · rw [h] at hcont; cases hcont
      · exact h
    rw [nd_eq_of_nodes_eq hn2, nd_eq_of_nodes_eq hn2, hpc, ← hst']
    exact ⟨hg, fun a b' c' => hth hcont a b' c'⟩
  · by_cases hbi : be.bp = .listItem
    · -- listItemParser.Continue
      obtain ⟨c1, p, hri1, hpad1, hp1, hpar, hkL, hkk, hoff, hlist⟩ := lL_liPre hm0 hline0 hbi
      have hcs := listItemContinue_okl2 b be.node s c1 hri1 hpad1 hp1 p hpar hkk hoff hlist
      have ebp : bpContinue be.bp be.node = listItemContinue be.node := by rw [hbi]; rfl
      rw [ebp] at e
      obtain ⟨c2, hri2, hpad2, _, hn2, ho2, ht2, hf2, hcc2, hpcc2, hclose2⟩ := okl_ok hcs e
      have hst2 : StableL b 0 s2 := hst.congr hn2 ho2 ht2 hf2
      have hop2 : s2.pc.opened = ob := by rw [ho2]; exact hop
      refine ⟨hst2, hop2, fun _ _ => ⟨hsplit, hidx, hop2, hst2, c2, hri2, hpad2, ?_⟩⟩
      intro Lb' hLb' hLbl'
      rw [List.getLast?_concat] at hLb'
      cases hLb'
      rw [hbi] at hLbl'; cases hLbl'
    · -- the other parsers
      have hnl : NotList be.bp := ⟨hbl, hbi⟩
      have hcs := (specs_notList b).cont be.bp hnl be.node s c hri hpad hp hst.nodes hst.keys hbeok
      have h2 := okl_ok hcs e
      have hts2 : TreeSame s s2 := (lsp_all b).contTS be.bp be.node s st s2 e
      obtain ⟨c2, hria2, hpad2, _, _, hcase2⟩ := h2.ria
      have hst2 : StableL b 0 s2 := hst.same h2.ext h2.nodes hts2 (by rw [h2.pc]) (by rw [h2.pc]) (by rw [h2.pc])
      have hop2 : s2.pc.opened = ob := by rw [h2.pc]; exact hop
      refine ⟨hst2, hop2, fun hcont hch => ?_⟩
      have hri2 : RI b s2.r c2 := by
        rcases hcase2 with ⟨_, h⟩ | h
        · rw [hch] at h; cases h
        · exact h
      refine ⟨hsplit, hidx, hop2, hst2, c2, hri2, hpad2, ?_⟩
      intro Lb' hLb' hLbl'
      rw [List.getLast?_concat] at hLb'
      cases hLb'
      exact absurd hLbl' hbl

/-! ### the pieces under the relation -/

/-- a container's `Continue` never answers "Continue, no children" (all ten parsers) -/
theorem lL_cont : ∀ bp : BP, bp.isContainer = true → ∀ node s s' (st : PState),
    bpContinue bp node s = .ok (st, s') → st.cont = true → st.hasChildren = true := by
  intro bp hcn node s s' st h hc
  by_cases hbl : bp = .list
  · subst hbl; exact listContinue_cont node s s' st h hc
  · by_cases hbi : bp = .listItem
    · subst hbi; exact listItemContinue_cont node s s' st h hc
    · exact leafCont_notList bp ⟨hbl, hbi⟩ hcn node s s' st h hc

/-- the hypothesis of `OpenBlocksSimL` about the last open block -/
theorem lL_lastOK {s : St} (hst : StableL b 0 s) :
    ∀ x, s.pc.opened.getLast? = some x → (s.nodes.getD x.node default).kind = .paragraph → x.bp ≠ .listItem := by
  intro x hx hk hbi
  have hk' : (nd s x.node).kind = .paragraph := hk
  rw [(hst.blocks x (List.mem_of_getLast? hx)).kind, hbi] at hk'
  cases hk'

/-- the working postcondition: `line0` a lower bound of run A's line counter, `n` a lower bound of the number of
    statistics entries when the pass ends with `next` -/
def lL_LQ (F : Frame) (b : Bytes) (line0 : Int) (n : Nat) (x y : LineOutcome × List LineStat) (sA' sB' : St) : Prop :=
  y.1 = x.1 ∧ StatsRel F x.2 y.2 ∧ SRLim F b sA' sB' ∧ K sA' ∧ line0 ≤ sA'.r.line ∧
    (x.1 = LineOutcome.next → n ≤ x.2.length)

theorem lL_LQ_mono {line0 : Int} {n n' : Nat} (hn : n' ≤ n) {x y : LineOutcome × List LineStat} {sA' sB' : St}
    (h : lL_LQ F b line0 n x y sA' sB') : lL_LQ F b line0 n' x y sA' sB' :=
  ⟨h.1, h.2.1, h.2.2.1, h.2.2.2.1, h.2.2.2.2.1, fun e => Nat.le_trans hn (h.2.2.2.2.2 e)⟩

theorem lL_open (hC : CloseBlocksSimL F b) (hO : OpenBlocksSimL F b) (openedBlocks : List Block) (lastIndex i : Int)
    (blank : Bool) (bla blb : List LineStat) (thisParent : Nat) (line0 : Int) {sA sB : St}
    (h : SR F b sA sB) (hk : K sA) (hsta : StableL b 0 sA) (hp : thisParent < sA.nodes.length)
    (hst : StatsRel F bla blb) (hl0 : line0 ≤ sA.r.line) :
    P2 (lL_LQ F b line0 bla.length) (llOpen openedBlocks lastIndex i blank bla thisParent sA)
      (llOpen (openedBlocks.map (shB F)) lastIndex i blank blb (F.ι thisParent) sB) := by
  unfold llOpen
  refine P2.bind (P := fun x y sA' sB' => y = shB F x ∧ sA = sA' ∧ sB = sB')
    (P2.liftE (fun x y e1 e2 => ?_)) (fun ln ln' sA1 sB1 ⟨hy, e1, e2⟩ => ?_)
  · rw [blockAt_map, e1] at e2; cases e2; exact ⟨rfl, rfl, rfl⟩
  subst hy e1 e2
  refine P2.bind (hO thisParent blank sA sB h.w hk hp (lL_lastOK hsta))
    (fun res res' sA2 sB2 ⟨hres, hlim, hk2, hline2, _⟩ => ?_)
  subst hres
  by_cases hr : (res' != OpenResult.paragraphContinuation) = true
  · rw [if_pos hr, if_pos hr]
    refine P2.bind (getPc_l hlim.1) (fun x y sA3 sB3 ⟨hx, hy, hxy, e1, e2⟩ => ?_)
    subst e1 e2
    have ho : y.opened = x.opened.map (shB F) := hxy.opened
    rw [ho, ll_slotAfter_map, ll_map_node, show (shB F ln).node = F.ι ln.node from rfl, map_ι_ne]
    refine P2.bind (hC _ _ _ _ _ _ hlim.1 hk2) (fun _ _ sA4 sB4 ⟨h4, hk4⟩ => ?_)
    refine P2.pure ⟨rfl, hst, SRLim.of_l hlim h4, hk4, ?_, fun _ => Nat.le_refl _⟩
    rw [h4.ra]; exact Int.le_trans hl0 hline2
  · rw [if_neg hr, if_neg hr]
    exact P2.pure ⟨rfl, hst, hlim, hk2, Int.le_trans hl0 hline2, fun _ => Nat.le_refl _⟩

theorem lL_fall (hC : CloseBlocksSimL F b) (hO : OpenBlocksSimL F b) (openedBlocks : List Block)
    (lastIndex i lnA lnB : Int) (bla blb : List LineStat) (line0 : Int) {sA sB : St}
    (h : SR F b sA sB) (hk : K sA) (hsta : StableL b 0 sA) (hop : sA.pc.opened = openedBlocks)
    (hst : StatsRel F bla blb) (hl0 : line0 ≤ sA.r.line)
    (hbl : isBlankLine (lnB - 1) i blb = isBlankLine (lnA - 1) i bla) :
    P2 (lL_LQ F b line0 bla.length) (llFall 0 openedBlocks lastIndex i lnA bla sA)
      (llFall (F.ι 0) (openedBlocks.map (shB F)) lastIndex i lnB blb sB) := by
  unfold llFall
  rw [hbl]
  by_cases hi : (i != 0) = true
  · rw [if_pos hi, if_pos hi]
    refine P2.bind (P := fun x y sA' sB' => y = shB F x ∧ sA = sA' ∧ sB = sB' ∧ x ∈ openedBlocks)
      (P2.liftE (fun x y e1 e2 => ?_)) (fun x y sA1 sB1 ⟨hy, e1, e2, hmem⟩ => ?_)
    · have hmem := blockAt_mem e1
      rw [blockAt_map, e1] at e2; cases e2; exact ⟨rfl, rfl, rfl, hmem⟩
    subst hy e1 e2
    exact lL_open hC hO openedBlocks lastIndex i _ bla blb x.node line0 h hk hsta (hk.opened x (hop ▸ hmem)).2 hst hl0
  · rw [if_neg hi, if_neg hi]
    exact lL_open hC hO openedBlocks lastIndex i _ bla blb 0 line0 h hk hsta hk.doc.1 hst hl0

theorem lL_body (hP : PSimL F b) (hC : CloseBlocksSimL F b) (hO : OpenBlocksSimL F b)
    (ob : List Block) (li : Int) (pre : List Block) (be : Block) (rest : List Block)
    (i lnA lnB : Int) (bla blb : List LineStat) (line0 : Int) {sA sB : St}
    (h : SR F b sA sB) (hk : K sA) (hm : MidA b ob pre (be :: rest) i sA) (hst : StatsRel F bla blb)
    (hl0 : line0 ≤ sA.r.line) (hbl : isBlankLine (lnB - 1) i blb = isBlankLine (lnA - 1) i bla)
    (hline : HasLine b sA)
    (hrec : ∀ sA' sB', SR F b sA' sB' → K sA' → MidA b ob (pre ++ [be]) rest (i + 1) sA' → line0 ≤ sA'.r.line →
      sA.r.line ≤ sA'.r.line →
      P2 (lL_LQ F b line0 bla.length) (lineLoop 0 ob li rest (i + 1) bla sA')
        (lineLoop (F.ι 0) (ob.map (shB F)) li (rest.map (shB F)) (i + 1) blb sB')) :
    P2 (lL_LQ F b line0 bla.length) (llBody 0 ob li be.bp be.node rest i lnA bla sA)
      (llBody (F.ι 0) (ob.map (shB F)) li be.bp (F.ι be.node) (rest.map (shB F)) i lnB blb sB) := by
  have hbemem : be ∈ sA.pc.opened := by rw [hm.opened, hm.split]; simp
  have hbe := hk.opened be hbemem
  unfold llBody
  refine P2.bind (getNode_p2 h be.node) (fun n m sA1 sB1 ⟨_, hm', e1, e2⟩ => ?_)
  subst e1 e2 hm'
  rw [shN_kind]
  by_cases hkd : (n.kind != Kind.paragraph) = true
  · rw [if_pos hkd, if_pos hkd]
    have hco : P2 (fun x y sA' sB' => y = x ∧ SRLim F b sA' sB' ∧
          ((x.cont = true ∧ x.hasChildren = false) ∨ SR F b sA' sB'))
        (bpContinue be.bp be.node sA1) (bpContinue be.bp (F.ι be.node) sB1) := by
      by_cases hbi : be.bp = .listItem
      · obtain ⟨q1, q2⟩ := lL_coLI hm hline hbi
        rw [hbi]
        exact (hP.coLI be.node sA1 sB1 h hline hk hbe.1 q1 q2).mono
          (fun x y sA' sB' ⟨hy, hs⟩ => ⟨hy, hs.limbo, .inr hs⟩)
      · exact hP.co be.bp hbi be.node sA1 sB1 h hline hk hbe.1
    refine P2.bind (hco.withL
      (R := fun a sA' => sA1.r.line ≤ sA'.r.line ∧ bpContinue be.bp be.node sA1 = .ok (a, sA'))
      (fun a sA' e => ⟨bpContinue_line _ _ _ _ _ e, e⟩))
      (fun st st' sA2 sB2 ⟨⟨hst', hlim2, hdis⟩, hl2, heq⟩ => ?_)
    subst hst'
    obtain ⟨hsta2, hop2, hmid2⟩ := lL_step hm hline heq
    have hks2 := a2_bpContinue_KS be.bp be.node hbe.1 _ _ _ hk heq
    have hk2 : K sA2 := hks2.1
    have hl02 : line0 ≤ sA2.r.line := Int.le_trans hl0 hl2
    by_cases hc : st'.cont = true
    · rw [if_pos hc, if_pos hc]
      by_cases hh : (st'.hasChildren && i == li) = true
      · rw [if_pos hh, if_pos hh, hbl]
        have hch : st'.hasChildren = true := by
          cases hx : st'.hasChildren with
          | true => rfl
          | false => rw [hx] at hh; simp at hh
        have h2 : SR F b sA2 sB2 := by
          rcases hdis with ⟨_, hf⟩ | h2
          · rw [hch] at hf; cases hf
          · exact h2
        refine P2.bind (hO be.node _ sA2 sB2 h2.w hk2 (Nat.lt_of_lt_of_le hbe.2 hks2.2) (lL_lastOK hsta2))
          (fun res res' sA3 sB3 ⟨hres, hlim, hk3, hline3, _⟩ => ?_)
        exact P2.pure ⟨rfl, hst, hlim, hk3, Int.le_trans hl02 hline3, fun _ => Nat.le_refl _⟩
      · rw [if_neg hh, if_neg hh]
        by_cases hch : st'.hasChildren = true
        · have h2 : SR F b sA2 sB2 := by
            rcases hdis with ⟨_, hf⟩ | h2
            · rw [hch] at hf; cases hf
            · exact h2
          exact hrec sA2 sB2 h2 hk2 (hmid2 hc hch) hl02 hl2
        · have hnc : ¬ be.bp.isContainer = true := fun hcn => hch (lL_cont be.bp hcn be.node sA1 sA2 st' heq hc)
          have hnil : rest = [] := by
            apply Classical.byContradiction
            intro hne
            exact hnc (leaf_of_stable hm.st pre be rest (by rw [hm.opened, hm.split]) hne)
          subst hnil
          simp only [List.map_nil]
          unfold lineLoop
          exact P2.pure ⟨rfl, hst, hlim2, hk2, hl02, fun _ => Nat.le_refl _⟩
    · rw [if_neg hc, if_neg hc]
      have h2 : SR F b sA2 sB2 := by
        rcases hdis with ⟨hf, _⟩ | h2
        · exact absurd hf hc
        · exact h2
      exact lL_fall hC hO ob li i lnA lnB bla blb line0 h2 hk2 hsta2 hop2 hst hl02 hbl
  · rw [if_neg hkd, if_neg hkd]
    exact lL_fall hC hO ob li i lnA lnB bla blb line0 h hk hm.st hm.opened hst hl0 hbl

/-! ### the loop -/

theorem lL_lineLoop (hP : PSimL F b) (hC : CloseBlocksSimL F b) (hO : OpenBlocksSimL F b)
    (ob : List Block) (li : Int) :
    ∀ (rest pre : List Block) (i : Int) (sa sb : List LineStat) (sA sB : St) (line0 : Int),
      MidA b ob pre rest i sA → SR F b sA sB → K sA → StatsRel F sa sb → line0 ≤ sA.r.line →
      1 ≤ sA.r.line → i ≤ (sa.length : Int) →
      P2 (lL_LQ F b line0 (sa.length + min 1 rest.length))
        (lineLoop 0 ob li rest i sa sA)
        (lineLoop (F.ι 0) (ob.map (shB F)) li (rest.map (shB F)) i sb sB) := by
  intro rest
  induction rest with
  | nil =>
    intro pre i sa sb sA sB line0 _ h hk hst hl0 _ _
    simp only [List.map_nil]
    unfold lineLoop
    exact P2.pure ⟨rfl, hst, h.limbo, hk, hl0, fun _ => by simp⟩
  | cons be rest ih =>
    intro pre i sa sb sA sB line0 hm h hk hst hl0 h1 hi
    obtain ⟨c, hri, _, _⟩ := hm.rd
    simp only [List.map_cons]
    rw [ll_lineLoop_cons, ll_lineLoop_cons]
    refine P2.bind ((peekLine_core h.rd).withL
      (R := fun a sA' => sA.r.line ≤ sA'.r.line ∧ ∃ r', sA' = { sA with r := r' } ∧ RI b r' c)
      (fun a sA' e => ⟨peekLine_lg (k := sA.r.line) sA a sA' (Int.le_refl _) e, (okl_ok (peekLine_okl hri) e).2⟩))
      (fun x y sA1 sB1 ⟨⟨⟨c', hc', hx⟩, hy, hstep⟩, hl1, r1, er1, hri1⟩ => ?_)
    have hs1 : SR F b sA1 sB1 := hstep.sr h
    have hcc : c' = c := by
      rw [er1] at hc'
      exact ri_unique hc' hri1
    subst hcc
    have hm1 : MidA b ob pre (be :: rest) i sA1 := by rw [er1]; exact hm.congr_r hri hri1
    have hk1 : K sA1 := by
      rw [er1]; exact (a2_KS_same (s' := { sA with r := r1 }) hk ⟨rfl, rfl⟩).1
    subst hx hy
    simp only
    cases hv : RCur.view b c' with
    | none =>
      simp only
      refine P2.bind (hC li 0 _ _ _ _ hs1.l hk1) (fun _ _ sA2 sB2 ⟨h2, hk2⟩ => ?_)
      have hs2 : SR F b sA2 sB2 := SRL.sr hs1 h2
      refine P2.bind ((advanceLine_core hs2.rd).withL
        (R := fun _ sA' => (sA2.r.line ≤ sA'.r.line ∧ sA'.pc = sA2.pc) ∧ K sA')
        (fun a sA' e => ⟨ll_advanceLine_line _ _ a e,
          (a2_KS_same hk2 (advanceLine_keeps (a2_same_noR sA2) sA2 _ sA' ⟨rfl, rfl⟩ e)).1⟩))
        (fun _ _ sA3 sB3 ⟨hstep3, ⟨hl3, _⟩, hk3⟩ => ?_)
      have hs3 : SR F b sA3 sB3 := hstep3.sr hs2
      refine P2.pure ⟨rfl, hst, hs3.limbo, hk3, ?_, fun e => by cases e⟩
      have := h2.ra
      rw [this] at hl3
      omega
    | some l =>
      simp only
      have hp : c'.p < b.length := by
        apply Classical.byContradiction
        intro hn
        rw [view_none b c' hn] at hv
        cases hv
      have hline : HasLine b sA1 := ⟨c', hc', hp⟩
      refine P2.bind (position_p2 hs1) (fun p q sA2 sB2 ⟨hp', hq, e1, e2⟩ => ?_)
      subst e1 e2 hq hp'
      have hst' : StatsRel F (sa ++ [{ lineNum := sA2.r.line, level := i, isBlank := isBlank l }])
          (sb ++ [{ lineNum := sA2.r.line + F.dl, level := i, isBlank := isBlank l }]) :=
        hst.append { lineNum := sA2.r.line, level := i, isBlank := isBlank l }
      have hbl : isBlankLine (sA2.r.line + F.dl - 1) i
            (sb ++ [{ lineNum := sA2.r.line + F.dl, level := i, isBlank := isBlank l }]) =
          isBlankLine (sA2.r.line - 1) i (sa ++ [{ lineNum := sA2.r.line, level := i, isBlank := isBlank l }]) := by
        rw [show sA2.r.line + F.dl - 1 = (sA2.r.line - 1) + F.dl by omega]
        exact isBlankLine_shift hst' (sA2.r.line - 1) i (by omega) (by simp; omega)
      refine (lL_body hP hC hO ob li pre be rest i sA2.r.line (sA2.r.line + F.dl) _ _ line0 hs1 hk1 hm1 hst'
        (by omega) hbl hline
        (fun sA' sB' h' hk' hm' hl0' hl' => ?_)).mono (fun x y sA' sB' hq => lL_LQ_mono (by simp) hq)
      exact (ih (pre ++ [be]) (i + 1) _ _ sA' sB' line0 hm' h' hk' hst' hl0' (by omega) (by simp; omega)).mono
        (fun x y sA' sB' hq => lL_LQ_mono (by omega) hq)

/-- one pass of the per-line loop, all ten parsers -/
theorem lineLoop_L (hP : PSimL F b) (hC : CloseBlocksSimL F b) (hO : OpenBlocksSimL F b)
    (ob : List Block) (li : Int) (_hli : li = (ob.length : Int) - 1) :
    ∀ (rest pre : List Block) (i : Int) (sa sb : List LineStat) (sA sB : St),
      MidA b ob pre rest i sA → SR F b sA sB → K sA → StatsRel F sa sb → 1 ≤ sA.r.line → i ≤ (sa.length : Int) →
      P2 (LineQL F b sA rest) (lineLoop 0 ob li rest i sa sA)
        (lineLoop (F.ι 0) (ob.map (shB F)) li (rest.map (shB F)) i sb sB) := by
  intro rest pre i sa sb sA sB hm h hk hst h1 hi
  refine (lL_lineLoop hP hC hO ob li rest pre i sa sb sA sB sA.r.line hm h hk hst (Int.le_refl _) h1 hi).mono
    (fun x y sA' sB' ⟨q1, q2, q3, q4, q5, q6⟩ => ⟨q1, q2, q3, q4, q5, fun e hne => ?_⟩)
  have hlen := q6 e
  have : 0 < rest.length := List.length_pos_iff.mpr hne
  intro hx
  have h0 : x.2.length = 0 := by rw [hx]; rfl
  omega

end GM.Blocks.Sh
