/-
  GM.Proof.ShiftSimCompose — step (iv) of the plan for C09's first half, for an ARBITRARY document `A`: the statement
  `IndependentBlocks a h b` follows from shift invariance (all parsers, GM.Proof.ShiftSimMainL) once the run on the
  joined document `a ++ sep ++ "# h\n" ++ "\n" ++ b` is known to REACH the outer loop of parseBlocks behind the heading's
  blank line in a `Start` state whose old part (the children `kids0` of the Document) dumps like the children of the
  Document of `run a` followed by the heading moved by `|a ++ sep|` — `Reach`, which is what steps (i)/(ii) (prefix
  determinism, closing at the end of the source = closing by blank line + heading) have to deliver. Nothing about `b`
  is assumed. GM.Proof.ShiftSimEndD is the instance `a = []`.
-/
import GM.Proof.ShiftSimMainL
import GM.Proof.ShiftSimStrings

namespace GM.Blocks.Sh
open GM GM.Text GM.Spec GM.Proof.Reader GM.Blocks

theorem docKids_fst (s : St) : (docKids s).1 = s.nodes.getD 0 default := by
  unfold docKids
  cases s.nodes.length with
  | zero => rfl
  | succ k => rfl

/-- the final assembly of the two dumps, any prefix: `nd` = final store of the run on the joined document, related by
    the frame to the final store of `run b`; the old children of `nd`'s Document dump like `old` -/
theorem indep_strings_gen (F : Frame) (sb : St) (nd : List Node) (da : Node) (old : List Tree)
    (hrel : StoreRel F sb.nodes nd)
    (hac : ∀ j c, c ∈ (sb.nodes.getD j default).children → j < c)
    (hdl : (sb.nodes.getD 0 default).lines = [])
    (hdak : da.kind = .document) (hdal : da.lines = [])
    (hold : Tree.strs (Tree.readBlankL false true (F.kids0.map (treeOf nd (nd.length - 1)))) =
      Tree.strs (Tree.readBlankL false true old)) :
    ((Tree.node da (old ++ Tree.mapSegsL (moveSeg F.d) (docKids sb).2)).readBlank false).str =
      ((treeOf nd nd.length 0).readBlank false).str := by
  have hpos := hrel.pos
  have hlen : nd.length = sb.nodes.length + F.c := hrel.len
  have h0 : ∀ j, ∀ c ∈ (sb.nodes.getD j default).children, c ≠ 0 := by
    intro j c hm; have := hac j c hm; omega
  have hdd : nd.getD 0 default = shN F true (sb.nodes.getD 0 default) := by
    have := hrel.node 0
    rw [ι_zero] at this
    exact this
  have hddk : (nd.getD 0 default).kind = .document := by rw [hdd]; exact hrel.doc
  have hddl : (nd.getD 0 default).lines = [] := by
    rw [hdd]; show (sb.nodes.getD 0 default).lines.map (moveSeg F.d) = []; rw [hdl]; rfl
  obtain ⟨k, hk⟩ : ∃ k, nd.length = k + 1 := ⟨nd.length - 1, by omega⟩
  have hk1 : nd.length - 1 = k := by omega
  rw [hk1] at hold
  rw [st_docKids_b sb hpos, hk]
  simp only [treeOf, Tree.readBlank]
  refine to_str_congr (hdak.trans hddk.symm) (by simp) ?_ (hdal.trans hddl.symm) ?_
  · rw [st_nodeFields_doc (n := { da with blankPrev := false && da.blankPrev }) hdak]
    exact (st_nodeFields_doc (n := { nd.getD 0 default with blankPrev := false && (nd.getD 0 default).blankPrev }) hddk).symm
  · have hf1 : ((da.kind == Kind.list) || (da.kind == Kind.listItem)) = false := by rw [hdak]; rfl
    have hf2 : (((nd.getD 0 default).kind == Kind.list) || ((nd.getD 0 default).kind == Kind.listItem)) = false := by
      rw [hddk]; rfl
    rw [hf1, hf2, treeOf_shift_doc hrel k h0]
    have hst : (sb.nodes.getD 0 default).children.map (treeOf sb.nodes k) =
        (sb.nodes.getD 0 default).children.map (treeOf sb.nodes (sb.nodes.length - 1)) := by
      apply fu_map_congr
      intro c hm
      have := hac 0 c hm
      exact treeOf_child_stable hac k c (by omega) (by omega)
    rw [hst, to_readBlankL_false_append, to_readBlankL_false_append, to_strs_append, to_strs_append, hold]

/-- **what steps (i)/(ii) have to deliver** for the documents `a`, `h`, `b` and the final state `sd` of the run on the
    joined document: that run passes through a `Start` state of a frame for the prefix `a ++ sep ++ "# h\n" ++ "\n"`
    (same length; `F.OK` says the prefix ends with a blank line), and in its final store the old children of the
    Document dump like the children of `run a`'s Document followed by the heading of `run "# h\n"` moved by `|a ++ sep|`. -/
def Reach (a h b : Bytes) (sa sh sd : St) : Prop :=
  ∃ (F : Frame) (stats : List LineStat) (s : St) (fuel : Nat), F.OK ∧ F.flag = true ∧
    (F.d : Int) = ((a ++ indepSep a ++ headingLine h ++ [10]).length : Int) ∧
    Start F b s stats ∧ blocksLoop 0 fuel stats s = .ok ((), sd) ∧
    Tree.strs (Tree.readBlankL false true (F.kids0.map (treeOf sd.nodes (sd.nodes.length - 1)))) =
      Tree.strs (Tree.readBlankL false true
        ((docKids sa).2 ++ Tree.mapSegsL (moveSeg ((a ++ indepSep a).length : Int)) (docKids sh).2))

/-- **composition**: `IndependentBlocks a h b` from `Reach`, which is only asked for when `a` does not end in a raw
    block (the statement's own proviso) -/
theorem independent_blocks_of_reach_raw (a h b : Bytes)
    (hreach : ∀ sa sh sd, run a = .ok sa → run (headingLine h) = .ok sh → run (indepDoc a h b) = .ok sd →
      endsInRawBlock sa = false → Reach a h b sa sh sd) :
    ∀ e g, indepPair a h b = some (e, g) → e = g := by
  intro e g hp
  unfold indepPair at hp
  have hok : indepBytesOK a h b = true := by
    cases hq : indepBytesOK a h b with
    | true => rfl
    | false => rw [hq] at hp; simp at hp
  simp only [hok, Bool.not_true, Bool.false_eq_true, if_false] at hp
  obtain ⟨sa, hsa, _⟩ := run_ok_all a
  obtain ⟨sh, hsh, _⟩ := run_ok_all (headingLine h)
  obtain ⟨sb, hsb, _⟩ := run_ok_all b
  obtain ⟨sd, hsd, _⟩ := run_ok_all (indepDoc a h b)
  rw [hsa, hsh, hsb] at hp
  simp only at hp
  split at hp
  · cases hp
  · next hraw =>
    rw [hsd] at hp
    obtain ⟨F, stats, s, fuel, hF, hfl, hd, hstart, hcont, hold⟩ :=
      hreach sa sh sd hsa hsh hsd (by simpa using hraw)
    obtain ⟨sb', hsb', hrel⟩ := shift_invariance_all F hF hfl b hstart fuel sd hcont
    rw [hsb] at hsb'
    cases hsb'
    obtain ⟨hacb, hdlb, _⟩ := run_acyc b sb hsb
    obtain ⟨_, hdla, hdka⟩ := run_acyc a sa hsa
    have hstr := indep_strings_gen F sb sd.nodes (docKids sa).1
      ((docKids sa).2 ++ Tree.mapSegsL (moveSeg ((a ++ indepSep a).length : Int)) (docKids sh).2) hrel hacb.1 hdlb
      (by rw [docKids_fst]; exact hdka) (by rw [docKids_fst]; exact hdla) hold
    rw [hd] at hstr
    split at hp
    · cases hp
    · simp only [Option.some.injEq, Prod.mk.injEq] at hp
      obtain ⟨he, hg⟩ := hp
      rw [← he, ← hg]
      exact hstr

/-- **composition**: `IndependentBlocks a h b` from `Reach` — every `a`, `h`, `b` -/
theorem independent_blocks_of_reach (a h b : Bytes)
    (hreach : ∀ sa sh sd, run a = .ok sa → run (headingLine h) = .ok sh → run (indepDoc a h b) = .ok sd →
      Reach a h b sa sh sd) :
    ∀ e g, indepPair a h b = some (e, g) → e = g :=
  independent_blocks_of_reach_raw a h b (fun sa sh sd h1 h2 h3 _ => hreach sa sh sd h1 h2 h3)

end GM.Blocks.Sh
