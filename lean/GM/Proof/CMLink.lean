/-
  GM.Proof.CMLink — lemmas about the spec-side inline-link reference GM.Spec.CMLink: what the look-ahead scanners
  accept satisfies the grammar of CommonMark 6.3, and they consume exactly what they report.
-/
import GM.Spec.CMLink
namespace GM.Proof.CMLink
open GM GM.Spec.CMLink
open GM.Spec.CMEmph (isAsciiPunct)

theorem consRaw_some (c : UInt8) (o : Option (Bytes × Bytes)) (raw rest : Bytes) (h : consRaw c o = some (raw, rest)) :
    ∃ r, o = some (r, rest) ∧ raw = c :: r := by
  cases o with
  | none => simp [consRaw] at h
  | some p =>
    obtain ⟨r, rs⟩ := p
    simp only [consRaw, Option.some.injEq, Prod.mk.injEq] at h
    exact ⟨r, by rw [h.2], h.1.symm⟩

theorem pointy_sound : ∀ (s : Bytes) (esc : Bool) (raw rest : Bytes), pointy Dev.spec esc s = some (raw, rest) →
    s = raw ++ 62 :: rest ∧ pointyOK esc raw = true := by
  intro s
  induction s with
  | nil => intro esc raw rest h; simp [pointy] at h
  | cons c t ih =>
    intro esc raw rest h
    unfold pointy at h
    split at h
    · next he =>
      obtain ⟨r, h1, rfl⟩ := consRaw_some _ _ _ _ h
      obtain ⟨i1, i2⟩ := ih _ _ _ h1
      exact ⟨by rw [i1]; rfl, by simp only [pointyOK, he, if_true]; exact i2⟩
    · next he =>
      split at h
      · next h62 =>
        simp only [Option.some.injEq, Prod.mk.injEq] at h
        obtain ⟨rfl, rfl⟩ := h
        have : c = 62 := by simpa using h62
        exact ⟨by simp [this], by simp [pointyOK]⟩
      · next h62 =>
        split at h
        · simp at h
        · next hbad =>
          obtain ⟨r, h1, rfl⟩ := consRaw_some _ _ _ _ h
          obtain ⟨i1, i2⟩ := ih _ _ _ h1
          refine ⟨by rw [i1]; rfl, ?_⟩
          simp only [pointyOK, he]
          simp only [Dev.spec, Bool.not_false, Bool.and_true, Bool.or_eq_true, beq_iff_eq, not_or] at hbad
          have h62' : c ≠ 62 := by simpa using h62
          simp [i2, hbad.1, hbad.2, h62']

theorem bare_sound : ∀ (s : Bytes) (d : Nat) (esc : Bool) (raw rest : Bytes), bare Dev.spec d esc s = some (raw, rest) →
    s = raw ++ rest ∧ bareDepth d esc raw = some 0 := by
  intro s
  induction s with
  | nil =>
    intro d esc raw rest h
    simp only [bare, Dev.spec, Bool.or_false, beq_iff_eq] at h
    split at h
    · next hd => simp only [Option.some.injEq, Prod.mk.injEq] at h; obtain ⟨rfl, rfl⟩ := h; simp [bareDepth, hd]
    · simp at h
  | cons c t ih =>
    intro d esc raw rest h
    unfold bare at h
    split at h
    · next he =>
      obtain ⟨r, h1, rfl⟩ := consRaw_some _ _ _ _ h
      obtain ⟨i1, i2⟩ := ih _ _ _ _ h1
      exact ⟨by rw [i1]; rfl, by simp only [bareDepth, he, if_true]; exact i2⟩
    · next he =>
      split at h
      · next hsp =>
        simp only [Dev.spec, Bool.or_false, beq_iff_eq] at h
        split at h
        · next hd => simp only [Option.some.injEq, Prod.mk.injEq] at h; obtain ⟨rfl, rfl⟩ := h; simp [bareDepth, hd]
        · simp at h
      · next hsp =>
        have hsp' : (c == 32 || isControl c) = false := by
          cases hc : isControl c
          · simp only [Dev.spec, Bool.not_false, Bool.and_true, hc, Bool.or_false] at hsp
            cases h32 : (c == 32) <;> simp_all
          · simp [Dev.spec, hc] at hsp
        split at h
        · next h40 =>
          obtain ⟨r, h1, rfl⟩ := consRaw_some _ _ _ _ h
          obtain ⟨i1, i2⟩ := ih _ _ _ _ h1
          exact ⟨by rw [i1]; rfl, by simp only [bareDepth, he, hsp', h40, if_true]; simpa using i2⟩
        · next h40 =>
          split at h
          · next h41 =>
            split at h
            · next hd =>
              simp only [Option.some.injEq, Prod.mk.injEq] at h; obtain ⟨rfl, rfl⟩ := h
              have : d = 0 := by simpa using hd
              simp [bareDepth, this]
            · next hd =>
              obtain ⟨r, h1, rfl⟩ := consRaw_some _ _ _ _ h
              obtain ⟨i1, i2⟩ := ih _ _ _ _ h1
              refine ⟨by rw [i1]; rfl, ?_⟩
              simp only [bareDepth, he, hsp', h40, h41, hd, if_true]
              simpa using i2
          · next h41 =>
            obtain ⟨r, h1, rfl⟩ := consRaw_some _ _ _ _ h
            obtain ⟨i1, i2⟩ := ih _ _ _ _ h1
            refine ⟨by rw [i1]; rfl, ?_⟩
            simp only [bareDepth, he, hsp', h40, h41]
            simpa using i2

theorem titleGo_sound (cl : UInt8) : ∀ (s : Bytes) (esc : Bool) (raw rest : Bytes), titleGo cl esc s = some (raw, rest) →
    s = raw ++ cl :: rest ∧ titleOK cl esc raw = true := by
  intro s
  induction s with
  | nil => intro esc raw rest h; simp [titleGo] at h
  | cons c t ih =>
    intro esc raw rest h
    unfold titleGo at h
    split at h
    · next he =>
      obtain ⟨r, h1, rfl⟩ := consRaw_some _ _ _ _ h
      obtain ⟨i1, i2⟩ := ih _ _ _ h1
      exact ⟨by rw [i1]; rfl, by simp only [titleOK, he, if_true]; exact i2⟩
    · next he =>
      split at h
      · next hcl =>
        simp only [Option.some.injEq, Prod.mk.injEq] at h
        obtain ⟨rfl, rfl⟩ := h
        have : c = cl := by simpa using hcl
        exact ⟨by simp [this], by simp [titleOK]⟩
      · next hcl =>
        split at h
        · simp at h
        · next hp =>
          obtain ⟨r, h1, rfl⟩ := consRaw_some _ _ _ _ h
          obtain ⟨i1, i2⟩ := ih _ _ _ h1
          refine ⟨by rw [i1]; rfl, ?_⟩
          simp only [titleOK, he]
          have hcl' : c ≠ cl := by simpa using hcl
          have hp' : (cl == 41 && c == 40) = false := by simpa using hp
          simp [i2, hcl', hp']

/-! ### completeness of the destination scanners: everything the grammar allows is accepted -/

theorem pointy_complete : ∀ (raw : Bytes) (esc : Bool) (rest : Bytes), pointyOK esc raw = true → escEnd esc raw = false →
    pointy Dev.spec esc (raw ++ 62 :: rest) = some (raw, rest) := by
  intro raw
  induction raw with
  | nil =>
    intro esc rest _ he
    simp only [escEnd] at he
    subst he
    simp [pointy]
  | cons c t ih =>
    intro esc rest hok he
    simp only [pointyOK] at hok
    simp only [escEnd] at he
    simp only [List.cons_append, pointy]
    split
    · next hp =>
      simp only [hp, if_true] at hok he
      rw [ih false rest hok he]; rfl
    · next hp =>
      simp only [hp, Bool.false_eq_true, if_false, Bool.and_eq_true, bne_iff_ne, ne_eq] at hok he
      obtain ⟨⟨⟨h62, h10⟩, h60⟩, hrest⟩ := hok
      rw [if_neg (by simpa using h62), if_neg (by simp [h10, h60, Dev.spec]), ih _ rest hrest he]; rfl

/-- what may follow a destination without brackets: nothing, a space, a control character (line ending), or `)` -/
def stopper (rest : Bytes) : Prop := rest = [] ∨ ∃ c t, rest = c :: t ∧ (c == 32 || isControl c || c == 41) = true

theorem bare_complete : ∀ (raw : Bytes) (d : Nat) (esc : Bool) (rest : Bytes), bareDepth d esc raw = some 0 →
    escEnd esc raw = false → stopper rest → bare Dev.spec d esc (raw ++ rest) = some (raw, rest) := by
  intro raw
  induction raw with
  | nil =>
    intro d esc rest hd he hs
    simp only [escEnd] at he
    simp only [bareDepth, Option.some.injEq] at hd
    subst he; subst hd
    rcases hs with rfl | ⟨c, t, rfl, hc⟩
    · simp [bare]
    · simp only [List.nil_append, bare, Bool.false_and, Bool.false_eq_true, if_false, Dev.spec, Bool.not_false, Bool.and_true,
        Bool.or_false, beq_self_eq_true, if_true]
      simp only [Bool.or_eq_true, beq_iff_eq] at hc
      rcases hc with (h32 | hctl) | h41
      · simp [h32]
      · have : (c == 32 || c == 10 || isControl c) = true := by simp [hctl]
        simp [this]
      · subst h41
        simp [isControl]
  | cons c t ih =>
    intro d esc rest hd he hs
    simp only [bareDepth] at hd
    simp only [escEnd] at he
    simp only [List.cons_append, bare]
    split
    · next hp =>
      simp only [hp, if_true] at hd he
      rw [ih d false rest hd he hs]; rfl
    · next hp =>
      simp only [hp, Bool.false_eq_true, if_false] at hd he
      split at hd
      · simp at hd
      · next hsp =>
        have hsp' : (c == 32 || c == 10 || (isControl c && !Dev.spec.ctl)) = false := by
          simp only [Bool.or_eq_true, beq_iff_eq, not_or] at hsp
          have h10 : c ≠ 10 := by
            intro h; apply hsp.2; subst h; decide
          simp [Dev.spec, hsp.1, hsp.2, h10]
        rw [if_neg (by simp [hsp'])]
        split at hd
        · next h40 =>
          have h92 : (c == 92) = false := by
            have : c = 40 := by simpa using h40
            subst this; decide
          rw [h92] at he
          rw [if_pos h40, ih _ _ rest hd he hs]; rfl
        · next h40 =>
          rw [if_neg h40]
          split at hd
          · next h41 =>
            have h92 : (c == 92) = false := by
              have : c = 41 := by simpa using h41
              subst this; decide
            rw [h92] at he
            rw [if_pos h41]
            split at hd
            · simp at hd
            · next hd0 =>
              rw [if_neg hd0, ih _ _ rest hd he hs]; rfl
          · next h41 =>
            rw [if_neg h41, ih _ _ rest hd he hs]; rfl

/-- a link label's content: no unescaped bracket (used for the label that follows a link text and, through
    `validLabel`, for a link text that serves as a label) -/
def labelOK : Bool → Bytes → Bool
  | _, [] => true
  | esc, c :: t => if esc && isAsciiPunct c then labelOK false t else c != 93 && c != 91 && labelOK (c == 92) t

theorem labelGo_sound : ∀ (s : Bytes) (esc : Bool) (raw rest : Bytes), labelGo esc s = some (raw, rest) →
    s = raw ++ 93 :: rest ∧ labelOK esc raw = true := by
  intro s
  induction s with
  | nil => intro esc raw rest h; simp [labelGo] at h
  | cons c t ih =>
    intro esc raw rest h
    unfold labelGo at h
    split at h
    · next he =>
      obtain ⟨r, h1, rfl⟩ := consRaw_some _ _ _ _ h
      obtain ⟨i1, i2⟩ := ih _ _ _ h1
      exact ⟨by rw [i1]; rfl, by simp only [labelOK, he, if_true]; exact i2⟩
    · next he =>
      split at h
      · next h93 =>
        simp only [Option.some.injEq, Prod.mk.injEq] at h
        obtain ⟨rfl, rfl⟩ := h
        have : c = 93 := by simpa using h93
        exact ⟨by simp [this], by simp [labelOK]⟩
      · next h93 =>
        split at h
        · simp at h
        · next h91 =>
          obtain ⟨r, h1, rfl⟩ := consRaw_some _ _ _ _ h
          obtain ⟨i1, i2⟩ := ih _ _ _ h1
          refine ⟨by rw [i1]; rfl, ?_⟩
          have a : c ≠ 93 := by simpa using h93
          have b : c ≠ 91 := by simpa using h91
          simp [labelOK, he, i2, a, b]

/-! ### white space -/

theorem skipSp_spec : ∀ s : Bytes, ∃ w, s = w ++ skipSp s ∧ w.all (· == 32) = true := by
  intro s
  induction s with
  | nil => exact ⟨[], rfl, rfl⟩
  | cons c t ih =>
    unfold skipSp
    split
    · next h =>
      obtain ⟨w, h1, h2⟩ := ih
      exact ⟨c :: w, by rw [List.cons_append, ← h1], by simp [h2, h]⟩
    · exact ⟨[], rfl, rfl⟩

theorem allSp_noNl (w : Bytes) (h : w.all (· == 32) = true) : w.filter (· == 10) = [] := by
  induction w with
  | nil => rfl
  | cons c t ih =>
    simp only [List.all_cons, Bool.and_eq_true, beq_iff_eq] at h
    have : (c == 10) = false := by rw [h.1]; decide
    simp only [List.filter_cons, this]
    exact ih h.2

theorem allSp_ws (w : Bytes) (h : w.all (· == 32) = true) : w.all (fun c => c == 32 || c == 10) = true := by
  induction w with
  | nil => rfl
  | cons c t ih =>
    simp only [List.all_cons, Bool.and_eq_true] at h ⊢
    exact ⟨by simp [h.1], ih h.2⟩

theorem skipSpnl_spec (s : Bytes) : ∃ w, s = w ++ skipSpnl s ∧ isSepWs w = true := by
  obtain ⟨w1, h1, a1⟩ := skipSp_spec s
  unfold skipSpnl
  cases hs : skipSp s with
  | nil =>
    refine ⟨w1, by rw [hs] at h1; simpa using h1, ?_⟩
    simp [isSepWs, allSp_ws w1 a1, allSp_noNl w1 a1]
  | cons c t =>
    simp only
    split
    · next hc =>
      have hc' : c = 10 := by simpa using hc
      obtain ⟨w2, h2, a2⟩ := skipSp_spec t
      refine ⟨w1 ++ 10 :: w2, ?_, ?_⟩
      · rw [h1, hs, hc']; simp only [List.append_assoc, List.cons_append]; rw [← h2]
      · simp [isSepWs, List.all_append, allSp_ws w1 a1, allSp_ws w2 a2, List.filter_append, allSp_noNl w1 a1,
          allSp_noNl w2 a2]
    · refine ⟨w1, by rw [h1, hs], ?_⟩
      simp [isSepWs, allSp_ws w1 a1, allSp_noNl w1 a1]

/-! ### the parenthesised part of an inline link -/

/-- the title part `tsrc` of the source (empty when there is no title): an opening character, the raw title that
    satisfies the grammar of that form, the matching closing character — and white space `w2` before it -/
def TitlePart (tl : Tail) (w2 tsrc : Bytes) : Prop :=
  match tl.rawTitle with
  | none => tsrc = []
  | some t => w2 ≠ [] ∧ ∃ o cl, titleCloser o = some cl ∧ tsrc = o :: (t ++ [cl]) ∧ titleOK cl false t = true

theorem afterDest_sound (pf : Bool) (dest r1 : Bytes) (tl : Tail) (h : afterDest Dev.spec pf dest r1 = some tl) :
    tl.pointyForm = pf ∧ tl.rawDest = dest ∧
    ∃ w2 tsrc w3, isSepWs w2 = true ∧ isSepWs w3 = true ∧ r1 = w2 ++ (tsrc ++ (w3 ++ 41 :: tl.rest)) ∧ TitlePart tl w2 tsrc := by
  obtain ⟨w2, e2, a2⟩ := skipSpnl_spec r1
  unfold afterDest at h
  simp only at h
  cases hr2 : skipSpnl r1 with
  | nil => simp [hr2] at h
  | cons c t =>
    rw [hr2] at h e2
    simp only at h
    split at h
    · next hc =>
      have hc' : c = 41 := by simpa using hc
      simp only [Option.some.injEq] at h
      subst h
      refine ⟨rfl, rfl, w2, [], [], a2, by simp [isSepWs], ?_, by simp [TitlePart]⟩
      rw [e2, hc']; simp
    · next hc =>
      split at h
      · simp at h
      · next hlen =>
        have hw2 : w2 ≠ [] := by
          intro hw
          apply hlen
          simp only [Dev.spec, Bool.not_false, Bool.and_true, beq_iff_eq]
          rw [e2, hw]; simp
        cases hcl : titleCloser c with
        | none => simp [hcl] at h
        | some cl =>
          simp only [hcl] at h
          cases htg : titleGo cl false t with
          | none => simp [htg] at h
          | some p =>
            obtain ⟨ti, r3⟩ := p
            simp only [htg] at h
            obtain ⟨t1, t2⟩ := titleGo_sound cl t false ti r3 htg
            obtain ⟨w3, e3, a3⟩ := skipSpnl_spec r3
            cases hr4 : skipSpnl r3 with
            | nil => simp [hr4] at h
            | cons c' t' =>
              rw [hr4] at h e3
              simp only at h
              split at h
              · next hc41 =>
                have hc41' : c' = 41 := by simpa using hc41
                simp only [Option.some.injEq] at h
                subst h
                refine ⟨rfl, rfl, w2, c :: (ti ++ [cl]), w3, a2, a3, ?_, ?_⟩
                · rw [e2, t1, e3, hc41']; simp
                · simp only [TitlePart]
                  exact ⟨hw2, c, cl, hcl, rfl, t2⟩
              · simp at h

/-- what `inlineTail` accepts is `(`, white space, a destination of one of the two forms, and — separated by white
    space — a title of one of the three forms, white space, `)`; what it reports as the rest is what follows -/
theorem inlineTail_sound (s : Bytes) (tl : Tail) (h : inlineTail Dev.spec s = some tl) :
    ∃ w1 w2 tsrc w3, isSepWs w1 = true ∧ isSepWs w2 = true ∧ isSepWs w3 = true ∧
      s = 40 :: (w1 ++ (tl.destSrc ++ (w2 ++ (tsrc ++ (w3 ++ 41 :: tl.rest))))) ∧
      tl.destOK = true ∧ TitlePart tl w2 tsrc := by
  cases s with
  | nil => simp [inlineTail] at h
  | cons c t =>
    simp only [inlineTail] at h
    split at h
    · simp at h
    · next hc =>
      have hc' : c = 40 := by simpa using hc
      obtain ⟨w1, e1, a1⟩ := skipSpnl_spec t
      cases hr : skipSpnl t with
      | nil => simp [hr] at h
      | cons d t1 =>
        rw [hr] at h e1
        simp only at h
        split at h
        · next hd =>
          have hd' : d = 60 := by simpa using hd
          cases hp : pointy Dev.spec false t1 with
          | none => simp [hp] at h
          | some p =>
            obtain ⟨dest, r1⟩ := p
            simp only [hp] at h
            obtain ⟨p1, p2⟩ := pointy_sound t1 false dest r1 hp
            obtain ⟨f1, f2, w2, tsrc, w3, a2, a3, e2, tp⟩ := afterDest_sound true dest r1 tl h
            refine ⟨w1, w2, tsrc, w3, a1, a2, a3, ?_, ?_, tp⟩
            · rw [hc', e1, hd', p1, e2]; simp [Tail.destSrc, f1, f2]
            · simp [Tail.destOK, f1, f2, p2]
        · next hd =>
          cases hb : bare Dev.spec 0 false (d :: t1) with
          | none => simp [hb] at h
          | some p =>
            obtain ⟨dest, r1⟩ := p
            simp only [hb] at h
            obtain ⟨b1, b2⟩ := bare_sound (d :: t1) 0 false dest r1 hb
            obtain ⟨f1, f2, w2, tsrc, w3, a2, a3, e2, tp⟩ := afterDest_sound false dest r1 tl h
            refine ⟨w1, w2, tsrc, w3, a1, a2, a3, ?_, ?_, tp⟩
            · rw [hc', e1, b1, e2]; simp [Tail.destSrc, f1, f2]
            · simp only [Tail.destOK, f1, f2, b2, Bool.false_eq_true, if_false, beq_self_eq_true, Bool.true_and]
              cases dest with
              | nil => simp
              | cons x xs =>
                simp only [List.cons_append, List.cons.injEq] at b1
                have : x ≠ 60 := by rw [← b1.1]; simpa using hd
                simp [this]

/-! ### the HTML is tag-balanced -/

mutual
theorem render_events : ∀ n : Inl, render n = (events n).flatMap Ev.bytes
  | .text b => by simp [render, renderK, events, Ev.bytes]
  | .soft => by simp [render, renderK, events, Ev.bytes]
  | .hard => by simp [render, renderK, events, Ev.bytes]
  | .html b => by simp [render, renderK, events, Ev.bytes]
  | .link false d ti kids => by
    have := renderL_events kids
    simp only [renderL] at this
    simp only [render, renderK, events, List.flatMap_cons, List.flatMap_append, List.flatMap_nil, List.append_nil, Ev.bytes,
      this, List.append_assoc]
  | .link true d ti kids => by simp [render, renderK, events, Ev.bytes]
theorem renderL_events : ∀ ns : List Inl, renderL ns = (eventsL ns).flatMap Ev.bytes
  | [] => by simp [renderL, renderKL, eventsL]
  | n :: ns => by
    have h1 := render_events n
    have h2 := renderL_events ns
    simp only [render, renderL] at h1 h2
    simp [renderL, renderKL, eventsL, h1, h2]
end

mutual
theorem events_neutral : ∀ (n : Inl) (d : Nat) (rest : List Ev), balGo d (events n ++ rest) = balGo d rest
  | .text b, d, rest => by simp [events, balGo]
  | .soft, d, rest => by simp [events, balGo]
  | .hard, d, rest => by simp [events, balGo]
  | .html b, d, rest => by simp [events, balGo]
  | .link false _ _ kids, d, rest => by
    simp only [events, List.cons_append, List.append_assoc, balGo, eventsL_neutral kids, List.nil_append]
  | .link true _ _ kids, d, rest => by simp [events, balGo]
theorem eventsL_neutral : ∀ (ns : List Inl) (d : Nat) (rest : List Ev), balGo d (eventsL ns ++ rest) = balGo d rest
  | [], d, rest => by simp [eventsL]
  | n :: ns, d, rest => by simp [eventsL, List.append_assoc, events_neutral n, eventsL_neutral ns]
end

theorem eventsL_balanced (ns : List Inl) : balGo 0 (eventsL ns) = true := by
  have := eventsL_neutral ns 0 []
  simpa [balGo] using this

/-! ### links are never nested in links -/

theorem hasLinkL_append (a b : List Inl) : hasLinkL (a ++ b) = (hasLinkL a || hasLinkL b) := by
  induction a with
  | nil => simp [hasLinkL]
  | cons n ns ih => simp [hasLinkL, ih, Bool.or_assoc]

theorem noNestedL_append (a b : List Inl) : noNestedL (a ++ b) = (noNestedL a && noNestedL b) := by
  induction a with
  | nil => simp [noNestedL]
  | cons n ns ih => simp [noNestedL, ih, Bool.and_assoc]

def blocked (e : BEnt) : Bool := e.image || !e.active
def allBlocked (es : List BEnt) : Bool := es.all blocked

/-- `la` = a link occurs in the nodes of the more recent entries.  Every entry's nodes are free of nested links, and
    an entry that has a link somewhere behind its bracket is an image opener or inactive. -/
def okEnts : Bool → List BEnt → Bool
  | _, [] => true
  | la, e :: below =>
    noNestedL e.after && (!(la || hasLinkL e.after) || blocked e) && okEnts (la || hasLinkL e.after) below

def Inv (st : Stack) : Prop := noNestedL st.bot = true ∧ okEnts false st.ents = true

theorem okEnts_true_blocked : ∀ es, okEnts true es = true → allBlocked es = true := by
  intro es
  induction es with
  | nil => intro _; rfl
  | cons e t ih =>
    intro h
    simp only [okEnts, Bool.true_or, Bool.not_true, Bool.false_or, Bool.and_eq_true] at h
    simp only [allBlocked, List.all_cons, Bool.and_eq_true]
    exact ⟨h.1.2, ih h.2⟩

theorem okEnts_of_blocked : ∀ es la, okEnts la es = true → allBlocked es = true → okEnts true es = true := by
  intro es
  induction es with
  | nil => intro _ _ _; rfl
  | cons e t ih =>
    intro la h hb
    simp only [okEnts, Bool.and_eq_true] at h
    simp only [allBlocked, List.all_cons, Bool.and_eq_true] at hb
    simp only [okEnts, Bool.true_or, Bool.not_true, Bool.false_or, Bool.and_eq_true]
    exact ⟨⟨h.1.1, hb.1⟩, ih _ h.2 hb.2⟩

theorem okEnts_false : ∀ es la, okEnts la es = true → okEnts false es = true := by
  intro es
  induction es with
  | nil => intro _ _; rfl
  | cons e t ih =>
    intro la h
    simp only [okEnts, Bool.and_eq_true] at h
    simp only [okEnts, Bool.false_or, Bool.and_eq_true]
    refine ⟨⟨h.1.1, ?_⟩, ?_⟩
    · cases hl : hasLinkL e.after
      · simp
      · have := h.1.2; simp [hl] at this; simp [this]
    · cases hl : hasLinkL e.after
      · exact ih _ h.2
      · have := h.2; simp only [hl, Bool.or_true] at this; exact this

theorem blocked_deactivate (e : BEnt) : blocked (if e.image then e else { e with active := false }) = true := by
  cases hi : e.image <;> simp [blocked, hi]

theorem allBlocked_deactivate (es : List BEnt) : allBlocked (deactivate es) = true := by
  induction es with
  | nil => rfl
  | cons e t ih =>
    simp only [deactivate, List.map_cons, allBlocked, List.all_cons, Bool.and_eq_true]
    exact ⟨blocked_deactivate e, ih⟩

theorem okEnts_deactivate : ∀ es la, okEnts la es = true → okEnts la (deactivate es) = true := by
  intro es
  induction es with
  | nil => intro _ _; rfl
  | cons e t ih =>
    intro la h
    simp only [okEnts, Bool.and_eq_true] at h
    have ha : (if e.image then e else { e with active := false }).after = e.after := by
      cases e.image <;> rfl
    simp only [deactivate, List.map_cons, okEnts, ha, Bool.and_eq_true]
    refine ⟨⟨h.1.1, by simp [blocked_deactivate e]⟩, ?_⟩
    exact ih _ h.2

theorem push_inv (st : Stack) (n : Inl) (h : Inv st) (hn : noNested n = true)
    (hl : hasLink n = true → allBlocked st.ents = true) : Inv (st.push n) := by
  obtain ⟨h1, h2⟩ := h
  unfold Stack.push
  split
  · next he => exact ⟨by simp [noNestedL_append, noNestedL, h1, hn], by simpa [he] using h2⟩
  · next e es he =>
    refine ⟨h1, ?_⟩
    rw [he] at h2 hl
    simp only [okEnts, Bool.false_or, Bool.and_eq_true] at h2 ⊢
    simp only [hasLinkL_append, hasLinkL, Bool.or_false, noNestedL_append, noNestedL, Bool.and_true, Bool.and_eq_true]
    cases hln : hasLink n
    · simp only [Bool.or_false]
      exact ⟨⟨⟨h2.1.1, hn⟩, h2.1.2⟩, h2.2⟩
    · have hb := hl hln
      simp only [allBlocked, List.all_cons, Bool.and_eq_true] at hb
      simp only [Bool.or_true, Bool.not_true, Bool.false_or]
      exact ⟨⟨⟨h2.1.1, hn⟩, hb.1⟩, okEnts_of_blocked _ _ h2.2 hb.2⟩

theorem push_ents_flags (st : Stack) (n : Inl) : allBlocked (st.push n).ents = allBlocked st.ents := by
  unfold Stack.push
  split
  · next he => simp [he]
  · next e es he => simp [he, allBlocked, blocked]

theorem foldPush_inv : ∀ (ns : List Inl) (st : Stack), Inv st → noNestedL ns = true →
    (hasLinkL ns = true → allBlocked st.ents = true) → Inv (ns.foldl (fun s n => s.push n) st) := by
  intro ns
  induction ns with
  | nil => intro st h _ _; exact h
  | cons n t ih =>
    intro st h hn hl
    simp only [noNestedL, Bool.and_eq_true] at hn
    simp only [hasLinkL, Bool.or_eq_true] at hl
    simp only [List.foldl_cons]
    apply ih _ (push_inv st n h hn.1 (fun x => hl (Or.inl x))) hn.2
    intro x
    rw [push_ents_flags]
    exact hl (Or.inr x)

theorem popText_inv (st : Stack) (h : Inv st) : Inv st.popText := by
  unfold Stack.popText
  split
  · exact h
  · next e es he =>
    obtain ⟨h1, h2⟩ := h
    rw [he] at h2
    simp only [okEnts, Bool.false_or, Bool.and_eq_true] at h2
    have hbelow : Inv ⟨st.bot, es⟩ := ⟨h1, okEnts_false _ _ h2.2⟩
    have hopen : Inv ((Stack.mk st.bot es).push (openerText e.image)) :=
      push_inv _ _ hbelow (by cases e.image <;> simp [openerText, noNested]) (by cases e.image <;> simp [openerText, hasLink])
    apply foldPush_inv _ _ hopen h2.1.1
    intro hl
    rw [push_ents_flags]
    have := h2.2
    simp only [hl] at this
    exact okEnts_true_blocked _ this

theorem text_push_inv (st : Stack) (b : Bytes) (h : Inv st) : Inv (st.push (.text b)) :=
  push_inv st _ h (by simp [noNested]) (by simp [hasLink])

theorem stepAt_inv (dv : Dev) (src : Bytes) (c : UInt8) (t : Bytes) (st : Stack) (h : Inv st) : Inv (stepAt dv src c t st).1 := by
  unfold stepAt
  split
  · split
    · split
      · exact push_inv st _ h (by simp [noNested]) (by simp [hasLink])
      · split
        · exact text_push_inv st _ h
        · exact text_push_inv st _ h
    · exact text_push_inv st _ h
  · split
    · exact push_inv st _ h (by simp [noNested]) (by simp [hasLink])
    · split
      · simp only
        split
        · split
          · split <;> exact push_inv st _ h (by simp [noNested]) (by simp [hasLink])
          · exact text_push_inv st _ h
        · exact text_push_inv st _ h
      · split
        · split
          · exact push_inv st _ h (by simp [noNested]) (by simp [hasLink])
          · exact text_push_inv st _ h
        · split
          · split
            · split
              · exact ⟨h.1, by simp [okEnts, noNestedL, hasLinkL, h.2]⟩
              · exact text_push_inv st _ h
            · exact text_push_inv st _ h
          · split
            · exact ⟨h.1, by simp [okEnts, noNestedL, hasLinkL, h.2]⟩
            · split
              · split
                · exact text_push_inv st _ h
                · next e below he =>
                  split
                  · exact text_push_inv _ _ (popText_inv st h)
                  · next hact =>
                    split
                    · next dest title k htl =>
                      obtain ⟨h1, h2⟩ := h
                      rw [he] at h2
                      simp only [okEnts, Bool.false_or, Bool.and_eq_true] at h2
                      have hact' : e.active = true := by simpa using hact
                      cases hi : e.image
                      · -- a link: its children contain no link, everything below is deactivated
                        have hnl : hasLinkL e.after = false := by
                          have := h2.1.2
                          cases hl : hasLinkL e.after
                          · rfl
                          · simp [hl, blocked, hi, hact'] at this
                        simp only [Bool.false_eq_true, if_false]
                        apply push_inv
                        · exact ⟨h1, okEnts_deactivate _ _ (okEnts_false _ _ h2.2)⟩
                        · simp [noNested, hnl, h2.1.1]
                        · intro _; exact allBlocked_deactivate below
                      · -- an image
                        simp only [if_true]
                        apply push_inv
                        · exact ⟨h1, okEnts_false _ _ h2.2⟩
                        · simp [noNested, h2.1.1]
                        · intro hl
                          simp only [hasLink] at hl
                          have := h2.2
                          simp only [hl] at this
                          exact okEnts_true_blocked _ this
                    · exact text_push_inv _ _ (popText_inv st h)
              · exact text_push_inv st _ h

theorem scan_inv (dv : Dev) (src : Bytes) : ∀ (s : Bytes) (k : Nat) (st : Stack), Inv st → Inv (scan dv src k s st) := by
  intro s
  induction s with
  | nil => intro k st h; simpa [scan] using h
  | cons c t ih =>
    intro k st h
    cases k with
    | zero => rw [scan]; exact ih _ _ (stepAt_inv dv src c t st h)
    | succ k => rw [scan]; exact ih k st h

theorem flattenEnts_noNested : ∀ (es : List BEnt) (la : Bool), okEnts la es = true → noNestedL (flattenEnts es) = true := by
  intro es
  induction es with
  | nil => intro _ _; rfl
  | cons e t ih =>
    intro la h
    simp only [okEnts, Bool.and_eq_true] at h
    simp only [flattenEnts, noNestedL_append, noNestedL, Bool.and_eq_true]
    refine ⟨ih _ h.2, ?_, h.1.1⟩
    cases e.image <;> simp [openerText, noNested]

/-- for every setting of the switches, in particular with and without the reference definition -/
theorem parseD_noNested (dv : Dev) (inl : Bytes) : noNestedL (parseD dv inl) = true := by
  have h : Inv (scan dv inl 0 inl ⟨[], []⟩) := scan_inv dv inl inl 0 ⟨[], []⟩ ⟨rfl, rfl⟩
  simp only [parseD, Stack.flatten, noNestedL_append, Bool.and_eq_true]
  exact ⟨h.1, flattenEnts_noNested _ _ h.2⟩

theorem parse_noNested (inl : Bytes) : noNestedL (parse inl) = true := parseD_noNested Dev.spec inl

end GM.Proof.CMLink
