/-
  GM.Proof.ConvertHWFDrv — the CLOSE DISCIPLINE of the block driver with AutoHeadingID (`MH`, GM.Model.ConvertH):
  invariant `J h s` of the two-layer state
    * the node store is a well-formed tree (`TreeWF`);
    * every child edge to a Heading node leads to a node that HAS ITS ATTRIBUTE (its parser's Close ran with the option)
      or is still on the open-block stack;
    * a Heading node on the stack was put there by a heading parser; the nodes on the stack exist.
  `HJ m`: `m` keeps `J`, never loses an attribute (`AM`), never shrinks the store or changes a kind (`KS`).
  Every function of the driver copy is `HJ` (`parseBlocksH_hj`).
-/
import GM.Proof.ConvertHWFClose
import GM.Proof.ConvertHSim

namespace GM.ConvertH
open GM GM.Text GM.Blocks

def hasA (h : HS) (c : Nat) : Prop := (nodeAttrs h c).isSome = true

def AM (h h' : HS) : Prop := ∀ c, hasA h c → hasA h' c

theorem AM.refl (h : HS) : AM h h := fun _ x => x
theorem AM.trans {a b c : HS} (h1 : AM a b) (h2 : AM b c) : AM a c := fun x hx => h2 x (h1 x hx)

structure KS (s s' : St) : Prop where
  len : s.nodes.length ≤ s'.nodes.length
  kind : ∀ i, i < s.nodes.length → (ndx s' i).kind = (ndx s i).kind

theorem KS.refl (s : St) : KS s s := ⟨Nat.le_refl _, fun _ _ => rfl⟩
theorem KS.trans {a b c : St} (h1 : KS a b) (h2 : KS b c) : KS a c :=
  ⟨Nat.le_trans h1.len h2.len, fun i hi => (h2.kind i (Nat.lt_of_lt_of_le hi h1.len)).trans (h1.kind i hi)⟩
theorem StepR.ks {s s' : St} (h : StepR s s') : KS s s' := ⟨h.len, h.kind⟩

structure J (h : HS) (s : St) : Prop where
  wf : TreeWF s
  j1 : ∀ p c, c ∈ (ndx s p).children → (ndx s c).kind = .heading → hasA h c ∨ ∃ b ∈ s.pc.opened, b.node = c
  j5 : ∀ b ∈ s.pc.opened, (ndx s b.node).kind = .heading → BP.isHeadingParser b.bp = true
  ov : ∀ b ∈ s.pc.opened, b.node < s.nodes.length

theorem J.step {h : HS} {s s' : St} (j : J h s) (st : StepR s s') : J h s' := by
  obtain ⟨w', e⟩ := st.wf j.wf
  refine ⟨w', fun p c hc hk => ?_, fun b hb hk => ?_, fun b hb => ?_⟩
  · have hc0 := e p c hc hk
    have hv := (j.wf.edge p c hc0).1
    rw [st.kind c hv] at hk
    rw [st.opened]
    exact j.j1 p c hc0 hk
  · rw [st.opened] at hb
    rw [st.kind _ (j.ov b hb)] at hk
    exact j.j5 b hb hk
  · rw [st.opened] at hb
    exact Nat.lt_of_lt_of_le (j.ov b hb) st.len

theorem J.mono {h h' : HS} {s : St} (j : J h s) (a : AM h h') : J h' s :=
  ⟨j.wf, fun p c hc hk => (j.j1 p c hc hk).imp (a c) id, j.j5, j.ov⟩

/-! ### inversion in `MH` -/

theorem mh_bind_ok {α β} {m : MH α} {f : α → MH β} {h : HS} {s : St} {b : β} {h'' : HS} {s'' : St}
    (e : (m >>= f) h s = .ok ((b, h''), s'')) :
    ∃ a h' s', m h s = .ok ((a, h'), s') ∧ f a h' s' = .ok ((b, h''), s'') := by
  rw [mh_bind_apply] at e
  cases hm : m h s with
  | error x => rw [hm] at e; cases e
  | ok p =>
    obtain ⟨⟨a, h'⟩, s'⟩ := p
    rw [hm] at e
    exact ⟨a, h', s', rfl, e⟩

theorem up_ok {α} {x : M α} {h : HS} {s : St} {a : α} {h' : HS} {s' : St} (e : (up x) h s = .ok ((a, h'), s')) :
    h' = h ∧ x s = .ok (a, s') := by
  rw [up_apply] at e
  cases hx : x s with
  | error y => rw [hx] at e; cases e
  | ok p => rw [hx] at e; cases e; exact ⟨rfl, rfl⟩

/-! ### the judgment -/

structure HJ {α : Type} (m : MH α) : Prop where
  h : ∀ h s a h' s', J h s → m h s = .ok ((a, h'), s') → J h' s' ∧ AM h h' ∧ KS s s'

theorem HJ.pure {α} (a : α) : HJ (Pure.pure a : MH α) :=
  ⟨fun h s _ _ _ j e => by cases e; exact ⟨j, AM.refl h, KS.refl s⟩⟩

theorem HJ.throw {α} (e : Panic) : HJ (throw e : MH α) := ⟨fun _ _ _ _ _ _ e => by cases e⟩

theorem HJ.bind {α β} {m : MH α} {f : α → MH β} (hm : HJ m) (hf : ∀ a, HJ (f a)) : HJ (m >>= f) := by
  constructor
  intro h s b h'' s'' j e
  obtain ⟨a, h', s', e1, e2⟩ := mh_bind_ok e
  obtain ⟨j1, a1, k1⟩ := hm.h h s a h' s' j e1
  obtain ⟨j2, a2, k2⟩ := (hf a).h h' s' b h'' s'' j1 e2
  exact ⟨j2, a1.trans a2, k1.trans k2⟩

theorem HJ.ite {α} {c : Prop} [Decidable c] {a b : MH α} (ha : HJ a) (hb : HJ b) : HJ (if c then a else b) := by
  split <;> assumption

theorem HJ.up {α} {x : M α} (hx : Stp x) : HJ (up x) := by
  constructor
  intro h s a h' s' j e
  obtain ⟨eh, ex⟩ := up_ok e
  subst eh
  have st := hx.h s a s' ex
  exact ⟨j.step st, AM.refl _, st.ks⟩

/-! ### the option's code in Close never loses an attribute and attaches one to its node -/

theorem lookup_setNodeAttr : ∀ (l : List (Nat × List Attr.PAttr)) (node : Nat) (a : Attr.PAttr) (c : Nat),
    (c = node ∨ (l.lookup c).isSome = true) → ((setNodeAttr l node a).lookup c).isSome = true
  | [], node, a, c, h => by
    rcases h with rfl | h
    · simp [setNodeAttr, List.lookup]
    · simp [List.lookup] at h
  | (n, as) :: rest, node, a, c, h => by
    unfold setNodeAttr
    by_cases hn : (n == node) = true
    · have e : n = node := by simpa using hn
      simp only [hn, if_true, List.lookup]
      by_cases hc : (c == n) = true
      · simp [hc]
      · have hc' : (c == n) = false := by simpa using hc
        simp only [hc']
        rcases h with rfl | h
        · exact absurd (by simpa using e.symm) hc
        · simpa [List.lookup, hc'] using h
    · have hn' : (n == node) = false := by simpa using hn
      simp only [hn', Bool.false_eq_true, if_false, List.lookup]
      by_cases hc : (c == n) = true
      · simp [hc]
      · have hc' : (c == n) = false := by simpa using hc
        simp only [hc']
        apply lookup_setNodeAttr rest node a c
        rcases h with rfl | h
        · exact Or.inl rfl
        · right; simpa [List.lookup, hc'] using h

theorem genTail_am (node : Nat) (line : Bytes) (h : HS) (s : St) (h' : HS) (s' : St)
    (e : (do
      let h ← getH
      match Ids.generate h.ids line true with
      | none => throw Panic.loop
      | some (id, tbl) =>
        setH { ids := tbl, attrs := setNodeAttr h.attrs node (Attr.nameId, .bytes id),
               ops := h.ops ++ [.gen line true], gens := h.gens ++ [{ node := node, text := line, id := id }] } : MH Unit) h s
        = .ok (((), h'), s')) : s' = s ∧ AM h h' ∧ hasA h' node := by
  obtain ⟨hh, h3, s3, e3, k3⟩ := mh_bind_ok e
  have e3' : h = hh ∧ h = h3 ∧ s = s3 := by cases e3; exact ⟨rfl, rfl, rfl⟩
  obtain ⟨a1, a2, a3⟩ := e3'
  subst a1; subst a2; subst a3
  cases hg : Ids.generate h.ids line true with
  | none => simp only [hg] at k3; cases k3
  | some r =>
    obtain ⟨id, tbl⟩ := r
    simp only [hg] at k3
    cases k3
    refine ⟨rfl, fun c hc => ?_, ?_⟩
    · exact lookup_setNodeAttr _ _ _ c (Or.inr hc)
    · exact lookup_setNodeAttr _ _ _ node (Or.inl rfl)

theorem generateAutoHeadingID_am (node : Nat) (h : HS) (s : St) (h' : HS) (s' : St)
    (e : generateAutoHeadingID node h s = .ok (((), h'), s')) : s' = s ∧ AM h h' ∧ hasA h' node := by
  unfold generateAutoHeadingID at e
  obtain ⟨n, h1, s1, e1, k1⟩ := mh_bind_ok e
  obtain ⟨eh1, ex1⟩ := up_ok e1
  obtain ⟨_, es1⟩ := getNode_ok ex1
  subst eh1; subst es1
  dsimp only at k1
  cases hl : n.lines.getLast? with
  | none =>
    simp only [hl] at k1
    obtain ⟨line, h2, s2, e2, k2⟩ := mh_bind_ok k1
    cases e2
    exact genTail_am node _ _ _ h' s' k2
  | some seg =>
    simp only [hl] at k1
    obtain ⟨src, h3, s3, e3, k3⟩ := mh_bind_ok k1
    obtain ⟨eh3, ex3⟩ := up_ok e3
    cases ex3
    subst eh3
    obtain ⟨line, h4, s4, e4, k4⟩ := mh_bind_ok k3
    obtain ⟨eh4, ex4⟩ := up_ok e4
    obtain ⟨_, es4⟩ := liftE_ok ex4
    subst eh4; subst es4
    exact genTail_am node _ _ _ h' s' k4

theorem autoIdClose_am (node : Nat) (h : HS) (s : St) (h' : HS) (s' : St)
    (e : autoIdClose node h s = .ok (((), h'), s')) : s' = s ∧ AM h h' ∧ hasA h' node := by
  unfold autoIdClose at e
  obtain ⟨hh, h1, s1, e1, k1⟩ := mh_bind_ok e
  have e1' : h = hh ∧ h = h1 ∧ s = s1 := by cases e1; exact ⟨rfl, rfl, rfl⟩
  obtain ⟨a1, a2, a3⟩ := e1'
  subst a1; subst a2; subst a3
  cases hn : nodeAttrs h node with
  | none =>
    have : attrLookup ((nodeAttrs h node).getD []) Attr.nameId = none := by rw [hn]; rfl
    rw [this] at k1
    exact generateAutoHeadingID_am node h s h' s' k1
  | some as =>
    have hA : hasA h node := by unfold hasA; rw [hn]; rfl
    cases hl : attrLookup ((nodeAttrs h node).getD []) Attr.nameId with
    | none => rw [hl] at k1; exact generateAutoHeadingID_am node h s h' s' k1
    | some v =>
      rw [hl] at k1
      cases v <;> (simp only at k1; cases k1; exact ⟨rfl, fun c hc => hc, hA⟩)

/-- `bp.Close` with the option: a step of the store, attributes only grow, and a heading parser's node has its attribute -/
theorem bpCloseH_spec (bp : BP) (node : Nat) (h : HS) (s : St) (h' : HS) (s' : St)
    (e : bpCloseH true bp node h s = .ok (((), h'), s')) :
    StepR s s' ∧ AM h h' ∧ (BP.isHeadingParser bp = true → hasA h' node) := by
  unfold bpCloseH at e
  obtain ⟨u, h1, s1, e1, k1⟩ := mh_bind_ok e
  obtain ⟨eh1, ex1⟩ := up_ok e1
  subst eh1
  have st := (bpClose_stp bp node).h s u s1 ex1
  cases hp : BP.isHeadingParser bp with
  | false =>
    simp only [hp, Bool.and_false, Bool.false_eq_true, if_false] at k1
    cases k1
    exact ⟨st, AM.refl _, fun x => by cases x⟩
  | true =>
    simp only [hp, Bool.and_self, if_true] at k1
    obtain ⟨es, a, b⟩ := autoIdClose_am node h1 s1 h' s' k1
    subst es
    exact ⟨st, a, fun _ => b⟩

theorem bpCloseH_hj (bp : BP) (node : Nat) : HJ (bpCloseH true bp node) := by
  constructor
  intro h s a h' s' j e
  obtain ⟨st, am, _⟩ := bpCloseH_spec bp node h s h' s' e
  exact ⟨(j.step st).mono am, am, st.ks⟩

/-! ### closeBlocks -/

/-- a block of the stack is done: if its node is a Heading built by a heading parser, the node has its attribute or is in
    no child list -/
def Done (h : HS) (s : St) (b : Block) : Prop :=
  (ndx s b.node).kind = .heading → BP.isHeadingParser b.bp = true →
    hasA h b.node ∨ ∀ p, b.node ∉ (ndx s p).children

theorem Done.stable {h h' : HS} {s s' : St} {b : Block} (d : Done h s b) (w : TreeWF s) (hv : b.node < s.nodes.length)
    (a : AM h h') (st : StepR s s') : Done h' s' b := by
  intro hk hp
  rw [st.kind _ hv] at hk
  rcases d hk hp with d | d
  · exact Or.inl (a _ d)
  · right
    intro p hc
    have := (st.wf w).2 p b.node hc (by rw [st.kind _ hv]; exact hk)
    exact d p this

/-- removing closed slots from the stack keeps the invariant -/
theorem J.remove {h : HS} {s : St} (j : J h s) (blocks' : List Block) (hsub : ∀ b ∈ blocks', b ∈ s.pc.opened)
    (hdone : ∀ b ∈ s.pc.opened, b ∉ blocks' → Done h s b) :
    J h { s with pc := { s.pc with opened := blocks' } } := by
  refine ⟨⟨j.wf.edge, j.wf.nodup, j.wf.root, j.wf.ne, j.wf.rootKind⟩, fun p c hc hk => ?_, fun b hb hk => j.j5 b (hsub b hb) hk,
    fun b hb => j.ov b (hsub b hb)⟩
  rcases j.j1 p c hc hk with ha | ⟨b, hb, rfl⟩
  · exact Or.inl ha
  · by_cases hin : b ∈ blocks'
    · exact Or.inr ⟨b, hin, rfl⟩
    · rcases hdone b hb hin hk (j.j5 b hb hk) with d | d
      · exact Or.inl d
      · exact absurd hc (d p)

theorem mem_of_dropLast {α} : ∀ (l : List α) (x : α), x ∈ l.dropLast → x ∈ l
  | [], _, h => by cases h
  | [_], _, h => by cases h
  | a :: b :: rest, x, h => by
    simp only [List.dropLast] at h
    rcases List.mem_cons.1 h with rfl | h
    · exact List.mem_cons_self ..
    · exact List.mem_cons_of_mem _ (mem_of_dropLast (b :: rest) x h)

theorem mem_dropLast_or_last {α} (l : List α) (x : α) (hx : x ∈ l) : x ∈ l.dropLast ∨ l.getLast? = some x := by
  induction l with
  | nil => cases hx
  | cons a rest ih =>
    cases rest with
    | nil =>
      rw [List.mem_singleton] at hx
      subst hx; right; rfl
    | cons b rest' =>
      rcases List.mem_cons.1 hx with rfl | hx
      · left; simp [List.dropLast]
      · rcases ih hx with h | h
        · left; simp only [List.dropLast]; exact List.mem_cons_of_mem _ h
        · right; simpa [List.getLast?_cons_cons] using h

theorem kindOf_ne_document (bp : BP) : BP.kindOf bp ≠ .document := by cases bp <;> simp [BP.kindOf]

theorem kindOf_heading (bp : BP) (h : BP.kindOf bp = .heading) : BP.isHeadingParser bp = true := by
  cases bp <;> simp [BP.kindOf] at h <;> rfl

/-- parser.go:1004-1008: `parent.AppendChild(parent, node)` and the push on the open-block stack, for a node `Open` has
    just answered -/
theorem push_spec (parent node : Nat) (bp : BP) (h : HS) (s s1 : St) (j : J h s) (hv : node < s.nodes.length)
    (hk : (ndx s node).kind = BP.kindOf bp) (e : appendChild parent node s = .ok ((), s1)) :
    J h { s1 with pc := { s1.pc with opened := s1.pc.opened ++ [{ node := node, bp := bp }] } } ∧ KS s s1 := by
  have op := appendChild_op parent node s s1 e
  have hn0 : node ≠ 0 := by
    intro e0; subst e0
    rw [j.wf.rootKind] at hk
    exact kindOf_ne_document bp hk.symm
  have w1 := op.wf j.wf hv hn0
  refine ⟨⟨⟨w1.edge, w1.nodup, w1.root, w1.ne, w1.rootKind⟩, fun p c hc hkc => ?_, fun b hb hkb => ?_, fun b hb => ?_⟩,
    ⟨Nat.le_of_eq op.len.symm, fun i _ => op.kind i⟩⟩
  · rcases op.edges p c hc with e1 | ⟨_, rfl⟩
    · have hkc' : (ndx s c).kind = .heading := by rw [← op.kind c]; exact hkc
      rcases j.j1 p c e1 hkc' with a | ⟨b, hb, rfl⟩
      · exact Or.inl a
      · exact Or.inr ⟨b, by simp only [op.pc]; exact List.mem_append_left _ hb, rfl⟩
    · exact Or.inr ⟨_, List.mem_append_right _ (List.mem_singleton.2 rfl), rfl⟩
  · simp only [op.pc] at hb
    have hkb' : (ndx s b.node).kind = .heading := by rw [← op.kind b.node]; exact hkb
    rcases List.mem_append.1 hb with hb | hb
    · exact j.j5 b hb hkb'
    · rw [List.mem_singleton] at hb
      subst hb
      exact kindOf_heading bp (by rw [← hk]; exact hkb')
  · simp only [op.pc] at hb
    show b.node < s1.nodes.length
    rw [op.len]
    rcases List.mem_append.1 hb with hb | hb
    · exact j.ov b hb
    · rw [List.mem_singleton] at hb
      subst hb
      exact hv

section
variable (pts : List PT) (hpts : ∀ pt ∈ pts, PTStp pt)
include hpts

theorem closeLoopH_spec (blocks : List Block) (to : Int) : ∀ (k : Nat) (h : HS) (s : St) (h' : HS) (s' : St),
    J h s → (∀ b ∈ blocks, b.node < s.nodes.length) →
    closeLoopH true pts blocks to k h s = .ok (((), h'), s') →
    J h' s' ∧ AM h h' ∧ StepR s s' ∧ ∀ j, j < k → ∀ b, blockAt blocks (to + j) = .ok b → Done h' s' b := by
  intro k
  induction k with
  | zero =>
    intro h s h' s' j _ e
    unfold closeLoopH at e
    cases e
    exact ⟨j, AM.refl _, StepR.refl _, fun _ hj => by omega⟩
  | succ k ih =>
    intro h s h' s' j hb e
    unfold closeLoopH at e
    obtain ⟨b, h1, s1, e1, k1⟩ := mh_bind_ok e
    obtain ⟨eh1, ex1⟩ := up_ok e1
    obtain ⟨hbk, es1⟩ := liftE_ok ex1
    subst eh1; subst es1
    obtain ⟨n, h2, s2, e2, k2⟩ := mh_bind_ok k1
    obtain ⟨eh2, ex2⟩ := up_ok e2
    obtain ⟨_, es2⟩ := getNode_ok ex2
    subst eh2; subst es2
    have hbm : b ∈ blocks := by
      unfold blockAt at hbk
      split at hbk
      · cases hbk
      · split at hbk
        · rename_i hget
          cases hbk
          exact List.mem_of_getElem? hget
        · cases hbk
    -- the part behind the optional transformParagraph
    have rest : ∀ (h3 : HS) (s3 : St), J h3 s3 → (∀ b ∈ blocks, b.node < s3.nodes.length) →
        (do
          let n5 ← up (getNode b.node)
          if n5.parent.isSome = true then do
            bpCloseH true b.bp b.node
            closeLoopH true pts blocks to k
          else closeLoopH true pts blocks to k : MH Unit) h3 s3 = .ok (((), h'), s') →
        J h' s' ∧ AM h3 h' ∧ StepR s3 s' ∧ ∀ j, j < k + 1 → ∀ b, blockAt blocks (to + j) = .ok b → Done h' s' b := by
      intro h3 s3 j3 hb3 k3
      obtain ⟨n5, h5, s5, e5, k5⟩ := mh_bind_ok k3
      obtain ⟨eh5, ex5⟩ := up_ok e5
      obtain ⟨en5, es5⟩ := getNode_ok ex5
      subst eh5; subst es5
      have hv3 : b.node < s5.nodes.length := hb3 b hbm
      have c6 : ∃ h6 s6, AM h5 h6 ∧ StepR s5 s6 ∧ Done h6 s6 b ∧
          closeLoopH true pts blocks to k h6 s6 = .ok (((), h'), s') := by
        split at k5
        · obtain ⟨u6, h6, s6, e6, k6⟩ := mh_bind_ok k5
          obtain ⟨st, am, ha⟩ := bpCloseH_spec b.bp b.node h5 s5 h6 s6 e6
          exact ⟨h6, s6, am, st, fun _ hp => Or.inl (ha hp), k6⟩
        · rename_i hpar
          refine ⟨h5, s5, AM.refl _, StepR.refl _, fun _ _ => Or.inr (fun p hc => ?_), k5⟩
          have := (j3.wf.edge p b.node hc).2
          rw [en5] at hpar
          simp only [ndx] at this
          rw [this] at hpar
          exact hpar rfl
      obtain ⟨h6, s6, a6, st6, d6, k6⟩ := c6
      have j6 : J h6 s6 := (j3.step st6).mono a6
      have hb6 : ∀ b ∈ blocks, b.node < s6.nodes.length :=
        fun b hb' => Nat.lt_of_lt_of_le (hb3 b hb') st6.len
      obtain ⟨j', a', st', d'⟩ := ih h6 s6 h' s' j6 hb6 k6
      refine ⟨j', a6.trans a', st6.trans st', fun jj hjj b' hb' => ?_⟩
      by_cases hjk : jj = k
      · subst hjk
        rw [hbk] at hb'
        cases hb'
        exact d6.stable j6.wf (Nat.lt_of_lt_of_le hv3 st6.len) a' st'
      · exact d' jj (by omega) b' hb'
    dsimp only at k2
    split at k2
    · obtain ⟨_, h4, s4, e4, k4⟩ := mh_bind_ok k2
      obtain ⟨eh4, ex4⟩ := up_ok e4
      subst eh4
      have st4 := (transformParagraph_stp pts hpts b.node).h _ _ _ ex4
      obtain ⟨r1, r2, r3, r4⟩ := rest h4 s4 (j.step st4) (fun b hb' => Nat.lt_of_lt_of_le (hb b hb') st4.len) k4
      exact ⟨r1, r2, st4.trans r3, r4⟩
    · exact rest h2 s2 j hb k2

theorem closeBlocksH_spec (frm to : Int) (h : HS) (s : St) (h' : HS) (s' : St) (j : J h s)
    (e : closeBlocksH true pts frm to h s = .ok (((), h'), s')) :
    J h' s' ∧ AM h h' ∧ KS s s' ∧ (∀ b ∈ s'.pc.opened, b ∈ s.pc.opened) ∧
      (frm = (s.pc.opened.length : Int) - 1 → to = 0 → s'.pc.opened = []) := by
  unfold closeBlocksH at e
  obtain ⟨pc, h1, s1, e1, k1⟩ := mh_bind_ok e
  obtain ⟨eh1, ex1⟩ := up_ok e1
  obtain ⟨epc, es1⟩ := getPc_ok ex1
  subst eh1; subst es1; subst epc
  obtain ⟨u2, h2, s2, e2, k2⟩ := mh_bind_ok k1
  obtain ⟨j2, a2, st2, d2⟩ := closeLoopH_spec pts hpts s1.pc.opened to _ h1 s1 h2 s2 j j.ov e2
  dsimp only at k2
  -- what the new stack is
  have hsl : ∃ blocks', up (modPc fun pc => { pc with opened := blocks' }) h2 s2 = .ok (((), h'), s') ∧ 0 ≤ to ∧
      (∀ b ∈ blocks', b ∈ s1.pc.opened) ∧
      (∀ (i : Nat) (b : Block), s1.pc.opened[i]? = some b → b ∉ blocks' → to ≤ i ∧ (i : Int) ≤ frm) ∧
      (frm = (s1.pc.opened.length : Int) - 1 → to = 0 → blocks' = []) := by
    split at k2
    · rename_i hfl
      obtain ⟨blocks', h3, s3, e3, k3⟩ := mh_bind_ok k2
      obtain ⟨eh3, ex3⟩ := up_ok e3
      obtain ⟨hs, es3⟩ := liftE_ok ex3
      subst eh3; subst es3
      obtain ⟨_, h0, h1', hr⟩ := closeSlice_ok hs
      have hfl' : frm = (s1.pc.opened.length : Int) - 1 := by simpa using hfl
      refine ⟨blocks', k3, h0, fun b hb => ?_, fun i b hi hn => ?_, fun _ ht => by rw [hr, ht]; simp⟩
      · rw [hr] at hb
        exact List.mem_of_mem_drop (List.mem_of_mem_take hb)
      · have hil : i < s1.pc.opened.length := (List.getElem?_eq_some_iff.1 hi).1
        refine ⟨?_, by omega⟩
        by_cases hlt : (i : Int) < to
        · exfalso; apply hn
          rw [hr]
          simp only [Int.toNat_zero, List.drop_zero, Int.sub_zero]
          rw [List.mem_iff_getElem?]
          exact ⟨i, by rw [List.getElem?_take]; simp [show i < to.toNat by omega, hi]⟩
        · omega
    · rename_i hfl
      obtain ⟨a, h4, s4, e4, k4⟩ := mh_bind_ok k2
      obtain ⟨eh4', ex4'⟩ := up_ok e4
      obtain ⟨hsa, es4⟩ := liftE_ok ex4'
      subst eh4'; subst es4
      obtain ⟨b, h5, s5, e5, k5⟩ := mh_bind_ok k4
      obtain ⟨eh5, ex5⟩ := up_ok e5
      obtain ⟨hsb, es5⟩ := liftE_ok ex5
      subst eh5; subst es5
      obtain ⟨blocks', h6, s6, e6, k6⟩ := mh_bind_ok k5
      have e6' : a ++ b = blocks' ∧ h5 = h6 ∧ s5 = s6 := by cases e6; exact ⟨rfl, rfl, rfl⟩
      obtain ⟨eb, eh6, es6⟩ := e6'
      subst eb; subst eh6; subst es6
      obtain ⟨_, a0, a1, ar⟩ := closeSlice_ok hsa
      obtain ⟨b0, b1, b2, br⟩ := closeSlice_ok hsb
      refine ⟨a ++ b, k6, a0, fun x hx => ?_, fun i x hi hn => ?_, fun hf _ => absurd (by simpa using hf) hfl⟩
      · rcases List.mem_append.1 hx with hx | hx
        · rw [ar] at hx; exact List.mem_of_mem_drop (List.mem_of_mem_take hx)
        · rw [br] at hx; exact List.mem_of_mem_drop (List.mem_of_mem_take hx)
      · have hil : i < s1.pc.opened.length := (List.getElem?_eq_some_iff.1 hi).1
        by_cases hlt : (i : Int) < to
        · exfalso; apply hn
          apply List.mem_append_left
          rw [ar]
          simp only [Int.toNat_zero, List.drop_zero, Int.sub_zero]
          rw [List.mem_iff_getElem?]
          exact ⟨i, by rw [List.getElem?_take]; simp [show i < to.toNat by omega, hi]⟩
        · by_cases hgt : frm < (i : Int)
          · exfalso; apply hn
            apply List.mem_append_right
            rw [br]
            rw [List.mem_iff_getElem?]
            refine ⟨i - (frm + 1).toNat, ?_⟩
            rw [List.getElem?_take, List.getElem?_drop]
            have : (frm + 1).toNat + (i - (frm + 1).toNat) = i := by omega
            rw [this]
            simp [show i - (frm + 1).toNat < ((s1.pc.opened.length : Int) - (frm + 1)).toNat by omega, hi]
          · omega
  obtain ⟨blocks', k3, hto, hsub, hrem, hemp⟩ := hsl
  obtain ⟨eh4, ex4⟩ := up_ok k3
  have es' := modPc_ok ex4
  subst eh4
  have hop2 : s2.pc.opened = s1.pc.opened := st2.opened
  have jr := j2.remove blocks' (fun b hb => by rw [hop2]; exact hsub b hb) (fun b hb hn => by
    rw [hop2] at hb
    obtain ⟨i, hi⟩ := List.mem_iff_getElem?.1 hb
    obtain ⟨h1', h2'⟩ := hrem i b hi hn
    have hi' := hi
    refine d2 (i - to.toNat) (by omega) b ?_
    unfold blockAt
    have e1 : ¬ (to + ((i - to.toNat : Nat) : Int) < 0) := by omega
    have e2 : (to + ((i - to.toNat : Nat) : Int)).toNat = i := by omega
    simp only [e1, if_false, e2, hi])
  rw [es']
  exact ⟨jr, a2, ⟨st2.len, st2.kind⟩, fun b hb => hsub b hb, hemp⟩

theorem closeBlocksH_hj (frm to : Int) : HJ (closeBlocksH true pts frm to) :=
  ⟨fun h s _ h' s' j e => by
    obtain ⟨a, b, c, _, _⟩ := closeBlocksH_spec pts hpts frm to h s h' s' j e
    exact ⟨a, b, c⟩⟩

/-- RequireParagraph (parser.go:985-997): the last opened block is closed, popped (it is checked to be a Paragraph: not
    a Heading) and handed to the paragraph transformers -/
theorem requireParaH_spec (parent : Nat) (last : Option Nat) (lastBlock : Option Block)
    (h : HS) (s : St) (a : Bool) (h' : HS) (s' : St) (j : J h s) (hl : s.pc.opened.getLast? = lastBlock)
    (e : requireParaH true pts parent last lastBlock h s = .ok ((a, h'), s')) :
    J h' s' ∧ AM h h' ∧ KS s s' ∧ ∀ b ∈ s'.pc.opened, b ∈ s.pc.opened := by
  unfold requireParaH at e
  obtain ⟨pn, h1, s1, e1, k1⟩ := mh_bind_ok e
  obtain ⟨eh1, ex1⟩ := up_ok e1
  obtain ⟨_, es1⟩ := getNode_ok ex1
  subst eh1; subst es1
  split at k1
  · cases lastBlock with
    | none => cases k1
    | some lb =>
      simp only at k1
      obtain ⟨u2, h2, s2, e2, k2⟩ := mh_bind_ok k1
      obtain ⟨st2, a2, _⟩ := bpCloseH_spec lb.bp lb.node h1 s1 h2 s2 e2
      have j2 : J h2 s2 := (j.step st2).mono a2
      obtain ⟨pc3, h3, s3, e3, k3⟩ := mh_bind_ok k2
      obtain ⟨eh3, ex3⟩ := up_ok e3
      obtain ⟨epc, es3⟩ := getPc_ok ex3
      subst eh3; subst es3; subst epc
      split at k3
      · cases k3
      · obtain ⟨u4, h4, s4, e4, k4⟩ := mh_bind_ok k3
        obtain ⟨eh4, ex4⟩ := up_ok e4
        have es4 := modPc_ok ex4
        subst eh4
        obtain ⟨n5, h5, s5, e5, k5⟩ := mh_bind_ok k4
        obtain ⟨eh5, ex5⟩ := up_ok e5
        obtain ⟨en5, es5⟩ := getNode_ok ex5
        subst eh5; subst es5
        split at k5
        · cases k5
        · rename_i hkind
          have hpk : (ndx s5 lb.node).kind = .paragraph := by
            rw [en5] at hkind
            simpa [ndx] using hkind
          have hlast : s3.pc.opened.getLast? = some lb := by rw [st2.opened]; exact hl
          have j4' := j2.remove s3.pc.opened.dropLast (fun b hb => mem_of_dropLast _ b hb) (fun b hb hn hk _ => by
            exfalso
            rcases mem_dropLast_or_last _ b hb with hd | hd
            · exact hn hd
            · rw [hlast] at hd
              cases hd
              rw [es4] at hpk
              have : (ndx s3 lb.node).kind = .paragraph := hpk
              rw [this] at hk
              cases hk)
          rw [← es4] at j4'
          obtain ⟨eh6, ex6⟩ := up_ok k5
          subst eh6
          have st6 := (transformParagraph_stp pts hpts lb.node).h _ _ _ ex6
          have k4' : KS s3 s5 := by rw [es4]; exact ⟨Nat.le_refl _, fun _ _ => rfl⟩
          refine ⟨j4'.step st6, a2, (st2.ks.trans k4').trans st6.ks, fun b hb => ?_⟩
          rw [st6.opened, es4] at hb
          rw [← st2.opened]
          exact mem_of_dropLast _ b hb
  · cases k1
    exact ⟨j, AM.refl _, KS.refl _, fun _ hb => hb⟩

/-- the node `Open` has answered exists and has the kind its parser builds -/
def PN (node : Nat) (bp : BP) (s : St) : Prop := node < s.nodes.length ∧ (ndx s node).kind = BP.kindOf bp

omit hpts in
theorem PN.ks {node : Nat} {bp : BP} {s s' : St} (p : PN node bp s) (k : KS s s') : PN node bp s' :=
  ⟨Nat.lt_of_lt_of_le p.1 k.len, by rw [k.kind node p.1]; exact p.2⟩

omit hpts in
theorem pushTail_spec {α} (Q : α → Prop) (parent node : Nat) (bp : BP) (k : MH α)
    (hk : ∀ h s x h' s', k h s = .ok ((x, h'), s') → h' = h ∧ s' = s ∧ Q x)
    (h : HS) (s : St) (x : α) (h' : HS) (s' : St) (j : J h s) (pn : PN node bp s)
    (e : (do
      up (appendChild parent node)
      up (modPc fun pc => { pc with opened := pc.opened ++ [{ node := node, bp := bp }] })
      k : MH α) h s = .ok ((x, h'), s')) : J h' s' ∧ AM h h' ∧ KS s s' ∧ Q x := by
  obtain ⟨u1, h1, s1, e1, k1⟩ := mh_bind_ok e
  obtain ⟨eh1, ex1⟩ := up_ok e1
  subst eh1
  obtain ⟨u2, h2, s2, e2, k2⟩ := mh_bind_ok k1
  obtain ⟨eh2, ex2⟩ := up_ok e2
  have es2 := modPc_ok ex2
  subst eh2
  obtain ⟨eh3, es3, hq⟩ := hk _ _ _ _ _ k2
  subst eh3; subst es3
  obtain ⟨jp, kp⟩ := push_spec parent node bp _ s s1 j pn.1 pn.2 ex1
  rw [es2]
  exact ⟨jp, AM.refl _, ⟨kp.len, kp.kind⟩, hq⟩

theorem afterMod_spec {α} (Q : α → Prop) (parent node : Nat) (bp : BP) (last : Option Nat) (k : MH α)
    (hk : ∀ h s x h' s', k h s = .ok ((x, h'), s') → h' = h ∧ s' = s ∧ Q x)
    (h : HS) (s : St) (x : α) (h' : HS) (s' : St) (j : J h s) (pn : PN node bp s)
    (e : (match last with
      | some l => do
        let n ← up (getNode l)
        if n.parent.isNone = true then do
          let pc ← up getPc
          closeBlocksH true pts ((pc.opened.length : Int) - 1) ((pc.opened.length : Int) - 1)
          up (appendChild parent node)
          up (modPc fun pc => { pc with opened := pc.opened ++ [{ node := node, bp := bp }] })
          k
        else do
          up (appendChild parent node)
          up (modPc fun pc => { pc with opened := pc.opened ++ [{ node := node, bp := bp }] })
          k
      | none => do
        up (appendChild parent node)
        up (modPc fun pc => { pc with opened := pc.opened ++ [{ node := node, bp := bp }] })
        k : MH α) h s = .ok ((x, h'), s')) : J h' s' ∧ AM h h' ∧ KS s s' ∧ Q x := by
  cases last with
  | none => exact pushTail_spec Q parent node bp k hk h s x h' s' j pn e
  | some l =>
    simp only at e
    obtain ⟨n, h1, s1, e1, k1⟩ := mh_bind_ok e
    obtain ⟨eh1, ex1⟩ := up_ok e1
    obtain ⟨_, es1⟩ := getNode_ok ex1
    subst eh1; subst es1
    split at k1
    · obtain ⟨pc, h2, s2, e2, k2⟩ := mh_bind_ok k1
      obtain ⟨eh2, ex2⟩ := up_ok e2
      obtain ⟨_, es2⟩ := getPc_ok ex2
      subst eh2; subst es2
      obtain ⟨u3, h3, s3, e3, k3⟩ := mh_bind_ok k2
      obtain ⟨j3, a3, ks3, sh3, _⟩ := closeBlocksH_spec pts hpts _ _ _ _ _ _ j e3
      obtain ⟨j4, a4, ks4, q4⟩ := pushTail_spec Q parent node bp k hk h3 s3 x h' s' j3 (pn.ks ks3) k3
      exact ⟨j4, a3.trans a4, ks3.trans ks4, q4⟩
    · exact pushTail_spec Q parent node bp k hk _ _ x h' s' j pn k1

/-- `opened'` has nothing new -/
def Shr (s s' : St) : Prop := ∀ b ∈ s'.pc.opened, b ∈ s.pc.opened

omit hpts in
theorem Shr.refl (s : St) : Shr s s := fun _ h => h
omit hpts in
theorem Shr.trans {a b c : St} (h1 : Shr a b) (h2 : Shr b c) : Shr a c := fun x hx => h1 x (h2 x hx)
omit hpts in
theorem Shr.of_eq {s s' : St} (h : s'.pc.opened = s.pc.opened) : Shr s s' := fun x hx => by rw [← h]; exact hx

/-- the candidate loop of openBlocks: the invariant, and: unless it answers `newBlocksOpened` the result flag is the one
    it was given and nothing was pushed on the stack -/
theorem tryParsersH_spec (parent : Nat) (blankLine continuable : Bool) (w : Int) :
    ∀ (bps : List BP) (result : OpenResult) (lastBlock : Option Block) (h : HS) (s : St)
      (x : TryOutcomeT × OpenResult × Option Block) (h' : HS) (s' : St), J h s →
      tryParsersH true pts parent blankLine continuable w bps result lastBlock h s = .ok ((x, h'), s') →
      (J h' s' ∧ AM h h' ∧ KS s s') ∧ (x.2.1 ≠ .newBlocksOpened → x.2.1 = result ∧ Shr s s') := by
  intro bps
  induction bps with
  | nil =>
    intro result lastBlock h s x h' s' j e
    unfold tryParsersH at e
    cases e
    exact ⟨⟨j, AM.refl _, KS.refl _⟩, fun _ => ⟨rfl, Shr.refl _⟩⟩
  | cons bp bps ih =>
    intro result lastBlock h s x h' s' j e
    unfold tryParsersH at e
    dsimp only at e
    split at e
    · exact ih result lastBlock h s x h' s' j e
    · split at e
      · exact ih result lastBlock h s x h' s' j e
      · obtain ⟨lb, h1, s1, e1, k1⟩ := mh_bind_ok e
        obtain ⟨eh1, ex1⟩ := up_ok e1
        subst eh1
        have elb : lb = s.pc.opened.getLast? ∧ s1 = s := by
          unfold lastOpenedBlock at ex1
          obtain ⟨pc, s0, e0, k0⟩ := bind_ok ex1
          obtain ⟨epc, es0⟩ := getPc_ok e0
          subst es0; subst epc
          cases k0; exact ⟨rfl, rfl⟩
        obtain ⟨elb, es1⟩ := elb
        subst es1
        obtain ⟨r, h2, s2, e2, k2⟩ := mh_bind_ok k1
        obtain ⟨eh2, ex2⟩ := up_ok e2
        subst eh2
        obtain ⟨lr2, oj2⟩ := (bpOpen_oj bp parent).h s1 r s2 ex2
        have j2 : J h2 s2 := j.step (StepR.of_lr lr2)
        cases hr : r.1 with
        | none =>
          simp only [hr] at k2
          obtain ⟨⟨a, b, c⟩, d⟩ := ih result lb h2 s2 x h' s' j2 k2
          exact ⟨⟨a, b, (StepR.of_lr lr2).ks.trans c⟩, fun hx => ⟨(d hx).1, (Shr.of_eq lr2.opened).trans (d hx).2⟩⟩
        | some node =>
          simp only [hr] at k2
          obtain ⟨_, nlt, nk⟩ := oj2 node hr
          have pn2 : PN node bp s2 := ⟨nlt, nk⟩
          have hkpure : ∀ (A B : TryOutcomeT × OpenResult × Option Block) (c : Prop) [Decidable c] (h : HS) (s : St) x h' s',
              (if c then (Pure.pure A : MH _) else Pure.pure B) h s = .ok ((x, h'), s') →
                h' = h ∧ s' = s ∧ (x = A ∨ x = B) := by
            intro A B c _ h s x h' s' e
            split at e
            · cases e; exact ⟨rfl, rfl, Or.inl rfl⟩
            · cases e; exact ⟨rfl, rfl, Or.inr rfl⟩
          have tail : ∀ (h3 : HS) (s3 : St), J h3 s3 → PN node bp s3 →
              ∀ (transformed : Bool), (if transformed = true then Pure.pure (TryOutcomeT.retryTransformed, result, lb) else do
                up (modNode node fun n => { n with blankPrev := blankLine })
                match Option.map (fun x => x.node) lb with
                | some l => do
                  let n ← up (getNode l)
                  if n.parent.isNone = true then do
                    let pc ← up getPc
                    closeBlocksH true pts ((pc.opened.length : Int) - 1) ((pc.opened.length : Int) - 1)
                    up (appendChild parent node)
                    up (modPc fun pc => { pc with opened := pc.opened ++ [{ node := node, bp := bp }] })
                    if r.2.hasChildren = true then Pure.pure (TryOutcomeT.retry node, OpenResult.newBlocksOpened, lb)
                    else Pure.pure (TryOutcomeT.done, OpenResult.newBlocksOpened, lb)
                  else do
                    up (appendChild parent node)
                    up (modPc fun pc => { pc with opened := pc.opened ++ [{ node := node, bp := bp }] })
                    if r.2.hasChildren = true then Pure.pure (TryOutcomeT.retry node, OpenResult.newBlocksOpened, lb)
                    else Pure.pure (TryOutcomeT.done, OpenResult.newBlocksOpened, lb)
                | none => do
                  up (appendChild parent node)
                  up (modPc fun pc => { pc with opened := pc.opened ++ [{ node := node, bp := bp }] })
                  if r.2.hasChildren = true then Pure.pure (TryOutcomeT.retry node, OpenResult.newBlocksOpened, lb)
                  else Pure.pure (TryOutcomeT.done, OpenResult.newBlocksOpened, lb) : MH _) h3 s3 = .ok ((x, h'), s') →
              (J h' s' ∧ AM h3 h' ∧ KS s3 s') ∧ (x.2.1 ≠ .newBlocksOpened → x.2.1 = result ∧ Shr s3 s') := by
            intro h3 s3 j3 pn3 transformed e3
            cases transformed with
            | true =>
              simp only [if_true] at e3
              cases e3
              exact ⟨⟨j3, AM.refl _, KS.refl _⟩, fun _ => ⟨rfl, Shr.refl _⟩⟩
            | false =>
              simp only [Bool.false_eq_true, if_false] at e3
              obtain ⟨u4, h4, s4, e4, k4⟩ := mh_bind_ok e3
              obtain ⟨eh4, ex4⟩ := up_ok e4
              subst eh4
              have st4 := StepR.of_lr ((modNode_lk node (fun n => { n with blankPrev := blankLine }) (fun _ => ⟨rfl, rfl, rfl⟩)).h _ _ _ ex4)
              obtain ⟨a, b, c, q⟩ := afterMod_spec pts hpts (fun x => x = _ ∨ x = _) parent node bp _ _ (hkpure _ _ _)
                h4 s4 x h' s' (j3.step st4) (pn3.ks st4.ks) k4
              refine ⟨⟨a, b, st4.ks.trans c⟩, fun hx => ?_⟩
              exfalso
              rcases q with q | q <;> (rw [q] at hx; exact hx rfl)
          have ks12 := (StepR.of_lr lr2).ks
          split at k2
          · obtain ⟨tr, h3, s3, e3, k3⟩ := mh_bind_ok k2
            have hlast : s2.pc.opened.getLast? = lb := by rw [lr2.opened]; exact elb.symm
            obtain ⟨j3, a3, ks3, sh3⟩ := requireParaH_spec pts hpts parent _ lb h2 s2 tr h3 s3 j2 hlast e3
            obtain ⟨⟨a, b, c⟩, d⟩ := tail h3 s3 j3 (pn2.ks ks3) tr k3
            exact ⟨⟨a, a3.trans b, ks12.trans (ks3.trans c)⟩,
              fun hx => ⟨(d hx).1, ((Shr.of_eq lr2.opened).trans sh3).trans (d hx).2⟩⟩
          · obtain ⟨tr, h3, s3, e3, k3⟩ := mh_bind_ok k2
            have e3' : tr = false ∧ h2 = h3 ∧ s2 = s3 := by cases e3; exact ⟨rfl, rfl, rfl⟩
            obtain ⟨et, eh3, es3⟩ := e3'
            subst eh3; subst es3
            obtain ⟨⟨a, b, c⟩, d⟩ := tail h2 s2 j2 pn2 tr k3
            exact ⟨⟨a, b, ks12.trans c⟩, fun hx => ⟨(d hx).1, (Shr.of_eq lr2.opened).trans (d hx).2⟩⟩


theorem tryParsersH_hj (parent : Nat) (blankLine continuable : Bool) (w : Int) (bps : List BP) (result : OpenResult)
    (lastBlock : Option Block) : HJ (tryParsersH true pts parent blankLine continuable w bps result lastBlock) :=
  ⟨fun h s x h' s' j e => (tryParsersH_spec pts hpts parent blankLine continuable w bps result lastBlock h s x h' s' j e).1⟩

end

macro "hj_step" : tactic =>
  `(tactic| first
    | apply_hyp
    | with_reducible apply HJ.bind
    | with_reducible apply HJ.ite
    | exact HJ.pure _
    | exact HJ.throw _
    | (apply HJ.up; first
        | exact toContinuable_stp _ _ _
        | exact bpContinue_stp _ _
        | exact Stp.of_lk lastOpenedBlock_lk
        | exact Stp.of_lk skipBlankLinesR_lk
        | (apply Stp.of_lk; lk_leaf))
    | intro _
    | split)

macro "hj" : tactic => `(tactic| repeat' hj_step)

section
variable (pts : List PT) (hpts : ∀ pt ∈ pts, PTStp pt)
include hpts

theorem retryStepH_hj (blankLine tdone continuable : Bool) (parent : Nat) (w : Int) (bps : List BP)
    (result : OpenResult) (lastBlock : Option Block)
    (again : Bool → Bool → Nat → OpenResult → Option Block → MH OpenResult)
    (ha : ∀ a b c d e, HJ (again a b c d e)) :
    HJ (retryStepH true pts blankLine tdone continuable parent w bps result lastBlock again) := by
  have := tryParsersH_hj pts hpts
  unfold retryStepH; hj

theorem openBlocksLoopH_hj (blankLine : Bool) (fuel : Nat) (tdone continuable : Bool) (parent : Nat)
    (result : OpenResult) (lastBlock : Option Block) :
    HJ (openBlocksLoopH true pts blankLine fuel tdone continuable parent result lastBlock) := by
  induction fuel generalizing tdone continuable parent result lastBlock with
  | zero => unfold openBlocksLoopH; hj
  | succ fuel ih =>
    have := retryStepH_hj pts hpts
    unfold openBlocksLoopH; hj

theorem openBlocksH_hj (parent : Nat) (blankLine : Bool) : HJ (openBlocksH true pts parent blankLine) := by
  have := openBlocksLoopH_hj pts hpts
  unfold openBlocksH; hj

theorem lineLoopH_hj (parent : Nat) (openedBlocks : List Block) (lastIndex : Int) (rest : List Block) (i : Int)
    (blankLines : List LineStat) : HJ (lineLoopH true pts parent openedBlocks lastIndex rest i blankLines) := by
  have := closeBlocksH_hj pts hpts
  have := openBlocksH_hj pts hpts
  induction rest generalizing i blankLines with
  | nil => unfold lineLoopH; hj
  | cons be rest ih => unfold lineLoopH; hj

theorem linesLoopH_hj (parent : Nat) (fuel : Nat) (blankLines : List LineStat) :
    HJ (linesLoopH true pts parent fuel blankLines) := by
  have := lineLoopH_hj pts hpts
  induction fuel generalizing blankLines with
  | zero => unfold linesLoopH; hj
  | succ fuel ih => unfold linesLoopH; hj

theorem blocksLoopH_hj (parent : Nat) (fuel : Nat) (blankLines : List LineStat) :
    HJ (blocksLoopH true pts parent fuel blankLines) := by
  have := openBlocksH_hj pts hpts
  have := linesLoopH_hj pts hpts
  induction fuel generalizing blankLines with
  | zero => unfold blocksLoopH; hj
  | succ fuel ih => unfold blocksLoopH; hj

end

end GM.ConvertH
