/-
  GM.Proof.ShiftSimXOpen — `openBlocks` (parser.go:928-1024) under the shift relation: the exit `continuable:`, the
  `goto retry` loop with the contract monitor (the retry measure is the same number in both runs), for any covered
  parser set. The two runs may have different retry fuel.
-/
import GM.Proof.ShiftSimXDriver

namespace GM.Blocks.Xs
open GM GM.Text GM.Spec GM.Proof.Reader GM.Blocks

variable {F : Frame} {b : Bytes} {Cov : BP → Prop}

theorem qnl_of_hasLine {sA : St} (hNL : NL b) (hl : HasLine b sA) : QNL F b := by
  obtain ⟨c, _, hlt⟩ := hl
  rcases hNL with h | h
  · subst h; simp at hlt
  · exact .inr h

/-! ### the exit `continuable:` -/

theorem toContinuable_p2 (hP : PSim F b Cov) (hNL : NL b) (continuable : Bool) (result : OpenResult)
    (lastBlock : Option Block) {sA sB : St} (hlim : SRLim F b sA sB) (hsr : result = .noBlocksOpened → SR F b sA sB)
    (hl : result = .noBlocksOpened → HasLine b sA) (hlb : ∀ l, lastBlock = some l → Cov l.bp) :
    P2 (fun x y sA' sB' => y = x ∧ SRLim F b sA' sB' ∧ sA'.pc.opened = sA.pc.opened ∧ KeysEq sA sA' ∧
        sA.r.line ≤ sA'.r.line ∧
        (x = .newBlocksOpened → result = .newBlocksOpened))
      (toContinuable continuable result lastBlock sA) (toContinuable continuable result (lastBlock.map (shB F)) sB) := by
  unfold toContinuable
  by_cases hc : (result == OpenResult.noBlocksOpened && continuable) = true
  · rw [if_pos hc, if_pos hc]
    have hres : result = .noBlocksOpened := by
      simp only [Bool.and_eq_true, beq_iff_eq] at hc; exact hc.1
    have h := hsr hres
    cases lastBlock with
    | none => exact P2.throwBindL
    | some lb =>
      simp only [Option.map_some]
      have hcov := hlb lb rfl
      have hq : QNL F b := qnl_of_hasLine hNL (hl hres)
      have key : P2 (fun x y sA' sB' => y = x ∧ SRLim F b sA' sB')
          (bpContinue lb.bp lb.node sA) (bpContinue (shB F lb).bp (shB F lb).node sB) :=
        (hP.co lb.bp hcov lb.node sA sB h (hl hres) hNL).mono (fun _ _ _ _ ⟨h1, h2⟩ => ⟨h1, h2.limbo hq⟩)
      refine P2.bind (key.withL (R := fun _ sA' => sA'.pc.opened = sA.pc.opened ∧ KeysEq sA sA' ∧ sA.r.line ≤ sA'.r.line)
        (fun a sA' e => ⟨bpContinue_opened _ _ _ _ _ e, hP.keysC lb.bp hcov lb.node _ _ a e, bpContinue_line _ _ _ _ _ e⟩))
        (fun st st' sA1 sB1 ⟨⟨hst, h1⟩, ho, hk, hl⟩ => ?_)
      rw [hst]
      by_cases hcont : st.cont = true
      · rw [if_pos hcont]
        exact P2.pure ⟨rfl, h1, ho, hk, hl, fun e => by cases e⟩
      · rw [if_neg hcont]
        exact P2.pure ⟨rfl, h1, ho, hk, hl, fun e => e⟩
  · rw [if_neg hc, if_neg hc]
    exact P2.pure ⟨rfl, hlim, rfl, KeysEq.refl _, Int.le_refl _, fun e => e⟩

/-! ### the retry loop restated with a named join point -/

/-- parser.go:960-1014 + the contract monitor -/
def oblTry (blankLine continuable : Bool) (fuel parent : Nat) (w : Int) (result : OpenResult)
    (lastBlock : Option Block) (bps : List BP) : M OpenResult := do
  let s0 ← get
  let x ← tryParsers parent blankLine continuable w bps result lastBlock
  match x.1 with
  | .retry parent' => do
    let s1 ← get
    if (!decide (retryMeasure s1 < retryMeasure s0)) = true then do
      let _ ← (throw Panic.pre : M Unit)
      openBlocksLoop blankLine continuable fuel parent' x.2.1 x.2.2
    else openBlocksLoop blankLine continuable fuel parent' x.2.1 x.2.2
  | .done => toContinuable continuable x.2.1 x.2.2

theorem openBlocksLoop_succ (blankLine continuable : Bool) (fuel parent : Nat) (result : OpenResult)
    (lastBlock : Option Block) :
    openBlocksLoop blankLine continuable (fuel + 1) parent result lastBlock = (do
      let lp ← peekLine
      let lo ← lineOffset
      modPc fun pc =>
        if (indentWidthI (lp.1.getD []) lo).2 ≥ ((lp.1.getD []).length : Int) then { pc with blockOffset := -1, blockIndent := -1 }
        else { pc with blockOffset := (indentWidthI (lp.1.getD []) lo).2, blockIndent := (indentWidthI (lp.1.getD []) lo).1 }
      if lp.1.isNone = true then toContinuable continuable result lastBlock
      else do
        let c0 ← liftE (idx (lp.1.getD []) 0)
        if (c0 == 10) = true then toContinuable continuable result lastBlock
        else if (indentWidthI (lp.1.getD []) lo).2 < ((lp.1.getD []).length : Int) then do
          let c ← liftE (idx (lp.1.getD []) (indentWidthI (lp.1.getD []) lo).2)
          oblTry blankLine continuable fuel parent (indentWidthI (lp.1.getD []) lo).1 result lastBlock
            ((triggered c).getD freeParsers)
        else oblTry blankLine continuable fuel parent (indentWidthI (lp.1.getD []) lo).1 result lastBlock freeParsers) := by
  rw [openBlocksLoop]
  rfl

/-! ### the retry measure is the same number in both runs -/

theorem lastIsList_eq {sA sB : St} (h : SR F b sA sB) : lastIsList sB = lastIsList sA := by
  unfold lastIsList
  rw [h.c.toCtxRelW.last]
  cases sA.pc.opened.getLast? with
  | none => rfl
  | some lb =>
    simp only [Option.map_some]
    show ((sB.nodes.getD (F.ι lb.node) default).kind == Kind.list) = _
    rw [h.n.node lb.node]; rfl

theorem retryMeasure_eq {sA sB : St} (h : SR F b sA sB) :
    retryMeasure sB = retryMeasure sA + 2 * F.q.length := by
  unfold retryMeasure
  rw [lastIsList_eq h]
  obtain ⟨c, hc⟩ := h.ri
  have h0 := RI.start_nonneg hc
  have hin : sA.r.pos.start.toNat ≤ sA.r.source.length := by
    rw [hc.pos, hc.source]; simpa using hc.abs.inRange
  have e1 : sB.r.source.length = F.p.length + sA.r.source.length + F.q.length := by
    rw [h.r]; simp [shR]; omega
  have e2 : sB.r.pos.start.toNat = sA.r.pos.start.toNat + F.p.length := by
    rw [h.r]; simp only [shR, moveSeg, Frame.d]; omega
  rw [e1, e2]
  generalize (if lastIsList sA = true then 0 else 1 : Nat) = k
  omega

/-! ### bytes of a line -/

theorem sub_mem' {src : Bytes} {a e : Nat} {c : UInt8} (h : c ∈ sub src a e) : c ∈ src := by
  unfold sub at h
  exact List.mem_of_mem_drop (List.mem_of_mem_take h)

theorem view_byte {c : RCur} {l : Bytes} {x : UInt8} (hv : RCur.view b c = some l) (hx : x ∈ l) : x ∈ b ∨ x = 32 := by
  by_cases hp : c.p < b.length
  · rw [view_eq b c hp] at hv
    cases hv
    rcases List.mem_append.mp hx with h1 | h1
    · right; simp [spaces] at h1; exact h1.2
    · left; exact sub_mem' h1
  · rw [view_none b c hp] at hv; cases hv

theorem idx_mem {l : Bytes} {i : Int} {x : UInt8} (h : idx l i = .ok x) : x ∈ l := by
  unfold idx getByte at h
  split at h
  · cases h
  · cases hg : l[i.toNat]? with
    | none => rw [hg] at h; cases h
    | some y => rw [hg] at h; cases h; exact List.mem_of_getElem? hg

/-- the parsers that the bytes of the source (and a virtual padding space) trigger are covered -/
def Triggers (b : Bytes) (Cov : BP → Prop) : Prop :=
  (∀ bp ∈ freeParsers, Cov bp) ∧ ∀ c : UInt8, (c ∈ b ∨ c = 32) → ∀ bp ∈ (triggered c).getD freeParsers, Cov bp

/-! ### the retry loop -/

/-- what `openBlocks` establishes -/
def OpenQ2 (F : Frame) (b : Bytes) (Cov : BP → Prop) (sA : St) (resIn : OpenResult) (x y : OpenResult) (sA' sB' : St) : Prop :=
  y = x ∧ SRLim F b sA' sB' ∧ AI Cov sA' ∧ sA.r.line ≤ sA'.r.line ∧
    (x = .newBlocksOpened → (resIn = .newBlocksOpened → sA.pc.opened ≠ []) → sA'.pc.opened ≠ [])

theorem get_p2 (sA sB : St) :
    P2 (fun x y sA' sB' => x = sA ∧ y = sB ∧ sA' = sA ∧ sB' = sB) ((get : M St) sA) ((get : M St) sB) :=
  P2.ok ⟨rfl, rfl, rfl, rfl⟩

theorem ctxRel_setBO {x y : Ctx} (h : CtxRelW F x y) (o i : Int) :
    CtxRel F { x with blockOffset := o, blockIndent := i } { y with blockOffset := o, blockIndent := i } :=
  ⟨⟨h.opened, h.tmpPara, h.fence, h.skipList, h.emptyItemBlank⟩, rfl, rfl⟩

theorem oblTry_p2 (hP : PSim F b Cov) (hF : F.OK) (hNL : NL b)
    (blankLine continuable : Bool) (fuelA fuelB : Nat)
    (ih : ∀ (parent : Nat) (result : OpenResult) (lastBlock : Option Block) (sA sB : St),
      SRw F b sA sB → AI Cov sA → HL b sA → (∀ l, lastBlock = some l → Cov l.bp) →
      P2 (OpenQ2 F b Cov sA result)
        (openBlocksLoop blankLine continuable fuelA parent result lastBlock sA)
        (openBlocksLoop blankLine continuable fuelB (F.ι parent) result (lastBlock.map (shB F)) sB))
    (parent : Nat) (w : Int) (result : OpenResult) (lastBlock : Option Block) (bps : List BP) {sA sB : St}
    (h : SR F b sA sB) (hl : HL b sA) (hc : AI Cov sA) (hlb : ∀ l, lastBlock = some l → Cov l.bp)
    (hbps : ∀ bp ∈ bps, Cov bp) :
    P2 (OpenQ2 F b Cov sA result)
      (oblTry blankLine continuable fuelA parent w result lastBlock bps sA)
      (oblTry blankLine continuable fuelB (F.ι parent) w result (lastBlock.map (shB F)) bps sB) := by
  unfold oblTry
  refine P2.bind (get_p2 sA sB) (fun s0 t0 sA0 sB0 ⟨e1, e2, e3, e4⟩ => ?_)
  rw [e1, e2, e3, e4]
  refine P2.bind (tryParsers_p2 hP hF (qnl_of_hasLine hNL hl.1) parent blankLine continuable w bps result lastBlock _ _ hbps hlb h hl hc)
    (fun x y sA1 sB1 ⟨hy, hpost⟩ => ?_)
  subst hy
  cases hx1 : x.1 with
  | retry parent' =>
    simp only [shO]
    have h1 : SR F b sA1 sB1 := hpost.sr (.inl ⟨parent', hx1⟩)
    refine P2.bind (get_p2 sA1 sB1) (fun s1 t1 sA2 sB2 ⟨e1, e2, e3, e4⟩ => ?_)
    rw [e1, e2, e3, e4]
    rw [retryMeasure_eq h, retryMeasure_eq h1]
    simp only [Nat.add_lt_add_iff_right]
    have key := ih parent' x.2.1 x.2.2 _ _ h1.w hpost.ai (hpost.hasLineR ⟨parent', hx1⟩) hpost.lb
    have fin : P2 (OpenQ2 F b Cov sA result)
        (openBlocksLoop blankLine continuable fuelA parent' x.2.1 x.2.2 sA1)
        (openBlocksLoop blankLine continuable fuelB (F.ι parent') x.2.1 (x.2.2.map (shB F)) sB1) := by
      refine key.mono (fun u v sA' sB' ⟨hv, hlim, hai, hline, hne⟩ => ⟨hv, hlim, hai, Int.le_trans hpost.line hline, ?_⟩)
      intro e he
      exact hne e (fun e' => hpost.ne e' he)
    by_cases hm : (!decide (retryMeasure sA1 < retryMeasure sA)) = true
    · rw [if_pos hm, if_pos hm]; exact P2.throwBindL
    · rw [if_neg hm, if_neg hm]; exact fin
  | done =>
    simp only [shO]
    refine (toContinuable_p2 hP hNL continuable x.2.1 x.2.2 hpost.lim (fun e => hpost.sr (.inr e)) (fun e => (hpost.hasLine e).1) hpost.lb).mono
      (fun u v sA' sB' ⟨hv, hlim, ho, hk, hline, hnew⟩ => ⟨hv, hlim, ?_, Int.le_trans hpost.line hline, ?_⟩)
    · exact hpost.ai.eqo ho hk
    · intro e he
      rw [ho]
      exact hpost.ne (hnew e) he

theorem openBlocksLoop_p2 (hP : PSim F b Cov) (hF : F.OK) (hNL : NL b) (hT : TrigAt b Cov)
    (blankLine continuable : Bool) :
    ∀ (fuelA fuelB parent : Nat) (result : OpenResult) (lastBlock : Option Block) (sA sB : St),
      SRw F b sA sB → AI Cov sA → HL b sA → (∀ l, lastBlock = some l → Cov l.bp) →
      P2 (OpenQ2 F b Cov sA result)
        (openBlocksLoop blankLine continuable fuelA parent result lastBlock sA)
        (openBlocksLoop blankLine continuable fuelB (F.ι parent) result (lastBlock.map (shB F)) sB) := by
  intro fuelA
  induction fuelA with
  | zero => intro fuelB parent result lastBlock sA sB _ _ _ _; unfold openBlocksLoop; exact P2.throwL
  | succ fuelA ih =>
    intro fuelB parent result lastBlock sA sB h hc hl hlb
    cases fuelB with
    | zero => unfold openBlocksLoop; exact P2.throwR
    | succ fuelB =>
      rw [openBlocksLoop_succ, openBlocksLoop_succ]
      refine P2.bind ((peekLine_core h.rd (.inr hl.1)).withL (R := fun _ sA' => sA.r.line ≤ sA'.r.line ∧ sA'.r.pos = sA.r.pos)
        (fun a sA' e => ⟨peekLine_lg (k := sA.r.line) sA a sA' (Int.le_refl _) e, peekLine_pos _ _ _ e⟩))
        (fun lp lp' sA1 sB1 ⟨⟨⟨c, hc1, hlp⟩, hlp', hs1⟩, hline1, hpos1⟩ => ?_)
      have h1 := hs1.srw h
      have epc1 : sA1.pc = sA.pc := by obtain ⟨rA, c', _, e1, _⟩ := hs1; rw [e1]
      have e1 : lp'.1 = lp.1 := by rw [hlp']
      rw [e1]
      refine P2.bind ((lineOffset_core h1.rd).withL (R := fun _ sA' => sA1.r.line ≤ sA'.r.line ∧ sA'.r.pos = sA1.r.pos)
        (fun a sA' e => ⟨lineOffset_lg (k := sA1.r.line) sA1 a sA' (Int.le_refl _) e, lineOffset_pos _ _ _ e⟩))
        (fun lo lo' sA2 sB2 ⟨⟨hlo, ⟨c2, hc2, _⟩, hs2⟩, hline2, hpos2⟩ => ?_)
      rw [hlo]
      have h2 := hs2.srw h1
      have epc2 : sA2.pc = sA.pc := by obtain ⟨rA, c', _, e2, _⟩ := hs2; rw [e2]; exact epc1
      -- the context update: afterwards the full relation
      refine P2.bind (P := fun _ _ sA' sB' => SR F b sA' sB' ∧ sA'.pc.opened = sA.pc.opened ∧ sA'.r = sA2.r ∧
          KeysEq sA sA') ?_
        (fun _ _ sA3 sB3 ⟨h3, ho3, er3, hk3⟩ => ?_)
      · unfold modPc
        refine P2.ok ⟨⟨h2.ri, h2.r, h2.n, ?_⟩, ?_, rfl, ?_⟩
        rotate_left 2
        · unfold KeysEq
          simp only
          rw [← epc2]
          split <;> exact ⟨rfl, rfl, rfl, rfl⟩
        · simp only
          split
          · exact ctxRel_setBO h2.c _ _
          · exact ctxRel_setBO h2.c _ _
        · simp only
          rw [← epc2]
          split <;> rfl
      have hc3 : AI Cov sA3 := hc.eqo ho3 hk3
      have hl3 : HL b sA3 := by
        have hl1' : HL b sA1 := hl_of_pos hl ⟨c, hc1⟩ hpos1
        have hl2' : HL b sA2 := hl_of_pos hl1' ⟨c2, hc2⟩ hpos2
        exact hl_of_pos hl2' h3.ri (by rw [er3])
      have hline3 : sA.r.line ≤ sA3.r.line := by rw [er3]; exact Int.le_trans hline1 hline2
      have tc : P2 (OpenQ2 F b Cov sA result) (toContinuable continuable result lastBlock sA3)
          (toContinuable continuable result (lastBlock.map (shB F)) sB3) := by
        refine (toContinuable_p2 hP hNL continuable result lastBlock (h3.limbo (qnl_of_hasLine hNL hl3.1)) (fun _ => h3)
          (fun _ => hl3.1) hlb).mono
          (fun u v sA' sB' ⟨hv, hlim, ho, hk, hline, hnew⟩ => ⟨hv, hlim, ?_, Int.le_trans hline3 hline, ?_⟩)
        · exact hc3.eqo ho hk
        · intro e he; rw [ho, ho3]; exact he (hnew e)
      by_cases hnone : lp.1.isNone = true
      · rw [if_pos hnone, if_pos hnone]; exact tc
      rw [if_neg hnone, if_neg hnone]
      refine P2.bind (P := fun u v sA' sB' => v = u ∧ sA' = sA3 ∧ sB' = sB3) (P2.liftE_same (fun a _ => ⟨rfl, rfl, rfl⟩))
        (fun c0 c0' sA4 sB4 ⟨e1, e2, e3⟩ => ?_)
      rw [e1, e2, e3]
      by_cases hnl : (c0 == 10) = true
      · rw [if_pos hnl, if_pos hnl]; exact tc
      rw [if_neg hnl, if_neg hnl]
      -- a line is there
      have hview : ∃ l, RCur.view b c = some l ∧ lp.1 = some l := by
        rw [hlp] at hnone ⊢
        cases hv : RCur.view b c with
        | none => rw [hv] at hnone; simp at hnone
        | some l => exact ⟨l, rfl, rfl⟩
      obtain ⟨l, hv, hl1⟩ := hview
      have hpl : c.p < b.length := by
        by_cases hp : c.p < b.length
        · exact hp
        · rw [view_none b c hp] at hv; cases hv
      have conv : ∀ x y sA' sB', OpenQ2 F b Cov sA3 result x y sA' sB' → OpenQ2 F b Cov sA result x y sA' sB' := by
        intro x y sA' sB' ⟨hv', hlim, hai, hline, hne⟩
        exact ⟨hv', hlim, hai, Int.le_trans hline3 hline, fun e he => hne e (fun e' => ho3 ▸ he e')⟩
      by_cases hpos : (indentWidthI (lp.1.getD []) lo).2 < ((lp.1.getD []).length : Int)
      · rw [if_pos hpos, if_pos hpos]
        refine P2.bind (P := fun u v sA' sB' => v = u ∧ idx (lp.1.getD []) (indentWidthI (lp.1.getD []) lo).2 = .ok u ∧
            sA' = sA3 ∧ sB' = sB3) (P2.liftE_same (fun a ha => ⟨rfl, ha, rfl, rfl⟩))
          (fun ch ch' sA4 sB4 ⟨e1, hidx, e2, e3⟩ => ?_)
        rw [e1, e2, e3]
        have hcov : ∀ bp ∈ (triggered ch).getD freeParsers, Cov bp := by
          rw [hl1] at hidx
          simp only [Option.getD_some] at hidx
          exact hT.2 c l lo ch hc1.inRange (hl3.2.tsafe hc1 (by rw [er3, hpos2])) hv hidx
        exact (oblTry_p2 hP hF hNL blankLine continuable fuelA fuelB (ih fuelB) parent _ result lastBlock _ h3 hl3 hc3 hlb
          hcov).mono conv
      · rw [if_neg hpos, if_neg hpos]
        exact (oblTry_p2 hP hF hNL blankLine continuable fuelA fuelB (ih fuelB) parent _ result lastBlock _ h3 hl3 hc3 hlb
          hT.1).mono conv

/-- parser.openBlocks under the relation -/
theorem openBlocks_p2 (hP : PSim F b Cov) (hF : F.OK) (hNL : NL b) (hT : TrigAt b Cov) : OpenBlocksSim F b Cov := by
  intro parent blank sA sB h hc hl
  unfold openBlocks
  -- lastOpenedBlock
  have hlast : sB.pc.opened.getLast? = sA.pc.opened.getLast?.map (shB F) := h.c.last
  refine P2.bind (P := fun x y sA' sB' => x = sA.pc.opened.getLast? ∧ y = x.map (shB F) ∧ sA' = sA ∧ sB' = sB) ?_
    (fun lb lb' sA1 sB1 ⟨hlb, hlb', e1, e2⟩ => ?_)
  · unfold lastOpenedBlock getPc
    exact P2.ok ⟨rfl, hlast, rfl, rfl⟩
  rw [hlb', e1, e2]
  have hlbc : ∀ l, lb = some l → Cov l.bp := by
    intro l hl; rw [hlb] at hl; exact hc.1 l (List.mem_of_getLast? hl)
  have tail : ∀ cont : Bool, P2 (fun x y sA' sB' => y = x ∧ SRLim F b sA' sB' ∧ AI Cov sA' ∧ sA.r.line ≤ sA'.r.line ∧
        (x = OpenResult.newBlocksOpened → sA'.pc.opened ≠ []))
      ((do let src ← source
           openBlocksLoop blank cont (retryFuel src) parent OpenResult.noBlocksOpened lb) sA)
      ((do let src ← source
           openBlocksLoop blank cont (retryFuel src) (F.ι parent) OpenResult.noBlocksOpened (lb.map (shB F))) sB) := by
    intro cont
    refine P2.bind (P := fun _ _ sA' sB' => sA' = sA ∧ sB' = sB) (by unfold GM.Blocks.source; exact P2.ok ⟨rfl, rfl⟩)
      (fun src src' sA3 sB3 ⟨e1, e2⟩ => ?_)
    rw [e1, e2]
    refine (openBlocksLoop_p2 hP hF hNL hT blank cont _ _ parent .noBlocksOpened lb sA sB h hc hl hlbc).mono
      (fun x y sA' sB' ⟨hv, hlim, hai, hline, hne⟩ => ⟨hv, hlim, hai, hline, fun e => hne e (fun e' => by cases e')⟩)
  cases lb with
  | none => exact tail false
  | some l =>
    simp only [Option.map_some]
    refine P2.bind (P := fun (x y : Node) sA' sB' => y.kind = x.kind ∧ sA' = sA ∧ sB' = sB) ?_
      (fun n n' sA2 sB2 ⟨e0, e1, e2⟩ => ?_)
    · unfold getNode
      refine P2.ok ⟨?_, rfl, rfl⟩
      show (sB.nodes.getD (F.ι l.node) default).kind = _
      rw [h.n.node l.node]; rfl
    rw [e0, e1, e2]
    exact tail (n.kind == Kind.paragraph)

end GM.Blocks.Xs
