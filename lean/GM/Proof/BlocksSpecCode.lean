/-
  GM.Proof.BlocksSpecCode — the indented code block parser (code_block.go) meets the block-parser contracts of
  GM.Proof.BlocksInv: `codeOpen_spec : OpenSpec src .code`, `codeContinue_spec : ContSpec src .code`,
  `codeClose_spec : CloseSpec src .code`.
-/
import GM.Proof.BlocksInv
namespace GM.Blocks
open GM GM.Text GM.Spec GM.Proof.Reader

/-! ### util.IndentPosition -/

theorem ippLoop_ge (cur width : Int) : ∀ (bs : Bytes) (i p w : Int),
    i ≤ (ippLoop cur width bs i p w).1 ∧ (ippLoop cur width bs i p w).1 ≤ i + bs.length := by
  intro bs
  induction bs with
  | nil => intro i p w; simp [ippLoop]
  | cons b bs ih =>
    intro i p w
    unfold ippLoop
    simp only [List.length_cons]
    split
    · have := ih (i + 1) (p - 1) (w + 1); omega
    · split
      · have := ih (i + 1) p (w + tabWidthI (cur + w)); omega
      · split
        · have := ih (i + 1) p (w + 1); omega
        · simp only; omega

/-- nothing consumed: the width is the initial one -/
theorem ippLoop_eq (cur width : Int) (bs : Bytes) (i p w : Int)
    (h : (ippLoop cur width bs i p w).1 = i) : (ippLoop cur width bs i p w).2 = w := by
  cases bs with
  | nil => simp [ippLoop]
  | cons b bs =>
    unfold ippLoop at h ⊢
    split
    · rename_i h1; rw [if_pos h1] at h; have := (ippLoop_ge cur width bs (i + 1) (p - 1) (w + 1)).1; omega
    · rename_i h1; rw [if_neg h1] at h
      split
      · rename_i h2; rw [if_pos h2] at h
        have := (ippLoop_ge cur width bs (i + 1) p (w + tabWidthI (cur + w))).1; omega
      · rename_i h2; rw [if_neg h2] at h
        split
        · rename_i h3; rw [if_pos h3] at h
          have := (ippLoop_ge cur width bs (i + 1) p (w + 1)).1; omega
        · rfl

theorem isBlank_cons (b : UInt8) (bs : Bytes) : isBlank (b :: bs) = (isSpace b && isBlank bs) := by
  simp [isBlank]

/-- without padding the loop only walks over spaces and tabs: it stops in front of the first other byte -/
theorem ippLoop_lt (cur width : Int) : ∀ (bs : Bytes) (i p w : Int), p ≤ 0 → isBlank bs = false →
    (ippLoop cur width bs i p w).1 < i + bs.length := by
  intro bs
  induction bs with
  | nil => intro i p w _ h; simp [isBlank] at h
  | cons b bs ih =>
    intro i p w hp hb
    unfold ippLoop
    simp only [List.length_cons]
    have hn : ¬ p > 0 := by omega
    rw [if_neg hn]
    rw [isBlank_cons] at hb
    split
    · rename_i h1
      have hb9 : b = 9 := by simp only [Bool.and_eq_true, beq_iff_eq] at h1; exact h1.1
      have : isBlank bs = false := by subst hb9; simpa [isSpace] using hb
      have := ih (i + 1) p (w + tabWidthI (cur + w)) hp this; omega
    · split
      · rename_i h1
        have hb32 : b = 32 := by simp only [Bool.and_eq_true, beq_iff_eq] at h1; exact h1.1
        have : isBlank bs = false := by subst hb32; simpa [isSpace] using hb
        have := ih (i + 1) p (w + 1) hp this; omega
      · simp only; omega

/-- util.IndentPosition(line, lo, 4) when it answers a position -/
theorem indentPosition_bounds (line : Bytes) (lo : Int) (h : 0 ≤ (indentPosition line lo 4).1) :
    (indentPosition line lo 4).1 ≤ line.length ∧ 0 ≤ (indentPosition line lo 4).2 ∧
    (isBlank line = false → (indentPosition line lo 4).1 < line.length) ∧
    (0 < (indentPosition line lo 4).2 → 1 ≤ (indentPosition line lo 4).1) := by
  unfold indentPosition indentPositionPadding at h ⊢
  have hw : ((4 : Int) == 0) = false := by decide
  simp only [hw, Bool.false_eq_true, if_false] at h ⊢
  have hge := ippLoop_ge lo 4 line 0 0 0
  by_cases hc : (ippLoop lo 4 line 0 0 0).2 ≥ 4
  · rw [if_pos hc]
    simp only
    refine ⟨by omega, by omega, fun hb => ?_, fun hp => ?_⟩
    · have := ippLoop_lt lo 4 line 0 0 0 (Int.le_refl _) hb; omega
    · rcases Int.lt_or_le 0 (ippLoop lo 4 line 0 0 0).1 with h1 | h1
      · omega
      · have := ippLoop_eq lo 4 line 0 0 0 (by omega); omega
  · rw [if_neg hc] at h; simp at h

/-! ### Segment.TrimLeftSpaceWidth -/

theorem tlswLoop_bounds (stop : Int) : ∀ (bs : Bytes) (start width : Int), start ≤ stop →
    start ≤ (tlswLoop stop bs start width).1 ∧ (tlswLoop stop bs start width).1 ≤ stop := by
  intro bs
  induction bs with
  | nil => intro start width h; simp [tlswLoop]; exact h
  | cons c cs ih =>
    intro start width h
    unfold tlswLoop
    split
    · exact ⟨Int.le_refl _, h⟩
    · rename_i h1
      have hlt : start < stop - 1 := by
        simp only [Bool.or_eq_true, decide_eq_true_eq, not_or] at h1; omega
      split
      · have := ih (start + 1) (width - 1) (by omega); omega
      · split
        · have := ih (start + 1) (width - 4) (by omega); omega
        · exact ⟨Int.le_refl _, h⟩

theorem trimLeftSpaceWidth_ok {src : Bytes} {t : Segment} (h : SegOK src t) (width : Int) :
    ∃ t', t.trimLeftSpaceWidth width src = .ok t' ∧ SegOK src t' := by
  obtain ⟨h0, h1, h2, h3⟩ := h
  unfold Segment.trimLeftSpaceWidth
  have hp : 0 ≤ (tlswPad width t.padding).2 := by
    unfold tlswPad
    split
    · exact h3
    · split
      · omega
      · split <;> simp only <;> omega
  generalize tlswPad width t.padding = wp at hp
  obtain ⟨w, p⟩ := wp
  simp only at hp ⊢
  by_cases hw : (w == 0) = true
  · rw [if_pos hw]
    exact ⟨_, rfl, h0, h1, h2, hp⟩
  · rw [if_neg hw, sliceB_ok src h0 h1 h2]
    simp only [bind, Except.bind, pure, Except.pure]
    have hb := tlswLoop_bounds t.stop (sub src t.start.toNat t.stop.toNat) t.start w h1
    generalize tlswLoop t.stop (sub src t.start.toNat t.stop.toNat) t.start w = sw at hb
    obtain ⟨st, w'⟩ := sw
    simp only at hb ⊢
    refine ⟨_, rfl, by simp only; omega, by simp only; omega, h2, ?_⟩
    simp only
    split <;> omega

/-! ### the node store -/

theorem nodeOK_default (src : Bytes) : NodeOK src (default : Node) :=
  ⟨fun _ h => (by cases h), fun _ => rfl⟩

theorem nodeOK_nd {src : Bytes} {s : St} (h : NodesOK src s) (i : Nat) : NodeOK src (nd s i) := by
  unfold nd
  rw [List.getD_eq_getElem?_getD]
  cases hi : s.nodes[i]? with
  | none => exact nodeOK_default src
  | some n => exact h n (List.mem_of_getElem? hi)

theorem nd_set (l : List Node) (i j : Nat) (x : Node) (hi : i < l.length) :
    (l.set i x).getD j default = if i = j then x else l.getD j default := by
  simp only [List.getD_eq_getElem?_getD, List.getElem?_set, hi, if_true]
  split <;> rfl

/-- `node.Lines().Append(seg)` on an existing node -/
theorem ext_appendLine (s : St) (node : Nat) (seg : Segment) (r' : Reader) (pc' : Ctx) (hlt : node < s.nodes.length) :
    Ext s { r := r', nodes := s.nodes.set node { (s.nodes.getD node default) with
              lines := (s.nodes.getD node default).lines ++ [seg], linesNil := false }, pc := pc' } where
  len := by simp
  kind := fun i _ => by
    simp only [nd, nd_set _ _ _ _ hlt]
    split
    · rename_i e; subst e; rfl
    · rfl
  linesNE := fun i _ _ hl => by
    simp only [nd, nd_set _ _ _ _ hlt] at hl ⊢
    split
    · simp
    · exact hl

theorem nodesOK_appendLine {src : Bytes} {s : St} (h : NodesOK src s) (node : Nat) {seg : Segment}
    (hseg : SegOK src seg) (r' : Reader) (pc' : Ctx) :
    NodesOK src { r := r', nodes := s.nodes.set node { (s.nodes.getD node default) with
              lines := (s.nodes.getD node default).lines ++ [seg], linesNil := false }, pc := pc' } := by
  intro n hn
  rcases List.mem_or_eq_of_mem_set hn with h1 | h1
  · exact h n h1
  · subst h1
    have hnd := nodeOK_nd h node
    refine ⟨?_, fun hh => by simp at hh⟩
    intro t ht
    simp only [List.mem_append, List.mem_singleton] at ht
    rcases ht with ht | ht
    · exact hnd.lines t ht
    · subst ht; exact hseg

/-! ### preserveLeadingTabInCodeBlock -/

theorem colLoop_total (src : Bytes) (head start : Int) (h0 : 0 ≤ head) (h1 : start ≤ src.length) :
    ∃ v, colLoop src head start = .ok v := by
  unfold colLoop
  by_cases hc : head ≥ start
  · exact ⟨0, by rw [if_pos hc]⟩
  · rw [if_neg hc, if_neg (by omega)]; exact ⟨_, rfl⟩

/-- `SetPosition` with what `Position` returned at an `RI` reader, on any reader over the same source -/
theorem ri_setPosition_restore {src : Bytes} {r : Reader} {c : RCur} (h : RI src r c) (r3 : Reader)
    (hs : r3.source = src) : RI src (r3.setPosition r.line r.pos) c := by
  have h0 := setPosition_ref h.abs (rcur_setPosition_seg src c c h.inRange)
  have hl : r.line = c.ln := h.abs.line
  have hp : r.pos = RCur.seg src c := h.pos
  have hsrc : r.source = src := h.source
  have e : r3.setPosition r.line r.pos = (clearLo r).setPosition c.ln (RCur.seg src c) := by
    unfold Reader.setPosition Reader.sourceLength clearLo
    simp only [hl, hp, hs, hsrc]
  rw [e]
  refine RI.of_abs h0 ?_
  unfold Reader.setPosition
  simp only
  split
  · omega
  · simp [RCur.seg]

theorem lineOffset_raw (s : St) (v : Nat) (hlo : s.r.lineOffset < 0)
    (hv : colLoop s.r.source s.r.head s.r.pos.start = .ok v) :
    lineOffset s = .ok ((v : Int) - s.r.pos.padding,
      { s with r := { s.r with lineOffset := (v : Int) - s.r.pos.padding } }) := by
  unfold GM.Blocks.lineOffset Reader.lineOffsetOp
  rw [if_pos hlo, hv]
  rfl

theorem preserveLeadingTab_okl {src} {s : St} {c : RCur} (h : RI src s.r c) (hp1 : 1 ≤ c.p) (segment : Segment)
    (indent : Int) :
    OKL (fun seg s' => (seg = segment ∨ seg = { segment with padding := 0, start := segment.start - 1 }) ∧
        ∃ r', s' = { s with r := r' } ∧ RI src r' c)
      (preserveLeadingTab segment indent s) := by
  unfold preserveLeadingTab
  refine OKL.bind (lineOffset_okl h) (fun v s1 hv => ?_)
  obtain ⟨_, r1, hs1, h1⟩ := hv
  subst hs1
  refine OKL.bind (m := position) (P := fun x s' => x = (r1.line, r1.pos) ∧ s' = { s with r := r1 })
    (OKL.ok ⟨rfl, rfl⟩) (fun x s2 hx => ?_)
  obtain ⟨hx, hs2⟩ := hx
  subst hx hs2
  simp only
  have hpos := h1.pos
  have hle := lineEnd_le src c.p
  have hge := lineEnd_ge src h1.inRange
  have hin := h1.inRange
  -- the reader one byte back
  generalize hr2 : r1.setPosition r1.line { start := r1.pos.start - 1, stop := r1.pos.stop } = r2
  have hr2s : r2.source = src := by rw [← hr2]; exact h1.source
  have hr2lo : r2.lineOffset < 0 := by rw [← hr2]; simp [Reader.setPosition]
  have hr2st : r2.pos.start = (c.p : Int) - 1 := by rw [← hr2]; simp [Reader.setPosition, hpos]
  have hr2hd : 0 ≤ r2.head := by
    rw [← hr2]; unfold Reader.setPosition; simp only [hpos]; split <;> omega
  obtain ⟨cv, hcv⟩ := colLoop_total src r2.head r2.pos.start hr2hd (by rw [hr2st]; omega)
  refine OKL.bind (m := setPosition r1.line { start := r1.pos.start - 1, stop := r1.pos.stop })
    (P := fun _ s' => s' = { s with r := r2 }) (OKL.ok (by rw [← hr2])) (fun _ s3 hs3 => ?_)
  subst hs3
  have hlo := lineOffset_raw { s with r := r2 } cv hr2lo (by simp only [hr2s]; exact hcv)
  refine OKL.bind (P := fun _ s' => ∃ r3, s' = { s with r := r3 } ∧ r3.source = src)
    (by rw [hlo]; exact OKL.ok ⟨_, rfl, hr2s⟩) (fun lo s4 hs4 => ?_)
  obtain ⟨r3, hs4, hr3⟩ := hs4
  subst hs4
  simp only [bind, StateT.bind, setPosition, pure, StateT.pure, Except.bind, Except.pure]
  refine OKL.ok ⟨?_, _, rfl, ri_setPosition_restore h1 r3 hr3⟩
  split
  · exact .inr rfl
  · exact .inl rfl

/-! ### codeBlockParser -/

/-- the cursor after `AdvanceAndSetPadding(pos, padding)` inside the line -/
theorem advPadCur_within {src : Bytes} {c : RCur} (hp : c.p < src.length) (hpad : PadOK c) {pos padding : Int}
    (hlt : pos.toNat + 1 ≤ c.pad + (lineEnd src c.p - c.p)) (hpp : 0 < padding → 1 ≤ pos) :
    (advPadCur src pos padding c).p < src.length ∧ c.p ≤ (advPadCur src pos padding c).p ∧
      PadOK (advPadCur src pos padding c) := by
  obtain ⟨i1, i2, _, _, _, i6⟩ := advN_within src pos.toNat c hp hlt
  unfold advPadCur PadOK
  simp only
  split
  · rename_i hgt
    simp only
    refine ⟨i6, by omega, fun _ => ?_⟩
    by_cases hz : c.pad = 0
    · have := hpp (by omega); omega
    · have := hpad hz; omega
  · refine ⟨i6, by omega, fun hne => ?_⟩
    have : c.pad ≠ 0 := by omega
    have := hpad this; omega

theorem codeTakeLine_okl {src} {s : St} {c : RCur} (h : RI src s.r c) (hp : c.p < src.length) (hpad : PadOK c)
    (node : Nat) {pos padding : Int} (h0 : 0 ≤ pos) (hlt : pos.toNat + 1 ≤ c.pad + (lineEnd src c.p - c.p))
    (hpp : 0 < padding → 1 ≤ pos) :
    OKL (fun _ s' => ∃ r' c' seg, s' = { s with r := r', nodes := (s.nodes.set node
            { (s.nodes.getD node default) with
                lines := (s.nodes.getD node default).lines ++ [seg], linesNil := false }) } ∧
          RI src r' c' ∧ PadOK c' ∧ c.p ≤ c'.p ∧ SegOK src seg)
      (codeTakeLine node pos padding s) := by
  unfold codeTakeLine
  refine OKL.bind (advanceAndSetPadding_okl h h0 padding) (fun _ s1 hs1 => ?_)
  obtain ⟨r1, hs1, h1⟩ := hs1
  subst hs1
  obtain ⟨hc1, hmono, hpad1⟩ := advPadCur_within hp hpad hlt hpp
  generalize advPadCur src pos padding c = c1 at h1 hc1 hmono hpad1
  refine OKL.bind (peekLine_okl (s := { s with r := r1 }) h1) (fun x s2 hx => ?_)
  obtain ⟨hx, r2, hs2, h2⟩ := hx
  subst hx hs2
  simp only
  have hle := lineEnd_le src c1.p
  have hlte := lt_lineEnd src hc1
  have tail : ∀ (seg : Segment) (r3 : Reader), SegOK src seg → 1 ≤ seg.len → RI src r3 c1 →
      OKL (fun _ s' => ∃ r' c' seg, s' = { s with r := r', nodes := (s.nodes.set node
            { (s.nodes.getD node default) with
                lines := (s.nodes.getD node default).lines ++ [seg], linesNil := false }) } ∧
          RI src r' c' ∧ PadOK c' ∧ c.p ≤ c'.p ∧ SegOK src seg)
        ((appendLine node { seg with forceNewline := true } >>= fun _ =>
            advance (({ seg with forceNewline := true } : Segment).len - 1)) { s with r := r3 }) := by
    intro seg r3 hok hlen h3
    refine OKL.bind (m := appendLine node { seg with forceNewline := true })
      (P := fun _ s' => s' = { s with r := r3, nodes := (s.nodes.set node
            { (s.nodes.getD node default) with
                lines := (s.nodes.getD node default).lines ++ [{ seg with forceNewline := true }],
                linesNil := false }) })
      (OKL.ok rfl) (fun _ s4 hs4 => ?_)
    subst hs4
    have hlen' : 0 ≤ ({ seg with forceNewline := true } : Segment).len - 1 := by
      unfold Segment.len at hlen ⊢; simp only; omega
    refine (advance_okl (s := { s with r := r3, nodes := (s.nodes.set node
            { (s.nodes.getD node default) with
                lines := (s.nodes.getD node default).lines ++ [{ seg with forceNewline := true }],
                linesNil := false }) }) h3 hlen').mono (fun _ s5 hs5 => ?_)
    obtain ⟨r5, hs5, h5⟩ := hs5
    refine ⟨r5, _, { seg with forceNewline := true }, hs5, h5, hpad1.advN h3.inRange _, ?_, hok⟩
    have := (advN_mono src (({ seg with forceNewline := true } : Segment).len - 1).toNat c1 h3.inRange).1
    omega
  by_cases hpd : ((RCur.seg src c1).padding != 0) = true
  · rw [if_pos hpd]
    have hne : c1.pad ≠ 0 := by
      intro e; simp [RCur.seg, e] at hpd
    have hp1 := hpad1 hne
    refine OKL.bind (preserveLeadingTab_okl (s := { s with r := r2 }) h2 hp1 (RCur.seg src c1) 0)
      (fun seg s3 hq => ?_)
    obtain ⟨hseg, r3, hs3, h3⟩ := hq
    subst hs3
    refine tail seg r3 ?_ ?_ h3
    · rcases hseg with e | e <;> rw [e] <;> unfold SegOK RCur.seg <;> simp only <;> omega
    · rcases hseg with e | e <;> rw [e] <;> unfold Segment.len RCur.seg <;> simp only <;> omega
  · rw [if_neg hpd]
    refine tail (RCur.seg src c1) r2 (seg_ok src c1 h1.inRange) ?_ h2
    unfold Segment.len RCur.seg; simp only; omega

theorem codeOpen_spec (src : Bytes) : OpenSpec src .code := by
  intro parent s c hctx
  show OKL _ (codeOpen parent s)
  obtain ⟨h, hp, hpad, _, hnodes⟩ := hctx
  unfold codeOpen
  refine OKL.bind (peekLine_okl h) (fun x s1 hx => ?_)
  obtain ⟨hx, r1, hs1, h1⟩ := hx
  subst hx hs1
  simp only
  refine OKL.bind (lineOffset_okl (s := { s with r := r1 }) h1) (fun lo s2 hlo => ?_)
  obtain ⟨_, r2, hs2, h2⟩ := hlo
  subst hs2
  simp only
  have hvl := view_getD_length_nat src c hp
  generalize hline : (RCur.view src c).getD [] = line at hvl ⊢
  have hb := indentPosition_bounds line lo
  generalize indentPosition line lo 4 = pp at hb ⊢
  obtain ⟨pos, padding⟩ := pp
  simp only at hb ⊢
  by_cases hc : (decide (pos < 0) || isBlank line) = true
  · rw [if_pos hc]
    refine OKL.ok ?_
    exact { ri := ⟨c, h2, hpad, Nat.le_refl _, fun _ => rfl, fun hh => (by cases hh)⟩,
            opened := rfl, boff := rfl, noNode := fun _ => rfl, newNode := fun id hid => (by cases hid),
            tmp := .inr ⟨.inl (by decide), rfl⟩, fence := .inr ⟨.inl (by decide), rfl⟩,
            req := fun hh => (by cases hh), kids := fun hh => (by cases hh) }
  · rw [if_neg hc]
    have hpos0 : 0 ≤ pos := by
      rcases Int.lt_or_le pos 0 with hh | hh
      · exfalso; apply hc; simp [hh]
      · exact hh
    have hnb : isBlank line = false := by
      cases hbl : isBlank line with
      | true => exfalso; apply hc; simp [hbl]
      | false => rfl
    obtain ⟨hb1, hb2, hb3, hb4⟩ := hb hpos0
    have hlt := hb3 hnb
    refine OKL.bind (m := newNode { kind := Kind.codeBlock })
      (P := fun id s' => id = s.nodes.length ∧
        s' = { s with r := r2, nodes := s.nodes ++ [({ kind := Kind.codeBlock } : Node)] })
      (OKL.ok ⟨rfl, rfl⟩) (fun id s3 hs3 => ?_)
    obtain ⟨hid, hs3⟩ := hs3
    subst hid hs3
    refine OKL.bind (codeTakeLine_okl (src := src) (c := c)
      (s := { s with r := r2, nodes := s.nodes ++ [({ kind := Kind.codeBlock } : Node)] }) h2 hp hpad
      s.nodes.length hpos0 (by omega) hb4) (fun _ s4 hs4 => ?_)
    obtain ⟨r4, c4, seg, hs4, h4, hpad4, hmono, hseg⟩ := hs4
    subst hs4
    refine OKL.ok ?_
    simp only [getD_length_append, set_length_append]
    exact { ri := ⟨c4, h4, hpad4, hmono, fun hh => (by cases hh), fun hh => (by cases hh)⟩,
            opened := rfl, boff := rfl, noNode := fun hh => (by cases hh),
            newNode := fun id hid => by
              cases hid
              refine ⟨rfl, _, rfl, rfl, ⟨?_, fun hh => (by cases hh)⟩, rfl, fun hh => (by cases hh), fun hh => (by cases hh)⟩
              intro t ht
              simp only [List.nil_append, List.mem_singleton] at ht
              subst ht; exact hseg
            tmp := .inr ⟨.inl (by decide), rfl⟩, fence := .inr ⟨.inl (by decide), rfl⟩,
            req := fun hh => (by cases hh), kids := fun hh => (by cases hh) }

theorem codeContinue_spec (src : Bytes) : ContSpec src .code := by
  intro node s c h hpad hp hnodes _ hblock
  show OKL _ (codeContinue node s)
  have hnlt : node < s.nodes.length := hblock.lt
  unfold codeContinue
  refine OKL.bind (peekLine_okl h) (fun x s1 hx => ?_)
  obtain ⟨hx, r1, hs1, h1⟩ := hx
  subst hx hs1
  simp only
  have hvl := view_getD_length_nat src c hp
  generalize hline : (RCur.view src c).getD [] = line at hvl ⊢
  by_cases hbl : isBlank line = true
  · rw [if_pos hbl]
    obtain ⟨t', ht, hok⟩ := trimLeftSpaceWidth_ok (seg_ok src c h.inRange) 4
    refine OKL.bind (m := source) (P := fun v s' => v = src ∧ s' = { s with r := r1 })
      (OKL.ok ⟨h1.source, rfl⟩) (fun v s2 hv => ?_)
    obtain ⟨hv, hs2⟩ := hv
    subst hs2
    rw [hv]
    refine OKL.bind (liftE_okl (P := fun a s' => a = t' ∧ s' = { s with r := r1 }) ht ⟨rfl, rfl⟩)
      (fun a s3 ha => ?_)
    obtain ⟨ha, hs3⟩ := ha
    subst ha hs3
    simp only [bind, StateT.bind, appendLine, modNode, pure, StateT.pure, Except.bind, Except.pure]
    refine OKL.ok ?_
    exact { ria := ⟨c, h1.toRIa, hpad, Nat.le_refl _, Nat.le_of_lt hp, .inr h1⟩,
            pc := rfl, ext := ext_appendLine s node a r1 s.pc hnlt,
            nodes := nodesOK_appendLine hnodes node hok r1 s.pc,
            leaf := fun _ => rfl, cont := fun hh => (by cases hh) }
  · rw [if_neg hbl]
    have hnb : isBlank line = false := by
      cases hh : isBlank line with
      | true => exact absurd hh hbl
      | false => rfl
    refine OKL.bind (lineOffset_okl (s := { s with r := r1 }) h1) (fun lo s2 hlo => ?_)
    obtain ⟨_, r2, hs2, h2⟩ := hlo
    subst hs2
    simp only
    have hb := indentPosition_bounds line lo
    generalize indentPosition line lo 4 = pp at hb ⊢
    obtain ⟨pos, padding⟩ := pp
    simp only at hb ⊢
    by_cases hc : pos < 0
    · rw [if_pos hc]
      refine OKL.ok ?_
      exact { ria := ⟨c, h2.toRIa, hpad, Nat.le_refl _, Nat.le_of_lt hp, .inr h2⟩,
              pc := rfl, ext := Ext.of_nodes_eq rfl, nodes := hnodes,
              leaf := fun _ => rfl, cont := fun hh => (by cases hh) }
    · rw [if_neg hc]
      obtain ⟨hb1, hb2, hb3, hb4⟩ := hb (by omega)
      have hlt := hb3 hnb
      refine OKL.bind (codeTakeLine_okl (src := src) (c := c) (s := { s with r := r2 }) h2 hp hpad
        node (by omega) (by omega) hb4) (fun _ s4 hs4 => ?_)
      obtain ⟨r4, c4, seg, hs4, h4, hpad4, hmono, hseg⟩ := hs4
      subst hs4
      refine OKL.ok ?_
      exact { ria := ⟨c4, h4.toRIa, hpad4, hmono, h4.inRange, .inr h4⟩,
              pc := rfl, ext := ext_appendLine s node seg r4 s.pc hnlt,
              nodes := nodesOK_appendLine hnodes node hseg r4 s.pc,
              leaf := fun _ => rfl, cont := fun hh => (by cases hh) }

/-- the loop of codeBlockParser.Close over lines inside the source -/
theorem codeTrimLoop_ok {src : Bytes} {ls : List Segment} (h : LinesOK src ls) : ∀ k : Nat, k ≤ ls.length →
    ∃ r, codeTrimLoop src ls k = .ok r ∧ -1 ≤ r ∧ r < k := by
  intro k
  induction k with
  | zero => intro _; exact ⟨-1, rfl, by omega, by omega⟩
  | succ k ih =>
    intro hk
    unfold codeTrimLoop
    have hlt : k < ls.length := by omega
    have hat : lineAt ls (k : Int) = .ok ls[k] := by
      unfold lineAt segAt
      have : ¬ ((k : Int) < 0) := by omega
      rw [if_neg this]; simp [List.getElem?_eq_getElem hlt]
    have hv := value_spec src ls[k] (h _ (List.getElem_mem hlt))
    simp only [bind, Except.bind, hat, hv, pure, Except.pure]
    split
    · obtain ⟨r, hr, h1, h2⟩ := ih (by omega); exact ⟨r, hr, h1, by omega⟩
    · exact ⟨k, rfl, by omega, by omega⟩

theorem codeClose_spec (src : Bytes) : CloseSpec src .code := by
  intro node s hsrc hnodes _ hblock
  show OKL _ (codeClose node s)
  have hnlt : node < s.nodes.length := hblock.lt
  have hkind : (nd s node).kind = .codeBlock := hblock.kind
  have hnd := nodeOK_nd hnodes node
  obtain ⟨len, hlen, hl1, hl2⟩ := codeTrimLoop_ok hnd.lines (nd s node).lines.length (Nat.le_refl _)
  have hcond : ((nd s node).linesNil && (len + 1 != 0)) = false := by
    cases hn : (nd s node).linesNil with
    | false => rfl
    | true =>
      have := hnd.nil hn
      rw [this] at hl2
      have : len = -1 := by simp at hl2; omega
      subst this; rfl
  unfold codeClose
  simp only [nd] at hlen hcond
  simp only [bind, StateT.bind, getNode, source, pure, Except.bind, Except.pure, liftE, Except.map,
    hsrc, hlen, hcond, modNode, Bool.false_eq_true, if_false]
  refine OKL.ok ?_
  exact {
    r := rfl
    opened := rfl
    ext := {
      len := by simp
      kind := fun i _ => by
        simp only [nd, nd_set _ _ _ _ hnlt]
        split
        · rename_i e; subst e; rfl
        · rfl
      linesNE := fun i _ hk hl => by
        simp only [nd, nd_set _ _ _ _ hnlt] at hl hk ⊢
        split
        · rename_i e; subst e; exact absurd hkind hk
        · exact hl }
    nodes := by
      intro n hn
      rcases List.mem_or_eq_of_mem_set hn with h1 | h1
      · exact hnodes n h1
      · subst h1
        refine ⟨fun t ht => hnd.lines t (List.mem_of_mem_take ht), fun hh => ?_⟩
        have : (nd s node).lines = [] := hnd.nil hh
        simp only [nd] at this
        show List.take _ (s.nodes.getD node default).lines = []
        rw [this, List.take_nil]
    tmp := .inl rfl
    fence := .inl rfl
    para := fun hh => (by cases hh) }

end GM.Blocks
