/-
  GM.Proof.CMFragSpecN — the stage-14 fragment of GM.Spec.CMFrag (a stage-6 document inside `k + 1` nested block
  quotes) agrees with the spec model GM.Spec.CommonMark through `nqembed`: `expectedNQ_eq_expected` (prescribed HTML).
  (`quoteLinesN_eq`, the link to the model-side `quotePrefix`, is in GM.Proof.CMFragRenderN.)
-/
import GM.Proof.CMFragSpecQ
namespace GM.Proof.CMFrag
open GM GM.Spec.CM GM.Spec.CMFrag

/-- the reference renderer on one block quote around blocks: `<blockquote>`, line feed, the blocks, `</blockquote>`,
    line feed -/
theorem expBs_quote1N (bs : List Block) :
    render (expBs false false [.quote {} false bs]) =
      strBytes "<blockquote>\n" ++ render (expBs false false bs) ++ strBytes "</blockquote>\n" := by
  simp only [expBs, expB, wrap, nl, List.append_nil]
  rw [List.cons_append, List.cons_append]
  simp only [render, List.flatMap_cons, List.flatMap_append, List.flatMap_nil, renderPiece, quoteOpenQ, quoteCloseQ,
    List.append_assoc, List.append_nil]

/-- the reference renderer on `k` nested block quotes around blocks -/
theorem expBs_nestN (bs : List Block) (k : Nat) :
    render (expBs false false (nestQuote k bs)) = wrapQ k (render (expBs false false bs)) := by
  induction k with
  | zero => rfl
  | succ k ih => rw [nestQuote, expBs_quote1N, ih, wrapQ]

/-- the prescribed HTML of `k` nested block quotes around any spec-model document -/
theorem expected_nestN (e : Doc) (k : Nat) :
    expected { e with blocks := nestQuote k e.blocks } = wrapQ k (expected e) := by
  rw [expected, expectedPieces, expected, expectedPieces]
  exact expBs_nestN e.blocks k

/-- N1: the prescribed HTML -/
theorem expectedNQ_eq_expected (k : Nat) (d : KDoc) (h : KFrag d) : expectedNQ k d = expected (nqembed k d) := by
  have hk := expectedK_eq_expected d h
  rw [expected, expectedPieces] at hk
  rw [expected, expectedPieces, nqembed, expectedNQ, hk]
  exact (expBs_nestN (kembed d).blocks (k + 1)).symm

/-- stage 14 with `k = 0` is stage 10 -/
theorem nqembed_zero (d : KDoc) : nqembed 0 d = qembed d := rfl

end GM.Proof.CMFrag
