/-
  GM.Proof.ConvertXE2ETable — C01 END TO END WITH EXTENSIONS, the tree phases and the renderer side for ALL 16 member sets
  (Table, `extension.GFM`), as an interface to a future totality theorem of the block phase with the table paragraph
  transformer: `convertL` answers HTML whenever `blockPhaseX` answers a store in which
    * Heading levels are ≤ 6 (`HeadOK`; a frame invariant for the default transformer),
    * every node of the tree has `NodeTotX`: raw segments in range; the lines of an inline-bearing node — not raw, not a
      TableHeader / TableRow (whose `lines` are the model's bookkeeping), not an empty cell — are `WF0`,
    * the recorded escaped-pipe positions are ascending.
-/
import GM.Proof.ConvertXE2ECells
import GM.Proof.ConvertXE2EMain
import GM.Proof.ConvertXE2EKeeps

namespace GM.Proof.ConvertXE2E
open GM GM.Text GM.Spec GM.Inl GM.ConvertX GM.Convert GM.Proof.ConvertX GM.E2E GM.Proof.ConvertXE2ECS
open GM.Proof.ConvertXE2ECells

variable {src : Bytes}

/-- what `docTreeL` needs of a block node, any member set -/
structure NodeTotX (c : GCfg) (src : Bytes) (n : GM.Blocks.Node) : Prop where
  raw : RawSegsP src n
  wf0 : isRawKind n.kind = false → (c.base.table && GM.TableX.isRowNode src n) = false →
    (c.base.table && GM.TableX.isCellNode src n && n.lines.all (fun s => s.start == s.stop && s.padding == 0)) = false →
    n.lines ≠ [] → GM.Proof.InlinesReader.WF0 src n.lines

theorem inlinePhaseL_totalX (c : GCfg) {env : Env} {inItem : Bool} {n : GM.Blocks.Node} (h : NodeTotX c src n) :
    ∃ kids, inlinePhaseL c true env src inItem n = .ok kids ∧ (∀ s ∈ GM.Proof.InlinesTotal.segsOfL kids, segInRange src s) ∧
      csHL kids = true := by
  unfold inlinePhaseL
  split
  · exact ⟨[], rfl, fun s hs => by simp [GM.Proof.InlinesTotal.segsOfL] at hs, rfl⟩
  · rename_i hr
    split
    · exact ⟨[], rfl, fun s hs => by simp [GM.Proof.InlinesTotal.segsOfL] at hs, rfl⟩
    · rename_i hrow
      split
      · exact ⟨[], rfl, fun s hs => by simp [GM.Proof.InlinesTotal.segsOfL] at hs, rfl⟩
      · rename_i hcell
        unfold inlineLinesL
        split
        · exact ⟨[], rfl, fun s hs => by simp [GM.Proof.InlinesTotal.segsOfL] at hs, rfl⟩
        · rename_i he
          have hw : GM.Proof.InlinesReader.WF0 src n.lines :=
            h.wf0 (by simpa using hr) (by simpa using hrow) (by simpa using hcell) (by intro e; rw [e] at he; simp at he)
          have hb : GM.LinkRef.wf0B src n.lines = true := wf0B_complete hw
          rw [hb]
          simp only [Bool.not_true, Bool.and_false, Bool.false_eq_true, if_false]
          obtain ⟨kids, hk, hs⟩ := parseBlockL_total_segs c inItem hw.1 hw.2 env
          exact ⟨kids, by rw [hk]; rfl, hs, parseBlockG_csHL c inItem env src _ kids hk⟩

theorem blockKindX_total (c : XCfg) {n : GM.Blocks.Node} (h : RawSegsP src n) : ∃ k, blockKindX c src n = .ok k := by
  unfold blockKindX
  split
  · split
    · exact ⟨_, rfl⟩
    · exact blockKind_total h
  · exact blockKind_total h

/-- the kinds `blockKindX` answers, with the clause of `okN` -/
theorem blockKindX_okN (c : XCfg) {n : GM.Blocks.Node} {k : Kind} (hn : HeadP n) (h : blockKindX c src n = .ok k)
    (cs : List GM.Node) (hc : okL cs = true) : okN (.mk k none cs) = true := by
  unfold blockKindX at h
  split at h
  · split at h
    · rename_i k' hk
      rw [epure_ok h]
      unfold GM.TableX.kindOf at hk
      split at hk
      · split at hk
        · cases hk; simp [okN, hc]
        · split at hk
          · cases hk; simp [okN, hc]
          · split at hk
            · cases hk; simp [okN, hc]
            · split at hk
              · cases hk; simp [okN, hc]
              · cases hk
      · cases hk
    · exact okN_block k cs (blockKind_ok hn h) hc
  · exact okN_block k cs (blockKind_ok hn h) hc

mutual
theorem docTreeL_totalX (c : GCfg) (env : Env) (escs : List Int) (hE : escs.Pairwise (· < ·)) :
    ∀ (inItem : Bool) (t : GM.Blocks.Tree), treeAll (fun n => NodeTotX c src n ∧ HeadP n) t →
    ∃ x, docTreeL c true env src escs inItem t = .ok x ∧ okN x = true
  | inItem, .node n cs, ha => by
    simp only [treeAll] at ha
    obtain ⟨bs, hbs, hbo⟩ := docTreesL_totalX c env escs hE (n.kind == .listItem) true cs ha.2
    obtain ⟨kids, hk, hsegs, hcs⟩ := inlinePhaseL_totalX c (env := env) (inItem := inItem) ha.1.1
    have hkids' : (∀ s ∈ GM.Proof.InlinesTotal.segsOfL
          (if c.base.table && GM.TableX.isCellNode src n then GM.TableX.escNodes escs kids else kids), segInRange src s) ∧
        csHL (if c.base.table && GM.TableX.isCellNode src n then GM.TableX.escNodes escs kids else kids) = true := by
      split
      · exact ⟨escNodes_range src escs hE kids hsegs, escNodes_csHL escs kids hcs⟩
      · exact ⟨hsegs, hcs⟩
    obtain ⟨is, his⟩ := inlineTreesL_total (src := src) c _ hkids'.1
    have hio := inlineTreesL_okL c _ hkids'.2 is his
    obtain ⟨k, hkk⟩ := blockKindX_total c.base (src := src) ha.1.1.raw
    refine ⟨.mk k none (bs ++ is), ?_, blockKindX_okN c.base ha.1.2 hkk _ (by rw [okL_append, hbo, hio]; rfl)⟩
    unfold docTreeL
    simp only [bind, Except.bind, hbs, hk, his, hkk, liftErr, pure, Except.pure]
theorem docTreesL_totalX (c : GCfg) (env : Env) (escs : List Int) (hE : escs.Pairwise (· < ·)) :
    ∀ (pi first : Bool) (ts : List GM.Blocks.Tree), treesAll (fun n => NodeTotX c src n ∧ HeadP n) ts →
    ∃ xs, docTreesL c true env src escs pi first ts = .ok xs ∧ okL xs = true
  | _, _, [], _ => ⟨[], by unfold docTreesL; rfl, rfl⟩
  | pi, first, t :: rest, ha => by
    simp only [treesAll] at ha
    obtain ⟨x, hx, hxo⟩ := docTreeL_totalX c env escs hE (pi && first) t ha.1
    obtain ⟨xs, hxs, hxso⟩ := docTreesL_totalX c env escs hE pi false rest ha.2
    refine ⟨x :: xs, ?_, by simp [okL, hxo, hxso]⟩
    unfold docTreesL
    simp only [bind, Except.bind, hx, hxs, pure, Except.pure]
end

/-- **all 16 member sets: `convertL` answers HTML whenever the block phase (with the table paragraph transformer when Table is
    on) answers a store whose tree nodes are good and whose escaped-pipe positions are ascending** -/
theorem convertL_total_of_treeX (c : GCfg) (uc : List (Nat × (Bool × Bool))) (o : ROpts)
    (st : GM.Blocks.St) (hst : blockPhaseX c.base true src = .ok st)
    (h0 : NodeTotX c src (st.nodes.getD 0 default) ∧ HeadP (st.nodes.getD 0 default))
    (hk : ∀ p ch, ch ∈ (st.nodes.getD p default).children →
      NodeTotX c src (st.nodes.getD ch default) ∧ HeadP (st.nodes.getD ch default))
    (hE : (if c.base.table then GM.TableX.escOfTree src (GM.Blocks.treeOf st.nodes st.nodes.length 0) else []).Pairwise (· < ·)) :
    ∃ html, convertL c uc o src = .ok html := by
  obtain ⟨t, htree, hok⟩ := docTreeL_totalX (src := src) c { refs := st.pc.refs, uc := uc } _ hE false _
    (treeOf_all_reach st.nodes hk st.nodes.length 0 h0)
  have hpd : parseDocL c true uc src = .ok t := by
    unfold parseDocL
    simp only [bind, Except.bind, hst, liftErr]
    exact htree
  refine ⟨render (rcfgX c.base o) t, ?_⟩
  unfold convertL convertLWith renderDocX
  simp only [bind, Except.bind, hpd, renderPanics_none_of_okN _ t hok]

/-- the same with the frame invariants discharged (GM.Proof.ConvertXE2EKeeps: the table transformer keeps heading levels and
    the info / closure segments): what is left are facts about LINES and the escaped-pipe positions only -/
theorem convertL_total_of_lines_facts (c : GCfg) (uc : List (Nat × (Bool × Bool))) (o : ROpts)
    (st : GM.Blocks.St) (hst : blockPhaseX c.base true src = .ok st)
    (hL : ∀ n ∈ st.nodes, isRawKind n.kind = true → ∀ t ∈ n.lines, segInRange src t)
    (hW : ∀ p ch, ch ∈ (st.nodes.getD p default).children → isRawKind (st.nodes.getD ch default).kind = false →
      (c.base.table && GM.TableX.isRowNode src (st.nodes.getD ch default)) = false →
      (c.base.table && GM.TableX.isCellNode src (st.nodes.getD ch default) &&
        (st.nodes.getD ch default).lines.all (fun s => s.start == s.stop && s.padding == 0)) = false →
      (st.nodes.getD ch default).lines ≠ [] → GM.Proof.InlinesReader.WF0 src (st.nodes.getD ch default).lines)
    (h0 : (st.nodes.getD 0 default).lines = [])
    (hE : (if c.base.table then GM.TableX.escOfTree src (GM.Blocks.treeOf st.nodes st.nodes.length 0) else []).Pairwise (· < ·)) :
    ∃ html, convertL c uc o src = .ok html := by
  have hx := blockPhaseX_xsegs c.base true src st hst
  have hH := blockPhaseX_headOK c.base true src st hst
  have raw : ∀ i, RawSegsP src (st.nodes.getD i default) := by
    intro i
    by_cases hlt : i < st.nodes.length
    · have e : st.nodes.getD i default = st.nodes[i] := by simp [List.getD, hlt]
      have hm : st.nodes[i] ∈ st.nodes := List.getElem_mem hlt
      rw [e]
      exact ⟨fun hr t ht => hL _ hm hr t ht, (hx _ hm).info, (hx _ hm).closure⟩
    · have e : st.nodes.getD i default = default := by
        simp [List.getD, List.getElem?_eq_none (Nat.le_of_not_lt hlt)]
      rw [e]; exact rawSegsP_default src
  exact convertL_total_of_treeX c uc o st hst
    ⟨⟨raw 0, fun _ _ _ hne => absurd h0 hne⟩, headOK_getD hH 0⟩
    (fun p ch hc => ⟨⟨raw ch, hW p ch hc⟩, headOK_getD hH ch⟩) hE

end GM.Proof.ConvertXE2E
