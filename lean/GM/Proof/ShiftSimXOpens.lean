/-
  GM.Proof.ShiftSimXOpens — at the top of the outer loop of `parseBlocks` (nothing open) on a line that is not
  blank, `openBlocks` answers `newBlocksOpened` (`openBlocks0_new`); `skipBlankLinesR` stops with `true` exactly on
  a line that is not blank (`skipBlankLinesR_nonblank`).
-/
import GM.Proof.ShiftSimMainL
import GM.Proof.IndepEnd

namespace GM.Blocks.Xs
open GM GM.Text GM.Spec GM.Proof.Reader GM.Blocks GM.Blocks.L

/-! ### the source of the reader never changes -/

/-- the source of the reader is `src` -/
def xo_SrcIs (src : Bytes) : St → Prop := fun s => s.r.source = src

theorem xo_peekLine_source (r r' : Reader) (x : Option Bytes × Segment)
    (h : r.peekLine = .ok (x, r')) : r'.source = r.source := by
  unfold Reader.peekLine at h
  split at h
  · split at h
    · cases h; rfl
    · cases hv : r.pos.value r.source with
      | error e => rw [hv] at h; cases h
      | ok v => rw [hv] at h; cases h; rfl
  · cases h; rfl

theorem xo_lineOffsetOp_source (r r' : Reader) (x : Int)
    (h : r.lineOffsetOp = .ok (x, r')) : r'.source = r.source := by
  unfold Reader.lineOffsetOp at h
  split at h
  · cases hv : colLoop r.source r.head r.pos.start with
    | error e => rw [hv] at h; cases h
    | ok v => rw [hv] at h; cases h; rfl
  · cases h; rfl

theorem xo_advanceLine_source (r : Reader) : r.advanceLine.source = r.source := by
  unfold Reader.advanceLine
  simp only
  split <;> rfl

theorem xo_advanceLoop_source : ∀ (n : Nat) (r r' : Reader), r.advanceLoop n = .ok r' → r'.source = r.source := by
  intro n
  induction n with
  | zero => intro r r' h; unfold Reader.advanceLoop at h; cases h; rfl
  | succ n ih =>
    intro r r' h
    unfold Reader.advanceLoop at h
    split at h
    · split at h
      · have := ih _ _ h; exact this
      · cases hg : getByte r.source r.pos.start with
        | error e => rw [hg] at h; cases h
        | ok c =>
          rw [hg] at h
          simp only [bind, Except.bind] at h
          split at h
          · exact (ih _ _ h).trans (xo_advanceLine_source r)
          · have := ih _ _ h; exact this
    · cases h; rfl

theorem xo_advance_source (n : Int) (r r' : Reader) (h : r.advance n = .ok r') : r'.source = r.source := by
  unfold Reader.advance at h
  simp only at h
  split at h
  all_goals
    split at h
    · cases h; rfl
    · have := xo_advanceLoop_source _ _ _ h; exact this

theorem xo_advanceAndSetPadding_source (n p : Int) (r r' : Reader) (h : r.advanceAndSetPadding n p = .ok r') :
    r'.source = r.source := by
  unfold Reader.advanceAndSetPadding at h
  cases ha : Reader.advance n r with
  | error e => rw [ha] at h; cases h
  | ok r1 =>
    rw [ha] at h
    have e1 := xo_advance_source n r r1 ha
    simp only [bind, Except.bind] at h
    split at h <;> cases h <;> exact e1

section prims
variable {src : Bytes}

theorem xo_peekLine_ks : Keeps (xo_SrcIs src) peekLine := by
  intro s a s' hs h
  unfold peekLine at h
  cases hp : s.r.peekLine with
  | error e => rw [hp] at h; cases h
  | ok p =>
    rw [hp] at h; cases h
    exact (xo_peekLine_source _ _ _ hp).trans hs

theorem xo_lineOffset_ks : Keeps (xo_SrcIs src) lineOffset := by
  intro s a s' hs h
  unfold lineOffset at h
  cases hp : s.r.lineOffsetOp with
  | error e => rw [hp] at h; cases h
  | ok p =>
    rw [hp] at h; cases h
    exact (xo_lineOffsetOp_source _ _ _ hp).trans hs

theorem xo_advance_ks (n : Int) : Keeps (xo_SrcIs src) (advance n) := by
  intro s a s' hs h
  unfold advance at h
  cases hp : s.r.advance n with
  | error e => rw [hp] at h; cases h
  | ok p =>
    rw [hp] at h; cases h
    exact (xo_advance_source _ _ _ hp).trans hs

theorem xo_advanceAndSetPadding_ks (n p : Int) : Keeps (xo_SrcIs src) (advanceAndSetPadding n p) := by
  intro s a s' hs h
  unfold advanceAndSetPadding at h
  cases hp : s.r.advanceAndSetPadding n p with
  | error e => rw [hp] at h; cases h
  | ok q =>
    rw [hp] at h; cases h
    exact (xo_advanceAndSetPadding_source _ _ _ _ hp).trans hs

theorem xo_advanceLine_ks : Keeps (xo_SrcIs src) advanceLine := by
  intro s a s' hs h; cases h
  exact (xo_advanceLine_source _).trans hs

theorem xo_setPosition_ks (l : Int) (p : Segment) : Keeps (xo_SrcIs src) (setPosition l p) := by
  intro s a s' hs h; cases h
  exact hs

theorem xo_srcIs_noNodes : NoNodes (xo_SrcIs src) := ⟨fun _ _ hs => hs⟩

theorem xo_modNode_ks (id : Nat) (f : Node → Node) : Keeps (xo_SrcIs src) (modNode id f) :=
  modNode_keeps xo_srcIs_noNodes id f

theorem xo_newNode_ks (n : Node) : Keeps (xo_SrcIs src) (newNode n) := newNode_keeps xo_srcIs_noNodes n

theorem xo_appendLine_ks (id : Nat) (seg : Segment) : Keeps (xo_SrcIs src) (appendLine id seg) :=
  appendLine_keeps xo_srcIs_noNodes id seg

theorem xo_modPc_ks (f : Ctx → Ctx) : Keeps (xo_SrcIs src) (modPc f) := modPc_keeps f fun _ hs => hs

end prims

macro "xo_ks_step" : tactic =>
  `(tactic| first
    | with_reducible apply Keeps.pure
    | with_reducible apply Keeps.bind
    | with_reducible apply Keeps.ite
    | with_reducible apply Keeps.throw
    | with_reducible apply getNode_keeps
    | with_reducible apply getPc_keeps
    | with_reducible apply source_keeps
    | with_reducible apply position_keeps
    | with_reducible apply get_keeps
    | with_reducible apply liftE_keeps
    | with_reducible apply lastOpenedBlock_keeps
    | with_reducible apply xo_peekLine_ks
    | with_reducible apply xo_lineOffset_ks
    | with_reducible apply xo_advance_ks
    | with_reducible apply xo_advanceAndSetPadding_ks
    | with_reducible apply xo_advanceLine_ks
    | with_reducible apply xo_setPosition_ks
    | with_reducible apply xo_modNode_ks
    | with_reducible apply xo_newNode_ks
    | with_reducible apply xo_appendLine_ks
    | with_reducible apply xo_modPc_ks
    | apply_hyp
    | intro_pi
    | split)

/-- walk over an `M` do block that keeps `r.source` -/
macro "xo_ks" : tactic => `(tactic| repeat' xo_ks_step)

section parsers
variable (src : Bytes)

theorem xo_lastOffset_ks (n : Nat) : Keeps (xo_SrcIs src) (lastOffset n) := by
  unfold lastOffset; xo_ks

theorem xo_preserveLeadingTab_ks (seg : Segment) (ind : Int) : Keeps (xo_SrcIs src) (preserveLeadingTab seg ind) := by
  unfold preserveLeadingTab; xo_ks

theorem xo_paragraphOpen_ks (p : Nat) : Keeps (xo_SrcIs src) (paragraphOpen p) := by
  unfold paragraphOpen; xo_ks

theorem xo_thematicOpen_ks (p : Nat) : Keeps (xo_SrcIs src) (thematicOpen p) := by
  unfold thematicOpen; xo_ks

theorem xo_atxOpen_ks (p : Nat) : Keeps (xo_SrcIs src) (atxOpen p) := by
  unfold atxOpen; xo_ks

theorem xo_setextOpen_ks (p : Nat) : Keeps (xo_SrcIs src) (setextOpen p) := by
  unfold setextOpen; xo_ks

theorem xo_codeTakeLine_ks (n : Nat) (pos padding : Int) : Keeps (xo_SrcIs src) (codeTakeLine n pos padding) := by
  have := xo_preserveLeadingTab_ks src
  unfold codeTakeLine; xo_ks

theorem xo_codeOpen_ks (p : Nat) : Keeps (xo_SrcIs src) (codeOpen p) := by
  have := xo_codeTakeLine_ks src
  unfold codeOpen; xo_ks

theorem xo_fencedOpen_ks (p : Nat) : Keeps (xo_SrcIs src) (fencedOpen p) := by
  unfold fencedOpen; xo_ks

theorem xo_htmlOpen_ks (p : Nat) : Keeps (xo_SrcIs src) (htmlOpen p) := by
  unfold htmlOpen; xo_ks

theorem xo_listOpen_ks (p : Nat) : Keeps (xo_SrcIs src) (listOpen p) := by
  unfold listOpen; xo_ks

theorem xo_listItemOpen_ks (p : Nat) : Keeps (xo_SrcIs src) (listItemOpen p) := by
  have := xo_lastOffset_ks src
  unfold listItemOpen; xo_ks

theorem xo_blockquoteProcess_ks : Keeps (xo_SrcIs src) blockquoteProcess := by
  unfold blockquoteProcess; xo_ks

theorem xo_blockquoteOpen_ks (p : Nat) : Keeps (xo_SrcIs src) (blockquoteOpen p) := by
  have := xo_blockquoteProcess_ks src
  unfold blockquoteOpen; xo_ks

theorem xo_bpOpen_ks (bp : BP) (p : Nat) : Keeps (xo_SrcIs src) (bpOpen bp p) := by
  cases bp <;> unfold bpOpen
  · exact xo_setextOpen_ks src p
  · exact xo_thematicOpen_ks src p
  · exact xo_listOpen_ks src p
  · exact xo_listItemOpen_ks src p
  · exact xo_codeOpen_ks src p
  · exact xo_atxOpen_ks src p
  · exact xo_fencedOpen_ks src p
  · exact xo_blockquoteOpen_ks src p
  · exact xo_htmlOpen_ks src p
  · exact xo_paragraphOpen_ks src p

end parsers

/-! ### (2) `skipBlankLinesR` stops with `true` on a line that is not blank -/

theorem xo_skip (src : Bytes) : ∀ (fuel : Nat) (lines : Int) (r r' : Reader) (c : RCur) (x : Segment × Int × Bool),
    RI src r c → PadOK c → skipBlankLines readerOps fuel lines r = .ok (x, r') → x.2.2 = true →
    ∃ c', RI src r' c' ∧ PadOK c' ∧ c'.p < src.length ∧ isBlank ((RCur.view src c').getD []) = false := by
  intro fuel
  induction fuel with
  | zero => intro _ _ _ _ _ _ _ h; unfold skipBlankLines at h; cases h
  | succ fuel ih =>
    intro lines r r' c x hri hpad h hok
    obtain ⟨r1, e1, h1⟩ := ri_peekLine hri
    unfold skipBlankLines at h
    simp only [readerOps, e1, bind, Except.bind, pure, Except.pure] at h
    cases hv : RCur.view src c with
    | none => rw [hv] at h; simp only [] at h; cases h; cases hok
    | some l =>
      rw [hv] at h
      simp only [] at h
      by_cases hb : isBlank l = true
      · rw [if_pos hb] at h
        have hp2 : PadOK (RCur.advanceLine src c) := by intro hh; simp [RCur.advanceLine] at hh
        exact ih (lines + 1) r1.advanceLine r' _ x (ri_advanceLine h1) hp2 h hok
      · rw [if_neg hb] at h
        cases h
        refine ⟨c, h1, hpad, ?_, ?_⟩
        · by_cases hp : c.p < src.length
          · exact hp
          · rw [view_none src c hp] at hv; cases hv
        · rw [hv]; simpa using hb

theorem skipBlankLinesR_nonblank (src : Bytes) (s s' : St) (x : Segment × Int × Bool) (c : RCur)
    (hri : RI src s.r c) (hpad : PadOK c) (h : skipBlankLinesR s = .ok (x, s')) (hok : x.2.2 = true) :
    ∃ c', RI src s'.r c' ∧ PadOK c' ∧ c'.p < src.length ∧ isBlank ((RCur.view src c').getD []) = false ∧
      s'.nodes = s.nodes ∧ s'.pc = s.pc := by
  unfold skipBlankLinesR at h
  cases hp : skipBlankLines readerOps (loopFuel s.r.source) 0 s.r with
  | error e => rw [hp] at h; cases h
  | ok q =>
    rw [hp] at h; cases h
    obtain ⟨c', a1, a2, a3, a4⟩ := xo_skip src _ _ _ _ c q.1 hri hpad hp hok
    exact ⟨c', a1, a2, a3, a4, rfl, rfl⟩

/-! ### (1) structure: `newBlocksOpened` is never taken back -/

theorem xo_tpSome_ret (parent node : Nat) (bp : BP) (state : PState) (lastBlock : Option Block) (blankLine : Bool)
    (last : Option Nat) :
    Ret (Sh.tpSome parent node bp state lastBlock blankLine last) (fun x => x.2.1 = OpenResult.newBlocksOpened) := by
  unfold Sh.tpSome Sh.tpJp3 Sh.tpJp1 Sh.tpJp2
  ret

theorem xo_toContinuable_new (cont : Bool) (lb : Option Block) (s s' : St) (x : OpenResult)
    (h : toContinuable cont .newBlocksOpened lb s = .ok (x, s')) : x = .newBlocksOpened := by
  rcases (toContinuable_opened cont _ lb s x s' h).2 with h1 | ⟨h1, _⟩
  · exact h1
  · cases h1

theorem xo_tryParsers_new (parent : Nat) (blank cont : Bool) (w : Int) (bps : List BP) (lb : Option Block) (s s' : St)
    (x : TryOutcome × OpenResult × Option Block)
    (h : tryParsers parent blank cont w bps .newBlocksOpened lb s = .ok (x, s')) : x.2.1 = .newBlocksOpened := by
  rcases tryParsers_opened parent blank cont w bps _ lb s x s' h with h1 | ⟨_, h1, _⟩
  · exact h1
  · exact h1

/-- the rest of `oblTry` after a candidate loop that answered `newBlocksOpened` -/
theorem xo_oblTry_of (blank cont : Bool) (fuel : Nat)
    (ih : ∀ (parent : Nat) (lb : Option Block) (s s' : St) (x : OpenResult),
      openBlocksLoop blank cont fuel parent .newBlocksOpened lb s = .ok (x, s') → x = .newBlocksOpened)
    (parent : Nat) (w : Int) (result : OpenResult) (lb : Option Block) (bps : List BP) (s s' : St) (x : OpenResult)
    (htp : ∀ y s2, tryParsers parent blank cont w bps result lb s = .ok (y, s2) → y.2.1 = .newBlocksOpened)
    (h : Sh.oblTry blank cont fuel parent w result lb bps s = .ok (x, s')) : x = .newBlocksOpened := by
  unfold Sh.oblTry at h
  obtain ⟨s0, s1, h1, hA⟩ := Sh.bind_ok_inv h
  cases h1
  obtain ⟨y, s2, h2, hB⟩ := Sh.bind_ok_inv hA
  have hy1 := htp y s2 h2
  cases hy : y.1 with
  | done =>
    rw [hy, hy1] at hB
    exact xo_toContinuable_new _ _ _ _ _ hB
  | retry p' =>
    rw [hy, hy1] at hB
    obtain ⟨s3, s4, h3, hC⟩ := Sh.bind_ok_inv hB
    cases h3
    split at hC
    · obtain ⟨_, _, h4, _⟩ := Sh.bind_ok_inv hC
      cases h4
    · exact ih p' _ _ _ _ hC

/-- once `result = newBlocksOpened`, the retry loop answers `newBlocksOpened` -/
theorem xo_openBlocksLoop_new (blank cont : Bool) :
    ∀ (fuel parent : Nat) (lb : Option Block) (s s' : St) (x : OpenResult),
      openBlocksLoop blank cont fuel parent .newBlocksOpened lb s = .ok (x, s') → x = .newBlocksOpened := by
  intro fuel
  induction fuel with
  | zero =>
    intro parent lb s s' x h
    unfold openBlocksLoop at h
    cases h
  | succ fuel ih =>
    intro parent lb s s' x h
    rw [Sh.openBlocksLoop_succ] at h
    obtain ⟨lp, s1, h1, hA⟩ := Sh.bind_ok_inv h
    obtain ⟨lo, s2, h2, hB⟩ := Sh.bind_ok_inv hA
    obtain ⟨_, s3, h3, hC⟩ := Sh.bind_ok_inv hB
    by_cases c1 : lp.1.isNone = true
    · rw [if_pos c1] at hC
      exact xo_toContinuable_new _ _ _ _ _ hC
    rw [if_neg c1] at hC
    obtain ⟨c0, s4, h4, hD⟩ := Sh.bind_ok_inv hC
    by_cases c2 : (c0 == 10) = true
    · rw [if_pos c2] at hD
      exact xo_toContinuable_new _ _ _ _ _ hD
    rw [if_neg c2] at hD
    split at hD
    · obtain ⟨c, s5, h5, hE⟩ := Sh.bind_ok_inv hD
      exact xo_oblTry_of blank cont fuel ih parent _ _ lb _ _ _ _
        (fun y s2 e => xo_tryParsers_new _ _ _ _ _ _ _ _ _ e) hE
    · exact xo_oblTry_of blank cont fuel ih parent _ _ lb _ _ _ _
        (fun y s2 e => xo_tryParsers_new _ _ _ _ _ _ _ _ _ e) hD

/-! ### (1) the paragraph parser opens on a line that is not blank -/

theorem xo_takeWhile_lt (p : UInt8 → Bool) : ∀ (v : Bytes), v.all p = false → (v.takeWhile p).length < v.length := by
  intro v
  induction v with
  | nil => intro h; simp at h
  | cons a v ih =>
    intro h
    by_cases ha : p a = true
    · rw [List.takeWhile_cons_of_pos ha]
      have : v.all p = false := by
        simp only [List.all_cons, ha, Bool.true_and] at h; exact h
      have := ih this
      simp only [List.length_cons]; omega
    · rw [List.takeWhile_cons_of_neg ha]
      simp

theorem xo_all_spaces (n : Nat) : (spaces n).all isSpace = true := by
  unfold spaces
  simp only [List.all_replicate]
  have : isSpace 32 = true := by decide
  simp [this]

theorem xo_peekLine_seg (r r' : Reader) (x : Option Bytes × Segment) (h : r.peekLine = .ok (x, r')) : x.2 = r.pos := by
  unfold Reader.peekLine at h
  split at h
  · split at h
    · cases h; rfl
    · cases hv : r.pos.value r.source with
      | error e => rw [hv] at h; cases h
      | ok v => rw [hv] at h; cases h; rfl
  · cases h; rfl

theorem xo_peekLineM_inv {s s' : St} {x : Option Bytes × Segment} (h : peekLine s = .ok (x, s')) :
    ∃ r', s.r.peekLine = .ok (x, r') ∧ s' = { s with r := r' } := by
  unfold peekLine at h
  cases hp : s.r.peekLine with
  | error e => rw [hp] at h; cases h
  | ok p => rw [hp] at h; cases h; exact ⟨_, rfl, rfl⟩

theorem xo_lineOffsetM_inv {s s' : St} {x : Int} (h : lineOffset s = .ok (x, s')) :
    ∃ r', s.r.lineOffsetOp = .ok (x, r') ∧ s' = { s with r := r' } := by
  unfold lineOffset at h
  cases hp : s.r.lineOffsetOp with
  | error e => rw [hp] at h; cases h
  | ok p => rw [hp] at h; cases h; exact ⟨_, rfl, rfl⟩

/-- the cursor position as a segment -/
def xo_P (src : Bytes) (c : RCur) : Segment :=
  { start := c.p, stop := lineEnd src c.p, padding := c.pad, forceNewline := false }

theorem xo_paragraphOpen_some (src : Bytes) (c : RCur) (hlt : c.p < src.length)
    (hnb : isBlank ((RCur.view src c).getD []) = false) (parent : Nat) (s s' : St) (y : Option Nat × PState)
    (hpos : s.r.pos = xo_P src c) (hsrc : s.r.source = src) (h : paragraphOpen parent s = .ok (y, s')) :
    y.1.isSome = true := by
  rw [view_eq src c hlt] at hnb
  simp only [Option.getD_some] at hnb
  have hv : (sub src c.p (lineEnd src c.p)).all isSpace = false := by
    unfold isBlank at hnb
    rw [List.all_append, xo_all_spaces, Bool.true_and] at hnb
    exact hnb
  have hle := lineEnd_le src c.p
  have hge := lineEnd_ge src (Nat.le_of_lt hlt)
  have hlen : (sub src c.p (lineEnd src c.p)).length = lineEnd src c.p - c.p := by
    unfold sub
    simp only [List.length_take, List.length_drop]
    omega
  have htl := xo_takeWhile_lt isSpace _ hv
  unfold paragraphOpen at h
  obtain ⟨lp, s1, h1, hA⟩ := Sh.bind_ok_inv h
  obtain ⟨r1, e1, rfl⟩ := xo_peekLineM_inv h1
  have hseg := xo_peekLine_seg _ _ _ e1
  have hsrc1 := xo_peekLine_source _ _ _ e1
  obtain ⟨l, seg⟩ := lp
  simp only at hseg
  subst hseg
  dsimp only at hA
  obtain ⟨b, s2, h2, hB⟩ := Sh.bind_ok_inv hA
  cases h2
  obtain ⟨seg2, s3, h3, hC⟩ := Sh.bind_ok_inv hB
  obtain ⟨e3, rfl⟩ := Sh.liftE_ok_inv h3
  have hne : seg2.isEmpty = false := by
    simp only [hsrc1, hsrc, hpos] at e3
    unfold Segment.trimLeftSpace sliceB xo_P at e3
    simp only at e3
    rw [if_pos ⟨by omega, by omega, by omega⟩] at e3
    simp only [bind, Except.bind, pure, Except.pure, Int.toNat_natCast] at e3
    cases e3
    unfold Segment.isEmpty
    simp only [trimLeftSpaceLength]
    have : ¬ ((c.p : Int) + ((List.takeWhile isSpace (sub src c.p (lineEnd src c.p))).length : Int) ≥ (lineEnd src c.p : Int)) := by
      omega
    simp [this]
  rw [hne] at hC
  simp only [Bool.false_eq_true, if_false] at hC
  obtain ⟨node, s4, h4, hD⟩ := Sh.bind_ok_inv hC
  obtain ⟨_, s5, h5, hE⟩ := Sh.bind_ok_inv hD
  obtain ⟨_, s6, h6, hF⟩ := Sh.bind_ok_inv hE
  cases hF
  rfl

/-! ### (1) the code block parser opens on an indented line that is not blank -/

theorem xo_peekLine_ri {src : Bytes} {s s' : St} {c : RCur} {x : Option Bytes × Segment} (hri : RI src s.r c)
    (h : peekLine s = .ok (x, s')) :
    x = (RCur.view src c, RCur.seg src c) ∧ RI src s'.r c ∧ s'.nodes = s.nodes ∧ s'.pc = s.pc := by
  obtain ⟨r', e1, rfl⟩ := xo_peekLineM_inv h
  obtain ⟨r1, e2, h2⟩ := ri_peekLine hri
  rw [e1] at e2
  cases e2
  exact ⟨rfl, h2, rfl, rfl⟩

theorem xo_lineOffset_ri {src : Bytes} {s s' : St} {c : RCur} {x : Int} (hri : RI src s.r c) (hlt : c.p < src.length)
    (h : lineOffset s = .ok (x, s')) :
    x = loVal src c ∧ RI src s'.r c ∧ s'.nodes = s.nodes ∧ s'.pc = s.pc := by
  obtain ⟨r', e1, rfl⟩ := xo_lineOffsetM_inv h
  obtain ⟨v, r1, e2, h2, h3⟩ := ri_lineOffset hri
  rw [e1] at e2
  cases e2
  exact ⟨h3 hlt, h2, rfl, rfl⟩

theorem xo_codeOpen_some (src : Bytes) (c : RCur) (hlt : c.p < src.length)
    (hnb : isBlank ((RCur.view src c).getD []) = false)
    (hw : 3 < (indentWidthI ((RCur.view src c).getD []) (loVal src c)).1)
    (parent : Nat) (s s' : St) (y : Option Nat × PState)
    (hri : RI src s.r c) (h : codeOpen parent s = .ok (y, s')) : y.1.isSome = true := by
  unfold codeOpen at h
  obtain ⟨lp, s1, h1, hA⟩ := Sh.bind_ok_inv h
  obtain ⟨rfl, hri1, _, _⟩ := xo_peekLine_ri hri h1
  dsimp only at hA
  obtain ⟨lo, s2, h2, hB⟩ := Sh.bind_ok_inv hA
  obtain ⟨rfl, hri2, _, _⟩ := xo_lineOffset_ri hri1 hlt h2
  have hip := (li_indentPosition_ok ((RCur.view src c).getD []) (loVal src c) 4 (by omega) (by omega)).1
  have hcond : (decide ((indentPosition ((RCur.view src c).getD []) (loVal src c) 4).1 < 0) ||
      isBlank ((RCur.view src c).getD [])) = false := by
    rw [hnb]; simp; omega
  generalize hq : indentPosition ((RCur.view src c).getD []) (loVal src c) 4 = q at hB hcond
  obtain ⟨pos, padding⟩ := q
  dsimp only at hB hcond
  rw [hcond] at hB
  simp only [Bool.false_eq_true, if_false] at hB
  obtain ⟨node, s4, h4, hD⟩ := Sh.bind_ok_inv hB
  obtain ⟨_, s5, h5, hE⟩ := Sh.bind_ok_inv hD
  cases hE
  rfl

/-! ### (1) the candidate loop -/

theorem xo_tryParsers_para (src : Bytes) (P : Segment)
    (hP : ∀ parent s y s', s.r.pos = P → s.r.source = src → paragraphOpen parent s = .ok (y, s') → y.1.isSome = true)
    (parent : Nat) (blank : Bool) (w : Int) (hw : ¬ w > 3) :
    ∀ (bps : List BP) (result : OpenResult) (lb : Option Block) (s s' : St) (x : TryOutcome × OpenResult × Option Block),
      BP.paragraph ∈ bps → s.r.pos = P → s.r.source = src →
      tryParsers parent blank false w bps result lb s = .ok (x, s') → x.2.1 = .newBlocksOpened := by
  intro bps
  induction bps with
  | nil => intro _ _ _ _ _ hm; cases hm
  | cons bp bps ih =>
    intro result lb s s' x hm hpos hsrc h
    rw [Sh.tryParsers_cons] at h
    rw [if_neg (by simp)] at h
    rw [if_neg (by simp [hw])] at h
    obtain ⟨x0, s1, h1, hA⟩ := Sh.bind_ok_inv h
    obtain ⟨_, rfl⟩ := Sh.a2_lastOpenedBlock_inv h1
    obtain ⟨y, s2, h2, hB⟩ := Sh.bind_ok_inv hA
    cases hy : y.1 with
    | none =>
      rw [hy] at hB
      have hpos2 : s2.r.pos = P := (bpOpen_none_pos bp parent _ _ y h2 hy).trans hpos
      have hsrc2 : s2.r.source = src := xo_bpOpen_ks src bp parent _ _ _ hsrc h2
      rcases List.mem_cons.1 hm with e | hm'
      · subst e
        have := hP parent _ y s2 hpos hsrc h2
        rw [hy] at this; cases this
      · exact ih result x0 s2 s' x hm' hpos2 hsrc2 hB
    | some node =>
      rw [hy] at hB
      exact (xo_tpSome_ret parent node bp y.2 x0 blank _).h _ _ _ hB

theorem xo_tryParsers_code (parent : Nat) (blank : Bool) (w : Int) (hw : w > 3) (s : St)
    (hC : ∀ y s', codeOpen parent s = .ok (y, s') → y.1.isSome = true) :
    ∀ (bps : List BP) (result : OpenResult) (lb : Option Block) (s' : St) (x : TryOutcome × OpenResult × Option Block),
      BP.code ∈ bps →
      tryParsers parent blank false w bps result lb s = .ok (x, s') → x.2.1 = .newBlocksOpened := by
  intro bps
  induction bps with
  | nil => intro _ _ _ _ hm; cases hm
  | cons bp bps ih =>
    intro result lb s' x hm h
    rw [Sh.tryParsers_cons] at h
    rw [if_neg (by simp)] at h
    by_cases hbp : bp = .code
    · subst hbp
      rw [if_neg (by simp [BP.canAcceptIndentedLine])] at h
      obtain ⟨x0, s1, h1, hA⟩ := Sh.bind_ok_inv h
      obtain ⟨_, rfl⟩ := Sh.a2_lastOpenedBlock_inv h1
      obtain ⟨y, s2, h2, hB⟩ := Sh.bind_ok_inv hA
      have hs := hC y s2 h2
      cases hy : y.1 with
      | none => rw [hy] at hs; cases hs
      | some node =>
        rw [hy] at hB
        exact (xo_tpSome_ret parent node _ y.2 x0 blank _).h _ _ _ hB
    · have hna : bp.canAcceptIndentedLine = false := by
        cases bp <;> first | rfl | exact absurd rfl hbp
      rw [if_pos (by simp [hw, hna])] at h
      rcases List.mem_cons.1 hm with e | hm'
      · exact absurd e.symm hbp
      · exact ih result lb s' x hm' h

theorem xo_triggered_mem (ch : UInt8) :
    BP.code ∈ (triggered ch).getD freeParsers ∧ BP.paragraph ∈ (triggered ch).getD freeParsers := by
  unfold triggered
  repeat' split
  all_goals simp [freeParsers]

/-! ### (1) the first pass of the retry loop -/

theorem xo_idx0 {l : Bytes} {c : UInt8} (h : idx l 0 = .ok c) : l[0]? = some c := by
  unfold idx getByte at h
  rw [if_neg (by omega)] at h
  have e : (0 : Int).toNat = 0 := rfl
  rw [e] at h
  cases hg : l[0]? with
  | none => rw [hg] at h; cases h
  | some y => rw [hg] at h; cases h; rfl

/-- a line of the source whose first byte is a line feed is blank -/
theorem xo_first10_blank (src : Bytes) (c : RCur) (hlt : c.p < src.length)
    (h : ((RCur.view src c).getD [])[0]? = some 10) : isBlank ((RCur.view src c).getD []) = true := by
  rw [view_eq src c hlt] at h ⊢
  simp only [Option.getD_some] at h ⊢
  have hpad : c.pad = 0 := by
    cases hc : c.pad with
    | zero => rfl
    | succ n =>
      rw [hc] at h
      simp [spaces, List.replicate_succ] at h
  rw [hpad] at h ⊢
  have e0 : spaces 0 = [] := rfl
  rw [e0, List.nil_append] at h ⊢
  have hl := lt_lineEnd src hlt
  have h10 : src[c.p]? = some 10 := by
    unfold sub at h
    rw [List.getElem?_take, if_pos (by omega), List.getElem?_drop] at h
    simpa using h
  rw [lineEnd_nl src h10]
  unfold sub
  have e1 : c.p + 1 - c.p = 1 := by omega
  rw [e1, List.take_one, List.head?_drop, h10]
  decide

theorem xo_openBlocksLoop0 (src : Bytes) (blank : Bool) (fuel parent : Nat) (lb : Option Block) (s s' : St)
    (x : OpenResult) (c : RCur) (hri : RI src s.r c) (hlt : c.p < src.length)
    (hnb : isBlank ((RCur.view src c).getD []) = false)
    (h : openBlocksLoop blank false (fuel + 1) parent .noBlocksOpened lb s = .ok (x, s')) :
    x = .newBlocksOpened := by
  rw [Sh.openBlocksLoop_succ] at h
  obtain ⟨lp, s1, h1, hA⟩ := Sh.bind_ok_inv h
  obtain ⟨rfl, hri1, _, _⟩ := xo_peekLine_ri hri h1
  obtain ⟨lo, s2, h2, hB⟩ := Sh.bind_ok_inv hA
  obtain ⟨rfl, hri2, _, _⟩ := xo_lineOffset_ri hri1 hlt h2
  obtain ⟨_, s3, h3, hC⟩ := Sh.bind_ok_inv hB
  have e3 := Sh.a2_modPc_inv h3
  have hr3 : s3.r = s2.r := by rw [e3]
  have hri3 : RI src s3.r c := by rw [hr3]; exact hri2
  dsimp only at hC
  have c1 : ¬ ((RCur.view src c).isNone = true) := by rw [view_eq src c hlt]; simp
  rw [if_neg c1] at hC
  obtain ⟨c0, s4, h4, hD⟩ := Sh.bind_ok_inv hC
  obtain ⟨e4, e4s⟩ := Sh.liftE_ok_inv h4
  rw [e4s] at hD
  have c2 : ¬ ((c0 == 10) = true) := by
    intro hc
    have : c0 = 10 := by simpa using hc
    subst this
    have := xo_first10_blank src c hlt (xo_idx0 e4)
    rw [this] at hnb; cases hnb
  rw [if_neg c2] at hD
  have ih := xo_openBlocksLoop_new blank false fuel
  have key : ∀ (bps : List BP), BP.code ∈ bps → BP.paragraph ∈ bps →
      Sh.oblTry blank false fuel parent (indentWidthI ((RCur.view src c).getD []) (loVal src c)).1
        .noBlocksOpened lb bps s3 = .ok (x, s') → x = .newBlocksOpened := by
    intro bps hcode hpara hE
    refine xo_oblTry_of blank false fuel ih parent _ _ lb bps _ _ _ (fun y s5 e => ?_) hE
    by_cases hw : (indentWidthI ((RCur.view src c).getD []) (loVal src c)).1 > 3
    · exact xo_tryParsers_code parent blank _ hw s3
        (fun y s' e => xo_codeOpen_some src c hlt hnb (by omega) parent s3 s' y hri3 e) bps _ lb _ _ hcode e
    · refine xo_tryParsers_para src (xo_P src c)
        (fun parent s y s' a1 a2 a3 => xo_paragraphOpen_some src c hlt hnb parent s s' y a1 a2 a3)
        parent blank _ hw bps _ lb s3 _ _ hpara ?_ hri3.source e
      rw [hri3.pos]; rfl
  split at hD
  · obtain ⟨ch, s5, h5, hE⟩ := Sh.bind_ok_inv hD
    obtain ⟨_, e5s⟩ := Sh.liftE_ok_inv h5
    rw [e5s] at hE
    exact key _ (xo_triggered_mem ch).1 (xo_triggered_mem ch).2 hE
  · exact key freeParsers (by simp [freeParsers]) (by simp [freeParsers]) hD

/-- at the top of the outer loop (nothing open) on a line that is not blank, `openBlocks` opens a block -/
theorem openBlocks0_new (src : Bytes) (s s' : St) (blank : Bool) (r : OpenResult) (c : RCur)
    (hop : s.pc.opened = []) (hri : RI src s.r c) (hlt : c.p < src.length)
    (hnb : isBlank ((RCur.view src c).getD []) = false)
    (h : openBlocks 0 blank s = .ok (r, s')) : r = .newBlocksOpened := by
  unfold openBlocks at h
  obtain ⟨x0, s1, h1, hA⟩ := Sh.bind_ok_inv h
  obtain ⟨ex0, e1s⟩ := Sh.a2_lastOpenedBlock_inv h1
  rw [hop] at ex0
  rw [e1s, ex0] at hA
  simp only [List.getLast?_nil] at hA
  obtain ⟨cont, s2, h2, hB⟩ := Sh.bind_ok_inv hA
  cases h2
  obtain ⟨b, s3, h3, hC⟩ := Sh.bind_ok_inv hB
  cases h3
  have hf : retryFuel s.r.source = (2 * s.r.source.length + 7) + 1 := rfl
  rw [hf] at hC
  exact xo_openBlocksLoop0 src blank _ 0 none s s' r c hri hlt hnb hC

end GM.Blocks.Xs
