/-
  GM.Proof.CMFrag21Bridge — stage 21 (the union fragment with ALL inline atoms): the bridge from the spec-side documents
  `F21Doc` of GM.Spec.CMFrag to the proof-side blocks `FBlock21` of GM.Proof.CMFrag21Defs (mirror of CMFrag13Bridge):
  * `fatomOfS`, `flineOfS21`, `fblockOfS21`, `convF21`: a spec-side atom / line / block as its proof-side counterpart, an
    item as a pair (blank lines in front, byte lines);
  * `spellF21_raw`, `spellF21E_raw`: the source of a document is `rawDoc6` / `rawDoc6E` of its converted items;
  * `fgood_ofS21`: a block of the fragment is `FGood` (incl. the restriction `F21Restr` from `f21restrS`);
    `f21sepsOK_of` / `f21icOK_of` / `f21lastNotIc_of`: `f21sepsOK` gives `SepsOK6` and `IcOK6`, `f21lastNotIc` `LastNotIc`;
  * `fDocHtml_ofS21`: the proof-side HTML of the converted blocks is the prescribed HTML `expectedF21`.
-/
import GM.Proof.CMFrag21Defs
import GM.Proof.CMFrag13Bridge
import GM.Proof.CMFragRender16
import GM.Proof.CMFragRender17
import GM.Proof.CMFragRender18
import GM.Proof.CMFragRender19
import GM.Proof.CMFragRender20

namespace GM.Proof.CMFrag
open GM GM.Text GM.Blocks GM.Spec GM.Spec.CM GM.Spec.CMFrag

/-! ### the conversion -/

/-- a spec-side atom as source bytes -/
def fatomOfS : FAtomS → FAtom
  | .txt cs => .txt (escSpell cs)
  | .code c => .code c
  | .em c => .em c
  | .strong c => .strong c
  | .uem c => .uem c
  | .ustrong c => .ustrong c
  | .link t d => .link t d
  | .img t d => .img t d
  | .auto s r => .auto s r
  | .otag n => .otag n
  | .ctag n => .ctag n

def flineOfS21 (x : FLineS21) : FLine21 := ⟨x.atoms.map fatomOfS, x.hard⟩

def fblockOfS21 : FBlockS21 → FBlock21
  | .para lines => .para (lines.map flineOfS21)
  | .heading level text => .atx level (text.map fatomOfS)
  | .thematic c n => .hr (thematicLine c n false)
  | .fcode tilde n info lines => .fence (fenceChar tilde) n info lines
  | .icode lines => .icode lines

def convF21 (it : F21Item) : Nat × Raw5 := (it.sep, fraw (fblockOfS21 it.block))

/-! ### the source -/

theorem fatomSrc_fatomOfS21 (a : FAtomS) : fatomSrc (fatomOfS a) = spellFAtom a := by
  cases a <;> simp [fatomOfS, fatomSrc, spellFAtom, autoUri]

theorem flineSrc_fatomOfS21 (l : List FAtomS) : flineSrc (l.map fatomOfS) = spellFLineA l := by
  simp only [flineSrc, spellFLineA, List.flatMap_map]
  congr 1; funext a; exact fatomSrc_fatomOfS21 a

theorem flineSrc21_ofS21 (x : FLineS21) : flineSrc21 (flineOfS21 x) = spellFLine21 x := by
  obtain ⟨atoms, hard⟩ := x
  cases hard <;> simp [flineSrc21, flineOfS21, spellFLine21, flineSrc_fatomOfS21]

theorem paraBytes_fraw21 (b : FBlockS21) : paraBytes (lines5 (fraw (fblockOfS21 b))) = spellFBlock21 b := by
  cases b with
  | para lines =>
    simp only [fblockOfS21, fraw, lines5, lines4, paraBytes, spellFBlock21, List.flatMap_map, flineSrc21_ofS21]
  | heading level text =>
    simp [fblockOfS21, fraw, lines5, lines4, paraBytes, spellFBlock21, flineSrc_fatomOfS21]
  | thematic c n => exact paraBytes_rawOfH (.base (.thematic c n))
  | fcode tilde n info lines => exact paraBytes_rawOfH (.fcode tilde n info lines)
  | icode lines => exact paraBytes_rawOfI (.icode lines)

theorem spellF21_raw (d : F21Doc) : spellF21 d = rawDoc6 (d.items.map convF21) d.trail := by
  obtain ⟨items, trail⟩ := d
  simp only [spellF21]
  induction items with
  | nil => rfl
  | cons it rest ih =>
    simp only [List.flatMap_cons, List.map_cons, convF21, rawDoc6, paraBytes_fraw21, blanks_eq] at ih ⊢
    rw [← ih]
    simp

theorem lines5_fraw_ne21 (b : FBlockS21) (h : f21blockOKS b = true) : lines5 (fraw (fblockOfS21 b)) ≠ [] := by
  cases b with
  | para lines =>
    simp only [f21blockOKS, Bool.and_eq_true, Bool.not_eq_true', List.isEmpty_eq_false_iff] at h
    simpa [fblockOfS21, fraw, lines5, lines4] using h.1.1.1
  | heading level text => simp [fblockOfS21, fraw, lines5, lines4]
  | thematic c n => simp [fblockOfS21, fraw, lines5, lines4]
  | fcode tilde n info lines => simp [fblockOfS21, fraw, lines5]
  | icode lines =>
    simp only [f21blockOKS, Bool.and_eq_true, Bool.not_eq_true', List.isEmpty_eq_false_iff] at h
    simpa [fblockOfS21, fraw, lines5, icLines] using h.1

theorem f21frag_parts (d : F21Doc) (h : F21Frag d) :
    (∀ it ∈ d.items, f21blockOKS it.block = true) ∧ f21sepsOK none d.items = true := by
  unfold F21Frag f21fragB at h
  simp only [Bool.and_eq_true, List.all_eq_true] at h
  exact h

theorem f21fragE_parts (d : F21Doc) (h : F21FragE d) :
    F21Frag d ∧ d.trail = 0 ∧ d.items ≠ [] ∧ f21lastNotIc d = true := by
  unfold F21FragE f21fragEB at h
  simp only [Bool.and_eq_true, beq_iff_eq, Bool.not_eq_true', List.isEmpty_eq_false_iff] at h
  obtain ⟨⟨⟨hk, ht⟩, hne⟩, hl⟩ := h
  exact ⟨hk, ht, hne, hl⟩

theorem spellF21E_raw (d : F21Doc) (h : F21FragE d) : spellF21E d = rawDoc6E (d.items.map convF21) := by
  obtain ⟨hf, ht, hne, _⟩ := f21fragE_parts d h
  obtain ⟨hok, _⟩ := f21frag_parts d hf
  have hne' : d.items.map convF21 ≠ [] := by simpa using hne
  unfold spellF21E
  rw [spellF21_raw, ht, rawDoc6_dropLast _ hne' (by
    intro x hx
    obtain ⟨it, hit, rfl⟩ := List.mem_map.mp hx
    exact lines5_fraw_ne21 it.block (hok it hit))]

/-! ### the atoms and lines are good -/

theorem f21atomOKS_txt21 (cs : List TChar) (h : f21atomOKS (.txt cs) = true) : cs ≠ [] ∧ ∀ t ∈ cs, charOK t = true := by
  simp only [f21atomOKS, Bool.and_eq_true, Bool.not_eq_true', List.isEmpty_eq_false_iff, List.all_eq_true] at h
  exact h

theorem fatomOK_fatomOfS21 (a : FAtomS) (h : f21atomOKS a = true) : FAtomOK (fatomOfS a) := by
  cases a with
  | txt cs =>
    obtain ⟨hne, hall⟩ := f21atomOKS_txt21 cs h
    exact ⟨escSpell_ne_nil8 cs hne, fun i => quiet_escSpell cs hall i, escAfter_escSpell8 cs⟩
  | code c => exact alnumOK11 c h
  | em c => exact alnumOK11 c h
  | strong c => exact alnumOK11 c h
  | uem c => exact alnumOK11 c h
  | ustrong c => exact alnumOK11 c h
  | link t d => exact latomOKS_link16 t d h
  | img t d => exact imgatomOKS_img17 t d h
  | auto s r => exact aatomOKS_auto18 s r h
  | otag n => exact tagNameOK_of19 n h
  | ctag n => exact tagNameOK_of19 n h

theorem isTxt_fatomOfS21 (a : FAtomS) : (fatomOfS a).isTxt = a.isTxt := by cases a <;> rfl

theorem isUnder_fatomOfS21 (a : FAtomS) : (fatomOfS a).isUnder = a.isUnder := by cases a <;> rfl

theorem isEmph_fatomOfS21 (a : FAtomS) : (fatomOfS a).isEmph = a.isEmph := by cases a <;> rfl

theorem isLinkImg_fatomOfS21 (a : FAtomS) : (fatomOfS a).isLinkImg = a.isLinkImg := by cases a <;> rfl

theorem falternating_fatomOfS21 (l : List FAtomS) : falternating (l.map fatomOfS) = f21alternatingS l := by
  induction l with
  | nil => rfl
  | cons a rest ih =>
    cases rest with
    | nil => rfl
    | cons b rest =>
      simp only [List.map_cons, falternating, f21alternatingS, isTxt_fatomOfS21] at ih ⊢
      rw [ih]

/-! #### the neighbours of an underscore atom -/

/-- text in front of an underscore atom: its last byte -/
def NbL21 (p q : FAtom) : Prop := ∀ a, p = .txt a → q.isUnder = true → ∀ c, a.getLast? = some c → unNbOK c = true
/-- text behind an underscore atom: its first byte -/
def NbR21 (p q : FAtom) : Prop := ∀ b, q = .txt b → p.isUnder = true → ∀ c, b.head? = some c → unNbOK c = true

def NbPairs21 : List FAtom → Prop
  | p :: q :: rest => NbL21 p q ∧ NbR21 p q ∧ NbPairs21 (q :: rest)
  | _ => True

theorem nbPairs_tail21 (p : FAtom) (l : List FAtom) (h : NbPairs21 (p :: l)) : NbPairs21 l := by
  cases l with
  | nil => trivial
  | cons q rest => exact h.2.2

theorem nb_of_pairs21 (as init : List FAtom) (a : Bytes) (x : FAtom) (b : Bytes) (rest : List FAtom)
    (h : NbPairs21 as) (hl : as = init ++ [.txt a, x, .txt b] ++ rest) (hx : x.isUnder = true) :
    (∀ c, a.getLast? = some c → unNbOK c = true) ∧ (∀ c, b.head? = some c → unNbOK c = true) := by
  subst hl
  induction init with
  | nil =>
    have h' : NbPairs21 (.txt a :: x :: .txt b :: rest) := by simpa using h
    exact ⟨h'.1 a rfl hx, h'.2.2.2.1 b rfl hx⟩
  | cons p init ih =>
    apply ih
    have h' : NbPairs21 (p :: (init ++ [.txt a, x, .txt b] ++ rest)) := by simpa using h
    exact nbPairs_tail21 p _ h'

theorem nbL_fatomOfS21 (p q : FAtomS) (hp : f21atomOKS p = true) (h : f21pairOK p q = true) :
    NbL21 (fatomOfS p) (fatomOfS q) := by
  intro a ha hq c hc
  rw [isUnder_fatomOfS21] at hq
  cases p with
  | txt cs =>
    simp only [fatomOfS, FAtom.txt.injEq] at ha
    subst ha
    have hall := (f21atomOKS_txt21 cs hp).2
    have hbefore : ∃ t, cs.getLast? = some t ∧ unbeforeOK t = true := by
      simp only [f21pairOK, hq, Bool.not_true, Bool.false_or, Bool.and_eq_true] at h
      cases hg : cs.getLast? with
      | none => rw [hg] at h; exact absurd h.1 (by simp)
      | some t => rw [hg] at h; exact ⟨t, rfl, h.1⟩
    obtain ⟨t, hg, ht⟩ := hbefore
    obtain ⟨cinit, hcs⟩ := List.getLast?_eq_some_iff.mp hg
    have hsl : srcLast t = c := getLast_escSpell20 cinit t c (by rw [← hcs]; exact hc)
    have hmem : c ∈ escSpell cs := List.mem_of_getLast? hc
    simp only [unbeforeOK, Bool.not_eq_true', hsl] at ht
    exact nb_byte20 c (mem_printable20 cs hall c hmem) ht
  | _ => cases ha

theorem nbR_fatomOfS21 (p q : FAtomS) (hq : f21atomOKS q = true) (h : f21pairOK p q = true) :
    NbR21 (fatomOfS p) (fatomOfS q) := by
  intro b hb hp c hc
  rw [isUnder_fatomOfS21] at hp
  cases q with
  | txt cs =>
    simp only [fatomOfS, FAtom.txt.injEq] at hb
    subst hb
    have hall := (f21atomOKS_txt21 cs hq).2
    have hafter : ∃ t, cs.head? = some t ∧ unafterOK t = true := by
      simp only [f21pairOK, hp, Bool.not_true, Bool.false_or, Bool.and_eq_true] at h
      cases hg : cs.head? with
      | none => rw [hg] at h; exact absurd h.2 (by simp)
      | some t => rw [hg] at h; exact ⟨t, rfl, h.2⟩
    obtain ⟨t, hg, ht⟩ := hafter
    cases cs with
    | nil => cases hg
    | cons t' ts =>
      simp only [List.head?_cons, Option.some.injEq] at hg
      subst hg
      have hsf : srcFirst t' = c := head_escSpell20 t' ts c hc
      have hmem : c ∈ escSpell (t' :: ts) := List.mem_of_head? hc
      simp only [unafterOK, Bool.not_eq_true', hsf] at ht
      exact nb_byte20 c (mem_printable20 _ hall c hmem) ht
  | _ => cases hb

theorem nbPairs_fatomOfS21 (l : List FAtomS) (hok : ∀ a ∈ l, f21atomOKS a = true) (h : f21neighOK l = true) :
    NbPairs21 (l.map fatomOfS) := by
  induction l with
  | nil => trivial
  | cons p rest ih =>
    cases rest with
    | nil => trivial
    | cons q rest =>
      simp only [f21neighOK, Bool.and_eq_true] at h
      exact ⟨nbL_fatomOfS21 p q (hok p (by simp)) h.1, nbR_fatomOfS21 p q (hok q (by simp)) h.1,
        ih (fun a ha => hok a (by simp [ha])) h.2⟩

theorem f21lineOKS_atoms21 (l : List FAtomS) (h : f21lineOKS l = true) : ∀ a ∈ l, f21atomOKS a = true := by
  simp only [f21lineOKS, Bool.and_eq_true, List.all_eq_true] at h
  exact h.1.2

/-- a line of the fragment is a rich line -/
theorem frichLine_fatomOfS21 (l : List FAtomS) (h : f21lineOKS l = true) : FRichLine (l.map fatomOfS) := by
  have hok := f21lineOKS_atoms21 l h
  simp only [f21lineOKS, Bool.and_eq_true] at h
  obtain ⟨⟨⟨⟨halt, hfirst⟩, hlast⟩, hall'⟩, hnb⟩ := h
  clear hall'
  refine ⟨by rw [falternating_fatomOfS21]; exact halt, ?_, ?_, ?_, ?_⟩
  · -- first
    unfold f21firstOKS at hfirst
    split at hfirst
    · rename_i t ts rest
      obtain ⟨tc, te⟩ := t
      obtain ⟨sp, lt⟩ := spell_first tc te hfirst
      refine ⟨escSpell (⟨tc, te⟩ :: ts), rest.map fatomOfS, rfl, ?_⟩
      intro c hc
      simp only [escSpell, List.flatMap_cons, sp, List.cons_append, List.nil_append, List.head?_cons,
        Option.some.injEq] at hc
      subst hc; exact lt
    · cases hfirst
  · -- last
    unfold f21lastOKS at hlast
    split at hlast
    · rename_i cs hl
      split at hlast
      · rename_i z hz
        obtain ⟨zc, ze⟩ := z
        obtain ⟨sp, nsp, nbs⟩ := spell_last zc ze hlast
        obtain ⟨init, hinit⟩ := List.getLast?_eq_some_iff.mp hl
        obtain ⟨cinit, hcs⟩ := List.getLast?_eq_some_iff.mp hz
        refine ⟨init.map fatomOfS, escSpell cs, by rw [hinit]; simp [fatomOfS], ?_⟩
        intro c hc
        have e : escSpell cs = escSpell cinit ++ [zc] := by rw [hcs]; simp [escSpell, sp]
        rw [e] at hc
        simp at hc
        subst hc; exact ⟨nsp, nbs⟩
      · cases hlast
    · cases hlast
  · intro a ha
    obtain ⟨r, hr, rfl⟩ := List.mem_map.mp ha
    exact fatomOK_fatomOfS21 r (hok r hr)
  · intro init a x b rest hl hx
    exact nb_of_pairs21 _ init a x b rest (nbPairs_fatomOfS21 l hok hnb) hl hx

theorem spellFLineA_last_not_hash21 (l : List FAtomS) (h : f21lineOKS l = true) :
    ∀ c, (spellFLineA l).getLast? = some c → c ≠ 35 := by
  simp only [f21lineOKS, Bool.and_eq_true] at h
  have hlast := h.1.1.2
  unfold f21lastOKS at hlast
  split at hlast
  · rename_i cs hl
    split at hlast
    · rename_i z hz
      obtain ⟨zc, ze⟩ := z
      obtain ⟨sp, _, _⟩ := spell_last zc ze hlast
      obtain ⟨init, hinit⟩ := List.getLast?_eq_some_iff.mp hl
      obtain ⟨cinit, hcs⟩ := List.getLast?_eq_some_iff.mp hz
      have e : spellFLineA l = (spellFLineA init ++ escSpell cinit) ++ [zc] := by
        rw [hinit, hcs]; simp [spellFLineA, spellFAtom, escSpell, sp]
      intro c hc
      rw [e] at hc
      simp at hc
      subst hc
      simp only [lastOK, Bool.and_eq_true] at hlast
      exact alnum_not_hash zc hlast.1
    · cases hlast
  · cases hlast

/-- the restriction of the present theorem, from `f21restrS` -/
theorem f21restr_ofS21 (lines : List FLineS21) (_h : f21restrS lines = true) : F21Restr (lines.map flineOfS21) :=
  trivial

theorem fgood_ofS21 (b : FBlockS21) (h : f21blockOKS b = true) : FGood (fblockOfS21 b) := by
  cases b with
  | para lines =>
    simp only [f21blockOKS, Bool.and_eq_true, Bool.not_eq_true', List.isEmpty_eq_false_iff, List.all_eq_true] at h
    obtain ⟨⟨⟨hne, hl⟩, hlast⟩, hre⟩ := h
    show lines.map flineOfS21 ≠ [] ∧
      ((∀ x ∈ lines.map flineOfS21, FRichLine x.atoms) ∧ ∀ x, (lines.map flineOfS21).getLast? = some x → x.hard = false) ∧
      F21Restr (lines.map flineOfS21)
    refine ⟨by simpa using hne, ⟨?_, ?_⟩, f21restr_ofS21 lines hre⟩
    · intro x hx
      obtain ⟨y, hy, rfl⟩ := List.mem_map.mp hx
      exact frichLine_fatomOfS21 y.atoms (hl y hy)
    · intro x hx
      rw [List.getLast?_map] at hx
      unfold f21lastSoftS at hlast
      cases hg : lines.getLast? with
      | none => rw [hg] at hx; cases hx
      | some z =>
        rw [hg] at hx hlast
        simp only [Option.map_some, Option.some.injEq] at hx
        subst hx
        simpa [flineOfS21] using hlast
  | heading level text =>
    simp only [f21blockOKS, Bool.and_eq_true, decide_eq_true_eq] at h
    obtain ⟨⟨⟨h1, h6⟩, hl⟩, hre⟩ := h
    show 1 ≤ level ∧ level ≤ 6 ∧ FRichLine (text.map fatomOfS) ∧
      (∀ c, (flineSrc (text.map fatomOfS)).getLast? = some c → c ≠ 35) ∧ F21Restr [⟨text.map fatomOfS, false⟩]
    refine ⟨h1, h6, frichLine_fatomOfS21 text hl, ?_, ?_⟩
    · rw [flineSrc_fatomOfS21]
      exact spellFLineA_last_not_hash21 text hl
    · exact f21restr_ofS21 [{ atoms := text, hard := false }] hre
  | thematic c n => exact good5_rawOfH (.base (.thematic c n)) rfl
  | fcode tilde n info lines => exact good5_rawOfH (.fcode tilde n info lines) h
  | icode lines => exact good5_rawOfI (.icode lines) h

/-! ### blocks directly behind each other -/

theorem isParaB_fblockOfS21 (a : FBlockS21) :
    isParaB (fraw (fblockOfS21 a)) = (match a with | .para _ => true | _ => false) := by
  cases a <;> rfl

theorem f21abutOK_of (a b : FBlockS21) (h : f21abutOK a b = true) :
    AbutOK5 (isParaB (fraw (fblockOfS21 a))) (fraw (fblockOfS21 b)) := by
  cases b with
  | para lines =>
    cases a <;> simp [f21abutOK] at h <;> simp [fblockOfS21, fraw, AbutOK5, isParaB]
  | heading level text => simp [fblockOfS21, fraw, AbutOK5]
  | thematic c n =>
    simp only [fblockOfS21, fraw, AbutOK5]
    intro hp
    cases a with
    | para lines =>
      simp only [f21abutOK, bne_iff_ne, ne_eq] at h
      simp only [thematicLine, Bool.false_eq_true, if_false, List.replicate_succ, List.head?_cons]
      intro he
      simp only [Option.some.injEq] at he
      split at he
      · cases he
      · rename_i h0
        split at he
        · rename_i h1; simp at h1; exact h h1
        · cases he
    | heading _ _ => simp [isParaB] at hp
    | thematic _ _ => simp [isParaB] at hp
    | fcode _ _ _ _ => simp [isParaB] at hp
    | icode _ => simp [isParaB] at hp
  | fcode tilde n info lines => simp [fblockOfS21, fraw, AbutOK5]
  | icode lines =>
    cases a <;> simp [f21abutOK] at h <;> simp [fblockOfS21, fraw, AbutOK5, isParaB]

theorem f21sepsOK_of : ∀ (prev : Option FBlockS21) (items : List F21Item), f21sepsOK prev items = true →
    SepsOK6 (prev.map fun b => isParaB (fraw (fblockOfS21 b))) (items.map convF21)
  | _, [], _ => by cases ‹Option FBlockS21› <;> trivial
  | none, it :: rest, h => by
    simp only [f21sepsOK] at h
    exact f21sepsOK_of (some it.block) rest h
  | some a, it :: rest, h => by
    simp only [f21sepsOK, Bool.and_eq_true, Bool.or_eq_true, bne_iff_ne, ne_eq] at h
    refine ⟨?_, f21sepsOK_of (some it.block) rest h.2⟩
    intro hs
    rcases h.1.1 with h1 | h1
    · exact absurd hs h1
    · exact f21abutOK_of a it.block h1

theorem isIcB_fblockOfS21 (a : FBlockS21) : isIcB (fraw (fblockOfS21 a)) = a.isIc := by cases a <;> rfl

theorem isIc_fblockOfS21 (a : FBlockS21) : (fblockOfS21 a).isIc = a.isIc := by cases a <;> rfl

/-- `f21sepsOK` gives `IcOK6`: no indented code block follows an indented code block -/
theorem f21icOK_of : ∀ (prev : Option FBlockS21) (items : List F21Item), f21sepsOK prev items = true →
    IcOK6 (match prev with | some a => a.isIc | none => false) (items.map convF21)
  | _, [], _ => trivial
  | none, it :: rest, h => by
    simp only [f21sepsOK] at h
    refine ⟨fun hf => Bool.noConfusion hf, ?_⟩
    have := f21icOK_of (some it.block) rest h
    simpa [convF21, isIcB_fblockOfS21] using this
  | some a, it :: rest, h => by
    simp only [f21sepsOK, Bool.and_eq_true, Bool.not_eq_true', Bool.and_eq_false_iff] at h
    refine ⟨?_, ?_⟩
    · intro ha
      simp only [isIcB_fblockOfS21]
      rcases h.1.2 with h1 | h1
      · have ha' : a.isIc = true := ha
        rw [h1] at ha'; exact Bool.noConfusion ha'
      · exact h1
    · have := f21icOK_of (some it.block) rest h.2
      simpa [convF21, isIcB_fblockOfS21] using this

theorem lastNotIc_map_convF21 : ∀ (items : List F21Item),
    (match items.getLast? with | some it => !it.block.isIc | none => true) = true → LastNotIc (items.map convF21)
  | [], _ => trivial
  | [it], h => by
    simp only [List.getLast?_singleton, Bool.not_eq_true'] at h
    show isIcB (fraw (fblockOfS21 it.block)) = false
    rw [isIcB_fblockOfS21]; exact h
  | _ :: it :: rest, h => by
    rw [List.getLast?_cons_cons] at h
    exact lastNotIc_map_convF21 (it :: rest) h

/-- the last block of an `F21FragE` document is not an indented code block -/
theorem f21lastNotIc_of (d : F21Doc) (h : f21lastNotIc d = true) : LastNotIc (d.items.map convF21) :=
  lastNotIc_map_convF21 d.items h

/-! ### the prescribed HTML -/

theorem fatomHtml_fatomOfS21 (a : FAtomS) (h : f21atomOKS a = true) : fatomHtml (fatomOfS a) = expFAtom a := by
  cases a with
  | txt cs =>
    exact write_spelled cs (fun t ht => charOK_printable t ((f21atomOKS_txt21 cs h).2 t ht))
  | code c =>
    simp only [fatomOfS, fatomHtml, expFAtom, GM.Proof.CMSpec.escHtml_eq_rawWrite]
  | em c => simp only [fatomOfS, fatomHtml, expFAtom, write_alnum11 c (alnumOK11 c h).2]
  | strong c => simp only [fatomOfS, fatomHtml, expFAtom, write_alnum11 c (alnumOK11 c h).2]
  | uem c => simp only [fatomOfS, fatomHtml, expFAtom, write_alnum11 c (alnumOK11 c h).2]
  | ustrong c => simp only [fatomOfS, fatomHtml, expFAtom, write_alnum11 c (alnumOK11 c h).2]
  | link t d =>
    have ht := (latomOKS_link16 t d h).1.2
    simp only [fatomOfS, fatomHtml, expFAtom, write_alnum11 t ht, escHtml_alnum16 t ht]
  | img t d =>
    have ht := (imgatomOKS_img17 t d h).1.2
    simp only [fatomOfS, fatomHtml, expFAtom, write_alnum11 t ht, escHtml_alnum16 t ht]
  | auto s r => rfl
  | otag n => rfl
  | ctag n => rfl

theorem frichLineHtml_fatomOfS21 (l : List FAtomS) (h : ∀ a ∈ l, f21atomOKS a = true) :
    frichLineHtml (l.map fatomOfS) = expFLineA l := by
  simp only [frichLineHtml, expFLineA, List.flatMap_map]
  induction l with
  | nil => rfl
  | cons a rest ih =>
    simp only [List.flatMap_cons]
    rw [fatomHtml_fatomOfS21 a (h a (by simp)), ih (fun x hx => h x (by simp [hx]))]

theorem fHtml_ofS21 (ls : List FLineS21) (h : ∀ x ∈ ls, ∀ a ∈ x.atoms, f21atomOKS a = true) :
    fHtml (ls.map flineOfS21) = expFLines21 ls := by
  induction ls with
  | nil => rfl
  | cons x rest ih =>
    have hx := frichLineHtml_fatomOfS21 x.atoms (h x (by simp))
    cases rest with
    | nil => simpa [fHtml, expFLines21, flineOfS21] using hx
    | cons y rest =>
      have ih' := ih (fun z hz => h z (by simp [hz]))
      have e1 : fHtml ((x :: y :: rest).map flineOfS21) =
          frichLineHtml (flineOfS21 x).atoms ++ (if (flineOfS21 x).hard then strBytes "<br />\n" else [10]) ++
            fHtml ((y :: rest).map flineOfS21) := rfl
      have e2 : expFLines21 (x :: y :: rest) =
          expFLineA x.atoms ++ (if x.hard then strBytes "<br />\n" else [10]) ++ expFLines21 (y :: rest) := rfl
      rw [e1, e2, ih']
      show frichLineHtml (x.atoms.map fatomOfS) ++ (if x.hard then strBytes "<br />\n" else [10]) ++ _ = _
      rw [hx]

theorem fBlockHtml_ofS21 (b : FBlockS21) (h : f21blockOKS b = true) : fBlockHtml (fblockOfS21 b) = expFBlock21 b := by
  cases b with
  | para lines =>
    simp only [f21blockOKS, Bool.and_eq_true, List.all_eq_true] at h
    simp only [fblockOfS21, fBlockHtml, expFBlock21,
      fHtml_ofS21 lines (fun x hx => f21lineOKS_atoms21 x.atoms (h.1.1.2 x hx))]
  | heading level text =>
    simp only [f21blockOKS, Bool.and_eq_true] at h
    simp only [fblockOfS21, fBlockHtml, expFBlock21,
      frichLineHtml_fatomOfS21 text (f21lineOKS_atoms21 text h.1.2)]
  | thematic c n => rfl
  | fcode tilde n info lines => exact rawHtml_spelled5 (.fcode tilde n info lines) h
  | icode lines => exact rawHtml_spelledI (.icode lines) h

theorem fDocHtml_ofS21 (d : F21Doc) (h : F21Frag d) :
    fDocHtml (d.items.map fun it => fblockOfS21 it.block) = expectedF21 d := by
  obtain ⟨hok, _⟩ := f21frag_parts d h
  simp only [fDocHtml, expectedF21, List.flatMap_map]
  apply flatMap_congr8
  intro it hit
  exact fBlockHtml_ofS21 it.block (hok it hit)

end GM.Proof.CMFrag
