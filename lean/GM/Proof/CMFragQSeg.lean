/-
  GM.Proof.CMFragQSeg — what a segment of the run on `quotePrefix S` that is related (`SegRel`, package quotesim2) to
  a segment `{ start := a, stop := b, padding := 0, forceNewline := fn }` of the run on `S` looks like, in natural
  numbers and bytes: it is `{ start := A, stop := A + (b - a), padding := 0, forceNewline := fn }` with the same
  bytes, the images keep the order, and the values of related segment lists agree. `sg` (fn = false) and `csg`
  (fn = true) are the instances (`…_sg`, `…_csg`).
-/
import GM.Proof.QuoteSimTop
import GM.Proof.CMFragBytes
import GM.Proof.CMFrag5Defs

namespace GM.Proof.CMFrag
open GM GM.Text GM.Blocks

/-- the number of `\n` before a byte grows with the byte -/
theorem lineNo_monoQ (S : Bytes) {p q : Nat} (h : p ≤ q) : lineNo S p ≤ lineNo S q := by
  unfold lineNo
  have e : S.take p = (S.take q).take p := by rw [List.take_take, Nat.min_eq_left h]
  rw [e]
  exact ((List.take_sublist p (S.take q)).filter _).length_le

/-- `SegRel` for a padding-free segment, in natural numbers -/
theorem segRel_natQ {S : Bytes} {a b : Nat} {fn : Bool} {t : Segment}
    (h : SegRel S { start := (a : Nat), stop := (b : Nat), padding := 0, forceNewline := fn } t) :
    ∃ k ls, LineAt S k ls ∧ ls ≤ a ∧ a ≤ b ∧ b ≤ lineEnd S ls ∧
      t = { start := ((a + 2 * (k + 1) : Nat) : Int), stop := ((b + 2 * (k + 1) : Nat) : Int), padding := 0,
            forceNewline := fn } := by
  obtain ⟨k, ls, hl, h1, h2, h3, rfl⟩ := h
  simp only at h1 h2 h3
  refine ⟨k, ls, hl, by omega, by omega, by omega, ?_⟩
  simp only [shK, Segment.mk.injEq, and_true]
  constructor <;> omega

/-- a non-empty segment of `S` that lies in one line (its stop may be behind the line's line feed) and its image -/
theorem segRel_transportQ {S : Bytes} {a b : Nat} {fn : Bool} {t : Segment}
    (h : SegRel S { start := (a : Nat), stop := (b : Nat), padding := 0, forceNewline := fn } t) (hab : a < b)
    (hb : b ≤ S.length) :
    ∃ A : Nat, t = { start := (A : Nat), stop := ((A + (b - a) : Nat) : Int), padding := 0, forceNewline := fn } ∧
      A + (b - a) ≤ (quotePrefix S).length ∧
      sub (quotePrefix S) A (A + (b - a)) = sub S a b ∧ a + 2 ≤ A := by
  obtain ⟨k, ls, hl, h1, h2, h3, rfl⟩ := segRel_natQ h
  have hlen := qp_length_ge hl
  have e : a + 2 * (k + 1) + (b - a) = b + 2 * (k + 1) := by omega
  refine ⟨a + 2 * (k + 1), by rw [e], by omega, ?_, by omega⟩
  rw [e]
  exact qp_sub hl h1 h2 h3

/-- images keep the order -/
theorem segRel_orderQ {S : Bytes} {a b a' b' A B A' B' : Nat} {fn fn' gn gn' : Bool}
    (h : SegRel S { start := (a : Nat), stop := (b : Nat), padding := 0, forceNewline := fn }
      { start := (A : Nat), stop := (B : Nat), padding := 0, forceNewline := gn })
    (h' : SegRel S { start := (a' : Nat), stop := (b' : Nat), padding := 0, forceNewline := fn' }
      { start := (A' : Nat), stop := (B' : Nat), padding := 0, forceNewline := gn' })
    (hab : a < b) (hab' : a' < b') (hle : b ≤ a') (hb' : b' ≤ S.length) :
    B ≤ A' := by
  obtain ⟨k, ls, hl, h1, h2, h3, e⟩ := segRel_natQ h
  obtain ⟨k', ls', hl', h1', h2', h3', e'⟩ := segRel_natQ h'
  have hk : lineNo S a = k := lineNo_in hl h1 (by omega)
  have hk' : lineNo S a' = k' := lineNo_in hl' h1' (by omega)
  have hm : lineNo S a ≤ lineNo S a' := lineNo_monoQ S (by omega)
  simp only [Segment.mk.injEq, true_and] at e e'
  omega

theorem segRel_valueQ {S : Bytes} {a b : Nat} {fn : Bool} {t : Segment}
    (h : SegRel S { start := (a : Nat), stop := (b : Nat), padding := 0, forceNewline := fn } t) (hab : a < b)
    (hb : b ≤ S.length) :
    t.value (quotePrefix S) =
      Segment.value { start := (a : Nat), stop := (b : Nat), padding := 0, forceNewline := fn } S :=
  html_value_q h

/-- the values of related lists of such segments -/
theorem segsRel_valuesQ {S : Bytes} : ∀ (L L' : List Segment), SegsRel S L L' →
    (∀ s ∈ L, ∃ (a b : Nat) (fn : Bool),
      s = { start := (a : Nat), stop := (b : Nat), padding := 0, forceNewline := fn } ∧ a < b ∧ b ≤ S.length) →
    GM.Convert.segValues (quotePrefix S) L' = GM.Convert.segValues S L
  | [], [], _, _ => rfl
  | [], _ :: _, h, _ => h.elim
  | _ :: _, [], h, _ => h.elim
  | s :: L, t :: L', ⟨h1, h2⟩, hs => by
    have ih := segsRel_valuesQ L L' h2 (fun x hx => hs x (List.mem_cons_of_mem _ hx))
    have hv : t.value (quotePrefix S) = s.value S := html_value_q h1
    simp only [GM.Convert.segValues]
    rw [hv, ih]

/-! ### the instances `sg` (forceNewline = false) and `csg` (forceNewline = true) -/

theorem segRel_transportQ_sg {S : Bytes} {a b : Nat} {t : Segment} (h : SegRel S (sg a b) t) (hab : a < b)
    (hb : b ≤ S.length) :
    ∃ A : Nat, t = sg A (A + (b - a)) ∧ A + (b - a) ≤ (quotePrefix S).length ∧
      sub (quotePrefix S) A (A + (b - a)) = sub S a b ∧ a + 2 ≤ A :=
  segRel_transportQ (fn := false) h hab hb

theorem segRel_transportQ_csg {S : Bytes} {a b : Nat} {t : Segment} (h : SegRel S (csg a b) t) (hab : a < b)
    (hb : b ≤ S.length) :
    ∃ A : Nat, t = csg A (A + (b - a)) ∧ A + (b - a) ≤ (quotePrefix S).length ∧
      sub (quotePrefix S) A (A + (b - a)) = sub S a b ∧ a + 2 ≤ A :=
  segRel_transportQ (fn := true) h hab hb

theorem segRel_orderQ_sg {S : Bytes} {a b a' b' A B A' B' : Nat} (h : SegRel S (sg a b) (sg A B))
    (h' : SegRel S (sg a' b') (sg A' B')) (hab : a < b) (hab' : a' < b') (hle : b ≤ a') (hb' : b' ≤ S.length) :
    B ≤ A' :=
  segRel_orderQ (fn := false) (fn' := false) (gn := false) (gn' := false) h h' hab hab' hle hb'

theorem segRel_orderQ_csg {S : Bytes} {a b a' b' A B A' B' : Nat} (h : SegRel S (csg a b) (csg A B))
    (h' : SegRel S (csg a' b') (csg A' B')) (hab : a < b) (hab' : a' < b') (hle : b ≤ a') (hb' : b' ≤ S.length) :
    B ≤ A' :=
  segRel_orderQ (fn := true) (fn' := true) (gn := true) (gn' := true) h h' hab hab' hle hb'

theorem segRel_valueQ_sg {S : Bytes} {a b : Nat} {t : Segment} (h : SegRel S (sg a b) t) (hab : a < b)
    (hb : b ≤ S.length) : t.value (quotePrefix S) = (sg a b).value S :=
  segRel_valueQ (fn := false) h hab hb

theorem segRel_valueQ_csg {S : Bytes} {a b : Nat} {t : Segment} (h : SegRel S (csg a b) t) (hab : a < b)
    (hb : b ≤ S.length) : t.value (quotePrefix S) = (csg a b).value S :=
  segRel_valueQ (fn := true) h hab hb

theorem segsRel_valuesQ_sg {S : Bytes} (L L' : List Segment) (h : SegsRel S L L')
    (hs : ∀ s ∈ L, ∃ a b : Nat, s = sg a b ∧ a < b ∧ b ≤ S.length) :
    GM.Convert.segValues (quotePrefix S) L' = GM.Convert.segValues S L :=
  segsRel_valuesQ L L' h (fun s m => by obtain ⟨a, b, e, h1, h2⟩ := hs s m; exact ⟨a, b, false, e, h1, h2⟩)

theorem segsRel_valuesQ_csg {S : Bytes} (L L' : List Segment) (h : SegsRel S L L')
    (hs : ∀ s ∈ L, ∃ a b : Nat, s = csg a b ∧ a < b ∧ b ≤ S.length) :
    GM.Convert.segValues (quotePrefix S) L' = GM.Convert.segValues S L :=
  segsRel_valuesQ L L' h (fun s m => by obtain ⟨a, b, e, h1, h2⟩ := hs s m; exact ⟨a, b, true, e, h1, h2⟩)

end GM.Proof.CMFrag
