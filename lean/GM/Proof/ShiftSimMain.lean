/-
  GM.Proof.ShiftSimMain — the two line loops of `parseBlocks` under the shift relation, and the whole-run theorem
  `shift_invariance_core`: the outer loop of `parseBlocks` started at offset `|p|` of `p ++ b` with no open block, in a
  state related to the start state of `run b`, builds the store of `run b` moved by the frame (`StoreRel`).
  Instance: all block parsers but the two list parsers (`shift_invariance_list_free`).
-/
import GM.Proof.ShiftSimOpen
import GM.Proof.ShiftSimLines
import GM.Proof.ShiftSimCode
import GM.Proof.ShiftSimFenced
import GM.Proof.ShiftSimQuoteHtml
import GM.Proof.ShiftSimEof
import GM.Proof.BlocksNoPanicAll

namespace GM.Blocks.Sh
open GM GM.Text GM.Spec GM.Proof.Reader GM.Blocks

variable {F : Frame} {b : Bytes} {Cov : BP → Prop}

theorem limbo_stop {rA rB : Reader} (h : Limbo F b rA rB) : 0 ≤ rA.pos.stop := by
  obtain ⟨⟨c, hc⟩, _⟩ := h
  have hp := hc.pos
  have : rA.advanceLine.pos.start = rA.pos.stop := by
    unfold Reader.advanceLine
    simp only
    split <;> rfl
  have e := congrArg Segment.start hp
  simp only at e
  rw [this] at e
  omega

theorem advanceLine_line_succ (r : Reader) (h : 0 ≤ r.pos.stop) : r.advanceLine.line = r.line + 1 := by
  unfold Reader.advanceLine
  simp only
  rw [if_neg (by omega)]

/-- AdvanceLine out of the limbo relation: full relation, same context and store, line counter + 1 -/
theorem advanceLine_limbo' {sA sB : St} (h : SRLim F b sA sB) :
    P2 (fun _ _ sA' sB' => SR F b sA' sB' ∧ sA'.pc = sA.pc ∧ sA'.r.line = sA.r.line + 1)
      (advanceLine sA) (advanceLine sB) := by
  unfold GM.Blocks.advanceLine
  exact P2.ok ⟨⟨h.2.1, h.2.2, h.1.n, h.1.c⟩, rfl, advanceLine_line_succ _ (limbo_stop h.2)⟩

/-! ### the inner `for {}` over lines -/

def LinesQ (F : Frame) (b : Bytes) (Cov : BP → Prop) (sA : St) (sa : List LineStat)
    (x y : Bool × List LineStat) (sA' sB' : St) : Prop :=
  y.1 = x.1 ∧ StatsRel F x.2 y.2 ∧ SRLim F b sA' sB' ∧ AI Cov sA' ∧ 1 ≤ sA'.r.line ∧
    (x.1 = false → SR F b sA' sB' ∧ sA'.pc.opened = [] ∧ (sa ≠ [] ∨ sA.pc.opened ≠ [] → x.2 ≠ []))

theorem linesLoop_p2 (hP : PSim F b Cov) (hF : F.OK) (hNL : NL b) (hO : OpenBlocksSim F b Cov) (parent : Nat) :
    ∀ (fuelA fuelB : Nat) (sa sb : List LineStat) (sA sB : St),
      SR F b sA sB → AI Cov sA → StatsRel F sa sb → 1 ≤ sA.r.line →
      P2 (LinesQ F b Cov sA sa) (linesLoop parent fuelA sa sA) (linesLoop (F.ι parent) fuelB sb sB) := by
  intro fuelA
  induction fuelA with
  | zero => intro fuelB sa sb sA sB _ _ _ _; unfold linesLoop; exact P2.throwL
  | succ fuelA ih =>
    intro fuelB sa sb sA sB h hc hst hline
    cases fuelB with
    | zero => unfold linesLoop; exact P2.throwR
    | succ fuelB =>
      unfold linesLoop
      refine P2.bind (getPc_p2 h) (fun x y sA1 sB1 ⟨hx, hy, hxy, e1, e2⟩ => ?_)
      rw [e1, e2]
      have ho : y.opened = x.opened.map (shB F) := hxy.opened
      rw [ho, List.length_map]
      by_cases hl0 : (x.opened.length == 0) = true
      · rw [if_pos hl0, if_pos hl0]
        have hnil : sA.pc.opened = [] := by
          rw [← hx]; exact List.eq_nil_of_length_eq_zero (by simpa using hl0)
        refine P2.pure ⟨rfl, hst, h.limbo, hc, hline, fun _ => ⟨h, hnil, fun hh => ?_⟩⟩
        rcases hh with hh | hh
        · exact hh
        · exact absurd hnil hh
      · rw [if_neg hl0, if_neg hl0]
        have hne : x.opened ≠ [] := by
          intro e; rw [e] at hl0; simp at hl0
        have hob : ∀ z ∈ x.opened, Cov z.bp := by rw [hx]; exact hc
        refine P2.bind (lineLoop_p2 hP hF hNL hO parent x.opened _ hob x.opened 0 sa sb sA sB (fun _ hz => hz) h hc hst hline
          (by omega)) (fun u v sA2 sB2 ⟨hv1, hst2, hlim2, hai2, hline2, hne2⟩ => ?_)
        obtain ⟨uo, us⟩ := u
        obtain ⟨vo, vs⟩ := v
        simp only at hv1 hst2 hne2
        subst hv1
        cases vo with
        | eof =>
          simp only
          exact P2.pure ⟨rfl, hst2, hlim2, hai2, Int.le_trans hline hline2, fun e => by cases e⟩
        | next =>
          simp only
          refine P2.bind (advanceLine_limbo' hlim2) (fun _ _ sA3 sB3 ⟨h3, hpc3, hl3⟩ => ?_)
          have hc3 : AI Cov sA3 := by unfold AI; rw [hpc3]; exact hai2
          have hline3 : 1 ≤ sA3.r.line := by omega
          have hu2 : us ≠ [] := hne2 rfl hne
          refine (ih fuelB us vs sA3 sB3 h3 hc3 hst2 hline3).mono
            (fun w z sA' sB' ⟨hz, hst', hlim', hai', hline', hfin⟩ => ⟨hz, hst', hlim', hai', hline', fun e => ?_⟩)
          obtain ⟨f1, f2, f3⟩ := hfin e
          exact ⟨f1, f2, fun _ => f3 (.inl hu2)⟩

/-! ### the outer `for {}` -/

/-- the statistics at the head of the outer loop: B's are stale entries from before the prefix's end followed by A's;
    while A's are empty (start of `b`, nothing skipped yet) the stale ones answer "blank" for the line in front of `b` -/
def BInv (F : Frame) (sa sb : List LineStat) (line : Int) : Prop :=
  ∃ stale, sb = stale ++ sa.map (shS F) ∧ (∀ e ∈ stale, e.lineNum < F.dl) ∧
    (sa = [] → stale = [] ∨ (line = 0 ∧ isBlankLine (F.dl - 1) 0 stale = true)) ∧ (sa ≠ [] → 1 ≤ line)

theorem blocksLoop_p2 (hP : PSim F b Cov) (hF : F.OK) (hNL : NL b) (hO : OpenBlocksSim F b Cov) (parent : Nat) :
    ∀ (fuelA fuelB : Nat) (sa sb : List LineStat) (sA sB : St),
      SRw F b sA sB → AI Cov sA → sA.pc.opened = [] → 0 ≤ sA.r.line → BInv F sa sb sA.r.line →
      P2 (fun _ _ sA' sB' => StoreRel F sA'.nodes sB'.nodes)
        (blocksLoop parent fuelA sa sA) (blocksLoop (F.ι parent) fuelB sb sB) := by
  intro fuelA
  induction fuelA with
  | zero => intro fuelB sa sb sA sB _ _ _ _ _; unfold blocksLoop; exact P2.throwL
  | succ fuelA ih =>
    intro fuelB sa sb sA sB h hc hop hline hbi
    cases fuelB with
    | zero => unfold blocksLoop; exact P2.throwR
    | succ fuelB =>
      unfold blocksLoop
      refine P2.bind ((skipBlankLinesR_core h.rd).withL
        (R := fun a sA' => sA.r.line ≤ sA'.r.line ∧ (a.2.1 = 0 → sA'.r.line = sA.r.line))
        (fun a sA' e => skipBlankLinesR_line _ _ _ e)) (fun x y sA1 sB1 ⟨⟨hy, hs1⟩, hl1, hl1'⟩ => ?_)
      have h1 := hs1.srw h
      have epc1 : sA1.pc = sA.pc := by obtain ⟨rA, c', _, e1, _⟩ := hs1; rw [e1]
      rw [hy]
      simp only
      by_cases hok : (!x.2.2) = true
      · rw [if_pos hok, if_pos hok]; exact P2.pure h1.n
      rw [if_neg hok, if_neg hok]
      -- position
      refine P2.bind (P := fun u v sA' sB' => u = sA1.r.position ∧ v = (u.1 + F.dl, moveSeg F.d u.2) ∧ sA' = sA1 ∧ sB' = sB1)
        ?_ (fun u v sA2 sB2 ⟨hu, hv, e1, e2⟩ => ?_)
      · unfold GM.Blocks.position
        refine P2.ok ⟨rfl, ?_, rfl, rfl⟩
        rw [h1.r]; rfl
      rw [hv, e1, e2]
      simp only
      refine P2.bind (P := fun u' v' sA' sB' => u' = sA1.pc ∧ v'.opened = u'.opened.map (shB F) ∧ sA' = sA1 ∧ sB' = sB1)
        (by unfold getPc; exact P2.ok ⟨rfl, h1.c.opened, rfl, rfl⟩) (fun pcA pcB sA3 sB3 ⟨hpa, hpb, e1, e2⟩ => ?_)
      rw [hpb, List.length_map, e1, e2]
      have hlen0 : pcA.opened.length = 0 := by rw [hpa, epc1, hop]; rfl
      rw [hlen0]
      have hlineNum : u.1 = sA1.r.line := by rw [hu]; rfl
      -- the statistics after the (possible) reset, and the blank flag
      obtain ⟨stale, hsb, hstale, hfirst, hsane⟩ := hbi
      have key : ∃ sa' sb', (if (x.2.1 != 0) = true then blankStats u.1 x.2.1 0 else sa) = sa' ∧
          (if (x.2.1 != 0) = true then blankStats (u.1 + F.dl) x.2.1 0 else sb) = sb' ∧ StatsRel F sa' sb' ∧
          isBlankLine (u.1 + F.dl - 1) 0 sb' = isBlankLine (u.1 - 1) 0 sa' ∧ (sa' ≠ [] → sa ≠ [] ∧ sA1.r.line = sA.r.line) := by
        by_cases hz : (x.2.1 != 0) = true
        · rw [if_pos hz, if_pos hz]
          refine ⟨_, _, rfl, rfl, ?_, ?_, ?_⟩
          · simp only [blankStats]; exact StatsRel.map F []
          · simp only [blankStats]
            rw [isBlankLine_nil _ _ (Int.le_refl 0), isBlankLine_nil _ _ (Int.le_refl 0)]
          · intro hh; simp [blankStats] at hh
        · rw [if_neg hz, if_neg hz]
          have hz0 : x.2.1 = 0 := by simpa using hz
          have hsame := hl1' hz0
          refine ⟨_, _, rfl, rfl, ⟨stale, hsb, hstale⟩, ?_, fun hh => ⟨hh, hsame⟩⟩
          by_cases hsa : sa = []
          · subst hsa
            rw [isBlankLine_nil _ _ (Int.le_refl 0)]
            simp only [List.map_nil, List.append_nil] at hsb
            rw [hsb]
            rcases hfirst rfl with hs | ⟨hl0, hs⟩
            · rw [hs]; exact isBlankLine_nil _ _ (Int.le_refl 0)
            · have : u.1 + F.dl - 1 = F.dl - 1 := by rw [hlineNum, hsame, hl0]; omega
              rw [this]; exact hs
          · have h1le := hsane hsa
            have e : u.1 + F.dl - 1 = (u.1 - 1) + F.dl := by omega
            rw [e]
            refine isBlankLine_shift ⟨stale, hsb, hstale⟩ (u.1 - 1) 0 (by rw [hlineNum, hsame]; omega) ?_
            have : 0 < sa.length := List.length_pos_iff.mpr hsa
            omega
      obtain ⟨sa', sb', e1, e2, hst', hblank, hsa'⟩ := key
      rw [e1, e2, hblank]
      have hc1 : AI Cov sA1 := by unfold AI; rw [epc1]; exact hc
      refine P2.bind (hO parent (isBlankLine (u.1 - 1) 0 sa') sA1 sB1 h1 hc1)
        (fun r r' sA4 sB4 ⟨hr, hlim4, hai4, hline4, hne4⟩ => ?_)
      rw [hr]
      by_cases hnew : (r != OpenResult.newBlocksOpened) = true
      · rw [if_pos hnew, if_pos hnew]; exact P2.pure hlim4.1.n
      rw [if_neg hnew, if_neg hnew]
      have hrnew : r = OpenResult.newBlocksOpened := by simpa using hnew
      refine P2.bind (advanceLine_limbo' hlim4) (fun _ _ sA5 sB5 ⟨h5, hpc5, hl5⟩ => ?_)
      have hc5 : AI Cov sA5 := by unfold AI; rw [hpc5]; exact hai4
      have hline5 : 1 ≤ sA5.r.line := by omega
      refine P2.bind (linesLoop_p2 hP hF hNL hO parent fuelA fuelB sa' sb' sA5 sB5 h5 hc5 hst' hline5)
        (fun w z sA6 sB6 ⟨hz, hst6, hlim6, hai6, hline6, hfin6⟩ => ?_)
      have hzz : z = (w.1, z.2) := by rw [← hz]
      rw [hzz]
      simp only
      by_cases hret : w.1 = true
      · rw [if_pos hret, if_pos hret]; exact P2.pure hlim6.1.n
      rw [if_neg hret, if_neg hret]
      have hwf : w.1 = false := by simpa using hret
      obtain ⟨h6, hop6, hne6⟩ := hfin6 hwf
      have hw2 : w.2 ≠ [] := hne6 (.inr (by rw [hpc5]; exact hne4 hrnew))
      obtain ⟨stale6, hsb6, hstale6⟩ := hst6
      exact ih fuelB w.2 z.2 sA6 sB6 h6.w hai6 hop6 (by omega)
        ⟨stale6, hsb6, hstale6, fun e => absurd e hw2, fun _ => hline6⟩

/-! ### the covered parser set: everything but the list parsers -/

theorem psim_notList (F : Frame) (hF : F.OK) (b : Bytes) : PSim F b NotList where
  op := by
    intro bp h
    cases bp with
    | setext => exact setextOpen_sim F b
    | thematic => exact thematicOpen_sim F b
    | list => exact absurd rfl h.1
    | listItem => exact absurd rfl h.2
    | code => exact codeOpen_sim F hF b
    | atx => exact atxOpen_sim F b
    | fenced => exact fencedOpen_sim F b
    | blockquote => exact blockquoteOpen_sim F b
    | html => exact htmlOpen_sim F b
    | paragraph => exact paragraphOpen_sim F b
  co := by
    intro bp h
    cases bp with
    | setext => exact setextContinue_sim F b
    | thematic => exact thematicContinue_sim F b
    | list => exact absurd rfl h.1
    | listItem => exact absurd rfl h.2
    | code => exact codeContinue_sim F hF b
    | atx => exact atxContinue_sim F b
    | fenced => exact fencedContinue_sim F hF b
    | blockquote => exact blockquoteContinue_sim F b
    | html => exact htmlContinue_sim F b
    | paragraph => exact paragraphContinue_sim F b
  coEof := by
    intro bp h
    cases bp with
    | setext => exact eof_setextContinue F b
    | thematic => exact eof_thematicContinue F b
    | list => exact absurd rfl h.1
    | listItem => exact absurd rfl h.2
    | code => exact eof_codeContinue F b
    | atx => exact eof_atxContinue F b
    | fenced => exact eof_fencedContinue F hF b
    | blockquote => exact eof_blockquoteContinue F b
    | html => exact eof_htmlContinue F b
    | paragraph => exact eof_paragraphContinue F b
  cl := by
    intro bp h
    cases bp with
    | setext => exact setextClose_sim F hF b
    | thematic => exact thematicClose_sim F b
    | list => exact absurd rfl h.1
    | listItem => exact listItemClose_sim F b
    | code => exact codeClose_sim F b
    | atx => exact atxClose_sim F b
    | fenced => exact fencedClose_sim F b
    | blockquote => exact blockquoteClose_sim F b
    | html => exact htmlClose_sim F b
    | paragraph => exact paragraphClose_sim F hF b

theorem triggers_notList (b : Bytes) (h : ListFree b) : Triggers b NotList := by
  have hfree : ∀ bp ∈ freeParsers, NotList bp := by
    intro bp hbp
    simp [freeParsers] at hbp
    rcases hbp with e | e <;> subst e <;> exact ⟨by decide, by decide⟩
  refine ⟨hfree, ?_⟩
  intro c hc bp hbp
  rcases hc with hc | hc
  · cases ht : triggered c with
    | none => rw [ht] at hbp; exact hfree bp hbp
    | some bps => rw [ht] at hbp; exact triggered_notList b h c hc bps ht bp hbp
  · subst hc
    have : triggered 32 = none := by decide
    rw [this] at hbp; exact hfree bp hbp

/-! ### whole runs -/

/-- run B stands at offset `|p|` of `p ++ b` in the outer loop of `parseBlocks`, nothing open, context keys reset; its
    store has the Document (node 0, children `kids0`) and `c` further nodes; its blank-line statistics are all from lines
    of the prefix and, if there are any, say that the line in front of `b` is blank at level 0 -/
structure Start (F : Frame) (b : Bytes) (sB : St) (statsB : List LineStat) : Prop where
  r : sB.r = shR F (Reader.new b)
  len : sB.nodes.length = 1 + F.c
  doc : sB.nodes.getD 0 default = { kind := .document, children := F.kids0 }
  opened : sB.pc.opened = []
  tmpPara : sB.pc.tmpPara = none
  fence : sB.pc.fence = none
  skipList : sB.pc.skipList = false
  eib : F.flag = true → sB.pc.emptyItemBlank = false
  old : ∀ i, 1 ≤ i → i ≤ F.c → sB.nodes.getD i default = F.oldNodes.getD i default
  stale : ∀ e ∈ statsB, e.lineNum < F.dl
  first : statsB = [] ∨ isBlankLine (F.dl - 1) 0 statsB = true

theorem start_srw {sB : St} {statsB : List LineStat} (hS : Start F b sB statsB) : SRw F b (initSt b) sB := by
  refine ⟨⟨_, ri_init b⟩, hS.r, ⟨by simp [initSt], by simp [initSt, hS.len], fun j => ?_, by simp [initSt], hS.old⟩,
    ⟨by rw [hS.opened]; rfl, by rw [hS.tmpPara]; rfl, by rw [hS.fence]; rfl, by rw [hS.skipList]; rfl, fun hf => by rw [hS.eib hf]; rfl⟩⟩
  by_cases hj : j = 0
  · subst hj
    rw [ι_zero, hS.doc]
    simp [initSt, shN, shClosure]
  · rw [ι_pos F hj]
    have e1 : sB.nodes.getD (j + F.c) default = default := by
      rw [List.getD_eq_getElem?_getD, List.getElem?_eq_none (by rw [hS.len]; omega)]; rfl
    have e2 : (initSt b).nodes.getD j default = default := by
      rw [List.getD_eq_getElem?_getD, List.getElem?_eq_none (by simp [initSt]; omega)]; rfl
    rw [e1, e2]
    have : (j == 0) = false := beq_eq_false_iff_ne.mpr hj
    rw [this, shN_default]

theorem run_eq_blocksLoop (b : Bytes) : run b = (blocksLoop 0 (linesFuel b) [] (initSt b)).map (·.2) := rfl

/-- **Shift invariance of the block phase** for a covered parser set: from a `Start` state the rest of run B builds the
    store of `run b`, moved by the frame. -/
theorem shift_invariance_core (hP : PSim F b Cov) (hF : F.OK) (hNL : NL b) (hT : Triggers b Cov) {sB : St}
    {statsB : List LineStat} (hS : Start F b sB statsB) (fuelB : Nat) (sB' : St)
    (hB : blocksLoop 0 fuelB statsB sB = .ok ((), sB')) :
    ∃ sA', run b = .ok sA' ∧ StoreRel F sA'.nodes sB'.nodes := by
  obtain ⟨sA', hA, _⟩ := run_ok_all b
  refine ⟨sA', hA, ?_⟩
  rw [run_eq_blocksLoop] at hA
  cases hrun : blocksLoop 0 (linesFuel b) [] (initSt b) with
  | error e => rw [hrun] at hA; cases hA
  | ok v =>
    rw [hrun] at hA
    obtain ⟨u, s⟩ := v
    simp only [Except.map, Except.ok.injEq] at hA
    subst hA
    have hline0 : (initSt b).r.line = 0 := by
      simp [initSt, Reader.new, Reader.advanceLine]
    have hbi : BInv F [] statsB (initSt b).r.line := by
      refine ⟨statsB, by simp, hS.stale, fun _ => ?_, fun h => absurd rfl h⟩
      rcases hS.first with h | h
      · exact .inl h
      · exact .inr ⟨hline0, h⟩
    have hai : AI Cov (initSt b) := by intro x hx; simp [initSt] at hx
    have := blocksLoop_p2 hP hF hNL (openBlocks_p2 hP hF hNL hT) 0 (linesFuel b) fuelB [] statsB (initSt b) sB
      (start_srw hS) hai rfl (by rw [hline0]; exact Int.le_refl _) hbi
    rw [ι_zero] at this
    exact this u s () sB' hrun hB

/-- all block parsers but `listParser` / `listItemParser`: sources without `-`, `*`, `+` and digits that are empty or
    end with a line feed -/
theorem shift_invariance_list_free (F : Frame) (hF : F.OK) (b : Bytes) (hNL : NL b) (hLF : ListFree b) {sB : St}
    {statsB : List LineStat} (hS : Start F b sB statsB) (fuelB : Nat) (sB' : St)
    (hB : blocksLoop 0 fuelB statsB sB = .ok ((), sB')) :
    ∃ sA', run b = .ok sA' ∧ StoreRel F sA'.nodes sB'.nodes :=
  shift_invariance_core (psim_notList F hF b) hF hNL (triggers_notList b hLF) hS fuelB sB' hB

end GM.Blocks.Sh
