/-
  GM.Proof.CMFragNDefs — stage 14 (nested block quotes): the source with `"> "` put in front of every line `k` times.
-/
import GM.Model.Blocks.QuoteSim

namespace GM.Proof.CMFrag
open GM GM.Text GM.Blocks

/-- `"> "` in front of every line, `k` times -/
def qpN : Nat → Bytes → Bytes
  | 0, s => s
  | k + 1, s => quotePrefix (qpN k s)

end GM.Proof.CMFrag
