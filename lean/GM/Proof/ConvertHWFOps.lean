/-
  GM.Proof.ConvertHWFOps — the AST mutators the block phase uses (ast.go RemoveChild / AppendChild / InsertBefore /
  InsertAfter / ReplaceChild as modelled in GM.Model.Blocks.Basic) keep `TreeWF`, and the only child edge they can add is
  `(p, ins)` for the node `ins` they are asked to insert (`OpR`).
-/
import GM.Proof.ConvertHWF

namespace GM.ConvertH
open GM GM.Text GM.Blocks

/-- what a tree mutator does: same store length, kinds, context; well-formedness kept (given the inserted node exists, is
    not the Document, and the new parent exists); every child edge afterwards is an old one or `(p, ins)` -/
structure OpR (p ins : Nat) (s s' : St) : Prop where
  len : s'.nodes.length = s.nodes.length
  kind : ∀ i, (ndx s' i).kind = (ndx s i).kind
  pc : s'.pc = s.pc
  wf : TreeWF s → ins < s.nodes.length → ins ≠ 0 → TreeWF s'
  edges : ∀ q x, x ∈ (ndx s' q).children → x ∈ (ndx s q).children ∨ (q = p ∧ x = ins)

/-- a pure removal: no new edge at all -/
structure RmR (s s' : St) : Prop where
  len : s'.nodes.length = s.nodes.length
  kind : ∀ i, (ndx s' i).kind = (ndx s i).kind
  pc : s'.pc = s.pc
  wf : TreeWF s → TreeWF s'
  edges : ∀ q x, x ∈ (ndx s' q).children → x ∈ (ndx s q).children

theorem RmR.refl (s : St) : RmR s s := ⟨rfl, fun _ => rfl, rfl, id, fun _ _ h => h⟩

theorem RmR.trans {a b c : St} (h1 : RmR a b) (h2 : RmR b c) : RmR a c :=
  ⟨h2.len.trans h1.len, fun i => (h2.kind i).trans (h1.kind i), h2.pc.trans h1.pc, fun w => h2.wf (h1.wf w),
   fun q x h => h1.edges q x (h2.edges q x h)⟩

/-! ### one `modNode` -/

theorem modNode_state {id : Nat} {f : Blocks.Node → Blocks.Node} {s s' : St} (h : modNode id f s = .ok ((), s')) :
    s' = { s with nodes := s.nodes.set id (f (ndx s id)) } := modNode_ok h

theorem ndx_mod (s : St) (id : Nat) (f : Blocks.Node → Blocks.Node) (i : Nat) :
    ndx { s with nodes := s.nodes.set id (f (ndx s id)) } i =
      if i = id ∧ id < s.nodes.length then f (ndx s id) else ndx s i := ndx_set s id _ i s.r s.pc

theorem modNode_ndx {id : Nat} {f : Blocks.Node → Blocks.Node} {s s' : St} (h : modNode id f s = .ok ((), s')) (i : Nat) :
    ndx s' i = if i = id ∧ id < s.nodes.length then f (ndx s id) else ndx s i := by
  have := modNode_state h; subst this; exact ndx_mod s id f i

/-! ### RemoveChild -/

theorem mem_erase_of {α} [DecidableEq α] {a b : α} {l : List α} (h : a ∈ l.erase b) : a ∈ l := List.mem_of_mem_erase h

theorem removeChild_rm (p c : Nat) (s s' : St) (h : removeChild p c s = .ok ((), s')) :
    RmR s s' ∧ ((ndx s c).parent = some p → (ndx s' c).parent = none) ∧
      (∀ i, i ≠ c → (ndx s' i).parent = (ndx s i).parent) ∧
      ((ndx s c).parent ≠ some p → s' = s) := by
  unfold removeChild at h
  obtain ⟨cn, s0, h0, h⟩ := bind_ok h
  obtain ⟨rfl, rfl⟩ := getNode_ok h0
  by_cases hpar : (ndx s0 c).parent = some p
  · have hne : ((ndx s0 c).parent != some p) = false := by simp [hpar]
    simp only [ndx] at hne
    simp only [hne, Bool.false_eq_true, if_false] at h
    obtain ⟨_, s1, h1, h2⟩ := bind_ok h
    have e1 := modNode_state h1
    have e2 := modNode_state h2
    -- the links of s1, s'
    have c1 : ∀ i, (ndx s1 i).children = if i = p then (ndx s0 p).children.erase c else (ndx s0 i).children := by
      intro i; rw [modNode_ndx h1]
      by_cases hi : i = p
      · subst hi
        by_cases hv : i < s0.nodes.length
        · simp [hv]
        · simp [hv, ndx_ge s0 (Nat.le_of_not_lt hv)]
          rfl
      · simp [hi]
    have p1 : ∀ i, (ndx s1 i).parent = (ndx s0 i).parent := by
      intro i; rw [modNode_ndx h1]; split
      · rename_i e; rw [e.1]
      · rfl
    have k1 : ∀ i, (ndx s1 i).kind = (ndx s0 i).kind := by
      intro i; rw [modNode_ndx h1]; split
      · rename_i e; rw [e.1]
      · rfl
    have l1 : s1.nodes.length = s0.nodes.length := by rw [e1]; simp
    have c2 : ∀ i, (ndx s' i).children = (ndx s1 i).children := by
      intro i; rw [modNode_ndx h2]; split
      · rename_i e; rw [e.1]
      · rfl
    have k2 : ∀ i, (ndx s' i).kind = (ndx s1 i).kind := by
      intro i; rw [modNode_ndx h2]; split
      · rename_i e; rw [e.1]
      · rfl
    have p2 : ∀ i, (ndx s' i).parent = if i = c then none else (ndx s1 i).parent := by
      intro i; rw [modNode_ndx h2]
      by_cases hi : i = c
      · subst hi
        by_cases hv : i < s1.nodes.length
        · simp [hv]
        · simp [hv, ndx_ge s1 (Nat.le_of_not_lt hv)]
          rfl
      · simp [hi]
    have l2 : s'.nodes.length = s1.nodes.length := by rw [e2]; simp
    have hpc : s'.pc = s0.pc := by rw [e2, e1]
    have hch : ∀ i, (ndx s' i).children = if i = p then (ndx s0 p).children.erase c else (ndx s0 i).children :=
      fun i => (c2 i).trans (c1 i)
    have hpa : ∀ i, (ndx s' i).parent = if i = c then none else (ndx s0 i).parent := by
      intro i; rw [p2 i]; split
      · rfl
      · exact p1 i
    refine ⟨⟨l2.trans l1, fun i => (k2 i).trans (k1 i), hpc, fun w => ?_, fun q x hx => ?_⟩, fun _ => ?_, fun i hi => ?_,
      fun hn => absurd hpar hn⟩
    · -- well-formedness
      refine ⟨fun q x hx => ?_, fun q => ?_, ?_, by rw [l2, l1]; exact w.ne, by rw [k2, k1]; exact w.rootKind⟩
      · rw [hch] at hx
        by_cases hq : q = p
        · subst hq
          simp only [if_true] at hx
          have hx' := mem_erase_of hx
          obtain ⟨a, b⟩ := w.edge q x hx'
          have hxc : x ≠ c := by
            intro e; subst e
            exact (List.Nodup.not_mem_erase (w.nodup q)) hx
          refine ⟨by rw [l2, l1]; exact a, ?_⟩
          rw [hpa]; simp [hxc, b]
        · simp only [hq, if_false] at hx
          obtain ⟨a, b⟩ := w.edge q x hx
          have hxc : x ≠ c := by
            intro e; subst e
            rw [b] at hpar; cases hpar; exact hq rfl
          refine ⟨by rw [l2, l1]; exact a, ?_⟩
          rw [hpa]; simp [hxc, b]
      · rw [hch]; split
        · exact (w.nodup p).erase c
        · exact w.nodup q
      · rw [hpa]; split
        · rfl
        · exact w.root
    · rw [hch] at hx
      split at hx
      · rename_i e; subst e; exact mem_erase_of hx
      · exact hx
    · rw [hpa]; simp
    · rw [hpa]; simp [hi]
  · have hne : ((ndx s0 c).parent != some p) = true := by simp [hpar]
    simp only [ndx] at hne
    simp only [hne, if_true] at h
    cases h
    exact ⟨RmR.refl _, fun e => absurd e hpar, fun _ _ => rfl, fun _ => rfl⟩

theorem ensureIsolated_rm (c : Nat) (s s' : St) (h : ensureIsolated c s = .ok ((), s')) :
    RmR s s' ∧ (ndx s' c).parent = none ∧ (∀ i, i ≠ c → (ndx s' i).parent = (ndx s i).parent) := by
  unfold ensureIsolated at h
  obtain ⟨cn, s0, h0, h⟩ := bind_ok h
  obtain ⟨rfl, rfl⟩ := getNode_ok h0
  cases hp : (ndx s0 c).parent with
  | none =>
    simp only [ndx] at hp
    simp only [hp] at h
    cases h
    exact ⟨RmR.refl _, hp, fun _ _ => rfl⟩
  | some q =>
    have hp' := hp
    simp only [ndx] at hp'
    simp only [hp'] at h
    obtain ⟨r1, r2, r3, _⟩ := removeChild_rm q c s0 s' h
    exact ⟨r1, r2 hp, r3⟩

/-! ### attaching an isolated node -/

/-- `children p := g (children p)`, `parent ins := some p` for an isolated `ins`, where `g` adds exactly `ins` -/
theorem attach_op (g : List Nat → List Nat) (p ins : Nat) (s s1 s' : St)
    (hg : ∀ l x, x ∈ g l ↔ x = ins ∨ x ∈ l) (hgn : ∀ l, l.Nodup → ins ∉ l → (g l).Nodup)
    (h1 : modNode p (fun n => { n with children := g n.children }) s = .ok ((), s1))
    (h2 : modNode ins (fun n => { n with parent := some p }) s1 = .ok ((), s'))
    (hiso : (ndx s ins).parent = none) :
    OpR p ins s s' ∧ ((ndx s' ins).parent = some p ∨ s.nodes.length ≤ ins) ∧
      (∀ i, i ≠ ins → (ndx s' i).parent = (ndx s i).parent) := by
  have e1 := modNode_state h1
  have e2 := modNode_state h2
  have l1 : s1.nodes.length = s.nodes.length := by rw [e1]; simp
  have l2 : s'.nodes.length = s1.nodes.length := by rw [e2]; simp
  have k1 : ∀ i, (ndx s1 i).kind = (ndx s i).kind := by
    intro i; rw [modNode_ndx h1]; split
    · rename_i e; rw [e.1]
    · rfl
  have k2 : ∀ i, (ndx s' i).kind = (ndx s1 i).kind := by
    intro i; rw [modNode_ndx h2]; split
    · rename_i e; rw [e.1]
    · rfl
  have p1 : ∀ i, (ndx s1 i).parent = (ndx s i).parent := by
    intro i; rw [modNode_ndx h1]; split
    · rename_i e; rw [e.1]
    · rfl
  have c2 : ∀ i, (ndx s' i).children = (ndx s1 i).children := by
    intro i; rw [modNode_ndx h2]; split
    · rename_i e; rw [e.1]
    · rfl
  have c1 : ∀ i, (ndx s1 i).children = if i = p ∧ p < s.nodes.length then g (ndx s p).children else (ndx s i).children := by
    intro i; rw [modNode_ndx h1]; split
    · rfl
    · rfl
  have p2 : ∀ i, (ndx s' i).parent = if i = ins ∧ ins < s.nodes.length then some p else (ndx s i).parent := by
    intro i; rw [modNode_ndx h2, l1]; split
    · rfl
    · exact p1 i
  have hch : ∀ i, (ndx s' i).children = if i = p ∧ p < s.nodes.length then g (ndx s p).children else (ndx s i).children :=
    fun i => (c2 i).trans (c1 i)
  refine ⟨⟨l2.trans l1, fun i => (k2 i).trans (k1 i), by rw [e2, e1], fun w hiv hi0 => ?_, fun q x hx => ?_⟩, ?_,
    fun i hi => ?_⟩
  · -- `ins` is in no child list
    have hnot : ∀ q, ins ∉ (ndx s q).children := by
      intro q hq
      have := (w.edge q ins hq).2
      rw [hiso] at this; cases this
    refine ⟨fun q x hx => ?_, fun q => ?_, ?_, by rw [l2, l1]; exact w.ne, by rw [k2, k1]; exact w.rootKind⟩
    · rw [hch] at hx
      rw [l2, l1, p2]
      split at hx
      · rename_i e
        obtain ⟨rfl, _⟩ := e
        rcases (hg _ _).1 hx with rfl | hx
        · exact ⟨hiv, by simp [hiv]⟩
        · obtain ⟨a, b⟩ := w.edge q x hx
          have : x ≠ ins := fun e => hnot q (e ▸ hx)
          exact ⟨a, by simp [this, b]⟩
      · obtain ⟨a, b⟩ := w.edge q x hx
        have : x ≠ ins := fun e => hnot q (e ▸ hx)
        exact ⟨a, by simp [this, b]⟩
    · rw [hch]; split
      · exact hgn _ (w.nodup p) (hnot p)
      · exact w.nodup q
    · rw [p2]
      have : ¬ (0 = ins ∧ ins < s.nodes.length) := fun e => hi0 e.1.symm
      simp only [this, if_false]; exact w.root
  · rw [hch] at hx
    split at hx
    · rename_i e
      obtain ⟨rfl, _⟩ := e
      rcases (hg _ _).1 hx with rfl | hx
      · exact Or.inr ⟨rfl, rfl⟩
      · exact Or.inl hx
    · exact Or.inl hx
  · by_cases hv : ins < s.nodes.length
    · left; rw [p2]; simp [hv]
    · right; exact Nat.le_of_not_lt hv
  · rw [p2]; simp [hi]

theorem OpR.of_rm_op {p ins : Nat} {a b c : St} (h1 : RmR a b) (h2 : OpR p ins b c) : OpR p ins a c where
  len := h2.len.trans h1.len
  kind := fun i => (h2.kind i).trans (h1.kind i)
  pc := h2.pc.trans h1.pc
  wf := fun w hi h0 => h2.wf (h1.wf w) (by rw [h1.len]; exact hi) h0
  edges := fun q x hx => by
    rcases h2.edges q x hx with h | h
    · exact Or.inl (h1.edges q x h)
    · exact Or.inr h

theorem OpR.of_op_rm {p ins : Nat} {a b c : St} (h1 : OpR p ins a b) (h2 : RmR b c) : OpR p ins a c where
  len := h2.len.trans h1.len
  kind := fun i => (h2.kind i).trans (h1.kind i)
  pc := h2.pc.trans h1.pc
  wf := fun w hi h0 => h2.wf (h1.wf w hi h0)
  edges := fun q x hx => h1.edges q x (h2.edges q x hx)

/-! ### AppendChild -/

theorem appendChild_op (p c : Nat) (s s' : St) (h : appendChild p c s = .ok ((), s')) : OpR p c s s' := by
  unfold appendChild at h
  obtain ⟨_, s0, h0, h⟩ := bind_ok h
  obtain ⟨_, s1, h1, h2⟩ := bind_ok h
  obtain ⟨r1, r2, _⟩ := ensureIsolated_rm c s s0 h0
  refine OpR.of_rm_op r1 (attach_op (fun l => l ++ [c]) p c s0 s1 s' ?_ ?_ h1 h2 r2).1
  · intro l x; simp only [List.mem_append, List.mem_singleton]; exact or_comm
  · intro l hl hn
    rw [List.nodup_append]
    refine ⟨hl, by simp, ?_⟩
    intro a ha b hb
    rw [List.mem_singleton] at hb
    subst hb
    intro e; subst e; exact hn ha

/-! ### InsertBefore / InsertAfter / ReplaceChild -/

theorem mem_insertBeforeIn (v ins : Nat) : ∀ (l : List Nat) (x : Nat), x ∈ insertBeforeIn v ins l ↔ x = ins ∨ x ∈ l
  | [], x => by simp [insertBeforeIn]
  | a :: rest, x => by
    unfold insertBeforeIn
    split
    · simp
    · simp only [List.mem_cons, mem_insertBeforeIn v ins rest x]
      constructor
      · rintro (h | h | h)
        · exact Or.inr (Or.inl h)
        · exact Or.inl h
        · exact Or.inr (Or.inr h)
      · rintro (h | h | h)
        · exact Or.inr (Or.inl h)
        · exact Or.inl h
        · exact Or.inr (Or.inr h)

theorem nodup_insertBeforeIn (v ins : Nat) : ∀ (l : List Nat), l.Nodup → ins ∉ l → (insertBeforeIn v ins l).Nodup
  | [], _, _ => by simp [insertBeforeIn]
  | a :: rest, hl, hn => by
    unfold insertBeforeIn
    rw [List.nodup_cons] at hl
    split
    · rw [List.nodup_cons]
      exact ⟨hn, List.nodup_cons.2 hl⟩
    · rw [List.nodup_cons]
      refine ⟨?_, nodup_insertBeforeIn v ins rest hl.2 (fun h => hn (List.mem_cons_of_mem _ h))⟩
      intro h
      rcases (mem_insertBeforeIn v ins rest a).1 h with e | e
      · exact hn (e ▸ List.mem_cons_self ..)
      · exact hl.1 e

theorem insertBefore_op (p : Nat) (v1 : Option Nat) (ins : Nat) (s s' : St)
    (h : insertBefore p v1 ins s = .ok ((), s')) : OpR p ins s s' := by
  unfold insertBefore at h
  cases v1 with
  | none => exact appendChild_op p ins s s' h
  | some v =>
    simp only at h
    obtain ⟨vn, s0, h0, h⟩ := bind_ok h
    obtain ⟨rfl, rfl⟩ := getNode_ok h0
    split at h
    · exact appendChild_op p ins s0 s' h
    · obtain ⟨_, s1, h1, h⟩ := bind_ok h
      obtain ⟨_, s2, h2, h3⟩ := bind_ok h
      obtain ⟨r1, r2, _⟩ := ensureIsolated_rm ins s0 s1 h1
      exact OpR.of_rm_op r1 (attach_op (insertBeforeIn v ins) p ins s1 s2 s' (mem_insertBeforeIn v ins)
        (nodup_insertBeforeIn v ins) h2 h3 r2).1

theorem nextSibling_same (c : Nat) (s : St) (a : Option Nat) (s' : St) (h : nextSibling c s = .ok (a, s')) : s' = s := by
  unfold nextSibling at h
  obtain ⟨cn, s0, h0, h⟩ := bind_ok h
  obtain ⟨rfl, rfl⟩ := getNode_ok h0
  cases hq : (s0.nodes.getD c default).parent with
  | none => simp only [hq] at h; cases h; rfl
  | some q =>
    simp only [hq] at h
    obtain ⟨pn, s1, h1, h⟩ := bind_ok h
    obtain ⟨rfl, rfl⟩ := getNode_ok h1
    cases h; rfl

theorem insertAfter_op (p : Nat) (v1 : Option Nat) (ins : Nat) (s s' : St)
    (h : insertAfter p v1 ins s = .ok ((), s')) : OpR p ins s s' := by
  unfold insertAfter at h
  cases v1 with
  | none => exact appendChild_op p ins s s' h
  | some v =>
    simp only at h
    obtain ⟨next, s0, h0, hk⟩ := bind_ok h
    have e0 := nextSibling_same v s next s0 h0
    rw [e0] at hk
    split at hk
    · obtain ⟨next2, s1, h1, hk2⟩ := bind_ok hk
      have e1 := nextSibling_same ins s next2 s1 h1
      rw [e1] at hk2
      exact insertBefore_op p next2 ins s s' hk2
    · obtain ⟨next2, s1, h1, hk2⟩ := bind_ok hk
      obtain ⟨_, e1⟩ := pure_ok h1
      rw [e1] at hk2
      exact insertBefore_op p next2 ins s s' hk2

theorem replaceChild_op (p v1 ins : Nat) (s s' : St) (h : replaceChild p v1 ins s = .ok ((), s')) : OpR p ins s s' := by
  unfold replaceChild at h
  obtain ⟨_, s0, h0, h1⟩ := bind_ok h
  exact OpR.of_op_rm (insertBefore_op p (some v1) ins s s0 h0) (removeChild_rm p v1 s0 s' h1).1

end GM.ConvertH
