/-
  GM.Proof.ConvertHWFClose — `StepR`: what the close discipline needs from ANY step of a block parser or paragraph
  transformer, and `Stp m` ("whenever `m` ends normally, `StepR`") for everything the driver calls: `bpOpen`, `bpContinue`,
  `bpClose` (incl. the tree surgery of paragraph / setext heading / list Close) and the link reference transformer.
  The surgery inserts only nodes it has just created (Paragraph / TextBlock): never a Heading.
-/
import GM.Proof.ConvertHWFOps
import GM.Proof.ConvertHWFOpen
import GM.Model.LinkRef
import GM.Model.Convert

namespace GM.ConvertH
open GM GM.Text GM.Blocks

structure StepR (s s' : St) : Prop where
  len : s.nodes.length ≤ s'.nodes.length
  kind : ∀ i, i < s.nodes.length → (ndx s' i).kind = (ndx s i).kind
  opened : s'.pc.opened = s.pc.opened
  wf : TreeWF s → TreeWF s' ∧
    ∀ p c, c ∈ (ndx s' p).children → (ndx s' c).kind = .heading → c ∈ (ndx s p).children

theorem StepR.refl (s : St) : StepR s s := ⟨Nat.le_refl _, fun _ _ => rfl, rfl, fun w => ⟨w, fun _ _ h _ => h⟩⟩

theorem StepR.trans {a b c : St} (h1 : StepR a b) (h2 : StepR b c) : StepR a c where
  len := Nat.le_trans h1.len h2.len
  kind := fun i hi => (h2.kind i (Nat.lt_of_lt_of_le hi h1.len)).trans (h1.kind i hi)
  opened := h2.opened.trans h1.opened
  wf := fun w => by
    obtain ⟨w1, e1⟩ := h1.wf w
    obtain ⟨w2, e2⟩ := h2.wf w1
    refine ⟨w2, fun p x hx hk => ?_⟩
    have hb := e2 p x hx hk
    have hv := (w1.edge p x hb).1
    exact e1 p x hb (by rw [← h2.kind x hv]; exact hk)

theorem StepR.of_lr {s s' : St} (h : LR s s') : StepR s s' where
  len := h.len
  kind := h.kind
  opened := h.opened
  wf := fun w => ⟨h.wf w, fun p c hc _ => by rw [(h.links p).2] at hc; exact hc⟩

theorem StepR.of_rm {s s' : St} (h : RmR s s') : StepR s s' where
  len := Nat.le_of_eq h.len.symm
  kind := fun i _ => h.kind i
  opened := by rw [h.pc]
  wf := fun w => ⟨h.wf w, fun p c hc _ => h.edges p c hc⟩

theorem StepR.of_op {p ins : Nat} {s s' : St} (h : OpR p ins s s') (hk : (ndx s ins).kind ≠ .heading)
    (hv : TreeWF s → ins < s.nodes.length ∧ ins ≠ 0) : StepR s s' where
  len := Nat.le_of_eq h.len.symm
  kind := fun i _ => h.kind i
  opened := by rw [h.pc]
  wf := fun w => ⟨h.wf w (hv w).1 (hv w).2, fun q x hx hkx => by
    rcases h.edges q x hx with e | ⟨_, rfl⟩
    · exact e
    · rw [h.kind] at hkx; exact absurd hkx hk⟩

structure Stp {α : Type} (m : M α) : Prop where
  h : ∀ s a s', m s = .ok (a, s') → StepR s s'

theorem Stp.of_lk {α} {m : M α} (h : Lk m) : Stp m := ⟨fun s a s' e => StepR.of_lr (h.h s a s' e)⟩

theorem Stp.bind {α β} {m : M α} {f : α → M β} (hm : Stp m) (hf : ∀ a, Stp (f a)) : Stp (m >>= f) := by
  constructor
  intro s b s'' h
  obtain ⟨a, s', h1, h2⟩ := bind_ok h
  exact (hm.h s a s' h1).trans ((hf a).h s' b s'' h2)

theorem Stp.ite {α} {c : Prop} [Decidable c] {a b : M α} (ha : Stp a) (hb : Stp b) : Stp (if c then a else b) := by
  split <;> assumption

theorem Stp.pure {α} (a : α) : Stp (Pure.pure a : M α) := .of_lk (Lk.pure a)
theorem Stp.throw {α} (e : Panic) : Stp (throw e : M α) := .of_lk (Lk.throw e)

theorem removeChild_stp (p c : Nat) : Stp (removeChild p c) :=
  ⟨fun s _ s' h => StepR.of_rm (removeChild_rm p c s s' h).1⟩

/-- `x` exists and is neither a Heading nor the Document -/
def PX (x : Nat) (s : St) : Prop :=
  x < s.nodes.length ∧ (ndx s x).kind ≠ .heading ∧ (ndx s x).kind ≠ .document

theorem PX.step {x : Nat} {s s' : St} (h : PX x s) (st : StepR s s') : PX x s' :=
  ⟨Nat.lt_of_lt_of_le h.1 st.len, by rw [st.kind x h.1]; exact h.2.1, by rw [st.kind x h.1]; exact h.2.2⟩

/-- a step, given that `x` is such a node (the node the surgery has just created) -/
structure StpX (x : Nat) {α : Type} (m : M α) : Prop where
  h : ∀ s a s', m s = .ok (a, s') → PX x s → StepR s s'

theorem StpX.of_stp {x : Nat} {α} {m : M α} (h : Stp m) : StpX x m := ⟨fun s a s' e _ => h.h s a s' e⟩

theorem StpX.bind {x : Nat} {α β} {m : M α} {f : α → M β} (hm : StpX x m) (hf : ∀ a, StpX x (f a)) :
    StpX x (m >>= f) := by
  constructor
  intro s b s'' h hp
  obtain ⟨a, s', h1, h2⟩ := bind_ok h
  have st := hm.h s a s' h1 hp
  exact st.trans ((hf a).h s' b s'' h2 (hp.step st))

theorem StpX.ite {x : Nat} {α} {c : Prop} [Decidable c] {a b : M α} (ha : StpX x a) (hb : StpX x b) :
    StpX x (if c then a else b) := by split <;> assumption

theorem StpX.of_op {x : Nat} {m : M Unit} (h : ∀ s s', m s = .ok ((), s') → ∃ p, OpR p x s s') : StpX x m := by
  constructor
  intro s a s' e hp
  obtain ⟨p, hop⟩ := h s s' e
  exact StepR.of_op hop hp.2.1 (fun w => ⟨hp.1, fun e0 => hp.2.2 (by rw [e0]; exact w.rootKind)⟩)

theorem insertAfter_stpx (p : Nat) (v : Option Nat) (x : Nat) : StpX x (insertAfter p v x) :=
  .of_op fun s s' h => ⟨p, insertAfter_op p v x s s' h⟩
theorem replaceChild_stpx (p v x : Nat) : StpX x (replaceChild p v x) :=
  .of_op fun s s' h => ⟨p, replaceChild_op p v x s s' h⟩

/-- creating a node (not a Heading, not a Document, unlinked) and going on with a computation that may insert it -/
theorem Stp.new {α} (n : Blocks.Node) {f : Nat → M α} (hk : n.kind ≠ .heading) (hd : n.kind ≠ .document)
    (hp : n.parent = none) (hc : n.children = []) (hf : ∀ x, StpX x (f x)) : Stp (newNode n >>= f) := by
  constructor
  intro s b s'' h
  obtain ⟨x, s', h1, h2⟩ := bind_ok h
  have l1 := (newNode_lk n hp hc).h s x s' h1
  obtain ⟨ex, es⟩ := newNode_ok h1
  have hx : PX x s' := by
    refine ⟨by rw [es, ex]; simp, ?_, ?_⟩ <;> (rw [es, ex, ndx_append]; simpa)
  exact (StepR.of_lr l1).trans ((hf x).h s' b s'' h2 hx)

macro "lk_leaf" : tactic =>
  `(tactic| first
    | with_reducible apply getNode_lk
    | with_reducible apply getPc_lk
    | with_reducible apply source_lk
    | with_reducible apply position_lk
    | with_reducible apply setPosition_lk
    | with_reducible apply get_lk
    | with_reducible apply peekLine_lk
    | with_reducible apply lineOffset_lk
    | with_reducible apply advance_lk
    | with_reducible apply advanceAndSetPadding_lk
    | with_reducible apply advanceLine_lk
    | with_reducible apply liftE_lk
    | with_reducible apply appendLine_lk
    | ((with_reducible apply modNode_lk); intro _; exact ⟨rfl, rfl, rfl⟩)
    | ((with_reducible apply modPc_lk); intro _; rfl)
    | ((with_reducible apply newNode_lk) <;> rfl))

macro "stp_step" : tactic =>
  `(tactic| first
    | apply_hyp
    | exact insertAfter_stpx _ _ _
    | exact replaceChild_stpx _ _ _
    | (refine Stp.new _ (by simp) (by simp) rfl rfl (fun _ => ?_))
    | with_reducible apply StpX.bind
    | with_reducible apply StpX.ite
    | with_reducible apply Stp.bind
    | with_reducible apply Stp.ite
    | exact Stp.throw _
    | exact Stp.pure _
    | (apply Stp.of_lk; lk_leaf)
    | intro _
    | split
    | with_reducible apply StpX.of_stp)

macro "stp" : tactic => `(tactic| repeat' stp_step)

/-! ### the four functions with tree surgery -/

theorem paragraphClose_stp (n : Nat) : Stp (paragraphClose n) := by
  have := removeChild_stp
  unfold paragraphClose; stp

theorem nextSibling_stp (c : Nat) : Stp (nextSibling c) := by unfold nextSibling; stp

theorem setextClose_stp (n : Nat) : Stp (setextClose n) := by
  have := removeChild_stp
  have := nextSibling_stp
  unfold setextClose; stp

theorem tightenItem_stp (child : Nat) (gcs : List Nat) : Stp (tightenItem child gcs) := by
  induction gcs with
  | nil => unfold tightenItem; stp
  | cons gc gcs ih => unfold tightenItem; stp

theorem tightenItems_stp (cs : List Nat) : Stp (tightenItems cs) := by
  have := tightenItem_stp
  induction cs with
  | nil => unfold tightenItems; stp
  | cons c cs ih => unfold tightenItems; stp

theorem listClose_stp (n : Nat) : Stp (listClose n) := by
  have := tightenItems_stp
  unfold listClose; stp

theorem bpClose_stp (bp : BP) (n : Nat) : Stp (bpClose bp n) := by
  cases bp <;> unfold bpClose
  · exact setextClose_stp n
  · exact Stp.pure _
  · exact listClose_stp n
  · exact Stp.pure _
  · exact Stp.of_lk (codeClose_lk n)
  · exact Stp.pure _
  · exact Stp.of_lk (fencedClose_lk n)
  · exact Stp.pure _
  · exact Stp.pure _
  · exact paragraphClose_stp n

theorem bpOpen_stp (bp : BP) (p : Nat) : Stp (bpOpen bp p) := .of_lk (bpOpen_lk bp p)
theorem bpContinue_stp (bp : BP) (n : Nat) : Stp (bpContinue bp n) := .of_lk (bpContinue_lk bp n)
theorem toContinuable_stp (c : Bool) (r : OpenResult) (lb : Option Block) : Stp (toContinuable c r lb) :=
  .of_lk (toContinuable_lk c r lb)

/-! ### the link reference paragraph transformer -/

theorem transformFinish_stp (node : Nat) (n : Blocks.Node) (removes : List (Int × Int)) (refs : GM.LinkRef.RefMap) :
    Stp (GM.LinkRef.transformFinish node n removes refs) := by
  unfold GM.LinkRef.transformFinish; stp

theorem transform_stp (node : Nat) : Stp (GM.LinkRef.transform node) := by
  have := transformFinish_stp
  unfold GM.LinkRef.transform; stp

theorem guardedTransform_stp (node : Nat) : Stp (GM.LinkRef.guardedTransform node) := by
  have := transform_stp
  unfold GM.LinkRef.guardedTransform; stp

/-- a paragraph transformer the discipline can live with -/
def PTStp (pt : PT) : Prop := ∀ n, Stp (pt n)

theorem transformParagraph_stp : ∀ (pts : List PT), (∀ pt ∈ pts, PTStp pt) → ∀ n, Stp (transformParagraph pts n)
  | [], _, n => by unfold transformParagraph; stp
  | pt :: pts, hp, n => by
    have h1 : ∀ n, Stp (pt n) := hp pt (List.mem_cons_self ..)
    have h2 := transformParagraph_stp pts (fun q hq => hp q (List.mem_cons_of_mem _ hq))
    unfold transformParagraph; stp

theorem paragraphTransformers_stp (guard : Bool) : ∀ pt ∈ GM.Convert.paragraphTransformers guard, PTStp pt := by
  intro pt hpt
  unfold GM.Convert.paragraphTransformers at hpt
  rw [List.mem_singleton] at hpt
  subst hpt
  intro n
  split
  · exact guardedTransform_stp n
  · exact transform_stp n

end GM.ConvertH
