/-
  GM.Proof.RenderWF.Tokenize — Appendix E step 2: soundness of the strict tokenizer `Spec.tokenize` for the
  grammar `WFHtml`. A grammar word is the serialisation of a balanced list of good tokens; the tokenizer reads
  such a serialisation back (adjacent text pieces merge into one text token) and the structural predicates
  hold of the result.
-/
import GM.Proof.RenderWF.Grammar

namespace GM.Proof.RenderWF
open GM GM.Spec

/-! ### equations of the lexer -/

theorem lexOne_lt (r : Bytes) : lexOne (60 :: r) =
    (if startsWith placeholder (60 :: r) then some (.comment, (60 :: r).drop placeholder.length)
     else match r with
      | 47 :: r1 =>
        match r1.dropWhile isTagNameB with
        | 62 :: r2 => if (r1.takeWhile isTagNameB).isEmpty then none else some (.endTag (r1.takeWhile isTagNameB), r2)
        | _ => none
      | _ =>
        if (r.takeWhile isTagNameB).isEmpty then none
        else match lexAttrs (60 :: r).length (r.dropWhile isTagNameB) with
          | some (as, sc, rest) => some (.startTag (r.takeWhile isTagNameB) as sc, rest)
          | none => none) := by
  rfl

theorem lexOne_text (c : UInt8) (r : Bytes) (h : c ≠ 60) :
    lexOne (c :: r) = some (.text ((c :: r).takeWhile (· != 60)), (c :: r).dropWhile (· != 60)) := by
  unfold lexOne
  split
  · rename_i heq; cases heq
  · rename_i heq; simp at heq; exact absurd heq.1 h
  · rfl

theorem lexAttrs_gt (fuel : Nat) (r : Bytes) : lexAttrs fuel (62 :: r) = some ([], false, r) := by
  unfold lexAttrs; rfl
theorem lexAttrs_sc (fuel : Nat) (r : Bytes) : lexAttrs fuel (32 :: 47 :: 62 :: r) = some ([], true, r) := by
  unfold lexAttrs; rfl
theorem lexAttrs_attr (fuel : Nat) (c : UInt8) (r : Bytes) (hc : isAttrStartB c = true) :
    lexAttrs (fuel + 1) (32 :: c :: r) =
      (match r.dropWhile isAttrNameB with
      | 61 :: 34 :: r2 =>
        match r2.dropWhile (· != 34) with
        | 34 :: r3 =>
          match lexAttrs fuel r3 with
          | some (as, sc, rest) => some ((c :: r.takeWhile isAttrNameB, r2.takeWhile (· != 34)) :: as, sc, rest)
          | none => none
        | _ => none
      | _ => none) := by
  have h47 : c ≠ 47 := by rintro rfl; simp [isAttrStartB, isAlphaB] at hc
  rw [lexAttrs.eq_def]
  split
  · rename_i heq; simp at heq
  · rename_i heq; simp at heq; exact absurd heq.1.symm (by simpa using h47.symm)
  · rename_i heq1 heq2
    simp at heq1 heq2
    obtain ⟨rfl, rfl⟩ := heq2
    subst heq1
    simp only [hc, ↓reduceIte]
    rfl
  · rename_i h1 h2 h3
    exact (h3 fuel c r rfl rfl).elim

/-! ### takeWhile / dropWhile up to a stopper -/

/-- the list is empty or starts with a byte not satisfying `p` -/
def StopAt (p : UInt8 → Bool) (s : Bytes) : Prop := ∀ d R, s = d :: R → p d = false

theorem stopAt_nil (p : UInt8 → Bool) : StopAt p [] := by intro d R h; cases h
theorem stopAt_cons (p : UInt8 → Bool) (d : UInt8) (R : Bytes) (h : p d = false) : StopAt p (d :: R) := by
  intro d' R' e; cases e; exact h

theorem span_stop (p : UInt8 → Bool) (n s : Bytes) (hall : ∀ c ∈ n, p c = true) (hs : StopAt p s) :
    (n ++ s).takeWhile p = n ∧ (n ++ s).dropWhile p = s := by
  induction n with
  | nil =>
    cases s with
    | nil => simp
    | cons d R => simp [hs d R rfl]
  | cons c n ih =>
    have := ih (fun d hd => hall d (by simp [hd]))
    simp [hall c (by simp), this]

/-! ### serialisation of tokens -/

def closeBytes (sc : Bool) : Bytes := if sc then [32, 47, 62] else [62]

def ser : Tok → Bytes
  | .text b => b
  | .comment => placeholder
  | .startTag n as sc => [60] ++ n ++ serAttrs as ++ closeBytes sc
  | .endTag n => [60, 47] ++ n ++ [62]

def serAll : List Tok → Bytes
  | [] => []
  | t :: ts => ser t ++ serAll ts

theorem serAll_append (a b : List Tok) : serAll (a ++ b) = serAll a ++ serAll b := by
  induction a with
  | nil => rfl
  | cons t a ih => simp [serAll, ih]

/-- side conditions of a token of a grammar word -/
def TokGood (x : Bool) : Tok → Prop
  | .text b => inertBytes b = true
  | .comment => True
  | .startTag n as sc => StartOK n as ∧ sc = (if voidTags.contains n then x else false)
  | .endTag n => tagNameOK n = true ∧ (allowedAttrs n).isSome = true

/-- every open stack is restored -/
def Balanced (ts : List Tok) : Prop := ∀ st, nestRun st ts = some st

theorem nestRun_append (st : List Bytes) (a b : List Tok) :
    nestRun st (a ++ b) = (match nestRun st a with | some st' => nestRun st' b | none => none) := by
  induction a generalizing st with
  | nil => rfl
  | cons t a ih =>
    simp only [List.cons_append, nestRun]
    cases nestStep st t with
    | none => rfl
    | some st' => exact ih st'

theorem balanced_append {a b : List Tok} (ha : Balanced a) (hb : Balanced b) : Balanced (a ++ b) := by
  intro st; rw [nestRun_append, ha st]; exact hb st

theorem startOK_allowed {n : Bytes} {as : List (Bytes × Bytes)} (h : StartOK n as) :
    (allowedAttrs n).isSome = true := by
  have := h.vocab
  cases hal : allowedAttrs n with
  | none => simp only [vocabTok, hal] at this; cases this
  | some _ => rfl

/-- a grammar word is the serialisation of a balanced list of good tokens -/
theorem wf_tokens {x : Bool} {b : Bytes} (h : WFHtml x b) :
    ∃ ts, b = serAll ts ∧ (∀ t ∈ ts, TokGood x t) ∧ Balanced ts := by
  induction h with
  | nil => exact ⟨[], rfl, by simp, fun st => rfl⟩
  | text b hb =>
    refine ⟨[.text b], by simp [serAll, ser], ?_, fun st => rfl⟩
    intro t ht; simp only [List.mem_singleton] at ht; subst ht; exact hb
  | comment =>
    refine ⟨[.comment], by simp [serAll, ser], ?_, fun st => rfl⟩
    intro t ht; simp only [List.mem_singleton] at ht; subst ht; trivial
  | void n as hv sok =>
    refine ⟨[.startTag n as x], by simp [serAll, ser, closeBytes], ?_, ?_⟩
    · intro t ht; simp only [List.mem_singleton] at ht; subst ht
      exact ⟨sok, by rw [if_pos hv]⟩
    · intro st; simp only [nestRun, nestStep, hv, ↓reduceIte]
  | elem n as body hv sok _ ih =>
    obtain ⟨ts, e, hg, hbal⟩ := ih
    refine ⟨[.startTag n as false] ++ ts ++ [.endTag n], ?_, ?_, ?_⟩
    · rw [serAll_append, serAll_append, e]; simp [serAll, ser, closeBytes]
    · intro t ht
      simp only [List.mem_append, List.mem_singleton] at ht
      rcases ht with (rfl | ht) | rfl
      · exact ⟨sok, by rw [hv]; rfl⟩
      · exact hg t ht
      · exact ⟨sok.name, startOK_allowed sok⟩
    · intro st
      rw [nestRun_append, nestRun_append]
      simp only [nestRun, nestStep, hv, Bool.false_eq_true, ↓reduceIte, hbal (n :: st)]
      simp
  | append a b _ _ iha ihb =>
    obtain ⟨ta, ea, ga, ba⟩ := iha
    obtain ⟨tb, eb, gb, bb⟩ := ihb
    refine ⟨ta ++ tb, by rw [serAll_append, ea, eb], ?_, balanced_append ba bb⟩
    intro t ht
    rw [List.mem_append] at ht
    rcases ht with ht | ht
    · exact ga t ht
    · exact gb t ht

/-! ### the lexer reads a serialised tag back -/

theorem placeholder_eq : placeholder = [60, 33, 45, 45, 32, 114, 97, 119, 32, 72, 84, 77, 76, 32, 111, 109, 105,
    116, 116, 101, 100, 32, 45, 45, 62] := by decide +kernel

theorem startsWith_self_append (p R : Bytes) : startsWith p (p ++ R) = true := by
  unfold startsWith
  rw [List.take_left']
  · exact beq_self_eq_true _
  · rfl

theorem startsWith_placeholder_false (c : UInt8) (r : Bytes) (h : c ≠ 33) :
    startsWith placeholder (60 :: c :: r) = false := by
  rw [placeholder_eq]
  unfold startsWith
  simp [List.take, h]

theorem lexOne_comment (R : Bytes) : lexOne (placeholder ++ R) = some (.comment, R) := by
  have h1 : placeholder ++ R = 60 :: (placeholder.tail ++ R) := by rw [placeholder_eq]; rfl
  have h2 := startsWith_self_append placeholder R
  rw [h1] at h2 ⊢
  rw [lexOne_lt, if_pos h2, ← h1, List.drop_left']
  rfl

theorem not_tagName_62 : isTagNameB 62 = false := by decide
theorem not_tagName_32 : isTagNameB 32 = false := by decide

theorem tagName_head {n : Bytes} (h : tagNameOK n = true) :
    ∃ c n', n = c :: n' ∧ isTagNameB c = true ∧ (∀ d ∈ n, isTagNameB d = true) := by
  unfold tagNameOK at h
  rw [Bool.and_eq_true, List.all_eq_true] at h
  cases n with
  | nil => simp at h
  | cons c n' => exact ⟨c, n', rfl, h.2 c (by simp), h.2⟩

theorem lexOne_endTag (n R : Bytes) (hn : tagNameOK n = true) :
    lexOne ([60, 47] ++ n ++ [62] ++ R) = some (.endTag n, R) := by
  obtain ⟨c, n', rfl, hc, hall⟩ := tagName_head hn
  have hs := span_stop isTagNameB (c :: n') (62 :: R) hall (stopAt_cons _ _ _ not_tagName_62)
  have e : [60, 47] ++ (c :: n') ++ [62] ++ R = 60 :: 47 :: ((c :: n') ++ 62 :: R) := by simp
  rw [e, lexOne_lt, if_neg (by rw [startsWith_placeholder_false _ _ (by decide)]; simp)]
  simp only [hs.1, hs.2]
  rfl

theorem attrStart_ne_47 {c : UInt8} (h : isAttrStartB c = true) : c ≠ 47 := by
  rintro rfl; simp [isAttrStartB, isAlphaB] at h

theorem attrName_head {n : Bytes} (h : attrNameOK n = true) :
    ∃ c n', n = c :: n' ∧ isAttrStartB c = true ∧ (∀ d ∈ n', isAttrNameB d = true) := by
  cases n with
  | nil => simp [attrNameOK] at h
  | cons c n' =>
    simp only [attrNameOK, Bool.and_eq_true, List.all_eq_true] at h
    exact ⟨c, n', rfl, h.1, h.2⟩

theorem inert_no34 {v : Bytes} (h : inertBytes v = true) : ∀ d ∈ v, (d != 34) = true := by
  unfold inertBytes at h
  rw [Bool.and_eq_true, List.all_eq_true] at h
  intro d hd
  have := h.2 d hd
  simp only [Bool.and_eq_true] at this
  exact this.2

theorem inert_no60 {v : Bytes} (h : inertBytes v = true) : ∀ d ∈ v, (d != 60) = true := by
  unfold inertBytes at h
  rw [Bool.and_eq_true, List.all_eq_true] at h
  intro d hd
  have := h.2 d hd
  simp only [Bool.and_eq_true] at this
  exact this.1.1

theorem lexAttrs_ser (as : List (Bytes × Bytes)) (hok : as.all attrOK = true) (sc : Bool) (R : Bytes) :
    ∀ fuel, as.length ≤ fuel → lexAttrs fuel (serAttrs as ++ closeBytes sc ++ R) = some (as, sc, R) := by
  induction as with
  | nil =>
    intro fuel _
    cases sc
    · exact lexAttrs_gt fuel R
    · exact lexAttrs_sc fuel R
  | cons a as ih =>
    intro fuel hf
    rw [List.all_cons, Bool.and_eq_true] at hok
    obtain ⟨nm, v⟩ := a
    have ha := hok.1
    unfold attrOK at ha
    rw [Bool.and_eq_true] at ha
    obtain ⟨c, nm', rfl, hc, hall⟩ := attrName_head ha.1
    cases fuel with
    | zero => simp at hf
    | succ f =>
      have e : serAttrs ((c :: nm', v) :: as) ++ closeBytes sc ++ R =
          32 :: c :: (nm' ++ 61 :: 34 :: (v ++ 34 :: (serAttrs as ++ closeBytes sc ++ R))) := by
        simp [serAttrs]
      rw [e, lexAttrs_attr f c _ hc]
      have s1 := span_stop isAttrNameB nm' (61 :: 34 :: (v ++ 34 :: (serAttrs as ++ closeBytes sc ++ R))) hall
        (stopAt_cons _ _ _ (by decide))
      have s2 := span_stop (· != 34) v (34 :: (serAttrs as ++ closeBytes sc ++ R)) (inert_no34 ha.2)
        (stopAt_cons _ _ _ (by decide))
      simp only [s1.1, s1.2, s2.1, s2.2, ih hok.2 f (by simp at hf; omega)]

theorem length_le_serAttrs (as : List (Bytes × Bytes)) : as.length ≤ (serAttrs as).length := by
  induction as with
  | nil => simp
  | cons a as ih => simp [serAttrs]; omega

theorem tail_stop (as : List (Bytes × Bytes)) (sc : Bool) (R : Bytes) :
    StopAt isTagNameB (serAttrs as ++ closeBytes sc ++ R) := by
  cases as with
  | nil => cases sc <;> exact stopAt_cons _ _ _ (by decide)
  | cons a as => exact stopAt_cons _ _ _ (by decide)

theorem lexOne_startTag (n : Bytes) (as : List (Bytes × Bytes)) (sc : Bool) (R : Bytes) (hn : tagNameOK n = true)
    (hok : as.all attrOK = true) :
    lexOne ([60] ++ n ++ serAttrs as ++ closeBytes sc ++ R) = some (.startTag n as sc, R) := by
  obtain ⟨c, n', rfl, hc, hall⟩ := tagName_head hn
  have hs := span_stop isTagNameB (c :: n') (serAttrs as ++ closeBytes sc ++ R) hall (tail_stop as sc R)
  have e : [60] ++ (c :: n') ++ serAttrs as ++ closeBytes sc ++ R =
      60 :: c :: (n' ++ (serAttrs as ++ closeBytes sc ++ R)) := by simp
  have c33 : c ≠ 33 := by rintro rfl; simp [isTagNameB, isDigitB] at hc
  have c47 : c ≠ 47 := by rintro rfl; simp [isTagNameB, isDigitB] at hc
  rw [e, lexOne_lt, if_neg (by rw [startsWith_placeholder_false _ _ c33]; simp)]
  have hs1 : (c :: (n' ++ (serAttrs as ++ closeBytes sc ++ R))).takeWhile isTagNameB = c :: n' := hs.1
  have hs2 : (c :: (n' ++ (serAttrs as ++ closeBytes sc ++ R))).dropWhile isTagNameB =
      serAttrs as ++ closeBytes sc ++ R := hs.2
  split
  · rename_i heq; simp at heq; exact absurd heq.1 c47
  · rw [hs1, hs2, lexAttrs_ser as hok sc R _ (by
      have := length_le_serAttrs as
      simp; omega)]
    simp

/-! ### what the predicates need of a token -/

def TokFinal (x : Bool) (t : Tok) : Prop :=
  vocabTok allowedAttrs t = true ∧ inertTok t = true ∧ voidsOK x t = true ∧ xmlTok t = true

theorem not_contains_of_all_ne {v : Bytes} {c : UInt8} (h : ∀ d ∈ v, (d != c) = true) : v.contains c = false := by
  cases hc : v.contains c with
  | false => rfl
  | true =>
    have := h c (List.contains_iff_mem.mp hc)
    simp at this

theorem inert_amps {v : Bytes} (h : inertBytes v = true) : ampsOK v = true := by
  unfold inertBytes at h
  rw [Bool.and_eq_true] at h
  exact h.1

theorem tokFinal_text {x : Bool} {b : Bytes} (h : inertBytes b = true) : TokFinal x (.text b) := by
  refine ⟨rfl, ?_, rfl, rfl⟩
  simp only [inertTok, inert_amps h, not_contains_of_all_ne (inert_no60 h), Bool.not_false, Bool.and_self]

theorem tokFinal_of_good {x : Bool} {t : Tok} (h : TokGood x t) : TokFinal x t := by
  cases t with
  | text b => exact tokFinal_text h
  | comment => exact ⟨rfl, rfl, rfl, rfl⟩
  | endTag n => exact ⟨h.2, rfl, rfl, rfl⟩
  | startTag n as sc =>
    obtain ⟨sok, hsc⟩ := h
    have hattrs := sok.attrs
    rw [List.all_eq_true] at hattrs
    have hval : ∀ a ∈ as, inertBytes a.2 = true := by
      intro a ha
      have := hattrs a ha
      unfold attrOK at this
      rw [Bool.and_eq_true] at this
      exact this.2
    refine ⟨sok.vocab, ?_, ?_, ?_⟩
    · simp only [inertTok, List.all_eq_true, Bool.and_eq_true, Bool.not_eq_true']
      intro a ha
      exact ⟨inert_amps (hval a ha), not_contains_of_all_ne (inert_no34 (hval a ha))⟩
    · simp only [voidsOK]
      subst hsc
      cases voidTags.contains n <;> simp
    · simp only [xmlTok, Bool.and_eq_true, List.all_eq_true, Bool.not_eq_true', beq_iff_eq]
      refine ⟨fun a ha => not_contains_of_all_ne (inert_no60 (hval a ha)), ?_⟩
      rw [eraseDups_of_nodup _ sok.nodup, List.length_map]

/-! ### the tokenizer on a serialised token list -/

theorem tokenizeFuel_nil (fuel : Nat) : tokenizeFuel fuel [] = some [] := by cases fuel <;> rfl

theorem tokenizeFuel_step (f : Nat) (c : UInt8) (r : Bytes) : tokenizeFuel (f + 1) (c :: r) =
    (match lexOne (c :: r) with
     | some (t, rest) => if rest.length < (c :: r).length then (tokenizeFuel f rest).map (t :: ·) else none
     | none => none) := rfl

theorem peel_text (f : Nat) (c : UInt8) (p s : Bytes) (hin : inertBytes (c :: p) = true)
    (hs : StopAt (· != 60) s) :
    tokenizeFuel (f + 1) ((c :: p) ++ s) = (tokenizeFuel f s).map (.text (c :: p) :: ·) := by
  have hall := inert_no60 hin
  have hc : c ≠ 60 := by simpa using hall c (by simp)
  have sp := span_stop (· != 60) (c :: p) s hall hs
  rw [List.cons_append, tokenizeFuel_step, lexOne_text c _ hc]
  rw [List.cons_append] at sp
  simp only [sp.1, sp.2]
  rw [if_pos (by simp; omega)]

theorem ser_tag {x : Bool} {t : Tok} (hg : TokGood x t) (hnt : ∀ b, t ≠ .text b) (R : Bytes) :
    lexOne (ser t ++ R) = some (t, R) ∧ ∃ tl, ser t = 60 :: tl := by
  cases t with
  | text b => exact absurd rfl (hnt b)
  | comment => exact ⟨lexOne_comment R, ⟨_, placeholder_eq⟩⟩
  | endTag n =>
    refine ⟨?_, ⟨_, rfl⟩⟩
    have := lexOne_endTag n R hg.1
    simpa [ser] using this
  | startTag n as sc =>
    refine ⟨?_, ⟨_, rfl⟩⟩
    have := lexOne_startTag n as sc R hg.1.name hg.1.attrs
    simpa [ser] using this

theorem tag_step {x : Bool} {t : Tok} (hg : TokGood x t) (hnt : ∀ b, t ≠ .text b) (R : Bytes) (f : Nat) :
    tokenizeFuel (f + 1) (ser t ++ R) = (tokenizeFuel f R).map (t :: ·) := by
  obtain ⟨h1, tl, h2⟩ := ser_tag hg hnt R
  rw [h2] at h1 ⊢
  rw [List.cons_append] at h1 ⊢
  rw [tokenizeFuel_step, h1]
  simp only
  rw [if_pos (by simp; omega)]

theorem nestRun_text (st : List Bytes) (b : Bytes) (ts : List Tok) : nestRun st (.text b :: ts) = nestRun st ts := rfl

/-- the tokenizer result on `pre ++ serAll ts`, where `pre` is a pending piece of inert text -/
def Reads (x : Bool) (ts : List Tok) (s : Bytes) (fuel : Nat) : Prop :=
  ∃ ts', tokenizeFuel fuel s = some ts' ∧ (∀ st, nestRun st ts' = nestRun st ts) ∧ ∀ t ∈ ts', TokFinal x t

theorem reads_peel {x : Bool} {ts : List Tok} {c : UInt8} {p s : Bytes} {f : Nat}
    (hin : inertBytes (c :: p) = true) (hs : StopAt (· != 60) s) (h : Reads x ts s f) :
    Reads x ts ((c :: p) ++ s) (f + 1) := by
  obtain ⟨ts', h1, h2, h3⟩ := h
  refine ⟨.text (c :: p) :: ts', ?_, ?_, ?_⟩
  · rw [peel_text f c p s hin hs, h1]; rfl
  · intro st; rw [nestRun_text]; exact h2 st
  · intro t ht
    rw [List.mem_cons] at ht
    rcases ht with rfl | ht
    · exact tokFinal_text hin
    · exact h3 t ht

theorem tokenize_sound_aux {x : Bool} (ts : List Tok) (hg : ∀ t ∈ ts, TokGood x t) :
    ∀ (pre : Bytes), inertBytes pre = true → ∀ fuel, (pre ++ serAll ts).length ≤ fuel →
      Reads x ts (pre ++ serAll ts) fuel := by
  induction ts with
  | nil =>
    intro pre hpre fuel hf
    cases pre with
    | nil => exact ⟨[], tokenizeFuel_nil fuel, fun _ => rfl, by simp⟩
    | cons c p =>
      cases fuel with
      | zero => simp [serAll] at hf
      | succ f =>
        exact reads_peel hpre (stopAt_nil _) ⟨[], tokenizeFuel_nil f, fun _ => rfl, by simp⟩
  | cons t rest ih =>
    intro pre hpre fuel hf
    have hrest : ∀ t' ∈ rest, TokGood x t' := fun t' h => hg t' (by simp [h])
    by_cases htx : ∃ b, t = .text b
    · obtain ⟨b, rfl⟩ := htx
      have hb : inertBytes b = true := hg (.text b) (by simp)
      have e : pre ++ serAll (.text b :: rest) = (pre ++ b) ++ serAll rest := by simp [serAll, ser]
      rw [e] at hf ⊢
      obtain ⟨ts', h1, h2, h3⟩ := ih hrest (pre ++ b) (inertBytes_append _ _ hpre hb) fuel hf
      exact ⟨ts', h1, fun st => by rw [nestRun_text]; exact h2 st, h3⟩
    · have hnt : ∀ b, t ≠ .text b := fun b hb => htx ⟨b, hb⟩
      have hgt := hg t (by simp)
      obtain ⟨_, tl, htl⟩ := ser_tag hgt hnt []
      -- the tag and everything after it
      have A : ∀ f, (ser t ++ serAll rest).length ≤ f → Reads x (t :: rest) (ser t ++ serAll rest) f := by
        intro f hf'
        cases f with
        | zero => rw [htl] at hf'; simp at hf'
        | succ f' =>
          obtain ⟨ts', h1, h2, h3⟩ := ih hrest [] rfl f' (by
            rw [htl] at hf'; simp at hf' ⊢; omega)
          simp only [List.nil_append] at h1
          refine ⟨t :: ts', ?_, ?_, ?_⟩
          · rw [tag_step hgt hnt, h1]; rfl
          · intro st
            simp only [nestRun]
            cases nestStep st t with
            | none => rfl
            | some st' => exact h2 st'
          · intro t' ht'
            rw [List.mem_cons] at ht'
            rcases ht' with rfl | ht'
            · exact tokFinal_of_good hgt
            · exact h3 t' ht'
      show Reads x (t :: rest) (pre ++ (ser t ++ serAll rest)) fuel
      cases pre with
      | nil => exact A fuel (by simpa [serAll] using hf)
      | cons c p =>
        cases fuel with
        | zero => simp at hf
        | succ f =>
          refine reads_peel hpre ?_ (A f (by simp [serAll] at hf ⊢; omega))
          rw [htl]; exact stopAt_cons _ _ _ (by decide)

/-- Appendix E step 2: the strict tokenizer accepts every grammar word and the structural predicates hold. -/
theorem tokenize_sound {x : Bool} {b : Bytes} (h : WFHtml x b) :
    ∃ ts, tokenize b = some ts ∧ wellNested ts = true ∧ vocabOK ts = true ∧ inert ts = true ∧
      ts.all (voidsOK x) = true ∧ ts.all xmlTok = true := by
  obtain ⟨ts0, e, hg, hbal⟩ := wf_tokens h
  obtain ⟨ts, h1, h2, h3⟩ := tokenize_sound_aux ts0 hg [] rfl b.length (by simp [e])
  simp only [List.nil_append, ← e] at h1
  refine ⟨ts, h1, ?_, ?_, ?_, ?_, ?_⟩
  · unfold wellNested; rw [h2, hbal]; rfl
  · unfold vocabOK; rw [List.all_eq_true]; exact fun t ht => (h3 t ht).1
  · unfold inert; rw [List.all_eq_true]; exact fun t ht => (h3 t ht).2.1
  · rw [List.all_eq_true]; exact fun t ht => (h3 t ht).2.2.1
  · rw [List.all_eq_true]; exact fun t ht => (h3 t ht).2.2.2

theorem safeHtmlOK_of_wf {x : Bool} {b : Bytes} (h : WFHtml x b) : safeHtmlOK x b = true := by
  obtain ⟨ts, h1, h2, h3, h4, h5, _⟩ := tokenize_sound h
  unfold safeHtmlOK
  rw [h1]
  simp only [h2, h3, h4, h5, Bool.and_self]

theorem xmlOK_of_wf {x : Bool} {b : Bytes} (h : WFHtml x b) : xmlOK b = true := by
  obtain ⟨ts, h1, _, _, _, _, h6⟩ := tokenize_sound h
  unfold xmlOK
  rw [h1]
  exact h6

end GM.Proof.RenderWF
