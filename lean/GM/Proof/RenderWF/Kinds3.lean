/-
  GM.Proof.RenderWF.Kinds3 — continuation of Kinds: the extension kinds (table, strikethrough, task list,
  definition list, footnotes). The `<tbody>` that a TableHeader's leave opens and the last TableRow's leave
  closes is split off as `tbodyFix`.
-/
import GM.Proof.RenderWF.Kinds2

namespace GM.Proof.RenderWF
open GM GM.Spec

variable {x : Bool} {rc : RCfg}

/-- the part of a TableHeader's / TableRow's output that belongs to the enclosing `<tbody>` element -/
def tbodyFix (rc : RCfg) (k : Kind) (next : Option Node) : Bytes :=
  if handled rc.exts k then
    match k with
    | .tableHeader => if next.isSome then strBytes "<tbody>\n" else []
    | .tableRow => if next.isSome then [] else strBytes "</tbody>\n"
    | _ => []
  else []

macro "unfold_elx " h:ident : tactic =>
  `(tactic| simp only [enter, leave, handled, $h:ident, Bool.not_true, Bool.false_eq_true, ↓reduceIte])

theorem wf_table (hh : rc.exts.table = true) (pih next attrs cs) {body : Bytes} (hb : WFHtml x body)
    (hinv : attrsInv attrs = true) :
    WFHtml x (enter rc pih next .table attrs cs ++ body ++ leave rc pih next .table cs) := by
  unfold_elx hh
  exact wf_el tag_table (sok_user tag_table (sub_self _) hinv) (pre := [10]) (post := [10])
    (by rw [renderAttrs_eq]; bnorm) (by bnorm) (by decide) (by decide) hb

theorem wf_tableHeader (hh : rc.exts.table = true) (pih next attrs cs) {body : Bytes} (hb : WFHtml x body)
    (hinv : attrsInv attrs = true) :
    ∃ core, enter rc pih next .tableHeader attrs cs ++ body ++ leave rc pih next .tableHeader cs =
      core ++ tbodyFix rc .tableHeader next ∧ WFHtml x core := by
  have inner := wf_el (x := x) tag_tr (sok_fixed tag_tr (fixed := []) rfl (by simp))
    (pre := [10]) (post := [10]) (opn := [60, 116, 114, 62, 10]) (cls := [60, 47, 116, 114, 62, 10])
    (by bnorm) (by bnorm) (by decide) (by decide) hb
  have outer := wf_el (x := x) tag_thead (sok_user tag_thead (sub_self _) hinv) (pre := [10]) (post := [10])
    (opn := strBytes "<thead" ++ renderAttrs Gen.TableHeaderAttributeFilter attrs ++ [62, 10])
    (cls := [60, 47, 116, 104, 101, 97, 100, 62, 10])
    (by rw [renderAttrs_eq]; bnorm) (by bnorm) (by decide) (by decide) inner
  refine ⟨_, ?_, outer⟩
  simp only [tbodyFix]
  unfold_elx hh
  bnorm

theorem wf_tableRow (hh : rc.exts.table = true) (pih next attrs cs) {body : Bytes} (hb : WFHtml x body)
    (hinv : attrsInv attrs = true) :
    ∃ core, enter rc pih next .tableRow attrs cs ++ body ++ leave rc pih next .tableRow cs =
      core ++ tbodyFix rc .tableRow next ∧ WFHtml x core := by
  have outer := wf_el (x := x) tag_tr (sok_user tag_tr (sub_self _) hinv) (pre := [10]) (post := [10])
    (opn := strBytes "<tr" ++ renderAttrs Gen.TableRowAttributeFilter attrs ++ [62, 10])
    (cls := strBytes "</tr>\n")
    (by rw [renderAttrs_eq]; bnorm) (by bnorm) (by decide) (by decide) hb
  refine ⟨_, ?_, outer⟩
  simp only [tbodyFix]
  unfold_elx hh
  bnorm

/-! ### table cells -/

theorem attrsInv_intro {as : List Attr} (h1 : ∀ a ∈ as, attrNameOK a.name = true) (h2 : (as.map (·.name)).Nodup) :
    attrsInv (some as) = true := by
  unfold attrsInv
  simp only [Bool.and_eq_true, List.all_eq_true, beq_iff_eq]
  refine ⟨h1, ?_⟩
  rw [eraseDups_of_nodup _ h2, List.length_map]

theorem attrsInv_setAttr (name v : Bytes) (hname : attrNameOK name = true) (attrs : Option (List Attr))
    (hinv : attrsInv attrs = true) : attrsInv (some (setAttr name v attrs)) = true := by
  cases attrs with
  | none =>
    apply attrsInv_intro
    · intro a ha; simp only [setAttr, List.mem_singleton] at ha; subst ha; exact hname
    · simp [setAttr]
  | some as =>
    obtain ⟨h1, h2⟩ := attrsInv_some hinv
    simp only [setAttr]
    split
    · apply attrsInv_intro
      · intro a ha
        rw [List.mem_map] at ha
        obtain ⟨b, hb, rfl⟩ := ha
        split
        · exact hname
        · exact h1 b hb
      · have : (as.map fun a => if (a.name == name) = true then (⟨name, some v⟩ : Attr) else a).map (·.name) =
            as.map (·.name) := by
          rw [List.map_map]
          apply List.map_congr_left
          intro a _
          simp only [Function.comp]
          split
          · rename_i h; exact (beq_iff_eq.mp h).symm
          · rfl
        rw [this]; exact h2
    · rename_i hany
      apply attrsInv_intro
      · intro a ha
        rw [List.mem_append, List.mem_singleton] at ha
        rcases ha with ha | rfl
        · exact h1 a ha
        · exact hname
      · rw [List.map_append, List.nodup_append]
        refine ⟨h2, by simp, ?_⟩
        intro a ha b hb hab
        simp only [List.map_cons, List.map_nil, List.mem_singleton] at hb
        subst hb hab
        rw [List.mem_map] at ha
        obtain ⟨c, hc, hcn⟩ := ha
        apply hany
        rw [List.any_eq_true]
        exact ⟨c, hc, beq_iff_eq.mpr hcn⟩

theorem alignName_inert (a : Nat) : inertBytes (alignName a) = true := by
  unfold alignName
  split <;> decide +kernel

theorem alignAttrName_eq : alignAttrName = [97, 108, 105, 103, 110] := by decide +kernel
theorem styleName_ok : attrNameOK styleName = true := by decide +kernel

/-- what `tableCellHead` produces: an optional fixed `align` attribute (only when the node has none of its
    own) and effective attributes that still satisfy the attribute invariant -/
theorem cellHead_ok (rc : RCfg) (align : Nat) (attrs : Option (List Attr)) (hinv : attrsInv attrs = true) :
    attrsInv (tableCellHead rc align attrs).2 = true ∧
    ((tableCellHead rc align attrs).1 = [] ∨
     ((tableCellHead rc align attrs).1 = serAttrs [([97, 108, 105, 103, 110], alignName align)] ∧
      ∀ as, (tableCellHead rc align attrs).2 = some as → ∀ a ∈ as, a.name ≠ [97, 108, 105, 103, 110])) := by
  unfold tableCellHead
  by_cases h3 : (align == 3) = true
  · simp only [h3, ↓reduceIte]; exact ⟨hinv, Or.inl trivial⟩
  · simp only [h3, Bool.false_eq_true, ↓reduceIte]
    generalize (if (rc.tableAlign == 0) = true then (if rc.table.xhtml = true then 1 else 2) else rc.tableAlign) = m
    by_cases hm1 : (m == 1) = true
    · simp only [hm1, ↓reduceIte]
      refine ⟨hinv, ?_⟩
      by_cases hno : (findAttr alignAttrName attrs).isSome = true
      · simp only [hno, ↓reduceIte]; exact Or.inl trivial
      · simp only [hno, Bool.false_eq_true, ↓reduceIte]
        right
        refine ⟨by bnorm, ?_⟩
        intro as e a ha hne
        apply hno
        subst e
        simp only [findAttr, List.find?_isSome]
        exact ⟨a, ha, by rw [hne, alignAttrName_eq]; simp⟩
    · simp only [hm1, Bool.false_eq_true, ↓reduceIte]
      by_cases hm2 : (m == 2) = true
      · simp only [hm2, ↓reduceIte]
        exact ⟨attrsInv_setAttr _ _ styleName_ok _ hinv, Or.inl trivial⟩
      · simp only [hm2, Bool.false_eq_true, ↓reduceIte]
        exact ⟨hinv, Or.inl trivial⟩

theorem wf_cell_gen {n : Bytes} {names filter : List Bytes} (tf : TagFacts n names false)
    (hsub : ∀ f ∈ filter, names.contains f = true) (hal : names.contains [97, 108, 105, 103, 110] = true)
    (align : Nat) (attrs : Option (List Attr)) (hinv : attrsInv attrs = true) {body : Bytes} (hb : WFHtml x body) :
    WFHtml x ([60] ++ n ++ (tableCellHead rc align attrs).1 ++
      renderAttrs filter (tableCellHead rc align attrs).2 ++ [62] ++ body ++ ([60, 47] ++ n ++ [62, 10])) := by
  obtain ⟨h2, h1⟩ := cellHead_ok rc align attrs hinv
  rcases h1 with h1 | ⟨h1, habs⟩
  · rw [h1]
    exact wf_el tf (sok_user tf hsub h2) (pre := []) (post := [10])
      (by rw [renderAttrs_eq]; bnorm) (by bnorm) rfl (by decide) hb
  · rw [h1]
    have sok : StartOK n ([([97, 108, 105, 103, 110], alignName align)] ++
        userAttrsO filter (tableCellHead rc align attrs).2) :=
      startOK_intro tf.name tf.allowed hsub
        (hfix_cons hal (by decide +kernel) (alignName_inert _) hfix_nil) (by simp) h2
        (hc_absent habs hc_nil)
    exact wf_el tf sok (pre := []) (post := [10])
      (by rw [renderAttrs_eq]; bnorm) (by bnorm) rfl (by decide) hb

theorem wf_tableCell (hh : rc.exts.table = true) (pih next attrs cs) (align : Nat) {body : Bytes}
    (hb : WFHtml x body) (hinv : attrsInv attrs = true) :
    WFHtml x (enter rc pih next (.tableCell align) attrs cs ++ body ++ leave rc pih next (.tableCell align) cs) := by
  unfold_elx hh
  cases pih with
  | true =>
    have := wf_cell_gen (x := x) (rc := rc) tag_th (sub_append _ _) (by decide +kernel) align attrs hinv hb
      (filter := Gen.TableThCellAttributeFilter)
    exact this.of_eq (by bnorm)
  | false =>
    have := wf_cell_gen (x := x) (rc := rc) tag_td (sub_append _ _) (by decide +kernel) align attrs hinv hb
      (filter := Gen.TableTdCellAttributeFilter)
    exact this.of_eq (by bnorm)

/-! ### strikethrough, task list, definition list -/

theorem wf_strikethrough (hh : rc.exts.strike = true) (pih next attrs cs) {body : Bytes} (hb : WFHtml x body)
    (hinv : attrsInv attrs = true) :
    WFHtml x (enter rc pih next .strikethrough attrs cs ++ body ++ leave rc pih next .strikethrough cs) := by
  unfold_elx hh
  exact wf_el tag_del (sok_user tag_del (sub_self _) hinv) (pre := []) (post := [])
    (by rw [openTag_eq]; cases attrs <;> bnorm) (by bnorm) rfl rfl hb

theorem wf_taskCheckBox (hc : CfgOK x rc) (hh : rc.exts.task = true) (pih next attrs cs) (checked : Bool)
    {body : Bytes} (hb : WFHtml x body) :
    WFHtml x (enter rc pih next (.taskCheckBox checked) attrs cs ++ body ++
      leave rc pih next (.taskCheckBox checked) cs) := by
  unfold_elx hh
  rw [hc.task]
  refine .append3 ?_ hb .nil
  cases checked with
  | true =>
    exact wf_void (x := x) tag_input
      (sok_fixed tag_input (fixed := [([99, 104, 101, 99, 107, 101, 100], []),
        ([100, 105, 115, 97, 98, 108, 101, 100], []), ([116, 121, 112, 101], [99, 104, 101, 99, 107, 98, 111, 120])])
        (by decide +kernel) (by decide)) (post := [32])
      (by cases x <;> bnorm) (by decide)
  | false =>
    exact wf_void (x := x) tag_input
      (sok_fixed tag_input (fixed := [([100, 105, 115, 97, 98, 108, 101, 100], []),
        ([116, 121, 112, 101], [99, 104, 101, 99, 107, 98, 111, 120])])
        (by decide +kernel) (by decide)) (post := [32])
      (by cases x <;> bnorm) (by decide)

theorem wf_definitionList (hh : rc.exts.dl = true) (pih next attrs cs) {body : Bytes} (hb : WFHtml x body)
    (hinv : attrsInv attrs = true) :
    WFHtml x (enter rc pih next .definitionList attrs cs ++ body ++ leave rc pih next .definitionList cs) := by
  unfold_elx hh
  exact wf_el tag_dl (sok_user tag_dl (sub_self _) hinv) (pre := [10]) (post := [10])
    (by rw [openTag_eq]; cases attrs <;> bnorm) (by bnorm) (by decide) (by decide) hb

theorem wf_definitionTerm (hh : rc.exts.dl = true) (pih next attrs cs) {body : Bytes} (hb : WFHtml x body)
    (hinv : attrsInv attrs = true) :
    WFHtml x (enter rc pih next .definitionTerm attrs cs ++ body ++ leave rc pih next .definitionTerm cs) := by
  unfold_elx hh
  exact wf_el tag_dt (sok_user tag_dt (sub_self _) hinv) (pre := []) (post := [10])
    (by rw [openTag_eq]; cases attrs <;> bnorm) (by bnorm) rfl (by decide) hb

theorem wf_definitionDescription (hh : rc.exts.dl = true) (pih next attrs cs) (tight : Bool) {body : Bytes}
    (hb : WFHtml x body) (hinv : attrsInv attrs = true) :
    WFHtml x (enter rc pih next (.definitionDescription tight) attrs cs ++ body ++
      leave rc pih next (.definitionDescription tight) cs) := by
  unfold_elx hh
  exact wf_el tag_dd (sok_user tag_dd (sub_self _) hinv) (pre := if tight then [] else [10]) (post := [10])
    (by rw [renderAttrs_eq]; cases tight <;> bnorm) (by bnorm) (by cases tight <;> decide) (by decide) hb

end GM.Proof.RenderWF
