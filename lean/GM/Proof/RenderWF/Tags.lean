/-
  GM.Proof.RenderWF.Tags — per-tag facts about the vocabulary (`Spec.vocab`), each checked by the kernel:
  the tag name is lexically valid, its allowed attribute names, and whether it is a void element.
-/
import GM.Proof.RenderWF.Grammar

namespace GM.Proof.RenderWF
open GM GM.Spec

/-- what the grammar needs to know about a tag -/
structure TagFacts (n : Bytes) (names : List Bytes) (isVoid : Bool) : Prop where
  name : tagNameOK n = true
  allowed : allowedAttrs n = some names
  void : voidTags.contains n = isVoid

theorem tag_h1 : TagFacts [104, 49] (Gen.HeadingAttributeFilter) false :=
  ⟨by decide +kernel, by decide +kernel, by decide +kernel⟩
theorem tag_h2 : TagFacts [104, 50] (Gen.HeadingAttributeFilter) false :=
  ⟨by decide +kernel, by decide +kernel, by decide +kernel⟩
theorem tag_h3 : TagFacts [104, 51] (Gen.HeadingAttributeFilter) false :=
  ⟨by decide +kernel, by decide +kernel, by decide +kernel⟩
theorem tag_h4 : TagFacts [104, 52] (Gen.HeadingAttributeFilter) false :=
  ⟨by decide +kernel, by decide +kernel, by decide +kernel⟩
theorem tag_h5 : TagFacts [104, 53] (Gen.HeadingAttributeFilter) false :=
  ⟨by decide +kernel, by decide +kernel, by decide +kernel⟩
theorem tag_h6 : TagFacts [104, 54] (Gen.HeadingAttributeFilter) false :=
  ⟨by decide +kernel, by decide +kernel, by decide +kernel⟩
theorem tag_blockquote : TagFacts [98, 108, 111, 99, 107, 113, 117, 111, 116, 101] (Gen.BlockquoteAttributeFilter) false :=
  ⟨by decide +kernel, by decide +kernel, by decide +kernel⟩
theorem tag_pre : TagFacts [112, 114, 101] ([]) false :=
  ⟨by decide +kernel, by decide +kernel, by decide +kernel⟩
theorem tag_code : TagFacts [99, 111, 100, 101] (Gen.CodeAttributeFilter ++ [sb "class"]) false :=
  ⟨by decide +kernel, by decide +kernel, by decide +kernel⟩
theorem tag_ul : TagFacts [117, 108] (Gen.ListAttributeFilter) false :=
  ⟨by decide +kernel, by decide +kernel, by decide +kernel⟩
theorem tag_ol : TagFacts [111, 108] (Gen.ListAttributeFilter ++ [sb "start"]) false :=
  ⟨by decide +kernel, by decide +kernel, by decide +kernel⟩
theorem tag_li : TagFacts [108, 105] (Gen.ListItemAttributeFilter ++ [sb "id"]) false :=
  ⟨by decide +kernel, by decide +kernel, by decide +kernel⟩
theorem tag_p : TagFacts [112] (Gen.ParagraphAttributeFilter) false :=
  ⟨by decide +kernel, by decide +kernel, by decide +kernel⟩
theorem tag_hr : TagFacts [104, 114] (Gen.ThematicAttributeFilter) true :=
  ⟨by decide +kernel, by decide +kernel, by decide +kernel⟩
theorem tag_a : TagFacts [97] (Gen.LinkAttributeFilter ++ [sb "href", sb "title", sb "class", sb "role"]) false :=
  ⟨by decide +kernel, by decide +kernel, by decide +kernel⟩
theorem tag_em : TagFacts [101, 109] (Gen.EmphasisAttributeFilter) false :=
  ⟨by decide +kernel, by decide +kernel, by decide +kernel⟩
theorem tag_strong : TagFacts [115, 116, 114, 111, 110, 103] (Gen.EmphasisAttributeFilter) false :=
  ⟨by decide +kernel, by decide +kernel, by decide +kernel⟩
theorem tag_img : TagFacts [105, 109, 103] (Gen.ImageAttributeFilter ++ [sb "src", sb "alt", sb "title"]) true :=
  ⟨by decide +kernel, by decide +kernel, by decide +kernel⟩
theorem tag_br : TagFacts [98, 114] ([]) true :=
  ⟨by decide +kernel, by decide +kernel, by decide +kernel⟩
theorem tag_table : TagFacts [116, 97, 98, 108, 101] (Gen.TableAttributeFilter) false :=
  ⟨by decide +kernel, by decide +kernel, by decide +kernel⟩
theorem tag_thead : TagFacts [116, 104, 101, 97, 100] (Gen.TableHeaderAttributeFilter) false :=
  ⟨by decide +kernel, by decide +kernel, by decide +kernel⟩
theorem tag_tbody : TagFacts [116, 98, 111, 100, 121] ([]) false :=
  ⟨by decide +kernel, by decide +kernel, by decide +kernel⟩
theorem tag_tr : TagFacts [116, 114] (Gen.TableRowAttributeFilter) false :=
  ⟨by decide +kernel, by decide +kernel, by decide +kernel⟩
theorem tag_th : TagFacts [116, 104] (Gen.TableThCellAttributeFilter ++ [sb "align", sb "style"]) false :=
  ⟨by decide +kernel, by decide +kernel, by decide +kernel⟩
theorem tag_td : TagFacts [116, 100] (Gen.TableTdCellAttributeFilter ++ [sb "align", sb "style"]) false :=
  ⟨by decide +kernel, by decide +kernel, by decide +kernel⟩
theorem tag_del : TagFacts [100, 101, 108] (Gen.StrikethroughAttributeFilter) false :=
  ⟨by decide +kernel, by decide +kernel, by decide +kernel⟩
theorem tag_input : TagFacts [105, 110, 112, 117, 116] ([sb "checked", sb "disabled", sb "type"]) true :=
  ⟨by decide +kernel, by decide +kernel, by decide +kernel⟩
theorem tag_dl : TagFacts [100, 108] (Gen.DefinitionListAttributeFilter) false :=
  ⟨by decide +kernel, by decide +kernel, by decide +kernel⟩
theorem tag_dt : TagFacts [100, 116] (Gen.DefinitionTermAttributeFilter) false :=
  ⟨by decide +kernel, by decide +kernel, by decide +kernel⟩
theorem tag_dd : TagFacts [100, 100] (Gen.DefinitionDescriptionAttributeFilter) false :=
  ⟨by decide +kernel, by decide +kernel, by decide +kernel⟩
theorem tag_sup : TagFacts [115, 117, 112] ([sb "id"]) false :=
  ⟨by decide +kernel, by decide +kernel, by decide +kernel⟩
theorem tag_div : TagFacts [100, 105, 118] (Gen.GlobalAttributeFilter ++ [sb "class", sb "role"]) false :=
  ⟨by decide +kernel, by decide +kernel, by decide +kernel⟩

end GM.Proof.RenderWF
