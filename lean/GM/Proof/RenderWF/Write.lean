/-
  GM.Proof.RenderWF.Write — `Writer.Write` (entity/backslash resolver followed by escaping) only produces
  inert bytes: `write_inert`.
-/
import GM.Proof.RenderWF.Inert

namespace GM.Proof.RenderWF
open GM GM.Spec

theorem plain_of_high (b : UInt8) (h : 128 ≤ b) : plain b = true := by
  revert b; apply forall_uint8; decide +kernel

theorem ofNat_high (n : Nat) (h1 : 128 ≤ n) (h2 : n < 256) : (128 : UInt8) ≤ UInt8.ofNat n := by
  rw [UInt8.le_iff_toNat_le]
  simp only [UInt8.toNat_ofNat']
  show 128 ≤ n % 2 ^ 8
  omega

theorem encodeRune_high (r : Nat) (h : 128 ≤ r) : ∀ b ∈ encodeRune r, (128 : UInt8) ≤ b := by
  unfold encodeRune
  split
  · decide
  · rename_i hv
    simp only [validRune, Bool.not_eq_true', Bool.not_eq_false, Bool.or_eq_true, Bool.and_eq_true,
      decide_eq_true_eq] at hv
    have hmax : r ≤ 0x10FFFF := by omega
    split
    · omega
    · split
      · intro b hb
        simp only [List.mem_cons, List.not_mem_nil, or_false] at hb
        rcases hb with rfl | rfl <;> apply ofNat_high <;> omega
      · split
        · intro b hb
          simp only [List.mem_cons, List.not_mem_nil, or_false] at hb
          rcases hb with rfl | rfl | rfl <;> apply ofNat_high <;> omega
        · intro b hb
          simp only [List.mem_cons, List.not_mem_nil, or_false] at hb
          rcases hb with rfl | rfl | rfl | rfl <;> apply ofNat_high <;> omega

theorem encodeRune_high_inert (r : Nat) (h : 128 ≤ r) : inertBytes (encodeRune r) = true := by
  apply inertBytes_of_plain
  rw [List.all_eq_true]
  intro b hb
  exact plain_of_high b (encodeRune_high r h b hb)

theorem escapeRune_low : ∀ n : Fin 256, inertBytes (escapeRune n.val) = true := by decide +kernel

theorem escapeRune_inert (v : Nat) : inertBytes (escapeRune v) = true := by
  by_cases hv : v < 256
  · exact escapeRune_low ⟨v, hv⟩
  · unfold escapeRune
    rw [if_neg hv]
    apply encodeRune_high_inert
    unfold runeOfUint32
    split
    · omega
    · unfold toValidRune
      split
      · omega
      · omega

theorem tryRefW_inert {rest out r : Bytes} (h : tryRefW rest = some (out, r)) : inertBytes out = true := by
  unfold tryRefW at h
  split at h
  · split at h
    · cases h
    · split at h
      · split at h
        · split at h
          · cases h; exact escapeRune_inert _
          · cases h
        · cases h
      · split at h
        · split at h
          · split at h
            · cases h; exact escapeRune_inert _
            · cases h
          · cases h
        · cases h
  · split at h
    · split at h
      · cases h
      · simp [Option.map] at h
        split at h
        · cases h; exact rawWrite_inert _
        · cases h
    · cases h

theorem writeGo_inert (s : Bool) (esc : Bool) (v : Bytes) : inertBytes (writeGo s esc v) = true := by
  fun_induction writeGo s esc v
  · decide
  · rfl
  · rename_i ih; exact inertBytes_append _ _ (escByte_inert _) ih
  · rename_i ih; exact ih
  · rename_i ih3 ih2 ih1
    apply inertBytes_append
    · split <;> decide
    · split
      · exact inertBytes_append _ _ replacementChar_inert ih3
      · split
        · split
          · rename_i out rest h
            exact inertBytes_append _ _ (tryRefW_inert h) (ih2 out rest h)
          · exact inertBytes_append _ _ (escByte_inert _) ih3
        · split
          · exact ih1
          · exact inertBytes_append _ _ (escByte_inert _) ih3

theorem write_inert (s : Bool) (v : Bytes) : inertBytes (write s v) = true := writeGo_inert s false v

end GM.Proof.RenderWF
