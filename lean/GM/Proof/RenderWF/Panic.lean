/-
  GM.Proof.RenderWF.Panic — under the tree invariant no node renderer function panics; option propagation
  reaches every per-renderer copy of html.Config.
-/
import GM.Proof.RenderWF.Main

namespace GM.Proof.RenderWF
open GM GM.Spec

theorem renderPanicsNode_mk (rc k attrs cs) : renderPanicsNode rc (.mk k attrs cs) =
    (match nodePanic rc k attrs cs with
     | some p => some p
     | none => if handled rc.exts k && skipsChildren k then none else renderPanicsNodes rc cs) := rfl

theorem renderPanicsNodes_cons (rc c rest) : renderPanicsNodes rc (c :: rest) =
    (match renderPanicsNode rc c with
     | some p => some p
     | none => renderPanicsNodes rc rest) := rfl

theorem nodePanic_none {rc ctx k attrs cs} (nf : NodeFacts rc ctx k attrs cs) : nodePanic rc k attrs cs = none := by
  have hk := nf.hkind
  by_cases hh : handled rc.exts k = true
  · cases k
    case heading level =>
      simp only [kindInv, Bool.and_eq_true, decide_eq_true_eq] at hk
      have : ¬ level > 6 := by omega
      simp [nodePanic, this]
    case codeSpan =>
      simp only [kindInv] at hk
      simp [nodePanic, hk]
    case tableCell align =>
      simp only [kindInv, Bool.and_eq_true] at hk
      have := hk.2
      cases hp : nodePanic rc (.tableCell align) attrs cs with
      | none => rfl
      | some p => rw [hp] at this; cases this
    all_goals simp [nodePanic]
  · unfold nodePanic
    simp [hh]

theorem noPanic_node (rc : RCfg) : ∀ n : Node, ∀ ctx, nodeInv rc ctx n = true → renderPanicsNode rc n = none := by
  apply Node.ind
  intro k a cs ih ctx hinv
  have nf := nodeFacts hinv
  rw [renderPanicsNode_mk, nodePanic_none nf]
  simp only
  split
  · rfl
  · have : ∀ (l : List Node) ctx', (∀ c ∈ l, ∀ ctx, nodeInv rc ctx c = true → renderPanicsNode rc c = none) →
        nodesInv rc ctx' l = true → renderPanicsNodes rc l = none := by
      intro l
      induction l with
      | nil => intros; rfl
      | cons c rest ihl =>
        intro ctx' hl hn
        rw [nodesInv_cons, Bool.and_eq_true] at hn
        rw [renderPanicsNodes_cons, hl c (by simp) _ hn.1]
        exact ihl ctx' (fun d hd => hl d (by simp [hd])) hn.2
    exact this cs _ ih nf.hchildren

theorem inv_noPanic (rc : RCfg) (t : Node) (hinv : Spec.Inv rc t = true) : renderPanics rc t = none := by
  unfold Spec.Inv at hinv
  rw [Bool.and_eq_true] at hinv
  exact noPanic_node rc t .any hinv.1

theorem propagation_complete (o : Opts) (e : Exts) :
    (mkRCfg o e).core = ({} : HCfg).setOpts o ∧ (mkRCfg o e).task = ({} : HCfg).setOpts o ∧
    (mkRCfg o e).strike = ({} : HCfg).setOpts o ∧ (mkRCfg o e).dl = ({} : HCfg).setOpts o ∧
    (mkRCfg o e).foot = ({} : HCfg).setOpts o ∧ (mkRCfg o e).table = ({} : HCfg).setOpts o :=
  ⟨rfl, rfl, rfl, rfl, rfl, rfl⟩

end GM.Proof.RenderWF
