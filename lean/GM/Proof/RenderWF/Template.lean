/-
  GM.Proof.RenderWF.Template — extension.applyFootnoteTemplate (replace `^^` and `%%` by decimal numbers)
  preserves inertness: the replaced bytes cannot occur inside a character reference and the inserted digits
  cannot start one.
-/
import GM.Proof.RenderWF.Inert

namespace GM.Proof.RenderWF
open GM GM.Spec

/-! ### the shape of a character reference after `&` -/

theorem mem_takeWhile_sat (p : UInt8 → Bool) (s : Bytes) : ∀ c ∈ s.takeWhile p, p c = true := by
  induction s with
  | nil => intro c hc; cases hc
  | cons d s ih =>
    intro c hc
    by_cases hd : p d = true
    · rw [List.takeWhile_cons_of_pos hd, List.mem_cons] at hc
      rcases hc with rfl | hc
      · exact hd
      · exact ih c hc
    · rw [List.takeWhile_cons_of_neg hd] at hc; cases hc

theorem runThenSemi_shape (p : UInt8 → Bool) (s : Bytes) (h : runThenSemi p s = true) :
    ∃ run tl, s = run ++ 59 :: tl ∧ run ≠ [] ∧ ∀ c ∈ run, p c = true := by
  unfold runThenSemi at h
  split at h
  · rename_i tl heq
    refine ⟨s.takeWhile p, tl, ?_, ?_, ?_⟩
    · rw [← heq, List.takeWhile_append_dropWhile]
    · intro he; rw [he] at h; simp at h
    · exact mem_takeWhile_sat p s
  · cases h

theorem runThenSemi_of_shape (p : UInt8 → Bool) (hp : p 59 = false) (run tl : Bytes) (hne : run ≠ [])
    (hall : ∀ c ∈ run, p c = true) : runThenSemi p (run ++ 59 :: tl) = true := by
  have key : ∀ run : Bytes, (∀ c ∈ run, p c = true) →
      (run ++ 59 :: tl).takeWhile p = run ∧ (run ++ 59 :: tl).dropWhile p = 59 :: tl := by
    intro run hall
    induction run with
    | nil => simp [hp]
    | cons c r ih =>
      have := ih (fun d hd => hall d (by simp [hd]))
      simp [hall c (by simp), this]
  obtain ⟨h1, h2⟩ := key run hall
  unfold runThenSemi
  rw [h2, h1]
  cases run with
  | nil => exact absurd rfl hne
  | cons _ _ => rfl

/-- `&` is followed by `#x<hex>+;`, `#X<hex>+;`, `#<digit>+;` or `<alnum>+;` -/
def RefShape (r : Bytes) : Prop :=
  ∃ (pre run tl : Bytes) (p : UInt8 → Bool), r = pre ++ run ++ 59 :: tl ∧ run ≠ [] ∧ (∀ c ∈ run, p c = true) ∧
    ((pre = [35, 120] ∧ p = isHexB) ∨ (pre = [35, 88] ∧ p = isHexB) ∨ (pre = [35] ∧ p = isDigitB) ∨
     (pre = [] ∧ p = isAlnumB))

theorem refShape_of (r : Bytes) (h : refAfterAmp r = true) : RefShape r := by
  unfold refAfterAmp at h
  split at h
  · obtain ⟨run, tl, e, hne, hall⟩ := runThenSemi_shape _ _ h
    exact ⟨[35, 120], run, tl, isHexB, by simp [e], hne, hall, Or.inl ⟨rfl, rfl⟩⟩
  · obtain ⟨run, tl, e, hne, hall⟩ := runThenSemi_shape _ _ h
    exact ⟨[35, 88], run, tl, isHexB, by simp [e], hne, hall, Or.inr (Or.inl ⟨rfl, rfl⟩)⟩
  · obtain ⟨run, tl, e, hne, hall⟩ := runThenSemi_shape _ _ h
    exact ⟨[35], run, tl, isDigitB, by simp [e], hne, hall, Or.inr (Or.inr (Or.inl ⟨rfl, rfl⟩))⟩
  · obtain ⟨run, tl, e, hne, hall⟩ := runThenSemi_shape _ _ h
    exact ⟨[], run, tl, isAlnumB, by simp [e], hne, hall, Or.inr (Or.inr (Or.inr ⟨rfl, rfl⟩))⟩

theorem refAfterAmp_of_shape (r : Bytes) (h : RefShape r) : refAfterAmp r = true := by
  obtain ⟨pre, run, tl, p, e, hne, hall, hcase⟩ := h
  rcases hcase with ⟨rfl, rfl⟩ | ⟨rfl, rfl⟩ | ⟨rfl, rfl⟩ | ⟨rfl, rfl⟩
  · subst e; simp only [List.cons_append, List.nil_append]; unfold refAfterAmp
    exact runThenSemi_of_shape _ (by decide) run tl hne hall
  · subst e; simp only [List.cons_append, List.nil_append]; unfold refAfterAmp
    exact runThenSemi_of_shape _ (by decide) run tl hne hall
  · subst e
    have hr := runThenSemi_of_shape isDigitB (by decide) run tl hne hall
    cases run with
    | nil => exact absurd rfl hne
    | cons d run' =>
      have hd := hall d (by simp)
      have d1 : d ≠ 120 := by rintro rfl; simp [isDigitB] at hd
      have d2 : d ≠ 88 := by rintro rfl; simp [isDigitB] at hd
      simp only [List.cons_append, List.nil_append] at hr ⊢
      unfold refAfterAmp
      split
      · rename_i heq; simp at heq; exact absurd heq.1 d1
      · rename_i heq; simp at heq; exact absurd heq.1 d2
      · rename_i heq; simp at heq; rw [← heq]; exact hr
      · rename_i _ _ hne'; exact (hne' _ rfl).elim
  · subst e
    have hr := runThenSemi_of_shape isAlnumB (by decide) run tl hne hall
    cases run with
    | nil => exact absurd rfl hne
    | cons d run' =>
      have hd := hall d (by simp)
      have d1 : d ≠ 35 := by rintro rfl; simp [isAlnumB, isAlphaB, isDigitB] at hd
      simp only [List.cons_append, List.nil_append] at hr ⊢
      unfold refAfterAmp
      split
      · rename_i heq; simp at heq; exact absurd heq.1 d1
      · rename_i heq; simp at heq; exact absurd heq.1 d1
      · rename_i heq; simp at heq; exact absurd heq.1 d1
      · exact hr

/-! ### replace2 -/

theorem replace2_cons_ne (a : UInt8) (rep : Bytes) (x : UInt8) (l : Bytes) (h : x ≠ a) :
    replace2 a rep (x :: l) = x :: replace2 a rep l := by
  cases l with
  | nil => simp [replace2]
  | cons y rest =>
    rw [replace2]
    have : (x == a) = false := by simpa using h
    simp [this]

theorem replace2_prefix (a : UInt8) (rep l m : Bytes) (h : ∀ c ∈ l, c ≠ a) :
    replace2 a rep (l ++ m) = l ++ replace2 a rep m := by
  induction l with
  | nil => rfl
  | cons c l ih =>
    rw [List.cons_append, replace2_cons_ne a rep c _ (h c (by simp)), ih (fun d hd => h d (by simp [hd]))]
    rfl

/-- the replaced byte is not part of any character reference -/
def notRefByte (a : UInt8) : Prop :=
  a ≠ 38 ∧ a ≠ 35 ∧ a ≠ 120 ∧ a ≠ 88 ∧ a ≠ 59 ∧ isAlnumB a = false ∧ isHexB a = false ∧ isDigitB a = false

theorem refAfterAmp_replace2 (a : UInt8) (ha : notRefByte a) (rep r : Bytes) (h : refAfterAmp r = true) :
    refAfterAmp (replace2 a rep r) = true := by
  obtain ⟨pre, run, tl, p, e, hne, hall, hcase⟩ := refShape_of r h
  apply refAfterAmp_of_shape
  refine ⟨pre, run, replace2 a rep tl, p, ?_, hne, hall, hcase⟩
  obtain ⟨h38, h35, h120, h88, h59, hal, hhex, hdig⟩ := ha
  have hrun : ∀ c ∈ run, c ≠ a := by
    intro c hc hca
    subst hca
    have := hall c hc
    rcases hcase with ⟨_, rfl⟩ | ⟨_, rfl⟩ | ⟨_, rfl⟩ | ⟨_, rfl⟩ <;> simp_all
  have hpre : ∀ c ∈ pre, c ≠ a := by
    intro c hc hca
    subst hca
    rcases hcase with ⟨rfl, _⟩ | ⟨rfl, _⟩ | ⟨rfl, _⟩ | ⟨rfl, _⟩ <;> simp at hc <;> rcases hc with rfl | rfl <;> simp_all
  rw [e, List.append_assoc, replace2_prefix a rep pre _ hpre, replace2_prefix a rep run _ hrun,
    replace2_cons_ne a rep 59 tl (Ne.symm h59), List.append_assoc]

theorem ampsOK_replace2 (a : UInt8) (ha : notRefByte a) (rep : Bytes) (hrep : rep.all plain = true) (b : Bytes) :
    ampsOK b = true → ampsOK (replace2 a rep b) = true := by
  fun_induction replace2 a rep b with
  | case1 x y rest hxy ih =>
    intro h
    rw [ampsOK_cons, Bool.and_eq_true] at h
    have h2 := h.2
    rw [ampsOK_cons, Bool.and_eq_true] at h2
    exact ampsOK_append _ _ (ampsOK_of_plain _ hrep) (ih h2.2)
  | case2 x y rest hxy ih =>
    intro h
    rw [ampsOK_cons, Bool.and_eq_true, Bool.or_eq_true] at h
    rw [ampsOK_cons, Bool.and_eq_true, Bool.or_eq_true]
    refine ⟨?_, ih h.2⟩
    rcases h.1 with h1 | h1
    · exact Or.inl h1
    · exact Or.inr (refAfterAmp_replace2 a ha rep _ h1)
  | case3 l _ => exact id

theorem replace2_mem (a : UInt8) (rep b : Bytes) : ∀ c ∈ replace2 a rep b, c ∈ rep ∨ c ∈ b := by
  fun_induction replace2 a rep b with
  | case1 x y rest hxy ih =>
    intro c hc
    rw [List.mem_append] at hc
    rcases hc with hc | hc
    · exact Or.inl hc
    · rcases ih c hc with h | h
      · exact Or.inl h
      · exact Or.inr (by simp [h])
  | case2 x y rest hxy ih =>
    intro c hc
    rw [List.mem_cons] at hc
    rcases hc with rfl | hc
    · exact Or.inr (by simp)
    · rcases ih c hc with h | h
      · exact Or.inl h
      · exact Or.inr (List.mem_cons_of_mem _ h)
  | case3 l _ => exact fun c hc => Or.inr hc

theorem inertBytes_replace2 (a : UInt8) (ha : notRefByte a) (rep : Bytes) (hrep : rep.all plain = true) (b : Bytes)
    (h : inertBytes b = true) : inertBytes (replace2 a rep b) = true := by
  have hrepI := inertBytes_of_plain rep hrep
  unfold inertBytes at h hrepI ⊢
  rw [Bool.and_eq_true] at h hrepI ⊢
  refine ⟨ampsOK_replace2 a ha rep hrep b h.1, ?_⟩
  rw [List.all_eq_true] at h hrepI ⊢
  intro c hc
  rcases replace2_mem a rep b c hc with hm | hm
  · exact hrepI.2 c hm
  · exact h.2 c hm

/-- applyFootnoteTemplate preserves inertness -/
theorem template_inert (b : Bytes) (i n : Nat) (h : inertBytes b = true) :
    inertBytes (applyFootnoteTemplate b i n) = true := by
  unfold applyFootnoteTemplate
  exact inertBytes_replace2 37 (by unfold notRefByte; decide) _ (decBytes_plain _) _
    (inertBytes_replace2 94 (by unfold notRefByte; decide) _ (decBytes_plain _) _ h)

end GM.Proof.RenderWF
