/-
  GM.Proof.RenderWF.Grammar — the inductive grammar `WFHtml` of inert, well-nested, in-vocabulary markup
  (Appendix E, step 1), the side conditions of a start tag (`StartOK`), and how `renderAttrList` produces
  attribute syntax for the allowed subset of a node's attributes.
-/
import GM.Proof.RenderWF.Inert
import GM.Spec.Vocab

namespace GM.Proof.RenderWF
open GM GM.Spec

/-! ### `eraseDups` versus `Nodup` -/

theorem eraseDups_length_le {α} [BEq α] [LawfulBEq α] (l : List α) : l.eraseDups.length ≤ l.length := by
  generalize hn : l.length = n
  induction n using Nat.strongRecOn generalizing l with
  | _ n ih =>
    cases l with
    | nil => simp
    | cons a as =>
      rw [List.eraseDups_cons]
      simp only [List.length_cons] at hn ⊢
      have h1 : (as.filter (fun b => !b == a)).length ≤ as.length := List.length_filter_le _ _
      have := ih (as.filter (fun b => !b == a)).length (by omega) _ rfl
      omega

theorem nodup_of_eraseDups_length {α} [BEq α] [LawfulBEq α] (l : List α) (h : l.eraseDups.length = l.length) :
    l.Nodup := by
  generalize hn : l.length = n
  induction n using Nat.strongRecOn generalizing l with
  | _ n ih =>
    cases l with
    | nil => simp
    | cons a as =>
      rw [List.eraseDups_cons] at h
      simp only [List.length_cons] at hn h
      have h1 : (as.filter (fun b => !b == a)).length ≤ as.length := List.length_filter_le _ _
      have h2 := eraseDups_length_le (as.filter (fun b => !b == a))
      have h3 : (as.filter (fun b => !b == a)).length = as.length := by omega
      have h4 : as.filter (fun b => !b == a) = as := by
        exact List.filter_eq_self.mpr (List.length_filter_eq_length_iff.mp h3)
      rw [h4] at h
      have hnd := ih as.length (by omega) as (by omega) rfl
      rw [List.nodup_cons]
      refine ⟨?_, hnd⟩
      intro hmem
      have := List.length_filter_eq_length_iff.mp h3 a hmem
      simp at this

theorem eraseDups_of_nodup {α} [BEq α] [LawfulBEq α] (l : List α) (h : l.Nodup) : l.eraseDups = l := by
  induction l with
  | nil => simp
  | cons a as ih =>
    rw [List.nodup_cons] at h
    rw [List.eraseDups_cons]
    have : as.filter (fun b => !b == a) = as := by
      rw [List.filter_eq_self]
      intro b hb
      have : b ≠ a := by rintro rfl; exact h.1 hb
      simp [this]
    rw [this, ih h.2]

/-! ### the grammar -/

/-- ` name="value"` for each attribute -/
def serAttrs : List (Bytes × Bytes) → Bytes
  | [] => []
  | a :: as => [32] ++ a.1 ++ [61, 34] ++ a.2 ++ [34] ++ serAttrs as

theorem serAttrs_append (a b : List (Bytes × Bytes)) : serAttrs (a ++ b) = serAttrs a ++ serAttrs b := by
  induction a with
  | nil => rfl
  | cons x a ih => simp [serAttrs, ih]

/-- a tag name the strict tokenizer reads back: `[a-z0-9]+` -/
def tagNameOK (n : Bytes) : Bool := !n.isEmpty && n.all isTagNameB

/-- an attribute: lexically valid name, inert value -/
def attrOK (a : Bytes × Bytes) : Bool := attrNameOK a.1 && inertBytes a.2

/-- side conditions of a start tag `<n as…>`: the tag is in the vocabulary, every attribute name is allowed
    for that tag (or `data-*`) and lexically valid, values are inert, no name occurs twice -/
structure StartOK (n : Bytes) (as : List (Bytes × Bytes)) : Prop where
  name : tagNameOK n = true
  vocab : vocabTok allowedAttrs (.startTag n as false) = true
  attrs : as.all attrOK = true
  nodup : (as.map (·.1)).Nodup

/-- the output language of the safe-mode renderer -/
inductive WFHtml (x : Bool) : Bytes → Prop
  | nil : WFHtml x []
  | text (b : Bytes) : inertBytes b = true → WFHtml x b
  | comment : WFHtml x placeholder
  | void (n : Bytes) (as : List (Bytes × Bytes)) : voidTags.contains n = true → StartOK n as →
      WFHtml x ([60] ++ n ++ serAttrs as ++ (if x then [32, 47, 62] else [62]))
  | elem (n : Bytes) (as : List (Bytes × Bytes)) (body : Bytes) : voidTags.contains n = false → StartOK n as →
      WFHtml x body → WFHtml x ([60] ++ n ++ serAttrs as ++ [62] ++ body ++ [60, 47] ++ n ++ [62])
  | append (a b : Bytes) : WFHtml x a → WFHtml x b → WFHtml x (a ++ b)

theorem WFHtml.of_eq {x : Bool} {a b : Bytes} (h : WFHtml x a) (e : b = a) : WFHtml x b := e ▸ h

theorem WFHtml.append3 {x : Bool} {a b c : Bytes} (ha : WFHtml x a) (hb : WFHtml x b) (hc : WFHtml x c) :
    WFHtml x (a ++ b ++ c) := .append _ _ (.append _ _ ha hb) hc

/-! ### the node's own attributes -/

def nameAllowed (filter : List Bytes) (n : Bytes) : Bool :=
  filter.contains n || hasBytesPrefix n Gen.dataPrefix

def attrAllowed (filter : List Bytes) (a : Attr) : Bool := nameAllowed filter a.name

/-- the attributes `RenderAttributes` lets through, with their escaped values -/
def userAttrs (filter : List Bytes) (as : List Attr) : List (Bytes × Bytes) :=
  (as.filter (attrAllowed filter)).map fun a => (a.name, escapeHTML (a.value.getD []))

def userAttrsO (filter : List Bytes) : Option (List Attr) → List (Bytes × Bytes)
  | none => []
  | some as => userAttrs filter as

theorem renderAttrList_eq (filter : List Bytes) (as : List Attr) :
    renderAttrList filter as = serAttrs (userAttrs filter as) := by
  induction as with
  | nil => rfl
  | cons a as ih =>
    unfold renderAttrList at ih ⊢
    rw [List.flatMap_cons, ih]
    unfold renderAttr userAttrs
    by_cases h : attrAllowed filter a = true
    · have h' := h; unfold attrAllowed nameAllowed at h'
      rw [if_pos h', List.filter_cons_of_pos h]
      simp [serAttrs]
    · have h' := h; unfold attrAllowed nameAllowed at h'
      rw [if_neg h', List.filter_cons_of_neg h]
      simp

theorem renderAttrs_eq (filter : List Bytes) (attrs : Option (List Attr)) :
    renderAttrs filter attrs = serAttrs (userAttrsO filter attrs) := by
  cases attrs with
  | none => rfl
  | some as => exact renderAttrList_eq filter as

theorem openTag_eq (tag : Bytes) (filter' : List Bytes) (attrs : Option (List Attr)) (sa sp : Bytes) :
    openTag tag filter' attrs sa sp =
      [60] ++ tag ++ serAttrs (userAttrsO filter' attrs) ++ [62] ++ (match attrs with | some _ => sa | none => sp) := by
  cases attrs with
  | none => simp [openTag, userAttrsO, serAttrs]
  | some as => simp [openTag, userAttrsO, renderAttrList_eq]

theorem dataPrefix_eq : strBytes "data-" = Gen.dataPrefix := by decide +kernel

theorem attrsInv_some {as : List Attr} (h : attrsInv (some as) = true) :
    (∀ a ∈ as, attrNameOK a.name = true) ∧ (as.map (·.name)).Nodup := by
  unfold attrsInv at h
  simp only [Bool.and_eq_true, List.all_eq_true, beq_iff_eq] at h
  refine ⟨h.1, nodup_of_eraseDups_length _ ?_⟩
  rw [h.2, List.length_map]

theorem userAttrs_names_sublist (filter : List Bytes) (as : List Attr) :
    ((userAttrs filter as).map (·.1)).Sublist (as.map (·.name)) := by
  unfold userAttrs
  rw [List.map_map]
  exact (List.filter_sublist (l := as)).map _

theorem userAttrs_mem {filter : List Bytes} {as : List Attr} {p : Bytes × Bytes} (h : p ∈ userAttrs filter as) :
    ∃ a ∈ as, attrAllowed filter a = true ∧ p = (a.name, escapeHTML (a.value.getD [])) := by
  unfold userAttrs at h
  rw [List.mem_map] at h
  obtain ⟨a, ha, rfl⟩ := h
  rw [List.mem_filter] at ha
  exact ⟨a, ha.1, ha.2, rfl⟩

/-- A start tag made of fixed attributes followed by the allowed subset of the node's attributes. -/
theorem startOK_intro {n : Bytes} {names filter : List Bytes} {fixed : List (Bytes × Bytes)}
    {attrs : Option (List Attr)}
    (hn : tagNameOK n = true) (hal : allowedAttrs n = some names)
    (hsub : ∀ f ∈ filter, names.contains f = true)
    (hfix : fixed.all (fun a => names.contains a.1 && attrOK a) = true)
    (hfixnd : (fixed.map (·.1)).Nodup)
    (hinv : attrsInv attrs = true)
    (hclash : ∀ nm ∈ fixed.map (·.1),
      nameAllowed filter nm = false ∨ ∀ as, attrs = some as → ∀ a ∈ as, a.name ≠ nm) :
    StartOK n (fixed ++ userAttrsO filter attrs) := by
  have huser : ∀ p ∈ userAttrsO filter attrs,
      (names.contains p.1 || startsWith (strBytes "data-") p.1) = true ∧ attrOK p = true ∧
      p.1 ∉ fixed.map (·.1) := by
    intro p hp
    cases attrs with
    | none => simp [userAttrsO] at hp
    | some as =>
      obtain ⟨a, ha, hall, rfl⟩ := userAttrs_mem hp
      refine ⟨?_, ?_, ?_⟩
      rotate_left 2
      · intro hmem
        rcases hclash _ hmem with h | h
        · unfold attrAllowed at hall; rw [hall] at h; cases h
        · exact h as rfl a ha rfl
      · unfold attrAllowed nameAllowed at hall
        rw [Bool.or_eq_true] at hall ⊢
        rcases hall with h | h
        · exact Or.inl (hsub _ (List.contains_iff_mem.mp h))
        · right; unfold startsWith; rw [dataPrefix_eq]; exact h
      · unfold attrOK
        rw [Bool.and_eq_true]
        exact ⟨(attrsInv_some hinv).1 a ha, escapeHTML_inert _⟩
  rw [List.all_eq_true] at hfix
  constructor
  · exact hn
  · unfold vocabTok
    simp only [hal]
    rw [List.all_eq_true]
    intro p hp
    rw [List.mem_append] at hp
    rcases hp with hp | hp
    · have := hfix p hp
      rw [Bool.and_eq_true] at this
      rw [this.1]; rfl
    · exact (huser p hp).1
  · rw [List.all_eq_true]
    intro p hp
    rw [List.mem_append] at hp
    rcases hp with hp | hp
    · have := hfix p hp
      rw [Bool.and_eq_true] at this
      exact this.2
    · exact (huser p hp).2.1
  · rw [List.map_append, List.nodup_append]
    refine ⟨hfixnd, ?_, ?_⟩
    · cases attrs with
      | none => simp [userAttrsO]
      | some as => exact (attrsInv_some hinv).2.sublist (userAttrs_names_sublist filter as)
    · intro a ha b hb hab
      subst hab
      rw [List.mem_map] at hb
      obtain ⟨p, hp, rfl⟩ := hb
      exact (huser p hp).2.2 ha

end GM.Proof.RenderWF
