/-
  GM.Proof.RenderWF.Main — Appendix E step 1: under the tree invariant, the safe-mode renderer's output is in
  the grammar `WFHtml` (`render_wf`). Structural induction over Node / List Node; the `<tbody>` element is
  assembled from the header's and the last row's leave output using `tableShape`.
-/
import GM.Proof.RenderWF.Kinds4
import GM.Proof.RenderWF.Template

namespace GM.Proof.RenderWF
open GM GM.Spec

/-! ### unfolding lemmas for the mutually recursive definitions -/

theorem Node.ind {P : Node → Prop} (h : ∀ k a cs, (∀ c ∈ cs, P c) → P (.mk k a cs)) : ∀ n, P n := by
  intro n
  refine Node.rec (motive_1 := P) (motive_2 := fun cs => ∀ c ∈ cs, P c) h ?_ ?_ n
  · intro c hc; cases hc
  · intro hd tl h1 h2 c hc
    rw [List.mem_cons] at hc
    rcases hc with rfl | hc
    · exact h1
    · exact h2 c hc

/-- the kind-specific clause of `nodeInv` -/
def kindInv (rc : RCfg) (ctx : Ctx) (k : Kind) (attrs : Option (List Attr)) (cs : List Node) : Bool :=
  match k with
  | .heading level => 1 ≤ level && level ≤ 6
  | .codeSpan => codeSpanChildrenText cs
  | .string v _ code => !code || inertBytes v
  | .table => tableShape cs
  | .tableHeader | .tableRow => ctx == .table && cs.all (fun c => isCellK c.kind)
  | .tableCell align => ctx == .row && (nodePanic rc (.tableCell align) attrs cs).isNone
  | _ => true

def childCtx : Kind → Ctx
  | .table => .table
  | .tableHeader | .tableRow => .row
  | _ => .any

theorem nodeInv_mk (rc ctx k attrs cs) : nodeInv rc ctx (.mk k attrs cs) =
    (attrsInv attrs && noClash k attrs && kindInv rc ctx k attrs cs && nodesInv rc (childCtx k) cs) := by
  cases k <;> rfl

theorem nodesInv_cons (rc ctx c rest) :
    nodesInv rc ctx (c :: rest) = (nodeInv rc ctx c && nodesInv rc ctx rest) := rfl

theorem renderNode_mk (rc pih next k attrs cs) : renderNode rc pih next (.mk k attrs cs) =
    enter rc pih next k attrs cs ++
      (if handled rc.exts k && skipsChildren k then [] else renderNodes rc k.isTableHeader cs) ++
      leave rc pih next k cs := rfl

theorem renderNodes_cons (rc pih c rest) : renderNodes rc pih (c :: rest) =
    renderNode rc pih rest.head? c ++ renderNodes rc pih rest := rfl

theorem renderNodes_nil (rc pih) : renderNodes rc pih [] = [] := rfl

theorem altTexts_cons (e c rest) : altTexts e (c :: rest) = altText e c ++ altTexts e rest := rfl

structure NodeFacts (rc : RCfg) (ctx : Ctx) (k : Kind) (attrs : Option (List Attr)) (cs : List Node) : Prop where
  hattrs : attrsInv attrs = true
  hclash : noClash k attrs = true
  hkind : kindInv rc ctx k attrs cs = true
  hchildren : nodesInv rc (childCtx k) cs = true

theorem nodeFacts {rc ctx k attrs cs} (h : nodeInv rc ctx (.mk k attrs cs) = true) : NodeFacts rc ctx k attrs cs := by
  rw [nodeInv_mk] at h
  simp only [Bool.and_eq_true] at h
  exact ⟨h.1.1.1, h.1.1.2, h.1.2, h.2⟩

/-! ### image alt text -/

theorem altText_inert (rc : RCfg) (e : Bool) : ∀ n : Node, ∀ ctx, nodeInv rc ctx n = true →
    inertBytes (altText e n) = true := by
  apply Node.ind
  intro k a cs ih ctx hinv
  have nf := nodeFacts hinv
  have hlist : ∀ (l : List Node) ctx', (∀ c ∈ l, ∀ ctx, nodeInv rc ctx c = true → inertBytes (altText e c) = true) →
      nodesInv rc ctx' l = true → inertBytes (altTexts e l) = true := by
    intro l
    induction l with
    | nil => intros; rfl
    | cons c rest ihl =>
      intro ctx' hl hn
      rw [nodesInv_cons, Bool.and_eq_true] at hn
      rw [altTexts_cons]
      exact inertBytes_append _ _ (hl c (by simp) _ hn.1) (ihl ctx' (fun d hd => hl d (by simp [hd])) hn.2)
  have hcs := hlist cs _ ih nf.hchildren
  cases k
  case string v raw code =>
    simp only [altText]
    unfold renderStringOut
    have hk := nf.hkind
    simp only [kindInv, Bool.or_eq_true, Bool.not_eq_true'] at hk
    split
    · rename_i hcode; rcases hk with h | h
      · rw [h] at hcode; cases hcode
      · exact h
    · split
      · exact rawWrite_inert _
      · exact write_inert _ _
  case text v soft hard raw cjk =>
    simp only [altText]
    apply inertBytes_append
    · split
      · exact rawWrite_inert _
      · exact write_inert _ _
    · split <;> decide
  all_goals (simp only [altText]; exact hcs)

theorem altTexts_inert (rc : RCfg) (e : Bool) (cs : List Node) (ctx : Ctx) (h : nodesInv rc ctx cs = true) :
    inertBytes (altTexts e cs) = true := by
  induction cs with
  | nil => rfl
  | cons c rest ih =>
    rw [nodesInv_cons, Bool.and_eq_true] at h
    rw [altTexts_cons]
    exact inertBytes_append _ _ (altText_inert rc e c ctx h.1) (ih h.2)

/-! ### one node, given a well-formed body -/

variable {x : Bool} {rc : RCfg}

theorem tbodyFix_unhandled {k : Kind} (hh : handled rc.exts k = false) (next) : tbodyFix rc k next = [] := by
  simp [tbodyFix, hh]

theorem node_core (hc : CfgOK x rc) (ctx : Ctx) (pih : Bool) (next : Option Node) (k : Kind)
    (attrs : Option (List Attr)) (cs : List Node) (nf : NodeFacts rc ctx k attrs cs)
    {body : Bytes} (hb : WFHtml x body) :
    ∃ core, enter rc pih next k attrs cs ++ body ++ leave rc pih next k cs = core ++ tbodyFix rc k next ∧
      WFHtml x core := by
  by_cases hh' : handled rc.exts k = false
  · exact ⟨_, by rw [tbodyFix_unhandled hh', List.append_nil], wf_unhandled k hh' pih next attrs cs hb⟩
  have hh : handled rc.exts k = true := by simpa using hh'
  have plain : ∀ {k'}, k' = k → tbodyFix rc k' next = [] →
      WFHtml x (enter rc pih next k attrs cs ++ body ++ leave rc pih next k cs) →
      ∃ core, enter rc pih next k attrs cs ++ body ++ leave rc pih next k cs = core ++ tbodyFix rc k next ∧
        WFHtml x core := by
    intro k' e h1 h2; subst e
    exact ⟨_, by rw [h1, List.append_nil], h2⟩
  have hk := nf.hkind
  cases k
  case tableHeader => exact wf_tableHeader hh pih next attrs cs hb nf.hattrs
  case tableRow => exact wf_tableRow hh pih next attrs cs hb nf.hattrs
  all_goals refine plain rfl (by simp [tbodyFix]) ?_
  case document => exact wf_document pih next attrs cs hb
  case heading level =>
    simp only [kindInv, Bool.and_eq_true, decide_eq_true_eq] at hk
    exact wf_heading pih next attrs cs level hk.1 hk.2 hb nf.hattrs
  case blockquote => exact wf_blockquote pih next attrs cs hb nf.hattrs
  case codeBlock lines => exact wf_codeBlock pih next attrs cs lines hb
  case fencedCodeBlock info lines => exact wf_fencedCodeBlock pih next attrs cs info lines hb
  case htmlBlock lines closure => exact wf_htmlBlock hc pih next attrs cs lines closure hb
  case list ordered start => exact wf_list pih next attrs cs ordered start hb nf.hattrs nf.hclash
  case listItem => exact wf_listItem pih next attrs cs hb nf.hattrs
  case paragraph => exact wf_paragraph pih next attrs cs hb nf.hattrs
  case textBlock => exact wf_textBlock pih next attrs cs hb
  case thematicBreak => exact wf_thematicBreak hc pih next attrs cs hb nf.hattrs
  case autoLink email url label => exact wf_autoLink hc pih next attrs cs email url label hb nf.hattrs
  case codeSpan => exact wf_codeSpan pih next attrs cs hb nf.hattrs
  case emphasis level => exact wf_emphasis pih next attrs cs level hb nf.hattrs
  case image dest title =>
    exact wf_image hc pih next attrs cs dest title hb nf.hattrs nf.hclash (altTexts_inert rc _ cs _ nf.hchildren)
  case link dest title => exact wf_link hc pih next attrs cs dest title hb nf.hattrs nf.hclash
  case rawHTML segs => exact wf_rawHTML hc pih next attrs cs segs hb
  case text v soft hard raw cjk => exact wf_text hc pih next attrs cs v soft hard raw cjk hb
  case string v raw code =>
    refine wf_string pih next attrs cs v raw code hb ?_
    intro hcode
    simp only [kindInv, hcode, Bool.not_true, Bool.false_or] at hk
    exact hk
  case table => exact wf_table hh pih next attrs cs hb nf.hattrs
  case tableCell align => exact wf_tableCell hh pih next attrs cs align hb nf.hattrs
  case strikethrough => exact wf_strikethrough hh pih next attrs cs hb nf.hattrs
  case taskCheckBox checked => exact wf_taskCheckBox hc hh pih next attrs cs checked hb
  case definitionList => exact wf_definitionList hh pih next attrs cs hb nf.hattrs
  case definitionTerm => exact wf_definitionTerm hh pih next attrs cs hb nf.hattrs
  case definitionDescription tight => exact wf_definitionDescription hh pih next attrs cs tight hb nf.hattrs
  case footnoteLink index refCount refIndex =>
    exact wf_footnoteLink hc hh pih next attrs cs index refCount refIndex hb
  case footnoteBacklink index refCount refIndex =>
    exact wf_footnoteBacklink hc hh pih next attrs cs index refCount refIndex hb
  case footnote index => exact wf_footnote hc hh pih next attrs cs index hb nf.hattrs nf.hclash
  case footnoteList => exact wf_footnoteList hc hh pih next attrs cs hb nf.hattrs nf.hclash
  case other => exact wf_other pih next attrs cs hb

/-! ### lists of children -/

/-- the induction predicate: a node renders to a well-formed core plus its share of the `<tbody>` element -/
def NodeWF (x : Bool) (rc : RCfg) (n : Node) : Prop :=
  ∀ ctx pih next, nodeInv rc ctx n = true →
    ∃ core, renderNode rc pih next n = core ++ tbodyFix rc n.kind next ∧ WFHtml x core

theorem nodesInv_mem {ctx : Ctx} {cs : List Node} (h : nodesInv rc ctx cs = true) :
    ∀ c ∈ cs, nodeInv rc ctx c = true := by
  induction cs with
  | nil => intro c hc; cases hc
  | cons d rest ih =>
    rw [nodesInv_cons, Bool.and_eq_true] at h
    intro c hc
    rw [List.mem_cons] at hc
    rcases hc with rfl | hc
    · exact h.1
    · exact ih h.2 c hc

theorem fix_nil_of_ctx {ctx : Ctx} (hctx : ctx ≠ .table) (c : Node) (h : nodeInv rc ctx c = true) (next) :
    tbodyFix rc c.kind next = [] := by
  cases c with
  | mk k a cs =>
    have hk := (nodeFacts h).hkind
    show tbodyFix rc k next = []
    cases k
    case tableHeader => simp [kindInv] at hk; exact absurd hk.1 hctx
    case tableRow => simp [kindInv] at hk; exact absurd hk.1 hctx
    all_goals simp only [tbodyFix, ite_self]

theorem fix_nil_of_noTable (h : rc.exts.table = false) (k : Kind) (next) : tbodyFix rc k next = [] := by
  cases k <;> first | (simp only [tbodyFix, ite_self]; done) | simp [tbodyFix, handled, h]

theorem list_plain (cs : List Node) (hP : ∀ c ∈ cs, NodeWF x rc c) (ctx : Ctx) (hinv : nodesInv rc ctx cs = true)
    (hfix : ∀ c ∈ cs, ∀ next, tbodyFix rc c.kind next = []) (pih : Bool) : WFHtml x (renderNodes rc pih cs) := by
  induction cs with
  | nil => exact .nil
  | cons c rest ih =>
    rw [nodesInv_cons, Bool.and_eq_true] at hinv
    rw [renderNodes_cons]
    obtain ⟨core, e, w⟩ := hP c (by simp) ctx pih rest.head? hinv.1
    rw [e, hfix c (by simp), List.append_nil]
    exact .append _ _ w (ih (fun d hd => hP d (by simp [hd])) hinv.2 (fun d hd => hfix d (by simp [hd])))

theorem kind_eq_row (k : Kind) (h : (k == .tableRow) = true) : k = .tableRow := by
  cases k <;> first | rfl | (simp at h) | cases h

theorem rows_wf (hh : rc.exts.table = true) (rows : List Node) (hP : ∀ c ∈ rows, NodeWF x rc c)
    (hinv : nodesInv rc .table rows = true) (hrows : rows.all (fun r => r.kind == .tableRow) = true)
    (hne : rows ≠ []) (pih : Bool) :
    ∃ B, renderNodes rc pih rows = B ++ strBytes "</tbody>\n" ∧ WFHtml x B := by
  induction rows with
  | nil => exact absurd rfl hne
  | cons r rest ih =>
    rw [nodesInv_cons, Bool.and_eq_true] at hinv
    rw [List.all_cons, Bool.and_eq_true] at hrows
    rw [renderNodes_cons]
    obtain ⟨core, e, w⟩ := hP r (by simp) .table pih rest.head? hinv.1
    rw [e, kind_eq_row _ hrows.1]
    cases rest with
    | nil =>
      refine ⟨core, ?_, w⟩
      simp [tbodyFix, handled, hh, renderNodes_nil]
    | cons r' rest' =>
      obtain ⟨B, eB, wB⟩ := ih (fun d hd => hP d (by simp [hd])) hinv.2 hrows.2 (by simp)
      refine ⟨core ++ B, ?_, .append _ _ w wB⟩
      rw [eB]
      simp [tbodyFix, handled, hh]

theorem table_children_wf (hh : rc.exts.table = true) (cs : List Node) (hP : ∀ c ∈ cs, NodeWF x rc c)
    (hinv : nodesInv rc .table cs = true) (hshape : tableShape cs = true) (pih : Bool) :
    WFHtml x (renderNodes rc pih cs) := by
  unfold tableShape at hshape
  split at hshape
  · rename_i a hcs rows
    rw [nodesInv_cons, Bool.and_eq_true] at hinv
    rw [renderNodes_cons]
    obtain ⟨core, e, w⟩ := hP _ (by simp) .table pih rows.head? hinv.1
    rw [e]
    cases rows with
    | nil =>
      refine (w.of_eq ?_)
      simp [tbodyFix, handled, hh, Node.kind, renderNodes_nil]
    | cons r rest =>
      obtain ⟨B, eB, wB⟩ := rows_wf hh (r :: rest) (fun d hd => hP d (by simp [hd])) hinv.2 hshape (by simp) pih
      rw [eB]
      have tb := wf_el (x := x) tag_tbody (sok_fixed tag_tbody (fixed := []) rfl (by simp))
        (pre := [10]) (post := [10]) (opn := strBytes "<tbody>\n") (cls := strBytes "</tbody>\n")
        (by bnorm) (by bnorm) (by decide) (by decide) wB
      refine (WFHtml.append _ _ w tb).of_eq ?_
      simp [tbodyFix, handled, hh, Node.kind]
  · cases hshape

theorem children_wf {ctx : Ctx} {k : Kind} {attrs : Option (List Attr)} {cs : List Node}
    (nf : NodeFacts rc ctx k attrs cs) (hP : ∀ c ∈ cs, NodeWF x rc c) (pih : Bool) :
    WFHtml x (renderNodes rc pih cs) := by
  by_cases ht : rc.exts.table = true
  · by_cases hk : k = .table
    · subst hk
      exact table_children_wf ht cs hP nf.hchildren nf.hkind pih
    · have hctx : childCtx k ≠ .table := by
        cases k <;> first | (exact absurd rfl hk) | (simp [childCtx])
      exact list_plain cs hP _ nf.hchildren
        (fun c hc next => fix_nil_of_ctx hctx c (nodesInv_mem nf.hchildren c hc) next) pih
  · have ht' : rc.exts.table = false := by simpa using ht
    exact list_plain cs hP _ nf.hchildren (fun c _ next => fix_nil_of_noTable ht' _ next) pih

/-! ### the whole tree -/

theorem node_wf (hc : CfgOK x rc) : ∀ n, NodeWF x rc n := by
  apply Node.ind
  intro k a cs ih ctx pih next hinv
  have nf := nodeFacts hinv
  rw [renderNode_mk]
  have hb : WFHtml x (if (handled rc.exts k && skipsChildren k) = true then []
      else renderNodes rc k.isTableHeader cs) := by
    split
    · exact .nil
    · exact children_wf nf ih _
  exact node_core hc ctx pih next k a cs nf hb

/-- Appendix E step 1 for an arbitrary renderer state in safe mode with consistent XHTML flags. -/
theorem render_wf_cfg (hc : CfgOK x rc) (t : Node) (hinv : nodeInv rc .any t = true) : WFHtml x (render rc t) := by
  obtain ⟨core, e, w⟩ := node_wf hc t .any false none hinv
  unfold render
  rw [e, fix_nil_of_ctx (by decide) t hinv, List.append_nil]
  exact w

/-! ### the configurations `mkRCfg` builds -/

theorem replace2_noop (a : UInt8) (rep b : Bytes) (h : a ∉ b) : replace2 a rep b = b := by
  fun_induction replace2 a rep b with
  | case1 x y rest hxy ih =>
    simp only [Bool.and_eq_true, beq_iff_eq] at hxy
    exact absurd (by simp [hxy.1]) h
  | case2 x y rest hxy ih =>
    rw [ih (fun hm => h (List.mem_cons_of_mem _ hm))]
  | case3 l _ => rfl

theorem template_noop (c : Bytes) (i n : Nat) (h1 : 94 ∉ c) (h2 : 37 ∉ c) : applyFootnoteTemplate c i n = c := by
  unfold applyFootnoteTemplate
  rw [replace2_noop 94 _ c h1, replace2_noop 37 _ c h2]

theorem cfgOK_mk (o : Opts) (e : Exts) (hsafe : o.unsafe_ = false) : CfgOK o.xhtml (mkRCfg o e) := by
  have hx : ∀ b : Bool, (if b = true then true else false) = b := by intro b; cases b <;> rfl
  refine ⟨?_, ?_, ?_, ?_, ⟨?_, ?_, ?_, ?_⟩⟩
  · simp [mkRCfg, RCfg.propagate, HCfg.setOpts, hsafe]
  · simp [mkRCfg, RCfg.propagate, HCfg.setOpts]
  · simp [mkRCfg, RCfg.propagate, HCfg.setOpts]
  · simp [mkRCfg, RCfg.propagate, HCfg.setOpts]
  · rfl
  · intro i n
    show inertBytes (applyFootnoteTemplate (strBytes "footnote-ref") i n) = true
    rw [template_noop _ i n (by decide +kernel) (by decide +kernel)]
    decide +kernel
  · intro i n
    show inertBytes (applyFootnoteTemplate (strBytes "footnote-backref") i n) = true
    rw [template_noop _ i n (by decide +kernel) (by decide +kernel)]
    decide +kernel
  · intro i n
    show inertBytes (applyFootnoteTemplate (strBytes "&#x21a9;&#xfe0e;") i n) = true
    rw [template_noop _ i n (by decide +kernel) (by decide +kernel)]
    decide +kernel

theorem footOK_of_inv {rc : RCfg} (h : footCfgInv rc.footc = true) : FootOK rc := by
  unfold footCfgInv at h
  simp only [Bool.and_eq_true] at h
  exact ⟨h.1.1.1, fun i n => template_inert _ i n h.1.1.2, fun i n => template_inert _ i n h.1.2,
    fun i n => template_inert _ i n h.2⟩

/-- Appendix E step 1 for any renderer state in safe mode whose copies of the XHTML flag agree (this covers
    non-default footnote options, as long as the configured strings are inert — part of `Inv`). -/
theorem render_wf_rc (x : Bool) (rc : RCfg) (hsafe : rc.core.unsafe_ = false) (hcore : rc.core.xhtml = x)
    (htask : rc.task.xhtml = x) (hfoot : rc.foot.xhtml = x) (t : Node) (hinv : Spec.Inv rc t = true) :
    WFHtml x (render rc t) := by
  unfold Spec.Inv at hinv
  rw [Bool.and_eq_true] at hinv
  exact render_wf_cfg ⟨hsafe, hcore, htask, hfoot, footOK_of_inv hinv.2⟩ t hinv.1

/-- Appendix E step 1: in safe mode, under the tree invariant, the renderer's output is in the grammar. -/
theorem render_wf (o : Opts) (e : Exts) (t : Node) (hsafe : o.unsafe_ = false)
    (hinv : Spec.Inv (mkRCfg o e) t = true) : WFHtml o.xhtml (render (mkRCfg o e) t) := by
  unfold Spec.Inv at hinv
  rw [Bool.and_eq_true] at hinv
  exact render_wf_cfg (cfgOK_mk o e hsafe) t hinv.1

end GM.Proof.RenderWF
