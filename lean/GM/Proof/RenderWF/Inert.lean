/-
  GM.Proof.RenderWF.Inert — closure properties of `Spec.ampsOK` / `Spec.inertBytes` (append, plain bytes)
  and inertness of the leaf writers of the renderer model: escapeHTML, rawWrite, decBytes, escapeRune,
  write, urlOut.
-/
import GM.Model.Render
import GM.Spec.RenderInv
import GM.Proof.Util

namespace GM.Proof.RenderWF
open GM GM.Spec

/-! ### takeWhile / dropWhile with a stopper -/

theorem dropWhile_append_of_ne_nil {α} (p : α → Bool) (s t : List α) (d : α) (tl : List α)
    (h : s.dropWhile p = d :: tl) :
    (s ++ t).dropWhile p = d :: (tl ++ t) ∧ (s ++ t).takeWhile p = s.takeWhile p := by
  induction s with
  | nil => simp at h
  | cons c s ih =>
    by_cases hc : p c = true
    · simp only [List.dropWhile_cons, hc, if_true] at h
      have := ih h
      simp [hc, this]
    · simp only [List.dropWhile_cons, hc] at h
      simp only [Bool.false_eq_true, if_false] at h
      cases h
      simp [hc]

theorem runThenSemi_append (p : UInt8 → Bool) (s t : Bytes) (h : runThenSemi p s = true) :
    runThenSemi p (s ++ t) = true := by
  unfold runThenSemi at h
  split at h
  · rename_i tl heq
    have := dropWhile_append_of_ne_nil p s t 59 tl heq
    unfold runThenSemi
    rw [this.1, this.2]
    exact h
  · cases h

theorem runThenSemi_head (p : UInt8 → Bool) (s : Bytes) (h : runThenSemi p s = true) :
    ∃ c r, s = c :: r ∧ p c = true := by
  cases s with
  | nil => simp [runThenSemi] at h
  | cons c r =>
    refine ⟨c, r, rfl, ?_⟩
    by_cases hc : p c = true
    · exact hc
    · unfold runThenSemi at h
      simp only [List.dropWhile_cons, List.takeWhile_cons, hc] at h
      simp at h
      split at h <;> simp_all

theorem refAfterAmp_append (r t : Bytes) (h : refAfterAmp r = true) : refAfterAmp (r ++ t) = true := by
  unfold refAfterAmp at h
  split at h
  · simp only [List.cons_append]; unfold refAfterAmp; exact runThenSemi_append _ _ _ h
  · simp only [List.cons_append]; unfold refAfterAmp; exact runThenSemi_append _ _ _ h
  · rename_i r' h1 h2
    obtain ⟨c, r'', rfl, hc⟩ := runThenSemi_head _ _ h
    have h' := runThenSemi_append _ _ t h
    simp only [List.cons_append] at h' ⊢
    have c1 : c ≠ 120 := by rintro rfl; simp [isDigitB] at hc
    have c2 : c ≠ 88 := by rintro rfl; simp [isDigitB] at hc
    unfold refAfterAmp
    split
    · rename_i heq; simp at heq; exact absurd heq.1 c1
    · rename_i heq; simp at heq; exact absurd heq.1 c2
    · rename_i heq; simp at heq; rw [← heq]; exact h'
    · rename_i _ _ hne; exact (hne _ rfl).elim
  · rename_i h1 h2 h3
    obtain ⟨c, r'', rfl, hc⟩ := runThenSemi_head _ _ h
    have h' := runThenSemi_append _ _ t h
    have c1 : c ≠ 35 := by rintro rfl; simp [isAlnumB, isAlphaB, isDigitB] at hc
    simp only [List.cons_append] at h' ⊢
    unfold refAfterAmp
    split
    · rename_i heq; simp at heq; exact absurd heq.1 c1
    · rename_i heq; simp at heq; exact absurd heq.1 c1
    · rename_i heq; simp at heq; exact absurd heq.1 c1
    · exact h'

theorem ampsOK_cons (c : UInt8) (r : Bytes) : ampsOK (c :: r) = ((c != 38 || refAfterAmp r) && ampsOK r) := rfl

theorem ampsOK_append (a b : Bytes) (ha : ampsOK a = true) (hb : ampsOK b = true) : ampsOK (a ++ b) = true := by
  induction a with
  | nil => simpa using hb
  | cons c r ih =>
    rw [ampsOK_cons] at ha
    simp only [Bool.and_eq_true, Bool.or_eq_true] at ha
    simp only [List.cons_append, ampsOK_cons, Bool.and_eq_true, Bool.or_eq_true]
    refine ⟨?_, ih ha.2⟩
    rcases ha.1 with h | h
    · exact Or.inl h
    · exact Or.inr (refAfterAmp_append _ _ h)

/-- neither `&` nor one of `<`, `>`, `"` -/
def plain (c : UInt8) : Bool := c != 38 && c != 60 && c != 62 && c != 34

theorem ampsOK_of_plain (l : Bytes) (h : l.all plain = true) : ampsOK l = true := by
  induction l with
  | nil => rfl
  | cons c r ih =>
    simp only [List.all_cons, Bool.and_eq_true] at h
    rw [ampsOK_cons, ih h.2]
    have : (c != 38) = true := by
      have := h.1; unfold plain at this; simp only [Bool.and_eq_true] at this; exact this.1.1.1
    simp [this]

theorem inertBytes_append (a b : Bytes) (ha : inertBytes a = true) (hb : inertBytes b = true) :
    inertBytes (a ++ b) = true := by
  unfold inertBytes at *
  simp only [Bool.and_eq_true] at ha hb ⊢
  exact ⟨ampsOK_append _ _ ha.1 hb.1, by rw [List.all_append, ha.2, hb.2]; rfl⟩

theorem inertBytes_nil : inertBytes [] = true := rfl

theorem inertBytes_of_plain (l : Bytes) (h : l.all plain = true) : inertBytes l = true := by
  unfold inertBytes
  rw [ampsOK_of_plain l h, Bool.true_and]
  rw [List.all_eq_true] at h ⊢
  intro c hc
  have := h c hc
  unfold plain at this
  simp only [Bool.and_eq_true] at this ⊢
  exact ⟨⟨this.1.1.2, this.1.2⟩, this.2⟩

theorem inertBytes_flatMap {α} (f : α → Bytes) (l : List α) (h : ∀ a ∈ l, inertBytes (f a) = true) :
    inertBytes (l.flatMap f) = true := by
  induction l with
  | nil => rfl
  | cons a r ih =>
    rw [List.flatMap_cons]
    exact inertBytes_append _ _ (h a (by simp)) (ih fun b hb => h b (by simp [hb]))

/-! ### leaf writers -/

theorem escByte_inert : ∀ c : UInt8, inertBytes (escByte c) = true := by
  apply forall_uint8; decide +kernel

theorem escapeHTML_inert (v : Bytes) : inertBytes (escapeHTML v) = true :=
  inertBytes_flatMap _ _ fun c _ => escByte_inert c

theorem rawWrite_inert (v : Bytes) : inertBytes (rawWrite v) = true := escapeHTML_inert v

theorem replacementChar_inert : inertBytes replacementChar = true := by decide +kernel

theorem urlOut_inert (d : Bytes) : inertBytes (urlOut false d) = true := by
  unfold urlOut
  split
  · exact escapeHTML_inert _
  · rfl

/-! ### decimal numbers -/

theorem decBytes_plain (n : Nat) : (decBytes n).all plain = true := by
  unfold decBytes
  rw [List.all_eq_true]
  intro b hb
  rw [List.mem_map] at hb
  obtain ⟨c, hc, rfl⟩ := hb
  have hd := Nat.isDigit_of_mem_toDigits (by omega) (by omega) hc
  simp only [Char.isDigit, Bool.and_eq_true, decide_eq_true_eq] at hd
  have h1 : 48 ≤ c.toNat := by
    have := hd.1; rw [ge_iff_le, UInt32.le_iff_toNat_le] at this; exact this
  have h2 : c.toNat ≤ 57 := by
    have := hd.2; rw [UInt32.le_iff_toNat_le] at this; exact this
  have : ∀ n : Nat, 48 ≤ n → n ≤ 57 → plain (UInt8.ofNat n) = true := by
    intro n a b
    have : n = 48 ∨ n = 49 ∨ n = 50 ∨ n = 51 ∨ n = 52 ∨ n = 53 ∨ n = 54 ∨ n = 55 ∨ n = 56 ∨ n = 57 := by omega
    rcases this with h | h | h | h | h | h | h | h | h | h <;> subst h <;> decide
  exact this _ h1 h2

theorem decBytes_inert (n : Nat) : inertBytes (decBytes n) = true := inertBytes_of_plain _ (decBytes_plain n)

end GM.Proof.RenderWF
