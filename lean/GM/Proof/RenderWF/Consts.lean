/-
  GM.Proof.RenderWF.Consts — explicit byte lists (written once by a script from the literals in GM/Model/Render.lean) of the string constants of the renderer model
  (each checked by the kernel), and the normalisation tactic `bnorm` used to compare byte expressions.
-/
import GM.Proof.RenderWF.Grammar

namespace GM.Proof.RenderWF
open GM

theorem sb_0 : strBytes " /> " = [32, 47, 62, 32] := by decide +kernel
theorem sb_1 : strBytes " />" = [32, 47, 62] := by decide +kernel
theorem sb_2 : strBytes " />\n" = [32, 47, 62, 10] := by decide +kernel
theorem sb_3 : strBytes " align=\"" = [32, 97, 108, 105, 103, 110, 61, 34] := by decide +kernel
theorem sb_4 : strBytes " class=\"language-" = [32, 99, 108, 97, 115, 115, 61, 34, 108, 97, 110, 103, 117, 97, 103, 101, 45] := by decide +kernel
theorem sb_5 : strBytes " start=\"" = [32, 115, 116, 97, 114, 116, 61, 34] := by decide +kernel
theorem sb_6 : strBytes " title=\"" = [32, 116, 105, 116, 108, 101, 61, 34] := by decide +kernel
theorem sb_7 : strBytes "&#160;<a href=\"#" = [38, 35, 49, 54, 48, 59, 60, 97, 32, 104, 114, 101, 102, 61, 34, 35] := by decide +kernel
theorem sb_8 : strBytes "&#x21a9;&#xfe0e;" = [38, 35, 120, 50, 49, 97, 57, 59, 38, 35, 120, 102, 101, 48, 101, 59] := by decide +kernel
theorem sb_9 : strBytes "<!-- raw HTML omitted -->" = [60, 33, 45, 45, 32, 114, 97, 119, 32, 72, 84, 77, 76, 32, 111, 109, 105, 116, 116, 101, 100, 32, 45, 45, 62] := by decide +kernel
theorem sb_10 : strBytes "</" = [60, 47] := by decide +kernel
theorem sb_11 : strBytes "</a>" = [60, 47, 97, 62] := by decide +kernel
theorem sb_12 : strBytes "</a></sup>" = [60, 47, 97, 62, 60, 47, 115, 117, 112, 62] := by decide +kernel
theorem sb_13 : strBytes "</blockquote>\n" = [60, 47, 98, 108, 111, 99, 107, 113, 117, 111, 116, 101, 62, 10] := by decide +kernel
theorem sb_14 : strBytes "</code>" = [60, 47, 99, 111, 100, 101, 62] := by decide +kernel
theorem sb_15 : strBytes "</code></pre>\n" = [60, 47, 99, 111, 100, 101, 62, 60, 47, 112, 114, 101, 62, 10] := by decide +kernel
theorem sb_16 : strBytes "</dd>\n" = [60, 47, 100, 100, 62, 10] := by decide +kernel
theorem sb_17 : strBytes "</del>" = [60, 47, 100, 101, 108, 62] := by decide +kernel
theorem sb_18 : strBytes "</dl>\n" = [60, 47, 100, 108, 62, 10] := by decide +kernel
theorem sb_19 : strBytes "</dt>\n" = [60, 47, 100, 116, 62, 10] := by decide +kernel
theorem sb_20 : strBytes "</h" = [60, 47, 104] := by decide +kernel
theorem sb_21 : strBytes "</li>\n" = [60, 47, 108, 105, 62, 10] := by decide +kernel
theorem sb_22 : strBytes "</ol>\n</div>\n" = [60, 47, 111, 108, 62, 10, 60, 47, 100, 105, 118, 62, 10] := by decide +kernel
theorem sb_23 : strBytes "</p>\n" = [60, 47, 112, 62, 10] := by decide +kernel
theorem sb_24 : strBytes "</table>\n" = [60, 47, 116, 97, 98, 108, 101, 62, 10] := by decide +kernel
theorem sb_25 : strBytes "</tbody>\n" = [60, 47, 116, 98, 111, 100, 121, 62, 10] := by decide +kernel
theorem sb_26 : strBytes "</tr>\n" = [60, 47, 116, 114, 62, 10] := by decide +kernel
theorem sb_27 : strBytes "</tr>\n</thead>\n" = [60, 47, 116, 114, 62, 10, 60, 47, 116, 104, 101, 97, 100, 62, 10] := by decide +kernel
theorem sb_28 : strBytes "<a href=\"" = [60, 97, 32, 104, 114, 101, 102, 61, 34] := by decide +kernel
theorem sb_29 : strBytes "<br />\n" = [60, 98, 114, 32, 47, 62, 10] := by decide +kernel
theorem sb_30 : strBytes "<br>\n" = [60, 98, 114, 62, 10] := by decide +kernel
theorem sb_31 : strBytes "<dd" = [60, 100, 100] := by decide +kernel
theorem sb_32 : strBytes "<div class=\"footnotes\" role=\"doc-endnotes\"" = [60, 100, 105, 118, 32, 99, 108, 97, 115, 115, 61, 34, 102, 111, 111, 116, 110, 111, 116, 101, 115, 34, 32, 114, 111, 108, 101, 61, 34, 100, 111, 99, 45, 101, 110, 100, 110, 111, 116, 101, 115, 34] := by decide +kernel
theorem sb_33 : strBytes "<h" = [60, 104] := by decide +kernel
theorem sb_34 : strBytes "<hr" = [60, 104, 114] := by decide +kernel
theorem sb_35 : strBytes "<img src=\"" = [60, 105, 109, 103, 32, 115, 114, 99, 61, 34] := by decide +kernel
theorem sb_36 : strBytes "<input checked=\"\" disabled=\"\" type=\"checkbox\"" = [60, 105, 110, 112, 117, 116, 32, 99, 104, 101, 99, 107, 101, 100, 61, 34, 34, 32, 100, 105, 115, 97, 98, 108, 101, 100, 61, 34, 34, 32, 116, 121, 112, 101, 61, 34, 99, 104, 101, 99, 107, 98, 111, 120, 34] := by decide +kernel
theorem sb_37 : strBytes "<input disabled=\"\" type=\"checkbox\"" = [60, 105, 110, 112, 117, 116, 32, 100, 105, 115, 97, 98, 108, 101, 100, 61, 34, 34, 32, 116, 121, 112, 101, 61, 34, 99, 104, 101, 99, 107, 98, 111, 120, 34] := by decide +kernel
theorem sb_38 : strBytes "<li id=\"" = [60, 108, 105, 32, 105, 100, 61, 34] := by decide +kernel
theorem sb_39 : strBytes "<ol>\n" = [60, 111, 108, 62, 10] := by decide +kernel
theorem sb_40 : strBytes "<pre><code" = [60, 112, 114, 101, 62, 60, 99, 111, 100, 101] := by decide +kernel
theorem sb_41 : strBytes "<pre><code>" = [60, 112, 114, 101, 62, 60, 99, 111, 100, 101, 62] := by decide +kernel
theorem sb_42 : strBytes "<sup id=\"" = [60, 115, 117, 112, 32, 105, 100, 61, 34] := by decide +kernel
theorem sb_43 : strBytes "<table" = [60, 116, 97, 98, 108, 101] := by decide +kernel
theorem sb_44 : strBytes "<tbody>\n" = [60, 116, 98, 111, 100, 121, 62, 10] := by decide +kernel
theorem sb_45 : strBytes "<thead" = [60, 116, 104, 101, 97, 100] := by decide +kernel
theorem sb_46 : strBytes "<tr" = [60, 116, 114] := by decide +kernel
theorem sb_47 : strBytes "> " = [62, 32] := by decide +kernel
theorem sb_48 : strBytes ">\n" = [62, 10] := by decide +kernel
theorem sb_49 : strBytes ">\n<tr>\n" = [62, 10, 60, 116, 114, 62, 10] := by decide +kernel
theorem sb_50 : strBytes "\" alt=\"" = [34, 32, 97, 108, 116, 61, 34] := by decide +kernel
theorem sb_51 : strBytes "\" class=\"" = [34, 32, 99, 108, 97, 115, 115, 61, 34] := by decide +kernel
theorem sb_52 : strBytes "\" role=\"doc-backlink\">" = [34, 32, 114, 111, 108, 101, 61, 34, 100, 111, 99, 45, 98, 97, 99, 107, 108, 105, 110, 107, 34, 62] := by decide +kernel
theorem sb_53 : strBytes "\" role=\"doc-noteref\">" = [34, 32, 114, 111, 108, 101, 61, 34, 100, 111, 99, 45, 110, 111, 116, 101, 114, 101, 102, 34, 62] := by decide +kernel
theorem sb_54 : strBytes "\" title=\"" = [34, 32, 116, 105, 116, 108, 101, 61, 34] := by decide +kernel
theorem sb_55 : strBytes "\"><a href=\"#" = [34, 62, 60, 97, 32, 104, 114, 101, 102, 61, 34, 35] := by decide +kernel
theorem sb_56 : strBytes "\n<hr />\n" = [10, 60, 104, 114, 32, 47, 62, 10] := by decide +kernel
theorem sb_57 : strBytes "\n<hr>\n" = [10, 60, 104, 114, 62, 10] := by decide +kernel
theorem sb_58 : strBytes "align" = [97, 108, 105, 103, 110] := by decide +kernel
theorem sb_59 : strBytes "blockquote" = [98, 108, 111, 99, 107, 113, 117, 111, 116, 101] := by decide +kernel
theorem sb_60 : strBytes "center" = [99, 101, 110, 116, 101, 114] := by decide +kernel
theorem sb_61 : strBytes "code" = [99, 111, 100, 101] := by decide +kernel
theorem sb_62 : strBytes "del" = [100, 101, 108] := by decide +kernel
theorem sb_63 : strBytes "dl" = [100, 108] := by decide +kernel
theorem sb_64 : strBytes "dt" = [100, 116] := by decide +kernel
theorem sb_65 : strBytes "em" = [101, 109] := by decide +kernel
theorem sb_66 : strBytes "fn:" = [102, 110, 58] := by decide +kernel
theorem sb_67 : strBytes "fnref" = [102, 110, 114, 101, 102] := by decide +kernel
theorem sb_68 : strBytes "footnote-backref" = [102, 111, 111, 116, 110, 111, 116, 101, 45, 98, 97, 99, 107, 114, 101, 102] := by decide +kernel
theorem sb_69 : strBytes "footnote-ref" = [102, 111, 111, 116, 110, 111, 116, 101, 45, 114, 101, 102] := by decide +kernel
theorem sb_70 : strBytes "left" = [108, 101, 102, 116] := by decide +kernel
theorem sb_71 : strBytes "li" = [108, 105] := by decide +kernel
theorem sb_72 : strBytes "mailto:" = [109, 97, 105, 108, 116, 111, 58] := by decide +kernel
theorem sb_73 : strBytes "none" = [110, 111, 110, 101] := by decide +kernel
theorem sb_74 : strBytes "ol" = [111, 108] := by decide +kernel
theorem sb_75 : strBytes "p" = [112] := by decide +kernel
theorem sb_76 : strBytes "right" = [114, 105, 103, 104, 116] := by decide +kernel
theorem sb_77 : strBytes "strong" = [115, 116, 114, 111, 110, 103] := by decide +kernel
theorem sb_78 : strBytes "style" = [115, 116, 121, 108, 101] := by decide +kernel
theorem sb_79 : strBytes "td" = [116, 100] := by decide +kernel
theorem sb_80 : strBytes "text-align:" = [116, 101, 120, 116, 45, 97, 108, 105, 103, 110, 58] := by decide +kernel
theorem sb_81 : strBytes "th" = [116, 104] := by decide +kernel
theorem sb_82 : strBytes "ul" = [117, 108] := by decide +kernel
theorem sb_83 : strBytes "h1" = [104, 49] := by decide +kernel
theorem sb_84 : strBytes "h2" = [104, 50] := by decide +kernel
theorem sb_85 : strBytes "h3" = [104, 51] := by decide +kernel
theorem sb_86 : strBytes "h4" = [104, 52] := by decide +kernel
theorem sb_87 : strBytes "h5" = [104, 53] := by decide +kernel
theorem sb_88 : strBytes "h6" = [104, 54] := by decide +kernel
theorem sb_89 : strBytes "pre" = [112, 114, 101] := by decide +kernel
theorem sb_90 : strBytes "hr" = [104, 114] := by decide +kernel
theorem sb_91 : strBytes "a" = [97] := by decide +kernel
theorem sb_92 : strBytes "img" = [105, 109, 103] := by decide +kernel
theorem sb_93 : strBytes "br" = [98, 114] := by decide +kernel
theorem sb_94 : strBytes "table" = [116, 97, 98, 108, 101] := by decide +kernel
theorem sb_95 : strBytes "thead" = [116, 104, 101, 97, 100] := by decide +kernel
theorem sb_96 : strBytes "tbody" = [116, 98, 111, 100, 121] := by decide +kernel
theorem sb_97 : strBytes "tr" = [116, 114] := by decide +kernel
theorem sb_98 : strBytes "input" = [105, 110, 112, 117, 116] := by decide +kernel
theorem sb_99 : strBytes "dd" = [100, 100] := by decide +kernel
theorem sb_100 : strBytes "sup" = [115, 117, 112] := by decide +kernel
theorem sb_101 : strBytes "div" = [100, 105, 118] := by decide +kernel
theorem sb_102 : strBytes "class" = [99, 108, 97, 115, 115] := by decide +kernel
theorem sb_103 : strBytes "start" = [115, 116, 97, 114, 116] := by decide +kernel
theorem sb_104 : strBytes "id" = [105, 100] := by decide +kernel
theorem sb_105 : strBytes "href" = [104, 114, 101, 102] := by decide +kernel
theorem sb_106 : strBytes "title" = [116, 105, 116, 108, 101] := by decide +kernel
theorem sb_107 : strBytes "role" = [114, 111, 108, 101] := by decide +kernel
theorem sb_108 : strBytes "src" = [115, 114, 99] := by decide +kernel
theorem sb_109 : strBytes "alt" = [97, 108, 116] := by decide +kernel
theorem sb_110 : strBytes "checked" = [99, 104, 101, 99, 107, 101, 100] := by decide +kernel
theorem sb_111 : strBytes "disabled" = [100, 105, 115, 97, 98, 108, 101, 100] := by decide +kernel
theorem sb_112 : strBytes "type" = [116, 121, 112, 101] := by decide +kernel
theorem sb_113 : strBytes "data-" = [100, 97, 116, 97, 45] := by decide +kernel

theorem omitted_eq : omitted = Spec.placeholder := rfl
theorem sb_eq (s : String) : Spec.sb s = strBytes s := rfl

/-- normalise a byte expression: constants to explicit lists, appends to the right -/
macro "bnorm" : tactic => `(tactic| simp only [sb_eq, serAttrs, serAttrs_append, sb_0, sb_1, sb_2, sb_3, sb_4, sb_5, sb_6, sb_7, sb_8, sb_9, sb_10, sb_11, sb_12, sb_13, sb_14, sb_15, sb_16, sb_17, sb_18, sb_19, sb_20, sb_21, sb_22, sb_23, sb_24, sb_25, sb_26, sb_27, sb_28, sb_29, sb_30, sb_31, sb_32, sb_33, sb_34, sb_35, sb_36, sb_37, sb_38, sb_39, sb_40, sb_41, sb_42, sb_43, sb_44, sb_45, sb_46, sb_47, sb_48, sb_49, sb_50, sb_51, sb_52, sb_53, sb_54, sb_55, sb_56, sb_57, sb_58, sb_59, sb_60, sb_61, sb_62, sb_63, sb_64, sb_65, sb_66, sb_67, sb_68, sb_69, sb_70, sb_71, sb_72, sb_73, sb_74, sb_75, sb_76, sb_77, sb_78, sb_79, sb_80, sb_81, sb_82, sb_83, sb_84, sb_85, sb_86, sb_87, sb_88, sb_89, sb_90, sb_91, sb_92, sb_93, sb_94, sb_95, sb_96, sb_97, sb_98, sb_99, sb_100, sb_101, sb_102, sb_103, sb_104, sb_105, sb_106, sb_107, sb_108, sb_109, sb_110, sb_111, sb_112, sb_113,
  List.append_assoc, List.cons_append, List.nil_append, List.append_nil, Bool.false_eq_true, ↓reduceIte])
macro "bnorm" " at " h:ident : tactic => `(tactic| simp only [sb_eq, serAttrs, serAttrs_append, sb_0, sb_1, sb_2, sb_3, sb_4, sb_5, sb_6, sb_7, sb_8, sb_9, sb_10, sb_11, sb_12, sb_13, sb_14, sb_15, sb_16, sb_17, sb_18, sb_19, sb_20, sb_21, sb_22, sb_23, sb_24, sb_25, sb_26, sb_27, sb_28, sb_29, sb_30, sb_31, sb_32, sb_33, sb_34, sb_35, sb_36, sb_37, sb_38, sb_39, sb_40, sb_41, sb_42, sb_43, sb_44, sb_45, sb_46, sb_47, sb_48, sb_49, sb_50, sb_51, sb_52, sb_53, sb_54, sb_55, sb_56, sb_57, sb_58, sb_59, sb_60, sb_61, sb_62, sb_63, sb_64, sb_65, sb_66, sb_67, sb_68, sb_69, sb_70, sb_71, sb_72, sb_73, sb_74, sb_75, sb_76, sb_77, sb_78, sb_79, sb_80, sb_81, sb_82, sb_83, sb_84, sb_85, sb_86, sb_87, sb_88, sb_89, sb_90, sb_91, sb_92, sb_93, sb_94, sb_95, sb_96, sb_97, sb_98, sb_99, sb_100, sb_101, sb_102, sb_103, sb_104, sb_105, sb_106, sb_107, sb_108, sb_109, sb_110, sb_111, sb_112, sb_113,
  List.append_assoc, List.cons_append, List.nil_append, List.append_nil, Bool.false_eq_true, ↓reduceIte] at $h:ident)

end GM.Proof.RenderWF
