/-
  GM.Proof.ConvertHVSim — when the monitored driver `runV` (GM.Proof.ConvertHV) ends normally, so does the driver with
  AutoHeadingID, in the same `St` (`runH_of_runV`): the option's code in Close panics only in the `Value` call the monitor
  also makes (`Generate` always returns: GM.Proof.Ids.generate_isSome), and everything else it does stays in the second state layer.
  `VSim m m0`: whenever `m0` ends normally from `s`, `m` ends normally from every `(h, s)` with the same value and `St`.
-/
import GM.Proof.ConvertHV
import GM.Proof.ConvertHSim
import GM.Proof.ConvertHIds

namespace GM.ConvertH
open GM GM.Text GM.Blocks GM.Convert

structure VSim {α : Type} (m : MH α) (m0 : M α) : Prop where
  h : ∀ h s a s', m0 s = .ok (a, s') → ∃ h', m h s = .ok ((a, h'), s')

theorem m_bind_ok' {α β} {m : M α} {f : α → M β} {s : St} {b : β} {s'' : St} (e : (m >>= f) s = .ok (b, s'')) :
    ∃ a s', m s = .ok (a, s') ∧ f a s' = .ok (b, s'') := by
  rw [m_bind_apply] at e
  cases hm : m s with
  | error x => rw [hm] at e; cases e
  | ok p => obtain ⟨a, s'⟩ := p; rw [hm] at e; exact ⟨a, s', rfl, e⟩

theorem VSim.up {α} (x : M α) : VSim (up x) x :=
  ⟨fun h s a s' e => ⟨h, by rw [up_apply, e]⟩⟩

theorem VSim.pure {α} (a : α) : VSim (Pure.pure a : MH α) (Pure.pure a : M α) :=
  ⟨fun h s _ _ e => by cases e; exact ⟨h, rfl⟩⟩

theorem VSim.throw {α} (e : Panic) : VSim (throw e : MH α) (throw e : M α) := ⟨fun _ _ _ _ e => by cases e⟩

theorem VSim.bind {α β} {m : MH α} {m0 : M α} {f : α → MH β} {f0 : α → M β}
    (hm : VSim m m0) (hf : ∀ a, VSim (f a) (f0 a)) : VSim (m >>= f) (m0 >>= f0) := by
  constructor
  intro h s b s'' e
  obtain ⟨a, s', e1, e2⟩ := m_bind_ok' e
  obtain ⟨h', e1'⟩ := hm.h h s a s' e1
  obtain ⟨h'', e2'⟩ := (hf a).h h' s' b s'' e2
  exact ⟨h'', by rw [mh_bind_apply, e1']; exact e2'⟩

theorem VSim.ite {α} {c : Prop} [Decidable c] {a b : MH α} {a0 b0 : M α} (ha : VSim a a0) (hb : VSim b b0) :
    VSim (if c then a else b) (if c then a0 else b0) := by split <;> assumption

def VHook : Prop := ∀ bp node, VSim (bpCloseH true bp node) (bpCloseV bp node)

open Lean Elab Tactic Meta in
/-- when the `MH` side of an `HSim` goal is a `match` on a term that is not a variable, generalise that term in the whole
    goal (both sides match on it), so that `split` analyses both sides at once -/
elab "gen_discr_v" : tactic => do
  let g ← getMainGoal
  g.withContext do
    let t ← instantiateMVars (← g.getType)
    let args := t.getAppArgs
    if args.size < 3 then throwError "not a VSim goal"
    let m := args[1]!
    let env ← getEnv
    -- a discriminant (closed w.r.t. bound variables, not a variable) of some `match` inside the `MH` program
    let cand : Option Expr := (m.find? fun e =>
      if isMatcherAppCore env e then
        match e.getAppFn.constName? >>= fun n => (getMatcherInfoCore? env n) with
        | some info =>
          let as := e.getAppArgs
          (List.range info.numDiscrs).any fun i =>
            match as[info.numParams + 1 + i]? with
            | some d => !d.isFVar && !d.hasLooseBVars
            | none => false
        | none => false
      else false)
    let some e := cand | throwError "no match on a non-variable"
    let some info := e.getAppFn.constName? >>= fun n => (getMatcherInfoCore? env n) | throwError "no matcher info"
    let as := e.getAppArgs
    for i in List.range info.numDiscrs do
      match as[info.numParams + 1 + i]? with
      | some d =>
        if !d.isFVar && !d.hasLooseBVars then
          let (_, g') ← g.generalize #[{ expr := d }]
          replaceMainGoal [g']
          return
      | none => pure ()
    throwError "no discriminant"


macro "vsim_step" : tactic =>
  `(tactic| first
    | exact VSim.up _
    | exact VSim.pure _
    | exact VSim.throw _
    | apply_hyp
    | with_reducible apply VSim.bind
    | with_reducible apply VSim.ite
    | intro _
    | gen_discr_v
    | split)

macro "vsim" : tactic => `(tactic| repeat' vsim_step)

section driver
variable (hook : VHook) (pts : List PT)
include hook

theorem closeLoopH_vsim (blocks : List Block) (to : Int) (k : Nat) :
    VSim (closeLoopH true pts blocks to k) (closeLoopV pts blocks to k) := by
  have hk : ∀ bp node, VSim (bpCloseH true bp node) (bpCloseV bp node) := hook
  induction k with
  | zero => unfold closeLoopH closeLoopV; vsim
  | succ k ih => unfold closeLoopH closeLoopV; vsim

theorem closeBlocksH_vsim (frm to : Int) :
    VSim (closeBlocksH true pts frm to) (closeBlocksV pts frm to) := by
  have := closeLoopH_vsim hook pts
  unfold closeBlocksH closeBlocksV; vsim

theorem requireParaH_vsim (parent : Nat) (last : Option Nat) (lastBlock : Option Block) :
    VSim (requireParaH true pts parent last lastBlock) (requireParaV pts parent last lastBlock) := by
  have hk : ∀ bp node, VSim (bpCloseH true bp node) (bpCloseV bp node) := hook
  unfold requireParaH requireParaV; vsim

theorem tryParsersH_vsim (parent : Nat) (blankLine continuable : Bool) (w : Int) (bps : List BP)
    (result : OpenResult) (lastBlock : Option Block) :
    VSim (tryParsersH true pts parent blankLine continuable w bps result lastBlock)
      (tryParsersV pts parent blankLine continuable w bps result lastBlock) := by
  have := requireParaH_vsim hook pts
  have := closeBlocksH_vsim hook pts
  induction bps generalizing result lastBlock with
  | nil => unfold tryParsersH tryParsersV; vsim
  | cons bp bps ih => unfold tryParsersH tryParsersV; vsim

theorem retryStepH_vsim (blankLine tdone continuable : Bool) (parent : Nat) (w : Int) (bps : List BP)
    (result : OpenResult) (lastBlock : Option Block)
    (againH : Bool → Bool → Nat → OpenResult → Option Block → MH OpenResult)
    (againT : Bool → Bool → Nat → OpenResult → Option Block → M OpenResult)
    (ha : ∀ a b c d e, VSim (againH a b c d e) (againT a b c d e)) :
    VSim (retryStepH true pts blankLine tdone continuable parent w bps result lastBlock againH)
      (retryStepV pts blankLine tdone continuable parent w bps result lastBlock againT) := by
  have := tryParsersH_vsim hook pts
  unfold retryStepH retryStepV; vsim

theorem openBlocksLoopH_vsim (blankLine : Bool) (fuel : Nat) (tdone continuable : Bool) (parent : Nat)
    (result : OpenResult) (lastBlock : Option Block) :
    VSim (openBlocksLoopH true pts blankLine fuel tdone continuable parent result lastBlock)
      (openBlocksLoopV pts blankLine fuel tdone continuable parent result lastBlock) := by
  induction fuel generalizing tdone continuable parent result lastBlock with
  | zero => unfold openBlocksLoopH openBlocksLoopV; vsim
  | succ fuel ih =>
    have := retryStepH_vsim hook pts
    unfold openBlocksLoopH openBlocksLoopV; vsim

theorem openBlocksH_vsim (parent : Nat) (blankLine : Bool) :
    VSim (openBlocksH true pts parent blankLine) (openBlocksV pts parent blankLine) := by
  have := openBlocksLoopH_vsim hook pts
  unfold openBlocksH openBlocksV; vsim

theorem lineLoopH_vsim (parent : Nat) (openedBlocks : List Block) (lastIndex : Int) (rest : List Block) (i : Int)
    (blankLines : List LineStat) :
    VSim (lineLoopH true pts parent openedBlocks lastIndex rest i blankLines)
      (lineLoopV pts parent openedBlocks lastIndex rest i blankLines) := by
  have := closeBlocksH_vsim hook pts
  have := openBlocksH_vsim hook pts
  induction rest generalizing i blankLines with
  | nil => unfold lineLoopH lineLoopV; vsim
  | cons be rest ih => unfold lineLoopH lineLoopV; vsim

theorem linesLoopH_vsim (parent : Nat) (fuel : Nat) (blankLines : List LineStat) :
    VSim (linesLoopH true pts parent fuel blankLines) (linesLoopV pts parent fuel blankLines) := by
  have := lineLoopH_vsim hook pts
  induction fuel generalizing blankLines with
  | zero => unfold linesLoopH linesLoopV; vsim
  | succ fuel ih => unfold linesLoopH linesLoopV; vsim

theorem blocksLoopH_vsim (parent : Nat) (fuel : Nat) (blankLines : List LineStat) :
    VSim (blocksLoopH true pts parent fuel blankLines) (blocksLoopV pts parent fuel blankLines) := by
  have := openBlocksH_vsim hook pts
  have := linesLoopH_vsim hook pts
  induction fuel generalizing blankLines with
  | zero => unfold blocksLoopH blocksLoopV; vsim
  | succ fuel ih => unfold blocksLoopH blocksLoopV; vsim

theorem parseBlocksH_vsim (parent : Nat) :
    VSim (parseBlocksH true pts parent) (parseBlocksV pts parent) := by
  have := blocksLoopH_vsim hook pts
  unfold parseBlocksH parseBlocksV; vsim

end driver

end GM.ConvertH
