/-
  GM.Proof.CMFragParas — documents of paragraphs whose lines carry inline content beyond plain text (stages 8, 9): the
  composition of the phases given, per paragraph, what the inline phase makes of its lines.
-/
import GM.Proof.CMFragGen

namespace GM.Proof.CMFrag
open GM GM.Text GM.Blocks GM.Spec

/-- paragraphs with the number of EXTRA blank lines in front (the first: all blank lines in front) as stage-6 items -/
def paraItems (first : Bool) : List (Nat × List Bytes) → List (Nat × Raw5)
  | [] => []
  | (g, ls) :: rest => ((if first then g else g + 1), .old (.para ls)) :: paraItems false rest

/-- what the inline phase and `inlineTrees` make of the lines `ls` of a paragraph, wherever it lies: the nodes `ns` -/
def ParaDT (env : GM.Inl.Env) (ls : List Bytes) (ns : List GM.Node) : Prop :=
  ∃ kidsAt : Nat → List GM.Inl.Node,
    (∀ src p, LinesAtE src p ls → GM.Inl.parseBlock env src (paraSegs p ls) = .ok (kidsAt p)) ∧
    (∀ src p, LinesAtE src p ls → GM.Convert.inlineTrees src (kidsAt p) = .ok ns)

def ParasDT (env : GM.Inl.Env) : List (Nat × List Bytes) → List (List GM.Node) → Prop
  | it :: its, ns :: nss => ParaDT env it.2 ns ∧ ParasDT env its nss
  | [], [] => True
  | _, _ => False

theorem allBlk_paras (env : GM.Inl.Env) : ∀ (first : Bool) (its : List (Nat × List Bytes)) (nss : List (List GM.Node)),
    (∀ it ∈ its, it.2 ≠ [] ∧ ∀ l ∈ it.2, BlkLine l) → ParasDT env its nss →
    AllBlk (fun b n => BlockDT env b n ∧ BlockDTE env b n) (paraItems first its)
      (nss.map fun ns => .mk .paragraph none ns)
  | _, [], [], _, _ => trivial
  | _, [], _ :: _, _, h => h.elim
  | _, _ :: _, [], _, h => h.elim
  | first, (g, ls) :: its, ns :: nss, hb, h => by
    obtain ⟨⟨kidsAt, h1, h2⟩, hrest⟩ := h
    have hl := hb (g, ls) (by simp)
    have hne : ∀ l ∈ ls, l ≠ [] := fun l hl' => by
      obtain ⟨c, t, e, _⟩ := (hl.2 l hl').first
      rw [e]; simp
    exact ⟨blockDT_para env ls hl.1 hne kidsAt ns h1 h2,
      allBlk_paras env false its nss (fun it hit => hb it (by simp [hit])) hrest⟩

theorem allBlk_mono {P Q : Raw5 → GM.Node → Prop} (hpq : ∀ b n, P b n → Q b n) :
    ∀ (items : List (Nat × Raw5)) (ns : List GM.Node), AllBlk P items ns → AllBlk Q items ns
  | [], [], _ => trivial
  | [], _ :: _, h => h.elim
  | _ :: _, [], h => h.elim
  | _ :: items, _ :: ns, h => ⟨hpq _ _ h.1, allBlk_mono hpq items ns h.2⟩

theorem paraItems_good : ∀ (first : Bool) (its : List (Nat × List Bytes)),
    (∀ it ∈ its, it.2 ≠ [] ∧ ∀ l ∈ it.2, BlkLine l) → ∀ x ∈ paraItems first its, Good5 x.2
  | _, [], _, x, hx => by simp [paraItems] at hx
  | first, (g, ls) :: its, hb, x, hx => by
    simp only [paraItems, List.mem_cons] at hx
    rcases hx with rfl | hx
    · exact hb (g, ls) (by simp)
    · exact paraItems_good false its (fun it hit => hb it (by simp [hit])) x hx

theorem paraItems_lines : ∀ (first : Bool) (its : List (Nat × List Bytes)) (P : List Bytes → Prop),
    (∀ it ∈ its, P it.2) → ∀ x ∈ paraItems first its, P (lines5 x.2)
  | _, [], _, _, x, hx => by simp [paraItems] at hx
  | first, (g, ls) :: its, P, hb, x, hx => by
    simp only [paraItems, List.mem_cons] at hx
    rcases hx with rfl | hx
    · exact hb (g, ls) (by simp)
    · exact paraItems_lines false its P (fun it hit => hb it (by simp [hit])) x hx

theorem paraItems_seps : ∀ (its : List (Nat × List Bytes)) (ip : Bool), SepsOK6 (some ip) (paraItems false its)
  | [], _ => trivial
  | (g, ls) :: its, ip => ⟨fun h => by simp at h, paraItems_seps its _⟩

theorem paraItems_seps0 : ∀ (its : List (Nat × List Bytes)), SepsOK6 none (paraItems true its)
  | [] => trivial
  | (g, ls) :: its => paraItems_seps its _

theorem paraItems_noic : ∀ (first : Bool) (its : List (Nat × List Bytes)), ∀ x ∈ paraItems first its, isIcB x.2 = false
  | _, [], x, hx => by simp [paraItems] at hx
  | first, (g, ls) :: its, x, hx => by
    simp only [paraItems, List.mem_cons] at hx
    rcases hx with rfl | hx
    · rfl
    · exact paraItems_noic false its x hx

theorem paraItems_ne (first : Bool) (its : List (Nat × List Bytes)) (h : its ≠ []) : paraItems first its ≠ [] := by
  cases its with
  | nil => exact absurd rfl h
  | cons it rest => obtain ⟨g, ls⟩ := it; simp [paraItems]

theorem blkLine_noNl {l : Bytes} (h : BlkLine l) : ∀ c ∈ l, c ≠ 10 := h.noNl

/-- the model of `goldmark.Convert` on a document of paragraphs, given the inline content of every paragraph and the
    renderer's output on the resulting Document -/
theorem convert_paras_gen (uc : List (Nat × (Bool × Bool))) (its : List (Nat × List Bytes)) (trail : Nat)
    (nss : List (List GM.Node)) (html : Bytes)
    (hb : ∀ it ∈ its, it.2 ≠ [] ∧ ∀ l ∈ it.2, BlkLine l)
    (hin : ∀ env : GM.Inl.Env, env.escapedSpace = false → ParasDT env its nss)
    (hr : GM.Convert.renderDoc cmOpts (.mk .document none (nss.map fun ns => .mk .paragraph none ns)) = .ok html) :
    GM.Convert.convertCore uc cmOpts (rawDoc6 (paraItems true its) trail) = .ok html :=
  convert_raw_gen6 uc (paraItems true its) trail (paraItems_good true its hb) (paraItems_seps0 its)
    (icOK6_of_none _ false (paraItems_noic true its))
    (paraItems_lines true its (fun ls => ∀ l ∈ ls, ∀ c ∈ l, c ≠ 10) (fun it hit l hl => (hb it hit).2 l hl |>.noNl))
    _ html
    (fun env henv => allBlk_mono (fun _ _ h => h.1) _ _ (allBlk_paras env true its nss hb (hin env henv))) hr

/-- the same without the final line feed -/
theorem convert_paras_genE (uc : List (Nat × (Bool × Bool))) (its : List (Nat × List Bytes)) (hne : its ≠ [])
    (nss : List (List GM.Node)) (html : Bytes)
    (hb : ∀ it ∈ its, it.2 ≠ [] ∧ ∀ l ∈ it.2, BlkLine l)
    (hin : ∀ env : GM.Inl.Env, env.escapedSpace = false → ParasDT env its nss)
    (hr : GM.Convert.renderDoc cmOpts (.mk .document none (nss.map fun ns => .mk .paragraph none ns)) = .ok html) :
    GM.Convert.convertCore uc cmOpts (rawDoc6E (paraItems true its)) = .ok html :=
  convert_raw_gen7 uc (paraItems true its) (paraItems_ne true its hne) (paraItems_good true its hb) (paraItems_seps0 its)
    (icOK6_of_none _ false (paraItems_noic true its)) (lastNotIc_of_none _ (paraItems_noic true its))
    (paraItems_lines true its
      (fun ls => ls ≠ [] ∧ (∀ l, ls.getLast? = some l → l ≠ []) ∧ ∀ l ∈ ls, ∀ c ∈ l, c ≠ 10)
      (fun it hit => ⟨(hb it hit).1, fun l hl => by
          obtain ⟨c, t, e, _⟩ := ((hb it hit).2 l (List.mem_of_getLast? hl)).first
          rw [e]; simp,
        fun l hl => ((hb it hit).2 l hl).noNl⟩))
    _ html
    (fun env henv => allBlk_paras env true its nss hb (hin env henv)) hr

end GM.Proof.CMFrag
