/-
  GM.Proof.E2ERunEq — `runT [] = run`: the block driver WITH paragraph transformers (GM.Model.Blocks.DriverT) instantiated
  with the empty list of transformers IS the driver of GM.Model.Blocks.Driver, function by function (continues
  GM.Proof.BlocksTEq, which has `transformParagraph`, `closeLoopT`, `closeBlocksT`). The two differ by the dead
  `retryTransformed` branch and the `tdone` flag only.
-/
import GM.Proof.BlocksTEq

namespace GM.Blocks
open GM GM.Text

/-- the outcomes of `tryParsers` among those of `tryParsersT` -/
def liftO : TryOutcome → TryOutcomeT
  | .retry p => .retry p
  | .done => .done

theorem requireParaT_nil (parent : Nat) (last : Option Nat) (lastBlock : Option Block) (s : St) :
    requireParaT [] parent last lastBlock s =
      (do
        if last == (← getNode parent).children.getLast? then
          match lastBlock with
          | none => throw .nil
          | some lb =>
            bpClose lb.bp lb.node
            let blocks := (← getPc).opened
            if blocks.length == 0 then throw .slice
            modPc fun pc => { pc with opened := blocks.dropLast }
            if (← getNode lb.node).kind != .paragraph then throw .assert
        pure false : M Bool) s := by
  unfold requireParaT
  simp only [bind, StateT.bind, getNode, pure, Except.pure, Except.bind, transformParagraph_nil]
  split
  · cases lastBlock <;> rfl
  · rfl

theorem sb_congr {α β γ : Type} (F : β × St → γ × St) (m : M α) (k : α → M β) (k' : α → M γ) (s : St)
    (h : ∀ a s, k' a s = (k a s).map F) : StateT.bind m k' s = (StateT.bind m k s).map F := by
  simp only [StateT.bind, bind, Except.bind]
  cases m s with
  | error e => rfl
  | ok p => exact h p.1 p.2

macro "sbc" : tactic => `(tactic| (refine sb_congr _ _ _ _ _ (fun _ _ => ?_); try dsimp only))

theorem sb_pure {α β : Type} (a : α) (k : α → M β) (s : St) : StateT.bind (StateT.pure a) k s = k a s := rfl

macro "tprest" : tactic => `(tactic| (sbc; sbc; rfl))
macro "tptailS" : tactic => `(tactic|
  (sbc
   split <;>
   (sbc
    split
    · sbc; sbc; tprest
    · tprest)))
macro "tptailN" : tactic => `(tactic| (sbc; split <;> tprest))

theorem requirePara_step {γ γ' : Type} (F : γ × St → γ' × St) (parent : Nat) (last : Option Nat)
    (lastBlock : Option Block) (R : γ') (Kt : M γ') (K : M γ) (h : ∀ s, Kt s = (K s).map F) (s : St) :
    StateT.bind (requireParaT [] parent last lastBlock) (fun t => if t = true then StateT.pure R else Kt) s =
      ((do
        if last == (← getNode parent).children.getLast? then
          match lastBlock with
          | none => throw .nil
          | some lb =>
            bpClose lb.bp lb.node
            let blocks := (← getPc).opened
            if blocks.length == 0 then throw .slice
            modPc fun pc => { pc with opened := blocks.dropLast }
            if (← getNode lb.node).kind != .paragraph then throw .assert
        K : M γ) s).map F := by
  unfold requireParaT
  by_cases hc : (last == (s.nodes.getD parent default).children.getLast?) = true
  · simp only [bind, StateT.bind, getNode, pure, StateT.pure, Except.pure, Except.bind, hc, ↓reduceIte,
      transformParagraph_nil]
    cases lastBlock with
    | none => rfl
    | some lb =>
      simp only [bind, StateT.bind, Except.bind, getPc, modPc, get, getThe, MonadStateOf.get, StateT.get, pure,
        StateT.pure, Except.pure, modify, modifyGet, MonadStateOf.modifyGet, StateT.modifyGet, getNode]
      cases hb : bpClose lb.bp lb.node s with
      | error e => rfl
      | ok p =>
        dsimp only
        by_cases h0 : (p.snd.pc.opened.length == 0) = true
        · rw [if_pos h0, if_pos h0]; rfl
        · rw [if_neg h0, if_neg h0]
          simp only [StateT.bind, modPc, modify, modifyGet, MonadStateOf.modifyGet, StateT.modifyGet, getNode, pure,
            StateT.pure, Except.pure, bind, Except.bind]
          by_cases hk : ((p.snd.nodes.getD lb.node default).kind != Kind.paragraph) = true
          · rw [if_pos hk, if_pos hk]; rfl
          · rw [if_neg hk, if_neg hk]; exact h _
  · simp only [bind, StateT.bind, getNode, pure, StateT.pure, Except.pure, Except.bind, hc, ↓reduceIte]
    exact h _

theorem tryParsersT_nil (parent : Nat) (blankLine continuable : Bool) (w : Int) :
    ∀ (bps : List BP) (result : OpenResult) (lastBlock : Option Block) (s : St),
      tryParsersT [] parent blankLine continuable w bps result lastBlock s =
        (tryParsers parent blankLine continuable w bps result lastBlock s).map
          (fun x => ((liftO x.1.1, x.1.2), x.2))
  | [], result, lastBlock, s => by
    unfold tryParsersT tryParsers
    rfl
  | bp :: bps, result, lastBlock, s => by
    unfold tryParsersT tryParsers
    split
    · exact tryParsersT_nil parent blankLine continuable w bps result lastBlock s
    · split
      · exact tryParsersT_nil parent blankLine continuable w bps result lastBlock s
      · simp only [bind, StateT.bind, lastOpenedBlock, getPc, get, getThe, MonadStateOf.get, StateT.get, pure,
          StateT.pure, Except.pure, Except.bind, closeBlocksT_nil]
        cases hO : bpOpen bp parent s with
        | error e => rfl
        | ok p =>
          obtain ⟨⟨node, state⟩, s1⟩ := p
          dsimp only
          cases node with
          | none => exact tryParsersT_nil parent blankLine continuable w bps result _ s1
          | some node =>
            dsimp only
            generalize Option.map (fun x : Block => x.node) s.pc.opened.getLast? = last
            by_cases hr : state.requirePara = true
            · rw [if_pos hr, if_pos hr]
              refine requirePara_step _ _ _ _ _ _ _ (fun s' => ?_) _
              cases last with
              | none => tptailN
              | some l => tptailS
            · rw [if_neg hr, if_neg hr, sb_pure, if_neg Bool.false_ne_true]
              cases last with
              | none => tptailN
              | some l => tptailS

theorem sb_congr_id {α β : Type} (m : M α) (k k' : α → M β) (s : St) (h : ∀ a s, k' a s = k a s) :
    StateT.bind m k' s = StateT.bind m k s := by
  simp only [StateT.bind, bind, Except.bind]
  cases m s with
  | error e => rfl
  | ok p => exact h p.1 p.2

theorem sb_map_congr {α α' β : Type} (g : α → α') (mT : M α') (m : M α) (k' : α' → M β) (k : α → M β) (s : St)
    (hm : ∀ s, mT s = (m s).map (fun x => (g x.1, x.2))) (h : ∀ a s, k' (g a) s = k a s) :
    StateT.bind mT k' s = StateT.bind m k s := by
  simp only [StateT.bind, bind, Except.bind, hm]
  cases m s with
  | error e => rfl
  | ok p => exact h p.1 p.2

macro "sbi" : tactic => `(tactic| (refine sb_congr_id _ _ _ _ (fun _ _ => ?_); try dsimp only))

theorem openBlocksLoopT_nil (blankLine continuable : Bool) :
    ∀ (fuel : Nat) (tdone : Bool) (parent : Nat) (result : OpenResult) (lastBlock : Option Block) (s : St),
      openBlocksLoopT [] blankLine fuel tdone continuable parent result lastBlock s =
        openBlocksLoop blankLine continuable fuel parent result lastBlock s
  | 0, _, _, _, _, _ => by unfold openBlocksLoopT openBlocksLoop; rfl
  | fuel + 1, tdone, parent, result, lastBlock, s => by
    unfold openBlocksLoopT openBlocksLoop retryStepT
    simp only [bind, pure]
    sbi
    sbi
    sbi
    have step : ∀ (w : Int) (bps : List BP) (s0 : St),
        (StateT.bind get fun __do_lift =>
          StateT.bind (tryParsersT [] parent blankLine continuable w bps result lastBlock) fun __x =>
            match __x.fst with
            | TryOutcomeT.retry parent' =>
              StateT.bind get fun __do_lift_1 =>
                if (!decide (retryMeasure __do_lift_1 < retryMeasure __do_lift)) = true then
                  StateT.bind (throw Panic.pre : M PUnit) fun __r =>
                    openBlocksLoopT [] blankLine fuel tdone continuable parent' __x.2.fst __x.2.snd
                else openBlocksLoopT [] blankLine fuel tdone continuable parent' __x.2.fst __x.2.snd
            | TryOutcomeT.retryTransformed =>
              StateT.bind get fun __do_lift_1 =>
                if (tdone || !decide (retryMeasure __do_lift_1 ≤ retryMeasure __do_lift)) = true then
                  StateT.bind (throw Panic.pre : M PUnit) fun __r =>
                    openBlocksLoopT [] blankLine fuel true false parent __x.2.fst __x.2.snd
                else openBlocksLoopT [] blankLine fuel true false parent __x.2.fst __x.2.snd
            | TryOutcomeT.done => toContinuable continuable __x.2.fst __x.2.snd) s0 =
        (StateT.bind get fun __do_lift =>
          StateT.bind (tryParsers parent blankLine continuable w bps result lastBlock) fun __x =>
            match __x.fst with
            | TryOutcome.retry parent' =>
              StateT.bind get fun __do_lift_1 =>
                if (!decide (retryMeasure __do_lift_1 < retryMeasure __do_lift)) = true then
                  StateT.bind (throw Panic.pre : M PUnit) fun __r =>
                    openBlocksLoop blankLine continuable fuel parent' __x.2.fst __x.2.snd
                else openBlocksLoop blankLine continuable fuel parent' __x.2.fst __x.2.snd
            | TryOutcome.done => toContinuable continuable __x.2.fst __x.2.snd) s0 := by
      intro w bps s0
      sbi
      refine sb_map_congr (fun a => (liftO a.1, a.2)) _ _ _ _ _
        (fun s => tryParsersT_nil parent blankLine continuable w bps result lastBlock s) (fun a s => ?_)
      obtain ⟨o, r, lb⟩ := a
      cases o with
      | done => rfl
      | retry p' =>
        dsimp only [liftO]
        sbi
        split
        · rfl
        · exact openBlocksLoopT_nil blankLine continuable fuel tdone p' r lb _
    split
    · rfl
    · sbi
      split
      · rfl
      · split
        · sbi
          rw [sb_pure, sb_pure]
          exact step _ _ _
        · rw [sb_pure, sb_pure]
          exact step _ _ _

theorem openBlocksT_nil (parent : Nat) (blankLine : Bool) : openBlocksT [] parent blankLine = openBlocks parent blankLine := by
  unfold openBlocksT openBlocks
  have h : ∀ fuel td c p r lb, openBlocksLoopT [] blankLine fuel td c p r lb = openBlocksLoop blankLine c fuel p r lb :=
    fun fuel td c p r lb => funext (openBlocksLoopT_nil blankLine c fuel td p r lb)
  simp only [h]
  rfl

theorem lineLoopT_nil (parent : Nat) (openedBlocks : List Block) (lastIndex : Int) :
    ∀ (rest : List Block) (i : Int) (blankLines : List LineStat),
      lineLoopT [] parent openedBlocks lastIndex rest i blankLines = lineLoop parent openedBlocks lastIndex rest i blankLines
  | [], _, _ => by unfold lineLoopT lineLoop; rfl
  | be :: rest, i, blankLines => by
    unfold lineLoopT lineLoop
    have ih := lineLoopT_nil parent openedBlocks lastIndex rest
    simp only [openBlocksT_nil, closeBlocksT_nil, ih]
    rfl

theorem linesLoopT_nil (parent : Nat) : ∀ (fuel : Nat) (blankLines : List LineStat),
    linesLoopT [] parent fuel blankLines = linesLoop parent fuel blankLines
  | 0, _ => by unfold linesLoopT linesLoop; rfl
  | fuel + 1, blankLines => by
    unfold linesLoopT linesLoop
    have ih := linesLoopT_nil parent fuel
    simp only [lineLoopT_nil, ih]
    rfl

theorem blocksLoopT_nil (parent : Nat) : ∀ (fuel : Nat) (blankLines : List LineStat),
    blocksLoopT [] parent fuel blankLines = blocksLoop parent fuel blankLines
  | 0, _ => by unfold blocksLoopT blocksLoop; rfl
  | fuel + 1, blankLines => by
    unfold blocksLoopT blocksLoop
    have ih := blocksLoopT_nil parent fuel
    simp only [openBlocksT_nil, linesLoopT_nil, ih]

theorem parseBlocksT_nil (parent : Nat) : parseBlocksT [] parent = parseBlocks parent := by
  unfold parseBlocksT parseBlocks
  simp only [blocksLoopT_nil]

/-- **the driver with an empty list of paragraph transformers is the driver without transformers** -/
theorem runT_nil (src : Bytes) : runT [] src = run src := by
  unfold runT run
  rw [parseBlocksT_nil]

end GM.Blocks
