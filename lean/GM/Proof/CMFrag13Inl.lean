/-
  GM.Proof.CMFrag13Inl — stage 13: the inline phase on a paragraph of rich lines (text, code spans, emphasis) that lie at
  arbitrary positions of the source (`LinesAtG`) and may end in a backslash hard break: `u13InlG_holds`.
  The steps of CMFrag8Inl / CMFrag11Inl are redone for a line that `classify` may shorten.
-/
import GM.Proof.CMFrag13Quote
import GM.Proof.CMFrag11Inl
import GM.Proof.CMFrag9Inl

namespace GM.Proof.CMFrag
open GM GM.Text GM.Inl

/-! ### preliminaries -/

/-- a Text that starts at `q` is appended to the children, not merged into the last one -/
def NoMergeAt13 (ks : List Inl.Node) (q : Int) : Prop :=
  ∀ (b pd : Int), mergeOrAppend ks { start := q, stop := b, padding := pd } =
    ks ++ [textOf { start := q, stop := b, padding := pd }]

theorem noMergeAt_of8_13 {ks : List Inl.Node} (h : NoMerge8 ks) (q : Int) : NoMergeAt13 ks q :=
  fun _ _ => mergeOrAppend_nomerge8 ks _ h

theorem noMergeAt_text13 (ks : List Inl.Node) (sg : Segment) (s h r : Bool) (q : Int) (hq : sg.stop < q) :
    NoMergeAt13 (ks ++ [.text sg s h r]) q := by
  intro b pd
  have : (sg.stop == q) = false := by simp; omega
  simp [mergeOrAppend, this]

/-- the part of the rest `R` of a line that `classify` keeps still starts with whatever stands in front of `R` -/
def CutOK13 (R : Bytes) : Prop := ∀ x : Bytes, ∃ Y, (x ++ R).take (classify (x ++ R)).1 = x ++ Y

theorem cutOK_of_end13 {R : Bytes} (h : EndOK11 R) : CutOK13 R := by
  intro x
  exact ⟨R, by rw [h x, List.take_length]⟩

theorem cutOK_app13 (y R : Bytes) (h : CutOK13 R) : CutOK13 (y ++ R) := by
  intro x
  obtain ⟨Y, hY⟩ := h (x ++ y)
  exact ⟨y ++ Y, by simpa using hY⟩

theorem cutOK_bs13 (l0 : Bytes) (c : UInt8) (hb : c ≠ 92) : CutOK13 (l0 ++ [c] ++ [92, 10]) := by
  intro x
  refine ⟨l0 ++ [c], ?_⟩
  have e : x ++ (l0 ++ [c] ++ [92, 10]) = (x ++ l0) ++ [c] ++ [92] ++ [10] := by simp
  rw [e, classify_bs9 _ c hb]
  have e2 : x ++ l0 ++ [c] ++ [92] ++ [10] = (x ++ (l0 ++ [c])) ++ [92, 10] := by simp
  rw [e2]
  apply List.take_left'
  simp; omega

/-! ### the byte loop up to a code span / a run of `*`, whatever follows in the scanned part -/

theorem scan_codeX13 (env : Env) (henv : env.escapedSpace = false) (src : Bytes) (segs : List Segment) (L j hd : Int)
    (q : Nat) (bs cs rest : Bytes) (e : Int) (ks : List Inl.Node) (nid : Nat) (bts : List Bottom)
    (he : e = (q : Int) + bs.length + cs.length + 2 + rest.length)
    (hj : j < segs.length) (hlen : q + bs.length + cs.length + 2 + rest.length ≤ src.length) (hL : e ≤ L)
    (hsub : sub src q (q + (bs.length + cs.length + 2 + rest.length)) = bs ++ 96 :: (cs ++ 96 :: rest))
    (hbs : bs ≠ []) (hq : quiet bs 0 false = true) (hesc : escAfter bs false = false)
    (hcs : cs ≠ []) (hal : ∀ c ∈ cs, GM.Spec.CM.isAlnumC c = true) (hrest : rest ≠ [])
    (hr96 : rest.head? ≠ some 96) (X : Bytes) (hnm : NoMergeAt13 ks q) :
    scan env (bs ++ 96 :: X) 0
      { st := { rd := rdAt src segs L j { start := q, stop := e } hd, kids := ks, nextId := nid, bottoms := bts },
        n := 0, sp := { start := q, stop := e }, escaped := false } =
    .ok (.hit { rd := rdAt src segs L j { start := (q : Int) + bs.length + cs.length + 2, stop := e } hd,
                kids := ks ++ [.text { start := q, stop := (q : Int) + bs.length } false false false,
                  .codeSpan [.text { start := (q : Int) + bs.length + 1, stop := (q : Int) + bs.length + 1 + cs.length }
                    false false true]],
                nextId := nid, bottoms := bts } false) := by
  have hbl : 0 < bs.length := List.length_pos_iff.mpr hbs
  rw [scan_pre8 env henv bs _ 0 _ hq]
  simp only [hesc, Nat.zero_add, Int.zero_add]
  have hT : isTrigger env 96 bs.length false = true := by
    simp [isTrigger]; left; left; decide
  have hP : parserChar 96 bs.length = 96 := by
    have h1 : isSpace 96 = false := by decide
    have h2 : isPunct 96 = true := by decide
    simp [parserChar, h1, h2]
  have hF : parsersFor 96 = [.codeSpan] := by decide
  rw [scan]
  simp only [show ((96 : UInt8) == 10) = false by decide, Bool.false_eq_true, if_false, hT, hP, hF]
  simp only [List.isEmpty_cons, Bool.not_false, Bool.and_self, if_true]
  unfold trigger
  simp only [bind, Except.bind]
  rw [advance_fast _ _ _ _ _ _ _ _ (by omega)]
  have hne0 : (bs.length != 0) = true := by simp; omega
  have hsub2 : sub src (q + bs.length) (q + bs.length + (cs.length + 2 + rest.length)) = 96 :: (cs ++ 96 :: rest) := by
    have := sub_sub8 src q (bs.length + cs.length + 2 + rest.length) bs.length
      (bs.length + (cs.length + 2 + rest.length)) (by omega)
    rw [hsub] at this
    rw [show q + bs.length + (cs.length + 2 + rest.length) = q + (bs.length + (cs.length + 2 + rest.length)) by omega,
      this, List.drop_left]
    apply List.take_of_length_le
    simp; omega
  have hparse := parseCodeSpan_alnum8' src segs L j hd (q + bs.length) cs rest ((q : Int) + bs.length) e
    ((q : Int) + bs.length + cs.length + 2) (by omega) (by omega) (by omega) hj (by omega) hL hsub2 hcs hal hrest hr96
  simp only [hne0, if_true, BlockReader.position, Segment.between,
    Except.map, tryParsers, Ip.parse, liftR, bind, Except.bind]
  simp only [show (rdAt src segs L j { start := (q : Int) + bs.length, stop := e } hd).pos =
    { start := (q : Int) + bs.length, stop := e } from rfl, bne_self_eq_false, Bool.false_eq_true, if_false]
  simp only [hparse, pure, Except.pure]
  simp
  rw [hnm]
  simp [textOf]


theorem scan_starX13 (env : Env) (henv : env.escapedSpace = false) (src : Bytes) (segs : List Segment) (L j hd : Int)
    (q n : Nat) (bs tail : Bytes) (e : Int) (ks : List Inl.Node) (nid b : Nat) (bts : List Bottom)
    (hn : 1 ≤ n) (he : e = (q : Int) + bs.length + n + tail.length)
    (hj : j < segs.length) (hlen : q + bs.length + n + tail.length ≤ src.length) (hL : e ≤ L)
    (hsub : sub src q (q + (bs.length + n + tail.length)) = bs ++ (List.replicate n 42 ++ tail))
    (hbs : bs ≠ []) (hq : quiet bs 0 false = true) (hesc : escAfter bs false = false)
    (htail : tail ≠ []) (ht42 : tail.head? ≠ some 42) (X : Bytes) (hnm : NoMergeAt13 ks q)
    (hb : (rdAt src segs L j { start := (q : Int) + bs.length, stop := e } hd).precendingCharacter = .ok b) :
    scan env (bs ++ 42 :: X) 0
      { st := { rd := rdAt src segs L j { start := q, stop := e } hd, kids := ks, nextId := nid, bottoms := bts },
        n := 0, sp := { start := q, stop := e }, escaped := false } =
    .ok (.hit { rd := rdAt src segs L j { start := (q : Int) + bs.length + n, stop := e } hd,
                kids := ks ++ [.text { start := q, stop := (q : Int) + bs.length } false false false,
                  .delim nid { seg := { start := (q : Int) + bs.length, stop := (q : Int) + bs.length + n },
                               canOpen := left11 env b (toRune (List.replicate n 42 ++ tail) n),
                               canClose := right11 env b (toRune (List.replicate n 42 ++ tail) n),
                               length := (n : Nat), origLength := (n : Nat), char := 42 }],
                nextId := nid + 1, bottoms := bts } false) := by
  have hbl : 0 < bs.length := List.length_pos_iff.mpr hbs
  have htl : 0 < tail.length := List.length_pos_iff.mpr htail
  obtain ⟨m, rfl⟩ : ∃ m, n = m + 1 := ⟨n - 1, by omega⟩
  rw [scan_pre8 env henv bs _ 0 _ hq]
  simp only [hesc, Nat.zero_add, Int.zero_add]
  have hT : isTrigger env 42 bs.length false = true := by
    simp [isTrigger]; left; left; decide
  have hP : parserChar 42 bs.length = 42 := by
    have h1 : isSpace 42 = false := by decide
    have h2 : isPunct 42 = true := by decide
    simp [parserChar, h1, h2]
  have hF : parsersFor 42 = [.emphasis] := by decide
  have hline : List.replicate (m + 1) (42 : UInt8) ++ tail = 42 :: (List.replicate m 42 ++ tail) := by
    simp [List.replicate_succ]
  rw [scan]
  simp only [show ((42 : UInt8) == 10) = false by decide, Bool.false_eq_true, if_false, hT, hP, hF]
  simp only [List.isEmpty_cons, Bool.not_false, Bool.and_self, if_true]
  unfold trigger
  simp only [bind, Except.bind]
  rw [advance_fast _ _ _ _ _ _ _ _ (by omega)]
  have hne0 : (bs.length != 0) = true := by simp; omega
  have hsub2 : sub src (q + bs.length) (q + bs.length + (m + 1 + tail.length)) =
      List.replicate (m + 1) 42 ++ tail := by
    have := sub_sub8 src q (bs.length + (m + 1) + tail.length) bs.length
      (bs.length + (m + 1 + tail.length)) (by omega)
    rw [hsub] at this
    rw [show q + bs.length + (m + 1 + tail.length) = q + (bs.length + (m + 1 + tail.length)) by omega,
      this, List.drop_left]
    apply List.take_of_length_le
    simp <;> omega
  have hparse := parseEmphasis_run11 env src segs L j hd (q + bs.length) (m + 1) tail e nid b hn
    (by push_cast; omega) hj (by omega) hL hsub2 htail ht42 (by rw [Int.natCast_add]; exact hb)
  rw [Int.natCast_add] at hparse
  simp only [hne0, if_true, BlockReader.position, Segment.between,
    Except.map, tryParsers, Ip.parse, liftR, bind, Except.bind]
  simp only [show (rdAt src segs L j { start := (q : Int) + bs.length, stop := e } hd).pos =
    { start := (q : Int) + bs.length, stop := e } from rfl, bne_self_eq_false, Bool.false_eq_true, if_false]
  simp only [hparse, pure, Except.pure]
  simp
  rw [hnm]
  simp [textOf]

/-! ### one pass of the line loop -/

theorem code_stepX13 (env : Env) (henv : env.escapedSpace = false) (src : Bytes) (segs : List Segment) (L j hd : Int)
    (q : Nat) (bs cs rest : Bytes) (e : Int) (ks : List Inl.Node) (nid : Nat) (bts : List Bottom) (fuel : Nat)
    (he : e = (q : Int) + bs.length + cs.length + 2 + rest.length)
    (hj : j < segs.length) (hlen : q + bs.length + cs.length + 2 + rest.length ≤ src.length) (hL : e ≤ L)
    (hsub : sub src q (q + (bs.length + cs.length + 2 + rest.length)) = bs ++ 96 :: (cs ++ 96 :: rest))
    (hend : CutOK13 rest)
    (hbs : bs ≠ []) (hq : quiet bs 0 false = true) (hesc : escAfter bs false = false)
    (hcs : cs ≠ []) (hal : ∀ c ∈ cs, GM.Spec.CM.isAlnumC c = true) (hrest : rest ≠ [])
    (hr96 : rest.head? ≠ some 96) (hnm : NoMergeAt13 ks q) :
    lineLoop env (fuel + 1) false
      { rd := rdAt src segs L j { start := q, stop := e } hd, kids := ks, nextId := nid, bottoms := bts } =
    lineLoop env fuel false
      { rd := rdAt src segs L j { start := (q : Int) + bs.length + cs.length + 2, stop := e } hd,
        kids := ks ++ [.text { start := q, stop := (q : Int) + bs.length } false false false,
          .codeSpan [.text { start := (q : Int) + bs.length + 1, stop := (q : Int) + bs.length + 1 + cs.length }
            false false true]],
        nextId := nid, bottoms := bts } := by
  have hbl : 0 < bs.length := List.length_pos_iff.mpr hbs
  have hp := peekLine_at8 src segs L j q e hd hj (by omega) (by omega) (by omega) (by omega)
  have t1 : ((q : Int)).toNat = q := by omega
  have t2 : e.toNat = q + (bs.length + cs.length + 2 + rest.length) := by omega
  rw [t1, t2, hsub] at hp
  refine lineLoop_hit8 env fuel false false _ _ _ _ hp ?_ ?_
  · cases bs with
    | nil => exact absurd rfl hbs
    | cons _ _ => rfl
  · obtain ⟨Y, hY⟩ := hend (bs ++ 96 :: (cs ++ [96]))
    rw [show bs ++ 96 :: (cs ++ [96]) ++ rest = bs ++ 96 :: (cs ++ 96 :: rest) by simp] at hY
    rw [hY, show bs ++ 96 :: (cs ++ [96]) ++ Y = bs ++ 96 :: (cs ++ 96 :: Y) by simp]
    exact scan_codeX13 env henv src segs L j hd q bs cs rest e ks nid bts he hj hlen hL hsub hbs hq hesc hcs hal hrest
      hr96 _ hnm

theorem star_stepX13 (env : Env) (henv : env.escapedSpace = false) (src : Bytes) (segs : List Segment) (L j hd : Int)
    (q n : Nat) (bs tail : Bytes) (e : Int) (ks : List Inl.Node) (nid b : Nat) (bts : List Bottom) (fuel : Nat)
    (hn : 1 ≤ n) (he : e = (q : Int) + bs.length + n + tail.length)
    (hj : j < segs.length) (hlen : q + bs.length + n + tail.length ≤ src.length) (hL : e ≤ L)
    (hsub : sub src q (q + (bs.length + n + tail.length)) = bs ++ (List.replicate n 42 ++ tail))
    (hend : CutOK13 tail)
    (hbs : bs ≠ []) (hq : quiet bs 0 false = true) (hesc : escAfter bs false = false)
    (htail : tail ≠ []) (ht42 : tail.head? ≠ some 42) (hnm : NoMergeAt13 ks q)
    (hb : (rdAt src segs L j { start := (q : Int) + bs.length, stop := e } hd).precendingCharacter = .ok b) :
    lineLoop env (fuel + 1) false
      { rd := rdAt src segs L j { start := q, stop := e } hd, kids := ks, nextId := nid, bottoms := bts } =
    lineLoop env fuel false
      { rd := rdAt src segs L j { start := (q : Int) + bs.length + n, stop := e } hd,
        kids := ks ++ [.text { start := q, stop := (q : Int) + bs.length } false false false,
          .delim nid { seg := { start := (q : Int) + bs.length, stop := (q : Int) + bs.length + n },
                       canOpen := left11 env b (toRune (List.replicate n 42 ++ tail) n),
                       canClose := right11 env b (toRune (List.replicate n 42 ++ tail) n),
                       length := (n : Nat), origLength := (n : Nat), char := 42 }],
        nextId := nid + 1, bottoms := bts } := by
  have hbl : 0 < bs.length := List.length_pos_iff.mpr hbs
  have hp := peekLine_at8 src segs L j q e hd hj (by omega) (by omega) (by omega) (by omega)
  have t1 : ((q : Int)).toNat = q := by omega
  have t2 : e.toNat = q + (bs.length + n + tail.length) := by omega
  rw [t1, t2, hsub] at hp
  refine lineLoop_hit8 env fuel false false _ _ _ _ hp ?_ ?_
  · cases bs with
    | nil => exact absurd rfl hbs
    | cons _ _ => rfl
  · obtain ⟨m, hm⟩ : ∃ m, n = m + 1 := ⟨n - 1, by omega⟩
    obtain ⟨Y, hY⟩ := cutOK_app13 (List.replicate m 42) tail hend (bs ++ [42])
    have e1 : bs ++ [42] ++ (List.replicate m 42 ++ tail) = bs ++ (List.replicate n 42 ++ tail) := by
      rw [hm]; simp [List.replicate_succ]
    rw [e1] at hY
    rw [hY, show bs ++ [42] ++ Y = bs ++ 42 :: Y by simp]
    exact scan_starX13 env henv src segs L j hd q n bs tail e ks nid b bts hn he hj hlen hL hsub hbs hq hesc htail ht42
      _ hnm hb

/-! ### the last text atom of a hard line (`hard_step9` with the reader inside the line) -/

theorem endOfLine_hard13 (src : Bytes) (segs : List Segment) (L hd : Int)
    (j p m : Nat) (l l0 : Bytes) (c : UInt8) (seg' : Segment) (ks : List Inl.Node) (nid : Nat) (bs : List Bottom)
    (e : Bool) (hl : l = l0 ++ [c]) (hm : m = l.length + 1)
    (hnext : segs[j + 1]? = some seg') :
    endOfLine 5 j
      { st := { rd := rdAt src segs L j { start := p, stop := (p : Int) + m + 1 } hd, kids := ks,
                nextId := nid, bottoms := bs },
        n := l.length, sp := { start := p, stop := (p : Int) + m + 1 }, escaped := e } =
    .ok { rd := rdAt src segs L (j + 1) seg' seg'.start,
          kids := ks ++ [.text { start := p, stop := (p : Int) + l.length } false true false], nextId := nid,
          bottoms := bs } := by
  have hlen0 : l.length ≠ 0 := by subst hl; simp
  have hj : j + 1 < segs.length := (List.getElem?_eq_some_iff.mp hnext).1
  have hn : (((l.length : Nat) : Int) != 0) = true := by simp; intro h; simp [h] at hlen0
  unfold endOfLine
  simp only [hn, if_true, bind, Except.bind]
  rw [advance_fast _ _ _ _ _ _ _ _ (by omega)]
  simp only [BlockReader.position, rdAt, bne_self_eq_false, Bool.false_eq_true, if_false, Segment.between]
  simp only [Int.sub_self, pure, Except.pure]
  have het : ∀ d, eolText src 5 d ks = .ok (d, ks) := by
    intro d
    unfold eolText
    simp [pure, Except.pure]
  rw [het]
  have ha := advanceLine_next src segs L j { start := (p : Int) + l.length, stop := (p : Int) + m + 1 }
    seg' hd hnext
  simp only [rdAt] at ha
  simp only [ha]
  rfl

theorem hard_step13 (env : Env) (henv : env.escapedSpace = false) (src : Bytes) (segs : List Segment) (L hd : Int)
    (j p m : Nat) (l l0 : Bytes) (c : UInt8) (seg' : Segment) (ks : List Inl.Node) (nid : Nat) (bs : List Bottom)
    (fuel : Nat) (hl : l = l0 ++ [c]) (hb : c ≠ 92) (hq : quiet l 0 false = true) (hm : m = l.length + 1)
    (hsub : sub src p (p + m + 1) = l ++ [92] ++ [10]) (hlen : p + m + 1 ≤ src.length)
    (hL : (p : Int) < L) (hnext : segs[j + 1]? = some seg') :
    lineLoop env (fuel + 1) false
      { rd := rdAt src segs L j { start := p, stop := (p : Int) + m + 1 } hd, kids := ks, nextId := nid,
        bottoms := bs } =
    lineLoop env fuel false
      { rd := rdAt src segs L (j + 1) seg' seg'.start,
        kids := ks ++ [.text { start := p, stop := (p : Int) + l.length } false true false], nextId := nid,
        bottoms := bs } := by
  have hv : sliceB src (p : Int) ((p : Int) + m + 1) = .ok (l ++ [92] ++ [10]) := by
    have := sliceB_nat src p (m + 1) (by omega)
    rw [show p + (m + 1) = p + m + 1 by omega, hsub] at this
    rw [← this]; congr 1
  have hlive : (rdAt src segs L j { start := p, stop := (p : Int) + m + 1 } hd).live = true := by
    have : j < segs.length := by
      have := (List.getElem?_eq_some_iff.mp hnext).1; omega
    simp [BlockReader.live, rdAt, this, hL]
  have hcl : classify (l ++ [92] ++ [10]) = (l.length, 5) := by
    rw [hl, classify_bs9 l0 c hb]; simp
  have hsc := scan_quiet env henv l [] 0
    { st := { rd := rdAt src segs L j { start := p, stop := (p : Int) + m + 1 } hd, kids := ks, nextId := nid, bottoms := bs },
      n := 0, sp := { start := p, stop := (p : Int) + m + 1 }, escaped := false } hq (Or.inl rfl)
  rw [escAfter_good l l0 c hl hb] at hsc
  simp only [Int.zero_add, List.append_nil] at hsc
  have heol := endOfLine_hard13 src segs L hd j p m l l0 c seg' ks nid bs false hl hm hnext
  refine lineLoop_eol env fuel false _ _ (l ++ [92] ++ [10]) { start := p, stop := (p : Int) + m + 1 }
    { st := { rd := rdAt src segs L j { start := p, stop := (p : Int) + m + 1 } hd, kids := ks, nextId := nid, bottoms := bs },
      n := l.length, sp := { start := p, stop := (p : Int) + m + 1 }, escaped := false } ?_ ?_ ?_ ?_ rfl
  · simp only [BlockReader.peekLine, hlive, if_true, bind, Except.bind, pure, Except.pure]
    simp only [rdAt, value_plain, hv]
  · simp
  · rw [hcl]
    have : List.take l.length (l ++ [92] ++ [10]) = l := by
      rw [List.append_assoc]; exact List.take_left' rfl
    simp only [this]
    exact hsc
  · rw [hcl]
    exact heol


/-! ### text, opening run, content, closing run -/

theorem em_stepX13 (env : Env) (henv : env.escapedSpace = false) (src : Bytes) (segs : List Segment) (L : Int) (j : Nat)
    (hd : Int) (s0 : Segment) (h0 : segs[0]? = some s0) (hs0 : (j : Int) = 0 → s0.start ≤ hd)
    (q : Nat) (two : Bool) (bs cs rest : Bytes) (e : Int) (ks : List Inl.Node) (nid : Nat) (bts : List Bottom)
    (fuel : Nat)
    (he : e = (q : Int) + bs.length + elen11 two + cs.length + elen11 two + rest.length)
    (hj : (j : Int) < segs.length)
    (hlen : q + bs.length + elen11 two + cs.length + elen11 two + rest.length ≤ src.length) (hL : e ≤ L)
    (hq0 : hd ≤ q)
    (hsub : sub src q (q + (bs.length + elen11 two + cs.length + elen11 two + rest.length)) =
      bs ++ (List.replicate (elen11 two) 42 ++ (cs ++ (List.replicate (elen11 two) 42 ++ rest))))
    (hend : CutOK13 rest)
    (hbs : bs ≠ []) (hq : quiet bs 0 false = true) (hesc : escAfter bs false = false)
    (hcs : cs ≠ []) (hal : ∀ c ∈ cs, GM.Spec.CM.isAlnumC c = true) (hrest : rest ≠ [])
    (hr42 : rest.head? ≠ some 42) (hnm : NoMergeAt13 ks q) :
    ∃ oc cc, lineLoop env (fuel + 2) false
      { rd := rdAt src segs L j { start := q, stop := e } hd, kids := ks, nextId := nid, bottoms := bts } =
    lineLoop env fuel false
      { rd := rdAt src segs L j { start := (q : Int) + bs.length + elen11 two + cs.length + elen11 two, stop := e } hd,
        kids := ks ++ ([.text { start := q, stop := (q : Int) + bs.length } false false false] ++
          RItem11.raw (.emph nid (nid + 1)
            { start := (q : Int) + bs.length, stop := (q : Int) + bs.length + elen11 two }
            { start := (q : Int) + bs.length + elen11 two + cs.length,
              stop := (q : Int) + bs.length + elen11 two + cs.length + elen11 two }
            { start := (q : Int) + bs.length + elen11 two, stop := (q : Int) + bs.length + elen11 two + cs.length }
            two oc cc)),
        nextId := nid + 2, bottoms := bts } := by
  have hn : 1 ≤ elen11 two := by cases two <;> simp [elen11]
  have hcl : 0 < cs.length := List.length_pos_iff.mpr hcs
  have hrl : 0 < rest.length := List.length_pos_iff.mpr hrest
  obtain ⟨c0, cs', hcs0⟩ : ∃ c0 cs', cs = c0 :: cs' := by
    cases cs with
    | nil => exact absurd rfl hcs
    | cons c0 cs' => exact ⟨c0, cs', rfl⟩
  have hc0 : GM.Spec.CM.isAlnumC c0 = true := hal c0 (by simp [hcs0])
  obtain ⟨⟨hqc, hescc⟩⟩ : Nonempty (quiet cs 0 false = true ∧ escAfter cs false = false) := ⟨alnum_quiet11 cs 0 hal⟩
  -- first pass
  obtain ⟨b1, hb1⟩ := prec_total11 src segs L j hd ((q : Int) + bs.length) e s0 h0
  have hlen1 : (cs ++ (List.replicate (elen11 two) 42 ++ rest)).length = cs.length + elen11 two + rest.length := by
    simp; omega
  have step1 := star_stepX13 env henv src segs L j hd q (elen11 two) bs (cs ++ (List.replicate (elen11 two) 42 ++ rest))
    e ks nid b1 bts (fuel + 1) hn (by rw [hlen1]; push_cast; omega) hj (by rw [hlen1]; omega) hL
    (by rw [hlen1, show q + (bs.length + elen11 two + (cs.length + elen11 two + rest.length)) =
      q + (bs.length + elen11 two + cs.length + elen11 two + rest.length) by omega]; exact hsub)
    (cutOK_app13 _ _ (cutOK_app13 _ _ hend)) hbs hq hesc (by simp [hcs])
    (by rw [hcs0]; simp; intro h; have := (alnum_facts11 c0 hc0).2.2.2.2.1; simp [h] at this) hnm hb1
  have hopen : left11 env b1 (toRune (List.replicate (elen11 two) 42 ++ (cs ++ (List.replicate (elen11 two) 42 ++ rest)))
      (elen11 two)) = true := by
    rw [toRune_alnum11 _ (elen11 two) c0 (cs' ++ (List.replicate (elen11 two) 42 ++ rest))
      (by rw [List.drop_left' (by simp), hcs0]; rfl) hc0]
    simp [left11, (rune_alnum11 env c0 hc0).1, (rune_alnum11 env c0 hc0).2]
  -- second pass
  obtain ⟨c1, hc1⟩ : ∃ c, cs[cs.length - 1]? = some c := ⟨cs[cs.length - 1], by rw [List.getElem?_eq_getElem]⟩
  have hc1a : GM.Spec.CM.isAlnumC c1 = true := hal c1 (List.mem_of_getElem? hc1)
  have hsubc : sub src (q + bs.length + elen11 two) (q + bs.length + elen11 two + cs.length) = cs := by
    have := sub_mid8 src q (bs ++ List.replicate (elen11 two) 42) cs (List.replicate (elen11 two) 42 ++ rest)
      (by
        have e1 : (bs ++ List.replicate (elen11 two) 42 ++ cs ++ (List.replicate (elen11 two) 42 ++ rest)).length =
          bs.length + elen11 two + cs.length + elen11 two + rest.length := by simp; omega
        rw [e1, hsub]; simp)
    simpa [Nat.add_assoc] using this
  have hk : src[q + bs.length + elen11 two + (cs.length - 1)]? = some c1 := by
    rw [sub_get8 src (q + bs.length + elen11 two) cs.length (cs.length - 1) (by omega), hsubc, hc1]
  have hb2 := prec_alnum11 src segs L j hd e (q + bs.length + elen11 two + (cs.length - 1)) c1 s0 h0
    (by intro hj0; have := hs0 hj0; omega) hk hc1a
  have e2 : ((q + bs.length + elen11 two + (cs.length - 1) : Nat) : Int) + 1 =
      ((q + bs.length + elen11 two : Nat) : Int) + cs.length := by push_cast; omega
  rw [e2] at hb2
  have step2 := star_stepX13 env henv src segs L j hd (q + bs.length + elen11 two) (elen11 two) cs rest e
    (ks ++ [.text { start := q, stop := (q : Int) + bs.length } false false false,
          .delim nid { seg := { start := (q : Int) + bs.length, stop := (q : Int) + bs.length + elen11 two },
                       canOpen := left11 env b1 (toRune (List.replicate (elen11 two) 42 ++
                         (cs ++ (List.replicate (elen11 two) 42 ++ rest))) (elen11 two)),
                       canClose := right11 env b1 (toRune (List.replicate (elen11 two) 42 ++
                         (cs ++ (List.replicate (elen11 two) 42 ++ rest))) (elen11 two)),
                       length := (elen11 two : Nat), origLength := (elen11 two : Nat), char := 42 }])
    (nid + 1) c1.toNat bts fuel hn (by push_cast; omega) hj (by omega) hL
    (by
      have := sub_sub8 src q (bs.length + elen11 two + cs.length + elen11 two + rest.length) (bs.length + elen11 two)
        (bs.length + elen11 two + cs.length + elen11 two + rest.length) (Nat.le_refl _)
      rw [hsub] at this
      rw [show q + bs.length + elen11 two + (cs.length + elen11 two + rest.length) =
        q + (bs.length + elen11 two + cs.length + elen11 two + rest.length) by omega,
        show q + bs.length + elen11 two = q + (bs.length + elen11 two) by omega, this]
      rw [← List.append_assoc bs, List.drop_left' (by simp)]
      apply List.take_of_length_le
      simp <;> omega)
    hend hcs hqc hescc hrest hr42
    (by rw [show ∀ (a b : Inl.Node), ks ++ [a, b] = (ks ++ [a]) ++ [b] by simp]
        exact noMergeAt_of8_13 (noMerge_delim11 _ _ _) _)
    hb2
  have hclose : right11 env c1.toNat (toRune (List.replicate (elen11 two) 42 ++ rest) (elen11 two)) = true := by
    simp [right11, (rune_alnum11 env c1 hc1a).1, (rune_alnum11 env c1 hc1a).2]
  have e3 : ((q + bs.length + elen11 two : Nat) : Int) = (q : Int) + bs.length + elen11 two := by push_cast; rfl
  rw [e3] at step2
  rw [hopen] at step1 step2
  rw [hclose] at step2
  refine ⟨right11 env b1 (toRune (List.replicate (elen11 two) 42 ++
      (cs ++ (List.replicate (elen11 two) 42 ++ rest))) (elen11 two)),
    left11 env c1.toNat (toRune (List.replicate (elen11 two) 42 ++ rest) (elen11 two)), ?_⟩
  rw [show fuel + 2 = fuel + 1 + 1 from rfl, step1, step2]
  simp [RItem11.raw, mkDelim11]

/-! ### the children of one line -/

/-- as `atomKids11`; `soft` / `hard` are the flags of the line's last Text -/
def atomKids13 (soft hard : Bool) : Int → List EAtom → List Inl.Node
  | _, [] => []
  | q, [.txt bs] => [.text { start := q, stop := q + bs.length } soft hard false]
  | q, .txt bs :: rest => .text { start := q, stop := q + bs.length } false false false :: atomKids13 soft hard (q + bs.length) rest
  | q, .code cs :: rest =>
    .codeSpan [.text { start := q + 1, stop := q + 1 + cs.length } false false true] :: atomKids13 soft hard (q + cs.length + 2) rest
  | q, .em cs :: rest =>
    .emphasis 1 [.text { start := q + 1, stop := q + 1 + cs.length } false false false] ::
      atomKids13 soft hard (q + 1 + cs.length + 1) rest
  | q, .strong cs :: rest =>
    .emphasis 2 [.text { start := q + 2, stop := q + 2 + cs.length } false false false] ::
      atomKids13 soft hard (q + 2 + cs.length + 2) rest

theorem atomKids_code13 (soft hard : Bool) (q : Int) (bs cs : Bytes) (rest : List EAtom) :
    atomKids13 soft hard q (.txt bs :: .code cs :: rest) =
      [.text { start := q, stop := q + bs.length } false false false,
        .codeSpan [.text { start := q + bs.length + 1, stop := q + bs.length + 1 + cs.length } false false true]] ++
      atomKids13 soft hard (q + bs.length + cs.length + 2) rest := by
  simp [atomKids13]

theorem atomKids_emph13 (soft hard : Bool) (q : Int) (two : Bool) (bs cs : Bytes) (rest : List EAtom) (n : Int)
    (hn : n = ((elen11 two : Nat) : Int)) :
    atomKids13 soft hard q (.txt bs :: emAtom11 two cs :: rest) =
      [Inl.Node.text ⟨q, q + bs.length, 0, false⟩ false false false,
        Inl.Node.emphasis n [Inl.Node.text ⟨q + bs.length + n, q + bs.length + n + cs.length, 0, false⟩ false false false]] ++
      atomKids13 soft hard (q + bs.length + n + cs.length + n) rest := by
  subst hn
  cases two <;> simp [atomKids13, emAtom11, elen11]

/-! ### one line, up to its last text atom; the last step is a parameter -/

theorem atomsX13 (env : Env) (henv : env.escapedSpace = false) (src : Bytes) (segs : List Segment) (L : Int) (j : Nat)
    (hd : Int) (s0 : Segment) (h0 : segs[0]? = some s0) (hs0 : (j : Int) = 0 → s0.start ≤ hd)
    (hj : (j : Int) < segs.length) (bts : List Bottom) (tl : Bytes) (e : Int) (hL : e ≤ L) (soft hard : Bool) (F : Nat)
    (K : List Inl.Node → Nat → Except Panic St)
    (hendtl : ∀ l0 c, isSpace c = false → c ≠ 92 → CutOK13 (l0 ++ [c] ++ tl))
    (hfin : ∀ (q : Nat) (bs l0 : Bytes) (c : UInt8) (ks : List Inl.Node) (nid : Nat), bs = l0 ++ [c] →
      isSpace c = false → c ≠ 92 → quiet bs 0 false = true → e = (q : Int) + bs.length + tl.length →
      sub src q (q + (bs.length + tl.length)) = bs ++ tl → q + bs.length + tl.length ≤ src.length →
      lineLoop env F false
        { rd := rdAt src segs L j { start := q, stop := e } hd, kids := ks, nextId := nid, bottoms := bts } =
      K (ks ++ [.text { start := q, stop := (q : Int) + bs.length } soft hard false]) nid) :
    ∀ (as : List EAtom), ET11 as → ∀ (q : Nat) (ks : List Inl.Node) (nid : Nat),
      e = (q : Int) + (elineSrc as).length + tl.length → NoMergeAt13 ks q →
      sub src q (q + ((elineSrc as).length + tl.length)) = elineSrc as ++ tl →
      q + (elineSrc as).length + tl.length ≤ src.length → hd ≤ q →
      ∃ its sg, sg.stop + tl.length = e ∧ fin11 its ++ [.text sg soft hard false] = atomKids13 soft hard q as ∧
        lineLoop env (F + pre11 as) false
          { rd := rdAt src segs L j { start := q, stop := e } hd, kids := ks, nextId := nid, bottoms := bts } =
        K (ks ++ (raw11 its ++ [.text sg soft hard false])) (nid + ids11 as) := by
  intro as h
  induction h with
  | last bs l0 c hl hs hb hq =>
    intro q ks nid he hnm hsub hlen hq0
    rw [elineSrc_single11] at he hsub hlen
    refine ⟨[], { start := q, stop := (q : Int) + bs.length }, by simp only []; omega, by simp [fin11, atomKids13], ?_⟩
    have := hfin q bs l0 c ks nid hl hs hb hq he hsub hlen
    simpa [pre11, ids11, raw11] using this
  | code bs cs rest hbs hq hesc hcs hal hrt ih =>
    intro q ks nid he hnm hsub hlen hq0
    obtain ⟨hrne, hr96, _⟩ := et_head11 hrt
    obtain ⟨l0, c, hl0, hs, hb⟩ := et_concat11 hrt
    rw [elineSrc_code11] at he hsub hlen
    have hlenE : (bs ++ 96 :: (cs ++ 96 :: elineSrc rest)).length =
        bs.length + cs.length + 2 + (elineSrc rest).length := by simp; omega
    rw [hlenE] at he hsub hlen
    have hR : (elineSrc rest ++ tl).length = (elineSrc rest).length + tl.length := by simp
    have hend : CutOK13 (elineSrc rest ++ tl) := by rw [hl0]; exact hendtl l0 c hs hb
    have hstep := code_stepX13 env henv src segs L j hd q bs cs (elineSrc rest ++ tl) e ks nid bts (F + pre11 rest)
      (by rw [hR]; push_cast; omega) hj (by rw [hR]; omega) hL
      (by rw [hR, show q + (bs.length + cs.length + 2 + ((elineSrc rest).length + tl.length)) =
            q + (bs.length + cs.length + 2 + (elineSrc rest).length + tl.length) by omega, hsub]; simp)
      hend hbs hq hesc hcs hal (by simp [hrne])
      (by cases hx : elineSrc rest with
          | nil => exact absurd hx hrne
          | cons x xs => rw [hx] at hr96; simpa using hr96) hnm
    have hq' : ((q + bs.length + cs.length + 2 : Nat) : Int) = (q : Int) + bs.length + cs.length + 2 := by
      push_cast; rfl
    obtain ⟨its, sg, hsg, hfin', hih⟩ := ih (q + bs.length + cs.length + 2)
      (ks ++ [.text { start := q, stop := (q : Int) + bs.length } false false false,
          .codeSpan [.text { start := (q : Int) + bs.length + 1, stop := (q : Int) + bs.length + 1 + cs.length }
            false false true]]) nid (by omega)
      (by rw [show ∀ (a b : Inl.Node), ks ++ [a, b] = (ks ++ [a]) ++ [b] by simp]; exact noMergeAt_of8_13 (noMerge_code8 _ _) _)
      (by
        have := sub_sub8 src q (bs.length + cs.length + 2 + (elineSrc rest).length + tl.length)
          (bs.length + cs.length + 2) (bs.length + cs.length + 2 + (elineSrc rest).length + tl.length) (Nat.le_refl _)
        rw [hsub] at this
        rw [show q + bs.length + cs.length + 2 + ((elineSrc rest).length + tl.length) =
          q + (bs.length + cs.length + 2 + (elineSrc rest).length + tl.length) by omega,
          show q + bs.length + cs.length + 2 = q + (bs.length + cs.length + 2) by omega, this]
        have e1 : bs ++ 96 :: (cs ++ 96 :: elineSrc rest) ++ tl = (bs ++ 96 :: (cs ++ [96])) ++ (elineSrc rest ++ tl) := by
          simp
        rw [e1, List.drop_left' (by simp; omega)]
        apply List.take_of_length_le
        simp <;> omega)
      (by omega) (by omega)
    rw [hq'] at hih hfin'
    refine ⟨.text { start := q, stop := (q : Int) + bs.length } false ::
      .code { start := (q : Int) + bs.length + 1, stop := (q : Int) + bs.length + 1 + cs.length } :: its, sg, hsg, ?_, ?_⟩
    · rw [atomKids_code13, ← hfin']
      simp [fin11, RItem11.fin]
    · rw [show F + pre11 (.txt bs :: .code cs :: rest) = F + pre11 rest + 1 by simp only [pre11]; omega, hstep, hih]
      simp [raw11, RItem11.raw, ids11]
  | emph two bs cs rest hbs hq hesc hcs hal hrt ih =>
    intro q ks nid he hnm hsub hlen hq0
    obtain ⟨hrne, _, hr42⟩ := et_head11 hrt
    obtain ⟨l0, c, hl0, hs, hb⟩ := et_concat11 hrt
    rw [elineSrc_emph11] at he hsub hlen
    have hlenE : (bs ++ (List.replicate (elen11 two) 42 ++ (cs ++ (List.replicate (elen11 two) 42 ++ elineSrc rest)))).length =
        bs.length + elen11 two + cs.length + elen11 two + (elineSrc rest).length := by simp; omega
    rw [hlenE] at he hsub hlen
    have hR : (elineSrc rest ++ tl).length = (elineSrc rest).length + tl.length := by simp
    have hend : CutOK13 (elineSrc rest ++ tl) := by rw [hl0]; exact hendtl l0 c hs hb
    obtain ⟨oc, cc, hstep⟩ := em_stepX13 env henv src segs L j hd s0 h0 hs0 q two bs cs (elineSrc rest ++ tl) e ks nid bts
      (F + pre11 rest)
      (by rw [hR]; push_cast; omega) hj (by rw [hR]; omega) hL hq0
      (by rw [hR, show q + (bs.length + elen11 two + cs.length + elen11 two + ((elineSrc rest).length + tl.length)) =
            q + (bs.length + elen11 two + cs.length + elen11 two + (elineSrc rest).length + tl.length) by omega, hsub]
          simp)
      hend hbs hq hesc hcs hal (by simp [hrne])
      (by cases hx : elineSrc rest with
          | nil => exact absurd hx hrne
          | cons x xs => rw [hx] at hr42; simpa using hr42) hnm
    have hq' : ((q + bs.length + elen11 two + cs.length + elen11 two : Nat) : Int) =
        (q : Int) + bs.length + elen11 two + cs.length + elen11 two := by
      push_cast; rfl
    obtain ⟨its, sg, hsg, hfin', hih⟩ := ih (q + bs.length + elen11 two + cs.length + elen11 two)
      (ks ++ ([.text { start := q, stop := (q : Int) + bs.length } false false false] ++
          RItem11.raw (.emph nid (nid + 1)
            { start := (q : Int) + bs.length, stop := (q : Int) + bs.length + elen11 two }
            { start := (q : Int) + bs.length + elen11 two + cs.length,
              stop := (q : Int) + bs.length + elen11 two + cs.length + elen11 two }
            { start := (q : Int) + bs.length + elen11 two, stop := (q : Int) + bs.length + elen11 two + cs.length }
            two oc cc))) (nid + 2) (by omega)
      (by
        simp only [RItem11.raw]
        rw [show ∀ (a b c d : Inl.Node), ks ++ ([a] ++ [b, c, d]) = (ks ++ [a, b, c]) ++ [d] by simp]
        exact noMergeAt_of8_13 (noMerge_delim11 _ _ _) _)
      (by
        have := sub_sub8 src q (bs.length + elen11 two + cs.length + elen11 two + (elineSrc rest).length + tl.length)
          (bs.length + elen11 two + cs.length + elen11 two)
          (bs.length + elen11 two + cs.length + elen11 two + (elineSrc rest).length + tl.length) (Nat.le_refl _)
        rw [hsub] at this
        rw [show q + bs.length + elen11 two + cs.length + elen11 two + ((elineSrc rest).length + tl.length) =
          q + (bs.length + elen11 two + cs.length + elen11 two + (elineSrc rest).length + tl.length) by omega,
          show q + bs.length + elen11 two + cs.length + elen11 two = q + (bs.length + elen11 two + cs.length + elen11 two)
            by omega, this]
        have e1 : bs ++ (List.replicate (elen11 two) 42 ++ (cs ++ (List.replicate (elen11 two) 42 ++ elineSrc rest))) ++ tl =
            (bs ++ (List.replicate (elen11 two) 42 ++ (cs ++ List.replicate (elen11 two) 42))) ++ (elineSrc rest ++ tl) := by
          simp
        rw [e1, List.drop_left' (by simp; omega)]
        apply List.take_of_length_le
        simp <;> omega)
      (by omega) (by omega)
    rw [hq'] at hih hfin'
    refine ⟨.text { start := q, stop := (q : Int) + bs.length } false ::
      .emph nid (nid + 1)
            { start := (q : Int) + bs.length, stop := (q : Int) + bs.length + elen11 two }
            { start := (q : Int) + bs.length + elen11 two + cs.length,
              stop := (q : Int) + bs.length + elen11 two + cs.length + elen11 two }
            { start := (q : Int) + bs.length + elen11 two, stop := (q : Int) + bs.length + elen11 two + cs.length }
            two oc cc :: its, sg, hsg, ?_, ?_⟩
    · rw [atomKids_emph13 soft hard q two bs cs rest _ rfl, ← hfin']
      simp [fin11, RItem11.fin]
    · have hp : F + pre11 (.txt bs :: emAtom11 two cs :: rest) = F + pre11 rest + 2 := by
        cases two <;> simp only [pre11, emAtom11] <;> omega
      have hi : nid + ids11 (.txt bs :: emAtom11 two cs :: rest) = nid + 2 + ids11 rest := by
        cases two <;> simp only [ids11, emAtom11] <;> omega
      rw [hp, hi, hstep, hih]
      simp [raw11, RItem11.raw]

/-! ### `processDelimiters` on the children of several lines -/

theorem runC_itemsX13 (X : List Inl.Node) : ∀ (its : List RItem11) (pre : List Inl.Node), (∀ n ∈ pre, n.isDelim = false) →
    runC11 (advanceCloser pre (raw11 its ++ X)) = runC11 (advanceCloser (pre ++ fin11 its) X)
  | [], pre, _ => by simp [raw11, fin11]
  | .text seg soft :: rest, pre, hp => by
    have ih := runC_itemsX13 X rest (pre ++ [.text seg soft false false]) (by
      intro n hn; simp at hn; rcases hn with hn | rfl
      · exact hp n hn
      · rfl)
    have e : raw11 (.text seg soft :: rest) ++ X = .text seg soft false false :: (raw11 rest ++ X) := by simp [raw11, RItem11.raw]
    rw [e, advanceCloser_cons11 _ _ _ rfl, ih]
    simp [fin11, RItem11.fin]
  | .code seg :: rest, pre, hp => by
    have ih := runC_itemsX13 X rest (pre ++ [.codeSpan [.text seg false false true]]) (by
      intro n hn; simp at hn; rcases hn with hn | rfl
      · exact hp n hn
      · rfl)
    have e : raw11 (.code seg :: rest) ++ X = .codeSpan [.text seg false false true] :: (raw11 rest ++ X) := by
      simp [raw11, RItem11.raw]
    rw [e, advanceCloser_cons11 _ _ _ rfl, ih]
    simp [fin11, RItem11.fin]
  | .emph oid cid so sc content two oc cc :: rest, pre, hp => by
    have ih := runC_itemsX13 X rest (pre ++ [.emphasis (elen11 two : Nat) [.text content false false false]]) (by
      intro n hn; simp at hn; rcases hn with hn | rfl
      · exact hp n hn
      · rfl)
    have e : raw11 (.emph oid cid so sc content two oc cc :: rest) ++ X =
        .delim oid (mkDelim11 so two true oc) :: .text content false false false ::
          .delim cid (mkDelim11 sc two cc true) :: (raw11 rest ++ X) := by
      simp [raw11, RItem11.raw]
    have hpr : ∀ n ∈ pre.reverse, n.isDelim = false := fun n hn => hp n (by simpa using hn)
    -- the opening run as a closer: nothing in front of it
    have s1 : closerStep .nil pre oid (mkDelim11 so two true oc)
        (.text content false false false :: .delim cid (mkDelim11 sc two cc true) :: (raw11 rest ++ X)) =
        .next (pre ++ [.delim oid (mkDelim11 so two true oc), .text content false false false]) cid
          (mkDelim11 sc two cc true) ((raw11 rest ++ X)) := by
      unfold closerStep
      have hl : ¬ ((mkDelim11 so two true oc).length < 1) := by cases two <;> simp [mkDelim11, elen11]
      rw [if_neg hl, findOpener_noDelim11 _ _ _ _ hpr]
      cases oc <;> simp [mkDelim11, advanceCloser, splitFirstDelim]
    -- the closing run finds it
    have s2 : closerStep .nil (pre ++ [.delim oid (mkDelim11 so two true oc), .text content false false false]) cid
          (mkDelim11 sc two cc true) ((raw11 rest ++ X)) =
        advanceCloser (pre ++ [.emphasis (elen11 two : Nat) [.text content false false false]]) ((raw11 rest ++ X)) := by
      unfold closerStep
      have hl : ¬ ((mkDelim11 sc two cc true).length < 1) := by cases two <;> simp [mkDelim11, elen11]
      rw [if_neg hl]
      have hrev : (pre ++ [Node.delim oid (mkDelim11 so two true oc), Node.text content false false false]).reverse =
          Node.text content false false false :: Node.delim oid (mkDelim11 so two true oc) :: pre.reverse := by simp
      rw [hrev]
      cases two <;> cases oc <;> cases cc <;>
        simp [mkDelim11, elen11, findOpener, Delim.calcConsumption, Delim.consume, clearInner, Int.tmod]
    rw [e]
    show runC11 (advanceCloser pre (.delim oid (mkDelim11 so two true oc) :: _)) = _
    have e0 : advanceCloser pre (.delim oid (mkDelim11 so two true oc) :: .text content false false false ::
          .delim cid (mkDelim11 sc two cc true) :: (raw11 rest ++ X)) =
        .next pre oid (mkDelim11 so two true oc)
          (.text content false false false :: .delim cid (mkDelim11 sc two cc true) :: (raw11 rest ++ X)) := by
      simp [advanceCloser, splitFirstDelim]
    rw [e0]
    simp only [runC11]
    rw [closerLoop_run11, s1]
    simp only [runC11]
    rw [closerLoop_run11, s2, ih]
    simp [fin11, RItem11.fin, runC11]


theorem processDelimiters_of_runC13 (kids fin : List Inl.Node) (hA : runC11 (advanceCloser [] kids) = .ok fin)
    (hnd : ∀ n ∈ fin, n.isDelim = false) : processDelimiters .nil kids = .ok fin := by
  have hfin : clearDelimiters .nil (fin) = fin := by
    unfold clearDelimiters
    rw [splitLastDelim_noDelim11 _ (hnd)]
  cases hf : splitFirstDelim (kids) with
  | none =>
    have hnd := GM.Proof.Inlines.splitFirstDelim_none hf
    simp only [advanceCloser, hf, runC11, List.nil_append] at hA
    unfold processDelimiters
    rw [splitLastDelim_noDelim11 _ hnd]
    exact hA
  | some x =>
    obtain ⟨pre, id, d, post⟩ := x
    simp only [advanceCloser, hf, runC11, List.nil_append] at hA
    unfold processDelimiters
    cases hl : splitLastDelim (kids) with
    | none =>
      have hnd := GM.Proof.InlinesDelims.splitLastDelim_none hl
      have := GM.Proof.Inlines.splitFirstDelim_eq hf
      have := hnd (.delim id d) (by rw [this]; simp)
      simp [Node.isDelim] at this
    | some y =>
      obtain ⟨preL, lastId, dl, postL⟩ := y
      simp only [hf, Option.map_some, splitAt_of_first11 _ _ _ _ _ hf, hA, hfin]

/-- the children one line leaves: the items in front of its last Text, and that Text -/
abbrev LBlock13 := List RItem11 × Segment × Bool × Bool

def LBlock13.t (b : LBlock13) : Inl.Node := .text b.2.1 b.2.2.1 b.2.2.2 false

def rawL13 (bs : List LBlock13) : List Inl.Node := bs.flatMap fun b => raw11 b.1 ++ [b.t]
def finL13 (bs : List LBlock13) : List Inl.Node := bs.flatMap fun b => fin11 b.1 ++ [b.t]

theorem finL_noDelim13 (bs : List LBlock13) : ∀ n ∈ finL13 bs, n.isDelim = false := by
  intro n hn
  simp only [finL13, List.mem_flatMap, List.mem_append, List.mem_cons, List.not_mem_nil, or_false] at hn
  obtain ⟨b, _, hn | hn⟩ := hn
  · exact fin_noDelim11 b.1 n hn
  · subst hn; rfl

theorem runC_blocks13 : ∀ (bs : List LBlock13) (pre : List Inl.Node), (∀ n ∈ pre, n.isDelim = false) →
    runC11 (advanceCloser pre (rawL13 bs)) = .ok (pre ++ finL13 bs)
  | [], pre, _ => by simp [rawL13, finL13, advanceCloser, splitFirstDelim, runC11]
  | b :: rest, pre, hp => by
    have hp' : ∀ n ∈ pre ++ fin11 b.1 ++ [b.t], n.isDelim = false := by
      intro n hn
      simp only [List.mem_append, List.mem_cons, List.not_mem_nil, or_false] at hn
      rcases hn with (hn | hn) | hn
      · exact hp n hn
      · exact fin_noDelim11 b.1 n hn
      · subst hn; rfl
    have ih := runC_blocks13 rest (pre ++ fin11 b.1 ++ [b.t]) hp'
    have e : rawL13 (b :: rest) = raw11 b.1 ++ (b.t :: rawL13 rest) := by simp [rawL13]
    rw [e, runC_itemsX13 _ b.1 pre hp, advanceCloser_cons11 _ _ _ rfl, ih]
    simp [finL13]

theorem processDelimiters_rawL13 (bs : List LBlock13) : processDelimiters .nil (rawL13 bs) = .ok (finL13 bs) :=
  processDelimiters_of_runC13 _ _ (by simpa using runC_blocks13 bs [] (by simp)) (finL_noDelim13 bs)

theorem closeLabelsL_append13 : ∀ (a b : List Inl.Node), closeLabelsL (a ++ b) = closeLabelsL a ++ closeLabelsL b
  | [], b => by simp [closeLabelsL]
  | n :: a, b => by simp [closeLabelsL, closeLabelsL_append13 a b]

theorem closeLabelsL_finL13 : ∀ (bs : List LBlock13), closeLabelsL (finL13 bs) = finL13 bs
  | [] => by simp [finL13, closeLabelsL]
  | b :: rest => by
    have e : finL13 (b :: rest) = fin11 b.1 ++ ([b.t] ++ finL13 rest) := by simp [finL13]
    rw [e, closeLabelsL_append13, closeLabelsL_append13, closeLabelsL_fin11, closeLabelsL_finL13 rest]
    simp [closeLabelsL, closeLabels, LBlock13.t]

/-! ### the whole paragraph -/

def richKids13 : List Nat → List ULine → List Inl.Node
  | [p], [x] => atomKids13 false false p x.atoms
  | p :: ps, x :: ls => atomKids13 (!x.hard) x.hard p x.atoms ++ richKids13 ps ls
  | _, _ => []

def need13 : List ULine → Nat
  | [] => 1
  | x :: rest => pre11 x.atoms + 1 + need13 rest

theorem rawL_append13 (a b : List LBlock13) : rawL13 (a ++ b) = rawL13 a ++ rawL13 b := by simp [rawL13]
theorem finL_append13 (a b : List LBlock13) : finL13 (a ++ b) = finL13 a ++ finL13 b := by simp [finL13]

theorem loop13 (env : Env) (henv : env.escapedSpace = false) (src : Bytes) (segs : List Segment) (L : Int)
    (bts : List Bottom) (s0 : Segment) (h0 : segs[0]? = some s0) :
    ∀ (ls : List ULine) (ps : List Nat) (done : List Segment) (ks : List Inl.Node) (f nid : Nat), ls ≠ [] →
      (∀ x ∈ ls, ET11 x.atoms) → (∀ x, ls.getLast? = some x → x.hard = false) →
      LinesAtG src ps (ls.map ulineSrc) → segs = done ++ paraSegsG ps (ls.map ulineSrc) →
      L = (paraEndG ps (ls.map ulineSrc) : Nat) → (∀ p, ps.head? = some p → NoMergeAt13 ks p) →
      ∃ blocks rd' nid', finL13 blocks = richKids13 ps ls ∧ lineLoop env (f + need13 ls) false
        { rd := rdAt src segs L done.length ((paraSegsG ps (ls.map ulineSrc)).headD default)
            ((paraSegsG ps (ls.map ulineSrc)).headD default).start, kids := ks, nextId := nid, bottoms := bts } =
        .ok { rd := rd', kids := ks ++ rawL13 blocks, nextId := nid', bottoms := bts }
  | [], _, _, _, _, _, h, _, _, _, _, _, _ => absurd rfl h
  | [x], [p], done, ks, f, nid, _, hg, hlast, hla, hsegs, hL, hnm => by
    have hx : x.hard = false := hlast x rfl
    have hsrc : ulineSrc x = elineSrc x.atoms := by simp [ulineSrc, hx]
    simp only [List.map_cons, List.map_nil, hsrc] at hla hsegs hL ⊢
    obtain ⟨hsub, hlen⟩ := hla
    have hL' : L = (p : Int) + (elineSrc x.atoms).length := by simp [hL, paraEndG]
    have hjl : done.length + 1 = segs.length := by simp [hsegs, paraSegsG]
    have hs0 : ((done.length : Nat) : Int) = 0 → s0.start ≤ (p : Int) := by
      intro hz
      have hd0 : done = [] := List.eq_nil_of_length_eq_zero (by omega)
      subst hd0
      rw [hsegs] at h0
      simp [paraSegsG] at h0
      rw [← h0]; simp
    have := atomsX13 env henv src segs L done.length p s0 h0 hs0 (by omega) bts [] L (Int.le_refl _) false false (f + 2)
      (fun kids n => .ok (St.mk (rdAt src segs L (done.length + 1) { start := L, stop := L } L) kids n bts))
      (by intro l0 c hs hb; exact cutOK_of_end13 (by simpa using endOK_nolf11 l0 c hs))
      (by
        intro q bs l0 c ks nid hl hs hb hq he hsub hlen
        have he' : L = (q : Int) + bs.length := by simpa using he
        subst he'
        have := last_step8 env henv src segs p done.length q bs l0 c ks nid bts f hl hs hb hq (by simpa using hsub)
          (by simpa using hlen) hjl
        exact this)
      x.atoms (hg x (by simp)) p ks nid (by simpa using hL') (hnm p rfl) (by simpa using hsub) (by simpa using hlen)
      (Int.le_refl _)
    obtain ⟨its, sg, _, hfin, hrun⟩ := this
    refine ⟨[(its, sg, false, false)], rdAt src segs L (done.length + 1) { start := L, stop := L } L,
      nid + ids11 x.atoms, by simpa [richKids13, finL13, LBlock13.t] using hfin, ?_⟩
    have e1 : (paraSegsG [p] [elineSrc x.atoms]).headD default = { start := (p : Int), stop := L } := by
      rw [hL']; rfl
    rw [e1]
    have e2 : f + need13 [x] = f + 2 + pre11 x.atoms := by simp [need13]; omega
    rw [e2]
    simpa [rawL13, LBlock13.t] using hrun
  | x :: y :: rest, p :: p' :: ps, done, ks, f, nid, _, hg, hlast, hla, hsegs, hL, hnm => by
    have hrt := hg x (by simp)
    simp only [List.map_cons] at hla hsegs hL ⊢
    have hbd := paraEndG_boundsG (rest.map ulineSrc) ps p' (ulineSrc y) hla.2.2
    obtain ⟨hsub, hpp, hla'⟩ := hla
    have hL2 : L = (paraEndG (p' :: ps) (ulineSrc y :: rest.map ulineSrc) : Nat) := by rw [hL]; rfl
    have hpL : (p : Int) + (ulineSrc x).length + 1 ≤ L := by omega
    have hlen : p + (ulineSrc x).length + 1 ≤ src.length := by omega
    have hsegs' : segs = (done ++ [{ start := (p : Int), stop := (p : Int) + (ulineSrc x).length + 1 }]) ++
        paraSegsG (p' :: ps) (ulineSrc y :: rest.map ulineSrc) := by
      rw [hsegs]; simp [paraSegsG]
    have hnext : segs[done.length + 1]? =
        some ((paraSegsG (p' :: ps) (ulineSrc y :: rest.map ulineSrc)).headD default) := by
      rw [hsegs']
      rw [List.getElem?_append_right (by simp)]
      simp only [List.length_append, List.length_cons, List.length_nil, Nat.zero_add, Nat.sub_self]
      cases rest <;> cases ps <;> rfl
    have hjlt : done.length + 1 < segs.length := (List.getElem?_eq_some_iff.mp hnext).1
    have hs0 : ((done.length : Nat) : Int) = 0 → s0.start ≤ (p : Int) := by
      intro hz
      have hd0 : done = [] := List.eq_nil_of_length_eq_zero (by omega)
      subst hd0
      rw [hsegs] at h0
      simp [paraSegsG] at h0
      rw [← h0]; simp
    have hline : ∃ its sg, sg.stop < (p' : Int) ∧
        fin11 its ++ [.text sg (!x.hard) x.hard false] = atomKids13 (!x.hard) x.hard p x.atoms ∧
        lineLoop env (f + need13 (y :: rest) + 1 + pre11 x.atoms) false
          { rd := rdAt src segs L done.length { start := p, stop := (p : Int) + (ulineSrc x).length + 1 } p, kids := ks,
            nextId := nid, bottoms := bts } =
        lineLoop env (f + need13 (y :: rest)) false
          (St.mk (rdAt src segs L (done.length + 1)
            ((paraSegsG (p' :: ps) (ulineSrc y :: rest.map ulineSrc)).headD default)
            ((paraSegsG (p' :: ps) (ulineSrc y :: rest.map ulineSrc)).headD default).start)
            (ks ++ (raw11 its ++ [.text sg (!x.hard) x.hard false])) (nid + ids11 x.atoms) bts) := by
      cases hx : x.hard
      · have hsrc : ulineSrc x = elineSrc x.atoms := by simp [ulineSrc, hx]
        rw [hsrc] at hsub hpp hpL hlen ⊢
        have := atomsX13 env henv src segs L done.length p s0 h0 hs0 (by omega) bts [10]
          ((p : Int) + (elineSrc x.atoms).length + 1) hpL true false (f + need13 (y :: rest) + 1)
          (fun kids n => lineLoop env (f + need13 (y :: rest)) false (St.mk (rdAt src segs L (done.length + 1) _ _) kids n bts))
          (fun l0 c hs hb => cutOK_of_end13 (endOK_lf11 l0 c hs hb))
          (by
            intro q bs l0 c ks nid hl hs hb hq he hsub hlen
            have he' : (p : Int) + (elineSrc x.atoms).length + 1 = (q : Int) + bs.length + 1 := by simpa using he
            rw [he']
            exact line_step8 env henv src segs L p done.length q bs l0 c _ ks nid bts _ hl hs hb hq
              (by simpa [Nat.add_assoc] using hsub) (by simpa [Nat.add_assoc] using hlen) (by omega) hnext)
          x.atoms hrt p ks nid (by simp) (hnm p rfl) (by simpa [Nat.add_assoc] using hsub)
          (by simpa [Nat.add_assoc] using hlen) (Int.le_refl _)
        obtain ⟨its, sg, hsg, hfin, hrun⟩ := this
        refine ⟨its, sg, ?_, by simpa using hfin, by simpa using hrun⟩
        simp at hsg; omega
      · have hsrc : ulineSrc x = elineSrc x.atoms ++ [92] := by simp [ulineSrc, hx]
        have hlen1 : (ulineSrc x).length = (elineSrc x.atoms).length + 1 := by rw [hsrc]; simp
        rw [hlen1] at hpp hpL hlen ⊢
        rw [hsrc] at hsub
        have := atomsX13 env henv src segs L done.length p s0 h0 hs0 (by omega) bts [92, 10]
          ((p : Int) + ((elineSrc x.atoms).length + 1 : Nat) + 1) hpL false true (f + need13 (y :: rest) + 1)
          (fun kids n => lineLoop env (f + need13 (y :: rest)) false (St.mk (rdAt src segs L (done.length + 1) _ _) kids n bts))
          (fun l0 c _ hb => cutOK_bs13 l0 c hb)
          (by
            intro q bs l0 c ks nid hl hs hb hq he hsub hlen
            have he' : (p : Int) + ((elineSrc x.atoms).length + 1 : Nat) + 1 = (q : Int) + (bs.length + 1 : Nat) + 1 := by
              simp at he; push_cast; omega
            rw [he']
            exact hard_step13 env henv src segs L p done.length q (bs.length + 1) bs l0 c _ ks nid bts _ hl hb hq rfl
              (by simpa [Nat.add_assoc] using hsub) (by simp at hlen; omega) (by omega) hnext)
          x.atoms hrt p ks nid (by simp; omega) (hnm p rfl) (by simpa [Nat.add_assoc] using hsub)
          (by simp; omega) (Int.le_refl _)
        obtain ⟨its, sg, hsg, hfin, hrun⟩ := this
        refine ⟨its, sg, ?_, by simpa using hfin, by simpa using hrun⟩
        simp at hsg; omega
    obtain ⟨its, sg, hsg, hfin1, hrun1⟩ := hline
    obtain ⟨bl2, rd', nid', hfin2, ih⟩ := loop13 env henv src segs L bts s0 h0 (y :: rest) (p' :: ps)
      (done ++ [{ start := (p : Int), stop := (p : Int) + (ulineSrc x).length + 1 }])
      (ks ++ (raw11 its ++ [.text sg (!x.hard) x.hard false])) f (nid + ids11 x.atoms) (by simp)
      (fun z hz => hg z (by simp at hz ⊢; right; exact hz)) (fun z hz => hlast z (by simpa using hz)) hla' hsegs' hL2
      (by
        intro q hq
        simp at hq; subst hq
        rw [← List.append_assoc]
        exact noMergeAt_text13 _ _ _ _ _ _ hsg)
    refine ⟨(its, sg, !x.hard, x.hard) :: bl2, rd', nid', ?_, ?_⟩
    · have e : finL13 ((its, sg, !x.hard, x.hard) :: bl2) = (fin11 its ++ [.text sg (!x.hard) x.hard false]) ++ finL13 bl2 := by
        simp [finL13, LBlock13.t]
      rw [e, hfin1, hfin2]; rfl
    · have e1 : (paraSegsG (p :: p' :: ps) (ulineSrc x :: ulineSrc y :: rest.map ulineSrc)).headD default =
          { start := (p : Int), stop := (p : Int) + (ulineSrc x).length + 1 } := rfl
      have e0 : f + need13 (x :: y :: rest) = f + need13 (y :: rest) + 1 + pre11 x.atoms := by
        simp only [need13]; omega
      rw [e1, e0]
      show lineLoop env _ false
        { rd := rdAt src segs L done.length { start := (p : Int), stop := (p : Int) + (ulineSrc x).length + 1 } p,
          kids := ks, nextId := nid, bottoms := bts } = _
      rw [hrun1]
      have e2 : ((done ++ [({ start := (p : Int), stop := (p : Int) + (ulineSrc x).length + 1 } : Segment)]).length : Int) =
          (done.length : Int) + 1 := by
        simp
      simp only [List.map_cons] at ih
      rw [e2] at ih
      rw [ih]
      have e3 : rawL13 ((its, sg, !x.hard, x.hard) :: bl2) = (raw11 its ++ [.text sg (!x.hard) x.hard false]) ++ rawL13 bl2 := by
        simp [rawL13, LBlock13.t]
      rw [e3, List.append_assoc]
  | [_], [], _, _, _, _, _, _, _, h, _, _, _ => h.elim
  | [_], _ :: _ :: _, _, _, _, _, _, _, _, h, _, _, _ => h.elim
  | _ :: _ :: _, [], _, _, _, _, _, _, _, h, _, _, _ => h.elim
  | _ :: _ :: _, [_], _, _, _, _, _, _, _, h, _, _, _ => h.elim

/-! ### fuel; the theorem -/

theorem ulineSrc_len13 (x : ULine) : (elineSrc x.atoms).length ≤ (ulineSrc x).length := by
  unfold ulineSrc; simp

theorem need_le13 (src : Bytes) : ∀ (ls : List ULine) (ps : List Nat) (p : Nat), (∀ x ∈ ls, ET11 x.atoms) →
    LinesAtG src (p :: ps) (ls.map ulineSrc) → p + need13 ls ≤ src.length + 1
  | [], _, _, _, h => by simp [LinesAtG] at h
  | [x], [], p, hg, hla => by
    have := pre_le11 (hg x (by simp))
    have := ulineSrc_len13 x
    obtain ⟨_, hlen⟩ := hla
    simp only [need13]; omega
  | x :: y :: rest, p' :: ps, p, hg, hla => by
    have := pre_le11 (hg x (by simp))
    have := ulineSrc_len13 x
    obtain ⟨_, hpp, hla'⟩ := hla
    have ih := need_le13 src (y :: rest) ps p' (fun z hz => hg z (by simp at hz ⊢; right; exact hz)) hla'
    simp only [need13] at ih ⊢; omega
  | [_], _ :: _, _, _, h => h.elim
  | _ :: _ :: _, [], _, _, h => h.elim

theorem parseBlock_u13 (env : GM.Inl.Env) (henv : env.escapedSpace = false) (src : Bytes) (ps : List Nat)
    (ls : List ULine) (hne : ls ≠ []) (hok : ULinesOK ls) (h : LinesAtG src ps (ls.map ulineSrc)) :
    GM.Inl.parseBlock env src (paraSegsG ps (ls.map ulineSrc)) = .ok (richKids13 ps ls) := by
  have hrt : ∀ x ∈ ls, ET11 x.atoms := fun x hx => et_of_rich11 (hok.1 x hx)
  have hne' : ls.map ulineSrc ≠ [] := by simpa using hne
  obtain ⟨p, ps', rfl⟩ : ∃ p ps', ps = p :: ps' := by
    cases ps with
    | nil =>
      cases ls with
      | nil => exact absurd rfl hne
      | cons _ _ => exact h.elim
    | cons p ps' => exact ⟨p, ps', rfl⟩
  have hfuel : need13 ls ≤ blockFuel src (paraSegsG (p :: ps') (ls.map ulineSrc)) := by
    have := need_le13 src ls ps' p hrt h
    unfold blockFuel
    omega
  obtain ⟨f, hf⟩ : ∃ f, blockFuel src (paraSegsG (p :: ps') (ls.map ulineSrc)) = f + need13 ls :=
    ⟨_, (Nat.sub_add_cancel hfuel).symm⟩
  have hh0 := paraSegsG_headG (ls.map ulineSrc) (p :: ps') hne' h
  obtain ⟨bl, rd', nid', hfin, h2⟩ := loop13 env henv src (paraSegsG (p :: ps') (ls.map ulineSrc))
    (paraEndG (p :: ps') (ls.map ulineSrc) : Nat) [] _ hh0 ls (p :: ps') [] [] f 0 hne hrt hok.2 h rfl rfl
    (fun q _ => noMergeAt_of8_13 noMerge_nil8 q)
  unfold parseBlock
  simp only [bind, Except.bind, new_paraG (ls.map ulineSrc) (p :: ps') hne' h]
  have h' : lineLoop env (blockFuel src (paraSegsG (p :: ps') (ls.map ulineSrc))) false
      { rd := rdAt src (paraSegsG (p :: ps') (ls.map ulineSrc)) (paraEndG (p :: ps') (ls.map ulineSrc) : Nat) 0
          ((paraSegsG (p :: ps') (ls.map ulineSrc)).headD default)
          ((paraSegsG (p :: ps') (ls.map ulineSrc)).headD default).start } =
      .ok { rd := rd', kids := rawL13 bl, nextId := nid', bottoms := [] } := by
    rw [hf]
    simpa using h2
  rw [h']
  simp only [processDelimiters_rawL13, pure, Except.pure]
  rw [closeLabelsL_finL13, hfin]

/-! ### the renderer's nodes -/

theorem atomTrees13 (src : Bytes) (soft hard : Bool) : ∀ (as : List EAtom) (q : Nat),
    sub src q (q + (elineSrc as).length) = elineSrc as → q + (elineSrc as).length ≤ src.length →
    GM.Convert.inlineTrees src (atomKids13 soft hard q as) = .ok (uatomNodes soft hard as)
  | [], _, _, _ => by simp [atomKids13, uatomNodes, GM.Convert.inlineTrees, pure, Except.pure]
  | [.txt bs], q, h, hlen => by
    rw [elineSrc_single11] at h hlen
    simp [atomKids13, uatomNodes, GM.Convert.inlineTrees, GM.Convert.inlineTree, bind, Except.bind, pure, Except.pure,
      value_at8 src q bs h hlen _ _ rfl rfl]
  | .txt bs :: b :: rest, q, h, hlen => by
    have hs : elineSrc (.txt bs :: b :: rest) = [] ++ bs ++ elineSrc (b :: rest) := by simp [elineSrc, eatomSrc]
    have hs' : elineSrc (.txt bs :: b :: rest) = bs ++ elineSrc (b :: rest) ++ [] := by simp [elineSrc, eatomSrc]
    have h1 := sub_mid8 src q [] bs (elineSrc (b :: rest)) (by rw [← hs]; exact h)
    have h2 := sub_mid8 src q bs (elineSrc (b :: rest)) [] (by rw [← hs']; exact h)
    have hl : (elineSrc (.txt bs :: b :: rest)).length = bs.length + (elineSrc (b :: rest)).length := by
      rw [hs]; simp
    have ih := atomTrees13 src soft hard (b :: rest) (q + bs.length) h2 (by omega)
    rw [Int.natCast_add] at ih
    simp only [List.length_nil, Nat.add_zero] at h1
    simp only [atomKids13, uatomNodes, GM.Convert.inlineTrees, GM.Convert.inlineTree, bind, Except.bind, pure, Except.pure,
      value_at8 src q bs h1 (by omega) _ _ rfl rfl, ih]
  | .code cs :: rest, q, h, hlen => by
    have hs : elineSrc (.code cs :: rest) = [96] ++ cs ++ (96 :: elineSrc rest) := by simp [elineSrc, eatomSrc]
    have hs' : elineSrc (.code cs :: rest) = (96 :: (cs ++ [96])) ++ elineSrc rest ++ [] := by simp [elineSrc, eatomSrc]
    have h1 := sub_mid8 src q [96] cs (96 :: elineSrc rest) (by rw [← hs]; exact h)
    have h2 := sub_mid8 src q (96 :: (cs ++ [96])) (elineSrc rest) [] (by rw [← hs']; exact h)
    have hl : (elineSrc (.code cs :: rest)).length = cs.length + 2 + (elineSrc rest).length := by
      rw [hs]; simp; omega
    have e1 : q + (96 :: (cs ++ [96])).length = q + cs.length + 2 := by simp; omega
    rw [e1] at h2
    have ih := atomTrees13 src soft hard rest (q + cs.length + 2) h2 (by omega)
    have e2 : ((q + cs.length + 2 : Nat) : Int) = (q : Int) + cs.length + 2 := by push_cast; rfl
    rw [e2] at ih
    simp only [List.length_cons, List.length_nil, Nat.zero_add] at h1
    simp only [atomKids13, uatomNodes, GM.Convert.inlineTrees, GM.Convert.inlineTree, bind, Except.bind, pure, Except.pure,
      value_at8 src (q + 1) cs h1 (by omega) _ _ (by push_cast; rfl) (by push_cast; rfl), ih]
  | .em cs :: rest, q, h, hlen => by
    have hs : elineSrc (.em cs :: rest) = [42] ++ cs ++ (42 :: elineSrc rest) := by simp [elineSrc, eatomSrc]
    have hs' : elineSrc (.em cs :: rest) = (42 :: (cs ++ [42])) ++ elineSrc rest ++ [] := by simp [elineSrc, eatomSrc]
    have h1 := sub_mid8 src q [42] cs (42 :: elineSrc rest) (by rw [← hs]; exact h)
    have h2 := sub_mid8 src q (42 :: (cs ++ [42])) (elineSrc rest) [] (by rw [← hs']; exact h)
    have hl : (elineSrc (.em cs :: rest)).length = cs.length + 2 + (elineSrc rest).length := by
      rw [hs]; simp; omega
    have e1 : q + (42 :: (cs ++ [42])).length = q + 1 + cs.length + 1 := by simp; omega
    rw [e1] at h2
    have ih := atomTrees13 src soft hard rest (q + 1 + cs.length + 1) h2 (by omega)
    have e2 : ((q + 1 + cs.length + 1 : Nat) : Int) = (q : Int) + 1 + cs.length + 1 := by push_cast; rfl
    rw [e2] at ih
    simp only [List.length_cons, List.length_nil, Nat.zero_add] at h1
    simp only [atomKids13, uatomNodes, GM.Convert.inlineTrees, GM.Convert.inlineTree, bind, Except.bind, pure, Except.pure,
      value_at8 src (q + 1) cs h1 (by omega) _ _ (by push_cast; rfl) (by push_cast; rfl), ih]
    rfl
  | .strong cs :: rest, q, h, hlen => by
    have hs : elineSrc (.strong cs :: rest) = [42, 42] ++ cs ++ (42 :: 42 :: elineSrc rest) := by
      simp [elineSrc, eatomSrc]
    have hs' : elineSrc (.strong cs :: rest) = (42 :: 42 :: (cs ++ [42, 42])) ++ elineSrc rest ++ [] := by
      simp [elineSrc, eatomSrc]
    have h1 := sub_mid8 src q [42, 42] cs (42 :: 42 :: elineSrc rest) (by rw [← hs]; exact h)
    have h2 := sub_mid8 src q (42 :: 42 :: (cs ++ [42, 42])) (elineSrc rest) [] (by rw [← hs']; exact h)
    have hl : (elineSrc (.strong cs :: rest)).length = cs.length + 4 + (elineSrc rest).length := by
      rw [hs]; simp; omega
    have e1 : q + (42 :: 42 :: (cs ++ [42, 42])).length = q + 2 + cs.length + 2 := by simp; omega
    rw [e1] at h2
    have ih := atomTrees13 src soft hard rest (q + 2 + cs.length + 2) h2 (by omega)
    have e2 : ((q + 2 + cs.length + 2 : Nat) : Int) = (q : Int) + 2 + cs.length + 2 := by push_cast; rfl
    rw [e2] at ih
    simp only [List.length_cons, List.length_nil, Nat.zero_add] at h1
    simp only [atomKids13, uatomNodes, GM.Convert.inlineTrees, GM.Convert.inlineTree, bind, Except.bind, pure, Except.pure,
      value_at8 src (q + 2) cs (by simpa using h1) (by omega) ((q : Int) + 2) ((q : Int) + 2 + cs.length) (by omega) (by omega), ih]
    rfl

theorem inlineTrees_u13 (src : Bytes) : ∀ (ps : List Nat) (ls : List ULine),
    (∀ x, ls.getLast? = some x → x.hard = false) → LinesAtG src ps (ls.map ulineSrc) →
    GM.Convert.inlineTrees src (richKids13 ps ls) = .ok (uNodes ls)
  | [], [], _, _ => by simp [richKids13, uNodes, GM.Convert.inlineTrees, pure, Except.pure]
  | [p], [x], hlast, h => by
    have hx : x.hard = false := hlast x rfl
    have hsrc : ulineSrc x = elineSrc x.atoms := by simp [ulineSrc, hx]
    simp only [List.map_cons, List.map_nil, hsrc] at h
    exact atomTrees13 src false false x.atoms p h.1 h.2
  | p :: p' :: ps, x :: y :: rest, hlast, h => by
    simp only [List.map_cons] at h
    have hbd := paraEndG_boundsG (rest.map ulineSrc) ps p' (ulineSrc y) h.2.2
    have ih := inlineTrees_u13 src (p' :: ps) (y :: rest) (fun z hz => hlast z (by simpa using hz)) h.2.2
    have h1 := h.1
    have h2 := h.2.1
    have hsub : sub src p (p + (elineSrc x.atoms).length) = elineSrc x.atoms ∧
        p + (elineSrc x.atoms).length ≤ src.length := by
      cases hx : x.hard
      · have hsrc : ulineSrc x = elineSrc x.atoms := by simp [ulineSrc, hx]
        rw [hsrc] at h1 h2
        exact ⟨sub_prefix src p _ _ 10 rfl h1, by omega⟩
      · have hsrc : ulineSrc x = elineSrc x.atoms ++ [92] := by simp [ulineSrc, hx]
        rw [hsrc] at h1 h2
        simp only [List.length_append, List.length_cons, List.length_nil] at h1 h2
        have h3 : sub src p (p + ((elineSrc x.atoms).length + 1)) = elineSrc x.atoms ++ [92] :=
          sub_prefix src p ((elineSrc x.atoms).length + 1) (elineSrc x.atoms ++ [92]) 10 (by simp) h1
        exact ⟨sub_prefix src p _ _ 92 rfl h3, by omega⟩
    exact inlineTrees_append8 src _ _ _ _ (atomTrees13 src (!x.hard) x.hard x.atoms p hsub.1 hsub.2) ih
  | [_], [], _, h => h.elim
  | _ :: _ :: _, [], _, h => h.elim
  | [], _ :: _, _, h => h.elim
  | [_], _ :: _ :: _, _, h => h.elim
  | _ :: _ :: _, [_], _, h => h.elim

/-- the inline facts of the union fragment in position-list form -/
theorem u13InlG_holds : U13InlG := by
  intro env henv ls hne hok
  exact ⟨fun ps => richKids13 ps ls, fun src ps h => parseBlock_u13 env henv src ps ls hne hok h,
    fun src ps h => inlineTrees_u13 src ps ls hok.2 h⟩

end GM.Proof.CMFrag
