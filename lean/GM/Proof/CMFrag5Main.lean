/-
  GM.Proof.CMFrag5Main — stage 5: the phases composed for documents of paragraphs, ATX headings, thematic breaks and
  fenced code blocks.
-/
import GM.Proof.CMFrag5Run
import GM.Proof.CMFrag4Main
import GM.Proof.CMFragRender5
import GM.Proof.CMFragSpec5

namespace GM.Proof.CMFrag
open GM GM.Text GM.Blocks GM.Spec

theorem runT_doc5 (items : List (Nat × Raw5)) (trail : Nat) (hgood : ∀ it ∈ items, Good5 it.2)
    (hnoic : ∀ it ∈ items, isIcB it.2 = false)
    (hno : ∀ it ∈ items.map conv5, ∀ l ∈ it.2, ∀ c ∈ l, c ≠ 10) :
    ∃ s' bs, runT pts (rawDoc (items.map conv5) trail) = .ok s' ∧ bs.length = items.length ∧
      s'.nodes = addKids { kind := .document } 0 items.length ::
        mkNodes5 (closedOf 0 (items.map conv5)) (items.map (·.2)) bs ∧ s'.pc.refs = [] := by
  have hd := docAt_raw (items.map conv5) trail [] hno
  simp only [List.nil_append, List.length_nil] at hd
  have hc := cost_le_nl (items.map conv5) trail hno
  have hf : cost (items.map conv5) + 1 ≤ linesFuel (rawDoc (items.map conv5) trail) := by
    simp only [linesFuel, lineCount]
    have : nl (rawDoc (items.map conv5) trail) =
      (List.filter (fun x => x == 10) (rawDoc (items.map conv5) trail)).length := rfl
    omega
  obtain ⟨s', bs, h1, h2, h3, h4⟩ :=
    blocksLoop_doc5 (src := rawDoc (items.map conv5) trail) atxOpens items.length items rfl trail 0 0
      (linesFuel (rawDoc (items.map conv5) trail)) [] { kind := .document } [] ({ } : Ctx) hd hgood hnoic hf rfl
  refine ⟨s', bs, ?_, h2, by simpa using h3, h4⟩
  unfold runT parseBlocksT
  simp only [bind_apply, modPc_run, source_run, initSt, reader_new, rdr_source]
  simp only [h1]
  rfl

/-! ### the renderer's view of a fenced code block -/

theorem sub_drop_prefix (src : Bytes) (p e : Nat) (a b : Bytes) (h : sub src p e = a ++ b) (hlen : (a ++ b).length = e - p) :
    sub src (p + a.length) e = b := by
  unfold sub at *
  have e1 : List.drop (p + a.length) src = List.drop a.length (List.drop p src) := by rw [List.drop_drop]
  have e2 : e - (p + a.length) = e - p - a.length := by omega
  rw [e1, e2, ← List.drop_take, h]
  simp

theorem seg_value_nat (src : Bytes) (p e : Nat) (fn : Bool) (v : Bytes) (hsub : sub src p e = v) (hpe : p ≤ e)
    (he : e ≤ src.length) (hnn : fn = true → v.getLast? = some 10) :
    Segment.value { start := (p : Int), stop := (e : Int), padding := 0, forceNewline := fn } src = .ok v := by
  have c2 : (0 ≤ (p : Int) ∧ (p : Int) ≤ (e : Int) ∧ (e : Int) ≤ (src.length : Int)) := by omega
  cases fn with
  | false => simp [Segment.value, sliceB, c2, needsNewline, hsub, bind, Except.bind, pure, Except.pure]
  | true =>
    have := hnn rfl
    simp [Segment.value, sliceB, c2, needsNewline, hsub, this, bind, Except.bind, pure, Except.pure]

theorem csg_value {src : Bytes} {p : Nat} {l : Bytes} (hl : Ln src p (p + l.length + 1) (l ++ [10])) :
    (csg p (p + l.length + 1)).value src = .ok (l ++ [10]) :=
  seg_value_nat src p (p + l.length + 1) true (l ++ [10]) hl.sub (by omega) hl.le (fun _ => by simp)

theorem segValues_csegs {src : Bytes} : ∀ (ls tail : List Bytes) (P : Nat), ParaAt src P (ls ++ tail) →
    GM.Convert.segValues src (csegs P ls) = .ok (ls.map (· ++ [10]))
  | [], _, _, _ => rfl
  | l :: rest, tail, P, h => by
    have ih := segValues_csegs rest tail (P + l.length + 1) h.2
    simp only [csegs, GM.Convert.segValues, csg_value h.1, ih, bind, Except.bind, pure, Except.pure, List.map_cons]

/-- what the three phases need of a block -/
def Good5' : Raw5 → Prop
  | .old b => Good4' b
  | .fence fc _ info ls => (fc = 96 ∨ fc = 126) ∧ (∀ c ∈ info, GM.Spec.CM.isAlnumC c = true) ∧
      ∀ l ∈ ls, CodeLine fc l ∧ ∀ c ∈ l, c ≠ 10
  | .icode ls => ls ≠ [] ∧ ∀ l ∈ ls, IcLine l

theorem good5_of (b : Raw5) (h : Good5' b) : Good5 b := by
  cases b with
  | old b => exact good4_of b h
  | fence fc n info ls => exact ⟨h.1, h.2.1, fun l hl => (h.2.2 l hl).1⟩
  | icode ls => exact h

theorem alnum_not_nl : ∀ c : UInt8, GM.Spec.CM.isAlnumC c = true → c ≠ 10 := GM.forall_uint8 _ (by decide +kernel)

theorem lines5_no_nl (b : Raw5) (h : Good5' b) : ∀ l ∈ lines5 b, ∀ c ∈ l, c ≠ 10 := by
  cases b with
  | old b => exact lines4_no_nl b h
  | fence fc n info ls =>
    obtain ⟨hfc, hinfo, hls⟩ := h
    have hfc10 : fc ≠ 10 := by rcases hfc with h | h <;> subst h <;> decide
    intro l hl c hc
    simp only [lines5, List.mem_cons, List.mem_append, List.mem_singleton] at hl
    rcases hl with rfl | hl | hl
    · simp only [List.mem_append, List.mem_replicate] at hc
      rcases hc with ⟨_, rfl⟩ | hc
      · exact hfc10
      · exact alnum_not_nl c (hinfo c hc)
    · exact (hls l hl).2 c hc
    · simp at hl
      subst hl
      simp only [List.mem_replicate] at hc
      rw [hc.2]; exact hfc10
  | icode ls =>
    intro l hl c hc
    simp only [lines5, icLines, List.mem_map] at hl
    obtain ⟨l', hl', rfl⟩ := hl
    simp only [List.mem_append] at hc
    rcases hc with hc | hc
    · simp [ind4] at hc; rw [hc]; decide
    · exact (h.2 l' hl').noNl c hc

theorem lines5_ne (b : Raw5) (h : Good5 b) : lines5 b ≠ [] := by
  cases b with
  | old b => exact lines4_ne b h
  | fence fc n info ls => simp [lines5]
  | icode ls => simpa [lines5, icLines] using h.1

theorem segValues_icsegs {src : Bytes} : ∀ (ls : List Bytes) (P : Nat), ParaAt src P (icLines ls) →
    GM.Convert.segValues src (icsegs P ls) = .ok (ls.map (· ++ [10]))
  | [], _, _ => rfl
  | l :: rest, P, h => by
    have e : P + (ind4 ++ l).length + 1 = P + 4 + l.length + 1 := by simp [ind4]; omega
    have h1 : Ln src P (P + 4 + l.length + 1) ((ind4 ++ l) ++ [10]) := by have := h.1; rw [e] at this; exact this
    have ih := segValues_icsegs rest (P + 4 + l.length + 1) (by have := h.2; rw [e] at this; exact this)
    have hsub : sub src (P + 4) (P + 4 + l.length + 1) = l ++ [10] := by
      have := sub_drop_prefix src P (P + 4 + l.length + 1) ind4 (l ++ [10]) (by rw [h1.sub]; simp)
        (by simp [ind4]; omega)
      simpa [ind4] using this
    have hval : (csg (P + 4) (P + 4 + l.length + 1)).value src = .ok (l ++ [10]) :=
      seg_value_nat src (P + 4) (P + 4 + l.length + 1) true (l ++ [10]) hsub (by omega) h1.le (fun _ => by simp)
    simp only [icsegs, GM.Convert.segValues, hval, ih, bind, Except.bind, pure, Except.pure, List.map_cons]

/-- `docTree` on the closed node of one block -/
theorem docTree_block5 {src : Bytes} (env : GM.Inl.Env) (henv : env.escapedSpace = false) (b : Raw5) (p : Nat)
    (bk : Bool) (hg : Good5' b) (h : ParaAt src p (lines5 b)) (hp : p ≤ src.length) :
    GM.Convert.docTree true env src (.node (node5 p b bk) []) = .ok (rawNode5 b) := by
  cases b with
  | old b => exact docTree_block4 env henv b p bk hg h hp
  | fence fc n info ls =>
    obtain ⟨hl0, hrest⟩ := h
    have elen : (List.replicate (n + 3) fc ++ info).length = n + 3 + info.length := by simp
    rw [elen] at hl0 hrest
    have hsv := segValues_csegs ls [List.replicate (n + 3) fc] (p + (n + 3 + info.length) + 1) hrest
    have e1 : p + n + 3 + info.length + 1 = p + (n + 3 + info.length) + 1 := by omega
    have hle := hl0.le
    by_cases hi : info = []
    · subst hi
      simp only [node5, fenceN, GM.Convert.docTree, GM.Convert.docTrees, GM.Convert.inlinePhase, GM.Convert.isRawKind,
        GM.Convert.inlineTrees, GM.Convert.liftErr, GM.Convert.blockKind, List.isEmpty_nil, if_true, e1, hsv,
        bind, Except.bind, pure, Except.pure, rawNode5]
      simp
    · have hie : info.isEmpty = false := by cases info with
        | nil => exact absurd rfl hi
        | cons a t => rfl
      have hsub : sub src (p + n + 3) (p + (n + 3 + info.length) + 1) = info ++ [10] := by
        have := sub_drop_prefix src p (p + (n + 3 + info.length) + 1) (List.replicate (n + 3) fc) (info ++ [10])
          (by rw [hl0.sub]; simp) (by simp; omega)
        simpa [Nat.add_assoc] using this
      have hinfo : sub src (p + n + 3) (p + n + 3 + info.length) = info :=
        sub_prefix src (p + n + 3) info.length info 10 rfl (by
          have e2 : p + n + 3 + info.length + 1 = p + (n + 3 + info.length) + 1 := by omega
          rw [e2]; exact hsub)
      have hval : (sg (p + n + 3) (p + n + 3 + info.length)).value src = .ok info :=
        seg_value_nat src (p + n + 3) (p + n + 3 + info.length) false info hinfo (by omega) (by omega) (fun h => by cases h)
      have hit0 : GM.Convert.inlineTrees src [] = .ok [] := rfl
      simp only [node5, fenceN, GM.Convert.docTree, GM.Convert.docTrees, GM.Convert.inlinePhase, GM.Convert.isRawKind,
        GM.Convert.inlineTrees, GM.Convert.liftErr, GM.Convert.blockKind, hie, Bool.false_eq_true, if_false, e1, hsv,
        hval, bind, Except.bind, pure, Except.pure, rawNode5]
      simp [hit0]
  | icode ls =>
    have hsv := segValues_icsegs ls p h
    simp only [node5, codeN, GM.Convert.docTree, GM.Convert.docTrees, GM.Convert.inlinePhase, GM.Convert.isRawKind,
      GM.Convert.inlineTrees, GM.Convert.liftErr, GM.Convert.blockKind, hsv, bind, Except.bind, pure, Except.pure,
      rawNode5]
    have hit0 : GM.Convert.inlineTrees src [] = .ok [] := rfl
    simp [hit0]

theorem mkNodes5_children : ∀ (cl : List (Nat × List Bytes)) (blks : List Raw5) (bs : List Bool),
    ∀ n ∈ mkNodes5 cl blks bs, n.children = []
  | [], _, _, n, h => by simp [mkNodes5] at h
  | _ :: _, [], _, n, h => by simp [mkNodes5] at h
  | _ :: _, _ :: _, [], n, h => by simp [mkNodes5] at h
  | (p, ls) :: cl, b :: blks, bk :: bs, n, h => by
    simp only [mkNodes5, List.mem_cons] at h
    rcases h with rfl | h
    · cases b with
      | old b => cases b <;> rfl
      | fence fc n info ls => rfl
      | icode ls => rfl
    · exact mkNodes5_children cl blks bs n h

theorem mkNodes5_length : ∀ (cl : List (Nat × List Bytes)) (blks : List Raw5) (bs : List Bool),
    blks.length = cl.length → bs.length = cl.length → (mkNodes5 cl blks bs).length = cl.length
  | [], _, _, _, _ => by simp [mkNodes5]
  | _ :: _, [], _, h, _ => by simp at h
  | _ :: _, _ :: _, [], _, h => by simp at h
  | (p, ls) :: cl, b :: blks, bk :: bs, h1, h2 => by
    simp only [mkNodes5, List.length_cons]
    rw [mkNodes5_length cl blks bs (by simpa using h1) (by simpa using h2)]

theorem mkNodes5L_length (NL : Nat → Raw5 → Bool → Blocks.Node) :
    ∀ (cl : List (Nat × List Bytes)) (blks : List Raw5) (bs : List Bool),
    blks.length = cl.length → bs.length = cl.length → (mkNodes5L NL cl blks bs).length = cl.length
  | [], _, _, _, _ => by simp [mkNodes5L]
  | _ :: _, [], _, h, _ => by simp at h
  | _ :: _, _ :: _, [], _, h => by simp at h
  | [(p, ls)], [b], [bk], _, _ => by simp [mkNodes5L]
  | [(p, ls)], b :: b2 :: blks, _ :: _, h, _ => by simp at h
  | [(p, ls)], [b], bk :: k2 :: bs, _, h => by simp at h
  | (p, ls) :: x :: cl, [b], _ :: _, h, _ => by simp at h
  | (p, ls) :: x :: cl, b :: b2 :: blks, [bk], _, h => by simp at h
  | (p, ls) :: x :: cl, b :: b2 :: blks, bk :: k2 :: bs, h1, h2 => by
    rw [mkNodes5L_cons, List.length_cons,
      mkNodes5L_length NL (x :: cl) (b2 :: blks) (k2 :: bs) (by simpa using h1) (by simpa using h2)]
    simp

theorem node5_children (p : Nat) (b : Raw5) (bk : Bool) : (node5 p b bk).children = [] := by
  cases b with
  | old b => cases b <;> rfl
  | fence fc n info ls => rfl
  | icode ls => rfl

theorem node5E_children (p : Nat) (b : Raw5) (bk : Bool) : (node5E p b bk).children = [] := by
  cases b with
  | old b => cases b <;> rfl
  | fence fc n info ls => rfl
  | icode ls => rfl

theorem mkNodes5L_children (NL : Nat → Raw5 → Bool → Blocks.Node) (hNL : ∀ p b bk, (NL p b bk).children = []) :
    ∀ (cl : List (Nat × List Bytes)) (blks : List Raw5) (bs : List Bool),
    ∀ n ∈ mkNodes5L NL cl blks bs, n.children = []
  | [], _, _, n, h => by simp [mkNodes5L] at h
  | _ :: _, [], _, n, h => by simp [mkNodes5L] at h
  | _ :: _, _ :: _, [], n, h => by simp [mkNodes5L] at h
  | [(p, ls)], [b], [bk], n, h => by
    simp only [mkNodes5L, List.mem_singleton] at h
    subst h; exact hNL p b bk
  | [(p, ls)], b :: b2 :: blks, bk :: bs, n, h => by
    simp only [mkNodes5L, List.mem_cons, List.not_mem_nil, or_false] at h
    subst h; exact node5_children p b bk
  | [(p, ls)], [b], bk :: k2 :: bs, n, h => by
    simp only [mkNodes5L, List.mem_cons, List.not_mem_nil, or_false] at h
    subst h; exact node5_children p b bk
  | (p, ls) :: x :: cl, b :: blks, bk :: bs, n, h => by
    have e : mkNodes5L NL ((p, ls) :: x :: cl) (b :: blks) (bk :: bs) =
        node5 p b bk :: mkNodes5L NL (x :: cl) blks bs := by
      cases blks with
      | nil => simp [mkNodes5L]
      | cons b2 blks' =>
        cases bs with
        | nil => simp [mkNodes5L]
        | cons k2 bs' => rw [mkNodes5L_cons]
    rw [e, List.mem_cons] at h
    rcases h with rfl | h
    · exact node5_children p b bk
    · exact mkNodes5L_children NL hNL (x :: cl) blks bs n h

/-- only the last block's node depends on `NL` -/
theorem mkNodes5L_congr (NL NL' : Nat → Raw5 → Bool → Blocks.Node) :
    ∀ (cl : List (Nat × List Bytes)) (blks : List Raw5) (bs : List Bool),
    (∀ b, blks.getLast? = some b → ∀ p bk, NL p b bk = NL' p b bk) →
    mkNodes5L NL cl blks bs = mkNodes5L NL' cl blks bs
  | [], _, _, _ => by simp [mkNodes5L]
  | _ :: _, [], _, _ => by simp [mkNodes5L]
  | _ :: _, _ :: _, [], _ => by simp [mkNodes5L]
  | [(p, ls)], [b], [bk], h => by simp [mkNodes5L, h b rfl]
  | [(p, ls)], b :: b2 :: blks, bk :: bs, _ => by simp [mkNodes5L]
  | [(p, ls)], [b], bk :: k2 :: bs, _ => by simp [mkNodes5L]
  | (p, ls) :: x :: cl, b :: blks, bk :: bs, h => by
    cases blks with
    | nil => simp [mkNodes5L]
    | cons b2 blks' =>
      cases bs with
      | nil => simp [mkNodes5L]
      | cons k2 bs' =>
        rw [mkNodes5L_cons, mkNodes5L_cons,
          mkNodes5L_congr NL NL' (x :: cl) (b2 :: blks') (k2 :: bs') (fun b' hb' => h b' (by
            rw [List.getLast?_cons_cons]; exact hb'))]

theorem docTrees_blocks5 {src : Bytes} (env : GM.Inl.Env) (henv : env.escapedSpace = false) :
    ∀ (items : List (Nat × Raw5)) (q : Nat) (bs : List Bool), bs.length = items.length →
      (∀ it ∈ items, Good5' it.2) →
      (∀ x ∈ closedOf q (items.map conv5), ParaAt src x.1 x.2 ∧ x.1 ≤ src.length) →
      GM.Convert.docTrees true env src
          ((mkNodes5 (closedOf q (items.map conv5)) (items.map (·.2)) bs).map (fun n => Tree.node n [])) =
        .ok (items.map fun it => rawNode5 it.2)
  | [], _, _, _, _, _ => rfl
  | _ :: _, _, [], h, _, _ => by simp at h
  | (g, b) :: rest, q, bk :: bs, h, hg, hx => by
    have hx0 := hx (q + g, lines5 b) (by simp [closedOf, conv5])
    have ih := docTrees_blocks5 env henv rest (q + g + (paraBytes (lines5 b)).length + 1) bs (by simpa using h)
      (fun it hit => hg it (by simp [hit])) (fun x hx' => hx x (by simp [closedOf, conv5, hx']))
    simp only [List.map_cons, conv5, closedOf, mkNodes5, GM.Convert.docTrees,
      docTree_block5 env henv b (q + g) bk (hg (g, b) (by simp)) hx0.1 hx0.2, bind, Except.bind, pure, Except.pure]
    rw [ih]

/-- the model of `goldmark.Convert` on the source of a stage-5 document of good blocks -/
theorem convert_raw5 (uc : List (Nat × (Bool × Bool))) (items : List (Nat × Raw5)) (trail : Nat)
    (hgood : ∀ it ∈ items, Good5' it.2) (hnoic : ∀ it ∈ items, isIcB it.2 = false) :
    GM.Convert.convertCore uc cmOpts (rawDoc (items.map conv5) trail) = .ok (hdocHtml (items.map (·.2))) := by
  have hno : ∀ it ∈ items.map conv5, ∀ l ∈ it.2, ∀ c ∈ l, c ≠ 10 := by
    intro x hx
    obtain ⟨it, hit, rfl⟩ := List.mem_map.mp hx
    exact lines5_no_nl it.2 (hgood it hit)
  have hne : ∀ it ∈ items.map conv5, it.2 ≠ [] := by
    intro x hx
    obtain ⟨it, hit, rfl⟩ := List.mem_map.mp hx
    exact lines5_ne it.2 (good5_of it.2 (hgood it hit))
  obtain ⟨s', bs, h1, h2, h3, h4⟩ := runT_doc5 items trail (fun it hit => good5_of it.2 (hgood it hit)) hnoic hno
  have hd := docAt_raw (items.map conv5) trail [] hno
  simp only [List.nil_append, List.length_nil] at hd
  have hcl : ∀ x ∈ closedOf 0 (items.map conv5), ParaAt (rawDoc (items.map conv5) trail) x.1 x.2 ∧
      x.1 ≤ (rawDoc (items.map conv5) trail).length :=
    fun x hx => ⟨docAt_paras _ trail 0 hd x hx, closedOf_le _ trail 0 hd hne x hx⟩
  have hlen : (closedOf 0 (items.map conv5)).length = items.length := by rw [closedOf_length]; simp
  have hml := mkNodes5_length (closedOf 0 (items.map conv5)) (items.map (·.2)) bs (by simp [hlen]) (by rw [hlen]; exact h2)
  have htree : treeOf s'.nodes s'.nodes.length 0 =
      .node (addKids { kind := .document } 0 items.length)
        ((mkNodes5 (closedOf 0 (items.map conv5)) (items.map (·.2)) bs).map fun n => Tree.node n []) := by
    rw [h3]
    have hk := treeOf_kids (mkNodes5 (closedOf 0 (items.map conv5)) (items.map (·.2)) bs).length
      (mkNodes5 (closedOf 0 (items.map conv5)) (items.map (·.2)) bs)
      [addKids { kind := .document } 0 items.length] (mkNodes5_children _ _ _)
    simp only [List.length_cons, treeOf]
    have e1 : ((addKids { kind := .document } 0 items.length ::
        mkNodes5 (closedOf 0 (items.map conv5)) (items.map (·.2)) bs).getD 0 default) =
        addKids { kind := .document } 0 items.length := rfl
    rw [e1]
    have e2 : (addKids { kind := .document } 0 items.length).children =
        List.range' 1 (mkNodes5 (closedOf 0 (items.map conv5)) (items.map (·.2)) bs).length := by
      rw [hml, hlen]; simp [addKids]
    rw [e2]
    congr 1
  have hdt := docTrees_blocks5 (src := rawDoc (items.map conv5) trail) { refs := s'.pc.refs, uc := uc } rfl items 0 bs h2
    hgood hcl
  have hlev : ∀ b ∈ items.map (·.2), ∀ level l, b = Raw5.old (RawBlock.atx level l) → level ≤ 6 := by
    intro b hb level l he
    obtain ⟨it, hit, rfl⟩ := List.mem_map.mp hb
    have := hgood it hit
    rw [he] at this
    exact this.2.1
  unfold GM.Convert.convertCore GM.Convert.convertWith GM.Convert.parseDoc GM.Convert.blockPhase
  have hrun : runT (GM.Convert.paragraphTransformers true) (rawDoc (items.map conv5) trail) = .ok s' := h1
  simp only [hrun, GM.Convert.liftErr, bind, Except.bind, htree, GM.Convert.docTree, hdt, GM.Convert.inlinePhase,
    addKids, GM.Convert.isRawKind, GM.Convert.blockKind, pure, Except.pure]
  have hit0 : GM.Convert.inlineTrees (rawDoc (items.map conv5) trail) [] = .ok [] := rfl
  have := renderDoc_hdoc (items.map (·.2)) hlev
  simp only [hdocNode, List.map_map] at this
  simpa [hit0, Function.comp_def] using this

/-! ### stage-5 fragment documents -/

open GM.Spec.CM GM.Spec.CMFrag

def convH (it : HItem) : Nat × Raw5 := (it.gap, rawOfH it.block)

theorem isIcB_rawOfH (b : HBlock) : isIcB (rawOfH b) = false := by
  cases b <;> rfl

theorem paraBytes_rawOfH (b : HBlock) : paraBytes (lines5 (rawOfH b)) = spellHBlock b := by
  cases b with
  | base b => exact paraBytes_rawOfG b
  | fcode tilde n info lines =>
    simp [rawOfH, lines5, spellHBlock, paraBytes, List.flatMap_append]

theorem rawTail_spellH : ∀ (items : List HItem) (trail : Nat),
    rawTail ((items.map convH).map conv5) trail = spellHItems false items ++ GM.Spec.CMFrag.blanks trail
  | [], 0 => rfl
  | [], t + 1 => by simp [rawTail, spellHItems, blanks_eq, GM.Spec.CMFrag.blanks, List.replicate_succ]
  | it :: rest, trail => by
    have ih := rawTail_spellH rest trail
    simp only [List.map_cons, convH, conv5, rawTail, ih, spellHItems, paraBytes_rawOfH, blanks_eq]
    simp [GM.Spec.CMFrag.blanks, List.replicate_succ]

theorem spellH_raw (d : HDoc) : spellH d = rawDoc ((d.items.map convH).map conv5) d.trail := by
  obtain ⟨items, trail⟩ := d
  cases items with
  | nil => rfl
  | cons it rest =>
    simp only [spellH, List.map_cons, convH, conv5, rawDoc, rawTail_spellH, spellHItems, paraBytes_rawOfH, blanks_eq]
    simp

theorem printable_code : ∀ c : UInt8, printable c = true → c ≠ 10 ∧ c ≠ 9 := GM.forall_uint8 _ (by decide +kernel)

theorem codeLine_of_ok (fc : UInt8) (hfc : fc = 96 ∨ fc = 126) (l : Bytes) (h : codeLineOK fc l = true) :
    CodeLine fc l ∧ ∀ c ∈ l, c ≠ 10 := by
  simp only [codeLineOK, Bool.and_eq_true, List.all_eq_true] at h
  obtain ⟨hp, hh⟩ := h
  refine ⟨?_, fun c hc => (printable_code c (hp c hc)).1⟩
  intro c0 t he
  cases l with
  | nil =>
    simp at he
    obtain ⟨rfl, _⟩ := he
    rcases hfc with h | h <;> subst h <;> decide
  | cons a r =>
    simp at he
    obtain ⟨rfl, _⟩ := he
    simp only [List.head?_cons, Bool.and_eq_true, bne_iff_ne, ne_eq] at hh
    exact ⟨hh.1, (printable_code a (hp a (by simp))).2, hh.2⟩

theorem good5_rawOfH (b : HBlock) (h : hblockOK b = true) : Good5' (rawOfH b) := by
  cases b with
  | base b => exact good4_rawOfG b h
  | fcode tilde n info lines =>
    simp only [hblockOK, Bool.and_eq_true, List.all_eq_true] at h
    have hfc : fenceChar tilde = 96 ∨ fenceChar tilde = 126 := by
      cases tilde
      · left; rfl
      · right; rfl
    exact ⟨hfc, h.1, fun l hl => codeLine_of_ok _ hfc l (h.2 l hl)⟩

theorem hfrag_item {d : HDoc} (h : HFrag d) {it : HItem} (hit : it ∈ d.items) : hblockOK it.block = true := by
  unfold HFrag hfragB at h
  simp only [List.all_eq_true] at h
  exact h it hit

/-- **the conformance theorem of the stage-5 fragment** -/
theorem fragment5_conforms (d : HDoc) (h : HFrag d) (uc : List (Nat × (Bool × Bool))) :
    GM.Convert.convertCore uc cmOpts (spellH d) = .ok (expectedH d) := by
  have hgood : ∀ it ∈ d.items.map convH, Good5' it.2 := by
    intro x hx
    obtain ⟨it, hit, rfl⟩ := List.mem_map.mp hx
    exact good5_rawOfH it.block (hfrag_item h hit)
  have hnoic : ∀ it ∈ d.items.map convH, isIcB it.2 = false := by
    intro x hx
    obtain ⟨it, hit, rfl⟩ := List.mem_map.mp hx
    exact isIcB_rawOfH it.block
  have hc := convert_raw5 uc (d.items.map convH) d.trail hgood hnoic
  rw [spellH_raw, hc]
  have he : expectedH d = hdocHtml ((d.items.map (·.block)).map rawOfH) := by
    rw [hdocHtml_spelled _ (by
      intro b hb
      obtain ⟨it, hit, rfl⟩ := List.mem_map.mp hb
      exact hfrag_item h hit)]
    simp [expectedH, List.flatMap_map]
  rw [he]
  simp [convH, List.map_map, Function.comp_def]

end GM.Proof.CMFrag
